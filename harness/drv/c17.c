/* C17 driver: CONNECT packet, command-topic parsers and number rendering of /repo/src/user/supla_esp_mqtt.c (+ mqtt.c).
 * events:
 *   CFG flags : <Username field image (SUPLA_EMAIL_MAXSIZE bytes)> <Password field image (SUPLA_LOCATION_PWD_MAXSIZE)>
 *               <MqttTopicPrefix field image (MQTT_PREFIX_SIZE)> <GUID (16)>       raw bytes of the configuration fields
 *   FORM : <bytes>         one HTTP request (configuration form) through the real supla_esp_connectcb / supla_esp_recv_callback /
 *                          supla_esp_discon_callback of supla_esp_cfgmode.c (no output; the stored configuration shows in CONNECT)
 *   CONNECT                real supla_esp_mqtt_init, dns found, reconnect, conn_on_connect, mqtt_sync; prints the computed
 *                          prefix and the first packet handed to espconn_sent
 *   SETPFX : <hex>         replace the computed prefix (C string) for the parser events
 *   SETON tlen : <topic><message>     supla_esp_mqtt_parser_set_on
 *   RSFB tlen : <topic><message>      supla_esp_mqtt_parser_rs_fb_action
 *   BRI tlen : <topic><message>       supla_esp_mqtt_parser_set_brightness (built with -DMQTT_DIMMER_SUPPORT)
 *   VAL unsigned precision hi lo      supla_esp_mqtt_prepare_val on a 25-byte heap buffer, value = hi*2^32+lo
 * outputs:
 *   PREFIX : <hex> | WIRE : <hex> | SETON ret channel on | RSFB ret channel action percentage tilt | BRI ret channel brightness | VAL : <hex of the C string> */
#include <string.h>
#include <os_type.h>
#include <osapi.h>
#include <supla_esp.h>
#include <supla_esp_cfg.h>
#include <supla_esp_mqtt.h>
#include <espconn.h>
#include <user_interface.h>
#include "mqtt.h"
#include "verif.h"
#include "c16_access.h"
#include "drvmain.h"

void supla_esp_recv_callback(void *arg, char *pdata, unsigned short len);
void supla_esp_connectcb(void *arg);
void supla_esp_discon_callback(void *arg);
static int wire_printed = 0, inited = 0, in_form = 0;
static char *own_prefix = NULL;

static void on_sent(struct espconn *e, const unsigned char *p, unsigned len, int result) {
  (void)e; (void)result;
  if (in_form) return;
  if (!wire_printed) { wire_printed = 1; fprintf(stdout, "WIRE : "); vout_hex("", p, len); }
}
/* the uninitialised `password[300]` of supla_esp_mqtt_conn_on_connect: make the stack content deterministic and non-zero */
static void __attribute__((noinline)) dirty_stack(void) {
  volatile unsigned char junk[4096];
  for (unsigned i = 0; i < sizeof junk; i++) junk[i] = (unsigned char)(0x41 + (i % 23));
}

static void do_init(void) {
  if (inited) return;
  inited = 1;
  supla_esp_mqtt_init();
  c16_set_started(1);
}

static void run_case(int n, char **lines) {
  static unsigned char buf[70000];
  alarm(5);    /* a hang of the code under test ends this case as `crash sig=14` instead of stalling the batch */
  v_quiet = 1; v_on_sent = on_sent;
  memset(&supla_esp_cfg, 0, sizeof supla_esp_cfg);
  strcpy(supla_esp_cfg.Server, "10.0.0.1"); supla_esp_cfg.Port = 1883;
  supla_esp_cfg.Flags = CFG_FLAG_MQTT_ENABLED;
  for (int i = 0; i < n; i++) {
    char *l = lines[i];
    char *col = strchr(l, ':'); int len = col ? hex2bytes(col + 1 + (col[1] == ' '), buf, sizeof buf) : 0;
    if (strncmp(l, "CFG", 3) == 0) {
      unsigned flags = 0; sscanf(l + 3, "%u", &flags);
      int need = SUPLA_EMAIL_MAXSIZE + SUPLA_LOCATION_PWD_MAXSIZE + MQTT_PREFIX_SIZE + SUPLA_GUID_SIZE;
      if (len != need) { vout("BADCFG %d %d", len, need); continue; }
      unsigned char *p = buf;
      memcpy(supla_esp_cfg.Username, p, SUPLA_EMAIL_MAXSIZE); p += SUPLA_EMAIL_MAXSIZE;
      memcpy(supla_esp_cfg.Password, p, SUPLA_LOCATION_PWD_MAXSIZE); p += SUPLA_LOCATION_PWD_MAXSIZE;
      memcpy(supla_esp_cfg.MqttTopicPrefix, p, MQTT_PREFIX_SIZE); p += MQTT_PREFIX_SIZE;
      memcpy(supla_esp_cfg.GUID, p, SUPLA_GUID_SIZE);
      supla_esp_cfg.Flags = (unsigned char)flags;
    } else if (strncmp(l, "FORM", 4) == 0) {
      static struct espconn conn; static esp_tcp tcp;
      memset(&conn, 0, sizeof conn); memset(&tcp, 0, sizeof tcp); conn.type = ESPCONN_TCP; conn.proto.tcp = &tcp;
      if (len > 65535) len = 65535;
      char *seg = malloc(len ? len : 1); memcpy(seg, buf, len);
      in_form = 1;
      supla_esp_connectcb(&conn);
      supla_esp_recv_callback(&conn, seg, (unsigned short)len);
      supla_esp_discon_callback(&conn);
      in_form = 0;
      free(seg);
    } else if (strncmp(l, "CONNECT", 7) == 0) {
      do_init();
      fprintf(stdout, "PREFIX : "); vout_hex("", c16_prefix(), c16_prefix_len());
      c16_dns_found(0x0100000A);
      c16_sync();
      dirty_stack();
      c16_on_connect();
      c16_sync();
      if (!wire_printed) vout("WIRE :");
    } else if (strncmp(l, "SETPFX", 6) == 0) {
      do_init();
      own_prefix = malloc((size_t)len + 1); memcpy(own_prefix, buf, (size_t)len); own_prefix[len] = 0;
      c17_set_prefix(own_prefix, (unsigned)len);
    } else if (strncmp(l, "SETON", 5) == 0 || strncmp(l, "RSFB", 4) == 0) {
      do_init();
      int is_rs = l[0] == 'R'; unsigned tlen = 0; sscanf(l + (is_rs ? 4 : 5), "%u", &tlen);
      if ((int)tlen > len) tlen = (unsigned)len;
      /* exact-size heap copies so that any read past topic/message is seen by ASan */
      unsigned mlen = (unsigned)len - tlen;
      char *t = malloc(tlen ? tlen : 1), *m = malloc(mlen ? mlen : 1);
      memcpy(t, buf, tlen); memcpy(m, buf + tlen, mlen);
      uint8 ch = 0, on = 0, action = 0, pct = 0, tilt = 0;
      if (!is_rs) {
        uint8 r = supla_esp_mqtt_parser_set_on(t, (uint16_t)tlen, m, mlen, &ch, &on);
        if (r) vout("SETON %u %u %u", (unsigned)r, (unsigned)ch, (unsigned)on); else vout("SETON 0 0 0");
      } else {
        uint8 r = supla_esp_mqtt_parser_rs_fb_action(t, (uint16_t)tlen, m, mlen, &ch, &action, &pct, &tilt);
        if (r) vout("RSFB %u %u %u %u %u", (unsigned)r, (unsigned)ch, (unsigned)action, (unsigned)pct, (unsigned)tilt);
        else vout("RSFB 0 0 0 0 0");
      }
      free(t); free(m);
    } else if (strncmp(l, "BRI", 3) == 0) {
      do_init();
      unsigned tlen = 0; sscanf(l + 3, "%u", &tlen);
      if ((int)tlen > len) tlen = (unsigned)len;
      unsigned mlen = (unsigned)len - tlen;
      char *t = malloc(tlen ? tlen : 1), *m = malloc(mlen ? mlen : 1);
      memcpy(t, buf, tlen); memcpy(m, buf + tlen, mlen);
      uint8 ch = 0, bri = 0;
#ifdef MQTT_DIMMER_SUPPORT
      uint8 r = supla_esp_mqtt_parser_set_brightness(t, (uint16_t)tlen, m, mlen, &ch, &bri);
#else
      uint8 r = 0;
#endif
      if (r) vout("BRI %u %u %u", (unsigned)r, (unsigned)ch, (unsigned)bri); else vout("BRI 0 0 0");
      free(t); free(m);
    } else if (strncmp(l, "VAL", 3) == 0) {
      unsigned uns = 0, prec = 0; unsigned long long hi = 0, lo = 0; sscanf(l + 3, "%u %u %llu %llu", &uns, &prec, &hi, &lo);
      unsigned long long v = (hi << 32) | (lo & 0xFFFFFFFFULL);
      char *b = malloc(25); memset(b, 0x55, 25);
      supla_esp_mqtt_prepare_val(b, (uint8)uns, (_supla_int64_t)v, (uint8)prec);
      unsigned k = 0; while (k < 25 && b[k]) k++;
      fprintf(stdout, "VAL : "); vout_hex("", b, k);
      free(b);
    }
  }
}
