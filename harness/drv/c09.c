/* C09 driver: the real supla_esp_gpio_rs_timer_cb (with the real move_position / calibrate /
 * get_current_position / _tilt / set_relay) of /repo on one shutter, called at scripted times with
 * scripted output state.
 * events:  CFG boot full_open full_close tilt_ms tilt_type margin pos0 tilt0 now0
 *          SET d           outputs of the shutter: 0 off, 1 down, 2 up (written to the pins directly)
 *          POKE pos tilt   overwrite the stored position / tilt
 *          RESEND ph       ph us after the last callback the command for the direction already energised is sent again:
 *                          the real supla_esp_gpio_relay_hi(port of that direction, 1) runs (pins unchanged)
 *          CB dt           the timer callback runs dt microseconds after the previous one
 * outputs: REPORT : <8 value bytes>   (the value handed to supla_esp_channel_value__changed, inside the callback)
 *          ST pos tilt up_time down_time dir reported_position reported_tilt   (after every CB) */
#include <string.h>
#include <stdlib.h>
#include <os_type.h>
#include <osapi.h>
#include <supla_esp.h>
#include <supla_esp_cfg.h>
#include <supla_esp_gpio.h>
#include <supla_esp_rs_fb.h>
#include <supla_esp_devconn.h>
#include "verif.h"
#include "vboard.h"
#include "drvmain.h"

#define UP_GPIO 4
#define DOWN_GPIO 5

static unsigned long long last_cb;

/* called by the (wrapped) rs_fb.c instead of supla_esp_channel_value__changed; forwards to the real one */
void c09_value_changed_hook(int channel_number, char value[SUPLA_CHANNELVALUE_SIZE]) {
  (void)channel_number;
  vout_hex("REPORT : ", value, SUPLA_CHANNELVALUE_SIZE);
  supla_esp_channel_value__changed(channel_number, value);
}

static void boot(long long *a) {
  v_quiet = 1;
  memset(&v_board, 0, sizeof v_board);
  v_board.nrelay = 2;
  v_board.relay[0].gpio = UP_GPIO; v_board.relay[0].channel = 0;
  v_board.relay[1].gpio = DOWN_GPIO; v_board.relay[1].channel = 0;
  v_board.nrs = 1; v_board.rs[0].up_idx = 0; v_board.rs[0].down_idx = 1;
  memset(&supla_esp_cfg, 0, sizeof supla_esp_cfg); memset(&supla_esp_state, 0, sizeof supla_esp_state);
  memcpy(supla_esp_cfg.TAG, "SUPLA", 5);
  v_boot = (unsigned)a[0];
  supla_esp_cfg.Time1[0] = (unsigned)a[1]; supla_esp_cfg.Time2[0] = (unsigned)a[2]; supla_esp_cfg.Time3[0] = (unsigned)a[3];
  supla_esp_cfg.TiltControlType[0] = (unsigned char)a[4];
  supla_esp_state.rs_position[0] = (int)a[6]; supla_esp_state.tilt[0] = (int)a[7];
  supla_esp_gpio_init();
  supla_esp_gpio_rs_set_time_margin(&supla_rs_cfg[0], (int)a[5]);
  for (int i = 0; i < RS_MAX_COUNT; i++) os_timer_disarm(&supla_rs_cfg[i].timer);
  if (v_now > (unsigned long long)a[8]) { vout("BOOT-TOO-LONG %llu", v_now); }
  v_now = (unsigned long long)a[8];
  last_cb = v_now;
}

static int dir_now(void) {
  int u = (v_gpio_out >> UP_GPIO) & 1, d = (v_gpio_out >> DOWN_GPIO) & 1;
  return u ? 2 : (d ? 1 : 0);
}

static void run_case(int n, char **lines) {
  long long a[16];
  int booted = 0;
  for (int i = 0; i < n; i++) {
    char *l = lines[i]; char *p = strchr(l, ' ');
    int na = 0;
    while (p && *p && *p != ':' && na < 16) { while (*p == ' ') p++; if (!*p || *p == ':') break; a[na++] = strtoll(p, &p, 0); }
    if (!strncmp(l, "CFG", 3)) {
      if (na < 9) { vout("BAD-CFG"); return; }
      boot(a); booted = 1;
    } else if (!booted) {
      long long d[9] = {1, 0, 0, 0, 0, 110, 0, 0, 0}; boot(d); booted = 1; i--; continue;
    } else if (!strncmp(l, "SET", 3)) {
      int d = (int)a[0];
      supla_esp_gpio_set_hi(UP_GPIO, d == 2 ? 1 : 0);
      supla_esp_gpio_set_hi(DOWN_GPIO, d == 1 ? 1 : 0);
    } else if (!strncmp(l, "POKE", 4)) {
      supla_esp_state.rs_position[0] = (int)a[0]; supla_esp_state.tilt[0] = (int)a[1];
    } else if (!strncmp(l, "RESEND", 6)) {
      int d = dir_now();
      if (d != 0) {
        unsigned long long at = last_cb + (unsigned long long)a[0];
        if (v_now < at) v_now = at;
        supla_esp_gpio_relay_hi(d == 2 ? UP_GPIO : DOWN_GPIO, 1);
        v_now = at;        /* the 10.02 ms busy-wait of the relay operation is not part of the script */
      }
    } else if (!strncmp(l, "CB", 2)) {
      unsigned long long target = last_cb + (unsigned long long)a[0];
      if (v_now > target) vout("CLOCK-AHEAD %llu %llu", v_now, target);
      v_now = target; last_cb = target;
      supla_esp_gpio_rs_timer_cb(&supla_rs_cfg[0]);
      v_now = target;   /* time burnt by os_delay_us inside the callback (relay switching) is not part of the script */
      vout("ST %d %d %u %u %d %d %d :", supla_esp_state.rs_position[0], supla_esp_state.tilt[0],
           supla_rs_cfg[0].up_time, supla_rs_cfg[0].down_time, dir_now(),
           (int)supla_esp_gpio_rs_get_current_position(&supla_rs_cfg[0]),
           (int)supla_esp_gpio_rs_get_current_tilt(&supla_rs_cfg[0]));
    }
  }
}
