/* C14 driver: the real supla_esp_connectcb / supla_esp_recv_callback / supla_esp_discon_callback
 * (parser, commit block, supla_esp_cfg_save on the flash double, page rendering, responses).
 * events:  CFG : <previous configuration image>      (before the first segment)
 *          SEG : <bytes of one TCP segment>          (exact-size heap buffer, so that reads past the segment are seen)
 *          NEWCONN                                   (disconnect + new connection: fresh parser state)
 * outputs after every SEG:
 *   SEG <code1> <code2> <saves> <flash==cfg> <restarts> <matched> <step> <type> <cur> : <supla_esp_cfg image>
 *   CMD : <user_cmd as C string>                     (only when user_cmd is allocated) */
#include <string.h>
#include <stdlib.h>
#include <os_type.h>
#include <osapi.h>
#include <espconn.h>
#include <supla_esp.h>
#include <supla_esp_cfg.h>
#include "verif.h"
#include "drvmain.h"

void supla_esp_recv_callback(void *arg, char *pdata, unsigned short len);
void supla_esp_connectcb(void *arg);
void supla_esp_discon_callback(void *arg);
void c14_pvars(struct espconn *conn, int *step, int *type, int *cur, int *matched, int *offset);
void c14_pv_canary_set(struct espconn *conn);
int c14_pv_canary_ok(struct espconn *conn);

static int codes[8], ncodes, saves;
static void on_sent(struct espconn *e, const unsigned char *p, unsigned len, int result) {
  (void)e; (void)result;
  if (len >= 12 && memcmp(p, "HTTP/1.1 ", 9) == 0 && ncodes < 8)
    codes[ncodes++] = (p[9] - '0') * 100 + (p[10] - '0') * 10 + (p[11] - '0');
}
static void on_flash(const char *op, unsigned addr, unsigned len) {
  (void)len;
  if (strcmp(op, "write") == 0 && addr == CFG_SECTOR * 4096u) saves++;
}
#ifdef C14_POISON
/* plain build: fill the stack below us with a recognisable pattern so that a read of an
 * uninitialised local shows in the observables */
static void __attribute__((noinline)) poison_stack(void) {
  volatile unsigned char pad[16384];
  for (unsigned i = 0; i < sizeof pad; i++) pad[i] = 0xAA;
}
#endif

static void run_case(int n, char **lines) {
  static unsigned char buf[70000];
  static struct espconn conn; static esp_tcp tcp;
  v_quiet = 1; v_on_sent = on_sent; v_on_flash = on_flash;
  memset(&supla_esp_cfg, 0, sizeof supla_esp_cfg);
  memset(&conn, 0, sizeof conn); memset(&tcp, 0, sizeof tcp); conn.type = ESPCONN_TCP; conn.proto.tcp = &tcp;
  supla_esp_connectcb(&conn); c14_pv_canary_set(&conn);
  for (int i = 0; i < n; i++) {
    char *l = lines[i];
    char *c = strchr(l, ':'); int len = c ? hex2bytes(c + 1 + (c[1] == ' '), buf, sizeof buf) : 0;
    if (strncmp(l, "CFG", 3) == 0) {
      memset(&supla_esp_cfg, 0, sizeof supla_esp_cfg);
      memcpy(&supla_esp_cfg, buf, len < (int)sizeof supla_esp_cfg ? len : (int)sizeof supla_esp_cfg);
    } else if (strncmp(l, "NEWCONN", 7) == 0) {
      supla_esp_discon_callback(&conn);
      supla_esp_connectcb(&conn); c14_pv_canary_set(&conn);
    } else if (strncmp(l, "SEG", 3) == 0) {
      if (len > 65535) len = 65535;
      char *seg = malloc(len ? len : 1); memcpy(seg, buf, len);
      ncodes = 0; saves = 0; int r0 = v_restart_count;
#ifdef C14_POISON
      if (!getenv("C14_NOPOISON")) poison_stack();
#endif
      supla_esp_recv_callback(&conn, seg, (unsigned short)len);
      free(seg);
      int step, type, cur, matched, offset; c14_pvars(&conn, &step, &type, &cur, &matched, &offset);
      int same = memcmp(v_flash + CFG_SECTOR * 4096u, &supla_esp_cfg, sizeof supla_esp_cfg) == 0;
      fprintf(stdout, "SEG %d %d %d %d %d %d %d %d %d : ", ncodes > 0 ? codes[0] : 0, ncodes > 1 ? codes[1] : 0,
              saves, saves ? same : 1, v_restart_count - r0, matched, step, type, cur);
      vout_hex("", &supla_esp_cfg, sizeof supla_esp_cfg);
      if (user_cmd) vout_hex("CMD : ", user_cmd, strnlen(user_cmd, CMD_MAXSIZE));
      if (!c14_pv_canary_ok(&conn)) { vout("PVOVERRUN :"); c14_pv_canary_set(&conn); }
    }
  }
}
