/* C02 driver: real srpc_async_call / srpc_ds_async_* / srpc_iterate / proto.c / supla_esp_data_write /
 * supla_esp_devconn_iterate; espconn_sent results are scripted per ITER event.
 * events:  CALL <call_id> : <payload-hex>
 *          DS <k> <call_id> <size> : <struct image>     (typed entry point k of c02_calls.h; ints 2,3 are for the model)
 *          ITER <r1> <r2> <r3> :                          (results of the next espconn_sent calls, then 0)
 *          BOOTRR <n> :                                   (first line only: value of next_rr_id before the first call)
 * outputs: RET <rr_id as unsigned> | WIRE : <bytes given to espconn_sent with result 0> | HARDERR |
 *          SENDBUFEXCEEDED | OUTBUFOVERFLOW | RESTART */
#include <string.h>
#include <os_type.h>
#include <osapi.h>
#include <supla_esp.h>
#include <supla_esp_devconn.h>
#include <supla_esp_cfg.h>
#include <espconn.h>
#include "verif.h"
#include "verif_access.h"
#include "c02_calls.h"
#include "drvmain.h"

void supla_esp_devconn_iterate(void *timer_arg);
void vp_c02_set_next_rr(void *proto, unsigned v);
_supla_int_t srpc_async_call(void *_srpc, unsigned _supla_int_t call_id, char *data, unsigned _supla_int_t data_size);

static void handler(void *srpc, unsigned _supla_int_t rr_id, unsigned _supla_int_t call_id, void *user, unsigned char ver) {
  (void)srpc; (void)rr_id; (void)call_id; (void)user; (void)ver;
}
static void on_restart(void) { vout("RESTART"); fflush(stdout); _exit(0); }
static void on_log(int prio, const char *fmt) {
  (void)prio;
  if (!fmt) return;
  if (strstr(fmt, "Send buffer size exceeded")) vout("SENDBUFEXCEEDED");
  else if (strstr(fmt, "sproto_out_buffer_append error")) vout("OUTBUFOVERFLOW");
}
static void on_sent(struct espconn *e, const unsigned char *p, unsigned len, int result) {
  (void)e;
  signed char r = (signed char)result;      /* what the caller of the sint8 function sees */
  if (r == 0) vout_hex("WIRE : ", p, len);
  else if (r != ESPCONN_INPROGRESS && r != ESPCONN_MAXNUM) vout("HARDERR");
}

static void run_case(int n, char **lines) {
  static unsigned char buf[70000];
  v_quiet = 1; v_on_restart = on_restart; v_on_log = on_log; v_on_sent = on_sent;
  v_boot = 0; v_sent_default = 0; v_sent_n = 0; v_sent_i = 0;
  memset(&supla_esp_cfg, 0, sizeof supla_esp_cfg);
  strcpy(supla_esp_cfg.Email, "a@b.c"); strcpy(supla_esp_cfg.Server, "srv");
  supla_esp_devconn_init();
  vd_srpc_init_with_handler(handler);
  vd_set_registered(1);
  void *srpc = vd_srpc();
  for (int i = 0; i < n; i++) {
    char *l = lines[i];
    char *c = strchr(l, ':');
    int len = c ? hex2bytes(c + 1 + (c[1] == ' '), buf, sizeof buf) : 0;
    if (strncmp(l, "BOOTRR", 6) == 0) {
      if (i == 0) vp_c02_set_next_rr(vs_proto(srpc), (unsigned)strtoull(l + 6, NULL, 10));
    } else if (strncmp(l, "CALL", 4) == 0) {
      unsigned long long cid = strtoull(l + 4, NULL, 10);
      /* an exact-size heap copy so that ASan sees any read beyond the payload */
      char *d = len > 0 ? malloc(len) : NULL;
      if (len > 0) memcpy(d, buf, len);
      _supla_int_t r = srpc_async_call(srpc, (unsigned _supla_int_t)cid, d, (unsigned _supla_int_t)len);
      free(d);
      vout("RET %u", (unsigned)r);
    } else if (strncmp(l, "DS", 2) == 0) {
      int k = (int)strtol(l + 2, NULL, 10);
      _supla_int_t r = c02_ds_call(srpc, k, buf, len);
      vout("RET %u", (unsigned)r);
    } else if (strncmp(l, "ITER", 4) == 0) {
      char *p = l + 4; v_sent_n = 0; v_sent_i = 0;
      while (p < (c ? c : l + strlen(l)) && v_sent_n < 16) {
        char *q; long v = strtol(p, &q, 10);
        if (q == p) break;
        v_sent_script[v_sent_n++] = (int)v; p = q;
      }
      supla_esp_devconn_iterate(NULL);
    }
  }
}
