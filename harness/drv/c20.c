/* C20 driver: the real supla_esp_dns_client.c (through harness/wrap/c20_dns_wrap.c) on the SDK doubles.
 * events:  RESOLVE : <name bytes>      supla_esp_dns_resolve(name, on_result)   (name is cut at its first 0 byte)
 *          CONNCB | DISCCB | RECONCB <err>   the callbacks registered on the resolver's espconn (skipped when none is registered)
 *          RECV : <hex>                 recv callback on a heap copy of exactly that many bytes
 *          SENTRES <r>                  result of every following espconn_sent
 *          CONNRES <r>                  result of every following espconn_connect (the link step wraps espconn_connect:
 *                                       the shared double still records the call, this driver chooses the return value)
 *          DISCRES <r>                  result of every following espconn_disconnect (wrapped like espconn_connect)
 *          ADV <us>                     virtual time passes, due timers fire in (due, arming order)
 *          DUMP                         print the resolver's state
 * outputs: CB 1 : <4 address bytes> | CB 0 :          one line per invocation of the result callback
 *          CONNECT <port> <t> <r> : <ip>  espconn_connect (t = microseconds since boot, r = the value it returns)
 *          DISCONNECT <t> :             espconn_disconnect
 *          SENT <r> <t> : <bytes>       espconn_sent with a buffer;  SENTNULL <r> <len> <t> :  with a NULL buffer
 *          STATE <try_counter> <success> <cb pending> <request NULL> <request len> <timeout armed> <retry armed> : <result_ipv4> */
#include <string.h>
#include <stdlib.h>
#include <os_type.h>
#include <osapi.h>
#include <supla_esp.h>
#include <espconn.h>
#include <supla_esp_dns_client.h>
#include "verif.h"
#include "c20_dns.h"
#include <sys/resource.h>
#include "drvmain.h"

static void on_result(ip_addr_t *ip) {
  if (ip) vout_hex("CB 1 : ", ip, 4); else vout("CB 0 :");
}
static int connect_res = 0;
/* linked with -Wl,--wrap=espconn_connect: the resolver's calls land here */
sint8 __real_espconn_connect(struct espconn *e);
sint8 __wrap_espconn_connect(struct espconn *e) { __real_espconn_connect(e); return (sint8)connect_res; }
static int disconnect_res = 0;
sint8 __real_espconn_disconnect(struct espconn *e);
sint8 __wrap_espconn_disconnect(struct espconn *e) { __real_espconn_disconnect(e); return (sint8)disconnect_res; }
static void on_connect(struct espconn *e) {
  fprintf(stdout, "CONNECT %d %llu %d : ", e->proto.tcp ? e->proto.tcp->remote_port : -1, v_now, connect_res);
  vout_hex("", e->proto.tcp ? e->proto.tcp->remote_ip : (uint8 *)"", e->proto.tcp ? 4 : 0);
}
static void on_disconnect(struct espconn *e) { (void)e; vout("DISCONNECT %llu :", v_now); }
static void on_sent(struct espconn *e, const unsigned char *p, unsigned len, int r) {
  (void)e;
  if (p == NULL) { vout("SENTNULL %d %u %llu :", r, len, v_now); return; }
  fprintf(stdout, "SENT %d %llu : ", r, v_now); vout_hex("", p, len);
}

static void run_case(int n, char **lines) {
  static unsigned char buf[70000];
  /* a callback that does not return: the child is ended by SIGXCPU after 1 s of its own CPU time (a normal case
   * needs a few ms; CPU time, so a loaded machine does not matter), SIGALRM as a wall-clock backstop.
   * drvmain.h reports it as "#STATUS crash sig=24" (or sig=14). */
  struct rlimit rl = {1, 2}; setrlimit(RLIMIT_CPU, &rl); alarm(30);
  v_quiet = 1; v_on_connect = on_connect; v_on_disconnect = on_disconnect; v_on_sent = on_sent;
  v_sent_default = 0;
  supla_esp_dns_client_init();
  struct espconn *c = vdns_conn();
  for (int i = 0; i < n; i++) {
    char *l = lines[i];
    char *colon = strchr(l, ':');
    if (strncmp(l, "RESOLVE", 7) == 0) {
      int len = colon ? hex2bytes(colon + 1 + (colon[1] == ' '), buf, sizeof buf - 1) : 0;
      char *name = malloc((size_t)len + 1);            /* exact allocation: reads past the terminator are caught */
      memcpy(name, buf, (size_t)len); name[len] = 0;
      supla_esp_dns_resolve(name, on_result);
      free(name);
    } else if (strncmp(l, "CONNCB", 6) == 0) {
      if (c->proto.tcp && c->proto.tcp->connect_callback) c->proto.tcp->connect_callback(c);
    } else if (strncmp(l, "DISCCB", 6) == 0) {
      if (c->proto.tcp && c->proto.tcp->disconnect_callback) c->proto.tcp->disconnect_callback(c);
    } else if (strncmp(l, "RECONCB", 7) == 0) {
      if (c->proto.tcp && c->proto.tcp->reconnect_callback) c->proto.tcp->reconnect_callback(c, (sint8)atoi(l + 7));
    } else if (strncmp(l, "RECV", 4) == 0) {
      int len = colon ? hex2bytes(colon + 1 + (colon[1] == ' '), buf, sizeof buf) : 0;
      if (c->recv_callback) {
        char *p = malloc((size_t)len);                 /* exact allocation: any access outside the reply is caught */
        memcpy(p, buf, (size_t)len);
        c->recv_callback(c, p, (unsigned short)len);
        free(p);
      }
    } else if (strncmp(l, "SENTRES", 7) == 0) {
      v_sent_default = atoi(l + 7);
    } else if (strncmp(l, "CONNRES", 7) == 0) {
      connect_res = atoi(l + 7);
    } else if (strncmp(l, "DISCRES", 7) == 0) {
      disconnect_res = atoi(l + 7);
    } else if (strncmp(l, "ADV", 3) == 0) {
      long long us = atoll(l + 3); if (us < 0) us = 0;
      v_advance((unsigned long long)us);
    } else if (strncmp(l, "DUMP", 4) == 0) {
      unsigned char ip[4]; vdns_result_ip(ip);
      fprintf(stdout, "STATE %d %d %d %d %u %d %d : ", vdns_try_counter(), vdns_success(), vdns_cb_pending(),
              vdns_request_null(), vdns_request_len(), vdns_timeout_armed(), vdns_retry_armed());
      vout_hex("", ip, 4);
    }
  }
}
