/* C08 driver.  One binary, two modes selected by the CFG line (first line of a case):
 *
 *  mode=unit : most-general-client stream against the real supla_esp_gpio_rs_set_relay /
 *              _set_relay_delayed / supla_esp_gpio_relay_hi / supla_esp_gpio_rs_apply_new_config
 *              (the 10 ms position timer of every shutter is disarmed so that only the client calls)
 *     events : RS <i> <value> <cancel> <stop_delay> | SWAP <i> <MotorUpsideDown> | ADV <us> | POS <i> <0|1|2>
 *     outputs: GPIO <i> <t_us> <which 0=board up pin,1=board down pin> <level>   (edges only)
 *              ARM <i> <t_us> <ms>        every os_timer_arm of delayed_trigger.timer
 *  mode=sys  : the whole device (devsim.h events: SRV, IN, ADV, REGOK, CONNCB, SENSOR, ...)
 *     outputs: GPIO <t_us> <pin> <level> (+ the other devsim lines)
 *  both      : ZEROSAMPLE <t_us>  whenever system_get_time() returned exactly 0 (the value the code
 *              reserves for "unset"; the property excludes such runs) — needs -Wl,--wrap=system_get_time
 */
#include "drvmain.h"
#include "devsim.h"

extern void (*c08_on_arm)(int rs_idx, uint32_t ms);
void supla_esp_gpio_rs_apply_new_config(int channel_number, TChannelConfig_RollerShutter *rsConfig);

uint32 __real_system_get_time(void);
static int zero_samples = 0;
uint32 __wrap_system_get_time(void) {
  uint32 t = __real_system_get_time();
  if (t == 0 && zero_samples++ < 4) vout("ZEROSAMPLE %llu", v_now);
  return t;
}

static int u_n = 0, u_blk[8], u_pin_idx[32], u_pin_which[32];
static void u_gpio_hook(int pin, int level) {
  if (pin >= 0 && pin < 32 && u_pin_idx[pin] >= 0) vout("GPIO %d %llu %d %d", u_pin_idx[pin], v_now, u_pin_which[pin], level);
  else vout("GPIO? %llu %d %d", v_now, pin, level);
}
static void u_arm_hook(int idx, uint32_t ms) { vout("ARM %d %llu %u", idx, v_now, (unsigned)ms); }
static void u_apply_pos(void) {
  for (int i = 0; i < u_n; i++) {
    *supla_rs_cfg[i].position = u_blk[i] == 1 ? 100 : u_blk[i] == 2 ? 10100 : 5100;
    supla_rs_cfg[i].autoCal_step = 0;
  }
}

static void run_unit(int n, char **lines) {
  ds_log_wire = 0; ds_log_conn = 0;
  ds_boot(0);
  v_on_gpio_write = u_gpio_hook; c08_on_arm = u_arm_hook;
  for (int p = 0; p < 32; p++) u_pin_idx[p] = -1;
  u_n = v_board.nrs;
  for (int i = 0; i < u_n; i++) {
    int gu = v_board.relay[v_board.rs[i].up_idx].gpio, gd = v_board.relay[v_board.rs[i].down_idx].gpio;
    u_pin_idx[gu] = i; u_pin_which[gu] = 0; u_pin_idx[gd] = i; u_pin_which[gd] = 1;
    os_timer_disarm(&supla_rs_cfg[i].timer);       /* position/task timer: not part of the MGC model */
  }
  u_apply_pos();
  for (int k = 1; k < n; k++) {
    char *l = lines[k]; int i, a, b, c;
    if (!strncmp(l, "RS ", 3) && sscanf(l + 3, "%d %d %d %d", &i, &a, &b, &c) == 4) {
      if (i >= 0 && i < u_n) supla_esp_gpio_rs_set_relay(&supla_rs_cfg[i], (uint8)a, (uint8)b, (uint8)c);
    } else if (!strncmp(l, "SWAP ", 5) && sscanf(l + 5, "%d %d", &i, &a) == 2) {
      if (i >= 0 && i < u_n) {
        TChannelConfig_RollerShutter cfg; memset(&cfg, 0, sizeof cfg); cfg.MotorUpsideDown = (unsigned char)a;
        supla_esp_gpio_rs_apply_new_config(i, &cfg);
        os_timer_disarm(&supla_rs_cfg[i].timer);
      }
    } else if (!strncmp(l, "POS ", 4) && sscanf(l + 4, "%d %d", &i, &a) == 2) {
      if (i >= 0 && i < u_n) u_blk[i] = a;
    } else if (!strncmp(l, "ADV ", 4)) {
      long long dt = strtoll(l + 4, NULL, 0); if (dt > 0) v_advance((unsigned long long)dt);
    } else vout("UNKNOWN-EVENT");
    u_apply_pos();
  }
}

static void run_case(int n, char **lines) {
  if (n <= 0 || strncmp(lines[0], "CFG", 3)) { vout("NO-CFG"); return; }
  ds_apply_cfg(lines[0]);
  const char *m = kvs(lines[0], "mode");
  if (m && !strncmp(m, "unit", 4)) { run_unit(n, lines); return; }
  ds_boot(1);
  for (int i = 1; i < n; i++) if (!ds_event(lines[i])) vout("UNKNOWN-EVENT");
  ds_finish();
}
