/* C08 driver.  One binary, two modes selected by the CFG line (first line of a case):
 *
 *  mode=unit : most-general-client stream against the real supla_esp_gpio_rs_set_relay /
 *              _set_relay_delayed / supla_esp_gpio_relay_hi / supla_esp_gpio_rs_apply_new_config
 *              (the 10 ms position timer of every shutter is disarmed so that only the client calls)
 *     events : RS <i> <value> <cancel> <stop_delay> | SWAP <i> <MotorUpsideDown> | ADV <us> | POS <i> <0|1|2>
 *     outputs: GPIO <i> <t_us> <which 0=board up pin,1=board down pin> <level>   (edges only)
 *              ARM <i> <t_us> <ms>        every os_timer_arm of delayed_trigger.timer
 *  mode=sys  : the whole device (devsim.h events: SRV, IN, ADV, REGOK, CONNCB, SENSOR, ...)
 *     outputs: GPIO <t_us> <pin> <level> (+ the other devsim lines)
 *  both      : ZEROSAMPLE <t_us>  whenever system_get_time() returned exactly 0 (the value the code
 *              reserves for "unset"; the property excludes such runs) — needs -Wl,--wrap=system_get_time
 */
#include "drvmain.h"
#include "devsim.h"

extern void (*c08_on_arm)(int rs_idx, uint32_t ms);
void supla_esp_gpio_rs_apply_new_config(int channel_number, TChannelConfig_RollerShutter *rsConfig);

uint32 __real_system_get_time(void);
static int zero_samples = 0;
/* running clock (sys mode, CFG field 16): every read of the counter costs c08_read_cost_us of true time, as on the chip,
 * where time passes while the firmware executes; with 0 the clock advances only in os_delay_us and between events
 * (then two reads inside one call return the same value, which hides code that relies on their order) */
static unsigned c08_read_cost_us = 0;
uint32 __wrap_system_get_time(void) {
  uint32 t = __real_system_get_time();
  if (t == 0 && zero_samples++ < 4) vout("ZEROSAMPLE %llu", v_now);
  v_now += c08_read_cost_us;
  return t;
}

static int u_n = 0, u_blk[8], u_pin_idx[32], u_pin_which[32];
static void u_gpio_hook(int pin, int level) {
  if (pin >= 0 && pin < 32 && u_pin_idx[pin] >= 0) vout("GPIO %d %llu %d %d", u_pin_idx[pin], v_now, u_pin_which[pin], level);
  else vout("GPIO? %llu %d %d", v_now, pin, level);
}
static void u_arm_hook(int idx, uint32_t ms) { vout("ARM %d %llu %u", idx, v_now, (unsigned)ms); }
static void u_apply_pos(void) {
  for (int i = 0; i < u_n; i++) {
    *supla_rs_cfg[i].position = u_blk[i] == 1 ? 100 : u_blk[i] == 2 ? 10100 : 5100;
    supla_rs_cfg[i].autoCal_step = 0;
  }
}

static void run_unit(int n, char **lines) {
  /* gpio module only: no devconn (its watchdog timer would be a foreign timer in the MGC stream) */
  v_quiet = 1; v_on_restart = ds_restart_hook;
  memset(&supla_esp_cfg, 0, sizeof supla_esp_cfg); memset(&supla_esp_state, 0, sizeof supla_esp_state);
  memcpy(supla_esp_cfg.TAG, "SUPLA", 5);
  v_on_gpio_write = u_gpio_hook; c08_on_arm = u_arm_hook;
  supla_esp_gpio_init();
  for (int p = 0; p < 32; p++) u_pin_idx[p] = -1;
  u_n = v_board.nrs;
  for (int i = 0; i < u_n; i++) {
    int gu = v_board.relay[v_board.rs[i].up_idx].gpio, gd = v_board.relay[v_board.rs[i].down_idx].gpio;
    u_pin_idx[gu] = i; u_pin_which[gu] = 0; u_pin_idx[gd] = i; u_pin_which[gd] = 1;
    os_timer_disarm(&supla_rs_cfg[i].timer);       /* position/task timer: not part of the MGC model */
  }
  u_apply_pos();
  for (int k = 1; k < n; k++) {
    char *l = lines[k]; int i, a, b, c;
    if (!strncmp(l, "RS ", 3) && sscanf(l + 3, "%d %d %d %d", &i, &a, &b, &c) == 4) {
      if (i >= 0 && i < u_n) supla_esp_gpio_rs_set_relay(&supla_rs_cfg[i], (uint8)a, (uint8)b, (uint8)c);
    } else if (!strncmp(l, "SWAP ", 5) && sscanf(l + 5, "%d %d", &i, &a) == 2) {
      if (i >= 0 && i < u_n) {
        TChannelConfig_RollerShutter cfg; memset(&cfg, 0, sizeof cfg); cfg.MotorUpsideDown = (unsigned char)a;
        supla_esp_gpio_rs_apply_new_config(i, &cfg);
        os_timer_disarm(&supla_rs_cfg[i].timer);
      }
    } else if (!strncmp(l, "POS ", 4) && sscanf(l + 4, "%d %d", &i, &a) == 2) {
      if (i >= 0 && i < u_n) u_blk[i] = a;
    } else if (!strncmp(l, "ADV ", 4)) {
      long long dt = strtoll(l + 4, NULL, 0); if (dt > 0) v_advance((unsigned long long)dt);
    } else vout("UNKNOWN-EVENT");
    u_apply_pos();
  }
  if (getenv("C08_DEBUG")) vout("DEBUG timers_fired=%llu now=%llu", v_timer_fired, v_now);
}

/* numeric CFG line (the model reads the same numbers):
 *   CFG <boot> <nshutters> <late_us> <mode 0=unit 1=sys> [sys only: <btn_type> <btn_flags> <motor_mode> <up_ms> <down_ms>
 *        <startup_ms> <rsflags> <time1_ms> <time2_ms> <sentdefault> <button shutter mask> <1 + relay index of the extra button> <us charged per counter read> <action-trigger caps of the pair buttons>]
 * board: shutter i = relays 2i (up, gpio 1+2i) and 2i+1 (down, gpio 2+2i), both on channel i;
 *        sys with buttons: see a[14]/a[15] below (default: shutter i < 3 has input gpios 9+2i -> up relay, 10+2i -> down relay) */
static void build_cfg(const char *line, char *out, size_t cap, int *mode) {
  long long a[20]; memset(a, 0, sizeof a); int na = 0;
  const char *p = line + 3;
  while (*p && *p != ':' && na < 20) { while (*p == ' ') p++; if (!*p || *p == ':') break; a[na++] = strtoll(p, (char **)&p, 0); }
  unsigned boot = (unsigned)a[0]; int n = (int)a[1]; if (n < 0) n = 0; if (n > 4) n = 4;
  *mode = (int)a[3];
  if (*mode == 1 && a[16] > 0 && a[16] <= 10) c08_read_cost_us = (unsigned)a[16];
  size_t o = 0;
  o += snprintf(out + o, cap - o, "CFG boot=%u", boot);
  if (a[2] > 0) o += snprintf(out + o, cap - o, " lateness=%lld", a[2]);
  if (n > 0) {
    o += snprintf(out + o, cap - o, " relays=");
    for (int i = 0; i < n; i++) o += snprintf(out + o, cap - o, "%s%d:%d,%d:%d", i ? "," : "", 1 + 2 * i, i, 2 + 2 * i, i);
    o += snprintf(out + o, cap - o, " rs=");
    for (int i = 0; i < n; i++) o += snprintf(out + o, cap - o, "%s%d:%d", i ? "," : "", 2 * i, 2 * i + 1);
  }
  if (*mode == 1) {
    if (a[4] > 0) {
      /* a[14] = bit mask of the shutters that get a button pair (0 = shutters 0..2), at most three pairs: pair k uses
       * input gpios 9+2k (-> up relay) and 10+2k (-> down relay); a[15] = 1 + index of one relay that gets a single
       * extra button on input gpio 15 (INPUT_MAX_COUNT is 7) */
      long long mask = a[14] ? a[14] : 7; int k = 0, first = 1;
      o += snprintf(out + o, cap - o, " inputs=");
      for (int i = 0; i < n && k < 3; i++) {
        if (!(mask >> i & 1)) continue;
        /* a[17] > 0: the pair buttons are action-trigger capable (caps a[17]) on AT channels 5+2k, 6+2k */
        o += snprintf(out + o, cap - o, "%s%d:%lld:%lld:%d:%d:%lld,%d:%lld:%lld:%d:%d:%lld", first ? "" : ",",
                      9 + 2 * k, a[4], a[5], 1 + 2 * i, a[17] > 0 ? 5 + 2 * k : 255, a[17],
                      10 + 2 * k, a[4], a[5], 2 + 2 * i, a[17] > 0 ? 6 + 2 * k : 255, a[17]);
        k++; first = 0;
      }
      if (a[15] >= 1 && a[15] <= 2 * n)
        o += snprintf(out + o, cap - o, "%s15:%lld:%lld:%lld:255:0", first ? "" : ",", a[4], a[5], a[15]);   /* relay index r has gpio r + 1 */
    }
    if (n > 0) {
      o += snprintf(out + o, cap - o, " motor=");
      for (int i = 0; i < n; i++) o += snprintf(out + o, cap - o, "%s%lld:%lld:%lld:%lld", i ? "," : "", a[6], a[7], a[8], a[9]);
      o += snprintf(out + o, cap - o, " rsflags=%lld time1=", a[10]);
      for (int i = 0; i < n; i++) o += snprintf(out + o, cap - o, "%s%lld", i ? "," : "", a[11]);
      o += snprintf(out + o, cap - o, " time2=");
      for (int i = 0; i < n; i++) o += snprintf(out + o, cap - o, "%s%lld", i ? "," : "", a[12]);
    }
    o += snprintf(out + o, cap - o, " sentdefault=%lld", a[13]);
  }
}

static void run_case(int n, char **lines) {
  if (n <= 0 || strncmp(lines[0], "CFG", 3)) { vout("NO-CFG"); return; }
  char cfg[1024]; int mode = 0;
  build_cfg(lines[0], cfg, sizeof cfg, &mode);
  ds_apply_cfg(cfg);
  if (mode == 0) { run_unit(n, lines); return; }
  ds_boot(1);
  for (int i = 1; i < n; i++) if (!ds_event(lines[i])) vout("UNKNOWN-EVENT");
  ds_finish();
}
