/* C16 driver: the real MQTT receive path of /repo
 *   supla_esp_mqtt_conn_recv_cb -> mqtt_sync -> __mqtt_recv (mqtt_pal_recvall, mqtt_unpack_response, per-type
 *   unpackers, mqtt_mq_find, __mqtt_puback/pubrec/pubcomp) -> supla_esp_mqtt_on_message_received -> board callback,
 *   __mqtt_send -> mqtt_pal_sendall -> espconn_sent, and after an error supla_esp_mqtt_iterate -> mqtt_sync ->
 *   supla_esp_mqtt_reconnect.
 * events:
 *   START n                session set-up (init, dns found, reconnect, on_connect: CONNECT queued and sent);
 *                          n = expected size of the CONNECT packet (echoed by the model)
 *   SEG : <hex>            one TCP segment to the receive callback
 *   TICK                   mqtt_sync + mqtt_mq_clean (the first two statements of supla_esp_mqtt_iterate)
 *   SUB pid size           device queues a SUBSCRIBE (real mqtt_subscribe, the LFSR is positioned so that pid comes next)
 *   PUB qos pid size       device queues a PUBLISH "a/b" "x" (real mqtt_publish)
 *   PING                   device queues a PINGREQ (real mqtt_ping)
 *   RELINK n               a new session: after a protocol error the reconnect has already run; otherwise the link dies now
 *                          (disconnect callback, the next send fails -> socket error -> real supla_esp_mqtt_reconnect);
 *                          then conn_on_connect + mqtt_sync as in START
 * outputs:
 *   BOOT n | MSG dup qos retain toff tlen poff plen valid : <topic||payload, clamped to the valid bytes>
 *   | SENT type : <hex for acknowledgement types 4..7> | QUEUED type pid size | DROPPED | ERR code | RECONNECT
 * After the first ERR the session is over: the clock is moved 6 s ahead (a session older than
 * RECONNECT_RETRY_TIME_MS), the next mqtt_sync() runs the real supla_esp_mqtt_reconnect, later events are ignored. */
#include <string.h>
#include <os_type.h>
#include <osapi.h>
#include <supla_esp.h>
#include <supla_esp_cfg.h>
#include <supla_esp_mqtt.h>
#include <espconn.h>
#include <user_interface.h>
#include "mqtt.h"
#include "verif.h"
#include "c16_access.h"
#include "drvmain.h"

static int halted = 0, started = 0, armed = 0;

static void on_message(uint8_t dup, uint8_t qos, uint8_t retain, const void *topic, uint16_t tlen,
                       const char *msg, size_t plen) {
  struct mqtt_client *c = c16_client();
  const unsigned char *base = c16_recvbuf();
  long long valid = (long long)(c->recv_buffer.curr - c->recv_buffer.mem_start);
  long long toff = (const unsigned char *)topic - base, poff = (const unsigned char *)msg - base;
  unsigned long long pl = (unsigned long long)plen;
  fprintf(stdout, "MSG %u %u %u %lld %u %lld %llu %lld : ", (unsigned)dup, (unsigned)qos, (unsigned)retain, toff,
          (unsigned)tlen, poff, pl, valid);
  for (long long i = toff; i < toff + (long long)tlen; i++)
    if (i >= 0 && i < valid) fprintf(stdout, "%02x", base[i]);
  for (unsigned long long k = 0; k < pl && k < 70000ULL; k++) {
    long long i = poff + (long long)k;
    if (i >= 0 && i < valid) fprintf(stdout, "%02x", base[i]);
  }
  fprintf(stdout, "\n");
}
static void on_sent(struct espconn *e, const unsigned char *p, unsigned len, int result) {
  (void)e; (void)result;
  unsigned t = len ? (p[0] >> 4) : 0;
  if (t >= 4 && t <= 7) { fprintf(stdout, "SENT %u : ", t); vout_hex("", p, len); }
  else vout("SENT %u :", t);
}
static void on_connect(struct espconn *e) { (void)e; if (armed) vout("RECONNECT"); }
static void on_log(int prio, const char *fmt) { (void)prio; if (fmt && strstr(fmt, "recv buffer is too small")) vout("DROPPED"); }

static void check_error(void) {
  struct mqtt_client *c = c16_client();
  if (halted || c->error == MQTT_OK) return;
  vout("ERR %d", (int)(c->error - MQTT_ERROR_UNKNOWN));
  halted = 1; armed = 1;
  /* the session is older than RECONNECT_RETRY_TIME_MS: the next mqtt_sync() reconnects at once */
  v_now += 6000000ULL;
  c16_sync();
}
static unsigned lfsr_step(unsigned x) { unsigned lsb = x & 1; x >>= 1; if (lsb) x ^= 0xB400u; return x; }
static void position_lfsr(unsigned pid) {
  for (unsigned x = 1; x < 65536; x++) if (lfsr_step(x) == pid) { c16_client()->pid_lfsr = (uint16_t)x; return; }
}
static void queued(void) {
  struct mqtt_client *c = c16_client();
  struct mqtt_queued_message *m = c->mq.queue_tail;
  vout("QUEUED %d %u %u", (int)m->control_type, m->control_type == MQTT_CONTROL_PINGREQ ? 0u : (unsigned)m->packet_id, (unsigned)m->size);
}

static void do_start(void) {
  memset(&supla_esp_cfg, 0, sizeof supla_esp_cfg);
  for (int i = 0; i < 16; i++) supla_esp_cfg.GUID[i] = (char)(i + 1);
  strcpy(supla_esp_cfg.Username, "user"); strcpy(supla_esp_cfg.Password, "pw");
  strcpy(supla_esp_cfg.Server, "10.0.0.1"); supla_esp_cfg.Port = 1883;
  supla_esp_cfg.Flags = CFG_FLAG_MQTT_ENABLED;
  supla_esp_mqtt_init();
  c16_set_started(1);
  c16_dns_found(0x0100000A);
  c16_sync();                 /* reconnect callback: reinit, espconn_connect */
  c16_on_connect();           /* CONNECT queued */
  {
    struct mqtt_client *c = c16_client();
    vout("BOOT %u", mqtt_mq_length(&c->mq) > 0 ? (unsigned)mqtt_mq_get(&c->mq, 0)->size : 0u);
  }
  c16_sync();                 /* CONNECT sent */
  started = 1;
}

static void run_case(int n, char **lines) {
  static unsigned char buf[70000];
  alarm(5);    /* a hang of the code under test ends this case as `crash sig=14` instead of stalling the batch */
  v_quiet = 1; v_on_sent = on_sent; v_on_connect = on_connect; v_on_log = on_log; c16_on_message = on_message;
  for (int i = 0; i < n; i++) {
    char *l = lines[i];
    if (strncmp(l, "START", 5) == 0) { if (!started) do_start(); check_error(); continue; }
    if (strncmp(l, "RELINK", 6) == 0 && started) {
      struct mqtt_client *cl = c16_client();
      if (!halted) {
        armed = 1;
        c16_on_disconnect();            /* status DISCONNECTED: mqtt_pal_sendall refuses */
        mqtt_ping(cl);
        c16_sync();                     /* the send fails: MQTT_ERROR_SOCKET_ERROR */
        v_now += 6000000ULL;
        c16_sync();                     /* reconnect callback: disconnect, mqtt_reinit, espconn_connect (prints RECONNECT) */
      }
      halted = 0;
      c16_on_connect();
      vout("BOOT %u", mqtt_mq_length(&cl->mq) > 0 ? (unsigned)mqtt_mq_get(&cl->mq, 0)->size : 0u);
      c16_sync();
      check_error();
      continue;
    }
    if (!started || halted) continue;
    struct mqtt_client *c = c16_client();
    if (strncmp(l, "SEG", 3) == 0) {
      char *col = strchr(l, ':'); int len = col ? hex2bytes(col + 1 + (col[1] == ' '), buf, 65535) : 0;
      c16_recv((char *)buf, (unsigned short)len);
    } else if (strncmp(l, "TICK", 4) == 0) {
      c16_tick();
    } else if (strncmp(l, "SUB", 3) == 0) {
      unsigned pid = 0, sz = 0; sscanf(l + 3, "%u %u", &pid, &sz);
      position_lfsr(pid);
      if (mqtt_subscribe(c, "a/b", 0) == MQTT_OK) queued();
    } else if (strncmp(l, "PUB", 3) == 0) {
      unsigned qos = 0, pid = 0, sz = 0; sscanf(l + 3, "%u %u %u", &qos, &pid, &sz);
      position_lfsr(pid);
      if (mqtt_publish(c, "a/b", "x", 1, (uint8_t)((qos & 3) << 1)) == MQTT_OK) queued();
    } else if (strncmp(l, "PING", 4) == 0) {
      if (mqtt_ping(c) == MQTT_OK) queued();
    }
    check_error();
  }
}
