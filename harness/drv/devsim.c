/* generic whole-device driver: CFG line, then the common events of devsim.h */
#include "drvmain.h"
#include "devsim.h"
static void run_case(int n, char **lines) {
  int i = 0;
  if (n > 0 && !strncmp(lines[0], "CFG", 3)) { ds_apply_cfg(lines[0]); i = 1; } else ds_apply_cfg("");
  ds_boot(1);
  for (; i < n; i++) if (!ds_event(lines[i])) vout("UNKNOWN-EVENT");
  ds_finish();
}
