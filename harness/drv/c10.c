/* C10 driver: the whole roller-shutter module of /repo on one shutter (real gpio_init, relay_hi, rs_set_relay + delayed
 * trigger timer, add_task, timer_cb with task processing / auto-calibration / 10-minute rule, calcfg recalibrate),
 * timer callback called at scripted times with a scripted motor-sensor reading.
 * events:  CFG boot tilt_ms tilt_type margin autocal_flag recal_flag pos0 tilt0 time1 time2 aot act init_now now0 mot_up mot_down mot_start
 *          CB dt sensor         callback dt us after the previous one (sensor 0 never / 1 always / 2 the board's scripted motor);
 *                               a due delayed-trigger timer fires first
 *          TASK pos tilt        supla_esp_gpio_rs_add_task(0, pos, tilt)
 *          RELAY v cancel sd    supla_esp_gpio_rs_set_relay(rs, v, cancel, sd)
 *          RECAL with_times ct ot   authorised SUPLA_CALCFG_CMD_RECALIBRATE through supla_esp_calcfg_request
 * outputs: GPIO t which level | REPORT : <8 bytes> | ST ... (after every event, see coq/C10/Model.v st_line) */
#include <string.h>
#include <stdlib.h>
#include <os_type.h>
#include <osapi.h>
#include <supla_esp.h>
#include <supla_esp_cfg.h>
#include <supla_esp_gpio.h>
#include <supla_esp_rs_fb.h>
#include <supla_esp_devconn.h>
#include "verif.h"
#include "vboard.h"
#include "drvmain.h"

#define UP_GPIO 4
#define DOWN_GPIO 5

void supla_esp_calcfg_request(TSD_DeviceCalCfgRequest *request);
static unsigned long long last_cb;
static int booted = 0;

void c09_value_changed_hook(int channel_number, char value[SUPLA_CHANNELVALUE_SIZE]) {
  vout_hex("REPORT : ", value, SUPLA_CHANNELVALUE_SIZE);
  supla_esp_channel_value__changed(channel_number, value);
}
static void gpio_hook(int pin, int level) {
  if (!booted) return;
  vout("GPIO %llu %d %d :", v_now, pin == UP_GPIO ? 2 : (pin == DOWN_GPIO ? 1 : 100 + pin), level);
}

static void boot(long long *a) {
  v_quiet = 1; v_on_gpio_write = gpio_hook;
  memset(&v_board, 0, sizeof v_board);
  unsigned chf = (a[4] ? SUPLA_CHANNEL_FLAG_RS_AUTO_CALIBRATION : 0) | (a[5] ? SUPLA_CHANNEL_FLAG_CALCFG_RECALIBRATE : 0);
  v_board.nrelay = 2;
  v_board.relay[0].gpio = UP_GPIO; v_board.relay[0].channel = 0; v_board.relay[0].channel_flags = chf;
  v_board.relay[1].gpio = DOWN_GPIO; v_board.relay[1].channel = 0; v_board.relay[1].channel_flags = chf;
  v_board.nrs = 1; v_board.rs[0].up_idx = 0; v_board.rs[0].down_idx = 1;
  v_board.motor[0].mode = VM_NEVER; v_board.motor[0].up_ms = (int)a[14]; v_board.motor[0].down_ms = (int)a[15]; v_board.motor[0].startup_ms = (int)a[16];
  memset(&supla_esp_cfg, 0, sizeof supla_esp_cfg); memset(&supla_esp_state, 0, sizeof supla_esp_state);
  memcpy(supla_esp_cfg.TAG, "SUPLA", 5);
  v_boot = (unsigned)a[0];
  supla_esp_cfg.Time3[0] = (unsigned)a[1]; supla_esp_cfg.TiltControlType[0] = (unsigned char)a[2];
  supla_esp_cfg.AdditionalTimeMargin[0] = (signed char)a[3];
  supla_esp_state.rs_position[0] = (int)a[6]; supla_esp_state.tilt[0] = (int)a[7];
  supla_esp_cfg.Time1[0] = (unsigned)a[8]; supla_esp_cfg.Time2[0] = (unsigned)a[9];
  supla_esp_cfg.AutoCalOpenTime[0] = (unsigned)a[10]; supla_esp_cfg.AutoCalCloseTime[0] = (unsigned)a[11];
  v_now = (unsigned long long)a[12];
  supla_esp_gpio_init();
  if (supla_esp_gpio_init_time != (unsigned)(v_boot + (unsigned)a[12])) vout("INIT-TIME %u", supla_esp_gpio_init_time);
  supla_esp_gpio_rs_set_time_margin(&supla_rs_cfg[0], (int)a[3]);
  for (int i = 0; i < RS_MAX_COUNT; i++) os_timer_disarm(&supla_rs_cfg[i].timer);
  if (v_now > (unsigned long long)a[13]) vout("BOOT-TOO-LONG %llu", v_now);
  v_now = (unsigned long long)a[13];
  last_cb = v_now; booted = 1;
}

static void st_line(void) {
  supla_roller_shutter_cfg_t *r = &supla_rs_cfg[0];
  vout("ST %d %d %u %u %d %d %u %u %d %d %d %d %d %u %d %d %d %u %u %u %u %u :",
       supla_esp_state.rs_position[0], supla_esp_state.tilt[0], r->up_time, r->down_time,
       (int)((v_gpio_out >> UP_GPIO) & 1), (int)((v_gpio_out >> DOWN_GPIO) & 1), r->start_time, r->stop_time,
       r->delayed_trigger.timer.timer_expire ? 1 : 0,
       (int)r->task.state, (int)r->task.direction, (int)r->task.position, (int)r->task.tilt,
       r->autoCal_step, (int)r->performAutoCalibration, (int)r->autoCal_button_request, (int)r->detectedPowerConsumption,
       (unsigned)r->flags, supla_esp_cfg.Time1[0], supla_esp_cfg.Time2[0], supla_esp_cfg.AutoCalOpenTime[0], supla_esp_cfg.AutoCalCloseTime[0]);
}

static void run_case(int n, char **lines) {
  long long a[20];
  for (int i = 0; i < n; i++) {
    char *l = lines[i]; char *p = strchr(l, ' ');
    int na = 0; memset(a, 0, sizeof a);
    while (p && *p && *p != ':' && na < 20) { while (*p == ' ') p++; if (!*p || *p == ':') break; a[na++] = strtoll(p, &p, 0); }
    if (!strncmp(l, "CFG", 3)) {
      if (na < 17) { vout("BAD-CFG"); return; }
      boot(a); continue;
    }
    if (!booted) { long long d[17] = {1, 0, 0, -1, 0, 0, 0, 0, 0, 0, 0, 0, 0, 0, 0, 0, 0}; boot(d); }
    if (!strncmp(l, "CB", 2)) {
      unsigned long long target = last_cb + (unsigned long long)a[0];
      v_board.motor[0].mode = a[1] == 0 ? VM_NEVER : (a[1] == 1 ? VM_ALWAYS : VM_PLAUSIBLE);
      v_now = last_cb;
      v_advance(target - v_now);          /* only the delayed-trigger timer (and unrelated one-shots) can fire here */
      v_now = target; last_cb = target;
      supla_esp_gpio_rs_timer_cb(&supla_rs_cfg[0]);
      v_now = target;
    } else if (!strncmp(l, "TASK", 4)) {
      supla_esp_gpio_rs_add_task(0, (sint8)a[0], (sint8)a[1]);
      v_now = last_cb;
    } else if (!strncmp(l, "RELAY", 5)) {
      supla_esp_gpio_rs_set_relay(&supla_rs_cfg[0], (uint8)a[0], (uint8)a[1], (uint8)a[2]);
      v_now = last_cb;
    } else if (!strncmp(l, "RECAL", 5)) {
      TSD_DeviceCalCfgRequest rq; memset(&rq, 0, sizeof rq);
      rq.ChannelNumber = 0; rq.Command = SUPLA_CALCFG_CMD_RECALIBRATE; rq.SuperUserAuthorized = 1;
      if (a[0]) {
        TCalCfg_RollerShutterSettings s; memset(&s, 0, sizeof s);
        s.FullClosingTimeMS = (int)a[1]; s.FullOpeningTimeMS = (int)a[2];
        rq.DataType = SUPLA_CALCFG_DATATYPE_RS_SETTINGS; rq.DataSize = sizeof s; memcpy(rq.Data, &s, sizeof s);
      }
      supla_esp_calcfg_request(&rq);
      v_now = last_cb;
    } else continue;
    st_line();
  }
}
