/* C12 driver: the WHOLE device (real user_main/user_init, cfg, cfgmode, gpio, input, rs, devconn, srpc, proto)
 * on the SDK doubles, with the observables of property C12.
 *
 * events (besides the devsim ones: CONNCB ITER REGOK REGFAIL SRV RECV WIFI SENTRES DISCCB):
 *     BOOT <ints>            board + stored configuration (layout below at c12_cfg), then the real user_init()
 *         blank bits: 1 Server, 2 Email, 4 WIFI_SSID, 8 WIFI_PWD empty; 16: LocationID+LocationPwd present
 *         flashcfg=1: a valid configuration image is in flash at boot; 0: flash is blank (first boot);
 *         2/3/4: a valid image of the old v6 / v5B / v5A layout with the same settings (migration at boot)
 *     NOTIFY <i> <state>     supla_esp_input_notify_state_change(&supla_input_cfg[i], state)
 *     TICK <i>               the timer callback of input i runs now (if that timer is armed)
 *     TIME <us>              the clock advances, no timer fires            (abstract schedule)
 *     HOLD <i> <us> <n>      n x (TIME us; TICK i)
 *     APT                    the cfgmode timer callback runs now (if armed)
 *     RSPOKE <idx> <t1> <t2> <aco> <acc> <pos> <tilt> <step> <abr>   overwrite the calibration state of shutter idx
 *     ADV <us>               real timers (1 ms steps, polling)            (real schedule)
 *     IN <pin> <level>       physical edge (ISR + debounce)
 * outputs:
 *     CFGMODE <t>            supla_esp_cfgmode_start() got past its guard (entertime written)
 *     CALRES <receiver> <channel> <command> <result>      CALCFG_RESULT frame accepted on the wire
 *     CAL <idx> <t1> <t2> <aco> <acc> <pos> <tilt> <step> calibration state of shutter idx changed during an SRV event
 *     INERT <0|1>            after an SRV CALCFG request: 1 = snapshot of cfg/state/rs/relay/input/gpio/flash/cfgmode byte-identical
 *     FACTORYHOOK            factory_defaults() ran (board hook)
 *     CFGFLASH <erases> <writes> <blankmask>   operations on the config sector during the event, blank mask of the image after it
 *     STFLASH <erases> <writes>                operations on the state sector during an SRV event
 *     OPMODE <m> / ACCEPT    from the doubles (soft-AP really started)
 *     RESTART <t>            system_restart() reached; the case ends
 *     NSTATE <i> <state> <t> (real schedule only) notified state of input i changed
 */
#include "drvmain.h"
#include "devsim.h"
#include <spi_flash.h>
#include <supla_esp_cfgmode.h>

void user_init(void);
void __real_supla_esp_gpio_state_cfgmode(void);
void __real_system_restart(void);

static int c12_in_srv = 0;
static unsigned fl_cfg_e, fl_cfg_w, fl_st_e, fl_st_w;

/* abstract schedule: handlers take no virtual time, except the two busy-waits the model accounts for
 * (500 ms after factory defaults, 500 us in supla_system_restart); real schedule: every busy-wait advances the clock */
void __real_ets_delay_us(uint32_t us);
static int c12_real_sched = 0;
void __wrap_ets_delay_us(uint32_t us) {
  if (c12_real_sched || us == 500000 || us == 500) __real_ets_delay_us(us);
}
void __wrap_supla_esp_gpio_state_cfgmode(void) {
  vout("CFGMODE %llu", v_now);
  __real_supla_esp_gpio_state_cfgmode();
}
static unsigned ev_e0, ev_w0;     /* config-sector counters at the start of the current event */
static unsigned flash_blankmask(void);
static void flush_cfgflash(void) {
  if (fl_cfg_e != ev_e0 || fl_cfg_w != ev_w0) vout("CFGFLASH %u %u %u", fl_cfg_e - ev_e0, fl_cfg_w - ev_w0, flash_blankmask());
  ev_e0 = fl_cfg_e; ev_w0 = fl_cfg_w;
}
void __wrap_system_restart(void) {
  flush_cfgflash();
  vout("RESTART %llu", v_now);
  fflush(stdout);
  _exit(0);
}
static void on_flash(const char *op, unsigned addr, unsigned len) {
  (void)len;
  unsigned sec = addr / 4096;
  if (op[0] == 'r') return;
  if (sec == CFG_SECTOR) { if (op[0] == 'e') fl_cfg_e++; else fl_cfg_w++; }
  if (sec == CFG_SECTOR + STATE_SECTOR_OFFSET) { if (op[0] == 'e') fl_st_e++; else fl_st_w++; }
}
static void on_frame(unsigned call_id, unsigned rr_id, const unsigned char *p, unsigned n) {
  (void)rr_id;
  if (call_id == SUPLA_DS_CALL_DEVICE_CALCFG_RESULT && n >= sizeof(TDS_DeviceCalCfgResult) - SUPLA_CALCFG_DATA_MAXSIZE) {
    TDS_DeviceCalCfgResult r; memset(&r, 0, sizeof r); memcpy(&r, p, n > sizeof r ? sizeof r : n);
    vout("CALRES %d %d %d %d", r.ReceiverID, r.ChannelNumber, r.Command, r.Result);
  }
}

/* ---- snapshots ---- */
struct cal { unsigned t1, t2, aco, acc; int pos, tilt; unsigned step; };
static void cal_get(int i, struct cal *c) {
  c->t1 = supla_esp_cfg.Time1[i]; c->t2 = supla_esp_cfg.Time2[i];
  c->aco = supla_esp_cfg.AutoCalOpenTime[i]; c->acc = supla_esp_cfg.AutoCalCloseTime[i];
  c->pos = supla_esp_state.rs_position[i]; c->tilt = supla_esp_state.tilt[i];
  c->step = supla_rs_cfg[i].autoCal_step;
}
struct snap {
  SuplaEspCfg cfg; SuplaEspState st; supla_roller_shutter_cfg_t rs[RS_MAX_COUNT]; supla_relay_cfg_t rel[RELAY_MAX_COUNT];
  supla_input_cfg_t in[INPUT_MAX_COUNT]; unsigned gpio_out, entertime; int flash_ops, registered;
  unsigned char fcfg[4096], fst[4096];
};
static struct snap s_before, s_after;
static void snap_get(struct snap *s) {
  memset(s, 0, sizeof *s);
  memcpy(&s->cfg, &supla_esp_cfg, sizeof s->cfg); memcpy(&s->st, &supla_esp_state, sizeof s->st);
  memcpy(s->rs, supla_rs_cfg, sizeof s->rs); memcpy(s->rel, supla_relay_cfg, sizeof s->rel); memcpy(s->in, supla_input_cfg, sizeof s->in);
  s->gpio_out = v_gpio_out; s->entertime = supla_esp_cfgmode_entertime(); s->flash_ops = v_flash_ops; s->registered = vd_exists() ? vd_registered() : -9;
  memcpy(s->fcfg, v_flash + CFG_SECTOR * 4096, 4096); memcpy(s->fst, v_flash + (CFG_SECTOR + STATE_SECTOR_OFFSET) * 4096, 4096);
}
static unsigned blankmask_of(const SuplaEspCfg *c) {
  unsigned m = 0;
  if (c->Server[0] == 0) m |= 1; if (c->Email[0] == 0) m |= 2; if (c->WIFI_SSID[0] == 0) m |= 4; if (c->WIFI_PWD[0] == 0) m |= 8;
  if (c->LocationID != 0 && c->LocationPwd[0] != 0) m |= 16;
  /* 32: the stored record is not a valid configuration at all (tag / identity missing): everything is lost */
  { static const char z[SUPLA_GUID_SIZE + SUPLA_AUTHKEY_SIZE];
    if (memcmp(c->TAG, "SUPLA\x07", 6) != 0 || !memcmp(c->GUID, z, SUPLA_GUID_SIZE) || !memcmp(c->AuthKey, z, SUPLA_AUTHKEY_SIZE)) m |= 32; }
  return m;
}
static unsigned flash_blankmask(void) {
  static SuplaEspCfg c; memcpy(&c, v_flash + CFG_SECTOR * 4096, sizeof c);
  return blankmask_of(&c);
}

/* ---- configuration: everything comes from the integers of the BOOT line ----
 * BOOT boot32 blank flashcfg nin {type flags relay atcap at channel}* nrs {ex ch flags regflags tilt upg dng t1 t2}*
 *      nrel {gpio channel chflags}* {up_idx down_idx}*nrs rsflags gpioin {gpio channel}*nin          (the tail is for this driver only) */
static long long c_at[INPUT_MAX_COUNT], c_tilt[8]; static int c_nat = 0, c_ntilt = 0, c_blank = 0, c_flashcfg = 1, c_fw = 0;
static void c12_cfg(const char *line) {
  static long long a[400]; int n = 0; const char *p = line + 4;
  while (*p && *p != ':' && n < 400) { while (*p == ' ') p++; if (!*p || *p == ':') break; a[n++] = strtoll(p, (char **)&p, 0); }
  ds_apply_cfg("");
  int k = 0;
#define NX (k < n ? a[k++] : 0)
  v_boot = (unsigned)NX; c_blank = (int)NX; c_flashcfg = (int)NX;
  int nin = (int)NX; if (nin > INPUT_MAX_COUNT) nin = INPUT_MAX_COUNT; if (nin < 0) nin = 0;
  v_board.ninput = nin; c_nat = nin;
  for (int i = 0; i < nin; i++) {
    v_board.input[i].type = (int)NX; v_board.input[i].flags = (int)NX; v_board.input[i].relay_gpio = (int)NX;
    v_board.input[i].at_cap = (unsigned)NX; c_at[i] = NX; v_board.input[i].gpio = 255; v_board.input[i].channel = (int)NX;
  }
  int nrs = (int)NX; if (nrs > 4) nrs = 4; if (nrs < 0) nrs = 0;
  v_board.nrs = nrs; c_ntilt = nrs; ds_ntime1 = ds_ntime2 = nrs;
  for (int i = 0; i < nrs; i++) {
    (void)NX; (void)NX; (void)NX; (void)NX; c_tilt[i] = NX; (void)NX; (void)NX; ds_time1[i] = NX; ds_time2[i] = NX;
  }
  int nrel = (int)NX; if (nrel > 8) nrel = 8; if (nrel < 0) nrel = 0;
  v_board.nrelay = nrel;
  for (int i = 0; i < nrel; i++) { v_board.relay[i].gpio = (int)NX; v_board.relay[i].channel = (int)NX; v_board.relay[i].flags = 0; v_board.relay[i].channel_flags = (unsigned)NX; }
  for (int i = 0; i < nrs; i++) { v_board.rs[i].up_idx = (int)NX; v_board.rs[i].down_idx = (int)NX; }
  v_board.rs_channel_flags = (unsigned)NX; v_gpio_in = (unsigned)NX;
  for (int i = 0; i < nin; i++) { v_board.input[i].gpio = (int)NX; v_board.input[i].channel = (int)NX; }
#undef NX
}
static void c12_boot(void) {
  v_quiet = 0; ds_log_conn = 0; ds_log_wire = 0; ds_log_gpio = 0; ds_log_restart = 0;
  v_on_sent = ds_sent_hook; v_on_flash = on_flash; ds_on_frame = on_frame;
  memset(v_flash, 0xFF, sizeof v_flash);
  if (c_flashcfg >= 2 && c_flashcfg <= 4) {
    /* a valid record of an older layout (2: v6, 3: v5B, 4: v5A) holding the same settings; supla_esp_cfg_init migrates it */
    static union { SuplaEspCfg_old_v6 v6; SuplaEspCfg_old_v5B b; SuplaEspCfg_old_v5A a; unsigned char raw[sizeof(SuplaEspCfg)]; } u;
    memset(&u, 0, sizeof u);
#define FILL(R) do { memcpy((R).TAG, "SUPLA", 5); \
      for (int i = 0; i < SUPLA_GUID_SIZE; i++) (R).GUID[i] = (char)(0x10 + i); \
      for (int i = 0; i < SUPLA_AUTHKEY_SIZE; i++) (R).AuthKey[i] = (char)(0x40 + i); \
      if (!(c_blank & 1)) strcpy((R).Server, "10.1.2.3"); \
      if (!(c_blank & 2)) strcpy((R).Email, "user@example.org"); \
      if (!(c_blank & 4)) strcpy((R).WIFI_SSID, "ssid"); \
      if (!(c_blank & 8)) strcpy((R).WIFI_PWD, "wifipassword"); \
      if (c_blank & 16) { (R).LocationID = 1234; strcpy((R).LocationPwd, "abcd"); } } while (0)
    if (c_flashcfg == 2) { FILL(u.v6); u.v6.TAG[5] = 6; }
    else if (c_flashcfg == 3) { FILL(u.b); u.b.TAG[5] = 5; }
    else { FILL(u.a); u.a.TAG[5] = 5; }
#undef FILL
    memcpy(v_flash + CFG_SECTOR * 4096, &u, sizeof u);
    memset(v_flash + (CFG_SECTOR + STATE_SECTOR_OFFSET) * 4096, 0, sizeof(SuplaEspState));
  } else if (c_flashcfg) {
    static SuplaEspCfg c; memset(&c, 0, sizeof c);
    memcpy(c.TAG, "SUPLA", 5); c.TAG[5] = 7;
    for (int i = 0; i < SUPLA_GUID_SIZE; i++) c.GUID[i] = (char)(0x10 + i);
    for (int i = 0; i < SUPLA_AUTHKEY_SIZE; i++) c.AuthKey[i] = (char)(0x40 + i);
    if (!(c_blank & 1)) strcpy(c.Server, "10.1.2.3");
    if (!(c_blank & 2)) strcpy(c.Email, "user@example.org");
    if (!(c_blank & 4)) strcpy(c.WIFI_SSID, "ssid");
    if (!(c_blank & 8)) strcpy(c.WIFI_PWD, "wifipassword");
    if (c_blank & 16) { c.LocationID = 1234; strcpy(c.LocationPwd, "abcd"); }
    c.FirmwareUpdate = (char)c_fw;
    for (int i = 0; i < ds_ntime1 && i < CFG_TIME1_COUNT; i++) c.Time1[i] = (unsigned)ds_time1[i];
    for (int i = 0; i < ds_ntime2 && i < CFG_TIME2_COUNT; i++) c.Time2[i] = (unsigned)ds_time2[i];
    for (int i = 0; i < c_ntilt && i < RS_MAX_COUNT; i++) c.TiltControlType[i] = (unsigned char)c_tilt[i];
    memcpy(v_flash + CFG_SECTOR * 4096, &c, sizeof c);
    memset(v_flash + (CFG_SECTOR + STATE_SECTOR_OFFSET) * 4096, 0, sizeof(SuplaEspState));
  }
  user_init();
  for (int i = 0; i < c_nat && i < INPUT_MAX_COUNT; i++)
    if (c_at[i] >= 0) supla_esp_input_set_active_triggers(&supla_input_cfg[i], (unsigned)c_at[i]);
}

/* ---- events ---- */
static int nstate_last[INPUT_MAX_COUNT];
static void tick_input(int i) {
  if (i < 0 || i >= INPUT_MAX_COUNT) return;
  os_timer_t *t = &supla_input_cfg[i].timer;
  if (t->timer_expire && t->timer_func) {
    if (!t->timer_period) t->timer_expire = 0;
    t->timer_func(t->timer_arg);
  }
}
static os_timer_t *cfgmode_timer_ptr(void);
static void drain(void) { for (int k = 0; k < 4; k++) supla_esp_devconn_iterate(NULL); }

static void run_case(int n, char **lines) {
  int i = 0, real = 0;

  for (int k = 0; k < INPUT_MAX_COUNT; k++) nstate_last[k] = 0;
  for (; i < n; i++) {
    char *l = lines[i];
    ev_e0 = fl_cfg_e; ev_w0 = fl_cfg_w;
    vout("EV %d", i);
    if (!strncmp(l, "MBOOT ", 6)) {
      /* boot decision of the MQTT-capable build: a second binary (harness/drv/c12_boot.c = real user_main.c with the MQTT flags);
         it replaces this child process and prints CFGMODE / START / BOOTEND */
      static char buf[512]; char *av[16]; int ac = 0; const char *exe = getenv("C12_BOOT_EXE");
      snprintf(buf, sizeof buf, "%s", l + 6);
      av[ac++] = (char *)(exe ? exe : "c12_boot");
      for (char *t = strtok(buf, " "); t && ac < 14; t = strtok(NULL, " ")) { if (t[0] == ':') break; av[ac++] = t; }
      av[ac] = NULL;
      fflush(stdout);
      if (exe) execv(exe, av);
      vout("UNKNOWN-EVENT"); _exit(3);
    } else if (!strncmp(l, "BOOT", 4)) {
      c12_cfg(l);
      c12_boot();
    } else if (!strncmp(l, "NOTIFY ", 7)) {
      int idx = 0, st = 0; sscanf(l + 7, "%d %d", &idx, &st);
      unsigned long long t0 = v_now;
      if (idx >= 0 && idx < INPUT_MAX_COUNT) supla_esp_input_notify_state_change(&supla_input_cfg[idx], st);
      v_now = t0;
    } else if (!strncmp(l, "TICK ", 5)) {
      unsigned long long t0 = v_now; tick_input(atoi(l + 5)); v_now = t0;
    } else if (!strncmp(l, "TIME ", 5)) {
      v_now += strtoull(l + 5, NULL, 0);
    } else if (!strncmp(l, "HOLD ", 5)) {
      int idx = 0; unsigned long long dt = 0; int cnt = 0; sscanf(l + 5, "%d %llu %d", &idx, &dt, &cnt);
      for (int k = 0; k < cnt; k++) { v_now += dt; unsigned long long t0 = v_now; tick_input(idx); v_now = t0; }
    } else if (!strncmp(l, "APT", 3)) {
      os_timer_t *t = cfgmode_timer_ptr();
      if (t && t->timer_expire && t->timer_func) { t->timer_expire = 0; t->timer_func(t->timer_arg); }
    } else if (!strncmp(l, "RSPOKE ", 7)) {
      long long f[9]; int k = ds_split(l + 7, ' ', f, 9);
      if (k == 9 && f[0] >= 0 && f[0] < RS_MAX_COUNT) {
        int x = (int)f[0];
        supla_esp_cfg.Time1[x] = (unsigned)f[1]; supla_esp_cfg.Time2[x] = (unsigned)f[2];
        supla_esp_cfg.AutoCalOpenTime[x] = (unsigned)f[3]; supla_esp_cfg.AutoCalCloseTime[x] = (unsigned)f[4];
        supla_esp_state.rs_position[x] = (int)f[5]; supla_esp_state.tilt[x] = (int)f[6];
        supla_rs_cfg[x].autoCal_step = (unsigned)f[7]; supla_rs_cfg[x].autoCal_button_request = f[8] != 0;
      }
    } else if (!strncmp(l, "ADV ", 4)) {
      real = 1; c12_real_sched = 1;
      unsigned long long dt = strtoull(l + 4, NULL, 0), end = v_now + dt;
      while (v_now < end) {
        unsigned long long step = end - v_now > 1000 ? 1000 : end - v_now;
        v_advance(step);
        for (int k = 0; k < INPUT_MAX_COUNT; k++)
          if (supla_input_cfg[k].gpio_id != 255 && supla_input_cfg[k].last_state != nstate_last[k]) {
            nstate_last[k] = supla_input_cfg[k].last_state; vout("NSTATE %d %d %llu", k, nstate_last[k], v_now);
          }
      }
    } else if (!strncmp(l, "SRV ", 4)) {
      unsigned call = 0; sscanf(l + 4, "%u", &call);
      struct cal cb[RS_MAX_COUNT], ca[RS_MAX_COUNT];
      unsigned long long t0 = v_now;
      if (vd_exists()) drain();
      unsigned se0 = fl_st_e, sw0 = fl_st_w; ev_e0 = fl_cfg_e; ev_w0 = fl_cfg_w;
      for (int k = 0; k < RS_MAX_COUNT; k++) cal_get(k, &cb[k]);
      int unauth = 0;
      if (call == SUPLA_SD_CALL_DEVICE_CALCFG_REQUEST) {
        static unsigned char pb[4096]; char *c = strchr(l, ':'); int pn = c ? hex2bytes(c + 1 + (c[1] == ' '), pb, sizeof pb) : 0;
        int cmd = 0; if (pn >= 12) memcpy(&cmd, pb + 8, 4);
        /* the INERT observable is defined for requests that carry no authorisation */
        unauth = pn > 12 && (pb[12] == 0 || (cmd == SUPLA_CALCFG_CMD_ENTER_CFG_MODE && pb[12] != 1));
      }
      if (unauth) snap_get(&s_before);
      c12_in_srv = 1; ds_event(l); c12_in_srv = 0;
      for (int k = 0; k < RS_MAX_COUNT; k++) {
        cal_get(k, &ca[k]);
        if (memcmp(&ca[k], &cb[k], sizeof ca[k]))
          vout("CAL %d %u %u %u %u %d %d %u", k, ca[k].t1, ca[k].t2, ca[k].aco, ca[k].acc, ca[k].pos, ca[k].tilt, ca[k].step);
      }
      if (unauth) { snap_get(&s_after); vout("INERT %d", memcmp(&s_before, &s_after, sizeof s_before) == 0); }
      if (fl_st_e != se0 || fl_st_w != sw0) vout("STFLASH %u %u", fl_st_e - se0, fl_st_w - sw0);
      if (vd_exists() && vd_srpc()) drain();
      if (!real) v_now = t0;
    } else if (!ds_event(l)) vout("UNKNOWN-EVENT");
    flush_cfgflash();
    if (getenv("C12_DEBUG"))
      for (int k = 0; k < v_board.ninput; k++)
        vout("DBG %d last=%d cnt=%d lsc=%u armed=%d maxc=%d at=%u relay=%d", k, supla_input_cfg[k].last_state, supla_input_cfg[k].click_counter,
             supla_input_cfg[k].last_state_change, (int)supla_input_cfg[k].timer.timer_expire, supla_input_cfg[k].max_clicks, supla_input_cfg[k].active_triggers,
             supla_input_cfg[k].relay_gpio_id);
  }
}

/* cfgmode_vars is a global of supla_esp_cfgmode.c; its layout is private, so re-declare the prefix we need */
#include <supla_esp_cfgmode.h>
typedef struct { ETSTimer timer; unsigned int entertime; bool exit_after_timeout; } c12_cfgmode_vars_t;
extern c12_cfgmode_vars_t cfgmode_vars;
static os_timer_t *cfgmode_timer_ptr(void) { return &cfgmode_vars.timer; }
