/* C13 driver: real supla_esp_cfg.c (save / save_state / factory_defaults / cfg_init with its migrations) and the real
 * commit block of supla_esp_recv_callback on the byte-accurate flash double.
 * events:
 *   ENV <T> : <12 mac bytes>     values the identity generator reads (checked against the doubles; R 1 = they agree)
 *   ENVQ                         prints  ENVIS <T> : <12 mac bytes>
 *   FLASHIMG <0|1> : <hex>       sector (0 config, 1 state) := 0xFF…, then the bytes at its start
 *   INIT <r0>                    (re)boot: RAM lost, timers gone, random counter = r0, supla_esp_cfg_init()
 *   SETCFG : <hex> / SETSTATE : <hex>    RAM records := bytes (zero padded)
 *   SAVECFG                      supla_esp_cfg_save(&supla_esp_cfg)
 *   SAVESTATE <delay>            supla_esp_save_state(delay)
 *   TIMER                        let the delayed state save fire
 *   FAIL <k> <code>              the k-th next erase/write returns <code> (1 ERR, 2 TIMEOUT) and does nothing
 *   CRASH <k>                    power is lost right before the k-th next erase/write
 *   FACTORY <save>               factory_defaults(save)
 *   POST <n> : <n request bytes><image>   HTTP request to the configuration page (the image part is for the model)
 *   DUMP                         RAM records (when powered) and the start of both sectors
 * outputs: FLASH <0 erase|1 write> <addr> <len> | CRASH | R <ret> | CFG/STATE/FLASHC/FLASHS : <hex> |
 *          SUBMIT : <hex> | SAVERET <r> | ENVIS … */
#include <string.h>
#include <setjmp.h>
#include <os_type.h>
#include <osapi.h>
#include <user_interface.h>
#include <espconn.h>
#include <spi_flash.h>
#include <supla_esp.h>
#include <supla_esp_cfg.h>
#include "verif.h"
#include "drvmain.h"

void supla_esp_connectcb(void *arg);
void supla_esp_recv_callback(void *arg, char *pdata, unsigned short len);
void supla_esp_discon_callback(void *arg);

static jmp_buf c13_jmp;
static int c13_crash_at = 0, c13_down = 0, c13_submits = 0, c13_saveret = 0;

static void on_flash(const char *op, unsigned addr, unsigned len) {
  if (op[0] == 'r') return;                       /* reads are not fault points */
  vout("FLASH %d %u %u", op[0] == 'e' ? 0 : 1, addr, len);
  if (c13_crash_at > 0 && --c13_crash_at == 0) { vout("CRASH"); c13_down = 1; longjmp(c13_jmp, 1); }
}
char c13_spy_cfg_save(SuplaEspCfg *cfg) {
  vout_hex("SUBMIT : ", cfg, sizeof *cfg);
  c13_submits++;
  char r = supla_esp_cfg_save(cfg);
  c13_saveret = r;
  vout("SAVERET %d", (int)r);
  return r;
}
static unsigned env_T(void) { return system_get_time() + spi_flash_get_id() + system_get_chip_id() + system_get_rtc_time(); }
static void env_mac(unsigned char *m) { wifi_get_macaddr(STATION_IF, m); wifi_get_macaddr(SOFTAP_IF, m + 6); }
static unsigned char *sector(int which) { return v_flash + (size_t)(CFG_SECTOR + (which ? STATE_SECTOR_OFFSET : 0)) * SPI_FLASH_SEC_SIZE; }

static void run_case(int n, char **lines) {
  static unsigned char buf[70000];
  v_quiet = 1; v_on_flash = on_flash; v_boot = 1; v_now = 0;
  memset(v_flash, 0xFF, sizeof v_flash);
  memset(&supla_esp_cfg, 0, sizeof supla_esp_cfg); memset(&supla_esp_state, 0, sizeof supla_esp_state);
  for (int i = 0; i < n; i++) {
    char *l = lines[i];
    char *c = strchr(l, ':'); int len = c ? hex2bytes(c + 1 + (c[1] == ' '), buf, sizeof buf) : 0;
    long a0 = 0, a1 = 0; { char *sp = strchr(l, ' '); if (sp) { char *e; a0 = strtol(sp, &e, 0); a1 = strtol(e, NULL, 0); } }
    if (!strncmp(l, "ENVQ", 4)) { unsigned char m[12]; env_mac(m); fprintf(stdout, "ENVIS %u : ", env_T()); vout_hex("", m, 12); continue; }
    if (!strncmp(l, "ENV", 3)) { unsigned char m[12]; env_mac(m); vout("R %d", (unsigned)a0 == env_T() && len == 12 && !memcmp(m, buf, 12)); continue; }
    if (!strncmp(l, "FLASHIMG", 8)) {
      unsigned char *s = sector(a0 != 0); memset(s, 0xFF, SPI_FLASH_SEC_SIZE);
      memcpy(s, buf, len > SPI_FLASH_SEC_SIZE ? SPI_FLASH_SEC_SIZE : len); vout("R 0"); continue;
    }
    if (!strncmp(l, "FAIL", 4)) { v_flash_fail_at = (int)a0; v_flash_fail_code = (int)a1; vout("R 0"); continue; }
    if (!strncmp(l, "CRASH", 5)) { c13_crash_at = (int)a0; vout("R 0"); continue; }
    if (!strncmp(l, "DUMP", 4)) {
      if (!c13_down) { vout_hex("CFG : ", &supla_esp_cfg, sizeof supla_esp_cfg); vout_hex("STATE : ", &supla_esp_state, sizeof supla_esp_state); }
      vout_hex("FLASHC : ", sector(0), sizeof supla_esp_cfg); vout_hex("FLASHS : ", sector(1), sizeof supla_esp_state);
      vout("R 0"); continue;
    }
    if (!strncmp(l, "INIT", 4)) {
      c13_down = 0; v_timers_reset(); v_now = 0; v_random_byte = (unsigned char)a0;
      if (setjmp(c13_jmp) == 0) { int r = supla_esp_cfg_init(); vout("R %d", r); }
      continue;
    }
    if (c13_down) { vout("R -1"); continue; }
    if (setjmp(c13_jmp) != 0) continue;            /* power lost inside the event */
    if (!strncmp(l, "SETCFG", 6)) {
      memset(&supla_esp_cfg, 0, sizeof supla_esp_cfg); memcpy(&supla_esp_cfg, buf, (size_t)len > sizeof supla_esp_cfg ? sizeof supla_esp_cfg : (size_t)len); vout("R 0");
    } else if (!strncmp(l, "SETSTATE", 8)) {
      memset(&supla_esp_state, 0, sizeof supla_esp_state); memcpy(&supla_esp_state, buf, (size_t)len > sizeof supla_esp_state ? sizeof supla_esp_state : (size_t)len); vout("R 0");
    } else if (!strncmp(l, "SAVECFG", 7)) {
      int r = supla_esp_cfg_save(&supla_esp_cfg); vout("R %d", r);
    } else if (!strncmp(l, "SAVESTATE", 9)) {
      supla_esp_save_state((int)a0); vout("R 0");
    } else if (!strncmp(l, "TIMER", 5)) {
      unsigned long long f0 = v_timer_fired; v_advance(5000000ULL); vout("R %d", v_timer_fired != f0);
    } else if (!strncmp(l, "FACTORY", 7)) {
      factory_defaults((char)a0); vout("R 0");
    } else if (!strncmp(l, "POST", 4)) {
      static struct espconn conn; static esp_tcp tcp;
      memset(&conn, 0, sizeof conn); memset(&tcp, 0, sizeof tcp); conn.type = ESPCONN_TCP; conn.proto.tcp = &tcp;
      int rl = (int)a0; if (rl > len) rl = len;
      c13_submits = 0; c13_saveret = 0;
      if (rl > 0) {
        supla_esp_connectcb(&conn);
        supla_esp_recv_callback(&conn, (char *)buf, (unsigned short)rl);
        supla_esp_discon_callback(&conn);
      }
      if (c13_submits) vout_hex("CFG : ", &supla_esp_cfg, sizeof supla_esp_cfg);
      vout("R %d", c13_submits ? c13_saveret : 0);
    } else vout("UNKNOWN-EVENT");
  }
}
