/* C06 driver: the whole device, connected and registered through the real proto/srpc/devconn code, timers never
 * fire (no ADV): timer expiries, iterates and button callbacks are explicit events, so the model needs no schedule.
 * CFG as in c07_core.h plus rest = ninputs (gpio type flags relaygpio channel)*
 * Events: REG | ITER | SETV ch v dur sender | GRP ch v dur | BTN idx active | TICK dt_us | TIME2 ch ms | CHCFG ch func type size ms (core)
 *         | SENTRES r r ... (devsim: results of the next espconn_sent calls, 0 afterwards) | ADV dt_us | BURST (ch v dur sender)*
 * Outputs: GPIO t pin lvl | VAL t ch v | RES t ch sender ok | EXT t ch remaining target sender | WOTH t call_id
 *          DROP t call_id (a call refused by the full out-queue) | Q t queued_calls buffered_bytes staged_bytes (after every event) */
#include "c07_core.h"
void supla_esp_countdown_timer_cb(void *ptr);
void supla_esp_devconn_connect_cb(void *arg);
void v6_set_before_call(void *srpc, _func_srpc_event_BeforeCall f); int v6_queue_size(void); int v7_send_buffer_len(void);
static int c6_ready = 0;
static void c6_cfg(void) {
  int i = c7_cfgpos; int n = i < c7_ncfgints ? (int)c7_cfgints[i++] : 0;
  for (int k = 0; k < n && k < 7; k++) {
    long long g = c7_cfgints[i], ty = c7_cfgints[i + 1], fl = c7_cfgints[i + 2], rg = c7_cfgints[i + 3], ch = c7_cfgints[i + 4]; i += 5;
    v_board.input[k].gpio = (int)g; v_board.input[k].type = (int)ty; v_board.input[k].flags = (int)fl | 0x08 /* INPUT_FLAG_DISABLE_INTR */;
    v_board.input[k].relay_gpio = (int)rg; v_board.input[k].channel = (int)ch; v_board.input[k].at_cap = 0; v_board.ninput = k + 1;
  }
}
static void c6_q(void) {
  void *srpc = vd_srpc();
  vout("Q %llu %d %u %d :", v_now, srpc ? vs_out_queue_count(srpc) : 0, srpc ? vp_out_data_size(vs_proto(srpc)) : 0, v7_send_buffer_len());
}
static void c6_before_call(void *srpc, unsigned _supla_int_t call_id, void *user) {
  (void)user; if (c6_ready && vs_out_queue_count(srpc) >= v6_queue_size()) vout("DROP %llu %u :", v_now, call_id);
}
static void c6_frame(unsigned call_id, unsigned rr, const unsigned char *p, unsigned n) {
  (void)rr; if (!c6_ready) return;
  if (call_id == SUPLA_DS_CALL_DEVICE_CHANNEL_VALUE_CHANGED && n >= 2) vout("VAL %llu %u %u :", v_now, p[0], p[1]);
  else if (call_id == SUPLA_DS_CALL_CHANNEL_SET_VALUE_RESULT && n >= 6) { int sd; memcpy(&sd, p + 1, 4); vout("RES %llu %u %d %u :", v_now, p[0], sd, p[5]); }
  else if (call_id == SUPLA_DS_CALL_DEVICE_CHANNEL_EXTENDEDVALUE_CHANGED && n >= 6 + 16) {
    unsigned rem; int sd; memcpy(&rem, p + 6, 4); memcpy(&sd, p + 6 + 12, 4); vout("EXT %llu %u %u %u %d :", v_now, p[0], rem, p[6 + 4], sd);
  } else vout("WOTH %llu %u :", v_now, call_id);
}
static void c6_send(unsigned call, const void *payload, unsigned n) {
  vd_espconn()->recv_callback = (espconn_recv_callback)supla_esp_devconn_recv_cb;
  ds_srv(call, ds_srv_rr++, (const unsigned char *)payload, n);
}
static int c6_event(char *l) {
  if (!strncmp(l, "REG", 3)) {
    c6_ready = 0; supla_esp_devconn_connect_cb(NULL);
    supla_esp_devconn_iterate(NULL);
    vd_espconn()->recv_callback = (espconn_recv_callback)supla_esp_devconn_recv_cb;
    ds_regresult(SUPLA_RESULTCODE_TRUE, ACTIVITY_TIMEOUT);
    for (int i = 0; i < 200; i++) supla_esp_devconn_iterate(NULL);
    v6_set_before_call(vd_srpc(), c6_before_call);
    v_sent_n = 0; v_sent_i = 0;          /* the link is idle after the handshake */
    c6_ready = 1; return 1;
  }
  if (!strncmp(l, "SETV ", 5)) {
    int ch = 0, v = 0, sender = 0; unsigned dur = 0; sscanf(l + 5, "%d %d %u %d", &ch, &v, &dur, &sender);
    TSD_SuplaChannelNewValue nv; memset(&nv, 0, sizeof nv);
    nv.SenderID = sender; nv.ChannelNumber = (unsigned char)ch; nv.DurationMS = dur; nv.value[0] = (char)v;
    c6_send(SUPLA_SD_CALL_CHANNEL_SET_VALUE, &nv, sizeof nv); return 1;
  }
  if (!strncmp(l, "GRP ", 4)) {
    int ch = 0, v = 0; unsigned dur = 0; sscanf(l + 4, "%d %d %u", &ch, &v, &dur);
    TSD_SuplaChannelGroupNewValue nv; memset(&nv, 0, sizeof nv);
    nv.GroupID = 5; nv.EOL = 1; nv.ChannelNumber = (unsigned char)ch; nv.DurationMS = dur; nv.value[0] = (char)v;
    c6_send(SUPLA_SD_CALL_CHANNELGROUP_SET_VALUE, &nv, sizeof nv); return 1;
  }
  if (!strncmp(l, "BTN ", 4)) {
    int idx = 0, act = 0; sscanf(l + 4, "%d %d", &idx, &act);
    if (idx >= 0 && idx < v_board.ninput) { if (act) supla_esp_gpio_on_input_active(&supla_input_cfg[idx]); else supla_esp_gpio_on_input_inactive(&supla_input_cfg[idx]); }
    return 1;
  }
  if (!strncmp(l, "ADV ", 4)) {   /* time passes with the SDK timers running; devconn's own timers (iterate, watchdog, ...) stay out: iterates are events */
    v7_disarm_devconn_timers(); v_advance(strtoull(l + 4, NULL, 0)); v7_disarm_devconn_timers(); return 1;
  }
  if (!strncmp(l, "BURST ", 6)) {  /* BURST (ch v dur sender)* : the SET_VALUE frames arrive in ONE receive callback */
    static unsigned char seg[1100]; unsigned n = 0; char *p = l + 6;
    for (;;) {
      long long a[4]; int k = 0;
      while (k < 4) { while (*p == ' ') p++; if (!*p || *p == ':') break; a[k++] = strtoll(p, &p, 0); }
      if (k < 4) break;
      TSD_SuplaChannelNewValue nv; memset(&nv, 0, sizeof nv);
      nv.SenderID = (int)a[3]; nv.ChannelNumber = (unsigned char)a[0]; nv.DurationMS = (unsigned)a[2]; nv.value[0] = (char)a[1];
      unsigned rr = ds_srv_rr++, call = SUPLA_SD_CALL_CHANNEL_SET_VALUE, sz = sizeof nv;
      if (n + 18 + sz + 5 > sizeof seg) break;
      memcpy(seg + n, "SUPLA", 5); seg[n + 5] = ESP8266_SUPLA_PROTO_VERSION; memcpy(seg + n + 6, &rr, 4); memcpy(seg + n + 10, &call, 4); memcpy(seg + n + 14, &sz, 4);
      memcpy(seg + n + 18, &nv, sz); memcpy(seg + n + 18 + sz, "SUPLA", 5); n += 18 + sz + 5;
    }
    vd_espconn()->recv_callback = (espconn_recv_callback)supla_esp_devconn_recv_cb;
    if (n) ds_recv(seg, (int)n); else supla_esp_devconn_iterate(NULL);
    return 1;
  }
  if (!strncmp(l, "TICK ", 5)) { long long dt = atoll(l + 5); if (dt >= 0) { v_now += (unsigned long long)dt; supla_esp_countdown_timer_cb(NULL); } return 1; }
  return 0;
}
static void c6_init(void) __attribute__((constructor));
static void c6_init(void) {
  c7_after_cfg = c6_cfg; c7_after_event = c6_q; c7_extra_event = c6_event; c7_log_saved = 0; c7_log_st = 0; ds_log_wire = 0; ds_on_frame = c6_frame;
}
