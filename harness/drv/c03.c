/* C03 driver.  Two kinds of cases (first line):
 *   GATE                     real recv_cb / data_read / srpc_iterate / proto / srpc_getdata, own handler (no device
 *                            handler runs): observes the size-gate verdict only.
 *   CFG devcfg fwupd nrel (gpio ch flags chflags)* nrs (up down)* nin (gpio type flags relay_gpio channel atcap)* [rsflags]
 *                            whole device (devsim.h): boots that board, connects, registers (REGOK 120), then events.
 *                            devcfg only routes the case to the binary built with RETREIVE_CHANNEL_CONFIG; fwupd=1 sets
 *                            cfg.FirmwareUpdate so that the device asks for a firmware URL after registration.
 * events:  SRV <call> <rr> : <payload hex>   a well-framed server message (then iterates until the staging buffer is empty)
 *          ADV <us>                           virtual time passes (device mode)
 *          SKEW <us>                          the clock runs on but no timer callback fires (busy CPU / late timer)
 * outputs, per event k (0-based, counting SRV and ADV lines only):
 *   EV <k>
 *   V <call_id> <result> <has_data>          every srpc_getdata() return observed through -Wl,--wrap=srpc_getdata
 *   TM <channel> <remaining_ms> <target>     (device mode, before a message) countdown slots that are running
 *   TA <channel> <remaining_ms>              (after the message) countdown slots still running
 *   T2L <index> <old> <new> | PIN <pin> <new level> | SR <slot> <new>   values behind CH 14 / CH 18 / CH 11 lines
 *   AT <input> <active_triggers>             (device mode, after every message) inputs that carry a channel number
 *   CH <table> <index>                       (device mode) every cell of the fixed tables whose content differs from
 *                                            the snapshot taken just before the event; after ADV only GPIO cells.
 * tables: 0 relay_cfg 1 rs_cfg 2 input_cfg 3 cfg.Time1 4 cfg.Time2 5 cfg.Time3 6 cfg.AutoCalOpenTime 7 cfg.AutoCalCloseTime
 *   8 cfg.TiltControlType 9 cfg.AdditionalTimeMargin 10 cfg.MotorUpsideDown(bit) 11 state.Relay 12 state.rs_position
 *   13 state.tilt 14 state.Time2Left 15 devconn.channel_function_from_server 16 devconn.runtime_config_channels
 *   17 channel_config_visualization_type 18 GPIO output register (pin)
 *   19 device-level: 0 cfg.ButtonsUpsideDown, 1 any other byte of supla_esp_cfg, 2 any other byte of supla_esp_state */
#include "drvmain.h"
#include "devsim.h"
#include <supla_update.h>
#include <supla_esp_countdown_timer.h>

int *c03_chfunc(void); int c03_chfunc_len(void);
int *c03_runtimecfg(void); int c03_runtimecfg_len(void);
unsigned char *c03_vistype(void); int c03_vistype_len(void);

/* ---- verdict observation ---- */
char __real_srpc_getdata(void *srpc, TsrpcReceivedData *rd, unsigned _supla_int_t rr_id);
char __wrap_srpc_getdata(void *srpc, TsrpcReceivedData *rd, unsigned _supla_int_t rr_id) {
  unsigned call = 0;
  for (int i = 0; i < vs_in_queue_count(srpc); i++) {
    TSuplaDataPacket *q = vs_in_queue_peek(srpc, i);
    if (rr_id == 0 || q->rr_id == rr_id) { call = q->call_id; break; }
  }
  rd->data.dcs_ping = NULL;
  char r = __real_srpc_getdata(srpc, rd, rr_id);
  vout("V %u %d %d", call, (int)r, (r == SUPLA_RESULT_TRUE && rd->data.dcs_ping != NULL) ? 1 : 0);
  return r;
}

static void gate_handler(void *srpc, unsigned _supla_int_t rr_id, unsigned _supla_int_t call_id, void *user, unsigned char ver) {
  (void)rr_id; (void)call_id; (void)user; (void)ver;
  TsrpcReceivedData rd; memset(&rd, 0, sizeof rd);
  char r = srpc_getdata(srpc, &rd, 0);
  if (r == SUPLA_RESULT_TRUE) srpc_rd_free(&rd);
}

/* ---- snapshots ---- */
#define NREL (int)(sizeof(supla_relay_cfg) / sizeof(supla_relay_cfg[0]))
#define NRS (int)(sizeof(supla_rs_cfg) / sizeof(supla_rs_cfg[0]))
#define NIN (int)(sizeof(supla_input_cfg) / sizeof(supla_input_cfg[0]))
struct snap {
  supla_relay_cfg_t relay[sizeof(supla_relay_cfg) / sizeof(supla_relay_cfg[0])];
  supla_roller_shutter_cfg_t rs[sizeof(supla_rs_cfg) / sizeof(supla_rs_cfg[0])];
  supla_input_cfg_t input[sizeof(supla_input_cfg) / sizeof(supla_input_cfg[0])];
  SuplaEspCfg cfg; SuplaEspState state;
  int chfunc[64], runtimecfg[64]; unsigned char vistype[64];
  unsigned gpio;
};
static struct snap S0, S1;
static void take(struct snap *s) {
  memset(s, 0, sizeof *s);
  memcpy(s->relay, supla_relay_cfg, sizeof supla_relay_cfg);
  memcpy(s->rs, supla_rs_cfg, sizeof supla_rs_cfg);
  memcpy(s->input, supla_input_cfg, sizeof supla_input_cfg);
  memcpy(&s->cfg, &supla_esp_cfg, sizeof supla_esp_cfg);
  memcpy(&s->state, &supla_esp_state, sizeof supla_esp_state);
  if (c03_chfunc()) memcpy(s->chfunc, c03_chfunc(), sizeof(int) * (size_t)c03_chfunc_len());
  if (c03_runtimecfg()) memcpy(s->runtimecfg, c03_runtimecfg(), sizeof(int) * (size_t)c03_runtimecfg_len());
  if (c03_vistype()) memcpy(s->vistype, c03_vistype(), (size_t)c03_vistype_len());
  s->gpio = v_gpio_out;
}
#define ARR(tbl, field) do { for (int i = 0; i < (int)(sizeof(a->field) / sizeof(a->field[0])); i++) \
    if (memcmp(&a->field[i], &b->field[i], sizeof(a->field[0]))) vout("CH %d %d", tbl, i); } while (0)
/* marks the bytes of a struct that belong to a named field */
#define MASK(base, field) memset(mask + ((char *)&(base).field - (char *)&(base)), 1, sizeof((base).field))
static void diff(const struct snap *a, const struct snap *b, int gpio_only) {
  if (!gpio_only) {
    ARR(0, relay); ARR(1, rs); ARR(2, input);
    ARR(3, cfg.Time1); ARR(4, cfg.Time2); ARR(5, cfg.Time3); ARR(6, cfg.AutoCalOpenTime); ARR(7, cfg.AutoCalCloseTime);
    ARR(8, cfg.TiltControlType); ARR(9, cfg.AdditionalTimeMargin);
    for (int i = 0; i < 8 * (int)sizeof(a->cfg.MotorUpsideDown); i++)
      if (((a->cfg.MotorUpsideDown ^ b->cfg.MotorUpsideDown) >> i) & 1) vout("CH 10 %d", i);
    ARR(11, state.Relay); ARR(12, state.rs_position); ARR(13, state.tilt); ARR(14, state.Time2Left);
    for (int i = 0; i < c03_chfunc_len(); i++) if (a->chfunc[i] != b->chfunc[i]) vout("CH 15 %d", i);
    for (int i = 0; i < c03_runtimecfg_len(); i++) if (a->runtimecfg[i] != b->runtimecfg[i]) vout("CH 16 %d", i);
    for (int i = 0; i < c03_vistype_len(); i++) if (a->vistype[i] != b->vistype[i]) vout("CH 17 %d", i);
  }
  for (int i = 0; i < 32; i++) if (((a->gpio ^ b->gpio) >> i) & 1) vout("CH 18 %d", i);
  if (!gpio_only) {
    if (a->cfg.ButtonsUpsideDown != b->cfg.ButtonsUpsideDown) vout("CH 19 0");
    {
      static char mask[sizeof(SuplaEspCfg)]; memset(mask, 0, sizeof mask);
      MASK(a->cfg, Time1); MASK(a->cfg, Time2); MASK(a->cfg, Time3); MASK(a->cfg, AutoCalOpenTime); MASK(a->cfg, AutoCalCloseTime);
      MASK(a->cfg, TiltControlType); MASK(a->cfg, AdditionalTimeMargin); MASK(a->cfg, MotorUpsideDown); MASK(a->cfg, ButtonsUpsideDown);
      const char *p = (const char *)&a->cfg, *q = (const char *)&b->cfg; int ch = 0;
      for (size_t i = 0; i < sizeof(SuplaEspCfg); i++) if (!mask[i] && p[i] != q[i]) ch = 1;
      if (ch) vout("CH 19 1");
    }
    {
      static char mask[sizeof(SuplaEspState)]; memset(mask, 0, sizeof mask);
      MASK(a->state, Relay); MASK(a->state, rs_position); MASK(a->state, tilt); MASK(a->state, Time2Left);
      const char *p = (const char *)&a->state, *q = (const char *)&b->state; int ch = 0;
      for (size_t i = 0; i < sizeof(SuplaEspState); i++) if (!mask[i] && p[i] != q[i]) ch = 1;
      if (ch) vout("CH 19 2");
    }
  }
}

static void timers(const char *tag, int with_target) {
  for (int ch = 0; ch < 255; ch++) {
    TTimerState_ExtendedValue st; supla_esp_countdown_get_state((uint8)ch, &st);
    if (st.RemainingTimeMs > 0) { if (with_target) vout("%s %d %u %d", tag, ch, st.RemainingTimeMs, (int)st.TargetValue[0]); else vout("%s %d %u", tag, ch, st.RemainingTimeMs); }
  }
}
static void values(const struct snap *a, const struct snap *b) {
  for (int i = 0; i < (int)(sizeof(a->state.Time2Left) / sizeof(a->state.Time2Left[0])); i++)
    if (a->state.Time2Left[i] != b->state.Time2Left[i]) vout("T2L %d %u %u", i, a->state.Time2Left[i], b->state.Time2Left[i]);
  for (int i = 0; i < 32; i++) if (((a->gpio ^ b->gpio) >> i) & 1) vout("PIN %d %d", i, (int)((b->gpio >> i) & 1));
  for (int i = 0; i < (int)sizeof(a->state.Relay); i++) if (a->state.Relay[i] != b->state.Relay[i]) vout("SR %d %d", i, (int)b->state.Relay[i]);
}

/* frames and delivers one message through the real receive callback, then iterates until the staging buffer is empty */
static void deliver(unsigned call_id, unsigned rr_id, const unsigned char *payload, unsigned n) {
  static unsigned char fr[18 + SUPLA_MAX_DATA_SIZE + 5];
  if (n > SUPLA_MAX_DATA_SIZE) n = SUPLA_MAX_DATA_SIZE;
  memcpy(fr, "SUPLA", 5); fr[5] = ESP8266_SUPLA_PROTO_VERSION; memcpy(fr + 6, &rr_id, 4); memcpy(fr + 10, &call_id, 4); memcpy(fr + 14, &n, 4);
  memcpy(fr + 18, payload, n); memcpy(fr + 18 + n, "SUPLA", 5);
  unsigned tot = 18 + n + 5, o = 0;
  while (o < tot) {
    unsigned c = tot - o > 512 ? 512 : tot - o;
    if (!vd_exists() || vd_srpc() == NULL) return;
    supla_esp_devconn_recv_cb(vd_espconn(), (char *)(fr + o), (unsigned short)c); o += c;
    for (int k = 0; k < 3 && vd_srpc() != NULL; k++) supla_esp_devconn_iterate(NULL);
  }
  for (int k = 0; k < 8 && vd_srpc() != NULL && vd_recvbuff_size() > 0; k++) supla_esp_devconn_iterate(NULL);
}

static void run_case(int n, char **lines) {
  static unsigned char buf[70000];
  int i = 0, gate = 0, k = 0;
  if (n > 0 && !strncmp(lines[0], "GATE", 4)) {
    gate = 1; i = 1;
    v_quiet = 1;
    memset(&supla_esp_cfg, 0, sizeof supla_esp_cfg);
    strcpy(supla_esp_cfg.Email, "a@b.c"); strcpy(supla_esp_cfg.Server, "srv");
    supla_esp_devconn_init();
    vd_srpc_init_with_handler(gate_handler);
    vd_set_registered(1);
  } else {
    long long f[160]; int nf = 0, fwupd = 0;
    ds_apply_cfg("");
    if (n > 0 && !strncmp(lines[0], "CFG", 3)) {
      char *q = lines[0] + 3;
      while (*q && *q != ':' && nf < 160) { while (*q == ' ') q++; if (!*q || *q == ':') break; f[nf++] = strtoll(q, &q, 0); }
      i = 1;
      int o = 0;
      if (o < nf) o++;                       /* devcfg: routing only */
      if (o < nf) fwupd = (int)f[o++];
      if (o < nf) { int nr = (int)f[o++]; for (int r = 0; r < nr && r < 8 && o + 3 < nf; r++, o += 4) {
        v_board.relay[r].gpio = (int)f[o]; v_board.relay[r].channel = (int)f[o + 1]; v_board.relay[r].flags = (int)f[o + 2];
        v_board.relay[r].channel_flags = (unsigned)f[o + 3]; v_board.nrelay = r + 1; } }
      if (o < nf) { int nr = (int)f[o++]; for (int r = 0; r < nr && r < 4 && o + 1 < nf; r++, o += 2) {
        v_board.rs[r].up_idx = (int)f[o]; v_board.rs[r].down_idx = (int)f[o + 1]; v_board.nrs = r + 1; } }
      if (o < nf) { int nr = (int)f[o++]; for (int r = 0; r < nr && r < 7 && o + 5 < nf; r++, o += 6) {
        v_board.input[r].gpio = (int)f[o]; v_board.input[r].type = (int)f[o + 1]; v_board.input[r].flags = (int)f[o + 2];
        v_board.input[r].relay_gpio = (int)f[o + 3]; v_board.input[r].channel = (int)f[o + 4]; v_board.input[r].at_cap = (unsigned)f[o + 5];
        v_board.ninput = r + 1; } }
      if (o < nf) v_board.rs_channel_flags = (unsigned)f[o++];      /* optional trailing integer: channel flags of the shutter channels */
    }
    ds_log_gpio = 0; ds_log_wire = 0; ds_log_conn = 0; ds_log_restart = 0; ds_stop_on_restart = 1;
    ds_boot(1);
    if (fwupd) { supla_esp_cfg.FirmwareUpdate = 1; supla_esp_update_init(); }
    v_advance(3000000ULL); ds_conncb(); v_advance(100000ULL);
    ds_regresult(SUPLA_RESULTCODE_TRUE, 120); v_advance(2000000ULL);
  }
  for (; i < n; i++) {
    char *l = lines[i];
    if (!strncmp(l, "SRV ", 4)) {
      unsigned call = 0, rr = 0; sscanf(l + 4, "%u %u", &call, &rr);
      char *c = strchr(l, ':'); int len = c ? hex2bytes(c + 1 + (c[1] == ' '), buf, sizeof buf) : 0;
      vout("EV %d", k++);
      if (!gate) { timers("TM", 1); take(&S0); }
      deliver(call, rr, buf, (unsigned)len);
      if (!gate) { take(&S1); timers("TA", 0); values(&S0, &S1);
        for (int q = 0; q < NIN; q++) if (supla_input_cfg[q].channel != 255) vout("AT %d %u", q, supla_input_cfg[q].active_triggers);
        diff(&S0, &S1, 0); }
    } else if (!strncmp(l, "SKEW ", 5)) {
      vout("EV %d", k++);
      if (!gate) v_now += strtoull(l + 5, NULL, 0);
    } else if (!strncmp(l, "ADV ", 4)) {
      vout("EV %d", k++);
      if (!gate) { take(&S0); v_advance(strtoull(l + 4, NULL, 0)); take(&S1); diff(&S0, &S1, 1); }
    }
  }
}
