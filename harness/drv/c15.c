/* C15 driver: renders every variant of the configuration page through the real functions
 * (supla_esp_cfgmode_get_html_template of both html sources, supla_esp_http_ok, supla_esp_set_state,
 * supla_esp_recv_callback for GET) with the real vsnprintf and prints what espconn_sent received.
 * events:  CFG : <image A>   CFGB : <image B>   NAME : <dev_name>   MAC : <6 bytes>   ADD : <additional settings>
 *          STATE : <message>   WIFICONNECT <sdk status>   WIFISTATUS <sdk status>   (history of the last-state text)
 *          RENDER <variant> <data_saved>   GET
 *          FORMB : <request B>   FORM : <request A>   (POST of a form through the real supla_esp_recv_callback on a fresh
 *                 connection: request A on image A, request B on image B; the saved images become the new images A and B)
 * outputs: PAGE <v> <ds> <alloc size> <truncated> : <header+page of image A>
 *          PAGEB ...                               : <the same for image B>
 *          GETPAGE 6 0 <alloc size> <truncated>   : <response to GET / with image A>
 *          FPAGE <saved> <alloc size> <truncated> : <response to the POST of request A>     FPAGEB ... <of request B>
 *          FCFG : <supla_esp_cfg after request A>    FCFGB : <after request B> */
#include <string.h>
#include <stdlib.h>
#include <os_type.h>
#include <osapi.h>
#include <espconn.h>
#include <supla_esp.h>
#include <supla_esp_cfg.h>
#include <supla_esp_state.h>
#include "supla-dev/log.h"
#include "verif.h"
#include "c15_hooks.h"
#include "drvmain.h"

void supla_esp_http_ok(struct espconn *pespconn, char *html);
void supla_esp_recv_callback(void *arg, char *pdata, unsigned short len);
void supla_esp_connectcb(void *arg);
void supla_esp_discon_callback(void *arg);
void supla_esp_wifi_init(void);
void supla_esp_wifi_check_status(void *ptr);
typedef void (*_wifi_void_status)(uint8 status);
void supla_esp_wifi_station_connect(_wifi_void_status status_cb);

/* the history that produces the last-state text: replayed under each configuration image before a page is rendered,
 * so that messages the firmware formats from the configuration are produced from THAT configuration */
#define LOG_MAX 64
static struct { int kind; int n; char *msg; } st_log[LOG_MAX]; static int st_nlog = 0;
static void replay_state(void) {
  char *ls = (char *)supla_esp_get_laststate();
  memset(ls, 0, STATE_MAXSIZE);
  supla_esp_wifi_init();                          /* last_status = STATION_GOT_IP + 1 */
  for (int i = 0; i < st_nlog; i++) {
    if (st_log[i].kind == 0) supla_esp_set_state(LOG_DEBUG, st_log[i].msg);
    else if (st_log[i].kind == 1) { v_wifi_status = st_log[i].n; supla_esp_wifi_station_connect(NULL); }
    else { v_wifi_status = st_log[i].n; v_advance(200000); }      /* the 200 ms status poll timer */
  }
}

static unsigned char imgA[sizeof(SuplaEspCfg)], imgB[sizeof(SuplaEspCfg)];
static char dev_name[25]; static char mac[6];
static unsigned char *sent; static size_t sent_n, sent_cap;

static void on_sent(struct espconn *e, const unsigned char *p, unsigned len, int result) {
  (void)e; (void)result;
  if (sent_n + len > sent_cap) { sent_cap = (sent_n + len) * 2 + 1024; sent = realloc(sent, sent_cap); }
  memcpy(sent + sent_n, p, len); sent_n += len;
}

typedef char *(*tmpl_fn)(char *, const char *, const char);
static tmpl_fn fns[7] = { c15_tmpl_v0, c15_tmpl_v1, c15_tmpl_v2, c15_tmpl_v3, c15_tmpl_v4, c15_tmpl_v5,
                          supla_esp_cfgmode_get_html_template };

static void render(const char *kind, const unsigned char *img, int v, int ds) {
  struct espconn conn; memset(&conn, 0, sizeof conn);
  memcpy(&supla_esp_cfg, img, sizeof(SuplaEspCfg));
  replay_state();
  c15_reset(); sent_n = 0;
  char nm[25]; memcpy(nm, dev_name, 25);
  char *buf = fns[v](nm, mac, (char)ds);
  long sz = c15_size_of(buf);
  if (buf) { supla_esp_http_ok(&conn, buf); free(buf); }
  fprintf(stdout, "%s %d %d %ld %d : ", kind, v, ds, sz, c15_trunc);
  vout_hex("", sent, sent_n);
}

static int saves;
static void on_flash(const char *op, unsigned addr, unsigned len) {
  (void)len;
  if (strcmp(op, "write") == 0 && addr == CFG_SECTOR * 4096u) saves++;
}
/* POST of one form through the real callbacks on a fresh connection; the image is updated to what was saved */
static void post_form(const char *kind, const char *ckind, unsigned char *img, const unsigned char *req, int len) {
  struct espconn conn; esp_tcp tcp; memset(&conn, 0, sizeof conn); memset(&tcp, 0, sizeof tcp);
  conn.type = ESPCONN_TCP; conn.proto.tcp = &tcp;
  memcpy(&supla_esp_cfg, img, sizeof(SuplaEspCfg));
  replay_state();
  supla_esp_connectcb(&conn);
  c15_reset(); sent_n = 0; saves = 0;
  char *seg = malloc(len ? len : 1); memcpy(seg, req, len);
  supla_esp_recv_callback(&conn, seg, (unsigned short)len);
  free(seg);
  long sz = -1;
  for (int k = 0; k < c15_nalloc; k++) if ((long)c15_allocs[k].n > sz) sz = (long)c15_allocs[k].n;
  fprintf(stdout, "%s %d %ld %d : ", kind, saves ? 1 : 0, sz, c15_trunc);
  vout_hex("", sent, sent_n);
  memcpy(img, &supla_esp_cfg, sizeof(SuplaEspCfg));
  fprintf(stdout, "%s : ", ckind); vout_hex("", img, sizeof(SuplaEspCfg));
  supla_esp_discon_callback(&conn);
}

static void run_case(int n, char **lines) {
  static unsigned char buf[70000];
  static unsigned char reqb[70000]; static int reqb_n = 0;
  v_on_flash = on_flash;
  v_quiet = 1; v_on_sent = on_sent;
  for (int i = 0; i < n; i++) {
    char *l = lines[i];
    char *c = strchr(l, ':'); int len = c ? hex2bytes(c + 1 + (c[1] == ' '), buf, sizeof buf - 1) : 0;
    buf[len] = 0;
    if (strncmp(l, "CFGB", 4) == 0) { memset(imgB, 0, sizeof imgB); memcpy(imgB, buf, len < (int)sizeof imgB ? len : (int)sizeof imgB); }
    else if (strncmp(l, "CFG", 3) == 0) { memset(imgA, 0, sizeof imgA); memcpy(imgA, buf, len < (int)sizeof imgA ? len : (int)sizeof imgA); }
    else if (strncmp(l, "NAME", 4) == 0) { memset(dev_name, 0, sizeof dev_name); memcpy(dev_name, buf, len < 24 ? len : 24); }
    else if (strncmp(l, "MAC", 3) == 0) { memset(mac, 0, 6); memcpy(mac, buf, len < 6 ? len : 6); }
    else if (strncmp(l, "ADD", 3) == 0) { snprintf(c15_addsett, sizeof c15_addsett, "%s", (char *)buf); }
    else if (strncmp(l, "STATE", 5) == 0) { if (st_nlog < LOG_MAX) { st_log[st_nlog].kind = 0; st_log[st_nlog].msg = strdup((char *)buf); st_nlog++; } }
    else if (strncmp(l, "WIFICONNECT", 11) == 0) { if (st_nlog < LOG_MAX) { st_log[st_nlog].kind = 1; st_log[st_nlog].n = atoi(l + 11); st_nlog++; } }
    else if (strncmp(l, "WIFISTATUS", 10) == 0) { if (st_nlog < LOG_MAX) { st_log[st_nlog].kind = 2; st_log[st_nlog].n = atoi(l + 10); st_nlog++; } }
    else if (strncmp(l, "FORMB", 5) == 0) { memcpy(reqb, buf, len); reqb_n = len; }
    else if (strncmp(l, "FORM", 4) == 0) {
      if (len > 65535) len = 65535;
      post_form("FPAGE", "FCFG", imgA, buf, len);
      post_form("FPAGEB", "FCFGB", imgB, reqb, reqb_n > 65535 ? 65535 : reqb_n);
    }
    else if (strncmp(l, "RENDER", 6) == 0) {
      int v = 0, ds = 0; sscanf(l + 6, "%d %d", &v, &ds);
      if (v < 0 || v > 6) continue;
      render("PAGE", imgA, v, ds);
      render("PAGEB", imgB, v, ds);
    } else if (strncmp(l, "GET", 3) == 0) {
      struct espconn conn; esp_tcp tcp; memset(&conn, 0, sizeof conn); memset(&tcp, 0, sizeof tcp);
      conn.type = ESPCONN_TCP; conn.proto.tcp = &tcp;
      memcpy(&supla_esp_cfg, imgA, sizeof(SuplaEspCfg));
      replay_state();
      c15_reset(); sent_n = 0;
      supla_esp_connectcb(&conn);
      char req[] = "GET / HTTP/1.1\r\nHost: 192.168.4.1\r\n\r\n";
      supla_esp_recv_callback(&conn, req, (unsigned short)(sizeof req - 1));
      long sz = -1;  /* the page is the largest allocation of the renderer */
      for (int k = 0; k < c15_nalloc; k++) if ((long)c15_allocs[k].n > sz) sz = (long)c15_allocs[k].n;
      fprintf(stdout, "GETPAGE 6 0 %ld %d : ", sz, c15_trunc);
      vout_hex("", sent, sent_n);
      supla_esp_discon_callback(&conn);
    }
  }
}
