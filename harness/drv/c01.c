/* C01 driver: real recv_cb / data_read / devconn_iterate / srpc_iterate / proto, own handler.
 * events:  RECV : <hex>   |   TICK
 * outputs: DELIVER <rr> <call> <ver> : <payload-hex> | RESTART | OVERFLOW */
#include <string.h>
#include <os_type.h>
#include <osapi.h>
#include <supla_esp.h>
#include <supla_esp_devconn.h>
#include <supla_esp_cfg.h>
#include <espconn.h>
#include "verif.h"
#include "verif_access.h"
#include "drvmain.h"

void supla_esp_devconn_recv_cb(void *arg, char *pdata, unsigned short len);
void supla_esp_devconn_iterate(void *timer_arg);

static void handler(void *srpc, unsigned _supla_int_t rr_id, unsigned _supla_int_t call_id,
                    void *user, unsigned char ver) {
  (void)user;
  /* the packet the handler would fetch with srpc_getdata(rr_id) */
  TSuplaDataPacket *p = NULL;
  for (int i = 0; i < vs_in_queue_count(srpc); i++) {
    TSuplaDataPacket *q = vs_in_queue_peek(srpc, i);
    if (rr_id == 0 || q->rr_id == rr_id) { p = q; break; }
  }
  unsigned n = p ? p->data_size : 0; if (n > SUPLA_MAX_DATA_SIZE) n = SUPLA_MAX_DATA_SIZE;
  fprintf(stdout, "DELIVER %u %u %u : ", rr_id, call_id, (unsigned)ver);
  vout_hex("", p ? p->data : "", n);
  if (p && (p->rr_id != rr_id || p->call_id != call_id || p->version != ver)) vout("MISMATCH queue-vs-args");
  TsrpcReceivedData rd; memset(&rd, 0, sizeof rd);
  char r = srpc_getdata(srpc, &rd, rr_id);   /* pops the in-queue exactly as the device handler does */
  if (r == SUPLA_RESULT_TRUE) srpc_rd_free(&rd);
}
static void on_restart(void) { vout("RESTART"); fflush(stdout); _exit(0); }
static void on_log(int prio, const char *fmt) { (void)prio; if (fmt && strstr(fmt, "Recv buffer size exceeded")) vout("OVERFLOW"); }

static void run_case(int n, char **lines) {
  static unsigned char buf[70000];
  v_quiet = 1; v_on_restart = on_restart; v_on_log = on_log;
  memset(&supla_esp_cfg, 0, sizeof supla_esp_cfg);
  strcpy(supla_esp_cfg.Email, "a@b.c"); strcpy(supla_esp_cfg.Server, "srv");
  supla_esp_devconn_init();
  vd_srpc_init_with_handler(handler);
  vd_set_registered(1);
  for (int i = 0; i < n; i++) {
    char *l = lines[i];
    if (strncmp(l, "RECV", 4) == 0) {
      char *c = strchr(l, ':'); int len = c ? hex2bytes(c + 1 + (c[1] == ' '), buf, sizeof buf) : 0;
      supla_esp_devconn_recv_cb(vd_espconn(), (char *)buf, (unsigned short)len);
    } else if (strncmp(l, "TICK", 4) == 0) {
      supla_esp_devconn_iterate(NULL);
    }
  }
}
