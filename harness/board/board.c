/* Configurable board for the verification harness (replaces test/src/board_stub.c).
 * The layout is filled by the driver from the CFG line of a case before supla_esp_gpio_init(). */
#include <string.h>
#include <os_type.h>
#include <osapi.h>
#include <proto.h>
#include <supla_esp.h>
#include <user_interface.h>
#include <supla_esp_gpio.h>
#include <supla_esp_rs_fb.h>
#include "verif.h"
#include "vboard.h"

const uint8_t rsa_public_key_bytes[RSA_NUM_BYTES] = {1, 2, 3};

struct vboard v_board;

void supla_esp_board_send_channel_values_with_delay(void *srpc) { (void)srpc; }
void supla_esp_board_set_device_name(char *buffer, uint8 buffer_size) {
  ets_snprintf(buffer, buffer_size, "VERIF-BOARD");
}

void supla_esp_board_gpio_init(void) {
  int i;
  for (i = 0; i < v_board.nrelay && i < RELAY_MAX_COUNT; i++) {
    supla_relay_cfg[i].gpio_id = v_board.relay[i].gpio;
    supla_relay_cfg[i].channel = v_board.relay[i].channel;
    supla_relay_cfg[i].flags = v_board.relay[i].flags;
    supla_relay_cfg[i].channel_flags = v_board.relay[i].channel_flags;
  }
#ifdef _ROLLERSHUTTER_SUPPORT
  for (i = 0; i < v_board.nrs && i < RS_MAX_COUNT; i++) {
    supla_rs_cfg[i].up = &supla_relay_cfg[v_board.rs[i].up_idx];
    supla_rs_cfg[i].down = &supla_relay_cfg[v_board.rs[i].down_idx];
    supla_rs_cfg[i].delayed_trigger.value = 0;
  }
#endif
  for (i = 0; i < v_board.ninput && i < INPUT_MAX_COUNT; i++) {
    supla_input_cfg[i].gpio_id = v_board.input[i].gpio;
    supla_input_cfg[i].type = v_board.input[i].type;
    supla_input_cfg[i].flags = v_board.input[i].flags;
    supla_input_cfg[i].relay_gpio_id = v_board.input[i].relay_gpio;
    supla_input_cfg[i].channel = v_board.input[i].channel;
    supla_input_cfg[i].action_trigger_cap = v_board.input[i].at_cap;
  }
}

void supla_esp_board_set_channels(TDS_SuplaDeviceChannel_C *channels, unsigned char *channel_count) {
  int n = 0, i, j;
  /* one channel per distinct relay channel number; shutters report RS function */
  for (i = 0; i < v_board.nrelay; i++) {
    int ch = v_board.relay[i].channel, seen = 0, is_rs = 0;
    for (j = 0; j < i; j++) if (v_board.relay[j].channel == ch) seen = 1;
    if (seen) continue;
    for (j = 0; j < v_board.nrs; j++) if (v_board.rs[j].up_idx == i || v_board.rs[j].down_idx == i) is_rs = 1;
    channels[n].Number = ch;
    channels[n].Type = SUPLA_CHANNELTYPE_RELAY;
    if (is_rs) {
      channels[n].FuncList = SUPLA_BIT_FUNC_CONTROLLINGTHEROLLERSHUTTER;
      channels[n].Default = SUPLA_CHANNELFNC_CONTROLLINGTHEROLLERSHUTTER;
      channels[n].Flags = SUPLA_CHANNEL_FLAG_CHANNELSTATE | v_board.rs_channel_flags;
    } else {
      channels[n].FuncList = SUPLA_BIT_FUNC_LIGHTSWITCH | SUPLA_BIT_FUNC_POWERSWITCH | SUPLA_BIT_FUNC_STAIRCASETIMER;
      channels[n].Default = SUPLA_CHANNELFNC_LIGHTSWITCH;
      channels[n].Flags = SUPLA_CHANNEL_FLAG_CHANNELSTATE | v_board.relay[i].channel_flags;
      channels[n].value[0] = supla_esp_gpio_relay_on(v_board.relay[i].gpio);
    }
    n++;
  }
  for (i = 0; i < v_board.ninput; i++) {
    if (v_board.input[i].at_cap) {
      channels[n].Number = v_board.input[i].channel;
      channels[n].Type = SUPLA_CHANNELTYPE_ACTIONTRIGGER;
      channels[n].FuncList = SUPLA_CHANNELFNC_ACTIONTRIGGER;
      channels[n].Default = SUPLA_CHANNELFNC_ACTIONTRIGGER;
      channels[n].ActionTriggerCaps = v_board.input[i].at_cap;
      n++;
    }
  }
  *channel_count = (unsigned char)n;
}

#ifdef _ROLLERSHUTTER_SUPPORT
/* motor/sensor model, see vboard.h */
bool supla_esp_board_is_rs_in_move(supla_roller_shutter_cfg_t *rs_cfg) {
  unsigned int t = system_get_time();
  int idx = (int)(rs_cfg - supla_rs_cfg);
  struct vmotor *m = &v_board.motor[idx >= 0 && idx < 4 ? idx : 0];
  switch (m->mode) {
    case VM_NEVER: return false;
    case VM_ALWAYS: return true;
    default: break;
  }
  if (t - rs_cfg->start_time < (unsigned)m->startup_ms * 1000u) return false;
  if (1 == __supla_esp_gpio_relay_is_hi(rs_cfg->up)) {
    if (t - rs_cfg->start_time >= (unsigned)(m->up_ms + m->startup_ms) * 1000u) return false;
  }
  if (1 == __supla_esp_gpio_relay_is_hi(rs_cfg->down)) {
    if (t - rs_cfg->start_time >= (unsigned)(m->down_ms + m->startup_ms) * 1000u) return false;
  }
  if (t - rs_cfg->start_time > 0) return true;
  return false;
}
#endif

bool supla_esp_board_calcfg_request(TSD_DeviceCalCfgRequest *request) { (void)request; return false; }
int v_device_state = 0;
void supla_esp_board_on_state_changed(char supla_last_state) { v_device_state = supla_last_state; }
