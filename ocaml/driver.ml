(* Generic driver for every extracted model (trusted glue): reads cases
     #CASE <id>
     <kind> <int>* : <hex>
     #END
   calls Model.main_wire on the list of (kind, ints, bytes) and prints the result in the same syntax. *)
open Model

let rec pos_of_int n = if n = 1 then XH else if n land 1 = 0 then XO (pos_of_int (n lsr 1)) else XI (pos_of_int (n lsr 1))
let z_of_int n = if n = 0 then Z0 else if n > 0 then Zpos (pos_of_int n) else Zneg (pos_of_int (- n))
let rec int_of_pos = function XH -> 1 | XO p -> 2 * int_of_pos p | XI p -> 2 * int_of_pos p + 1
let int_of_z = function Z0 -> 0 | Zpos p -> int_of_pos p | Zneg p -> - (int_of_pos p)

let hexv c = match c with
  | '0'..'9' -> Char.code c - 48 | 'a'..'f' -> Char.code c - 87 | 'A'..'F' -> Char.code c - 55 | _ -> -1

let bytes_of_hex s =
  let n = String.length s / 2 in
  let rec go i acc = if i < 0 then acc else go (i - 1) (z_of_int (hexv s.[2*i] * 16 + hexv s.[2*i+1]) :: acc) in
  go (n - 1) []

let parse_line l =
  let (l, hex) = match String.index_opt l ':' with
    | Some i -> (String.sub l 0 i, String.trim (String.sub l (i+1) (String.length l - i - 1)))
    | None -> (l, "") in
  let toks = List.filter (fun s -> s <> "") (String.split_on_char ' ' l) in
  match toks with
  | [] -> None
  | k :: args -> Some ((z_of_int (int_of_string k), List.map (fun a -> z_of_int (int_of_string a)) args), bytes_of_hex hex)

let print_wire ((k, args), bytes) =
  let b = Buffer.create 64 in
  Buffer.add_string b (string_of_int (int_of_z k));
  List.iter (fun a -> Buffer.add_char b ' '; Buffer.add_string b (string_of_int (int_of_z a))) args;
  Buffer.add_string b " :";
  (match bytes with [] -> () | _ -> Buffer.add_char b ' ');
  List.iter (fun x -> Buffer.add_string b (Printf.sprintf "%02x" (int_of_z x land 255))) bytes;
  print_endline (Buffer.contents b)

let () =
  let cur = ref [] and id = ref "" and inc = ref false in
  (try while true do
    let l = input_line stdin in
    if String.length l >= 5 && String.sub l 0 5 = "#CASE" then begin
      id := String.trim (String.sub l 5 (String.length l - 5)); cur := []; inc := true end
    else if l = "#END" && !inc then begin
      print_endline ("#CASE " ^ !id);
      (try List.iter print_wire (main_wire (List.rev !cur))
       with e -> print_endline ("#EXN " ^ Printexc.to_string e));
      print_endline "#STATUS ok"; print_endline "#END"; inc := false end
    else if !inc then (match parse_line l with Some w -> cur := w :: !cur | None -> ())
  done with End_of_file -> ())
