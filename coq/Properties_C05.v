(* C05 — Keep-alive, silent-server reconnect and watchdog restart happen within bounds.
   Property theorems only: each is closed by `exact` of a lemma proved in C05/Proofs.v.

   Structure.  The executable model is the C04 automaton (timestamps of frames / espconn_disconnect / connect / restart are
   compared line by line with the implementation).  [C05_timer1_is_decide] and [C05_watchdog_is_decide] show that its
   two timer callbacks are the pure decisions t1_decide / wd_decide on the integer uptime seconds.  The bounds are proved
   for those decisions:
   * keep-alive over the abstract timed semantics of C05/Model.v (events Tick/Sent/Resp stamped with the uptime second),
     under the environment hypotheses collected in [kenv_ok]: time monotone, a timer1 tick at least every other second
     (1 s period, lateness < 1 s), a queued ping accepted by the link within the next second and before the next tick
     (healthy link), every ping answered no later than the second after it was queued (prompt server), and H_slot: a free
     out-queue slot at the ticks where an idle time has reached T-2.  Local traffic is arbitrary ([Sent] at any time).
   * silent server: the decisions themselves plus the arithmetic of seconds; the bound "tau + T + 11 s" is: the uptime
     second reaches lr + T + 10 at most (T+10) s after tau ([C05_seconds_elapsed]), the next timer1 tick follows within one
     period (1 s + lateness), and that tick reconnects ([C05_silent_server_reconnect]); likewise 60+1+1 s for the watchdog. *)
From Coq Require Import List ZArith Bool.
Import ListNotations.
From V Require Import Base.U32 Base.Bytes Base.Iface Gen.ProtoConsts Gen.C04Consts C04.Model C04.Proofs C05.Model C05.Proofs.
Local Open Scope Z_scope.

Theorem C05_timer1_is_decide : forall s,
  timer1_cb s =
  if is_registered s then
    match t1_decide (uptime s) (lastsent s) (lastresp s) (actto s) with
    | T1_reconnect => devconn_reconnect s
    | T1_ping => async_call (api_call A_PING) (zeros (api_size A_PING)) s
    | T1_none => s
    end
  else s.
Proof. exact timer1_cb_decide. Qed.
Print Assumptions C05_timer1_is_decide.

Theorem C05_watchdog_is_decide : forall s,
  watchdog_cb s =
  match wd_decide (uptime s) (lastresp s) (actto s) (nextwd s) with
  | WD_restart => restart s
  | WD_soft => devconn_reconnect s
  | WD_none => s
  end.
Proof. exact watchdog_cb_decide. Qed.
Print Assumptions C05_watchdog_is_decide.

(* registered, 10 <= T <= 50, environment as in kenv_ok: the device never decides to reconnect, at every instant the last
   transmission is at most T seconds old (a frame in every activity-timeout window), the last response at most T+2 seconds,
   and a watchdog tick at any instant before the next timer1 tick does nothing (no restart, no soft reconnect). *)
Theorem C05_keepalive : forall T u0 ls0 l,
  10 <= T <= 50 -> 0 <= ls0 <= u0 -> u0 < 4294967296 -> u0 - ls0 <= T - 3 ->
  kenv_run T (kinit u0 ls0) l = true ->
  let s := krun T (kinit u0 ls0) l in
  k_bad s = false /\ k_cur s - k_ls s <= T /\ k_cur s - k_lr s <= T + 2 /\
  (forall up nw, k_lr s <= up -> up <= k_lt s + 2 -> up < 4294967296 -> wd_decide up (k_lr s) T nw = WD_none).
Proof. exact C05_keepalive_thm. Qed.
Print Assumptions C05_keepalive.

Example C05_keepalive_example : kenv_run 10 (kinit 100 100) (ka_trace 40 101) = true /\
  k_ls (krun 10 (kinit 100 100) (ka_trace 40 101)) = 140 /\ k_bad (krun 10 (kinit 100 100) (ka_trace 40 101)) = false.
Proof. exact ka_example. Qed.

(* H_slot cannot be dropped: no free slot at the ticks of the ping window (local traffic keeps the 2-slot queue full,
   the server has no ping to answer) => the device reconnects although the link is healthy *)
Theorem C05_keepalive_without_slot_refuted : k_bad (krun 10 (kinit 100 100) (noslot_trace 25 101)) = true.
Proof. exact noslot_refuted. Qed.
Print Assumptions C05_keepalive_without_slot_refuted.

(* silent server *)
Theorem C05_seconds_elapsed : forall b tau x d, 0 <= d -> tau + d * 1000000 <= x -> (b + tau) / 1000000 + d <= (b + x) / 1000000.
Proof. exact seconds_elapsed. Qed.
Print Assumptions C05_seconds_elapsed.

Theorem C05_silent_server_reconnect : forall s,
  is_registered s = true -> 0 < actto s < 4294966000 -> 0 <= lastresp s -> lastresp s <= uptime s ->
  actto s + PING_RECONNECT_PLUS <= uptime s - lastresp s ->
  callback T_timer1 s = devconn_reconnect s /\
  In (mk O_DISCONNECT [now s] []) (outs (callback T_timer1 s)) /\ In (mk O_WIFISTART [now s] []) (outs (callback T_timer1 s)).
Proof. exact silent_reconnect_thm. Qed.
Print Assumptions C05_silent_server_reconnect.

Theorem C05_silent_server_restart : forall s,
  0 <= lastresp s -> lastresp s <= uptime s -> WATCHDOG_TIMEOUT_S < uptime s - lastresp s ->
  callback T_wd s = restart s /\ In (mk O_RESTART [now s] []) (outs (callback T_wd s)) /\ halted (callback T_wd s) = true.
Proof. exact silent_restart_thm. Qed.
Print Assumptions C05_silent_server_restart.

(* both bounds are attained up to 2 us: T = 10 -> closed and reconnecting 20.999999 s after the last message;
   T = 120 -> restart 61.999999 s after the last message *)
Theorem C05_bounds_tight :
  (filter (after 1000001 O_DISCONNECT) (tight_run 10 25000000) = [mk O_DISCONNECT [22000000] []] /\
   filter (after 1000001 O_WIFISTART) (tight_run 10 25000000) = [mk O_WIFISTART [22000000] []] /\
   filter (after 0 O_RESTART) (tight_run 10 25000000) = []) /\
  (filter (after 0 O_RESTART) (tight_run 120 65000000) = [mk O_RESTART [63000000] []] /\
   filter (after 1000001 O_DISCONNECT) (tight_run 120 65000000) = []).
Proof. exact (conj tight_reconnect tight_restart). Qed.
Print Assumptions C05_bounds_tight.
