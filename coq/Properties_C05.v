(* C05 — Keep-alive, silent-server reconnect and watchdog restart happen within bounds.
   Property theorems only: each is closed by `exact` of a lemma proved in C05/Proofs.v.

   Structure.  The executable model is the C04 automaton (timestamps of frames / espconn_disconnect / connect / restart are
   compared line by line with the implementation).  [C05_timer1_is_decide] and [C05_watchdog_is_decide] show that its
   two timer callbacks are the pure decisions t1_decide / wd_decide on the integer uptime seconds.  The bounds are proved
   for those decisions:
   * keep-alive over the abstract timed semantics of C05/Model.v (events Tick/Sent/Resp stamped with the uptime second),
     under [kenv_ok] = [kder_ok] && [kext_ok].  kder_ok (time monotone, 32-bit seconds, a timer1 tick at least every other
     second) is DERIVED for the automaton in C05/Sim.v from its timers (1 s period, lateness J < 1 s); kext_ok is what is
     external: H_link (a queued ping accepted by the link within the next second and before the next tick), H_prompt (every
     ping answered no later than the second after it was queued), H_slot (a free out-queue slot at the ticks where an idle
     time has reached T-2; complement of the known finding), and H_fresh at the start of an episode (something was sent in
     the last T-3 s).  Local traffic is arbitrary ([Sent] at any time).  [C05_keepalive_automaton] has only these left.
   * the granted timeout T is whatever byte the last register result / set-activity-timeout result carried (no clamp in the
     device, min/max ignored): KA_MIN = 5 <= T for the keep-alive invariant, T <= KA_WD_MAX = 58 for the watchdog clause;
     T = 0, 0 < T < 5 and T > 58 are characterised separately (the last one is refuted by a witness).
   * counter wraps: uptime.c makes the 32-bit microsecond counter a 64-bit time (cycles * 0xffffffff + low word).  All bounds
     hold across any number of wraps W of the counter, at the price of W microseconds; uptime seconds must fit 32 bits.
   * silent server: the decisions themselves plus the arithmetic of seconds; the bound "tau + T + 11 s" is: the uptime
     second reaches lr + T + 10 at most (T+10) s after tau ([C05_seconds_elapsed]), the next timer1 tick follows within one
     period (1 s + lateness), and that tick reconnects ([C05_silent_server_reconnect]); likewise 60+1+1 s for the watchdog. *)
From Coq Require Import List ZArith Bool.
Import ListNotations.
From V Require Import Base.U32 Base.Bytes Base.Iface Gen.ProtoConsts Gen.C04Consts C04.Keepalive C04.Model C04.Proofs C04.Timing C05.Model C05.Proofs C05.Sim.
Local Open Scope Z_scope.

Theorem C05_timer1_is_decide : forall s,
  timer1_cb s =
  if is_registered s then
    match t1_decide (uptime s) (lastsent s) (lastresp s) (actto s) with
    | T1_reconnect => devconn_reconnect (t1_ghost s)
    | T1_ping => async_call (api_call A_PING) (zeros (api_size A_PING)) (t1_ghost s)
    | T1_none => t1_ghost s
    end
  else s.
Proof. exact timer1_cb_decide. Qed.
Print Assumptions C05_timer1_is_decide.

Theorem C05_watchdog_is_decide : forall s,
  watchdog_cb s =
  match wd_decide (uptime s) (lastresp s) (actto s) (nextwd s) with
  | WD_restart => restart s
  | WD_soft => devconn_reconnect s
  | WD_none => s
  end.
Proof. exact watchdog_cb_decide. Qed.
Print Assumptions C05_watchdog_is_decide.

Example C05_timeout_range_values : KA_MIN = 5 /\ KA_WD_MAX = 58.
Proof. exact (conj KA_MIN_val KA_WD_MAX_val). Qed.

(* registered, KA_MIN = 5 <= T <= KA_WD_MAX = 58, environment as in kenv_ok: the device never decides to reconnect, at every instant the last
   transmission is at most T seconds old (a frame in every activity-timeout window), the last response at most T+2 seconds,
   and a watchdog tick at any instant before the next timer1 tick does nothing (no restart, no soft reconnect). *)
Theorem C05_keepalive : forall T u0 ls0 l,
  KA_MIN <= T <= KA_WD_MAX -> 0 <= ls0 <= u0 -> u0 < 4294967296 -> u0 - ls0 <= T - 3 ->
  kenv_run T (kinit u0 ls0) l = true ->
  let s := krun T (kinit u0 ls0) l in
  k_bad s = false /\ k_cur s - k_ls s <= T /\ k_cur s - k_lr s <= T + 2 /\
  (forall up nw, k_lr s <= up -> up <= k_lt s + 2 -> up < 4294967296 -> wd_decide up (k_lr s) T nw = WD_none).
Proof. exact C05_keepalive_thm. Qed.
Print Assumptions C05_keepalive.

(* every other timeout with a ping window (the protocol field is one byte: 5..255 is covered): everything but the watchdog clause *)
Theorem C05_keepalive_wide : forall T u0 ls0 l,
  KA_MIN <= T <= 4294966000 -> 0 <= ls0 <= u0 -> u0 < 4294967296 -> u0 - ls0 <= T - 3 ->
  kenv_run T (kinit u0 ls0) l = true ->
  let s := krun T (kinit u0 ls0) l in
  k_bad s = false /\ k_cur s - k_ls s <= T /\ k_cur s - k_lr s <= T + 2.
Proof. exact C05_keepalive_wide_thm. Qed.
Print Assumptions C05_keepalive_wide.

(* the ping rule for a granted timeout tmo >= 5 while the silence is not longer than tmo: ping iff an idle time is in [tmo-5, tmo] *)
Theorem C05_ping_window : forall up ls lr tmo,
  KA_MIN <= tmo <= 4294966000 -> 0 <= ls <= up -> 0 <= lr <= up -> up < 4294967296 -> up - lr <= tmo ->
  t1_decide up ls lr tmo =
  if ((tmo - PING_WINDOW_MINUS <=? up - ls) && (up - ls <=? tmo)) || ((tmo - PING_WINDOW_MINUS <=? up - lr) && (up - lr <=? tmo))
  then T1_ping else T1_none.
Proof. exact t1_decide_spec. Qed.
Print Assumptions C05_ping_window.
(* timeout 0: the keep-alive is off (no ping, no activity-timeout reconnect) *)
Theorem C05_timeout_zero_disables : forall up ls lr tmo, tmo <= 0 -> t1_decide up ls lr tmo = T1_none.
Proof. exact t1_decide_zero. Qed.
Print Assumptions C05_timeout_zero_disables.
(* 0 < timeout < 5: tmo - 5 wraps as unsigned, the device NEVER pings; it reconnects exactly when tmo + 10 s passed without a call *)
Theorem C05_timeout_below_window_never_pings : forall up ls lr tmo,
  0 < tmo < PING_WINDOW_MINUS -> 0 <= ls <= up -> 0 <= lr <= up -> up < 4294967296 ->
  t1_decide up ls lr tmo <> T1_ping /\ (t1_decide up ls lr tmo = T1_reconnect <-> tmo + PING_RECONNECT_PLUS <= up - lr).
Proof. exact t1_decide_small. Qed.
Print Assumptions C05_timeout_below_window_never_pings.

Example C05_keepalive_example : kenv_run 10 (kinit 100 100) (ka_trace 40 101) = true /\
  k_ls (krun 10 (kinit 100 100) (ka_trace 40 101)) = 140 /\ k_bad (krun 10 (kinit 100 100) (ka_trace 40 101)) = false.
Proof. exact ka_example. Qed.

(* H_slot cannot be dropped: no free slot at the ticks of the ping window (local traffic keeps the 2-slot queue full,
   the server has no ping to answer) => the device reconnects although the link is healthy *)
Theorem C05_keepalive_without_slot_refuted : k_bad (krun 10 (kinit 100 100) (noslot_trace 25 101)) = true.
Proof. exact noslot_refuted. Qed.
Print Assumptions C05_keepalive_without_slot_refuted.

(* silent server *)
Theorem C05_seconds_elapsed : forall b tau x d, 0 <= d -> tau + d * 1000000 <= x -> (b + tau) / 1000000 + d <= (b + x) / 1000000.
Proof. exact seconds_elapsed. Qed.
Print Assumptions C05_seconds_elapsed.

Theorem C05_silent_server_reconnect : forall s,
  is_registered s = true -> 0 < actto s < 4294966000 -> 0 <= lastresp s -> lastresp s <= uptime s ->
  actto s + PING_RECONNECT_PLUS <= uptime s - lastresp s ->
  callback T_timer1 s = devconn_reconnect (t1_ghost s) /\
  In (mk O_DISCONNECT [now s] []) (outs (callback T_timer1 s)) /\ In (mk O_WIFISTART [now s] []) (outs (callback T_timer1 s)).
Proof. exact silent_reconnect_thm. Qed.
Print Assumptions C05_silent_server_reconnect.

Theorem C05_silent_server_restart : forall s,
  0 <= lastresp s -> lastresp s <= uptime s -> WATCHDOG_TIMEOUT_S < uptime s - lastresp s ->
  callback T_wd s = restart s /\ In (mk O_RESTART [now s] []) (outs (callback T_wd s)) /\ halted (callback T_wd s) = true.
Proof. exact silent_restart_thm. Qed.
Print Assumptions C05_silent_server_restart.

(* the side condition on the generated call-site list (see Properties_C04.v) *)
Lemma C05_sites_guarded : sites_ok CallSites = true.
Proof. reflexivity. Qed.

(* ---------- END TO END on the full automaton (fuel-free semantics, C04/Timing.v) ----------
   s0: any reachable state (lateness script bounded by J); tau: the true time at which the last call was received
   (last_response = uptime second of tau); s0 --evs--> s1: ANY run (local traffic, callbacks, Wi-Fi events, send results,
   timer phases) in which no call is received (nresp unchanged).  The 32-bit microsecond counter may wrap any number of times:
   W = wraps s0 tau (now s1) is the number of wraps between tau and the end of the run, each costs one microsecond (uptime.c
   counts a cycle as 0xffffffff us); the uptime in seconds fits 32 bits.  No configuration mode / firmware update in the model. *)
(* the 64-bit time of uptime.c at model time t, and its seconds; the device's uptime_sec() is Upt (now) while it fits 32 bits *)
Theorem C05_uptime_seconds : forall J s, 0 <= J -> TR J s -> nowrap s -> uptime s = Upt s (now s).
Proof. intros J s _ R NW. exact (uptime_nowrap s NW (r_now J s R)). Qed.
Print Assumptions C05_uptime_seconds.
(* d seconds of uptime take less than d s of true time plus one microsecond per counter wrap in between *)
Theorem C05_elapsed_bound : forall s tau x d, 0 <= d -> Upt s x - Upt s tau < d ->
  x - ((boot s + x) / 4294967296 - (boot s + tau) / 4294967296) < tau + d * 1000000.
Proof. exact elapsed_bound. Qed.
Print Assumptions C05_elapsed_bound.

(* registered with granted timeout T (0 < T), no refusal stop pending: once the run has reached tau + (T+10+1) s + J + W us the device
   has called espconn_disconnect AND wifi_station_connect (the Wi-Fi/TCP connect sequence) at one instant t before that bound *)
Theorem C05_silent_server_reconnects : forall J cs cc s0 evs s1 tau, 0 <= J ->
  rreachable cs cc J s0 -> RRun s0 evs s1 -> nresp s1 = nresp s0 ->
  0 <= cycles0 s0 -> 0 <= boot s0 -> Upt s0 (now s1) < 4294967296 -> lastresp s0 = Upt s0 tau ->
  is_registered s0 = true -> armed (t_stop s0) = false -> 0 < actto s0 < 4294966000 ->
  tau + (actto s0 + PING_RECONNECT_PLUS) * 1000000 + T1_US + J + wraps s0 tau (now s1) <= now s1 ->
  exists t, now s0 <= t /\ t <= now s1 /\ disc_at t s1 /\ wifi_at t s1 /\
            t < tau + (actto s0 + PING_RECONNECT_PLUS) * 1000000 + T1_US + J + wraps s0 tau (now s1).
Proof. intros J cs cc s0 evs s1 tau HJ. exact (silent_reconnect_e2e_thm J HJ cs cc s0 evs s1 tau C05_sites_guarded). Qed.
Print Assumptions C05_silent_server_reconnects.

(* any state (registered or not, whatever T): once the run has reached tau + (60+1+1) s + J + W us the device has called
   supla_system_restart at an instant t before that bound *)
Theorem C05_silent_server_restarts : forall J cs cc s0 evs s1 tau, 0 <= J ->
  rreachable cs cc J s0 -> RRun s0 evs s1 -> nresp s1 = nresp s0 ->
  0 <= cycles0 s0 -> 0 <= boot s0 -> Upt s0 (now s1) < 4294967296 -> lastresp s0 = Upt s0 tau ->
  halted s0 = false -> tau + (WATCHDOG_TIMEOUT_S + 1) * 1000000 + WD_US + J + wraps s0 tau (now s1) <= now s1 ->
  halted s1 = true /\ exists t, now s0 <= t /\ t <= now s1 /\ restart_at t s1 /\
                               t < tau + (WATCHDOG_TIMEOUT_S + 1) * 1000000 + WD_US + J + wraps s0 tau (now s1).
Proof. intros J cs cc s0 evs s1 tau HJ. exact (silent_restart_e2e_thm J HJ cs cc s0 evs s1 tau C05_sites_guarded). Qed.
Print Assumptions C05_silent_server_restarts.
(* with the generated constants the two bounds are tau + (T+11) s + J (+W us) and tau + 62 s + J (+W us) *)
Example C05_bound_values : PING_RECONNECT_PLUS * 1000000 + T1_US = 11000000 /\ (WATCHDOG_TIMEOUT_S + 1) * 1000000 + WD_US = 62000000.
Proof. split; reflexivity. Qed.

(* the hypotheses are satisfiable: the run of C05_bounds_tight (T = 10, tau = 1000001 us, J = 0), without a wrap ... *)
Example C05_end_to_end_example : let s0 := e2e_s0 999999 0 in let s1 := e2e_s1 999999 0 25000000 in
  rreachable true false 0 s0 /\ RRun s0 [Adv 25000000] s1 /\ nresp s1 = nresp s0 /\
  0 <= cycles0 s0 /\ 0 <= boot s0 /\ Upt s0 (now s1) < 4294967296 /\ lastresp s0 = Upt s0 1000001 /\
  is_registered s0 = true /\ armed (t_stop s0) = false /\ actto s0 = 10 /\ halted s0 = false /\ wraps s0 1000001 (now s1) = 0 /\
  1000001 + (actto s0 + PING_RECONNECT_PLUS) * 1000000 + T1_US + 0 + wraps s0 1000001 (now s1) <= now s1.
Proof. exact e2e_example. Qed.
(* ... and on an aged device (3 earlier wraps) whose counter wraps 10 s after boot, inside the silence: W = 1 *)
Example C05_end_to_end_wrap_example : let s0 := e2e_s0 (4294967296 - 10000000) 3 in let s1 := e2e_s1 (4294967296 - 10000000) 3 25000000 in
  rreachable true false 0 s0 /\ RRun s0 [Adv 25000000] s1 /\ nresp s1 = nresp s0 /\
  0 <= cycles0 s0 /\ 0 <= boot s0 /\ Upt s0 (now s1) < 4294967296 /\ lastresp s0 = Upt s0 1000001 /\
  is_registered s0 = true /\ armed (t_stop s0) = false /\ actto s0 = 10 /\ halted s0 = false /\ wraps s0 1000001 (now s1) = 1 /\
  1000001 + (actto s0 + PING_RECONNECT_PLUS) * 1000000 + T1_US + 0 + wraps s0 1000001 (now s1) <= now s1.
Proof. exact e2e_wrap_example. Qed.

(* ---------- keep-alive on the automaton (simulation, C05/Sim.v) ----------
   The automaton runs the abstract semantics in lockstep as ghost state: kabs (abstract state), ktmo (its timeout) and kenv, the
   conjunction over the current episode of the EXTERNAL conditions only: *)
Theorem C05_kenv_is_external : forall s e,
  kenv (k_reset s) = (uptime s - lastsent s <=? actto s - 3) /\                  (* H_fresh when an episode starts *)
  kenv (k_event e s) = kenv s && kext_ok (ktmo s) (kabs s) e.                     (* H_link, H_prompt, H_slot per event *)
Proof. intros s e. exact (conj (kenv_reset s) (kenv_event e s)). Qed.
Print Assumptions C05_kenv_is_external.
(* lockstep: for EVERY history of the automaton (lateness J < 1 s) the ghost state simulates the device: same timeout; and while
   registered with 5 <= T and 32-bit uptime seconds, the abstract clock is the device's: last tick <= last event <= current
   second <= last tick + 2 (time monotone, a timer1 tick at least every other second: what kder_ok assumed) *)
Theorem C05_lockstep : forall J cs cc s, 0 <= J < 1000000 -> rreachable cs cc J s -> KSim J true s.
Proof. intros J cs cc s HJ. exact (ksim_reachable J HJ cs cc s C05_sites_guarded). Qed.
Print Assumptions C05_lockstep.
(* In every reachable registered state with 32-bit uptime seconds, KA_MIN = 5 <= T = granted timeout, whose episode met the external
   conditions: the invariant holds of the REAL last_sent / last_response, no reconnect was decided, seen from the CURRENT uptime
   second both idle times are at most T + 2, the derived conditions hold for the next timer1 tick, which (if it too meets the
   external conditions) does not reconnect, and for T <= KA_WD_MAX = 58 a watchdog tick now neither restarts nor reconnects. *)
Theorem C05_keepalive_automaton : forall J cs cc s, 0 <= J < 1000000 -> rreachable cs cc J s ->
  is_registered s = true -> nowrap s -> KA_MIN <= actto s <= 4294966000 -> kenv s = true ->
  let T := actto s in let k := kabs s in let up := Upt s (now s) in
  KInv T k /\ k_ls k = lastsent s /\ k_lr k = lastresp s /\ k_bad k = false /\
  uptime s = up /\ k_lt k <= k_cur k /\ k_cur k <= up /\ up <= k_lt k + 2 /\
  up - lastsent s <= T + 2 /\ up - lastresp s <= T + 2 /\
  (forall slot, kder_ok k (Tick (uptime s) slot) = true) /\
  (forall slot, kext_ok T k (Tick (uptime s) slot) = true -> t1_decide (uptime s) (lastsent s) (lastresp s) T <> T1_reconnect) /\
  (T <= KA_WD_MAX -> forall nw, wd_decide (uptime s) (lastresp s) T nw = WD_none).
Proof. intros J cs cc s HJ. exact (keepalive_automaton_thm J HJ cs cc s C05_sites_guarded). Qed.
Print Assumptions C05_keepalive_automaton.
(* the hypotheses hold on long concrete histories: 120 s, 23 pings answered after 50 ms each; and the same on an aged device
   (7 earlier wraps) whose microsecond counter wraps 30 s after boot *)
Example C05_keepalive_history_example : let s := ka_hist 999999 0 120000000 in
  rreachable true false 0 s /\ is_registered s = true /\ nowrap s /\ actto s = 10 /\ kenv s = true /\ nresp s = 24 /\ now s = 121000001.
Proof. exact ka_history_example. Qed.
Example C05_keepalive_history_wrap_example : let s := ka_hist (4294967296 - 30000000) 7 120000000 in
  rreachable true false 0 s /\ is_registered s = true /\ nowrap s /\ actto s = 10 /\ kenv s = true /\ nresp s = 24 /\
  (boot s + now s) / 4294967296 = 1 /\ uptime s = 34450.
Proof. exact ka_history_wrap_example. Qed.

(* ---------- activity-timeout negotiation ----------
   SET_ACTIVITY_TIMEOUT_RESULT {activity_timeout, min, max}: the device stores the first byte as it is (no clamp, min / max not
   read) and the register result's activity_timeout byte likewise; a new keep-alive episode starts with that value. *)
Theorem C05_sat_result_sets_timeout : forall f s, let v := nthz (drop OFF_DATA f) OFF_SAT_RESULT_TIMEOUT in
  le32 f OFF_CALL_ID = SRV_SET_ACTIVITY_TIMEOUT_RESULT -> le32 f OFF_DATA_SIZE = SZ_SET_ACTIVITY_TIMEOUT_RESULT ->
  let s' := handler f s in
  actto s' = v /\ ktmo s' = v /\ registered s' = registered s /\ srpc s' = srpc s /\ lastsent s' = lastsent s /\ lastresp s' = uptime s /\
  uptime s' = uptime s /\ t_timer1 s' = t_timer1 s /\ outs s' = outs s /\
  kabs s' = kinit (uptime s) (lastsent s) /\ kenv s' = (uptime s - lastsent s <=? v - 3).
Proof. exact sat_result_sets_timeout_thm. Qed.
Print Assumptions C05_sat_result_sets_timeout.
Theorem C05_register_result_sets_timeout : forall tmo s, let s' := on_register_result RESULTCODE_TRUE tmo s in
  actto s' = tmo /\ ktmo s' = tmo /\ registered s' = 1 /\ lastsent s' = lastsent s /\ lastresp s' = lastresp s /\
  kabs s' = kinit (uptime s) (lastsent s) /\ kenv s' = (uptime s - lastsent s <=? tmo - 3).
Proof. exact register_result_sets_timeout_thm. Qed.
Print Assumptions C05_register_result_sets_timeout.
(* after the result with ANY value v, handled in a reachable registered state, the keep-alive runs with v: lockstep restarted with
   tmo = v; for 5 <= v and something sent in the last v-3 s the invariant holds for T = v and the next decisions of timer1
   (C05_timer1_is_decide: it decides with actto = v) are the window rule of v.  Every later state of the history is covered by
   C05_keepalive_automaton with T = actto s = v.  v = 0 / 0 < v < 5: C05_timeout_zero_disables / C05_timeout_below_window_never_pings. *)
Theorem C05_timeout_negotiated : forall J cs cc s f, 0 <= J < 1000000 -> let v := nthz (drop OFF_DATA f) OFF_SAT_RESULT_TIMEOUT in
  rreachable cs cc J s -> is_registered s = true -> nowrap s ->
  le32 f OFF_CALL_ID = SRV_SET_ACTIVITY_TIMEOUT_RESULT -> le32 f OFF_DATA_SIZE = SZ_SET_ACTIVITY_TIMEOUT_RESULT ->
  let s' := handler f s in
  KSim J true s' /\ actto s' = v /\ ktmo s' = v /\ is_registered s' = true /\
  (KA_MIN <= v <= 4294966000 -> uptime s - lastsent s <= v - 3 ->
     kenv s' = true /\ KInv v (kabs s') /\ k_ls (kabs s') = lastsent s' /\ k_lr (kabs s') = lastresp s' /\
     forall up, lastresp s' <= up -> up < 4294967296 -> up - lastresp s' <= v ->
       t1_decide up (lastsent s') (lastresp s') v =
       if ((v - PING_WINDOW_MINUS <=? up - lastsent s') && (up - lastsent s' <=? v)) ||
          ((v - PING_WINDOW_MINUS <=? up - lastresp s') && (up - lastresp s' <=? v)) then T1_ping else T1_none).
Proof. intros J cs cc s f HJ. exact (timeout_negotiated_thm J HJ cs cc s f C05_sites_guarded). Qed.
Print Assumptions C05_timeout_negotiated.
(* registered with 30, the device asks for 10, the server grants 25 (min = 77, max = 3 ignored): 2 min later all hypotheses hold,
   5 pings answered; v = 5: a ping every second; v = 3: no ping, the healthy connection is dropped 13 s after the result *)
Example C05_negotiation_example : let s := neg_hist 30 25 120000000 in
  rreachable true false 0 s /\ is_registered s = true /\ nowrap s /\ actto s = 25 /\ ktmo s = 25 /\ kenv s = true /\ nresp s = 7.
Proof. exact negotiation_example. Qed.
Example C05_negotiation_min_example : let s := neg_hist 30 5 60000000 in
  rreachable true false 0 s /\ is_registered s = true /\ actto s = 5 /\ kenv s = true /\ nresp s = 62.
Proof. exact negotiation_min_example. Qed.
Example C05_negotiation_below_window_example : let s := neg_hist 30 3 20000000 in
  rreachable true false 0 s /\ nresp s = 2 /\ disc_at 15000000 s.
Proof. exact negotiation_small_example. Qed.
(* REFUTED beyond KA_WD_MAX: with 120 granted and a server that answers every ping after 50 ms (kenv = true) the first ping is due
   after 115 idle seconds, but the watchdog restarts the device after 61 s without a received call (restart at 63.0 s) *)
Theorem C05_watchdog_large_timeout_refuted : let s := neg_hist 30 120 70000000 in
  rreachable true false 0 s /\ actto s = 120 /\ kenv s = true /\ nresp s = 2 /\ halted s = true /\ exists t, t <= 63000000 /\ restart_at t s.
Proof. exact watchdog_large_timeout_refuted. Qed.
Print Assumptions C05_watchdog_large_timeout_refuted.

(* both bounds are attained up to 2 us: T = 10 -> closed and reconnecting 20.999999 s after the last message;
   T = 120 -> restart 61.999999 s after the last message *)
Theorem C05_bounds_tight :
  (filter (after 1000001 O_DISCONNECT) (tight_run 10 25000000) = [mk O_DISCONNECT [22000000] []] /\
   filter (after 1000001 O_WIFISTART) (tight_run 10 25000000) = [mk O_WIFISTART [22000000] []] /\
   filter (after 0 O_RESTART) (tight_run 10 25000000) = []) /\
  (filter (after 0 O_RESTART) (tight_run 120 65000000) = [mk O_RESTART [63000000] []] /\
   filter (after 1000001 O_DISCONNECT) (tight_run 120 65000000) = []).
Proof. exact (conj tight_reconnect tight_restart). Qed.
Print Assumptions C05_bounds_tight.

(* examples, witnesses and generated-list facts: closed as well *)
Print Assumptions C05_timeout_range_values.
Print Assumptions C05_keepalive_example.
Print Assumptions C05_sites_guarded.
Print Assumptions C05_bound_values.
Print Assumptions C05_end_to_end_example.
Print Assumptions C05_end_to_end_wrap_example.
Print Assumptions C05_keepalive_history_example.
Print Assumptions C05_keepalive_history_wrap_example.
Print Assumptions C05_negotiation_example.
Print Assumptions C05_negotiation_min_example.
Print Assumptions C05_negotiation_below_window_example.
