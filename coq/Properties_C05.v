(* C05 — Keep-alive, silent-server reconnect and watchdog restart happen within bounds.
   Property theorems only: each is closed by `exact` of a lemma proved in C05/Proofs.v.

   Structure.  The executable model is the C04 automaton (timestamps of frames / espconn_disconnect / connect / restart are
   compared line by line with the implementation).  [C05_timer1_is_decide] and [C05_watchdog_is_decide] show that its
   two timer callbacks are the pure decisions t1_decide / wd_decide on the integer uptime seconds.  The bounds are proved
   for those decisions:
   * keep-alive over the abstract timed semantics of C05/Model.v (events Tick/Sent/Resp stamped with the uptime second),
     under the environment hypotheses collected in [kenv_ok]: time monotone, a timer1 tick at least every other second
     (1 s period, lateness < 1 s), a queued ping accepted by the link within the next second and before the next tick
     (healthy link), every ping answered no later than the second after it was queued (prompt server), and H_slot: a free
     out-queue slot at the ticks where an idle time has reached T-2.  Local traffic is arbitrary ([Sent] at any time).
   * silent server: the decisions themselves plus the arithmetic of seconds; the bound "tau + T + 11 s" is: the uptime
     second reaches lr + T + 10 at most (T+10) s after tau ([C05_seconds_elapsed]), the next timer1 tick follows within one
     period (1 s + lateness), and that tick reconnects ([C05_silent_server_reconnect]); likewise 60+1+1 s for the watchdog. *)
From Coq Require Import List ZArith Bool.
Import ListNotations.
From V Require Import Base.U32 Base.Bytes Base.Iface Gen.ProtoConsts Gen.C04Consts C04.Keepalive C04.Model C04.Proofs C04.Timing C05.Model C05.Proofs C05.Sim.
Local Open Scope Z_scope.

Theorem C05_timer1_is_decide : forall s,
  timer1_cb s =
  if is_registered s then
    match t1_decide (uptime s) (lastsent s) (lastresp s) (actto s) with
    | T1_reconnect => devconn_reconnect (t1_ghost s)
    | T1_ping => async_call (api_call A_PING) (zeros (api_size A_PING)) (t1_ghost s)
    | T1_none => t1_ghost s
    end
  else s.
Proof. exact timer1_cb_decide. Qed.
Print Assumptions C05_timer1_is_decide.

Theorem C05_watchdog_is_decide : forall s,
  watchdog_cb s =
  match wd_decide (uptime s) (lastresp s) (actto s) (nextwd s) with
  | WD_restart => restart s
  | WD_soft => devconn_reconnect s
  | WD_none => s
  end.
Proof. exact watchdog_cb_decide. Qed.
Print Assumptions C05_watchdog_is_decide.

(* registered, 10 <= T <= 50, environment as in kenv_ok: the device never decides to reconnect, at every instant the last
   transmission is at most T seconds old (a frame in every activity-timeout window), the last response at most T+2 seconds,
   and a watchdog tick at any instant before the next timer1 tick does nothing (no restart, no soft reconnect). *)
Theorem C05_keepalive : forall T u0 ls0 l,
  10 <= T <= 50 -> 0 <= ls0 <= u0 -> u0 < 4294967296 -> u0 - ls0 <= T - 3 ->
  kenv_run T (kinit u0 ls0) l = true ->
  let s := krun T (kinit u0 ls0) l in
  k_bad s = false /\ k_cur s - k_ls s <= T /\ k_cur s - k_lr s <= T + 2 /\
  (forall up nw, k_lr s <= up -> up <= k_lt s + 2 -> up < 4294967296 -> wd_decide up (k_lr s) T nw = WD_none).
Proof. exact C05_keepalive_thm. Qed.
Print Assumptions C05_keepalive.

Example C05_keepalive_example : kenv_run 10 (kinit 100 100) (ka_trace 40 101) = true /\
  k_ls (krun 10 (kinit 100 100) (ka_trace 40 101)) = 140 /\ k_bad (krun 10 (kinit 100 100) (ka_trace 40 101)) = false.
Proof. exact ka_example. Qed.

(* H_slot cannot be dropped: no free slot at the ticks of the ping window (local traffic keeps the 2-slot queue full,
   the server has no ping to answer) => the device reconnects although the link is healthy *)
Theorem C05_keepalive_without_slot_refuted : k_bad (krun 10 (kinit 100 100) (noslot_trace 25 101)) = true.
Proof. exact noslot_refuted. Qed.
Print Assumptions C05_keepalive_without_slot_refuted.

(* silent server *)
Theorem C05_seconds_elapsed : forall b tau x d, 0 <= d -> tau + d * 1000000 <= x -> (b + tau) / 1000000 + d <= (b + x) / 1000000.
Proof. exact seconds_elapsed. Qed.
Print Assumptions C05_seconds_elapsed.

Theorem C05_silent_server_reconnect : forall s,
  is_registered s = true -> 0 < actto s < 4294966000 -> 0 <= lastresp s -> lastresp s <= uptime s ->
  actto s + PING_RECONNECT_PLUS <= uptime s - lastresp s ->
  callback T_timer1 s = devconn_reconnect (t1_ghost s) /\
  In (mk O_DISCONNECT [now s] []) (outs (callback T_timer1 s)) /\ In (mk O_WIFISTART [now s] []) (outs (callback T_timer1 s)).
Proof. exact silent_reconnect_thm. Qed.
Print Assumptions C05_silent_server_reconnect.

Theorem C05_silent_server_restart : forall s,
  0 <= lastresp s -> lastresp s <= uptime s -> WATCHDOG_TIMEOUT_S < uptime s - lastresp s ->
  callback T_wd s = restart s /\ In (mk O_RESTART [now s] []) (outs (callback T_wd s)) /\ halted (callback T_wd s) = true.
Proof. exact silent_restart_thm. Qed.
Print Assumptions C05_silent_server_restart.

(* the side condition on the generated call-site list (see Properties_C04.v) *)
Lemma C05_sites_guarded : sites_ok CallSites = true.
Proof. reflexivity. Qed.

(* ---------- END TO END on the full automaton (fuel-free semantics, C04/Timing.v) ----------
   s0: any reachable state (lateness script bounded by J); tau: the true time at which the last call was received
   (last_response = uptime second of tau); s0 --evs--> s1: ANY run (local traffic, callbacks, Wi-Fi events, send results,
   timer phases) in which no call is received (nresp unchanged); no wrap of the 32-bit microsecond counter up to now s1
   (C19 covers the wrap); the model has no configuration mode / firmware update. *)
(* registered with granted timeout T (0 < T), no refusal stop pending: once the run has reached tau + (T+10+1) s + J the device
   has called espconn_disconnect AND wifi_station_connect (the Wi-Fi/TCP connect sequence) at one instant t before that bound *)
Theorem C05_silent_server_reconnects : forall J cs cc s0 evs s1 tau, 0 <= J ->
  rreachable cs cc J s0 -> RRun s0 evs s1 -> nresp s1 = nresp s0 ->
  cycles0 s0 = 0 -> 0 <= boot s0 -> boot s0 + now s1 < 4294967296 -> lastresp s0 = Upt s0 tau ->
  is_registered s0 = true -> armed (t_stop s0) = false -> 0 < actto s0 < 4294966000 ->
  tau + (actto s0 + PING_RECONNECT_PLUS) * 1000000 + T1_US + J <= now s1 ->
  exists t, now s0 <= t /\ t <= now s1 /\ disc_at t s1 /\ wifi_at t s1 /\
            t < tau + (actto s0 + PING_RECONNECT_PLUS) * 1000000 + T1_US + J.
Proof. intros J cs cc s0 evs s1 tau HJ. exact (silent_reconnect_e2e_thm J HJ cs cc s0 evs s1 tau C05_sites_guarded). Qed.
Print Assumptions C05_silent_server_reconnects.

(* any state (registered or not, whatever T): once the run has reached tau + (60+1+1) s + J the device has called
   supla_system_restart at an instant t before that bound *)
Theorem C05_silent_server_restarts : forall J cs cc s0 evs s1 tau, 0 <= J ->
  rreachable cs cc J s0 -> RRun s0 evs s1 -> nresp s1 = nresp s0 ->
  cycles0 s0 = 0 -> 0 <= boot s0 -> boot s0 + now s1 < 4294967296 -> lastresp s0 = Upt s0 tau ->
  halted s0 = false -> tau + (WATCHDOG_TIMEOUT_S + 1) * 1000000 + WD_US + J <= now s1 ->
  halted s1 = true /\ exists t, now s0 <= t /\ t <= now s1 /\ restart_at t s1 /\ t < tau + (WATCHDOG_TIMEOUT_S + 1) * 1000000 + WD_US + J.
Proof. intros J cs cc s0 evs s1 tau HJ. exact (silent_restart_e2e_thm J HJ cs cc s0 evs s1 tau C05_sites_guarded). Qed.
Print Assumptions C05_silent_server_restarts.
(* with the generated constants the two bounds are tau + (T+11) s + J and tau + 62 s + J *)
Example C05_bound_values : PING_RECONNECT_PLUS * 1000000 + T1_US = 11000000 /\ (WATCHDOG_TIMEOUT_S + 1) * 1000000 + WD_US = 62000000.
Proof. split; reflexivity. Qed.

(* the hypotheses are satisfiable: the run of C05_bounds_tight (T = 10, tau = 1000001 us, J = 0) *)
Example C05_end_to_end_example :
  rreachable true false 0 e2e_s0 /\ RRun e2e_s0 [Adv 25000000] e2e_s1 /\ nresp e2e_s1 = nresp e2e_s0 /\
  cycles0 e2e_s0 = 0 /\ 0 <= boot e2e_s0 /\ boot e2e_s0 + now e2e_s1 < 4294967296 /\ lastresp e2e_s0 = Upt e2e_s0 1000001 /\
  is_registered e2e_s0 = true /\ armed (t_stop e2e_s0) = false /\ actto e2e_s0 = 10 /\ halted e2e_s0 = false /\
  1000001 + (actto e2e_s0 + PING_RECONNECT_PLUS) * 1000000 + T1_US + 0 <= now e2e_s1.
Proof. exact e2e_example. Qed.

(* ---------- keep-alive on the automaton (simulation, C05/Sim.v) ----------
   The automaton runs the abstract semantics in lockstep as ghost state (kabs: abstract state, kenv: conjunction of kenv_ok over
   the abstract events of the current episode).  In every reachable registered state whose episode satisfied the environment
   conditions and 10 <= T <= 50: the abstract invariant holds of the REAL last_sent / last_response, no reconnect was decided in
   the episode, the next timer1 tick (if it too satisfies kenv_ok) does not reconnect and a watchdog tick before it does nothing. *)
Theorem C05_keepalive_automaton : forall cs cc J s, rreachable cs cc J s ->
  is_registered s = true -> kenv s = true -> 10 <= actto s <= 50 ->
  let T := actto s in let k := kabs s in
  KInv T k /\ k_ls k = lastsent s /\ k_lr k = lastresp s /\ k_bad k = false /\
  k_cur k - lastsent s <= T /\ k_cur k - lastresp s <= T + 2 /\
  (forall slot, kenv_ok T k (Tick (uptime s) slot) = true -> t1_decide (uptime s) (lastsent s) (lastresp s) T <> T1_reconnect) /\
  (forall up nw, lastresp s <= up -> up <= k_lt k + 2 -> up < 4294967296 -> wd_decide up (lastresp s) T nw = WD_none).
Proof. intros cs cc J s. exact (keepalive_automaton_thm cs cc J s C05_sites_guarded). Qed.
Print Assumptions C05_keepalive_automaton.

(* both bounds are attained up to 2 us: T = 10 -> closed and reconnecting 20.999999 s after the last message;
   T = 120 -> restart 61.999999 s after the last message *)
Theorem C05_bounds_tight :
  (filter (after 1000001 O_DISCONNECT) (tight_run 10 25000000) = [mk O_DISCONNECT [22000000] []] /\
   filter (after 1000001 O_WIFISTART) (tight_run 10 25000000) = [mk O_WIFISTART [22000000] []] /\
   filter (after 0 O_RESTART) (tight_run 10 25000000) = []) /\
  (filter (after 0 O_RESTART) (tight_run 120 65000000) = [mk O_RESTART [63000000] []] /\
   filter (after 1000001 O_DISCONNECT) (tight_run 120 65000000) = []).
Proof. exact (conj tight_reconnect tight_restart). Qed.
Print Assumptions C05_bounds_tight.
