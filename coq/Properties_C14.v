(* C14 — configuration form: safe parsing, bounded validated fields, untouched when absent.
   Property theorems only (proofs in C14/Proofs.v).

   Vocabulary (C14/Model.v): `recv fx sg d seg` is one call of supla_esp_recv_callback on device state
   d = (stored configuration image, user_cmd, per-connection parser state) with TCP segment seg; the result
   carries the HTTP status codes sent, whether the configuration was saved, restarts, and the list of
   memory faults (1 read outside the segment, 2 read of an uninitialised tempPassword cell, 3 write outside
   the destination buffer/field, 4 segment length wrapped).  `FIXED` is the code with the five repairs of
   docs/fixes/C14_*.diff applied (`FIXED4`: the first four, i.e. the tree after commits 2ca076d..820ad9a), `UNFIXED` the code of the unchanged tree.  `sg` = signedness of plain char. *)
From Coq Require Import List ZArith Bool.
Import ListNotations.
From V Require Import Base.Bytes Gen.C14Vars C14.Model C14.Proofs C14.Fields C14.Split.
Local Open Scope Z_scope.

(* Memory safety of the repaired handler, for every sequence of segments of any content and length, any
   previous configuration whose e-mail is terminated and any signedness of char: every write stays inside
   its destination buffer (the field of the candidate record named by the variable table, intval,
   tempPassword, user_cmd) and inside the settings record, every read of the segment is inside the segment,
   no tempPassword cell is read before it was written, the segment length never wraps; the parser is back
   in the `no variable open` state after every segment, and the stored e-mail/username stays NUL-terminated
   inside its field (dev_ok is an invariant). *)
Theorem C14_no_fault : forall sg segs d, dev_ok d ->
  let '(d', rs) := recv_all FIXED sg d segs in Forall (fun r => faults r = []) rs /\ dev_ok d'.
Proof. exact C14_no_fault_thm. Qed.
Print Assumptions C14_no_fault.

(* Writes stay inside their destination and inside the settings record (fault code 3 never occurs; the
   candidate record keeps its size), as a corollary of C14_no_fault. *)
Theorem C14_writes_inside_record : forall sg segs d, dev_ok d ->
  Forall (fun r => ~ In 3 (faults r)) (snd (recv_all FIXED sg d segs)) /\
  len (dcfg (fst (recv_all FIXED sg d segs))) = CFG_SIZE.
Proof. exact C14_writes_inside_record_thm. Qed.
Print Assumptions C14_writes_inside_record.

(* Every text setting stays NUL-terminated inside its field: for every device state whose Email/Username
   (dev_ok) and WIFI_SSID, WIFI_PWD, Server, MqttTopicPrefix (dev_ok2: `fterm F` for the four fields of TF4)
   are terminated in place, and every sequence of segments, the same holds afterwards.
   (The password is the exception by design: LocationPwd/Password may be full, its rest lives behind the
   Email terminator; see C14_password_terminated.) *)
Theorem C14_fields_terminated_in_place : forall sg segs d, dev_ok d -> dev_ok2 d ->
  let d' := fst (recv_all FIXED sg d segs) in dev_ok d' /\ dev_ok2 d'.
Proof. exact C14_text_fields_thm. Qed.
Print Assumptions C14_fields_terminated_in_place.

(* The password: after any segment sequence it is terminated inside the Password field, or (long password: field
   full by design) the string behind the name terminator is terminated inside the Email field or has no room there
   (pwd_ok: two terminators inside Email, or the last byte of Email is the terminator). *)
Theorem C14_password_terminated : forall sg segs d, dev_ok d -> pwd_ok (dcfg d) ->
  pwd_ok (dcfg (fst (recv_all FIXED sg d segs))).
Proof. exact C14_password_terminated_thm. Qed.
Print Assumptions C14_password_terminated.

(* Passwords submitted empty keep their previous value (one unsplit request): when every recognised pwd=/mwd= of the
   request has an empty value (`empty_pwds`: the segment ends or '&' follows the '='; in particular when there is
   none), every byte of the Password field is unchanged.  The absent case is the corollary below.
   (Still decided by the monitor only: equality of the overflow part behind a *changed* name — effective password,
   seeded change C14_m2; see the report.) *)
Theorem C14_empty_password_kept : forall sg d seg i,
  dev_ok d -> O_LocationPwd <= i < O_LocationPwd + PWD_MAX -> empty_pwds seg ->
  nthz (dcfg (fst (recv FIXED sg d seg))) i = nthz (dcfg d) i.
Proof. exact C14_empty_password_kept_thm. Qed.
Print Assumptions C14_empty_password_kept.

(* The Wi-Fi password submitted empty keeps its previous value (one unsplit request): when every recognised field whose
   destination is WIFI_PWD (that is wpw=) has an empty value — or there is none — all 64 bytes of WIFI_PWD are unchanged. *)
Theorem C14_empty_wifi_password_kept : forall sg d seg i,
  dev_ok d -> in_wifi i -> empty_wifi seg ->
  nthz (dcfg (fst (recv FIXED sg d seg))) i = nthz (dcfg d) i.
Proof. exact C14_empty_wifi_password_kept_thm. Qed.
Print Assumptions C14_empty_wifi_password_kept.

Theorem C14_absent_password_kept : forall sg d seg i,
  dev_ok d -> O_LocationPwd <= i < O_LocationPwd + PWD_MAX ->
  (forall a r, opens_at seg a r -> nthz r 5 <> 2) ->
  nthz (dcfg (fst (recv FIXED sg d seg))) i = nthz (dcfg d) i.
Proof. exact C14_absent_password_kept_thm. Qed.
Print Assumptions C14_absent_password_kept.

(* Settings that do not appear keep their previous values (one unsplit request = one call): a byte of the
   record outside Password/Email that no recognised `name=` of the request can write — neither through the
   destination buffer of its table row nor through its action (`safe_row`), and no Flags byte when `pro=`
   occurs — is unchanged.  Wi-Fi password bytes are included (restored when submitted empty). *)
Theorem C14_absent_unchanged : forall sg d seg i,
  dev_ok d -> 0 <= i < CFG_SIZE -> ~ pw_area i ->
  (forall a r, opens_at seg a r -> safe_row i r) ->
  ((exists a, 0 <= a /\ pro_at seg a) -> ~ (O_Flags <= i < O_Flags + 4)) ->
  nthz (dcfg (fst (recv FIXED sg d seg))) i = nthz (dcfg d) i.
Proof. exact C14_absent_unchanged_thm. Qed.
Print Assumptions C14_absent_unchanged.

(* Numeric settings, for what ends up stored after a whole request (lifted through both loops, the password
   logic and the commit block): port unchanged or 1..65535 (when the request has no `lid=`: LocationID and
   Port share their bytes), QoS unchanged or 0..2, each time margin unchanged or -1..100. *)
Theorem C14_numeric_ranges : forall sg d seg, dev_ok d ->
  let c' := dcfg (fst (recv FIXED sg d seg)) in
  ((forall a r, opens_at seg a r -> nthz r 0 <> VAR_LID) -> port_of c' = port_of (dcfg d) \/ 1 <= port_of c' <= 65535) /\
  (nthz c' O_MqttQoS = nthz (dcfg d) O_MqttQoS \/ 0 <= nthz c' O_MqttQoS <= 2) /\
  (forall k, 0 <= k < 4 ->
     nthz c' (O_AdditionalTimeMargin + k) = nthz (dcfg d) (O_AdditionalTimeMargin + k) \/
     -1 <= s8 (nthz c' (O_AdditionalTimeMargin + k)) <= 100).
Proof. exact C14_numeric_ranges_thm. Qed.
Print Assumptions C14_numeric_ranges.

(* Save gate: the stored configuration changes (and flash is written) only when the connection's request
   type is POST — set only by a first segment that begins with "POST / HTTP" — and at least four fields were matched. *)
Theorem C14_save_gate : forall fx sg d seg,
  let '(d', r) := recv fx sg d seg in
  (saved r = true \/ dcfg d' <> dcfg d) -> typ (dpv d') = TYPE_POST_ /\ 4 <= matched (dpv d').
Proof. exact recv_save_gate. Qed.
Print Assumptions C14_save_gate.

(* Numeric settings, at the level of the action executed when a value is complete (not yet lifted through
   the loop to whole requests: that needs the frame lemma for these fields; see the report):
   port unchanged or in 1..65535, QoS unchanged or in 0..2, time margin always in -1..100. *)
Theorem C14_numeric_ranges_partial :
  (forall sg p m, len (ncfg m) = CFG_SIZE -> cur p = VAR_PRT ->
     port_of (ncfg (action sg p m)) = port_of (ncfg m) \/ 1 <= port_of (ncfg (action sg p m)) <= 65535) /\
  (forall sg p m, len (ncfg m) = CFG_SIZE -> cur p = VAR_QOS ->
     nthz (ncfg (action sg p m)) O_MqttQoS = nthz (ncfg m) O_MqttQoS \/ 0 <= nthz (ncfg (action sg p m)) O_MqttQoS <= 2) /\
  (forall c i p, len c = CFG_SIZE -> 0 <= i < 4 -> -1 <= s8 (nthz (margin c i p) (O_AdditionalTimeMargin + i)) <= 100).
Proof. exact (conj action_port (conj action_qos margin_range)). Qed.
Print Assumptions C14_numeric_ranges_partial.

(* The unchanged code violates the safety clauses; concrete requests (replayed on the real code, see
   corpus/C14): "…&pro=" at the end of a segment reads pdata[len]; a segment "\r\n\r\n\r\n\r\n" after the
   request line makes `len -= p` wrap; any request without pwd=/mwd= reads tempPassword[0] uninitialised;
   restoring a long password behind a longer new e-mail writes one byte past the Email field.  The same
   requests are fault-free on the repaired code. *)
Theorem C14_old_code_refuted :
  faults_of UNFIXED (zeros CFG_SIZE) [wit_pro_end] = [[1; 2]] /\
  faults_of UNFIXED (zeros CFG_SIZE) [wit_crlf1; wit_crlf2] = [[]; [4]] /\
  faults_of UNFIXED (zeros CFG_SIZE) [req_hdr ++ body4] = [[2]] /\
  faults_of UNFIXED wit_old_long [wit_long_mail] = [[2; 3]] /\
  faults_of FIXED (zeros CFG_SIZE) [wit_pro_end] = [[]] /\
  faults_of FIXED (zeros CFG_SIZE) [wit_crlf1; wit_crlf2] = [[]; []] /\
  faults_of FIXED (zeros CFG_SIZE) [req_hdr ++ body4] = [[]] /\
  faults_of FIXED wit_old_long [wit_long_mail] = [[]].
Proof. exact C14_old_code_refuted_thm. Qed.
Print Assumptions C14_old_code_refuted.

(* Segmentation independence is false of the code (also after the repairs): the same bytes cut inside the
   value of `sid` save a different configuration (the SSID is lost).  Known finding
   `request-split-across-tcp-segments`. *)
Theorem C14_segmentation_refuted :
  let cut := len req_hdr + 5 in
  take cut wit_req ++ drop cut wit_req = wit_req /\
  slice (final_cfg [wit_req]) O_WIFI_SSID 3 = [97; 98; 0] /\
  slice (final_cfg [take cut wit_req; drop cut wit_req]) O_WIFI_SSID 3 = [0; 0; 0] /\
  final_cfg [wit_req] <> final_cfg [take cut wit_req; drop cut wit_req].
Proof. exact C14_segmentation_refuted_thm. Qed.
Print Assumptions C14_segmentation_refuted.

(* ... and holds outside the known class only in the degenerate sense that a request delivered in one
   segment has one segmentation.  (Full statement, not provable because false:
     forall s1 s2, concat s1 = concat s2 -> final_cfg s1 = final_cfg s2.) *)
Theorem C14_segmentation_independent_except_known : forall s1 s2,
  single_segment s1 -> single_segment s2 -> concat s1 = concat s2 -> final_cfg s1 = final_cfg s2.
Proof. exact C14_segmentation_independent_except_known_thm. Qed.
Print Assumptions C14_segmentation_independent_except_known.

(* Fifth defect (found with the two-step cases): Password full (33) and no room for the overflow part behind a
   255-character name; a later form with a shorter name and an empty password leaves the rest of the old name behind
   the new terminator, where it is read as the overflow part: the effective password changes although it was
   submitted empty.  docs/fixes/C14_stale_name_tail.diff writes an empty overflow part. *)
Theorem C14_stale_tail_refuted :
  slice (two_forms FIXED4) O_Email 6 = [98; 111; 98; 0; 85; 85] /\
  strnlen (slice (two_forms FIXED4) O_LocationPwd PWD_MAX) PWD_MAX = PWD_MAX /\
  slice (two_forms FIXED) O_Email 6 = [98; 111; 98; 0; 0; 85] /\
  strnlen (slice (two_forms FIXED) O_LocationPwd PWD_MAX) PWD_MAX = PWD_MAX.
Proof. exact C14_stale_tail_refuted_thm. Qed.
Print Assumptions C14_stale_tail_refuted.

(* Sixth repair (docs/fixes/C14_numeric_acceptance.diff): the unrepaired code narrowed the time margin to signed char
   before its range check, so tm0=356 was accepted and stored as 100 (likewise prt=2^32+n as n, qos=25 as 2).  The
   model follows the repaired code: what is stored is the submitted value when it is valid, -1 otherwise. *)
Theorem C14_margin_narrowing_refuted :
  let p := set_ival pv0 ival_356 in
  str2int (ival p) = 356 /\
  s8 (nthz (margin_old (zeros CFG_SIZE) 0 p) O_AdditionalTimeMargin) = 100 /\
  s8 (nthz (margin (zeros CFG_SIZE) 0 p) O_AdditionalTimeMargin) = -1.
Proof. exact C14_margin_narrowing_refuted_thm. Qed.
Print Assumptions C14_margin_narrowing_refuted.

Theorem C14_margin_exact : forall c i p, len c = CFG_SIZE -> 0 <= i < 4 ->
  let v := str2int (ival p) in
  s8 (nthz (margin c i p) (O_AdditionalTimeMargin + i)) = (if short_num p && (-1 <=? v) && (v <=? 100) then v else -1).
Proof. exact margin_exact. Qed.
Print Assumptions C14_margin_exact.

(* ---- the exact boundary of the known finding request-split-across-tcp-segments ----
   Positive side: headers in one TCP segment and the form body in the next one (what browsers do) is EXACTLY the
   unsplit request: for every fresh connection (dpv d = pv0) of a dev_ok device, every header part H (begins with
   "POST / HTTP", '='-free, its only CRLFCRLF found by the header-end loop) and every body b that does not begin with
   '=' in its first three bytes, the second call returns the same device state (stored configuration, user_cmd,
   parser state) and the same result (response, saved, restarts, faults) as the single call on H ++ b; the header
   segment itself answers nothing and saves nothing. *)
Theorem C14_split_headers_body : forall sg d H b,
  dev_ok d -> dpv d = pv0 -> hdr_ok H -> body_ok b ->
  let '(d1, r1) := recv FIXED sg d H in
  recv FIXED sg d1 b = recv FIXED sg d (H ++ b) /\
  codes r1 = [] /\ saved r1 = false /\ restarts r1 = 0 /\ dcfg d1 = dcfg d.
Proof. exact C14_split_headers_body_thm. Qed.
Print Assumptions C14_split_headers_body.

(* ... and so is a cut inside the '='-free headers, behind the request-line prefix and before the header end. *)
Theorem C14_split_inside_headers : forall sg d a h2 b,
  dev_ok d -> dpv d = pv0 -> hdr_ok (a ++ h2) ->
  is_prefix (s_post ++ s_url) a = true -> count_hdr_end (S (length a)) FIXED a 0 = 0 ->
  count_hdr_end (S (length h2)) FIXED h2 0 = 1 -> body3 b ->
  let '(d1, r1) := recv FIXED sg d a in
  recv FIXED sg d1 (h2 ++ b) = recv FIXED sg d ((a ++ h2) ++ b) /\
  codes r1 = [] /\ saved r1 = false /\ restarts r1 = 0 /\ dcfg d1 = dcfg d.
Proof. exact C14_split_inside_headers_thm. Qed.
Print Assumptions C14_split_inside_headers.

(* Negative side: each other kind of cut changes the saved configuration for a concrete request — inside the request
   line, inside CRLFCRLF, inside a name, inside a value, and also AT a token boundary `&` (the fields of a first part
   with fewer than four fields are lost); the two benign cuts of the same request give the same result.  The
   token-boundary and in-value witnesses are replayed on the real code (corpus/C14/split_*.txt). *)
Theorem C14_split_refuted :
  differs 2 = true /\ differs (len req_hdr - 2) = true /\ differs (len req_hdr + 5) = true /\
  differs (len req_hdr + 2) = true /\ differs (len req_hdr + 14) = true /\
  differs (len req_hdr) = false /\ differs 13 = false.
Proof. exact C14_split_refuted_thm. Qed.
Print Assumptions C14_split_refuted.

Example C14_split_hypotheses_satisfiable : hdr_ok req_hdr /\ body_ok body4.
Proof. exact w_hdr_ok. Qed.
Print Assumptions C14_split_hypotheses_satisfiable.

(* the hypothesis of C14_no_fault is satisfiable: the blank device *)
Example C14_dev_ok_satisfiable : dev_ok {| dcfg := zeros CFG_SIZE; dcmd := None; dpv := pv0 |}.
Proof. exact dev0_ok. Qed.
Print Assumptions C14_dev_ok_satisfiable.

Example C14_dev_ok2_satisfiable : dev_ok2 {| dcfg := zeros CFG_SIZE; dcmd := None; dpv := pv0 |} /\ pwd_ok (zeros CFG_SIZE).
Proof. exact dev0_ok2. Qed.
Print Assumptions C14_dev_ok2_satisfiable.
