(* C10 — a calibrated roller shutter with one output energised: the callback accounts the elapsed time exactly as the
   C09 model does, and the end-stop time margin switches the motor off (bounded power, calibrated move). *)
From Coq Require Import List ZArith Bool Lia.
Import ListNotations.
From V Require Import Base.U32 Base.Iface Gen.RsConsts C09.Model C09.Proofs C10.Model C10.Frame C10.Fields C10.Proofs.
Local Open Scope Z_scope.
Notation pos := C10.Model.pos.
Notation tilt := C10.Model.tilt.
Notation up_time := C10.Model.up_time.
Notation down_time := C10.Model.down_time.
Notation last_time := C10.Model.last_time.
Notation last_comm := C10.Model.last_comm.
Notation now := C10.Model.now.
Notation flags := C10.Model.flags.

(* what never changes while no auto-calibration is running *)
Record keeps2 (d d' : dev) : Prop := {
  k2_pos : pos d' = pos d; k2_tilt : tilt d' = tilt d;
  k2_aot : aot d' = aot d; k2_act : act d' = act d; k2_t1 : time1 d' = time1 d; k2_t2 : time2 d' = time2 d;
  k2_step : ac_step d' = ac_step d; k2_perf : perform d' = perform d }.
Lemma keeps2_refl d : keeps2 d d. Proof. constructor; reflexivity. Qed.
Lemma keeps2_trans a b c : keeps2 a b -> keeps2 b c -> keeps2 a c.
Proof. intros [] []. constructor; congruence. Qed.

(* conversion first (cheap on concrete updaters); the rewrite rules when the goal still contains an existential variable *)
Ltac rfl_noevar := match goal with |- ?g => tryif has_evar g then fail else reflexivity end.
Ltac k2 := constructor; first [rfl_noevar | (frw; reflexivity)].
Lemma fst_pair2 {A B : Type} (a : A) (b : B) : fst (a, b) = a. Proof. reflexivity. Qed.

Lemma relay_hi_keeps2 k d u hi : keeps2 d (relay_hi k d u hi).
Proof. unfold relay_hi. destruct (negb (if u then hi else up_on d) && negb (if u then down_on d else hi)); k2. Qed.

Lemma set_relay_keeps2 k d v c s : ac_step d = 0 -> keeps2 d (set_relay k d v c s).
Proof.
  intros H0. unfold set_relay.
  assert (Ea : sr_abort d = d) by (unfold sr_abort; rewrite H0, andb_false_r; reflexivity).
  rewrite Ea.
  remember (disarm (if c then cancel_task d else d)) as d1 eqn:E1.
  assert (K1 : keeps2 d d1) by (subst d1; destruct c; k2).
  clear E1.
  remember (sr_delay k d1 v s (counter k d)) as dd eqn:Ed.
  assert (K2 : keeps2 d1 (fst dd)).
  { subst dd. unfold sr_delay. destruct (v =? RELAY_OFF); [rewrite fst_pair2; apply keeps2_refl|].
    rewrite fst_pair2.
    match goal with |- context[if ?c then _ else _] => destruct c end.
    - eapply keeps2_trans; [|k2]. eapply keeps2_trans; [|apply relay_hi_keeps2]. k2.
    - k2. }
  clear Ed. eapply keeps2_trans; [exact K1|]. eapply keeps2_trans; [exact K2|].
  unfold sr_act.
  destruct (DELAY_THRESHOLD_MS <? snd dd); [k2|].
  destruct (v =? RELAY_UP); [destruct ((k_add_margin k =? 0) && (cur_pos (fst dd) =? 0)); [apply keeps2_refl|eapply keeps2_trans; [apply relay_hi_keeps2|k2]]|].
  destruct (v =? RELAY_DOWN); [destruct ((k_add_margin k =? 0) && (cur_pos (fst dd) =? 100)); [apply keeps2_refl|eapply keeps2_trans; [apply relay_hi_keeps2|k2]]|].
  eapply keeps2_trans; [apply relay_hi_keeps2|]. eapply keeps2_trans; [apply relay_hi_keeps2|k2].
Qed.

Lemma keeps2_sr k d x v : keeps2 d x -> ac_step d = 0 -> keeps2 d (set_relay k x v false false).
Proof.
  intros K H0. eapply keeps2_trans; [exact K|]. apply set_relay_keeps2. rewrite (k2_step _ _ K). exact H0.
Qed.

Lemma tp_start_keeps2 k d a b : ac_step d = 0 -> keeps2 d (tp_start k d a b).
Proof.
  intros H0. unfold tp_start. destruct (tk_state d =? TASK_ACTIVE); [|apply keeps2_refl]. cbv zeta.
  destruct (negb (a =? -100)); [|k2].
  destruct (a <? b); [apply keeps2_sr; [k2|exact H0]|].
  destruct (b <? a); [apply keeps2_sr; [k2|exact H0]|k2].
Qed.
Lemma tp_tilt_start_keeps2 k d a b : ac_step d = 0 -> keeps2 d (tp_tilt_start k d a b).
Proof.
  intros H0. unfold tp_tilt_start. destruct ((tk_state d =? TASK_SETTING_POSITION) && (tk_dir d =? 0)); [|apply keeps2_refl]. cbv zeta.
  destruct ((b <? a) && negb (b =? -100)); [apply keeps2_sr; [k2|exact H0]|].
  destruct ((a <? b) && negb (b =? -100)); apply keeps2_sr; try exact H0; k2.
Qed.
Lemma tp_position_keeps2 k d im fo fc a b c e f : ac_step d = 0 -> keeps2 d (tp_position k d im fo fc a b c e f).
Proof.
  intros H0. unfold tp_position. cbv zeta.
  match goal with |- context[if ?x then _ else d] => destruct x end; [|apply keeps2_refl].
  match goal with |- keeps2 d (if ?x then _ else _) => destruct x end; [apply keeps2_refl|].
  match goal with |- keeps2 d (if ?x then _ else _) => destruct x end; [apply keeps2_refl|].
  match goal with |- context[if ?x then fl_set d FLAG_CALIBRATION_LOST else d] => destruct x end;
    (destruct (negb (tilt_sup k)); [apply keeps2_sr; [k2|exact H0]|k2]).
Qed.
Lemma tp_tilt_keeps2 k d a b : ac_step d = 0 -> keeps2 d (tp_tilt k d a b).
Proof.
  intros H0. unfold tp_tilt. match goal with |- context[if ?x then _ else d] => destruct x end; [|apply keeps2_refl].
  apply keeps2_sr; [k2|exact H0].
Qed.

Lemma task_processing_keeps2 k d im fo fc :
  ac_step d = 0 -> perform d = false -> keeps2 d (task_processing k d im fo fc).
Proof.
  intros H0 Hp. unfold task_processing.
  destruct ((tk_state d =? TASK_INACTIVE) || (0 <? ac_step d)); [apply keeps2_refl|].
  rewrite Hp.
  destruct (negb (known (pos d))).
  { destruct (negb (down_on d) && negb (up_on d) && (0 <? fo) && (0 <? fc)); [|apply keeps2_refl].
    destruct (tk_pos d <? 50); apply set_relay_keeps2; exact H0. }
  cbv zeta.
  remember (tp_pre k d fo fc (pos d - 100) (if tilt d - 100 <? 0 then 0 else tilt d - 100) (tk_pos d * 100) (tk_tilt d * 100)) as pre eqn:Epre. clear Epre.
  pose proof (tp_start_keeps2 k d (tk_pos d * 100) (fst (fst pre)) H0) as K1.
  remember (tp_start k d (tk_pos d * 100) (fst (fst pre))) as d1 eqn:E1. clear E1.
  assert (H1 : ac_step d1 = 0) by (rewrite (k2_step _ _ K1); exact H0).
  pose proof (tp_tilt_start_keeps2 k d1 (if tilt d - 100 <? 0 then 0 else tilt d - 100) (tk_tilt d * 100) H1) as K2.
  remember (tp_tilt_start k d1 (if tilt d - 100 <? 0 then 0 else tilt d - 100) (tk_tilt d * 100)) as d2 eqn:E2. clear E2.
  assert (H2 : ac_step d2 = 0) by (rewrite (k2_step _ _ K2); exact H1).
  pose proof (tp_position_keeps2 k d2 im fo fc (pos d - 100) (if tilt d - 100 <? 0 then 0 else tilt d - 100) (tk_pos d * 100) (snd (fst pre)) (snd pre) H2) as K3.
  remember (tp_position k d2 im fo fc (pos d - 100) (if tilt d - 100 <? 0 then 0 else tilt d - 100) (tk_pos d * 100) (snd (fst pre)) (snd pre)) as d3 eqn:E3. clear E3.
  assert (H3 : ac_step d3 = 0) by (rewrite (k2_step _ _ K3); exact H2).
  pose proof (tp_tilt_keeps2 k d3 (if tilt d - 100 <? 0 then 0 else tilt d - 100) (tk_tilt d * 100) H3) as K4.
  eapply keeps2_trans; [exact K1|]. eapply keeps2_trans; [exact K2|]. eapply keeps2_trans; [exact K3|exact K4].
Qed.

(* ---------- the calibrated state ---------- *)
Definition rsk (k : kcfg) : Prop := k_tilt_type k = 0 /\ k_tilt_ms k = 0.
Definition full_k (up : bool) (d : dev) : Z := if up then time1 d else time2 d.
Record cal (up : bool) (d : dev) : Prop := {
  cal_only : only up d; cal_known : known (pos d) = true; cal_tilt : tilt d = -1 \/ tilt d = 0;
  cal_step : ac_step d = 0; cal_aot : aot d = 0; cal_act : act d = 0; cal_perf : perform d = false;
  cal_full : 0 < full_k up d }.

Lemma cal_not_enabled up k d : cal up d -> autocal_enabled k d = false.
Proof.
  intros C. pose proof (cal_full _ _ C) as F. unfold autocal_enabled, full_k in *.
  destruct up; [replace (time1 d =? 0) with false by (symmetry; apply Z.eqb_neq; lia); reflexivity|].
  replace (time2 d =? 0) with false by (symmetry; apply Z.eqb_neq; lia). rewrite andb_false_r. reflexivity.
Qed.

Lemma cal_transfer up d d' : cal up d -> only up d' -> keeps2 d d' -> cal up d'.
Proof.
  intros [] O K. constructor; auto; try (rewrite ?(k2_pos _ _ K), ?(k2_tilt _ _ K), ?(k2_step _ _ K), ?(k2_aot _ _ K), ?(k2_act _ _ K), ?(k2_perf _ _ K); assumption).
  unfold full_k in *. destruct up; rewrite ?(k2_t1 _ _ K), ?(k2_t2 _ _ K); assumption.
Qed.

Lemma cb_head_id k d : autocal_enabled k d = false -> ac_step d = 0 -> aot d = 0 -> act d = 0 -> cb_head k d = d.
Proof. intros E S A B. unfold cb_head. rewrite E, S, A, B. reflexivity. Qed.
Lemma cb_power_id up k d im t : only up d -> cb_power k d im false t = d.
Proof.
  intros [P _]. unfold cb_power, powered in *. destruct up; rewrite P; [reflexivity|rewrite orb_true_r; reflexivity].
Qed.
Lemma cb_need_id k d : autocal_enabled k d = false -> cb_need k d = d.
Proof. intros E. unfold cb_need. rewrite E. reflexivity. Qed.

Lemma check_motor_keeps2 k d mu im : keeps2 d (check_motor k d mu im).
Proof. unfold check_motor. destruct (u32 (counter k d - start_time d) <? AUTOCAL_FILTERING_MS * 1000); [apply keeps2_refl|].
  match goal with |- context[if ?x then _ else d] => destruct x end; [k2|apply keeps2_refl]. Qed.

(* the end-stop time-out of move_position for a roller shutter whose tilt is parked *)
Section MoveRS.
Variable o : fpops.
Hypothesis OK : fp_ok o.

Lemma move_position_rs_off c p tl time full_ms up :
  rs_cfg c -> known p = true -> tl = -1 \/ tl = 0 -> 0 < full_ms * 1000 < 4294967296 ->
  m_off (move_position o c p tl time full_ms up) =
  (m_pos (move_position o c p tl time full_ms up) =? end_stop up) &&
  (u32 (fp_margin o full_ms (margin c)) <=? m_time (move_position o c p tl time full_ms up) / 1000).
Proof.
  intros [H0 H1] K Ht HT.
  pose proof (move_position_rs o OK c p tl time full_ms up (conj H0 H1) K HT) as (Mp & Mt & Mtime).
  cbv zeta in Mp, Mt, Mtime. rewrite Mp, Mtime.
  unfold move_position, keeps_position, tilt_supported.
  rewrite K, H0, H1. cbn [negb orb].
  replace (full_ms =? 0) with false by (symmetry; apply Z.eqb_neq; lia).
  replace (0 =? TILT_KEEP_POSITION) with false by reflexivity.
  replace (0 =? TILT_ONLY_CLOSED) with false by reflexivity.
  replace (0 =? 0) with true by reflexivity. cbn [negb orb andb].
  replace (u32 (0 * 1000)) with 0 by reflexivity.
  rewrite (FP0 o OK). rewrite adjust_zero. cbn [fst snd].
  replace (0 <? 0) with false by reflexivity. cbn [andb].
  rewrite (u32_small (full_ms * 1000)) by lia.
  apply known_true in K.
  replace (u32 (if up then p - 100 else 10100 - p)) with (remaining up p)
    by (unfold remaining; symmetry; apply u32_small; destruct up; lia).
  cbn [m_off].
  set (a := adjust o up p (fp_rem o (remaining up p) (full_ms * 1000)) time (full_ms * 1000)).
  assert (Etd : (if 0 <? fp_rem o (remaining up p) (full_ms * 1000) then snd a else 0) = snd a).
  { destruct (0 <? fp_rem o (remaining up p) (full_ms * 1000)) eqn:E; [reflexivity|]. unfold a, adjust. rewrite E. reflexivity. }
  rewrite Etd.
  unfold end_stop.
  destruct Ht as [-> | ->]; destruct up; cbn [negb andb orb Z.eqb];
    repeat rewrite ?andb_true_r, ?andb_false_r, ?orb_true_r, ?orb_false_r, ?andb_true_l, ?orb_true_l; reflexivity.
Qed.

End MoveRS.

(* let-free forms of the accounting stage (equations proved once, rewritten instead of unfolding inside big hypotheses) *)
Definition mpd_write (d : dev) (m : mp) (up : bool) : dev :=
  if up then upd_times (upd_pt d (m_pos m) (m_tilt m)) (m_time m) (down_time (upd_pt d (m_pos m) (m_tilt m))) (last_time (upd_pt d (m_pos m) (m_tilt m))) (last_comm (upd_pt d (m_pos m) (m_tilt m)))
  else upd_times (upd_pt d (m_pos m) (m_tilt m)) (up_time (upd_pt d (m_pos m) (m_tilt m))) (m_time m) (last_time (upd_pt d (m_pos m) (m_tilt m))) (last_comm (upd_pt d (m_pos m) (m_tilt m))).
Definition mpd_lost (d : dev) (im : bool) : dev := if autocal_done d && im then fl_set d FLAG_CALIBRATION_LOST else d.
Lemma move_position_d_eq o k d f up im :
  move_position_d o k d f up im =
  if m_off (move_position o (cfg_of k d) (pos d) (tilt d) (carry_of up d) f up)
  then set_relay k (mpd_lost (mpd_write d (move_position o (cfg_of k d) (pos d) (tilt d) (carry_of up d) f up) up) im) RELAY_OFF false false
  else mpd_write d (move_position o (cfg_of k d) (pos d) (tilt d) (carry_of up d) f up) up.
Proof. reflexivity. Qed.
Lemma acc_post_pre_eq o k e up im el f :
  ac_step (acc_cm k (acc_add e up el) up im) = 0 ->
  acc_post o k (acc_pre k e up im el) up im f =
  move_position_d o k (calibrate_d o k (fl_clear (acc_cm k (acc_add e up el) up im) FLAG_CALIBRATION_IN_PROGRESS) f
                         (carry_of up (fl_clear (acc_cm k (acc_add e up el) up im) FLAG_CALIBRATION_IN_PROGRESS)) (end_stop up)) f up im.
Proof. intros H. unfold acc_post, acc_pre, autocalibrate. rewrite H. reflexivity. Qed.

Section CalCallback.
Variable o : fpops.
Hypothesis OK : fp_ok o.

Lemma fire_if_due_keeps2 k d t : ac_step d = 0 -> keeps2 d (fire_if_due k d t).
Proof.
  intros H0. unfold fire_if_due. destruct (delayed d) as [[[v due] req]|]; [|apply keeps2_refl].
  destruct (due <=? t); [|apply keeps2_refl].
  unfold fire_delayed. destruct (delayed d) as [[[v' due'] req']|]; [|apply keeps2_refl].
  apply keeps2_sr; [|exact H0]. destruct req'; k2.
Qed.

Lemma calibrate_d_known k d f t p : known (pos d) = true -> calibrate_d o k d f t p = d.
Proof. intros K. unfold calibrate_d. rewrite K. reflexivity. Qed.

Lemma rsk_cfg k d : rsk k -> rs_cfg (cfg_of k d).
Proof. intros [A B]. split; assumption. Qed.
Lemma rsk_wfk k : rsk k -> wfk k.
Proof. intros [A B] _. exact B. Qed.

(* the state at callback entry *)
Lemma cb_entry_cal up k d dt e :
  cal up d -> e = cb_entry k d dt -> nofall up (outs e) ->
  cal up e /\ pos e = pos d /\ tilt e = tilt d /\ time1 e = time1 d /\ time2 e = time2 d /\ carry up e = carry up d /\
  last_time e = last_time d /\ last_comm e = last_comm d /\ now e = now d + dt /\ clk e = now d + dt.
Proof.
  intros C Ee NF. unfold cb_entry, set_clock in Ee.
  pose proof (sub_fire_if_due up k (begin_event d) (now d + dt)) as Sf.
  assert (Kb : keeps2 d (begin_event d)) by (unfold begin_event; k2).
  assert (Ob : only up (begin_event d)).
  { destruct (cal_only _ _ C) as [P Q]. unfold only, powered, begin_event in *. destruct up; cbn [negb] in *; frw; auto. }
  assert (Fb : up_time (begin_event d) = up_time d /\ down_time (begin_event d) = down_time d /\ last_time (begin_event d) = last_time d /\
               last_comm (begin_event d) = last_comm d) by (unfold begin_event; frw; auto).
  destruct Fb as (B1 & B2 & B3 & B4).
  pose proof (fire_if_due_keeps2 k (begin_event d) (now d + dt) ltac:(rewrite (k2_step _ _ Kb); exact (cal_step _ _ C))) as Kf.
  remember (begin_event d) as db eqn:Eb. clear Eb.
  remember (fire_if_due k db (now d + dt)) as df eqn:Ef. clear Ef.
  assert (NFf : nofall up (outs df)) by (subst e; rewrite outs_upd_misc in NF; exact NF).
  pose proof (sub_on up _ _ Sf NFf Ob) as Of.
  pose proof (sub_carry up _ _ Sf) as Cf. pose proof (sub_lt up _ _ Sf) as Lf. pose proof (sub_lc up _ _ Sf) as Lcf.
  pose proof (keeps2_trans _ _ _ Kb Kf) as K.
  assert (Ke : keeps2 d e) by (eapply keeps2_trans; [exact K|]; subst e; k2).
  assert (Oe : only up e) by (subst e; destruct Of as [P Q]; unfold only, powered in *; destruct up; cbn [negb] in *; frw; auto).
  split; [exact (cal_transfer up d e C Oe Ke)|].
  split; [exact (k2_pos _ _ Ke)|]. split; [exact (k2_tilt _ _ Ke)|]. split; [exact (k2_t1 _ _ Ke)|]. split; [exact (k2_t2 _ _ Ke)|].
  subst e. split; [unfold carry_of in *; destruct up; frw; congruence|].
  frw. repeat split; congruence.
Qed.

(* accounting stage *)
Lemma cal_account up k e im el d3 :
  rsk k -> cal up e -> 0 <= el -> 0 <= carry up e -> carry up e + el < 4294967296 -> 0 < full_k up e * 1000 < 4294967296 ->
  d3 = acc_post o k (acc_pre k e up im el) up im (full_k up e) ->
  nofall up (outs d3) ->
  let m := move_position o (cfg_of k e) (pos e) (tilt e) (carry up e + el) (full_k up e) up in
  ext e d3 /\ cal up d3 /\ pos d3 = m_pos m /\ tilt d3 = tilt e /\ carry up d3 = m_time m /\ m_off m = false /\
  time1 d3 = time1 e /\ time2 d3 = time2 e /\ last_comm d3 = last_comm e /\ now d3 = now e.
Proof.
  intros R C Hel Hc Hsum HT E3 NF. cbv zeta.
  pose proof (cal_only _ _ C) as Oe.
  destruct (acc_add_facts up e el (acc_add e up el) Oe Hel Hc Hsum eq_refl) as (Ao & AO & Alt & Alc & An & As & Ap & At & Ac).
  assert (Ka : keeps2 e (acc_add e up el)) by (unfold acc_add; destruct up; k2).
  assert (S40 : ac_step (acc_cm k (acc_add e up el) up im) = 0).
  { assert (Kcm0 : keeps2 (acc_add e up el) (acc_cm k (acc_add e up el) up im))
      by (unfold acc_cm; destruct (0 <? carry_of up (acc_add e up el)); [apply check_motor_keeps2|apply keeps2_refl]).
    rewrite (k2_step _ _ Kcm0), (k2_step _ _ Ka). exact (cal_step _ _ C). }
  rewrite (acc_post_pre_eq o k e up im el (full_k up e) S40) in E3. clear S40.
  remember (acc_add e up el) as d2a eqn:E2a. clear E2a.
  assert (Scm : sub up d2a (acc_cm k d2a up im)) by (unfold acc_cm; destruct (0 <? carry_of up d2a); [apply sub_check_motor|apply sub_refl]).
  assert (Kcm : keeps2 d2a (acc_cm k d2a up im)) by (unfold acc_cm; destruct (0 <? carry_of up d2a); [apply check_motor_keeps2|apply keeps2_refl]).
  remember (acc_cm k d2a up im) as d4 eqn:E4. clear E4.
  assert (S4 : ac_step d4 = 0) by (rewrite (k2_step _ _ Kcm), (k2_step _ _ Ka); exact (cal_step _ _ C)).
  assert (S5 : sub up d4 (fl_clear d4 FLAG_CALIBRATION_IN_PROGRESS)) by apply sub_fl_clear.
  assert (K5 : keeps2 d4 (fl_clear d4 FLAG_CALIBRATION_IN_PROGRESS)) by k2.
  remember (fl_clear d4 FLAG_CALIBRATION_IN_PROGRESS) as d5 eqn:E5. clear E5.
  pose proof (keeps2_trans _ _ _ Ka (keeps2_trans _ _ _ Kcm K5)) as K05.
  pose proof (sub_trans up _ _ _ Scm S5) as S25.
  assert (Kn5 : known (pos d5) = true) by (rewrite (k2_pos _ _ K05); exact (cal_known _ _ C)).
  rewrite (calibrate_d_known k d5 _ _ _ Kn5) in E3.
  (* move *)
  pose proof (move_position_d_ext o k d5 (full_k up e) up im) as X57. rewrite <- E3 in X57.
  assert (NF5 : nofall up (outs d5)) by (exact (ext_nofall up _ _ X57 NF)).
  pose proof (sub_on up _ _ S25 NF5 AO) as O5.
  pose proof (sub_carry up _ _ S25) as C5.
  assert (Em : move_position o (cfg_of k d5) (pos d5) (tilt d5) (carry_of up d5) (full_k up e) up =
               move_position o (cfg_of k e) (pos e) (tilt e) (carry up e + el) (full_k up e) up).
  { assert (Ecf : cfg_of k d5 = cfg_of k e) by (unfold cfg_of; rewrite (k2_t1 _ _ K05), (k2_t2 _ _ K05); reflexivity).
    rewrite Ecf, (k2_pos _ _ K05), (k2_tilt _ _ K05). f_equal. lia. }
  rewrite move_position_d_eq, Em in E3.
  remember (move_position o (cfg_of k e) (pos e) (tilt e) (carry up e + el) (full_k up e) up) as m eqn:Emm.
  assert (Mt : m_tilt m = tilt e).
  { subst m. exact (proj1 (proj2 (move_position_rs o OK (cfg_of k e) (pos e) (tilt e) (carry up e + el) (full_k up e) up (rsk_cfg k e R) (cal_known _ _ C) HT))). }
  assert (Mk : known (m_pos m) = true).
  { subst m. assert (W : wf_cfg (cfg_of k e)) by (exact (rsk_wfk k R)).
    assert (Pk : pos_ok (pos e)) by (right; apply known_true; exact (cal_known _ _ C)).
    assert (Tk : tilt_ok (tilt e)) by (destruct (cal_tilt _ _ C) as [T|T]; rewrite T; [left|right; left]; reflexivity).
    destruct (move_position_spec o OK (cfg_of k e) (pos e) (tilt e) (carry up e + el) (full_k up e) up W Pk Tk ltac:(lia)) as (_ & _ & _ & M4 & _).
    exact (proj1 (M4 (cal_known _ _ C))). }
  clear Emm Em.
  destruct (m_off m) eqn:Eoff.
  - exfalso.
    remember (mpd_write d5 m up) as d6 eqn:E6.
    assert (P6 : powered up d6 = true) by (subst d6; destruct O5 as [P _]; unfold mpd_write, powered in *; destruct up; frw; exact P).
    clear E6.
    remember (mpd_lost d6 im) as d7 eqn:E7.
    assert (P7 : powered up d7 = true) by (subst d7; unfold mpd_lost; destruct (autocal_done d6 && im); unfold powered in *; destruct up; frw; exact P6).
    clear E7. rewrite E3 in NF. exact (set_relay_off_falls up k d7 false P7 NF).
  - assert (K57 : keeps2 d5 (upd_pt d5 (pos d5) (tilt d5))) by k2.
    subst d3.
    split; [eapply ext_trans; [|exact X57]; destruct (sub_log up _ _ S25) as [n L]; exists n; rewrite L, Ao; reflexivity|].
    assert (O7 : only up (mpd_write d5 m up)).
    { destruct O5 as [P Q]. unfold mpd_write, only, powered in *. destruct up; cbn [negb] in *; frw; auto. }
    split.
    { constructor; try exact O7; unfold mpd_write.
      - destruct up; frw; exact Mk.
      - destruct up; frw; rewrite Mt; exact (cal_tilt _ _ C).
      - destruct up; frw; rewrite (k2_step _ _ K05); exact (cal_step _ _ C).
      - destruct up; frw; rewrite (k2_aot _ _ K05); exact (cal_aot _ _ C).
      - destruct up; frw; rewrite (k2_act _ _ K05); exact (cal_act _ _ C).
      - destruct up; frw; rewrite (k2_perf _ _ K05); exact (cal_perf _ _ C).
      - pose proof (cal_full _ _ C) as F. unfold full_k in *. destruct up; frw; rewrite ?(k2_t1 _ _ K05), ?(k2_t2 _ _ K05); exact F. }
    pose proof (sub_lc up _ _ S25) as Lc5. pose proof (sub_now up _ _ S25) as Nw5.
    unfold mpd_write. destruct up; frw; unfold carry_of; frw; repeat split; auto; try congruence;
      rewrite ?(k2_t1 _ _ K05), ?(k2_t2 _ _ K05); try reflexivity; congruence.
Qed.

End CalCallback.

Section CalStep.
Variable o : fpops.
Hypothesis OK : fp_ok o.

Lemma rb_report_keeps2 k d : keeps2 d (rb_report k d).
Proof.
  unfold rb_report.
  destruct (negb (C10.Model.last_pos d =? pos d) || negb (C10.Model.last_flags d =? flags d) || negb (C10.Model.last_tilt d =? tilt d)); [cbv zeta; k2|apply keeps2_refl].
Qed.

Lemma report_block_keeps2 up k d t d' :
  only up d -> d' = report_block k d t -> nofall up (outs d') -> keeps2 d d'.
Proof.
  intros O E' NF.
  destruct (REPORT_PERIOD_US <=? u32 (t - last_comm d)) eqn:Edue.
  2:{ rewrite (rb_not_due k d t Edue) in E'. subst d'. apply keeps2_refl. }
  destruct ((TEN_MINUTES_US <? up_time d) || (TEN_MINUTES_US <? down_time d)) eqn:Elong.
  - exfalso. destruct (report_block_facts up k d t d' O E') as (_ & _ & _ & _ & _ & _ & R6).
    destruct (R6 NF) as (_ & _ & _ & _ & ND). apply ND. split; [exact Edue|].
    apply orb_true_iff in Elong. destruct Elong as [A|A]; apply Z.ltb_lt in A; [left|right]; exact A.
  - rewrite (rb_due_short k d t Edue Elong) in E'. subst d'.
    eapply keeps2_trans; [apply rb_report_keeps2|]. k2.
Qed.

Lemma cal_tail up k d3 im t fo fc d' :
  cal up d3 -> d' = cb_tail k d3 im t fo fc -> nofall up (outs d') ->
  cal up d' /\ keeps2 d3 d' /\ carry up d' = carry up d3 /\ last_time d' = t /\ now d' = now d3.
Proof.
  intros C E' NF. unfold cb_tail, stamp_last in E'.
  rewrite (cb_need_id k d3 (cal_not_enabled up k d3 C)) in E'.
  pose proof (sub_task_processing up k d3 im fo fc) as S5.
  pose proof (task_processing_keeps2 k d3 im fo fc (cal_step _ _ C) (cal_perf _ _ C)) as K5.
  remember (task_processing k d3 im fo fc) as d5 eqn:E5. clear E5.
  destruct (report_block_facts_ext k d5 t) as [n6 L6].
  remember (report_block k d5 t) as d6 eqn:E6.
  assert (X' : outs d' = outs d6) by (subst d'; frw; reflexivity).
  rewrite X' in NF.
  assert (NF5 : nofall up (outs d5)) by (rewrite L6 in NF; apply nofall_app in NF; tauto).
  pose proof (sub_on up _ _ S5 NF5 (cal_only _ _ C)) as O5.
  destruct (report_block_facts up k d5 t d6 O5 E6) as (_ & R1 & R2 & R3 & R4 & R5 & R6).
  destruct (R6 NF) as (O6 & _).
  pose proof (report_block_keeps2 up k d5 t d6 O5 E6 NF) as K6.
  assert (K' : keeps2 d3 d') by (eapply keeps2_trans; [exact K5|]; eapply keeps2_trans; [exact K6|]; subst d'; k2).
  assert (O' : only up d') by (subst d'; destruct O6 as [P Q]; unfold only, powered in *; destruct up; cbn [negb] in *; frw; auto).
  split; [exact (cal_transfer up d3 d' C O' K')|]. split; [exact K'|].
  pose proof (sub_carry up _ _ S5) as C5. pose proof (sub_now up _ _ S5) as N5.
  subst d'. split; [unfold carry_of in *; destruct up; frw; congruence|]. frw. split; [reflexivity|congruence].
Qed.

(* One callback on a calibrated roller shutter whose output stays energised: position and carry are those of
   supla_esp_gpio_rs_move_position on (carry + dt), and its end-stop time-out did not fire. *)
Theorem cal_step_thm up k d dt sm d' :
  rsk k -> cal up d -> stamped k d -> 0 <= carry up d -> 0 <= dt -> carry up d + dt < 4294967296 ->
  0 < full_k up d * 1000 < 4294967296 ->
  d' = C10.Model.step o k d (Cb dt sm) -> nofall up (outs d') ->
  let m := move_position o (cfg_of k d) (pos d) (tilt d) (carry up d + dt) (full_k up d) up in
  cal up d' /\ stamped k d' /\ now d' = now d + dt /\ pos d' = m_pos m /\ tilt d' = tilt d /\ carry up d' = m_time m /\ m_off m = false /\
  time1 d' = time1 d /\ time2 d' = time2 d.
Proof.
  intros R C St Hc Hdt Hsum HT E' NF. cbv zeta.
  cbn [C10.Model.step] in E'. unfold set_clock in E'.
  assert (NFt : nofall up (outs (C10.Model.timer_cb o k (cb_entry k d dt) (sensor k (cb_entry k d dt) sm)))) by (subst d'; rewrite outs_upd_misc in NF; exact NF).
  assert (NFe : nofall up (outs (cb_entry k d dt))) by (exact (ext_nofall up _ _ (timer_cb_ext o k _ _) NFt)).
  destruct (cb_entry_cal up k d dt _ C eq_refl NFe) as (Ce & Pe & Te & T1e & T2e & Cye & Le & Lce & Nwe & Cke).
  remember (cb_entry k d dt) as e eqn:Ee. clear Ee.
  remember (sensor k e sm) as im eqn:Eim. clear Eim.
  assert (Ct : counter k e = u32 (k_boot k + now d + dt)) by (unfold counter; rewrite Cke; f_equal; lia).
  assert (Eel : u32 (counter k e - last_time e) = dt).
  { rewrite Ct, Le, St. pose proof (u32_diff_shift (k_boot k) (now d + dt) (now d)) as X.
    replace (now d + dt - now d) with dt in X by lia. replace (k_boot k + (now d + dt)) with (k_boot k + now d + dt) in X by lia. apply X. lia. }
  assert (Fe : full_k up e = full_k up d) by (unfold full_k; destruct up; congruence).
  (* stages 1-3 *)
  pose proof (cal_not_enabled up k e Ce) as NE.
  remember (C10.Model.timer_cb o k e im) as dc eqn:Edc.
  rewrite timer_cb_eq in Edc.
  rewrite (cb_head_id k e NE (cal_step _ _ Ce) (cal_aot _ _ Ce) (cal_act _ _ Ce)), NE, (cb_power_id up k e im (counter k e) (cal_only _ _ Ce)) in Edc.
  pose proof (cb_account_only o up k e im (counter k e) (cb_fo k e) (cb_fc k e) (cal_only _ _ Ce)) as E3. rewrite Eel in E3.
  assert (Ef : (if up then cb_fo k e else cb_fc k e) = full_k up e) by (unfold cb_fo, cb_fc, full_k; rewrite NE; reflexivity).
  rewrite Ef in E3.
  remember (snd (fst (cb_account o k e im (counter k e) (cb_fo k e) (cb_fc k e)))) as fo' eqn:Efo. clear Efo.
  remember (snd (cb_account o k e im (counter k e) (cb_fo k e) (cb_fc k e))) as fc' eqn:Efc. clear Efc.
  remember (fst (fst (cb_account o k e im (counter k e) (cb_fo k e) (cb_fc k e)))) as d3 eqn:Ed3. clear Ed3.
  destruct (cb_tail_facts up k d3 im (counter k e) fo' fc' dc Edc) as (X4 & _).
  assert (NF3 : nofall up (outs d3)) by (exact (ext_nofall up _ _ X4 NFt)).
  destruct (cal_account o OK up k e im dt d3 R Ce Hdt ltac:(lia) ltac:(lia) ltac:(rewrite Fe; lia) E3 NF3)
    as (_ & C3 & P3 & T3 & Cy3 & Moff & T13 & T23 & _ & Nw3).
  cbv zeta in P3, Cy3, Moff.
  destruct (cal_tail up k d3 im (counter k e) fo' fc' dc C3 Edc NFt) as (Cc & Kc & Cyc & Ltc & Nwc).
  assert (Ecfg : cfg_of k e = cfg_of k d) by (unfold cfg_of; rewrite T1e, T2e; reflexivity).
  rewrite Ecfg, Pe, Te, Cye, Fe in P3, Cy3, Moff.
  subst d'.
  assert (O' : only up (upd_misc dc (last_direction dc) (now d + dt) (now d + dt))).
  { destruct (cal_only _ _ Cc) as [P Q]. unfold only, powered in *. destruct up; cbn [negb] in *; frw; auto. }
  split; [apply (cal_transfer up dc _ Cc O'); k2|].
  split; [unfold stamped; frw; rewrite Ltc, Ct; f_equal; lia|].
  split; [frw; reflexivity|].
  split; [frw; rewrite (k2_pos _ _ Kc); exact P3|].
  split; [frw; rewrite (k2_tilt _ _ Kc), T3; exact Te|].
  split; [unfold carry_of in *; destruct up; frw; congruence|].
  split; [exact Moff|].
  frw. rewrite (k2_t1 _ _ Kc), (k2_t2 _ _ Kc). split; congruence.
Qed.

End CalStep.

Section CalRun.
Variable o : fpops.
Hypothesis OK : fp_ok o.

Definition margin_ms (k : kcfg) (F : Z) : Z := u32 (fp_margin o F (k_margin k)).
(* the carry never reaches this while the output stays energised: one position unit of time while moving,
   the end-stop margin once the end stop is reached *)
Definition carry_max (k : kcfg) (F : Z) : Z := Z.max (1000 * margin_ms k F) (F * 1000 / 10000 + 2).

Definition cal_inv (up : bool) (k : kcfg) (F R0 : Z) (d : dev) (e : Z) (started : bool) : Prop :=
  cal up d /\ stamped k d /\ full_k up d = F /\
  0 <= carry up d <= e /\ 0 <= remaining up (pos d) <= R0 /\
  10000 * (e - carry up d) <= (R0 - remaining up (pos d)) * (F * 1000) /\
  carry up d < carry_max k F.

Lemma cal_inv_step up k F R0 tau d e dt sm :
  rsk k -> 0 < F * 1000 < 4294967296 -> 20000 <= F * 1000 -> carry_max k F + tau < 4294967296 -> 0 < dt <= tau ->
  cal_inv up k F R0 d e true ->
  nofall up (outs (C10.Model.step o k d (Cb dt sm))) ->
  cal_inv up k F R0 (C10.Model.step o k d (Cb dt sm)) (e + dt) true.
Proof.
  intros R HT HT2 Hmax Hdt (C & St & HF & Hc & Hr & I2 & Hcm) NF.
  pose proof (cal_step_thm o OK up k d dt sm _ R C St ltac:(lia) ltac:(lia) ltac:(lia) ltac:(rewrite HF; exact HT) eq_refl NF) as S.
  cbv zeta in S. rewrite HF in S.
  remember (C10.Model.step o k d (Cb dt sm)) as d' eqn:E'. clear E'.
  destruct S as (C' & St' & Nw' & P' & T' & Cy' & Moff & T1' & T2').
  pose proof (cal_known _ _ C) as K. pose proof K as Kp. apply known_true in Kp.
  destruct (move_position_rs o OK (cfg_of k d) (pos d) (tilt d) (carry up d + dt) F up (rsk_cfg k d R) K HT) as (Mp & _ & Mtime).
  cbv zeta in Mp, Mtime.
  pose proof (move_position_rs_off o OK (cfg_of k d) (pos d) (tilt d) (carry up d + dt) F up (rsk_cfg k d R) K (cal_tilt _ _ C) HT) as Off.
  rewrite Moff in Off.
  pose proof (adjust_spec o OK up (pos d) (fp_rem o (remaining up (pos d)) (F * 1000)) (carry up d + dt) (F * 1000) Kp ltac:(lia) ltac:(lia) (or_intror eq_refl)) as A.
  cbv zeta in A. rewrite <- Mp, <- Mtime in A. rewrite <- P', <- Cy' in A, Off.
  destruct A as (A1 & A2 & A3 & A4 & A5 & A6 & A7 & _).
  unfold cal_inv. split; [exact C'|]. split; [exact St'|].
  split; [unfold full_k in *; destruct up; congruence|].
  split; [lia|]. split; [lia|]. split; [lia|].
  (* the carry stays below carry_max *)
  unfold carry_max, margin_ms.
  destruct (Z.eq_dec (remaining up (pos d')) 0) as [Z0|Z0].
  - (* at the end stop: the margin test was false *)
    assert (Epos : pos d' = end_stop up) by (unfold remaining, end_stop in *; destruct up; lia).
    rewrite Epos, Z.eqb_refl in Off. cbn [andb] in Off. symmetry in Off. apply Z.leb_gt in Off.
    assert (carry up d' < 1000 * u32 (fp_margin o F (margin (cfg_of k d)))).
    { pose proof (Z.mul_div_le (carry up d') 1000 ltac:(lia)). pose proof (Z.mod_pos_bound (carry up d') 1000 ltac:(lia)).
      pose proof (Z.div_mod (carry up d') 1000 ltac:(lia)). lia. }
    change (margin (cfg_of k d)) with (k_margin k) in H. lia.
  - assert (10000 * carry up d' < F * 1000 + 10000) by (apply A7; [reflexivity|lia|lia]).
    pose proof (Z.mul_div_le (F * 1000) 10000 ltac:(lia)). pose proof (Z.mod_pos_bound (F * 1000) 10000 ltac:(lia)).
    pose proof (Z.div_mod (F * 1000) 10000 ltac:(lia)). lia.
Qed.

Lemma cal_run up k F R0 tau evs : forall d e,
  rsk k -> 0 < F * 1000 < 4294967296 -> 20000 <= F * 1000 -> carry_max k F + tau < 4294967296 ->
  Forall (fun ev => 0 < fst ev <= tau) evs ->
  cal_inv up k F R0 d e true -> on_run o up k d evs ->
  10000 * (e + elapsed evs) < R0 * (F * 1000) + 10000 * carry_max k F.
Proof.
  induction evs as [|[dt sm] r IH]; intros d e R HT HT2 Hmax Hev J Hon.
  - cbn [elapsed fold_right]. destruct J as (C & St & HF & Hc & Hr & I2 & Hcm).
    assert (0 <= remaining up (pos d) * (F * 1000)) by (apply Z.mul_nonneg_nonneg; lia). lia.
  - inversion Hev as [|? ? Hd Hr']; subst. cbn [fst] in Hd. destruct Hon as [NF Hon].
    pose proof (cal_inv_step up k F R0 tau d e dt sm R HT HT2 Hmax Hd J NF) as J'.
    specialize (IH _ _ R HT HT2 Hmax Hr' J' Hon).
    cbn [elapsed fold_right fst]. unfold elapsed in IH. lia.
Qed.

(* Bounded power, calibrated move (roller shutter, any task state, any sensor): from a known position with the output
   of direction `up` energised, while no falling edge of that output is logged the elapsed time stays below
   (travel time to the end stop) + max(end-stop margin, one position unit + 2 us). *)
Theorem C10_bounded_power_calibrated_thm up k tau d evs :
  rsk k -> cal up d -> stamped k d ->
  let F := full_k up d in
  0 < F * 1000 < 4294967296 -> 20000 <= F * 1000 -> carry_max k F + tau < 4294967296 ->
  0 <= carry up d < carry_max k F ->
  Forall (fun ev => 0 < fst ev <= tau) evs -> on_run o up k d evs ->
  10000 * (carry up d + elapsed evs) < remaining up (pos d) * (F * 1000) + 10000 * carry_max k F.
Proof.
  intros R C St F HT HT2 Hmax Hc Hev Hon.
  pose proof (cal_known _ _ C) as K. apply known_true in K.
  assert (Hr : 0 <= remaining up (pos d)) by (unfold remaining; destruct up; lia).
  apply (cal_run up k F (remaining up (pos d)) tau evs d (carry up d) R HT HT2 Hmax Hev); [|exact Hon].
  unfold cal_inv. split; [exact C|]. split; [exact St|]. split; [reflexivity|]. split; [lia|]. split; [lia|]. split; [lia|lia].
Qed.

End CalRun.
