(* C10 — convergence, part 2: one callback while the motor runs towards the target. *)
From Coq Require Import List ZArith Bool Lia.
Import ListNotations.
From V Require Import Base.U32 Base.Iface Gen.RsConsts C09.Model C09.Proofs C10.Model C10.Frame C10.Fields C10.Proofs C10.Autocal C10.Calibrated C10.Conv1.
Local Open Scope Z_scope.
Notation pos := C10.Model.pos.
Notation tilt := C10.Model.tilt.
Notation up_time := C10.Model.up_time.
Notation down_time := C10.Model.down_time.
Notation last_time := C10.Model.last_time.
Notation last_comm := C10.Model.last_comm.
Notation now := C10.Model.now.
Notation flags := C10.Model.flags.

Lemma same_core_check_motor k d mu im : same_core d (check_motor k d mu im).
Proof.
  unfold check_motor. destruct (u32 (counter k d - start_time d) <? AUTOCAL_FILTERING_MS * 1000); [apply same_core_refl|].
  match goal with |- context[if ?x then _ else d] => destruct x end; [sc|apply same_core_refl].
Qed.
Lemma same_core_only up d d' : same_core d d' -> only up d -> only up d'.
Proof. intros S [P Q]. unfold only, powered in *. destruct up; cbn [negb] in *; rewrite (sc_up _ _ S), (sc_down _ _ S); auto. Qed.

Section MovingCallback.
Variable o : fpops.
Hypothesis OK : fp_ok o.

(* the accounting stage on a calibrated roller shutter, whether or not the end-stop time-out fires *)
Lemma cal_account2 up k e im el d3 :
  rsk k -> cal up e -> 0 <= el -> 0 <= carry_of up e -> carry_of up e + el < 4294967296 -> 0 < full_k up e * 1000 < 4294967296 ->
  d3 = acc_post o k (acc_pre k e up im el) up im (full_k up e) ->
  let m := move_position o (cfg_of k e) (pos e) (tilt e) (carry_of up e + el) (full_k up e) up in
  pos d3 = m_pos m /\ tilt d3 = tilt e /\ carry_of up d3 = m_time m /\ known (m_pos m) = true /\
  keeps3 e d3 /\ aot d3 = aot e /\ act d3 = act e /\ time1 d3 = time1 e /\ time2 d3 = time2 e /\ ac_step d3 = 0 /\ perform d3 = perform e /\
  last_comm d3 = last_comm e /\ now d3 = now e /\ carry_of (negb up) d3 = 0 /\
  (m_off m = false -> only up d3 /\ delayed d3 = delayed e /\ start_time d3 = start_time e) /\
  (m_off m = true -> up_on d3 = false /\ down_on d3 = false /\ delayed d3 = None).
Proof.
  intros R C Hel Hc Hsum HT E3. cbv zeta.
  pose proof (cal_only _ _ C) as Oe.
  assert (Sa : same_core e (acc_add e up el)) by (unfold acc_add; destruct up; sc).
  assert (Ca : carry_of up (acc_add e up el) = carry_of up e + el /\ carry_of (negb up) (acc_add e up el) = 0 /\
               last_comm (acc_add e up el) = last_comm e /\ now (acc_add e up el) = now e).
  { unfold acc_add, carry_of in *. destruct up; cbn [negb]; frw; repeat split; try reflexivity; apply u32_small; lia. }
  destruct Ca as (Ca & Cn & Lca & Nwa).
  assert (Scm0 : same_core (acc_add e up el) (acc_cm k (acc_add e up el) up im))
    by (unfold acc_cm; destruct (0 <? carry_of up (acc_add e up el)); [apply same_core_check_motor|apply same_core_refl]).
  assert (S40 : ac_step (acc_cm k (acc_add e up el) up im) = 0)
    by (rewrite (k2_step _ _ (sc_k2 _ _ (same_core_trans _ _ _ Sa Scm0))); exact (cal_step _ _ C)).
  rewrite (acc_post_pre_eq o k e up im el (full_k up e) S40) in E3. clear Scm0 S40.
  remember (acc_add e up el) as d2a eqn:E2a. clear E2a.
  assert (Scm : same_core d2a (acc_cm k d2a up im)) by (unfold acc_cm; destruct (0 <? carry_of up d2a); [apply same_core_check_motor|apply same_core_refl]).
  pose proof (sub_carry up _ _ (ltac:(unfold acc_cm; destruct (0 <? carry_of up d2a); [apply sub_check_motor|apply sub_refl]) : sub up d2a (acc_cm k d2a up im))) as Ccm.
  assert (Subcm : sub (negb up) d2a (acc_cm k d2a up im)) by (unfold acc_cm; destruct (0 <? carry_of up d2a); [apply sub_check_motor|apply sub_refl]).
  pose proof (sub_carry (negb up) _ _ Subcm) as Ccmn. pose proof (sub_lc _ _ _ Subcm) as Lccm. pose proof (sub_now _ _ _ Subcm) as Nwcm.
  remember (acc_cm k d2a up im) as d4 eqn:E4. clear E4 Subcm.
  pose proof (same_core_trans _ _ _ Sa Scm) as S04.
  assert (S4 : ac_step d4 = 0) by (rewrite (k2_step _ _ (sc_k2 _ _ S04)); exact (cal_step _ _ C)).
  assert (S45 : same_core d4 (fl_clear d4 FLAG_CALIBRATION_IN_PROGRESS)) by sc.
  assert (C5 : carry_of up (fl_clear d4 FLAG_CALIBRATION_IN_PROGRESS) = carry_of up d4 /\ carry_of (negb up) (fl_clear d4 FLAG_CALIBRATION_IN_PROGRESS) = carry_of (negb up) d4 /\
               last_comm (fl_clear d4 FLAG_CALIBRATION_IN_PROGRESS) = last_comm d4 /\ now (fl_clear d4 FLAG_CALIBRATION_IN_PROGRESS) = now d4)
    by (unfold carry_of; destruct up; cbn [negb]; frw; auto).
  destruct C5 as (C5 & C5n & Lc5 & Nw5).
  remember (fl_clear d4 FLAG_CALIBRATION_IN_PROGRESS) as d5 eqn:E5. clear E5.
  pose proof (same_core_trans _ _ _ S04 S45) as S05. clear S45 Scm Sa.
  pose proof (sc_k2 _ _ S05) as K05.
  assert (Kn5 : known (pos d5) = true) by (rewrite (k2_pos _ _ K05); exact (cal_known _ _ C)).
  rewrite (calibrate_d_known o k d5 _ _ _ Kn5) in E3.
  assert (Em : move_position o (cfg_of k d5) (pos d5) (tilt d5) (carry_of up d5) (full_k up e) up =
               move_position o (cfg_of k e) (pos e) (tilt e) (carry_of up e + el) (full_k up e) up).
  { assert (Ecf : cfg_of k d5 = cfg_of k e) by (unfold cfg_of; rewrite (k2_t1 _ _ K05), (k2_t2 _ _ K05); reflexivity).
    rewrite Ecf, (k2_pos _ _ K05), (k2_tilt _ _ K05). f_equal. lia. }
  rewrite move_position_d_eq, Em in E3.
  remember (move_position o (cfg_of k e) (pos e) (tilt e) (carry_of up e + el) (full_k up e) up) as m eqn:Emm.
  assert (Mt : m_tilt m = tilt e).
  { subst m. exact (proj1 (proj2 (move_position_rs o OK (cfg_of k e) (pos e) (tilt e) (carry_of up e + el) (full_k up e) up (rsk_cfg k e R) (cal_known _ _ C) HT))). }
  assert (Mk : known (m_pos m) = true).
  { subst m. assert (W : wf_cfg (cfg_of k e)) by (exact (rsk_wfk k R)).
    assert (Pk : pos_ok (pos e)) by (right; apply known_true; exact (cal_known _ _ C)).
    assert (Tk : tilt_ok (tilt e)) by (destruct (cal_tilt _ _ C) as [T|T]; rewrite T; [left|right; left]; reflexivity).
    destruct (move_position_spec o OK (cfg_of k e) (pos e) (tilt e) (carry_of up e + el) (full_k up e) up W Pk Tk ltac:(lia)) as (_ & _ & _ & M4 & _).
    exact (proj1 (M4 (cal_known _ _ C))). }
  clear Emm Em.
  (* the state after position / carry have been written *)
  remember (mpd_write d5 m up) as d6 eqn:E6.
  assert (F6 : pos d6 = m_pos m /\ tilt d6 = m_tilt m /\ carry_of up d6 = m_time m /\ carry_of (negb up) d6 = carry_of (negb up) d5 /\
               keeps3 d5 d6 /\ aot d6 = aot d5 /\ act d6 = act d5 /\ time1 d6 = time1 d5 /\ time2 d6 = time2 d5 /\ ac_step d6 = ac_step d5 /\ perform d6 = perform d5 /\
               last_comm d6 = last_comm d5 /\ now d6 = now d5 /\ up_on d6 = up_on d5 /\ down_on d6 = down_on d5 /\ delayed d6 = delayed d5 /\ start_time d6 = start_time d5).
  { subst d6. unfold mpd_write, carry_of. destruct up; cbn [negb]; frw; repeat split; try reflexivity; k3. }
  clear E6. destruct F6 as (P6 & T6 & Cy6 & Cn6 & K36 & A6 & B6 & T16 & T26 & St6 & Pf6 & Lc6 & Nw6 & U6 & D6 & Dl6 & Ss6).
  pose proof (sc_k3 _ _ S05) as K305.
  assert (Step6 : ac_step d6 = 0) by (rewrite St6, (k2_step _ _ K05); exact (cal_step _ _ C)).
  destruct (m_off m) eqn:Eoff.
  - remember (mpd_lost d6 im) as d7 eqn:E7.
    assert (S67 : same_core d6 d7) by (subst d7; unfold mpd_lost; destruct (autocal_done d6 && im); [sc|apply same_core_refl]).
    assert (C7 : carry_of up d7 = carry_of up d6 /\ carry_of (negb up) d7 = carry_of (negb up) d6 /\ last_comm d7 = last_comm d6 /\ now d7 = now d6).
    { subst d7. unfold mpd_lost. destruct (autocal_done d6 && im); unfold carry_of; destruct up; cbn [negb]; frw; auto. }
    clear E7. destruct C7 as (C7 & C7n & Lc7 & Nw7).
    pose proof (sc_k2 _ _ S67) as K67.
    assert (Step7 : ac_step d7 = 0) by (rewrite (k2_step _ _ K67); exact Step6).
    destruct (set_relay_off_facts k d7 d3 Step7 E3) as (U3 & D3 & Dl3 & K73 & K373 & Sub73).
    pose proof (sub_ut _ _ _ Sub73) as Cu. pose proof (sub_dt _ _ _ Sub73) as Cd.
    assert (Cboth : forall b, carry_of b d3 = carry_of b d7) by (intros b; destruct b; unfold carry_of; assumption).
    rewrite (k2_pos _ _ K73), (k2_tilt _ _ K73), (k2_aot _ _ K73), (k2_act _ _ K73), (k2_t1 _ _ K73), (k2_t2 _ _ K73), (k2_step _ _ K73), (k2_perf _ _ K73).
    rewrite (k2_pos _ _ K67), (k2_tilt _ _ K67), (k2_aot _ _ K67), (k2_act _ _ K67), (k2_t1 _ _ K67), (k2_t2 _ _ K67), (k2_perf _ _ K67).
    rewrite !Cboth, (sub_lc _ _ _ Sub73), (sub_now _ _ _ Sub73).
    split; [congruence|]. split; [congruence|]. split; [congruence|]. split; [exact Mk|].
    split; [eapply keeps3_trans; [exact K305|]; eapply keeps3_trans; [exact K36|]; eapply keeps3_trans; [exact (sc_k3 _ _ S67)|exact K373]|].
    split; [rewrite A6; exact (k2_aot _ _ K05)|]. split; [rewrite B6; exact (k2_act _ _ K05)|].
    split; [rewrite T16; exact (k2_t1 _ _ K05)|]. split; [rewrite T26; exact (k2_t2 _ _ K05)|].
    split; [exact Step7|]. split; [rewrite Pf6; exact (k2_perf _ _ K05)|].
    split; [congruence|]. split; [congruence|]. split; [congruence|].
    split; [discriminate|]. intros _. auto.
  - subst d3.
    split; [exact P6|]. split; [congruence|]. split; [exact Cy6|]. split; [exact Mk|].
    split; [eapply keeps3_trans; [exact K305|exact K36]|].
    split; [rewrite A6; exact (k2_aot _ _ K05)|]. split; [rewrite B6; exact (k2_act _ _ K05)|].
    split; [rewrite T16; exact (k2_t1 _ _ K05)|]. split; [rewrite T26; exact (k2_t2 _ _ K05)|].
    split; [exact Step6|]. split; [rewrite Pf6; exact (k2_perf _ _ K05)|].
    split; [congruence|]. split; [congruence|]. split; [congruence|].
    split; [|discriminate]. intros _.
    split; [destruct Oe as [P Q]; unfold only, powered in *; destruct up; cbn [negb] in *; rewrite U6, D6, (sc_up _ _ S05), (sc_down _ _ S05); auto|].
    split; [rewrite Dl6; exact (sc_del _ _ S05)|rewrite Ss6; exact (sc_st _ _ S05)].
Qed.

End MovingCallback.
