(* C10 — executable model of the whole roller-shutter / facade-blind module of src/user/supla_esp_rs_fb.c
   for one shutter: supla_esp_gpio_rs_set_relay (+ delayed trigger), the RS part of supla_esp_gpio_relay_hi
   (start/stop stamps), supla_esp_gpio_rs_add_task / _cancel_task, _rs_task_processing, _rs_time_margin,
   _rs_calibrate, _rs_move_position (from C09), _rs_check_motor, _rs_start_autoCal, _rs_autocalibrate,
   _rs_calibration_failed, _rs_apply_new__times, the whole supla_esp_gpio_rs_timer_cb and the recalibrate
   branches of supla_esp_calcfg_request.  Definitions only.
   Time: `now` = true microseconds since boot at the start of the current event; `clk` runs on inside an event
   (os_delay_us in relay switching) and is what the 32-bit counter shows (u32 (boot + clk)). *)
From Coq Require Import List ZArith Bool Floats.
Import ListNotations.
From V Require Import Base.U32 Base.Iface Gen.RsConsts C09.Model.
Local Open Scope Z_scope.

(* ---------- constants that are literals in the C code (tied by the correspondence check) ---------- *)
Definition RELAY_DOUBLE_TRY_US : Z := 10000.   (* RELAY_DOUBLE_TRY, supla_esp.h *)
Definition RELAY_SETTLE_US : Z := 10.          (* os_delay_us(10) before and after the pin write *)
Definition REVERSE_PAUSE_US : Z := 10000.      (* os_delay_us(10000) after switching the opposite output off *)
Definition DELAY_THRESHOLD_MS : Z := 100.      (* delay_time > 100 *)
Definition POWER_DETECT_US : Z := 2000 * 1000. (* t - start_time < 2 s *)
Definition DEFAULT_TASK_MARGIN : Z := 5.
Definition SENSOR_TASK_MARGIN : Z := 50.
Definition DEFAULT_MARGIN : Z := 110.

(* ---------- configuration that no event of the model changes ---------- *)
Record kcfg := { k_boot : Z;
                 k_tilt_ms : Z; k_tilt_type : Z;
                 k_margin : Z;            (* rs_cfg->rs_time_margin *)
                 k_add_margin : Z;        (* supla_esp_cfg.AdditionalTimeMargin[channel] *)
                 k_autocal_flag : bool;   (* channel_flags & SUPLA_CHANNEL_FLAG_RS_AUTO_CALIBRATION *)
                 k_recal_flag : bool;     (* channel_flags & SUPLA_CHANNEL_FLAG_CALCFG_RECALIBRATE *)
                 (* the scripted motor of the harness board (supla_esp_board_is_rs_in_move double, mode 2) *)
                 k_mot_up : Z; k_mot_down : Z; k_mot_start : Z }.

(* ---------- state of one shutter ---------- *)
Record dev := {
  pos : Z; tilt : Z; up_time : Z; down_time : Z; last_time : Z; last_comm : Z;
  up_on : bool; down_on : bool; start_time : Z; stop_time : Z;
  delayed : option (Z * Z * bool);          (* value, due (true time), autoCal_request *)
  tk_pos : Z; tk_tilt : Z; tk_dir : Z; tk_state : Z;
  ac_step : Z; perform : bool; button_req : bool; detected : bool;
  time1 : Z; time2 : Z; aot : Z; act : Z;   (* Time1 (opening), Time2 (closing), AutoCalOpenTime, AutoCalCloseTime *)
  flags : Z; last_pos : Z; last_tilt : Z; last_flags : Z;
  last_direction : Z;
  now : Z; clk : Z;
  outs : list wire }.                       (* observable output of the current event, newest first *)

(* field updates *)
Definition upd_pt (d : dev) (p t : Z) : dev :=
  {| pos := p; tilt := t; up_time := up_time d; down_time := down_time d; last_time := last_time d; last_comm := last_comm d;
     up_on := up_on d; down_on := down_on d; start_time := start_time d; stop_time := stop_time d; delayed := delayed d;
     tk_pos := tk_pos d; tk_tilt := tk_tilt d; tk_dir := tk_dir d; tk_state := tk_state d;
     ac_step := ac_step d; perform := perform d; button_req := button_req d; detected := detected d;
     time1 := time1 d; time2 := time2 d; aot := aot d; act := act d;
     flags := flags d; last_pos := last_pos d; last_tilt := last_tilt d; last_flags := last_flags d;
     last_direction := last_direction d; now := now d; clk := clk d; outs := outs d |}.
Definition upd_times (d : dev) (ut dt lt lc : Z) : dev :=
  {| pos := pos d; tilt := tilt d; up_time := ut; down_time := dt; last_time := lt; last_comm := lc;
     up_on := up_on d; down_on := down_on d; start_time := start_time d; stop_time := stop_time d; delayed := delayed d;
     tk_pos := tk_pos d; tk_tilt := tk_tilt d; tk_dir := tk_dir d; tk_state := tk_state d;
     ac_step := ac_step d; perform := perform d; button_req := button_req d; detected := detected d;
     time1 := time1 d; time2 := time2 d; aot := aot d; act := act d;
     flags := flags d; last_pos := last_pos d; last_tilt := last_tilt d; last_flags := last_flags d;
     last_direction := last_direction d; now := now d; clk := clk d; outs := outs d |}.
Definition upd_relay (d : dev) (u dn : bool) (st sp : Z) (dl : option (Z * Z * bool)) (ck : Z) (o : list wire) : dev :=
  {| pos := pos d; tilt := tilt d; up_time := up_time d; down_time := down_time d; last_time := last_time d; last_comm := last_comm d;
     up_on := u; down_on := dn; start_time := st; stop_time := sp; delayed := dl;
     tk_pos := tk_pos d; tk_tilt := tk_tilt d; tk_dir := tk_dir d; tk_state := tk_state d;
     ac_step := ac_step d; perform := perform d; button_req := button_req d; detected := detected d;
     time1 := time1 d; time2 := time2 d; aot := aot d; act := act d;
     flags := flags d; last_pos := last_pos d; last_tilt := last_tilt d; last_flags := last_flags d;
     last_direction := last_direction d; now := now d; clk := ck; outs := o |}.
Definition upd_task (d : dev) (p t di s : Z) : dev :=
  {| pos := pos d; tilt := tilt d; up_time := up_time d; down_time := down_time d; last_time := last_time d; last_comm := last_comm d;
     up_on := up_on d; down_on := down_on d; start_time := start_time d; stop_time := stop_time d; delayed := delayed d;
     tk_pos := p; tk_tilt := t; tk_dir := di; tk_state := s;
     ac_step := ac_step d; perform := perform d; button_req := button_req d; detected := detected d;
     time1 := time1 d; time2 := time2 d; aot := aot d; act := act d;
     flags := flags d; last_pos := last_pos d; last_tilt := last_tilt d; last_flags := last_flags d;
     last_direction := last_direction d; now := now d; clk := clk d; outs := outs d |}.
Definition upd_cal (d : dev) (s : Z) (pf br dt : bool) : dev :=
  {| pos := pos d; tilt := tilt d; up_time := up_time d; down_time := down_time d; last_time := last_time d; last_comm := last_comm d;
     up_on := up_on d; down_on := down_on d; start_time := start_time d; stop_time := stop_time d; delayed := delayed d;
     tk_pos := tk_pos d; tk_tilt := tk_tilt d; tk_dir := tk_dir d; tk_state := tk_state d;
     ac_step := s; perform := pf; button_req := br; detected := dt;
     time1 := time1 d; time2 := time2 d; aot := aot d; act := act d;
     flags := flags d; last_pos := last_pos d; last_tilt := last_tilt d; last_flags := last_flags d;
     last_direction := last_direction d; now := now d; clk := clk d; outs := outs d |}.
Definition upd_cfgt (d : dev) (a b c e : Z) : dev :=
  {| pos := pos d; tilt := tilt d; up_time := up_time d; down_time := down_time d; last_time := last_time d; last_comm := last_comm d;
     up_on := up_on d; down_on := down_on d; start_time := start_time d; stop_time := stop_time d; delayed := delayed d;
     tk_pos := tk_pos d; tk_tilt := tk_tilt d; tk_dir := tk_dir d; tk_state := tk_state d;
     ac_step := ac_step d; perform := perform d; button_req := button_req d; detected := detected d;
     time1 := a; time2 := b; aot := c; act := e;
     flags := flags d; last_pos := last_pos d; last_tilt := last_tilt d; last_flags := last_flags d;
     last_direction := last_direction d; now := now d; clk := clk d; outs := outs d |}.
Definition upd_rep (d : dev) (f lp lt lf : Z) (o : list wire) : dev :=
  {| pos := pos d; tilt := tilt d; up_time := up_time d; down_time := down_time d; last_time := last_time d; last_comm := last_comm d;
     up_on := up_on d; down_on := down_on d; start_time := start_time d; stop_time := stop_time d; delayed := delayed d;
     tk_pos := tk_pos d; tk_tilt := tk_tilt d; tk_dir := tk_dir d; tk_state := tk_state d;
     ac_step := ac_step d; perform := perform d; button_req := button_req d; detected := detected d;
     time1 := time1 d; time2 := time2 d; aot := aot d; act := act d;
     flags := f; last_pos := lp; last_tilt := lt; last_flags := lf;
     last_direction := last_direction d; now := now d; clk := clk d; outs := o |}.
Definition upd_misc (d : dev) (ld nw ck : Z) : dev :=
  {| pos := pos d; tilt := tilt d; up_time := up_time d; down_time := down_time d; last_time := last_time d; last_comm := last_comm d;
     up_on := up_on d; down_on := down_on d; start_time := start_time d; stop_time := stop_time d; delayed := delayed d;
     tk_pos := tk_pos d; tk_tilt := tk_tilt d; tk_dir := tk_dir d; tk_state := tk_state d;
     ac_step := ac_step d; perform := perform d; button_req := button_req d; detected := detected d;
     time1 := time1 d; time2 := time2 d; aot := aot d; act := act d;
     flags := flags d; last_pos := last_pos d; last_tilt := last_tilt d; last_flags := last_flags d;
     last_direction := ld; now := nw; clk := ck; outs := outs d |}.

Definition set_flags (d : dev) (f : Z) : dev := upd_rep d f (last_pos d) (last_tilt d) (last_flags d) (outs d).
Definition fl_set (d : dev) (b : Z) : dev := set_flags d (set_flag (flags d) b).
Definition fl_clear (d : dev) (b : Z) : dev := set_flags d (clear_flag (flags d) b).
Definition set_button_req (d : dev) (b : bool) : dev := upd_cal d (ac_step d) (perform d) b (detected d).
Definition set_step (d : dev) (s : Z) : dev := upd_cal d s (perform d) (button_req d) (detected d).

Definition cfg_of (k : kcfg) (d : dev) : cfg :=
  {| full_open := time1 d; full_close := time2 d; tilt_ms := k_tilt_ms k; tilt_type := k_tilt_type k; margin := k_margin k |}.
Definition counter (k : kcfg) (d : dev) : Z := u32 (k_boot k + clk d).
Definition cur_pos (d : dev) : Z := current_position (pos d).
Definition cur_tilt (k : kcfg) (d : dev) : Z := current_tilt (cfg_of k d) (tilt d).
Definition tilt_sup (k : kcfg) : bool := negb ((k_tilt_ms k =? 0) || (k_tilt_type k =? 0)).

(* supla_esp_gpio_rs_is_autocal_enabled / _done *)
Definition autocal_enabled (k : kcfg) (d : dev) : bool := (time1 d =? 0) && (time2 d =? 0) && k_autocal_flag k.
Definition autocal_done (d : dev) : bool := (0 <? aot d) && (0 <? act d).

(* ---------- outputs ---------- *)
(* kind 2: GPIO t which level   (which: 2 = up output, 1 = down output) *)
Definition log_gpio (d : dev) (which : Z) (level : bool) (t : Z) : list wire :=
  mk 2 [t; which; if level then 1 else 0] [] :: outs d.

(* supla_esp_gpio_relay_hi on one of the two outputs of the shutter *)
Definition relay_hi (k : kcfg) (d : dev) (up : bool) (hi : bool) : dev :=
  let t := counter k d in
  let c1 := clk d + RELAY_SETTLE_US in
  let changed := negb (Bool.eqb (if up then up_on d else down_on d) hi) in
  let o := if changed then log_gpio d (if up then RELAY_UP else RELAY_DOWN) hi c1 else outs d in
  let u := if up then hi else up_on d in
  let dn := if up then down_on d else hi in
  let c2 := c1 + RELAY_DOUBLE_TRY_US + RELAY_SETTLE_US in
  if negb u && negb dn then
    upd_relay d u dn 0 (if stop_time d =? 0 then t else stop_time d) (delayed d) c2 o
  else
    upd_relay d u dn (if start_time d =? 0 then t else start_time d) 0 (delayed d) c2 o.

(* supla_esp_gpio_rs_cancel_task *)
Definition cancel_task (d : dev) : dev := upd_task d 0 0 0 TASK_INACTIVE.

(* supla_esp_gpio_rs_set_relay, in three parts *)
(* (1) a command that does not come from the auto-calibration itself aborts a running auto-calibration *)
Definition sr_abort (d : dev) : dev :=
  if negb (button_req d) && (0 <? ac_step d) then
    fl_clear (upd_pt (upd_cfgt (set_step d 0) 0 0 0 0) 0 0) FLAG_TILT_IS_SET
  else d.
Definition disarm (d : dev) : dev := upd_relay d (up_on d) (down_on d) (start_time d) (stop_time d) None (clk d) (outs d).
(* (2) stop delay / switching the opposite output off + start delay: returns the delay in ms
   (the elapsed times are modular differences of the 32-bit counter: wrap-safe since /repo 9b9f886) *)
Definition sr_delay (k : kcfg) (d : dev) (value : Z) (stop_delay : bool) (t : Z) : dev * Z :=
  if value =? RELAY_OFF then
    (d, if stop_delay && (0 <? start_time d) && (stop_time d =? 0)
           && (u32 (t - start_time d) / 1000 <? STOP_DELAY_MS)
        then u32 (STOP_DELAY_MS - u32 (t - start_time d) / 1000 + 1) else 0)
  else
    let d := upd_misc d value (now d) (clk d) in
    let d := fl_clear (fl_clear (fl_clear d FLAG_CALIBRATION_FAILED) FLAG_MOTOR_PROBLEM) FLAG_CALIBRATION_LOST in
    let other_up := negb (value =? RELAY_UP) in      (* the output of the opposite direction *)
    let other_on := if other_up then up_on d else down_on d in
    let d := if other_on then
               let d := relay_hi k d other_up false in upd_misc d (last_direction d) (now d) (clk d + REVERSE_PAUSE_US)
             else d in
    let t := if other_on then counter k d else t in
    (d, if (start_time d =? 0) && (0 <? stop_time d)
           && (u32 (t - stop_time d) / 1000 <? START_DELAY_MS)
        then u32 (START_DELAY_MS - u32 (t - stop_time d) / 1000 + 1) else 0).
(* (3) arm the delayed trigger, or switch *)
Definition sr_act (k : kcfg) (d : dev) (value delay_time : Z) : dev :=
  if DELAY_THRESHOLD_MS <? delay_time then
    let d := upd_relay d (up_on d) (down_on d) (start_time d) (stop_time d)
                       (Some (value, clk d + delay_time * 1000, button_req d)) (clk d) (outs d) in
    set_button_req d false
  else if value =? RELAY_UP then
    if (k_add_margin k =? 0) && (cur_pos d =? 0) then d
    else set_button_req (relay_hi k d true true) false
  else if value =? RELAY_DOWN then
    if (k_add_margin k =? 0) && (cur_pos d =? 100) then d
    else set_button_req (relay_hi k d false true) false
  else set_button_req (relay_hi k (relay_hi k d true false) false false) false.
Definition set_relay (k : kcfg) (d : dev) (value : Z) (cancel : bool) (stop_delay : bool) : dev :=
  let d := sr_abort d in
  let t := counter k d in
  let d := if cancel then cancel_task d else d in
  let d := disarm d in
  let dd := sr_delay k d value stop_delay t in
  sr_act k (fst dd) value (snd dd).

(* supla_esp_gpio_rs_set_relay_delayed: the delayed-trigger timer fires *)
Definition fire_delayed (k : kcfg) (d : dev) : dev :=
  match delayed d with
  | None => d
  | Some (v, due, req) =>
    let d := upd_misc d (last_direction d) (now d) (Z.max (clk d) due) in
    let d := upd_relay d (up_on d) (down_on d) (start_time d) (stop_time d) None (clk d) (outs d) in
    let d := if req then set_button_req d true else d in
    set_relay k d v false false
  end.

(* supla_esp_gpio_rs_add_task (position, tilt: sint8 arguments) *)
Definition add_task (k : kcfg) (d : dev) (position tilt_ : Z) : dev :=
  let position := if 100 <? position then 100 else position in
  let tilt_ := if 100 <? tilt_ then 100 else tilt_ in
  let cp := cur_pos d in let ct := cur_tilt k d in
  if ((cp =? position) || (position =? -1)) && (negb (tilt_sup k) || (ct =? tilt_) || (tilt_ =? -1)) then d else
  let position := if negb (tk_state d =? TASK_INACTIVE) && negb (tk_state d =? TASK_SETTING_TILT) && (position =? -1)
                  then tk_pos d else position in
  let tilt_ := if negb (tk_state d =? TASK_INACTIVE) && (tilt_ =? -1) then tk_tilt d else tilt_ in
  let '(position, tilt_) :=
    if k_tilt_type k =? TILT_ONLY_CLOSED then
      let position := if (position =? -1) && (0 <=? tilt_) then 100 else position in
      let tilt_ := if negb (position =? 100) && negb ((position =? -1) && (pos d =? 10100)) then 0 else tilt_ in
      (position, tilt_)
    else (position, tilt_) in
  upd_task d position tilt_ 0 TASK_ACTIVE.

(* supla_esp_gpio_rs_check_motor *)
Definition check_motor (k : kcfg) (d : dev) (move_up in_move : bool) : dev :=
  if u32 (counter k d - start_time d) <? AUTOCAL_FILTERING_MS * 1000 then d
  else if autocal_done d && negb in_move &&
          ((move_up && (5 <? cur_pos d)) || (negb move_up && (cur_pos d <? 95)))
       then fl_set d FLAG_MOTOR_PROBLEM else d.

(* supla_esp_gpio_rs_calibrate with its flag updates *)
Definition calibrate_d (o : fpops) (k : kcfg) (d : dev) (full_time time p : Z) : dev :=
  if negb (known (pos d)) && (0 <? full_time) then
    let d := fl_clear (fl_set d FLAG_CALIBRATION_IN_PROGRESS) FLAG_TILT_IS_SET in
    let '(p1, t1) := calibrate o (cfg_of k d) (pos d) (tilt d) full_time time p in
    upd_pt d p1 t1
  else d.

(* supla_esp_gpio_rs_move_position on the up_time / down_time carry *)
Definition move_position_d (o : fpops) (k : kcfg) (d : dev) (full_ms : Z) (up in_move : bool) : dev :=
  let time := if up then up_time d else down_time d in
  let m := move_position o (cfg_of k d) (pos d) (tilt d) time full_ms up in
  let d := upd_pt d (m_pos m) (m_tilt m) in
  let d := if up then upd_times d (m_time m) (down_time d) (last_time d) (last_comm d)
           else upd_times d (up_time d) (m_time m) (last_time d) (last_comm d) in
  if m_off m then
    let d := if autocal_done d && in_move then fl_set d FLAG_CALIBRATION_LOST else d in
    set_relay k d RELAY_OFF false false
  else d.

(* supla_esp_gpio_rs_time_margin *)
Definition time_margin (full_time time m : Z) : bool := (0 <? full_time) && (time / 10 / full_time <? m).

(* supla_esp_gpio_rs_start_autoCal *)
Definition start_autocal (k : kcfg) (d : dev) : dev :=
  set_relay k (upd_cal d 1 false true (detected d)) RELAY_UP false false.

(* supla_esp_gpio_rs_calibration_failed *)
Definition calibration_failed (k : kcfg) (d : dev) : dev :=
  let d := set_step d 0 in
  let d := upd_cfgt d (time1 d) (time2 d) 0 0 in
  let d := upd_pt d 0 0 in
  let d := fl_clear (fl_set d FLAG_CALIBRATION_FAILED) FLAG_CALIBRATION_IN_PROGRESS in
  set_relay k d RELAY_OFF true false.

(* supla_esp_gpio_rs_autocalibrate; the boolean result tells the caller to re-read the travel time.
   One function per step (state d already carries the CALIBRATION_IN_PROGRESS flag). *)
(* step 1: up until the sensor reports "not moving" *)
Definition ac_step1 (k : kcfg) (d : dev) (in_move : bool) : dev * bool :=
  if negb in_move then (set_relay k (set_button_req (set_step d 2) true) RELAY_DOWN false false, false)
  else if AUTOCAL_MAX_MS * 1000 <? up_time d then (calibration_failed k d, false) else (d, false).
(* step 2: down, measuring the closing time *)
Definition ac_step2_ok (k : kcfg) (d : dev) : dev :=
  set_relay k (set_button_req (upd_cfgt (set_step d 3) (time1 d) (time2 d) (aot d) (down_time d / 1000)) true) RELAY_UP false false.
Definition ac_step2 (k : kcfg) (d : dev) (in_move : bool) : dev * bool :=
  if negb in_move then
    if down_time d <? AUTOCAL_MIN_MS * 1000 then (calibration_failed k d, false) else (ac_step2_ok k d, true)
  else if AUTOCAL_MAX_MS * 1000 <? down_time d then (calibration_failed k d, false) else (d, false).
(* step 3: up, measuring the opening time; success: fully open, calibrated, motor off *)
Definition ac_done (k : kcfg) (d : dev) : dev :=
  let d1 := upd_pt (upd_cfgt (set_step d 0) (time1 d) (time2 d) (up_time d / 1000) (act d)) 100 (if tilt_sup k then 100 else 0) in
  fl_clear (if tilt_sup k then d1 else fl_clear d1 FLAG_TILT_IS_SET) FLAG_CALIBRATION_IN_PROGRESS.
Definition ac_step3 (k : kcfg) (d : dev) (in_move : bool) : dev * bool :=
  if negb in_move then
    if up_time d <? AUTOCAL_MIN_MS * 1000 then (calibration_failed k d, false)
    else (set_relay k (set_button_req (ac_done k d) true) RELAY_OFF false false, true)
  else if AUTOCAL_MAX_MS * 1000 <? up_time d then (calibration_failed k d, false) else (d, false).
Definition ac_steps (k : kcfg) (d : dev) (in_move : bool) : dev * bool :=
  if (up_time d <? AUTOCAL_FILTERING_MS * 1000) && (down_time d <? AUTOCAL_FILTERING_MS * 1000) then (d, false)
  else if ac_step d =? 1 then ac_step1 k d in_move
  else if ac_step d =? 2 then ac_step2 k d in_move
  else if ac_step d =? 3 then ac_step3 k d in_move
  else (d, false).
Definition autocalibrate (k : kcfg) (d : dev) (in_move : bool) : dev * bool :=
  if ac_step d =? 0 then (fl_clear d FLAG_CALIBRATION_IN_PROGRESS, false)
  else ac_steps k (fl_set d FLAG_CALIBRATION_IN_PROGRESS) in_move.

(* the double sub-expressions of the "change position while tilting" branch of task_processing *)
Definition fb_tilting_time (tct delta_tilt : Z) : Z :=
  f2Z (PrimFloat.div (PrimFloat.mul (PrimFloat.mul f_one (Z2f tct)) (Z2f delta_tilt)) f_10000).
Definition fb_after_pre_tilt (raw_position tilting_time full : Z) (down : bool) : Z :=
  let q := PrimFloat.div (PrimFloat.mul f_10000 (Z2f tilting_time)) (Z2f full) in
  f2Z (if down then PrimFloat.add (Z2f raw_position) q else PrimFloat.sub (Z2f raw_position) q).
Definition fb_corr_time (x tct : Z) : Z := u32 (f2Z (PrimFloat.mul (PrimFloat.mul f_one (Z2f x)) (Z2f tct))).

(* supla_esp_gpio_rs_task_processing, in stages *)
(* raw_position_after_pre_tilt, delta_pos_up, delta_pos_down *)
Definition tp_pre (k : kcfg) (d : dev) (fo fc raw_position raw_tilt task_position task_tilt : Z) : Z * Z * Z :=
  let ttype := k_tilt_type k in
  let tct := k_tilt_ms k in
  if (0 <=? task_tilt) && (ttype =? TILT_CHANGE_POSITION)
     && ((tk_state d =? TASK_SETTING_POSITION) || (negb (task_position =? -100) && negb (task_tilt =? -100))) then
    let down := raw_tilt <? task_tilt in
    let delta_tilt := if down then task_tilt - raw_tilt else raw_tilt - task_tilt in
    let tilting_time := fb_tilting_time tct delta_tilt in
    let after := fb_after_pre_tilt raw_position tilting_time (if down then fc else fo) down in
    let dpd0 := fb_corr_time (10000 - task_tilt) tct / fo in
    let dpd := if 10000 <? task_position + dpd0 then 10000 - task_position else dpd0 in
    let dpu0 := fb_corr_time task_tilt tct / fc in
    let dpu := if task_position <? dpu0 then task_position else dpu0 in
    (after, dpu, dpd)
  else (raw_position, 0, 0).
(* first step: start the movement towards the requested position *)
Definition tp_start (k : kcfg) (d : dev) (task_position after_pre_tilt : Z) : dev :=
  if tk_state d =? TASK_ACTIVE then
    let d := upd_task d (tk_pos d) (tk_tilt d) (tk_dir d) TASK_SETTING_POSITION in
    if negb (task_position =? -100) then
      if task_position <? after_pre_tilt then
        set_relay k (upd_task d (tk_pos d) (tk_tilt d) RELAY_UP (tk_state d)) RELAY_UP false false
      else if after_pre_tilt <? task_position then
        set_relay k (upd_task d (tk_pos d) (tk_tilt d) RELAY_DOWN (tk_state d)) RELAY_DOWN false false
      else d
    else d
  else d.
(* position reached or not needed: start tilting, or finish *)
Definition tp_tilt_start (k : kcfg) (d : dev) (raw_tilt task_tilt : Z) : dev :=
  if (tk_state d =? TASK_SETTING_POSITION) && (tk_dir d =? 0) then
    let d := upd_task d (tk_pos d) (tk_tilt d) (tk_dir d) TASK_SETTING_TILT in
    if (task_tilt <? raw_tilt) && negb (task_tilt =? -100) then
      set_relay k (upd_task d (tk_pos d) (tk_tilt d) RELAY_UP (tk_state d)) RELAY_UP false false
    else if (raw_tilt <? task_tilt) && negb (task_tilt =? -100) then
      set_relay k (upd_task d (tk_pos d) (tk_tilt d) RELAY_DOWN (tk_state d)) RELAY_DOWN false false
    else
      set_relay k (upd_task d (tk_pos d) (tk_tilt d) 0 TASK_INACTIVE) RELAY_OFF false false
  else d.
(* in the middle of positioning: requested position reached? *)
Definition tp_position (k : kcfg) (d : dev) (in_move : bool) (fo fc raw_position raw_tilt task_position delta_pos_up delta_pos_down : Z) : dev :=
  let ttype := k_tilt_type k in
  if (tk_state d =? TASK_SETTING_POSITION)
     && (((tk_dir d =? RELAY_UP) && (raw_position <=? task_position - delta_pos_up))
         || ((tk_dir d =? RELAY_DOWN) && (task_position + delta_pos_down <=? raw_position))) then
    let tm := if k_margin k <? DEFAULT_MARGIN
              then (if in_move && (k_margin k <? SENSOR_TASK_MARGIN) then SENSOR_TASK_MARGIN else k_margin k)
              else DEFAULT_TASK_MARGIN in
    if (raw_position =? 0) && time_margin fo (up_time d) tm then d
    else if (raw_position =? 10000)
            && ((ttype =? TILT_CHANGE_POSITION) || (ttype =? TILT_NOT_SUPPORTED) || (raw_tilt =? 10000))
            && time_margin fc (down_time d) tm then d
    else
      let d := if ((tk_pos d =? 0)
                   || ((tk_pos d =? 100) && ((ttype =? TILT_CHANGE_POSITION) || (ttype =? TILT_NOT_SUPPORTED) || (tk_tilt d =? 100))))
                  && autocal_done d && in_move
               then fl_set d FLAG_CALIBRATION_LOST else d in
      let d := upd_task d (tk_pos d) (tk_tilt d) 0 (tk_state d) in
      if negb (tilt_sup k) then set_relay k d RELAY_OFF false false else d
  else d.
(* tilting: requested tilt reached? *)
Definition tp_tilt (k : kcfg) (d : dev) (raw_tilt task_tilt : Z) : dev :=
  if (tk_state d =? TASK_SETTING_TILT)
     && (((tk_dir d =? RELAY_UP) && (raw_tilt <=? task_tilt)) || ((tk_dir d =? RELAY_DOWN) && (task_tilt <=? raw_tilt))) then
    set_relay k (upd_task d (tk_pos d) (tk_tilt d) 0 TASK_INACTIVE) RELAY_OFF false false
  else d.
Definition task_processing (k : kcfg) (d : dev) (in_move : bool) (fo fc : Z) : dev :=
  if (tk_state d =? TASK_INACTIVE) || (0 <? ac_step d) then d else
  if perform d then start_autocal k d else
  if negb (known (pos d)) then
    if negb (down_on d) && negb (up_on d) && (0 <? fo) && (0 <? fc) then
      if tk_pos d <? 50 then set_relay k d RELAY_UP false false else set_relay k d RELAY_DOWN false false
    else d
  else
  let raw_position := pos d - 100 in
  let raw_tilt := if tilt d - 100 <? 0 then 0 else tilt d - 100 in
  let task_position := tk_pos d * 100 in
  let task_tilt := tk_tilt d * 100 in
  let pre := tp_pre k d fo fc raw_position raw_tilt task_position task_tilt in
  let d := tp_start k d task_position (fst (fst pre)) in
  let d := tp_tilt_start k d raw_tilt task_tilt in
  let d := tp_position k d in_move fo fc raw_position raw_tilt task_position (snd (fst pre)) (snd pre) in
  tp_tilt k d raw_tilt task_tilt.

(* the 200 ms block: report + 10-minute rule *)
Definition report_block (k : kcfg) (d : dev) (t : Z) : dev :=
  if REPORT_PERIOD_US <=? u32 (t - last_comm d) then
    let d :=
      if negb (last_pos d =? pos d) || negb (last_flags d =? flags d) || negb (last_tilt d =? tilt d) then
        let f1 := flags d in
        let c := cfg_of k d in
        let f2 := if k_tilt_type k =? TILT_NOT_SUPPORTED then clear_flag f1 FLAG_TILT_IS_SET
                  else if is_tilt_set c (tilt d) then set_flag f1 FLAG_TILT_IS_SET else clear_flag f1 FLAG_TILT_IS_SET in
        let b1 := if k_tilt_type k =? TILT_NOT_SUPPORTED then 0 else s8_byte (current_tilt c (tilt d)) in
        upd_rep d f2 (pos d) (tilt d) f1
                (mk 1 [] [s8_byte (cur_pos d); b1; 0; f2 mod 256; f2 / 256; 0; 0; 0] :: outs d)
      else d in
    let d := if (TEN_MINUTES_US <? up_time d) || (TEN_MINUTES_US <? down_time d)
             then set_relay k d RELAY_OFF false false else d in
    upd_times d (up_time d) (down_time d) (last_time d) t
  else d.

(* supla_esp_gpio_rs_timer_cb in four stages; in_move = supla_esp_board_is_rs_in_move at this callback *)
(* (1) travel times in force; loss of the auto-calibration result *)
Definition cb_head (k : kcfg) (d : dev) : dev :=
  if autocal_enabled k d then
    if (aot d =? 0) && (act d =? 0) then fl_clear (upd_pt d 0 0) FLAG_TILT_IS_SET else d
  else
    if negb (act d =? 0) || negb (aot d =? 0) || negb (ac_step d =? 0)
    then set_step (fl_clear (upd_pt (upd_cfgt d (time1 d) (time2 d) 0 0) 0 0) FLAG_TILT_IS_SET) 0 else d.
Definition cb_fo (k : kcfg) (d : dev) : Z := if autocal_enabled k d then aot d else time1 d.
Definition cb_fc (k : kcfg) (d : dev) : Z := if autocal_enabled k d then act d else time2 d.
(* (2) power-consumption detection: while none is seen in the first 2 s the elapsed time is not counted *)
Definition cb_power (k : kcfg) (d : dev) (in_move ae : bool) (t : Z) : dev :=
  if up_on d || down_on d then
    if ae then
      let det := if detected d then true else in_move in
      let d := upd_cal d (ac_step d) (perform d) (button_req d) det in
      if negb det && (u32 (t - start_time d) <? POWER_DETECT_US)
      then upd_times d (up_time d) (down_time d) t (last_comm d) else d
    else d
  else upd_cal d (ac_step d) (perform d) (button_req d) false.
(* (3) accounting of the elapsed time; returns the travel times for the task processing.
   Written as a pipeline of small functions (one direction at a time) to keep the proofs small. *)
Definition carry_of (up : bool) (d : dev) : Z := if up then up_time d else down_time d.
Definition end_stop (up : bool) : Z := if up then 100 else 10100.
(* up_time += elapsed / down_time = 0 (or the other way round) *)
Definition acc_add (d : dev) (up : bool) (el : Z) : dev :=
  if up then upd_times d (u32 (up_time d + el)) 0 (last_time d) (last_comm d)
  else upd_times d 0 (u32 (down_time d + el)) (last_time d) (last_comm d).
Definition acc_cm (k : kcfg) (d : dev) (up im : bool) : dev :=
  if 0 <? carry_of up d then check_motor k d up im else d.
Definition acc_pre (k : kcfg) (d : dev) (up im : bool) (el : Z) : dev * bool :=
  autocalibrate k (acc_cm k (acc_add d up el) up im) im.
(* the travel time used by calibrate / move_position: re-read after a finished auto-calibration step *)
Definition acc_full (p : dev * bool) (up : bool) (f : Z) : Z :=
  if snd p then (if up then aot (fst p) else act (fst p)) else f.
Definition acc_post (o : fpops) (k : kcfg) (p : dev * bool) (up im : bool) (f : Z) : dev :=
  move_position_d o k (calibrate_d o k (fst p) (acc_full p up f) (carry_of up (fst p)) (end_stop up)) (acc_full p up f) up im.
Definition cb_account (o : fpops) (k : kcfg) (d : dev) (in_move : bool) (t fo fc : Z) : dev * Z * Z :=
  if up_on d then
    (acc_post o k (acc_pre k d true in_move (u32 (t - last_time d))) true in_move fo,
     acc_full (acc_pre k d true in_move (u32 (t - last_time d))) true fo, fc)
  else if down_on d then
    (acc_post o k (acc_pre k d false in_move (u32 (t - last_time d))) false in_move fc,
     fo, acc_full (acc_pre k d false in_move (u32 (t - last_time d))) false fc)
  else
    (upd_times (if ac_step d =? 0 then fl_clear d FLAG_CALIBRATION_IN_PROGRESS else d) 0 0 (last_time d) (last_comm d), fo, fc).
(* (4) supla_esp_gpio_rs_check_if_autocal_is_needed, task processing, report block, last_time = t *)
Definition cb_need (k : kcfg) (d : dev) : dev :=
  if autocal_enabled k d && negb (autocal_done d) && (ac_step d =? 0)
  then upd_cal d (ac_step d) true (button_req d) (detected d) else d.
Definition stamp_last (d : dev) (t : Z) : dev := upd_times d (up_time d) (down_time d) t (last_comm d).
Definition cb_tail (k : kcfg) (d : dev) (in_move : bool) (t fo fc : Z) : dev :=
  stamp_last (report_block k (task_processing k (cb_need k d) in_move fo fc) t) t.
(* stages 1-3 *)
Definition cb_mid (o : fpops) (k : kcfg) (d : dev) (in_move : bool) : dev * Z * Z :=
  cb_account o k (cb_power k (cb_head k d) in_move (autocal_enabled k d) (counter k d)) in_move (counter k d) (cb_fo k d) (cb_fc k d).
Definition timer_cb (o : fpops) (k : kcfg) (d : dev) (in_move : bool) : dev :=
  cb_tail k (fst (fst (cb_mid o k d in_move))) in_move (counter k d) (snd (fst (cb_mid o k d in_move))) (snd (cb_mid o k d in_move)).

(* supla_esp_gpio_rs_apply_new__times (save flag irrelevant here) *)
Definition apply_new_times (k : kcfg) (d : dev) (ct ot : Z) : dev :=
  let reset :=
    if k_autocal_flag k then
      if negb (ct =? 0) || negb (ot =? 0) then
        if autocal_enabled k d then true else negb (ct =? time2 d) || negb (ot =? time1 d)
      else negb (autocal_enabled k d)
    else negb (ct =? time2 d) || negb (ot =? time1 d) in
  let d := if reset then fl_clear (upd_pt (upd_cfgt d ot ct 0 0) 0 0) FLAG_TILT_IS_SET else d in
  if perform d && ((0 <? time1 d) || (0 <? time2 d)) then upd_cal d (ac_step d) false (button_req d) (detected d) else d.

(* the recalibrate branches of supla_esp_calcfg_request (authorised request for this channel) *)
Definition recalibrate (k : kcfg) (d : dev) (with_times : bool) (ct ot : Z) : dev :=
  if negb (k_recal_flag k) then d else
  let d := set_step d 0 in
  let d := upd_cfgt d (time1 d) (time2 d) 0 0 in
  let d := upd_pt d 0 0 in
  let d := if with_times && (k_tilt_type k =? 0) then apply_new_times k d ct ot else d in
  add_task k d 0 0.

(* the motor sensor read by the callback: 0 = reports no movement, 1 = reports movement, 2 = the harness board's
   "plausible motor" (moves from k_mot_start ms after the output rose for k_mot_up / k_mot_down ms).  Lists of 0/1
   describe every sensor function; mode 2 exists for the closed-loop scenarios of the correspondence check. *)
Definition sensor (k : kcfg) (d : dev) (sm : Z) : bool :=
  if sm =? 0 then false else if sm =? 1 then true else
  let e := u32 (counter k d - start_time d) in
  if e <? u32 (k_mot_start k * 1000) then false
  else if up_on d && (u32 ((k_mot_up k + k_mot_start k) * 1000) <=? e) then false
  else if down_on d && (u32 ((k_mot_down k + k_mot_start k) * 1000) <=? e) then false
  else 0 <? e.

(* ---------- events ---------- *)
Inductive ev :=
| Cb (dt : Z) (sm : Z)                    (* timer callback dt us after the previous one; delayed trigger fires first when due *)
| Task (p t : Z)                          (* supla_esp_gpio_rs_add_task *)
| Relay (v : Z) (cancel stop_delay : bool)(* supla_esp_gpio_rs_set_relay from a button / server / MQTT command *)
| Recal (with_times : bool) (ct ot : Z).  (* authorised CALCFG recalibrate request *)

Definition begin_event (d : dev) : dev := upd_relay d (up_on d) (down_on d) (start_time d) (stop_time d) (delayed d) (now d) [].
Definition set_clock (d : dev) (t : Z) : dev := upd_misc d (last_direction d) t t.
(* the delayed-trigger timer fires when it is due at or before the callback *)
Definition fire_if_due (k : kcfg) (d : dev) (target : Z) : dev :=
  match delayed d with
  | Some (_, due, _) => if due <=? target then fire_delayed k d else d
  | None => d
  end.
(* the state in which the timer callback starts, dt microseconds after the previous event *)
Definition cb_entry (k : kcfg) (d : dev) (dt : Z) : dev :=
  set_clock (fire_if_due k (begin_event d) (now d + dt)) (now d + dt).

Definition step (o : fpops) (k : kcfg) (d : dev) (e : ev) : dev :=
  match e with
  | Cb dt sm => set_clock (timer_cb o k (cb_entry k d dt) (sensor k (cb_entry k d dt) sm)) (now d + dt)
  | Task p t => add_task k (begin_event d) p t
  | Relay v c sd => set_clock (set_relay k (begin_event d) v c sd) (now d)
  | Recal w ct ot => recalibrate k (begin_event d) w ct ot
  end.

Fixpoint run (o : fpops) (k : kcfg) (d : dev) (evs : list ev) : dev :=
  match evs with [] => d | e :: r => run o k (step o k d e) r end.

(* state after supla_esp_gpio_init (all of supla_rs_cfg zeroed, stop_time = init time) *)
Definition init (k : kcfg) (p0 t0 t1_ t2_ aot_ act_ init_now now0 : Z) : dev :=
  {| pos := p0; tilt := if tilt_sup k then t0 else -1; up_time := 0; down_time := 0; last_time := 0; last_comm := 0;
     up_on := false; down_on := false; start_time := 0; stop_time := u32 (k_boot k + init_now); delayed := None;
     tk_pos := 0; tk_tilt := 0; tk_dir := 0; tk_state := TASK_INACTIVE;
     ac_step := 0; perform := false; button_req := false; detected := false;
     time1 := t1_; time2 := t2_; aot := aot_; act := act_;
     flags := 0; last_pos := 0; last_tilt := 0; last_flags := 0; last_direction := 0;
     now := now0; clk := now0; outs := [] |}.

(* ---------- wire interface ---------- *)
(* inputs : 0 CFG boot tilt_ms tilt_type margin autocal_flag recal_flag pos0 tilt0 time1 time2 aot act init_now now0 mot_up mot_down mot_start
            1 CB dt sensor_mode | 2 TASK p t | 3 RELAY v cancel stop_delay | 4 RECAL with_times ct ot
   outputs (per event, in order of occurrence): 2 GPIO t which level | 1 REPORT : bytes |
            0 ST pos tilt up_time down_time up_on down_on start_time stop_time delayed? task_state task_dir task_pos task_tilt
                 step perform button_req detected flags time1 time2 aot act        (after every event) *)
Definition b2z (b : bool) : Z := if b then 1 else 0.
Definition st_line (d : dev) : wire :=
  mk 0 [pos d; tilt d; up_time d; down_time d; b2z (up_on d); b2z (down_on d); start_time d; stop_time d;
        match delayed d with Some _ => 1 | None => 0 end;
        tk_state d; tk_dir d; tk_pos d; tk_tilt d; ac_step d; b2z (perform d); b2z (button_req d); b2z (detected d);
        flags d; time1 d; time2 d; aot d; act d] [].

Definition kcfg_of_margin (boot tilt_ms ttype m : Z) (af rf : bool) (mu md ms : Z) : kcfg :=
  {| k_boot := boot; k_tilt_ms := tilt_ms; k_tilt_type := ttype; k_margin := set_time_margin m; k_add_margin := m;
     k_autocal_flag := af; k_recal_flag := rf; k_mot_up := mu; k_mot_down := md; k_mot_start := ms |}.

Definition ev_of_wire (w : wire) : ev :=
  match w with (kd, a, _) =>
    if kd =? 1 then Cb (nth0 a 0) (nth0 a 1)
    else if kd =? 2 then Task (nth0 a 0) (nth0 a 1)
    else if kd =? 3 then Relay (nth0 a 0) (negb (nth0 a 1 =? 0)) (negb (nth0 a 2 =? 0))
    else Recal (negb (nth0 a 0 =? 0)) (nth0 a 1) (nth0 a 2)
  end.

Fixpoint run_wire_from (o : fpops) (k : kcfg) (d : dev) (ws : list wire) : list wire :=
  match ws with
  | [] => []
  | (kd, a, b) :: rest =>
    if kd =? 0 then
      let k' := kcfg_of_margin (nth0 a 0) (nth0 a 1) (nth0 a 2) (nth0 a 3) (negb (nth0 a 4 =? 0)) (negb (nth0 a 5 =? 0)) (nth0 a 14) (nth0 a 15) (nth0 a 16) in
      run_wire_from o k' (init k' (nth0 a 6) (nth0 a 7) (nth0 a 8) (nth0 a 9) (nth0 a 10) (nth0 a 11) (nth0 a 12) (nth0 a 13)) rest
    else
      let d' := step o k d (ev_of_wire (kd, a, b)) in
      rev (outs d') ++ st_line d' :: run_wire_from o k d' rest
  end.

Definition k0 : kcfg := kcfg_of_margin 1 0 0 (-1) false false 0 0 0.
Definition main_wire (ws : list wire) : list wire := run_wire_from fops k0 (init k0 0 0 0 0 0 0 0 0) ws.
