(* C10 — how an auto-calibration ends (supla_esp_gpio_rs_autocalibrate, supla_esp_gpio_rs_calibration_failed).
   Separate from C10/Proofs.v; depends only on the sub-step lemmas (C10/Frame.v) and the field equations (C10/Fields.v). *)
From Coq Require Import List ZArith Bool Lia.
Import ListNotations.
From V Require Import Base.U32 Base.Iface Gen.RsConsts C09.Model C09.Proofs C10.Model C10.Frame C10.Fields.
Local Open Scope Z_scope.
Notation pos := C10.Model.pos.
Notation tilt := C10.Model.tilt.
Notation up_time := C10.Model.up_time.
Notation down_time := C10.Model.down_time.
Notation flags := C10.Model.flags.

Record keeps (d d' : dev) : Prop := {
  kp_pos : pos d' = pos d; kp_tilt : tilt d' = tilt d; kp_flags : flags d' = flags d;
  kp_aot : aot d' = aot d; kp_act : act d' = act d; kp_t1 : time1 d' = time1 d; kp_t2 : time2 d' = time2 d;
  kp_step : ac_step d' = ac_step d; kp_ut : up_time d' = up_time d; kp_dt : down_time d' = down_time d }.
Lemma keeps_refl d : keeps d d. Proof. constructor; reflexivity. Qed.
Lemma keeps_trans a b c : keeps a b -> keeps b c -> keeps a c.
Proof. intros [] []. constructor; congruence. Qed.

Lemma relay_hi_keeps k d u hi : keeps d (relay_hi k d u hi).
Proof. unfold relay_hi. destruct (negb (if u then hi else up_on d) && negb (if u then down_on d else hi)); constructor; frw; reflexivity. Qed.
Lemma relay_hi_task k d u hi : tk_state (relay_hi k d u hi) = tk_state d /\ button_req (relay_hi k d u hi) = button_req d.
Proof. unfold relay_hi. destruct (negb (if u then hi else up_on d) && negb (if u then down_on d else hi)); frw; auto. Qed.

(* switching off at once, from the auto-calibration itself (button request set) or with no auto-calibration running *)
Lemma set_relay_off_state k d c d' :
  button_req d = true \/ ac_step d = 0 -> d' = set_relay k d RELAY_OFF c false ->
  up_on d' = false /\ down_on d' = false /\ keeps d d' /\ (c = true -> tk_state d' = TASK_INACTIVE).
Proof.
  intros H E'. unfold set_relay in E'.
  assert (Ea : sr_abort d = d).
  { unfold sr_abort. destruct H as [H|H]; rewrite H; [reflexivity|rewrite andb_false_r; reflexivity]. }
  rewrite Ea in E'.
  unfold sr_delay in E'. rewrite Z.eqb_refl in E'. cbn [fst snd andb] in E'.
  unfold sr_act in E'. replace (DELAY_THRESHOLD_MS <? 0) with false in E' by reflexivity.
  replace (RELAY_OFF =? RELAY_UP) with false in E' by reflexivity. replace (RELAY_OFF =? RELAY_DOWN) with false in E' by reflexivity.
  remember (disarm (if c then cancel_task d else d)) as d1 eqn:E1.
  assert (K1 : keeps d d1 /\ (c = true -> tk_state d1 = TASK_INACTIVE)).
  { subst d1. destruct c; split; try (constructor; frw; reflexivity); try discriminate; intros _; frw; reflexivity. }
  destruct K1 as [K1 T1]. clear E1.
  destruct (relay_hi_pins k d1 true false) as [P1u P1d]. pose proof (relay_hi_keeps k d1 true false) as K2.
  destruct (relay_hi_task k d1 true false) as [T2 _].
  remember (relay_hi k d1 true false) as d2 eqn:E2. clear E2.
  destruct (relay_hi_pins k d2 false false) as [P2u P2d]. pose proof (relay_hi_keeps k d2 false false) as K3.
  destruct (relay_hi_task k d2 false false) as [T3 _].
  remember (relay_hi k d2 false false) as d3 eqn:E3. clear E3.
  subst d'. frw.
  split; [congruence|]. split; [exact P2d|].
  split.
  - eapply keeps_trans; [exact K1|]. eapply keeps_trans; [exact K2|]. eapply keeps_trans; [exact K3|]. constructor; frw; reflexivity.
  - intros C. rewrite T3, T2. exact (T1 C).
Qed.

(* a switch requested by the auto-calibration itself keeps the step counter *)
Lemma set_relay_keeps_step k y v :
  button_req y = true -> ac_step (set_relay k y v false false) = ac_step y.
Proof.
  intros Hb.
  assert (Ea : sr_abort y = y) by (unfold sr_abort; rewrite Hb; reflexivity).
  unfold set_relay. rewrite Ea.
  remember (sr_delay k (disarm y) v false (counter k y)) as dd eqn:Ed.
  assert (Sd : ac_step (fst dd) = ac_step y).
  { subst dd. unfold sr_delay. destruct (v =? RELAY_OFF); cbn [fst]; [frw; reflexivity|].
    match goal with |- context[if ?c then _ else _] => destruct c end; frw.
    - rewrite (kp_step _ _ (relay_hi_keeps k _ _ _)). frw. reflexivity.
    - reflexivity. }
  clear Ed. unfold sr_act.
  destruct (DELAY_THRESHOLD_MS <? snd dd); [frw; exact Sd|].
  destruct (v =? RELAY_UP); [destruct ((k_add_margin k =? 0) && (cur_pos (fst dd) =? 0)); [exact Sd|frw; rewrite (kp_step _ _ (relay_hi_keeps k _ _ _)); exact Sd]|].
  destruct (v =? RELAY_DOWN); [destruct ((k_add_margin k =? 0) && (cur_pos (fst dd) =? 100)); [exact Sd|frw; rewrite (kp_step _ _ (relay_hi_keeps k _ _ _)); exact Sd]|].
  frw. rewrite (kp_step _ _ (relay_hi_keeps k _ _ _)), (kp_step _ _ (relay_hi_keeps k _ _ _)). exact Sd.
Qed.

Lemma land_lor_same a b : Z.land (Z.lor a b) b = b.
Proof. apply Z.bits_inj'. intros n Hn. rewrite Z.land_spec, Z.lor_spec. destruct (Z.testbit a n), (Z.testbit b n); reflexivity. Qed.

Definition failed_outcome (d' : dev) : Prop :=
  Z.land (flags d') FLAG_CALIBRATION_FAILED = FLAG_CALIBRATION_FAILED /\ aot d' = 0 /\ act d' = 0 /\ pos d' = 0 /\ tilt d' = 0 /\
  ac_step d' = 0 /\ tk_state d' = TASK_INACTIVE /\ up_on d' = false /\ down_on d' = false.

Lemma calibration_failed_state k x d' : d' = calibration_failed k x -> failed_outcome d'.
Proof.
  intros Ex. unfold calibration_failed in Ex.
  remember (fl_clear (fl_set (upd_pt (upd_cfgt (set_step x 0) (time1 (set_step x 0)) (time2 (set_step x 0)) 0 0) 0 0) FLAG_CALIBRATION_FAILED) FLAG_CALIBRATION_IN_PROGRESS) as y eqn:Ey.
  assert (Fy : ac_step y = 0 /\ aot y = 0 /\ act y = 0 /\ pos y = 0 /\ tilt y = 0 /\
               flags y = clear_flag (set_flag (flags x) FLAG_CALIBRATION_FAILED) FLAG_CALIBRATION_IN_PROGRESS).
  { subst y. frw. repeat split; reflexivity. }
  clear Ey. destruct Fy as (Y1 & Y2 & Y3 & Y4 & Y5 & Y6).
  destruct (set_relay_off_state k y true d' (or_intror Y1) Ex) as (U & D & K & T).
  unfold failed_outcome.
  rewrite (kp_flags _ _ K), (kp_aot _ _ K), (kp_act _ _ K), (kp_pos _ _ K), (kp_tilt _ _ K), (kp_step _ _ K), Y6.
  repeat split; auto.
  unfold clear_flag, set_flag. rewrite <- Z.land_assoc.
  replace (Z.land (65535 - FLAG_CALIBRATION_IN_PROGRESS) FLAG_CALIBRATION_FAILED) with FLAG_CALIBRATION_FAILED by reflexivity.
  apply land_lor_same.
Qed.

Lemma fst_pair {A B : Type} (a : A) (b : B) : fst (a, b) = a. Proof. reflexivity. Qed.

Lemma ac_step1_next_step k d : ac_step (set_relay k (set_button_req (set_step d 2) true) RELAY_DOWN false false) = 2.
Proof. rewrite set_relay_keeps_step by (frw; reflexivity). frw. reflexivity. Qed.
Lemma ac_step2_ok_step k d : ac_step (ac_step2_ok k d) = 3.
Proof. unfold ac_step2_ok. rewrite set_relay_keeps_step by (frw; reflexivity). frw. reflexivity. Qed.

Lemma ac_step1_outcome k d im d' :
  d' = fst (ac_step1 k d im) -> ac_step d <> 0 -> ac_step d' = 0 -> failed_outcome d'.
Proof.
  intros E' Hs Z0. unfold ac_step1 in E'.
  destruct (negb im); rewrite ?fst_pair in E'.
  - exfalso. rewrite E', ac_step1_next_step in Z0. discriminate.
  - destruct (AUTOCAL_MAX_MS * 1000 <? up_time d); rewrite ?fst_pair in E'; [exact (calibration_failed_state k d d' E')|congruence].
Qed.
Lemma ac_step2_outcome k d im d' :
  d' = fst (ac_step2 k d im) -> ac_step d <> 0 -> ac_step d' = 0 -> failed_outcome d'.
Proof.
  intros E' Hs Z0. unfold ac_step2 in E'.
  destruct (negb im).
  - destruct (down_time d <? AUTOCAL_MIN_MS * 1000); rewrite ?fst_pair in E'; [exact (calibration_failed_state k d d' E')|].
    exfalso. rewrite E', ac_step2_ok_step in Z0. discriminate.
  - destruct (AUTOCAL_MAX_MS * 1000 <? down_time d); rewrite ?fst_pair in E'; [exact (calibration_failed_state k d d' E')|congruence].
Qed.
Lemma ac_step3_outcome k d im d' :
  d' = fst (ac_step3 k d im) -> ac_step d <> 0 -> ac_step d' = 0 ->
  (im = false /\ AUTOCAL_MIN_MS * 1000 <= up_time d /\ aot d' = up_time d / 1000 /\ act d' = act d /\ pos d' = 100 /\
   up_on d' = false /\ down_on d' = false) \/ failed_outcome d'.
Proof.
  intros E' Hs Z0. unfold ac_step3 in E'.
  destruct im; cbn [negb] in E'.
  - right. destruct (AUTOCAL_MAX_MS * 1000 <? up_time d); rewrite ?fst_pair in E'; [exact (calibration_failed_state k d d' E')|congruence].
  - destruct (up_time d <? AUTOCAL_MIN_MS * 1000) eqn:Tm; rewrite ?fst_pair in E'; [right; exact (calibration_failed_state k d d' E')|].
    apply Z.ltb_ge in Tm. left.
    remember (set_button_req (ac_done k d) true) as y eqn:Ey.
    assert (Fy : button_req y = true /\ aot y = up_time d / 1000 /\ act y = act d /\ pos y = 100).
    { subst y. unfold ac_done. destruct (tilt_sup k); frw; auto. }
    clear Ey. destruct Fy as (Y1 & Y2 & Y3 & Y4).
    destruct (set_relay_off_state k y false d' (or_introl Y1) E') as (U & D & K & _).
    rewrite (kp_aot _ _ K), (kp_act _ _ K), (kp_pos _ _ K), Y2, Y3, Y4.
    repeat split; auto.
Qed.

(* How an auto-calibration ends inside supla_esp_gpio_rs_autocalibrate: if the step counter is back at 0 afterwards, then
   either (success) it was step 3, the sensor reported "not moving", the measured opening time (>= 500 ms) is stored,
   the closing time measured in step 2 is kept, the position is "fully open" and both outputs are off;
   or (failure) the failure flag is set, both measured times and the position are cleared, the task is cancelled and both
   outputs are off. *)
Theorem C10_autocal_outcome_thm k d im d' :
  0 < ac_step d -> d' = fst (autocalibrate k d im) -> ac_step d' = 0 ->
  (ac_step d = 3 /\ im = false /\ AUTOCAL_MIN_MS * 1000 <= up_time d /\ aot d' = up_time d / 1000 /\ act d' = act d /\
   pos d' = 100 /\ up_on d' = false /\ down_on d' = false)
  \/ failed_outcome d'.
Proof.
  intros Hs E' Z0. unfold autocalibrate in E'.
  replace (ac_step d =? 0) with false in E' by (symmetry; apply Z.eqb_neq; lia).
  remember (fl_set d FLAG_CALIBRATION_IN_PROGRESS) as d1 eqn:E1.
  assert (F1 : ac_step d1 = ac_step d /\ up_time d1 = up_time d /\ act d1 = act d) by (subst d1; frw; auto).
  destruct F1 as (S1 & U1 & A1). clear E1.
  unfold ac_steps in E'.
  destruct ((up_time d1 <? AUTOCAL_FILTERING_MS * 1000) && (down_time d1 <? AUTOCAL_FILTERING_MS * 1000)).
  { exfalso. rewrite ?fst_pair in E'. rewrite E' in Z0. lia. }
  destruct (ac_step d1 =? 1) eqn:T1; [right; apply (ac_step1_outcome k d1 im d' E'); [lia|exact Z0]|].
  destruct (ac_step d1 =? 2) eqn:T2; [right; apply (ac_step2_outcome k d1 im d' E'); [lia|exact Z0]|].
  destruct (ac_step d1 =? 3) eqn:T3; [|exfalso; rewrite ?fst_pair in E'; rewrite E' in Z0; lia].
  apply Z.eqb_eq in T3.
  destruct (ac_step3_outcome k d1 im d' E' ltac:(lia) Z0) as [(A & B & C & D & E & F & G)|Fl]; [left|right; exact Fl].
  rewrite U1 in B, C. rewrite A1 in D. repeat split; auto; lia.
Qed.
