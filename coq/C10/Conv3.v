(* C10 — convergence, part 3: one callback while the motor runs towards the target. *)
From Coq Require Import List ZArith Bool Lia.
Import ListNotations.
From V Require Import Base.U32 Base.Iface Gen.RsConsts C09.Model C09.Proofs C10.Model C10.Frame C10.Fields C10.Proofs C10.Autocal C10.Calibrated C10.Conv1 C10.Conv2.
Local Open Scope Z_scope.
Notation pos := C10.Model.pos.
Notation tilt := C10.Model.tilt.
Notation up_time := C10.Model.up_time.
Notation down_time := C10.Model.down_time.
Notation last_time := C10.Model.last_time.
Notation last_comm := C10.Model.last_comm.
Notation now := C10.Model.now.
Notation flags := C10.Model.flags.

Section MovingCallback.
Variable o : fpops.
Hypothesis OK : fp_ok o.

(* the motor runs towards the target of a positioning task *)
Record mv (up : bool) (d : dev) : Prop := {
  mv_cal : cal up d; mv_st : tk_state d = TASK_SETTING_POSITION; mv_dir : tk_dir d = dirz up; mv_tt : tk_tilt d = -1; mv_tp : 0 <= tk_pos d <= 100;
  mv_del : delayed d = None }.

Lemma end_wait_at_end k d im fo fc : end_wait k d im fo fc = true -> pos d - 100 = 0 \/ pos d - 100 = 10000.
Proof.
  unfold end_wait. intros H. apply orb_true_iff in H. destruct H as [H|H]; apply andb_true_iff in H; destruct H as [H _]; apply Z.eqb_eq in H; auto.
Qed.

Lemma cb_entry_nodelay k d dt : delayed d = None -> cb_entry k d dt = set_clock (begin_event d) (now d + dt).
Proof. intros H. unfold cb_entry, fire_if_due. unfold begin_event at 1. frw. rewrite H. reflexivity. Qed.

Theorem moving_core up k e im t el d' :
  rsk k -> k_autocal_flag k = false -> mv up e -> clk e = t -> u32 (counter k e - last_time e) = el ->
  0 <= carry_of up e -> 0 <= el -> carry_of up e + el < 4294967296 -> carry_of up e + el <= TEN_MINUTES_US ->
  0 < full_k up e * 1000 < 4294967296 ->
  d' = set_clock (C10.Model.timer_cb o k e im) t ->
  let m := move_position o (cfg_of k e) (pos e) (tilt e) (carry_of up e + el) (full_k up e) up in
  let tp := tk_pos e * 100 in
  (pos d' = m_pos m /\ known (pos d') = true /\ tilt d' = tilt e /\ carry_of up d' = m_time m /\ last_time d' = counter k e /\ now d' = t /\
   tk_pos d' = tk_pos e /\ tk_tilt d' = -1 /\ tk_state d' = TASK_SETTING_POSITION /\
   aot d' = 0 /\ act d' = 0 /\ ac_step d' = 0 /\ perform d' = false /\ time1 d' = time1 e /\ time2 d' = time2 e /\ delayed d' = None) /\
  ((m_off m = false /\ only up d' /\ tk_dir d' = dirz up /\
    (beyond up (pos d' - 100) tp \/ (reached up (pos d' - 100) tp /\ (pos d' - 100 = 0 \/ pos d' - 100 = 10000))))
   \/ (up_on d' = false /\ down_on d' = false /\ (tk_dir d' = 0 \/ tk_dir d' = dirz up) /\ reached up (pos d' - 100) tp)).
Proof.
  intros R NF M Cke Eel Hc Hdt Hsum Hten HT E'. cbv zeta.
  pose proof (mv_cal _ _ M) as Ce.
  pose proof (cal_not_enabled up k e Ce) as NE.
  (* stages 1-3 *)
  rewrite timer_cb_eq in E'.
  rewrite (cb_head_id k e NE (cal_step _ _ Ce) (cal_aot _ _ Ce) (cal_act _ _ Ce)), NE, (cb_power_id up k e im (counter k e) (cal_only _ _ Ce)) in E'.
  pose proof (cb_account_only o up k e im (counter k e) (cb_fo k e) (cb_fc k e) (cal_only _ _ Ce)) as E3. rewrite Eel in E3.
  assert (Ef : (if up then cb_fo k e else cb_fc k e) = full_k up e) by (unfold cb_fo, cb_fc, full_k; rewrite NE; reflexivity).
  rewrite Ef in E3.
  remember (snd (fst (cb_account o k e im (counter k e) (cb_fo k e) (cb_fc k e)))) as fo' eqn:Efo. clear Efo.
  remember (snd (cb_account o k e im (counter k e) (cb_fo k e) (cb_fc k e))) as fc' eqn:Efc. clear Efc.
  remember (fst (fst (cb_account o k e im (counter k e) (cb_fo k e) (cb_fc k e)))) as d3 eqn:Ed3. clear Ed3.
  pose proof (cal_account2 o OK up k e im el d3 R Ce Hdt ltac:(lia) ltac:(lia) HT E3) as A.
  cbv zeta in A.
  remember (move_position o (cfg_of k e) (pos e) (tilt e) (carry_of up e + el) (full_k up e) up) as m eqn:Em.
  assert (Mle : 0 <= m_time m <= carry_of up e + el).
  { subst m. assert (W : wf_cfg (cfg_of k e)) by (exact (rsk_wfk k R)).
    assert (Pk : pos_ok (pos e)) by (right; apply known_true; exact (cal_known _ _ Ce)).
    assert (Tk : tilt_ok (tilt e)) by (destruct (cal_tilt _ _ Ce) as [T|T]; rewrite T; [left|right; left]; reflexivity).
    destruct (move_position_spec o OK (cfg_of k e) (pos e) (tilt e) (carry_of up e + el) (full_k up e) up W Pk Tk ltac:(lia)) as (_ & _ & M3 & _). exact M3. }
  assert (Mend : m_off m = true -> m_pos m = end_stop up).
  { intros Ho. subst m.
    rewrite (move_position_rs_off o OK (cfg_of k e) (pos e) (tilt e) (carry_of up e + el) (full_k up e) up (rsk_cfg k e R) (cal_known _ _ Ce) (cal_tilt _ _ Ce) HT) in Ho.
    apply andb_true_iff in Ho. destruct Ho as [Ho _]. apply Z.eqb_eq in Ho. exact Ho. }
  clear Em.
  destruct A as (P3 & T3 & Cy3 & Kn3 & K33 & A3 & B3 & T13 & T23 & St3 & Pf3 & Lc3 & Nw3 & Cn3 & Aoff & Aon).
  (* stage 4: the task *)
  unfold cb_tail in E'.
  rewrite (cb_need_id k d3) in E' by (apply noflag_not_enabled; exact NF).
  assert (RT3 : rs_task d3).
  { constructor; [rewrite P3; exact Kn3|exact St3|rewrite Pf3; exact (cal_perf _ _ Ce)|
                  rewrite T3; exact (cal_tilt _ _ Ce)|rewrite (k3_tilt _ _ K33); exact (mv_tt _ _ M)]. }
  assert (A30 : aot d3 = 0) by (rewrite A3; exact (cal_aot _ _ Ce)).
  assert (S3 : tk_state d3 = TASK_SETTING_POSITION) by (rewrite (k3_state _ _ K33); exact (mv_st _ _ M)).
  assert (D3 : tk_dir d3 = dirz up) by (rewrite (k3_dir _ _ K33); exact (mv_dir _ _ M)).
  assert (TP3 : tk_pos d3 = tk_pos e) by (exact (k3_pos _ _ K33)).
  destruct (tp_moving k d3 im fo' fc' up R RT3 A30 S3 D3) as (TPb & TPr).
  assert (Cases :
    exists d4, task_processing k d3 im fo' fc' = d4 /\ keeps2 d3 d4 /\ tk_pos d4 = tk_pos d3 /\ tk_tilt d4 = tk_tilt d3 /\ tk_state d4 = TASK_SETTING_POSITION /\
               up_time d4 = up_time d3 /\ down_time d4 = down_time d3 /\ now d4 = now d3 /\
      ((d4 = d3 /\ (beyond up (pos d3 - 100) (tk_pos d3 * 100) \/ (reached up (pos d3 - 100) (tk_pos d3 * 100) /\ (pos d3 - 100 = 0 \/ pos d3 - 100 = 10000))))
       \/ (up_on d4 = false /\ down_on d4 = false /\ delayed d4 = None /\ tk_dir d4 = 0 /\ reached up (pos d3 - 100) (tk_pos d3 * 100)))).
  { destruct (reached_or_beyond up (pos d3 - 100) (tk_pos d3 * 100)) as [Hr|Hb].
    - rewrite (TPr Hr). destruct (end_wait k d3 im fo' fc') eqn:Ew.
      + exists d3. split; [reflexivity|]. split; [apply keeps2_refl|]. repeat split; auto.
        left. split; [reflexivity|]. right. split; [exact Hr|exact (end_wait_at_end k d3 im fo' fc' Ew)].
      + set (x := with_task d3 0 TASK_SETTING_POSITION).
        assert (Sx : ac_step x = 0) by (unfold x, with_task; frw; exact St3).
        destruct (set_relay_off_facts k x _ Sx eq_refl) as (U & Dn & Dl & K2x & K3x & Subx).
        exists (set_relay k x RELAY_OFF false false). split; [reflexivity|].
        split; [eapply keeps2_trans; [|exact K2x]; unfold x, with_task; k2|].
        rewrite (k3_pos _ _ K3x), (k3_tilt _ _ K3x), (k3_state _ _ K3x), (k3_dir _ _ K3x), (sub_ut _ _ _ Subx), (sub_dt _ _ _ Subx), (sub_now _ _ _ Subx).
        unfold x, with_task. frw. repeat split; auto. right. repeat split; auto.
    - rewrite (TPb Hb). exists d3. split; [reflexivity|]. split; [apply keeps2_refl|]. repeat split; auto. }
  destruct Cases as (d4 & E4 & K34 & TP4 & TT4 & S4 & U4 & Dn4 & Nw4 & Cs).
  rewrite E4 in E'. clear TPb TPr.
  (* report block (short), stamps *)
  assert (Hl : (TEN_MINUTES_US <? up_time d4) || (TEN_MINUTES_US <? down_time d4) = false).
  { rewrite U4, Dn4. unfold carry_of in *. destruct up; cbn [negb] in *; rewrite Cy3, Cn3 || rewrite Cn3, Cy3;
      apply orb_false_iff; split; apply Z.ltb_ge; (assert (TEN_MINUTES_US = 600000000) by reflexivity); lia. }
  destruct (report_block_short k d4 (counter k e) Hl) as (Srb & Urb & Drb & Nrb).
  remember (report_block k d4 (counter k e)) as d5 eqn:E5. clear E5.
  pose proof (same_core_trans _ _ _ Srb (same_core_trans _ _ _ (same_core_stamp d5 (counter k e)) (same_core_set_clock (stamp_last d5 (counter k e)) t))) as S4'.
  assert (F' : carry_of up d' = carry_of up d5 /\ last_time d' = counter k e /\ now d' = t).
  { subst d'. unfold set_clock, stamp_last, carry_of. destruct up; frw; auto. }
  destruct F' as (Cy' & Lt' & Nw').
  rewrite <- E' in S4'. clear E'.
  pose proof (sc_k2 _ _ S4') as K2'. pose proof (sc_k3 _ _ S4') as K3'.
  assert (Cy5 : carry_of up d5 = carry_of up d3) by (unfold carry_of in *; destruct up; congruence).
  split.
  { rewrite (k2_pos _ _ K2'), (k2_pos _ _ K34), (k2_tilt _ _ K2'), (k2_tilt _ _ K34), (k3_pos _ _ K3'), (k3_tilt _ _ K3'), (k3_state _ _ K3'),
            (k2_aot _ _ K2'), (k2_aot _ _ K34), (k2_act _ _ K2'), (k2_act _ _ K34), (k2_step _ _ K2'), (k2_step _ _ K34),
            (k2_perf _ _ K2'), (k2_perf _ _ K34), (k2_t1 _ _ K2'), (k2_t1 _ _ K34), (k2_t2 _ _ K2'), (k2_t2 _ _ K34).
    split; [exact P3|]. split; [rewrite P3; exact Kn3|]. split; [exact T3|].
    split; [congruence|]. split; [exact Lt'|]. split; [exact Nw'|].
    split; [congruence|]. split; [rewrite TT4, (k3_tilt _ _ K33); exact (mv_tt _ _ M)|]. split; [exact S4|].
    split; [exact A30|]. split; [rewrite B3; exact (cal_act _ _ Ce)|]. split; [exact St3|].
    split; [rewrite Pf3; exact (cal_perf _ _ Ce)|].
    split; [exact T13|]. split; [exact T23|].
    rewrite (sc_del _ _ S4').
    destruct Cs as [[-> _]|(_ & _ & Dl & _)]; [|exact Dl].
    destruct (m_off m) eqn:Eo; [exact (proj2 (proj2 (Aon eq_refl)))|].
    destruct (Aoff eq_refl) as (_ & Dl & _). rewrite Dl. exact (mv_del _ _ M). }
  rewrite (k2_pos _ _ K2'), (k2_pos _ _ K34), P3, (k3_dir _ _ K3'), (sc_up _ _ S4'), (sc_down _ _ S4').
  rewrite P3, TP3 in Cs.
  destruct Cs as [[-> Hc4]|(U & Dn & _ & Dr & Hr)].
  - destruct (m_off m) eqn:Eo.
    + right. destruct (Aon eq_refl) as (U & Dn & _). split; [exact U|]. split; [exact Dn|]. split; [right; exact D3|].
      rewrite (Mend eq_refl). unfold reached, end_stop.
      pose proof (mv_tp _ _ M) as Htp.
      destruct Hc4 as [Hb|[Hr _]]; [|rewrite (Mend eq_refl) in Hr; exact Hr].
      rewrite (Mend eq_refl) in Hb. unfold beyond, end_stop in Hb. destruct up; lia.
    + left. destruct (Aoff eq_refl) as (O3 & _). split; [reflexivity|].
      split; [exact (same_core_only up d3 d' S4' O3)|]. split; [exact D3|exact Hc4].
  - right. repeat split; auto.
Qed.

End MovingCallback.
