From Coq Require Import List ZArith Bool Lia.
From V Require Import Base.U32 Gen.RsConsts C09.Model C10.Model.
Local Open Scope Z_scope.
Lemma placeholder10 : True. Proof. exact I. Qed.
