(* C10 — proofs about the roller-shutter module model (C10/Model.v), part 2: bounded power (10-minute rule;
   calibrated move), task stop accuracy, auto-calibration outcome.  Part 1 (how the operations inside a callback treat
   an output that stays energised) is C10/Frame.v. *)
From Coq Require Import List ZArith Bool Lia.
Import ListNotations.
From V Require Import Base.U32 Base.Iface Gen.RsConsts C09.Model C09.Proofs C10.Model C10.Frame C10.Fields.
Local Open Scope Z_scope.

Notation pos := C10.Model.pos.
Notation tilt := C10.Model.tilt.
Notation up_time := C10.Model.up_time.
Notation down_time := C10.Model.down_time.
Notation last_time := C10.Model.last_time.
Notation last_comm := C10.Model.last_comm.
Notation now := C10.Model.now.
Notation flags := C10.Model.flags.
Notation timer_cb := C10.Model.timer_cb.
Notation step := C10.Model.step.

(* ====================================================================================================
   Part 2a: one timer callback while the output of direction `up` stays energised and no travel can be
   accounted (position unknown, or at the end stop of that direction)
   ==================================================================================================== *)
Notation carry := carry_of.
Notation end_of := end_stop.
Definition wfk (k : kcfg) : Prop := k_tilt_type k = 0 -> k_tilt_ms k = 0.
(* no travel left in direction `up` that the accounting could convert *)
Definition NT (k : kcfg) (up : bool) (d : dev) : Prop :=
  known (pos d) = false \/
  (known (pos d) = true /\ remaining up (pos d) = 0 /\ (tilt_sup k = true -> known (tilt d) = true /\ remaining up (tilt d) = 0)).

Definition ext (d d' : dev) : Prop := exists n, outs d' = n ++ outs d.
Lemma ext_refl d : ext d d. Proof. exists []; reflexivity. Qed.
Lemma ext_trans a b c : ext a b -> ext b c -> ext a c.
Proof. intros [x X] [y Y]. exists (y ++ x). rewrite Y, X, app_assoc. reflexivity. Qed.
Lemma ext_nofall up d d' : ext d d' -> nofall up (outs d') -> nofall up (outs d).
Proof. intros [n E] H. rewrite E in H. apply nofall_app in H. tauto. Qed.
Lemma sub_ext up d d' : sub up d d' -> ext d d'. Proof. intros S. exact (sub_log up d d' S). Qed.

Section Callback.
Variable o : fpops.
Hypothesis OK : fp_ok o.

Lemma adjust_at_end up x rt time Tq :
  100 <= x <= 10100 -> remaining up x = 0 -> 0 <= time -> 0 <= Tq < 4294967296 ->
  rt = 0 \/ rt = fp_rem o 0 Tq -> adjust o up x rt time Tq = (x, 0).
Proof.
  intros Hx Hr Ht HT Hrt. unfold adjust.
  destruct (0 <? rt) eqn:E0; [|reflexivity]. apply Z.ltb_lt in E0.
  destruct Hrt as [Hrt|Hrt]; [lia|].
  assert (HTq : 0 < Tq < 4294967296).
  { destruct (Z.eq_dec Tq 0) as [->|]; [|lia]. rewrite (FP0 o OK) in Hrt. lia. }
  pose proof (FP1 o OK 0 Tq ltac:(lia) HTq) as F1. rewrite <- Hrt in F1. cbn in F1.
  assert (Hend : (if up then 100 else 10100) = x) by (unfold remaining in Hr; destruct up; lia).
  assert (Hr0 : (if up then x - 100 else 10100 - x) = 0) by (unfold remaining in Hr; exact Hr).
  destruct (rt <=? time) eqn:E1.
  - rewrite Hr0, Hend. rewrite (FP3 o OK 0 Tq ltac:(lia) HT). reflexivity.
  - apply Z.leb_gt in E1. assert (time = 0) by lia. subst time.
    rewrite (FP2 o OK 0 Tq ltac:(lia) HTq ltac:(lia)). cbn [Z.mul]. rewrite Z.div_0_l by lia.
    rewrite (FP3 o OK 0 Tq ltac:(lia) HT). cbn.
    f_equal. destruct up; lia.
Qed.

Lemma move_position_at_end c p tl time full_ms up :
  wf_cfg c -> known p = true -> remaining up p = 0 ->
  (tilt_supported c = true -> known tl = true /\ remaining up tl = 0) ->
  0 <= time < 4294967296 ->
  let m := move_position o c p tl time full_ms up in
  m_pos m = p /\ (tilt_supported c = true -> m_tilt m = tl) /\ m_time m = time.
Proof.
  intros W K R T Ht. cbv zeta. unfold move_position.
  rewrite K. cbn [negb orb].
  destruct (full_ms =? 0); [cbn [m_pos m_tilt m_time]; auto|].
  pose proof K as Kp. apply known_true in Kp.
  set (Tt := u32 (tilt_ms c * 1000)).
  set (full_time := u32 (full_ms * 1000)).
  set (Tp := if keeps_position c then u32 (full_time - Tt) else full_time).
  assert (HTt : 0 <= Tt < 4294967296) by apply u32_range.
  assert (HTp : 0 <= Tp < 4294967296) by (unfold Tp, full_time; destruct (keeps_position c); apply u32_range).
  assert (Hrp : u32 (if up then p - 100 else 10100 - p) = 0).
  { unfold remaining in R. rewrite R. reflexivity. }
  (* tilt block: returns (tilt2, 0) *)
  set (fixed := (tilt_type c =? TILT_ONLY_CLOSED) && (p <? 10100)).
  set (tilt1 := if tilt_supported c && negb (known tl) then 100 else tl).
  set (tilt2 := if fixed then 100 else tilt1).
  set (rtt := if fixed then 0 else fp_rem o (u32 (if up then tilt1 - 100 else 10100 - tilt1)) Tt).
  assert (A1 : adjust o up tilt2 rtt time Tt = (tilt2, 0) /\ (tilt_supported c = true -> tilt2 = tl)).
  { destruct (tilt_supported c) eqn:S.
    - destruct (T eq_refl) as [Kt Rt]. pose proof Kt as Kt'. apply known_true in Kt'.
      assert (tilt1 = tl) by (unfold tilt1; rewrite Kt; reflexivity).
      assert (tilt2 = tl).
      { unfold tilt2. destruct fixed eqn:F; [|exact H].
        unfold fixed in F. apply andb_true_iff in F. destruct F as [_ F]. apply Z.ltb_lt in F.
        (* not fully closed: p = 100 (the end stop of "up"), so the tilt at its end stop is 100 as well *)
        unfold remaining in R, Rt. destruct up; lia. }
      split; [|intros _; exact H0].
      rewrite H0. apply adjust_at_end; auto; try lia.
      unfold rtt. destruct fixed; [left; reflexivity|right]. rewrite H. unfold remaining in Rt. rewrite Rt. reflexivity.
    - split; [|discriminate].
      assert (tilt_ms c = 0).
      { unfold tilt_supported in S. apply negb_false_iff in S. apply orb_true_iff in S.
        destruct S as [S|S]; apply Z.eqb_eq in S; auto. }
      assert (Tt = 0) by (unfold Tt; rewrite H; reflexivity).
      assert (rtt = 0) by (unfold rtt; destruct fixed; [reflexivity|rewrite H0; apply (FP0 o OK)]).
      rewrite H1. reflexivity. }
  destruct A1 as [A1 A1t]. rewrite A1. cbn [fst snd].
  replace (0 <? 0) with false by reflexivity. cbn [andb].
  rewrite Hrp.
  rewrite (adjust_at_end up p (fp_rem o 0 Tp) time Tp Kp R ltac:(lia) HTp (or_intror eq_refl)).
  cbn [fst snd].
  assert (Htd : (if 0 <? fp_rem o 0 Tp then 0 else 0) = 0) by (destruct (0 <? fp_rem o 0 Tp); reflexivity).
  rewrite Htd. replace (time <? 0) with false by (symmetry; apply Z.ltb_ge; lia).
  cbn [m_pos m_tilt m_time]. split; [reflexivity|]. split; [exact A1t|lia].
Qed.

(* ---------- stages of the callback that are not plain sub-steps ---------- *)
(* (statements avoid `let`: the kernel is slow converting let-expanded copies of large terms) *)
Lemma cb_power_facts k d im ae t d' :
  d' = cb_power k d im ae t ->
  outs d' = outs d /\ up_on d' = up_on d /\ down_on d' = down_on d /\ up_time d' = up_time d /\ down_time d' = down_time d /\
  last_comm d' = last_comm d /\ pos d' = pos d /\ tilt d' = tilt d /\ start_time d' = start_time d /\ now d' = now d /\
  last_time d' = (if (up_on d || down_on d) && ae && negb (detected d || im) && (u32 (t - start_time d) <? POWER_DETECT_US)
                  then t else last_time d).
Proof.
  intros ->. unfold cb_power.
  destruct (up_on d || down_on d); cbn [andb]; [|fld; repeat split; reflexivity].
  destruct ae; cbn [andb]; [|repeat split; reflexivity].
  destruct (detected d); cbn [orb negb andb]; [fld; repeat split; reflexivity|].
  destruct im; cbn [negb andb]; [fld; repeat split; reflexivity|].
  fld. destruct (u32 (t - start_time d) <? POWER_DETECT_US); fld; repeat split; reflexivity.
Qed.


Lemma calibrate_d_facts k d full time up d' :
  wfk k -> NT k up d -> d' = calibrate_d o k d full time (end_of up) ->
  same_frame d d' /\ NT k up d' /\ stop_time d' = stop_time d.
Proof.
  intros W N ->. unfold calibrate_d.
  destruct (negb (known (pos d)) && (0 <? full)) eqn:E.
  2:{ split; [unfold same_frame; repeat split; reflexivity|]. split; [exact N|reflexivity]. }
  apply andb_true_iff in E. destruct E as [E _]. apply negb_true_iff in E.
  unfold calibrate. fld. rewrite E. cbn [negb andb].
  destruct (0 <? full); cbn [andb].
  2:{ fld. split; [unfold same_frame; fld; repeat split; reflexivity|]. split; [left; fld; exact E|reflexivity]. }
  destruct (fp_cal o full <=? time / 1000); fld.
  - split; [unfold same_frame; fld; repeat split; reflexivity|]. split; [|reflexivity].
    right. fld. unfold end_of, remaining.
    assert (TS : forall x, tilt_supported (cfg_of k x) = tilt_sup k) by reflexivity.
    rewrite TS. destruct up; (split; [reflexivity|]); (split; [reflexivity|]); intros S; rewrite S; split; reflexivity.
  - split; [unfold same_frame; fld; repeat split; reflexivity|]. split; [left; fld; reflexivity|reflexivity].
Qed.

Lemma wf_cfg_of k d : wfk k -> wf_cfg (cfg_of k d).
Proof. intros W. exact W. Qed.

Lemma same_frame_only up d d' : same_frame d d' -> only up d -> only up d'.
Proof.
  intros (_ & Hu & Hd & _) [P Q]. unfold only, powered in *. destruct up; cbn [negb] in *; rewrite Hu, Hd; auto.
Qed.
Lemma same_frame_ext d d' : same_frame d d' -> ext d d'.
Proof. intros (Ho & _). exists []. rewrite Ho. reflexivity. Qed.

Lemma move_position_d_facts k d full up im d' :
  wfk k -> NT k up d -> only up d -> 0 <= carry up d < 4294967296 ->
  d' = move_position_d o k d full up im ->
  ext d d' /\ (nofall up (outs d') -> only up d' /\ NT k up d' /\ start_time d' = start_time d) /\
  up_time d' = up_time d /\ down_time d' = down_time d /\
  last_time d' = last_time d /\ last_comm d' = last_comm d /\ now d' = now d.
Proof.
  intros W N O Hc E'. unfold move_position_d in E'.
  set (time := if up then up_time d else down_time d) in *.
  set (m := move_position o (cfg_of k d) (pos d) (tilt d) time full up) in *.
  assert (M : m_pos m = pos d /\ (tilt_sup k = true -> m_tilt m = tilt d) /\ m_time m = time /\ (known (pos d) = false -> m_tilt m = tilt d)).
  { destruct N as [N|(K & R & T)].
    - unfold m, move_position. rewrite N. cbn [negb orb m_pos m_tilt m_time m_off]. repeat split; auto.
    - pose proof (move_position_at_end (cfg_of k d) (pos d) (tilt d) time full up (wf_cfg_of k d W) K R T Hc) as (A & B & C).
      repeat split; auto; intros; congruence. }
  destruct M as (Mp & Mt & Mtime & Munk). clearbody m.
  set (d1 := upd_pt d (m_pos m) (m_tilt m)) in *.
  set (d2 := if up then upd_times d1 (m_time m) (down_time d1) (last_time d1) (last_comm d1)
             else upd_times d1 (up_time d1) (m_time m) (last_time d1) (last_comm d1)) in *.
  assert (F2 : same_frame d d2).
  { unfold same_frame, d2, d1, time in *. destruct up; fld; rewrite Mtime; repeat split; reflexivity. }
  assert (N2 : NT k up d2).
  { unfold NT. assert (pos d2 = pos d) by (unfold d2, d1; destruct up; fld; exact Mp).
    assert (tilt_sup k = true -> tilt d2 = tilt d) by (intros S; unfold d2, d1; destruct up; fld; exact (Mt S)).
    rewrite H. destruct N as [N|(K & R & T)]; [left; exact N|right].
    split; [exact K|]. split; [exact R|]. intros S. rewrite (H0 S). exact (T S). }
  pose proof (same_frame_only up d d2 F2 O) as O2.
  destruct F2 as (Fo & Fu & Fd & F1 & F2' & F3 & F4 & F5 & F6 & F7).
  clearbody d2. clear d1.
  destruct (m_off m).
  - set (d3 := if autocal_done d2 && im then fl_set d2 FLAG_CALIBRATION_LOST else d2) in *.
    assert (S3 : sub up d2 d3) by (unfold d3; subt).
    clearbody d3.
    pose proof (sub_set_relay up k d3 RELAY_OFF false false) as S4. rewrite <- E' in S4.
    pose proof (sub_trans up _ _ _ S3 S4) as S.
    split; [destruct (sub_log up _ _ S) as [n L]; exists n; rewrite L, Fo; reflexivity|].
    split.
    { intros NF. exfalso.
      assert (P3 : powered up d3 = true).
      { destruct (sub_on up _ _ S3 (ext_nofall up _ _ (sub_ext up _ _ S4) NF) O2) as [P _]. exact P. }
      rewrite E' in NF. exact (set_relay_off_falls up k d3 false P3 NF). }
    rewrite (sub_ut up _ _ S), (sub_dt up _ _ S), (sub_lt up _ _ S), (sub_lc up _ _ S), (sub_now up _ _ S).
    repeat split; congruence.
  - subst d'. split; [exists []; rewrite Fo; reflexivity|]. split; [intros _; repeat split; auto; try apply O2; congruence|].
    repeat split; congruence.
Qed.

(* the "new value" half of the 200 ms block *)
Definition rb_report (k : kcfg) (d : dev) : dev :=
  if negb (C10.Model.last_pos d =? pos d) || negb (C10.Model.last_flags d =? flags d) || negb (C10.Model.last_tilt d =? tilt d) then
    let f1 := flags d in
    let c := cfg_of k d in
    let f2 := if k_tilt_type k =? TILT_NOT_SUPPORTED then clear_flag f1 FLAG_TILT_IS_SET
              else if is_tilt_set c (tilt d) then set_flag f1 FLAG_TILT_IS_SET else clear_flag f1 FLAG_TILT_IS_SET in
    let b1 := if k_tilt_type k =? TILT_NOT_SUPPORTED then 0 else s8_byte (current_tilt c (tilt d)) in
    upd_rep d f2 (pos d) (tilt d) f1
            (mk 1 [] [s8_byte (cur_pos d); b1; 0; f2 mod 256; f2 / 256; 0; 0; 0] :: outs d)
  else d.

Lemma rb_report_facts up k d d1 :
  d1 = rb_report k d ->
  (exists n, outs d1 = n ++ outs d /\ nofall up n) /\
  up_on d1 = up_on d /\ down_on d1 = down_on d /\ up_time d1 = up_time d /\ down_time d1 = down_time d /\
  last_time d1 = last_time d /\ last_comm d1 = last_comm d /\ now d1 = now d /\ pos d1 = pos d /\ tilt d1 = tilt d /\ start_time d1 = start_time d.
Proof.
  intros ->. unfold rb_report.
  destruct (negb (C10.Model.last_pos d =? pos d) || negb (C10.Model.last_flags d =? flags d) || negb (C10.Model.last_tilt d =? tilt d)).
  - cbv zeta. cbn [outs up_on down_on C10.Model.up_time C10.Model.down_time C10.Model.last_time C10.Model.last_comm C10.Model.now C10.Model.pos C10.Model.tilt start_time upd_rep].
    split; [|repeat split; reflexivity].
    eexists [_]. split; [reflexivity|]. apply nofall_cons. split; [reflexivity|apply nofall_nil].
  - split; [exists []; split; [reflexivity|apply nofall_nil]|repeat split; reflexivity].
Qed.

Lemma rb_not_due k d t : (REPORT_PERIOD_US <=? u32 (t - last_comm d)) = false -> report_block k d t = d.
Proof. intros H. unfold report_block. rewrite H. reflexivity. Qed.
Lemma report_block_eq k d t :
  report_block k d t =
  if REPORT_PERIOD_US <=? u32 (t - last_comm d) then
    let d1 := rb_report k d in
    let d2 := if (TEN_MINUTES_US <? up_time d1) || (TEN_MINUTES_US <? down_time d1) then set_relay k d1 RELAY_OFF false false else d1 in
    upd_times d2 (up_time d2) (down_time d2) (last_time d2) t
  else d.
Proof. reflexivity. Qed.
Lemma rb_due_long k d t :
  (REPORT_PERIOD_US <=? u32 (t - last_comm d)) = true ->
  (TEN_MINUTES_US <? up_time d) || (TEN_MINUTES_US <? down_time d) = true ->
  report_block k d t =
  upd_times (set_relay k (rb_report k d) RELAY_OFF false false)
            (up_time (set_relay k (rb_report k d) RELAY_OFF false false)) (down_time (set_relay k (rb_report k d) RELAY_OFF false false))
            (last_time (set_relay k (rb_report k d) RELAY_OFF false false)) t.
Proof.
  intros H L. rewrite report_block_eq, H. cbv zeta.
  destruct (rb_report_facts true k d (rb_report k d) eq_refl) as (_ & _ & _ & U & D & _).
  assert (C : (TEN_MINUTES_US <? up_time (rb_report k d)) || (TEN_MINUTES_US <? down_time (rb_report k d)) = true) by (rewrite U, D; exact L).
  rewrite C. reflexivity.
Qed.
Lemma rb_due_short k d t :
  (REPORT_PERIOD_US <=? u32 (t - last_comm d)) = true ->
  (TEN_MINUTES_US <? up_time d) || (TEN_MINUTES_US <? down_time d) = false ->
  report_block k d t = upd_times (rb_report k d) (up_time (rb_report k d)) (down_time (rb_report k d)) (last_time (rb_report k d)) t.
Proof.
  intros H L. rewrite report_block_eq, H. cbv zeta.
  destruct (rb_report_facts true k d (rb_report k d) eq_refl) as (_ & _ & _ & U & D & _).
  assert (C : (TEN_MINUTES_US <? up_time (rb_report k d)) || (TEN_MINUTES_US <? down_time (rb_report k d)) = false) by (rewrite U, D; exact L).
  rewrite C. reflexivity.
Qed.

Lemma rb_long_facts up k d1 t d2 d' :
  only up d1 -> d2 = set_relay k d1 RELAY_OFF false false ->
  d' = upd_times d2 (up_time d2) (down_time d2) (last_time d2) t ->
  ext d1 d' /\ up_time d' = up_time d1 /\ down_time d' = down_time d1 /\
  last_time d' = last_time d1 /\ now d' = now d1 /\ last_comm d' = t /\ ~ nofall up (outs d').
Proof.
  intros O1 E2 E'.
  pose proof (sub_set_relay up k d1 RELAY_OFF false false) as S.
  assert (NFF : ~ nofall up (outs (set_relay k d1 RELAY_OFF false false))) by (destruct O1 as [P _]; exact (set_relay_off_falls up k d1 false P)).
  rewrite <- E2 in S, NFF. clear E2.
  destruct (sub_log up _ _ S) as [n L].
  pose proof (sub_ut up _ _ S). pose proof (sub_dt up _ _ S). pose proof (sub_lt up _ _ S). pose proof (sub_now up _ _ S).
  subst d'. unfold ext. cbn [outs C10.Model.up_time C10.Model.down_time C10.Model.last_time C10.Model.last_comm C10.Model.now upd_times].
  split; [exists n; exact L|]. repeat split; auto.
Qed.

Lemma rb_short_facts up d1 t d' u w :
  only up d1 -> d' = upd_times d1 u w (last_time d1) t ->
  outs d' = outs d1 /\ up_time d' = u /\ down_time d' = w /\
  last_time d' = last_time d1 /\ now d' = now d1 /\ last_comm d' = t /\ only up d' /\ pos d' = pos d1 /\ tilt d' = tilt d1 /\ start_time d' = start_time d1.
Proof.
  intros [P Q] ->. unfold only, powered in *. fld. repeat split; auto.
Qed.

Lemma report_block_facts up k d t d' :
  only up d -> d' = report_block k d t ->
  ext d d' /\ up_time d' = up_time d /\ down_time d' = down_time d /\ last_time d' = last_time d /\ now d' = now d /\
  last_comm d' = (if REPORT_PERIOD_US <=? u32 (t - last_comm d) then t else last_comm d) /\
  (nofall up (outs d') -> only up d' /\ pos d' = pos d /\ tilt d' = tilt d /\ start_time d' = start_time d /\
                          ~ ((REPORT_PERIOD_US <=? u32 (t - last_comm d)) = true /\ (TEN_MINUTES_US < up_time d \/ TEN_MINUTES_US < down_time d))).
Proof.
  intros O E'.
  destruct (REPORT_PERIOD_US <=? u32 (t - last_comm d)) eqn:Edue.
  2:{ rewrite (rb_not_due k d t Edue) in E'. subst d'. split; [apply ext_refl|]. repeat split; auto; try apply O. intros [X _]; discriminate. }
  pose proof (rb_report_facts up k d (rb_report k d) eq_refl) as F.
  destruct ((TEN_MINUTES_US <? up_time d) || (TEN_MINUTES_US <? down_time d)) eqn:Elong.
  - rewrite (rb_due_long k d t Edue Elong) in E'.
    remember (rb_report k d) as d1 eqn:E1. clear E1.
    destruct F as ([n1 [L1 NF1]] & Fu & Fd & F1 & F2 & F3 & F4 & F5 & F6 & F7 & F8).
    assert (O1 : only up d1) by (destruct O as [P Q]; unfold only, powered in *; destruct up; cbn [negb] in *; rewrite Fu, Fd; auto).
    destruct (rb_long_facts up k d1 t _ d' O1 eq_refl E') as ([n L] & A1 & A2 & A3 & A4 & A5 & A6).
    split; [exists (n ++ n1); rewrite L, L1, app_assoc; reflexivity|].
    split; [congruence|]. split; [congruence|]. split; [congruence|]. split; [congruence|]. split; [exact A5|].
    intros NF. exfalso. exact (A6 NF).
  - rewrite (rb_due_short k d t Edue Elong) in E'.
    remember (rb_report k d) as d1 eqn:E1. clear E1.
    destruct F as ([n1 [L1 NF1]] & Fu & Fd & F1 & F2 & F3 & F4 & F5 & F6 & F7 & F8).
    assert (O1 : only up d1) by (destruct O as [P Q]; unfold only, powered in *; destruct up; cbn [negb] in *; rewrite Fu, Fd; auto).
    destruct (rb_short_facts up d1 t d' _ _ O1 E') as (B0 & B1 & B2 & B3 & B4 & B5 & B6 & B7 & B8 & B9).
    split; [exists n1; rewrite B0; exact L1|].
    split; [congruence|]. split; [congruence|]. split; [congruence|]. split; [congruence|]. split; [exact B5|].
    intros NF. split; [exact B6|]. split; [congruence|]. split; [congruence|]. split; [congruence|].
    intros [_ X]. apply orb_false_iff in Elong. destruct Elong as [A B]. apply Z.ltb_ge in A. apply Z.ltb_ge in B. lia.
Qed.

Lemma report_block_facts_stamps k d t :
  now (report_block k d t) = now d /\
  last_comm (report_block k d t) = (if REPORT_PERIOD_US <=? u32 (t - last_comm d) then t else last_comm d).
Proof.
  destruct (REPORT_PERIOD_US <=? u32 (t - last_comm d)) eqn:Edue.
  2:{ rewrite (rb_not_due k d t Edue). auto. }
  destruct (rb_report_facts true k d (rb_report k d) eq_refl) as (_ & _ & _ & _ & _ & _ & _ & Fn & _).
  destruct ((TEN_MINUTES_US <? up_time d) || (TEN_MINUTES_US <? down_time d)) eqn:Elong.
  - rewrite (rb_due_long k d t Edue Elong). rewrite now_upd_times, last_comm_upd_times.
    rewrite (sub_now true _ _ (sub_set_relay true k (rb_report k d) RELAY_OFF false false)). auto.
  - rewrite (rb_due_short k d t Edue Elong). rewrite now_upd_times, last_comm_upd_times. auto.
Qed.

Lemma report_block_facts_ext k d t : exists n, outs (report_block k d t) = n ++ outs d.
Proof.
  destruct (REPORT_PERIOD_US <=? u32 (t - last_comm d)) eqn:Edue.
  2:{ rewrite (rb_not_due k d t Edue). exists []. reflexivity. }
  destruct (rb_report_facts true k d (rb_report k d) eq_refl) as ([n1 [L1 _]] & _).
  destruct ((TEN_MINUTES_US <? up_time d) || (TEN_MINUTES_US <? down_time d)) eqn:Elong.
  - rewrite (rb_due_long k d t Edue Elong). rewrite outs_upd_times.
    destruct (sub_log true _ _ (sub_set_relay true k (rb_report k d) RELAY_OFF false false)) as [n L].
    exists (n ++ n1). rewrite L, L1, app_assoc. reflexivity.
  - rewrite (rb_due_short k d t Edue Elong). rewrite outs_upd_times. exists n1. exact L1.
Qed.

End Callback.

(* the callback does not count the elapsed time: auto-calibration enabled, no power consumption seen yet, start stamp younger than 2 s *)
Definition frozen_cb (k : kcfg) (d : dev) (im : bool) : bool :=
  autocal_enabled k d && negb (detected d || im) && (u32 (counter k d - start_time d) <? POWER_DETECT_US).

Section Callback2.
Variable o : fpops.
Hypothesis OK : fp_ok o.

Lemma NT_transfer k up d d' :
  NT k up d -> (pos d' = pos d /\ tilt d' = tilt d) \/ known (pos d') = false -> NT k up d'.
Proof.
  intros N [[P T]|U]; [|left; exact U]. unfold NT in *. rewrite P, T. exact N.
Qed.

(* what a sub-step hands on when the output stays energised *)
Lemma sub_bundle k up d d' :
  sub up d d' -> nofall up (outs d') -> only up d -> NT k up d ->
  only up d' /\ NT k up d' /\ (start_time d <> 0 -> start_time d' = start_time d).
Proof.
  intros S NF O N.
  split; [exact (sub_on up _ _ S NF O)|]. split; [exact (NT_transfer k up d d' N (sub_pos up _ _ S NF O))|].
  exact (sub_start up _ _ S NF O).
Qed.

Lemma cb_head_frame k d d' :
  d' = cb_head k d ->
  outs d' = outs d /\ up_on d' = up_on d /\ down_on d' = down_on d /\ start_time d' = start_time d /\ detected d' = detected d /\
  up_time d' = up_time d /\ down_time d' = down_time d /\ last_time d' = last_time d /\ last_comm d' = last_comm d /\ now d' = now d /\
  clk d' = clk d /\ ((pos d' = pos d /\ tilt d' = tilt d) \/ known (pos d') = false).
Proof.
  intros ->. unfold cb_head.
  destruct (autocal_enabled k d).
  - destruct ((aot d =? 0) && (act d =? 0)); fld; repeat split; auto.
  - destruct (negb (act d =? 0) || negb (aot d =? 0) || negb (ac_step d =? 0)); fld; repeat split; auto.
Qed.

Lemma calibrate_d_stamps k d full time p :
  outs (calibrate_d o k d full time p) = outs d /\ last_time (calibrate_d o k d full time p) = last_time d /\
  last_comm (calibrate_d o k d full time p) = last_comm d /\ now (calibrate_d o k d full time p) = now d.
Proof.
  unfold calibrate_d. destruct (negb (known (pos d)) && (0 <? full)); [|auto].
  match goal with |- context[calibrate ?a ?b ?c ?e ?f ?g ?h] => destruct (calibrate a b c e f g h) end.
  fld. auto.
Qed.

(* the accounting pipeline of one direction (Model: acc_add, acc_cm, acc_pre, acc_full, acc_post) *)
Lemma cb_account_only up k d im t fo fc :
  only up d ->
  fst (fst (cb_account o k d im t fo fc)) =
  acc_post o k (acc_pre k d up im (u32 (t - last_time d))) up im (if up then fo else fc).
Proof.
  intros [P Q]. unfold cb_account.
  destruct up; unfold powered in P, Q; cbn [negb] in P, Q.
  - rewrite P. reflexivity.
  - rewrite Q, P. reflexivity.
Qed.

Lemma acc_add_facts up d el d3 :
  only up d -> 0 <= el -> 0 <= carry up d -> carry up d + el < 4294967296 -> d3 = acc_add d up el ->
  outs d3 = outs d /\ only up d3 /\ last_time d3 = last_time d /\ last_comm d3 = last_comm d /\
  now d3 = now d /\ start_time d3 = start_time d /\ pos d3 = pos d /\ tilt d3 = tilt d /\ carry up d3 = carry up d + el.
Proof.
  intros [P Q] Hel Hc Hs ->. unfold acc_add, carry_of, only, powered in *.
  destruct up; cbn [negb] in *; fld; repeat split; auto; apply u32_small; lia.
Qed.

Lemma acc_pre_sub up k d3 im p :
  p = autocalibrate k (acc_cm k d3 up im) im -> sub up d3 (fst p).
Proof.
  intros ->. eapply sub_trans; [|apply sub_autocalibrate].
  unfold acc_cm. destruct (0 <? carry_of up d3); [apply sub_check_motor|apply sub_refl].
Qed.

Lemma move_position_d_ext k d full up im : ext d (move_position_d o k d full up im).
Proof.
  unfold move_position_d.
  set (m := move_position o (cfg_of k d) (pos d) (tilt d) (if up then up_time d else down_time d) full up). clearbody m.
  destruct (m_off m).
  - eapply ext_trans; [|apply (sub_ext up); apply sub_set_relay].
    destruct (autocal_done _ && im); destruct up; exists []; reflexivity.
  - destruct up; exists []; reflexivity.
Qed.

Lemma move_position_d_stamps k d full up im :
  last_time (move_position_d o k d full up im) = last_time d /\ last_comm (move_position_d o k d full up im) = last_comm d /\
  now (move_position_d o k d full up im) = now d.
Proof.
  unfold move_position_d.
  set (m := move_position o (cfg_of k d) (pos d) (tilt d) (if up then up_time d else down_time d) full up). clearbody m.
  destruct (m_off m).
  - match goal with |- context[set_relay k ?x RELAY_OFF false false] => pose proof (sub_set_relay up k x RELAY_OFF false false) as S end.
    rewrite (sub_lt up _ _ S), (sub_lc up _ _ S), (sub_now up _ _ S).
    destruct (autocal_done _ && im); destruct up; fld; auto.
  - destruct up; fld; auto.
Qed.

(* calibrate + move on a state d5 in which the output is energised and no travel can be accounted *)
Lemma acc_post_facts up k d5 f im d' :
  wfk k -> 0 <= carry up d5 < 4294967296 ->
  d' = move_position_d o k (calibrate_d o k d5 f (carry up d5) (end_of up)) f up im ->
  ext d5 d' /\
  (nofall up (outs d') -> only up d5 -> NT k up d5 ->
   only up d' /\ NT k up d' /\ carry up d' = carry up d5 /\ start_time d' = start_time d5) /\
  last_time d' = last_time d5 /\ last_comm d' = last_comm d5 /\ now d' = now d5.
Proof.
  intros W Hc E'.
  remember (calibrate_d o k d5 f (carry up d5) (end_of up)) as d6 eqn:E6.
  destruct (calibrate_d_stamps k d5 f (carry up d5) (end_of up)) as (X56 & L6l & L6c & L6n). rewrite <- E6 in X56, L6l, L6c, L6n.
  pose proof (move_position_d_ext k d6 f up im) as X67. rewrite <- E' in X67.
  destruct (move_position_d_stamps k d6 f up im) as (L7l & L7c & L7n). rewrite <- E' in L7l, L7c, L7n.
  split; [destruct X67 as [n L]; exists n; rewrite L, X56; reflexivity|].
  split; [|repeat split; congruence].
  intros NF O5 N5.
  destruct (calibrate_d_facts o k d5 f (carry up d5) up d6 W N5 E6) as (F6 & N6 & _).
  pose proof (same_frame_only up d5 d6 F6 O5) as O6.
  destruct F6 as (_ & _ & _ & F6u & F6d & _ & _ & _ & _ & F6s).
  assert (C6 : carry up d6 = carry up d5) by (unfold carry_of; destruct up; congruence).
  destruct (move_position_d_facts o OK k d6 f up im d' W N6 O6 ltac:(lia) E') as (_ & M1 & M2 & M3 & _).
  destruct (M1 NF) as (O7 & N7 & St7).
  split; [exact O7|]. split; [exact N7|]. split; [rewrite <- C6; unfold carry_of; destruct up; congruence|congruence].
Qed.

Lemma sub_carry up d d' : sub up d d' -> carry up d' = carry up d.
Proof. intros S. unfold carry_of. destruct up; [exact (sub_ut _ _ _ S)|exact (sub_dt _ _ _ S)]. Qed.

Lemma sub_cb_need up k d : sub up d (cb_need k d).
Proof. unfold cb_need. subt. Qed.

Lemma u32_self t : u32 (t - t) = 0.
Proof. replace (t - t) with 0 by lia. reflexivity. Qed.

(* stages 1 and 2 *)
Lemma cb_front_facts up k d im d2 :
  only up d -> NT k up d -> d2 = cb_power k (cb_head k d) im (autocal_enabled k d) (counter k d) ->
  outs d2 = outs d /\ only up d2 /\ NT k up d2 /\ carry up d2 = carry up d /\ last_comm d2 = last_comm d /\ now d2 = now d /\
  start_time d2 = start_time d /\
  u32 (counter k d - last_time d2) = (if frozen_cb k d im then 0 else u32 (counter k d - last_time d)).
Proof.
  intros O N E2.
  destruct (cb_head_frame k d (cb_head k d) eq_refl) as (H1o & H1u & H1d & H1s & H1det & H1ut & H1dt & H1lt & H1lc & H1n & H1c & H1p).
  remember (cb_head k d) as d1 eqn:E1. clear E1.
  assert (O1 : only up d1) by (destruct O as [P Q]; unfold only, powered in *; destruct up; cbn [negb] in *; rewrite H1u, H1d; auto).
  assert (N1 : NT k up d1) by (exact (NT_transfer k up d d1 N H1p)).
  destruct (cb_power_facts k d1 im (autocal_enabled k d) (counter k d) d2 E2) as (H2o & H2u & H2d & H2ut & H2dt & H2lc & H2p & H2t & H2s & H2n & H2lt).
  clear E2.
  assert (O2 : only up d2) by (destruct O1 as [P Q]; unfold only, powered in *; destruct up; cbn [negb] in *; rewrite H2u, H2d; auto).
  assert (N2 : NT k up d2) by (apply (NT_transfer k up d1 d2 N1); left; auto).
  assert (Hon : up_on d1 || down_on d1 = true).
  { destruct O1 as [P _]. unfold powered in P. destruct up; rewrite P; [reflexivity|apply orb_true_r]. }
  split; [congruence|]. split; [exact O2|]. split; [exact N2|].
  split; [unfold carry_of; destruct up; congruence|]. split; [congruence|]. split; [congruence|]. split; [congruence|].
  rewrite H2lt, Hon, H1det, H1s, H1lt. cbn [andb]. unfold frozen_cb.
  destruct (autocal_enabled k d && negb (detected d || im) && (u32 (counter k d - start_time d) <? POWER_DETECT_US)); [apply u32_self|reflexivity].
Qed.

(* stage 3, with every intermediate state named by an equation *)
Lemma cb_account_facts_eq up k d2 im el f d2a p d3 :
  wfk k -> only up d2 -> NT k up d2 -> 0 <= carry up d2 -> 0 <= el -> carry up d2 + el < 4294967296 ->
  d2a = acc_add d2 up el -> p = autocalibrate k (acc_cm k d2a up im) im ->
  d3 = move_position_d o k (calibrate_d o k (fst p) f (carry up (fst p)) (end_of up)) f up im ->
  ext d2 d3 /\
  (nofall up (outs d3) -> only up d3 /\ NT k up d3 /\ carry up d3 = carry up d2 + el /\ (start_time d2 <> 0 -> start_time d3 = start_time d2)) /\
  last_comm d3 = last_comm d2 /\ now d3 = now d2.
Proof.
  intros W O2 N2 Hc Hel Hsum E2a Ep E3.
  destruct (acc_add_facts up d2 el d2a O2 Hel Hc Hsum E2a) as (Ao & AO & Alt & Alc & An & As & Ap & At & Ac).
  clear E2a.
  assert (N2a : NT k up d2a) by (apply (NT_transfer k up d2 d2a N2); left; auto).
  pose proof (acc_pre_sub up k d2a im p Ep) as Sp. clear Ep.
  pose proof (sub_carry up _ _ Sp) as Cp.
  destruct (acc_post_facts up k (fst p) f im d3 W ltac:(lia) E3) as (X3 & P3 & L3l & L3c & L3n).
  clear E3.
  pose proof (sub_lc up _ _ Sp) as Lcp. pose proof (sub_now up _ _ Sp) as Nwp.
  split.
  { eapply ext_trans; [|exact X3]. destruct (sub_log up _ _ Sp) as [n L]. exists n. rewrite L, Ao. reflexivity. }
  split.
  - intros NF3.
    assert (NFfp : nofall up (outs (fst p))) by (exact (ext_nofall up _ _ X3 NF3)).
    destruct (sub_bundle k up d2a (fst p) Sp NFfp AO N2a) as (Op & Np & Sfp).
    destruct (P3 NF3 Op Np) as (O3 & N3 & C3 & St3).
    split; [exact O3|]. split; [exact N3|]. split; [lia|].
    intros S0. rewrite St3, Sfp; congruence.
  - split; congruence.
Qed.

Lemma cb_account_facts up k d2 im t fo fc el d3 :
  wfk k -> only up d2 -> NT k up d2 -> 0 <= carry up d2 -> el = u32 (t - last_time d2) -> carry up d2 + el < 4294967296 ->
  d3 = fst (fst (cb_account o k d2 im t fo fc)) ->
  ext d2 d3 /\
  (nofall up (outs d3) -> only up d3 /\ NT k up d3 /\ carry up d3 = carry up d2 + el /\ (start_time d2 <> 0 -> start_time d3 = start_time d2)) /\
  last_comm d3 = last_comm d2 /\ now d3 = now d2.
Proof.
  intros W O2 N2 Hc Eel Hsum E3.
  assert (Hel : 0 <= el) by (subst el; apply u32_range).
  apply (cb_account_facts_eq up k d2 im el
           (acc_full (autocalibrate k (acc_cm k (acc_add d2 up el) up im) im) up (if up then fo else fc))
           (acc_add d2 up el) (autocalibrate k (acc_cm k (acc_add d2 up el) up im) im) d3 W O2 N2 Hc Hel Hsum eq_refl eq_refl).
  rewrite E3, (cb_account_only up k d2 im t fo fc O2), <- Eel. reflexivity.
Qed.

(* stage 4 *)
Lemma cb_tail_facts up k d3 im t fo fc d' :
  d' = cb_tail k d3 im t fo fc ->
  ext d3 d' /\
  (nofall up (outs d') -> only up d3 -> NT k up d3 ->
   only up d' /\ NT k up d' /\ carry up d' = carry up d3 /\ (start_time d3 <> 0 -> start_time d' = start_time d3) /\
   ~ ((REPORT_PERIOD_US <=? u32 (t - last_comm d3)) = true /\ TEN_MINUTES_US < carry up d3)) /\
  last_time d' = t /\ now d' = now d3 /\
  last_comm d' = (if REPORT_PERIOD_US <=? u32 (t - last_comm d3) then t else last_comm d3).
Proof.
  intros E'. unfold cb_tail, stamp_last in E'.
  pose proof (sub_trans up _ _ _ (sub_cb_need up k d3) (sub_task_processing up k (cb_need k d3) im fo fc)) as S45.
  remember (task_processing k (cb_need k d3) im fo fc) as d5 eqn:E5. clear E5.
  destruct (report_block_facts_ext k d5 t) as [n6 L6].
  remember (report_block k d5 t) as d6 eqn:E6.
  assert (X' : outs d' = outs d6) by (subst d'; reflexivity).
  split.
  { eapply ext_trans; [exact (sub_ext up _ _ S45)|]. exists n6. rewrite X'. exact L6. }
  split.
  - intros NF O3 N3. rewrite X' in NF.
    assert (NF5 : nofall up (outs d5)) by (rewrite L6 in NF; apply nofall_app in NF; tauto).
    destruct (sub_bundle k up d3 d5 S45 NF5 O3 N3) as (O5 & N5 & St5).
    destruct (report_block_facts up k d5 t d6 O5 E6) as (_ & R1 & R2 & R3 & R4 & R5 & R6).
    destruct (R6 NF) as (O6 & P6 & T6 & St6 & ND).
    pose proof (sub_carry up _ _ S45) as C5. pose proof (sub_lc up _ _ S45) as Lc5.
    assert (C6 : carry up d6 = carry up d3) by (unfold carry_of in *; destruct up; congruence).
    subst d'.
    split; [destruct O6 as [A B]; split; unfold powered in *; destruct up; cbn [negb up_on down_on upd_times] in *; auto|].
    split; [apply (NT_transfer k up d6); [apply (NT_transfer k up d5 d6 N5); left; auto|left; fld; auto]|].
    split; [unfold carry_of in *; destruct up; fld; exact C6|].
    split; [intros S0; fld; rewrite St6, St5; congruence|].
    intros [D1 D2]. apply ND. rewrite Lc5. split; [exact D1|].
    unfold carry_of in *. destruct up; [left|right]; lia.
  - destruct (report_block_facts_stamps k d5 t) as (R4 & R5). rewrite <- E6 in R4, R5.
    subst d'. fld. rewrite R4, R5, (sub_now up _ _ S45), (sub_lc up _ _ S45). auto.
Qed.

Lemma timer_cb_eq k d im :
  timer_cb o k d im =
  cb_tail k (fst (fst (cb_account o k (cb_power k (cb_head k d) im (autocal_enabled k d) (counter k d)) im (counter k d) (cb_fo k d) (cb_fc k d))))
          im (counter k d)
          (snd (fst (cb_account o k (cb_power k (cb_head k d) im (autocal_enabled k d) (counter k d)) im (counter k d) (cb_fo k d) (cb_fc k d))))
          (snd (cb_account o k (cb_power k (cb_head k d) im (autocal_enabled k d) (counter k d)) im (counter k d) (cb_fo k d) (cb_fc k d))).
Proof. reflexivity. Qed.

(* One timer callback with exactly the output of direction `up` energised before and no falling edge of it logged:
   the run-time counter of that direction grows by the elapsed time (or not at all while the power-consumption
   detection holds the clock back), nothing is converted into position, the output is still on, and the
   10-minute rule did not apply at this callback. *)
Theorem timer_cb_only up k d im d' el :
  wfk k -> only up d -> NT k up d -> 0 <= carry up d ->
  el = (if frozen_cb k d im then 0 else u32 (counter k d - last_time d)) ->
  carry up d + el < 4294967296 ->
  d' = timer_cb o k d im ->
  nofall up (outs d') ->
  only up d' /\ NT k up d' /\ carry up d' = carry up d + el /\ last_time d' = counter k d /\ now d' = now d /\
  last_comm d' = (if REPORT_PERIOD_US <=? u32 (counter k d - last_comm d) then counter k d else last_comm d) /\
  ~ ((REPORT_PERIOD_US <=? u32 (counter k d - last_comm d)) = true /\ TEN_MINUTES_US < carry up d') /\
  (start_time d <> 0 -> start_time d' = start_time d).
Proof.
  intros W O N Hc Eel Hsum E' NF.
  rewrite timer_cb_eq in E'.
  destruct (cb_front_facts up k d im _ O N eq_refl) as (F2o & O2 & N2 & C2 & Lc2 & Nw2 & St2 & El2).
  remember (cb_power k (cb_head k d) im (autocal_enabled k d) (counter k d)) as d2 eqn:E2. clear E2.
  rewrite <- Eel in El2.
  destruct (cb_account_facts up k d2 im (counter k d) (cb_fo k d) (cb_fc k d) el _ W O2 N2 ltac:(lia) (eq_sym El2) ltac:(lia) eq_refl)
    as (X3 & P3 & Lc3 & Nw3).
  remember (snd (fst (cb_account o k d2 im (counter k d) (cb_fo k d) (cb_fc k d)))) as fo' eqn:Efo. clear Efo.
  remember (snd (cb_account o k d2 im (counter k d) (cb_fo k d) (cb_fc k d))) as fc' eqn:Efc. clear Efc.
  remember (fst (fst (cb_account o k d2 im (counter k d) (cb_fo k d) (cb_fc k d)))) as d3 eqn:Ed3. clear Ed3.
  destruct (cb_tail_facts up k d3 im (counter k d) fo' fc' d' E') as (X4 & P4 & Lt4 & Nw4 & Lc4).
  assert (NF3 : nofall up (outs d3)) by (exact (ext_nofall up _ _ X4 NF)).
  destruct (P3 NF3) as (O3 & N3 & C3 & St3).
  destruct (P4 NF O3 N3) as (O4 & N4 & C4 & St4 & ND).
  split; [exact O4|]. split; [exact N4|]. split; [lia|]. split; [exact Lt4|]. split; [congruence|].
  split; [rewrite Lc4, Lc3, Lc2; reflexivity|].
  split; [intros [D1 D2]; apply ND; rewrite Lc3, Lc2; split; [exact D1|lia]|].
  intros S0.
  assert (Z3 : start_time d3 = start_time d) by (rewrite St3; congruence).
  rewrite St4; congruence.
Qed.

End Callback2.

(* ====================================================================================================
   Part 2b: runs of timer callbacks — the 10-minute rule bounds the time an output stays energised
   ==================================================================================================== *)
Section Run.
Variable o : fpops.
Hypothesis OK : fp_ok o.

Lemma calibrate_d_ext k d full time p : ext d (calibrate_d o k d full time p).
Proof. destruct (calibrate_d_stamps o k d full time p) as (E & _). exists []. rewrite E. reflexivity. Qed.

Lemma acc_add_outs d up el : outs (acc_add d up el) = outs d.
Proof. unfold acc_add. destruct up; reflexivity. Qed.

Lemma acc_post_ext k p up im f : ext (fst p) (acc_post o k p up im f).
Proof. unfold acc_post. eapply ext_trans; [apply calibrate_d_ext|apply move_position_d_ext]. Qed.

Lemma acc_pre_ext k d up im el : ext d (fst (acc_pre k d up im el)).
Proof.
  pose proof (acc_pre_sub up k (acc_add d up el) im _ eq_refl) as S. unfold acc_pre.
  destruct (sub_log up _ _ S) as [n L]. exists n. rewrite L, acc_add_outs. reflexivity.
Qed.

Lemma cb_account_ext k d im t fo fc : ext d (fst (fst (cb_account o k d im t fo fc))).
Proof.
  unfold cb_account. destruct (up_on d); [|destruct (down_on d)]; cbn [fst].
  - eapply ext_trans; [apply acc_pre_ext|apply acc_post_ext].
  - eapply ext_trans; [apply acc_pre_ext|apply acc_post_ext].
  - destruct (ac_step d =? 0); exists []; reflexivity.
Qed.

Lemma timer_cb_ext k d im : ext d (timer_cb o k d im).
Proof.
  rewrite timer_cb_eq.
  eapply ext_trans; [|exact (proj1 (cb_tail_facts true k _ im _ _ _ _ eq_refl))].
  eapply ext_trans; [|apply cb_account_ext].
  destruct (cb_head_frame k d (cb_head k d) eq_refl) as (H1 & _).
  destruct (cb_power_facts k (cb_head k d) im (autocal_enabled k d) (counter k d) _ eq_refl) as (H2 & _).
  exists []. rewrite H2, H1. reflexivity.
Qed.

(* the delayed trigger *)
Lemma sub_fire_if_due up k d target : sub up d (fire_if_due k d target).
Proof.
  unfold fire_if_due. destruct (delayed d) as [[[v due] req]|]; [|apply sub_refl].
  destruct (due <=? target); [|apply sub_refl].
  unfold fire_delayed. destruct (delayed d) as [[[v' due'] req']|]; [|apply sub_refl].
  eapply sub_trans; [|apply sub_set_relay].
  eapply sub_trans; [apply (sub_pause up d (Z.max (clk d) due'))|].
  eapply sub_trans; [apply sub_disarm|]. unfold disarm. fld.
  destruct req'; [apply sub_set_button_req|apply sub_refl].
Qed.

Definition stamped (k : kcfg) (d : dev) : Prop := last_time d = u32 (k_boot k + now d).

Lemma u32_shift x dt lc : u32 (u32 (x + dt) - lc) = u32 (u32 (x - lc) + dt).
Proof. unfold u32. rewrite Zminus_mod_idemp_l, Zplus_mod_idemp_l. f_equal. lia. Qed.

(* the state at the start of the callback, for an output that stays energised *)
Lemma cb_entry_facts up k d dt e :
  only up d -> NT k up d -> e = cb_entry k d dt -> nofall up (outs e) ->
  only up e /\ NT k up e /\ carry up e = carry up d /\ last_time e = last_time d /\ last_comm e = last_comm d /\
  now e = now d + dt /\ clk e = now d + dt /\ (start_time d <> 0 -> start_time e = start_time d).
Proof.
  intros O N Ee NF. unfold cb_entry, set_clock in Ee.
  pose proof (sub_fire_if_due up k (begin_event d) (now d + dt)) as Sf.
  assert (Ob : only up (begin_event d)) by (destruct O as [P Q]; unfold only, powered, begin_event in *; destruct up; cbn [negb] in *; frw; auto).
  assert (Nb : NT k up (begin_event d)) by (apply (NT_transfer k up d _ N); left; unfold begin_event; frw; auto).
  assert (Fb : up_time (begin_event d) = up_time d /\ down_time (begin_event d) = down_time d /\ last_time (begin_event d) = last_time d /\
               last_comm (begin_event d) = last_comm d /\ start_time (begin_event d) = start_time d) by (unfold begin_event; frw; auto).
  destruct Fb as (B1 & B2 & B3 & B4 & B5).
  remember (begin_event d) as db eqn:Eb. clear Eb.
  remember (fire_if_due k db (now d + dt)) as df eqn:Ef. clear Ef.
  assert (NFf : nofall up (outs df)) by (subst e; rewrite outs_upd_misc in NF; exact NF).
  destruct (sub_bundle k up db df Sf NFf Ob Nb) as (Of & Nf & Sfs).
  pose proof (sub_carry up _ _ Sf) as Cf. pose proof (sub_lt up _ _ Sf) as Lf. pose proof (sub_lc up _ _ Sf) as Lcf.
  subst e.
  split; [destruct Of as [P Q]; unfold only, powered in *; destruct up; cbn [negb] in *; frw; auto|].
  split; [apply (NT_transfer k up df _ Nf); left; frw; auto|].
  split; [unfold carry_of in *; destruct up; frw; congruence|].
  frw. repeat split; try congruence. intros S0. rewrite Sfs; congruence.
Qed.

(* one Cb event with the output of direction `up` energised throughout *)
Theorem step_cb_only up k d dt sm d' el :
  wfk k -> only up d -> NT k up d -> 0 <= carry up d -> 0 <= dt < 4294967296 -> stamped k d ->
  d' = step o k d (Cb dt sm) ->
  nofall up (outs d') ->
  el = (if frozen_cb k (cb_entry k d dt) (sensor k (cb_entry k d dt) sm) then 0 else dt) ->
  carry up d + el < 4294967296 ->
  only up d' /\ NT k up d' /\ carry up d' = carry up d + el /\ stamped k d' /\ now d' = now d + dt /\
  last_comm d' = (if REPORT_PERIOD_US <=? u32 (u32 (k_boot k + now d + dt) - last_comm d) then u32 (k_boot k + now d + dt) else last_comm d) /\
  ~ ((REPORT_PERIOD_US <=? u32 (u32 (k_boot k + now d + dt) - last_comm d)) = true /\ TEN_MINUTES_US < carry up d') /\
  (start_time d <> 0 -> start_time d' = start_time d).
Proof.
  intros W O N Hc Hdt St E' NF Eel Hsum.
  cbn [C10.Model.step] in E'. unfold set_clock in E'.
  assert (NFt : nofall up (outs (timer_cb o k (cb_entry k d dt) (sensor k (cb_entry k d dt) sm)))) by (subst d'; rewrite outs_upd_misc in NF; exact NF).
  assert (NFe : nofall up (outs (cb_entry k d dt))) by (exact (ext_nofall up _ _ (timer_cb_ext k _ _) NFt)).
  destruct (cb_entry_facts up k d dt _ O N eq_refl NFe) as (Oe & Ne & Ce & Le & Lce & Nwe & Cke & Ste).
  remember (cb_entry k d dt) as e eqn:Ee. clear Ee.
  remember (sensor k e sm) as im eqn:Eim. clear Eim.
  assert (Ct : counter k e = u32 (k_boot k + now d + dt)) by (unfold counter; rewrite Cke; f_equal; lia).
  assert (Eel' : el = (if frozen_cb k e im then 0 else u32 (counter k e - last_time e))).
  { subst el. destruct (frozen_cb k e im); [reflexivity|]. rewrite Ct, Le, St.
    pose proof (u32_diff_shift (k_boot k) (now d + dt) (now d)) as X.
    replace (now d + dt - now d) with dt in X by lia. replace (k_boot k + (now d + dt)) with (k_boot k + now d + dt) in X by lia.
    symmetry. apply X. lia. }
  destruct (timer_cb_only o OK up k e im _ el W Oe Ne ltac:(lia) Eel' ltac:(lia) eq_refl NFt) as (O' & N' & C' & Lt' & Nw' & Lc' & ND & St').
  remember (timer_cb o k e im) as dc eqn:Edc. clear Edc.
  subst d'.
  split; [destruct O' as [P Q]; unfold only, powered in *; destruct up; cbn [negb] in *; frw; auto|].
  split; [apply (NT_transfer k up dc _ N'); left; frw; auto|].
  split; [unfold carry_of in *; destruct up; frw; lia|].
  split; [unfold stamped; frw; rewrite Lt', Ct; f_equal; lia|].
  split; [frw; reflexivity|].
  split; [frw; rewrite Lc', Ct, Lce; reflexivity|].
  split.
  { intros [D1 D2]. apply ND. rewrite Ct, Lce. split; [exact D1|]. unfold carry_of in *. destruct up; frw_in D2; exact D2. }
  intros S0. frw. rewrite St'; [apply Ste; exact S0|]. rewrite Ste; auto.
Qed.

(* ---------- the run ---------- *)
(* a run of timer callbacks (interval, sensor mode) during which the output of direction `up` never falls *)
Fixpoint on_run (up : bool) (k : kcfg) (d : dev) (evs : list (Z * Z)) : Prop :=
  match evs with
  | [] => True
  | (dt, sm) :: r => nofall up (outs (step o k d (Cb dt sm))) /\ on_run up k (step o k d (Cb dt sm)) r
  end.
(* the part of the elapsed time that the run-time counter sees: everything except the callbacks at which the
   power-consumption detection of an auto-calibrating board holds the clock back *)
Fixpoint counted (k : kcfg) (d : dev) (evs : list (Z * Z)) : Z :=
  match evs with
  | [] => 0
  | (dt, sm) :: r => (if frozen_cb k (cb_entry k d dt) (sensor k (cb_entry k d dt) sm) then 0 else dt) + counted k (step o k d (Cb dt sm)) r
  end.
Definition elapsed (evs : list (Z * Z)) : Z := fold_right (fun e a => fst e + a) 0 evs.

(* age of the last report stamp *)
Definition age_c (k : kcfg) (d : dev) : Z := u32 (u32 (k_boot k + now d) - last_comm d).
Definition potential (up : bool) (k : kcfg) (tau : Z) (d : dev) : Z :=
  if carry up d <=? TEN_MINUTES_US then TEN_MINUTES_US - carry up d + REPORT_PERIOD_US + tau
  else REPORT_PERIOD_US - age_c k d.
Definition run_inv (up : bool) (k : kcfg) (tau : Z) (d : dev) : Prop :=
  only up d /\ NT k up d /\ stamped k d /\ 0 <= carry up d /\
  (TEN_MINUTES_US < carry up d -> carry up d <= TEN_MINUTES_US + tau + age_c k d) /\ 0 <= age_c k d < 2147483648.

Lemma potential_step up k tau d dt sm :
  wfk k -> 0 <= tau <= 1000000 -> 0 < dt <= tau -> run_inv up k tau d ->
  nofall up (outs (step o k d (Cb dt sm))) ->
  let d1 := step o k d (Cb dt sm) in
  let el := if frozen_cb k (cb_entry k d dt) (sensor k (cb_entry k d dt) sm) then 0 else dt in
  run_inv up k tau d1 /\ 0 <= potential up k tau d1 /\ potential up k tau d1 <= potential up k tau d - el.
Proof.
  intros W Htau Hdt (O & N & St & Hc & Hbig & Hage) NF. cbv zeta.
  set (el := if frozen_cb k (cb_entry k d dt) (sensor k (cb_entry k d dt) sm) then 0 else dt).
  assert (Hel : 0 <= el <= dt) by (unfold el; destruct (frozen_cb _ _ _); lia).
  assert (TENv : TEN_MINUTES_US = 600000000) by reflexivity.
  assert (Rv : REPORT_PERIOD_US = 200000) by reflexivity.
  assert (Hsum : carry up d + el < 4294967296).
  { destruct (Z_lt_le_dec TEN_MINUTES_US (carry up d)) as [B|B]; [specialize (Hbig B)|]; lia. }
  destruct (step_cb_only up k d dt sm _ el W O N Hc ltac:(lia) St eq_refl NF eq_refl Hsum) as (O1 & N1 & C1 & St1 & Nw1 & Lc1 & ND & _).
  remember (step o k d (Cb dt sm)) as d1 eqn:E1. clear E1.
  (* the age of the report stamp *)
  set (v := u32 (u32 (k_boot k + now d + dt) - last_comm d)) in *.
  assert (Hv : v = age_c k d + dt).
  { assert (Hage' : age_c k d = u32 (k_boot k + now d - last_comm d)) by (unfold age_c; apply u32_sub_l).
    unfold v. rewrite u32_shift, <- Hage'. apply u32_small. lia. }
  assert (A1 : age_c k d1 = if REPORT_PERIOD_US <=? v then 0 else v).
  { unfold age_c. rewrite Nw1, Lc1. replace (k_boot k + (now d + dt)) with (k_boot k + now d + dt) by lia.
    destruct (REPORT_PERIOD_US <=? v); [apply u32_self|reflexivity]. }
  assert (J1 : run_inv up k tau d1).
  { unfold run_inv. split; [exact O1|]. split; [exact N1|]. split; [exact St1|]. split; [lia|]. split.
    - intros B. rewrite C1 in *.
      destruct (REPORT_PERIOD_US <=? v) eqn:Ed.
      + exfalso. apply ND. split; [reflexivity|lia].
      + rewrite A1, Hv. destruct (Z_lt_le_dec TEN_MINUTES_US (carry up d)) as [B0|B0]; [specialize (Hbig B0)|]; lia.
    - rewrite A1. destruct (REPORT_PERIOD_US <=? v) eqn:Ed; [lia|]. apply Z.leb_gt in Ed. lia. }
  split; [exact J1|].
  unfold potential. rewrite C1.
  destruct (carry up d <=? TEN_MINUTES_US) eqn:E0; [apply Z.leb_le in E0|apply Z.leb_gt in E0].
  - destruct (carry up d + el <=? TEN_MINUTES_US) eqn:E2; [apply Z.leb_le in E2; lia|apply Z.leb_gt in E2].
    rewrite A1. destruct (REPORT_PERIOD_US <=? v) eqn:Ed.
    + exfalso. apply ND. split; [reflexivity|lia].
    + apply Z.leb_gt in Ed. lia.
  - assert (E2 : (carry up d + el <=? TEN_MINUTES_US) = false) by (apply Z.leb_gt; lia). rewrite E2.
    rewrite A1. destruct (REPORT_PERIOD_US <=? v) eqn:Ed.
    + exfalso. apply ND. split; [reflexivity|lia].
    + apply Z.leb_gt in Ed. lia.
Qed.

Lemma counted_bound up k tau evs : forall d,
  wfk k -> 0 <= tau <= 1000000 -> Forall (fun e => 0 < fst e <= tau) evs -> run_inv up k tau d -> on_run up k d evs ->
  counted k d evs <= Z.max 0 (potential up k tau d).
Proof.
  induction evs as [|[dt sm] r IH]; intros d W Htau Hev J Hon.
  - cbn [counted]. lia.
  - cbn [counted]. inversion Hev as [|? ? Hd Hr]; subst. cbn [fst] in Hd. destruct Hon as [NF Hon].
    destruct (potential_step up k tau d dt sm W Htau Hd J NF) as (J1 & P0 & P1).
    specialize (IH _ W Htau Hr J1 Hon). lia.
Qed.

(* Bounded power, state without accountable travel.  Whatever the sensor reports, whatever the task / auto-calibration
   state is: as long as the output of direction `up` does not fall, the time counted by the run-time counter stays
   below ten minutes + one reporting period + one callback interval (minus what the counter already shows). *)
Theorem C10_bounded_power_counted_thm up k tau d evs :
  wfk k -> 0 <= tau <= 1000000 -> Forall (fun e => 0 < fst e <= tau) evs ->
  only up d -> NT k up d -> stamped k d -> 0 <= carry up d <= TEN_MINUTES_US -> 0 <= age_c k d < 2147483648 ->
  on_run up k d evs ->
  counted k d evs <= TEN_MINUTES_US - carry up d + REPORT_PERIOD_US + tau.
Proof.
  intros W Htau Hev O N St Hc Hage Hon.
  assert (J : run_inv up k tau d).
  { unfold run_inv. split; [exact O|]. split; [exact N|]. split; [exact St|]. split; [lia|]. split; [intros; lia|lia]. }
  pose proof (counted_bound up k tau evs d W Htau Hev J Hon) as B.
  unfold potential in B. replace (carry up d <=? TEN_MINUTES_US) with true in B by (symmetry; apply Z.leb_le; lia).
  assert (REPORT_PERIOD_US = 200000) by reflexivity. lia.
Qed.

(* without the auto-calibration channel flag every callback counts *)
Lemma counted_noflag k evs : forall d, k_autocal_flag k = false -> counted k d evs = elapsed evs.
Proof.
  induction evs as [|[dt sm] r IH]; intros d F; [reflexivity|].
  cbn [counted elapsed fold_right fst]. unfold frozen_cb, autocal_enabled. rewrite F, andb_false_r. cbn [andb].
  rewrite (IH _ F). reflexivity.
Qed.

Theorem C10_bounded_power_thm up k tau d evs :
  wfk k -> k_autocal_flag k = false -> 0 <= tau <= 1000000 -> Forall (fun e => 0 < fst e <= tau) evs ->
  only up d -> NT k up d -> stamped k d -> 0 <= carry up d <= TEN_MINUTES_US -> 0 <= age_c k d < 2147483648 ->
  on_run up k d evs ->
  elapsed evs <= TEN_MINUTES_US + REPORT_PERIOD_US + tau.
Proof.
  intros W F Htau Hev O N St Hc Hage Hon.
  pose proof (C10_bounded_power_counted_thm up k tau d evs W Htau Hev O N St Hc Hage Hon) as B.
  rewrite (counted_noflag k evs d F) in B. lia.
Qed.

End Run.

