(* C10 — proofs about the roller-shutter module model (C10/Model.v), part 2: bounded power (10-minute rule;
   calibrated move), task stop accuracy, auto-calibration outcome.  Part 1 (how the operations inside a callback treat
   an output that stays energised) is C10/Frame.v. *)
From Coq Require Import List ZArith Bool Lia.
Import ListNotations.
From V Require Import Base.U32 Base.Iface Gen.RsConsts C09.Model C09.Proofs C10.Model C10.Frame.
Local Open Scope Z_scope.

Notation pos := C10.Model.pos.
Notation tilt := C10.Model.tilt.
Notation up_time := C10.Model.up_time.
Notation down_time := C10.Model.down_time.
Notation last_time := C10.Model.last_time.
Notation last_comm := C10.Model.last_comm.
Notation now := C10.Model.now.
Notation flags := C10.Model.flags.
Notation timer_cb := C10.Model.timer_cb.
Notation step := C10.Model.step.

(* ====================================================================================================
   Part 2a: one timer callback while the output of direction `up` stays energised and no travel can be
   accounted (position unknown, or at the end stop of that direction)
   ==================================================================================================== *)
Definition carry (up : bool) (d : dev) : Z := if up then up_time d else down_time d.
Definition wfk (k : kcfg) : Prop := k_tilt_type k = 0 -> k_tilt_ms k = 0.
(* no travel left in direction `up` that the accounting could convert *)
Definition NT (k : kcfg) (up : bool) (d : dev) : Prop :=
  known (pos d) = false \/
  (known (pos d) = true /\ remaining up (pos d) = 0 /\ (tilt_sup k = true -> known (tilt d) = true /\ remaining up (tilt d) = 0)).

Definition ext (d d' : dev) : Prop := exists n, outs d' = n ++ outs d.
Lemma ext_refl d : ext d d. Proof. exists []; reflexivity. Qed.
Lemma ext_trans a b c : ext a b -> ext b c -> ext a c.
Proof. intros [x X] [y Y]. exists (y ++ x). rewrite Y, X, app_assoc. reflexivity. Qed.
Lemma ext_nofall up d d' : ext d d' -> nofall up (outs d') -> nofall up (outs d).
Proof. intros [n E] H. rewrite E in H. apply nofall_app in H. tauto. Qed.
Lemma sub_ext up d d' : sub up d d' -> ext d d'. Proof. intros S. exact (sub_log up d d' S). Qed.

Section Callback.
Variable o : fpops.
Hypothesis OK : fp_ok o.

Lemma adjust_at_end up x rt time Tq :
  100 <= x <= 10100 -> remaining up x = 0 -> 0 <= time -> 0 <= Tq < 4294967296 ->
  rt = 0 \/ rt = fp_rem o 0 Tq -> adjust o up x rt time Tq = (x, 0).
Proof.
  intros Hx Hr Ht HT Hrt. unfold adjust.
  destruct (0 <? rt) eqn:E0; [|reflexivity]. apply Z.ltb_lt in E0.
  destruct Hrt as [Hrt|Hrt]; [lia|].
  assert (HTq : 0 < Tq < 4294967296).
  { destruct (Z.eq_dec Tq 0) as [->|]; [|lia]. rewrite (FP0 o OK) in Hrt. lia. }
  pose proof (FP1 o OK 0 Tq ltac:(lia) HTq) as F1. rewrite <- Hrt in F1. cbn in F1.
  assert (Hend : (if up then 100 else 10100) = x) by (unfold remaining in Hr; destruct up; lia).
  assert (Hr0 : (if up then x - 100 else 10100 - x) = 0) by (unfold remaining in Hr; exact Hr).
  destruct (rt <=? time) eqn:E1.
  - rewrite Hr0, Hend. rewrite (FP3 o OK 0 Tq ltac:(lia) HT). reflexivity.
  - apply Z.leb_gt in E1. assert (time = 0) by lia. subst time.
    rewrite (FP2 o OK 0 Tq ltac:(lia) HTq ltac:(lia)). cbn [Z.mul]. rewrite Z.div_0_l by lia.
    rewrite (FP3 o OK 0 Tq ltac:(lia) HT). cbn.
    f_equal. destruct up; lia.
Qed.

Lemma move_position_at_end c p tl time full_ms up :
  wf_cfg c -> known p = true -> remaining up p = 0 ->
  (tilt_supported c = true -> known tl = true /\ remaining up tl = 0) ->
  0 <= time < 4294967296 ->
  let m := move_position o c p tl time full_ms up in
  m_pos m = p /\ (tilt_supported c = true -> m_tilt m = tl) /\ m_time m = time.
Proof.
  intros W K R T Ht. cbv zeta. unfold move_position.
  rewrite K. cbn [negb orb].
  destruct (full_ms =? 0); [cbn [m_pos m_tilt m_time]; auto|].
  pose proof K as Kp. apply known_true in Kp.
  set (Tt := u32 (tilt_ms c * 1000)).
  set (full_time := u32 (full_ms * 1000)).
  set (Tp := if keeps_position c then u32 (full_time - Tt) else full_time).
  assert (HTt : 0 <= Tt < 4294967296) by apply u32_range.
  assert (HTp : 0 <= Tp < 4294967296) by (unfold Tp, full_time; destruct (keeps_position c); apply u32_range).
  assert (Hrp : u32 (if up then p - 100 else 10100 - p) = 0).
  { unfold remaining in R. rewrite R. reflexivity. }
  (* tilt block: returns (tilt2, 0) *)
  set (fixed := (tilt_type c =? TILT_ONLY_CLOSED) && (p <? 10100)).
  set (tilt1 := if tilt_supported c && negb (known tl) then 100 else tl).
  set (tilt2 := if fixed then 100 else tilt1).
  set (rtt := if fixed then 0 else fp_rem o (u32 (if up then tilt1 - 100 else 10100 - tilt1)) Tt).
  assert (A1 : adjust o up tilt2 rtt time Tt = (tilt2, 0) /\ (tilt_supported c = true -> tilt2 = tl)).
  { destruct (tilt_supported c) eqn:S.
    - destruct (T eq_refl) as [Kt Rt]. pose proof Kt as Kt'. apply known_true in Kt'.
      assert (tilt1 = tl) by (unfold tilt1; rewrite Kt; reflexivity).
      assert (tilt2 = tl).
      { unfold tilt2. destruct fixed eqn:F; [|exact H].
        unfold fixed in F. apply andb_true_iff in F. destruct F as [_ F]. apply Z.ltb_lt in F.
        (* not fully closed: p = 100 (the end stop of "up"), so the tilt at its end stop is 100 as well *)
        unfold remaining in R, Rt. destruct up; lia. }
      split; [|intros _; exact H0].
      rewrite H0. apply adjust_at_end; auto; try lia.
      unfold rtt. destruct fixed; [left; reflexivity|right]. rewrite H. unfold remaining in Rt. rewrite Rt. reflexivity.
    - split; [|discriminate].
      assert (tilt_ms c = 0).
      { unfold tilt_supported in S. apply negb_false_iff in S. apply orb_true_iff in S.
        destruct S as [S|S]; apply Z.eqb_eq in S; auto. }
      assert (Tt = 0) by (unfold Tt; rewrite H; reflexivity).
      assert (rtt = 0) by (unfold rtt; destruct fixed; [reflexivity|rewrite H0; apply (FP0 o OK)]).
      rewrite H1. reflexivity. }
  destruct A1 as [A1 A1t]. rewrite A1. cbn [fst snd].
  replace (0 <? 0) with false by reflexivity. cbn [andb].
  rewrite Hrp.
  rewrite (adjust_at_end up p (fp_rem o 0 Tp) time Tp Kp R ltac:(lia) HTp (or_intror eq_refl)).
  cbn [fst snd].
  assert (Htd : (if 0 <? fp_rem o 0 Tp then 0 else 0) = 0) by (destruct (0 <? fp_rem o 0 Tp); reflexivity).
  rewrite Htd. replace (time <? 0) with false by (symmetry; apply Z.ltb_ge; lia).
  cbn [m_pos m_tilt m_time]. split; [reflexivity|]. split; [exact A1t|lia].
Qed.

(* ---------- stages of the callback that are not plain sub-steps ---------- *)
Lemma cb_power_facts k d im ae t :
  let d' := cb_power k d im ae t in
  outs d' = outs d /\ up_on d' = up_on d /\ down_on d' = down_on d /\ up_time d' = up_time d /\ down_time d' = down_time d /\
  last_comm d' = last_comm d /\ pos d' = pos d /\ tilt d' = tilt d /\ start_time d' = start_time d /\ now d' = now d /\
  last_time d' = (if (up_on d || down_on d) && ae && negb (detected d || im) && (u32 (t - start_time d) <? POWER_DETECT_US)
                  then t else last_time d).
Proof.
  cbv zeta. unfold cb_power.
  destruct (up_on d || down_on d); cbn [andb]; [|fld; repeat split; reflexivity].
  destruct ae; cbn [andb]; [|repeat split; reflexivity].
  destruct (detected d); cbn [orb negb andb]; [fld; repeat split; reflexivity|].
  destruct im; cbn [negb andb]; [fld; repeat split; reflexivity|].
  fld. destruct (u32 (t - start_time d) <? POWER_DETECT_US); fld; repeat split; reflexivity.
Qed.

Definition end_of (up : bool) : Z := if up then 100 else 10100.

Lemma calibrate_d_facts k d full time up :
  wfk k -> NT k up d ->
  let d' := calibrate_d o k d full time (end_of up) in
  same_frame d d' /\ NT k up d' /\ stop_time d' = stop_time d.
Proof.
  intros W N. cbv zeta. unfold calibrate_d.
  destruct (negb (known (pos d)) && (0 <? full)) eqn:E.
  2:{ split; [unfold same_frame; repeat split; reflexivity|]. split; [exact N|reflexivity]. }
  apply andb_true_iff in E. destruct E as [E _]. apply negb_true_iff in E.
  unfold calibrate. fld. rewrite E. cbn [negb andb].
  destruct (0 <? full); cbn [andb].
  2:{ fld. split; [unfold same_frame; fld; repeat split; reflexivity|]. split; [left; fld; exact E|reflexivity]. }
  destruct (fp_cal o full <=? time / 1000); fld.
  - split; [unfold same_frame; fld; repeat split; reflexivity|]. split; [|reflexivity].
    right. fld. unfold end_of, remaining.
    assert (TS : forall x, tilt_supported (cfg_of k x) = tilt_sup k) by reflexivity.
    rewrite TS. destruct up; (split; [reflexivity|]); (split; [reflexivity|]); intros S; rewrite S; split; reflexivity.
  - split; [unfold same_frame; fld; repeat split; reflexivity|]. split; [left; fld; reflexivity|reflexivity].
Qed.

Lemma wf_cfg_of k d : wfk k -> wf_cfg (cfg_of k d).
Proof. intros W. exact W. Qed.

Lemma move_position_d_facts k d full up im :
  wfk k -> NT k up d -> only up d -> 0 <= carry up d < 4294967296 ->
  let d' := move_position_d o k d full up im in
  ext d d' /\ (nofall up (outs d') -> only up d' /\ NT k up d' /\ start_time d' = start_time d) /\
  up_time d' = up_time d /\ down_time d' = down_time d /\
  last_time d' = last_time d /\ last_comm d' = last_comm d /\ now d' = now d.
Proof.
  intros W N O Hc. cbv zeta. unfold move_position_d.
  set (time := if up then up_time d else down_time d).
  set (m := move_position o (cfg_of k d) (pos d) (tilt d) time full up).
  assert (M : m_pos m = pos d /\ (tilt_sup k = true -> m_tilt m = tilt d) /\ m_time m = time /\ (known (pos d) = false -> m_off m = false /\ m_tilt m = tilt d)).
  { destruct N as [N|(K & R & T)].
    - unfold m, move_position. rewrite N. cbn [negb orb m_pos m_tilt m_time m_off]. repeat split; auto.
    - pose proof (move_position_at_end (cfg_of k d) (pos d) (tilt d) time full up (wf_cfg_of k d W) K R T Hc) as (A & B & C).
      fold m in A, B, C. repeat split; auto; intros; congruence. }
  destruct M as (Mp & Mt & Mtime & Munk).
  set (d1 := upd_pt d (m_pos m) (m_tilt m)).
  set (d2 := if up then upd_times d1 (m_time m) (down_time d1) (last_time d1) (last_comm d1)
             else upd_times d1 (up_time d1) (m_time m) (last_time d1) (last_comm d1)).
  assert (F2 : same_frame d d2).
  { unfold same_frame, d2, d1, time in *. destruct up; fld; rewrite Mtime; repeat split; reflexivity. }
  assert (N2 : NT k up d2).
  { unfold NT. assert (pos d2 = pos d) by (unfold d2, d1; destruct up; fld; exact Mp).
    assert (tilt_sup k = true -> tilt d2 = tilt d) by (intros S; unfold d2, d1; destruct up; fld; exact (Mt S)).
    rewrite H. destruct N as [N|(K & R & T)]; [left; exact N|right].
    split; [exact K|]. split; [exact R|]. intros S. rewrite (H0 S). exact (T S). }
  assert (O2 : only up d2).
  { destruct F2 as (_ & Hu & Hd & _). destruct O as [P Q]. unfold only, powered in *. destruct up; cbn [negb] in *; rewrite Hu, Hd; auto. }
  destruct F2 as (Fo & Fu & Fd & F1 & F2' & F3 & F4 & F5 & F6 & F7).
  destruct (m_off m).
  - set (d3 := if autocal_done d2 && im then fl_set d2 FLAG_CALIBRATION_LOST else d2).
    assert (S3 : sub up d2 d3) by (unfold d3; subt).
    pose proof (sub_set_relay up k d3 RELAY_OFF false false) as S4.
    pose proof (sub_trans up _ _ _ S3 S4) as S.
    split; [destruct (sub_log up _ _ S) as [n L]; exists n; rewrite L, Fo; reflexivity|].
    split.
    { intros NF. exfalso.
      assert (P3 : powered up d3 = true).
      { destruct (sub_on up _ _ S3 (ext_nofall up _ _ (sub_ext up _ _ S4) NF) O2) as [P _]. exact P. }
      exact (set_relay_off_falls up k d3 false P3 NF). }
    rewrite (sub_ut up _ _ S), (sub_dt up _ _ S), (sub_lt up _ _ S), (sub_lc up _ _ S), (sub_now up _ _ S).
    repeat split; congruence.
  - split; [exists []; rewrite Fo; reflexivity|]. split; [intros _; repeat split; auto; try apply O2; congruence|].
    repeat split; congruence.
Qed.

(* the "new value" half of the 200 ms block *)
Definition rb_report (k : kcfg) (d : dev) : dev :=
  if negb (C10.Model.last_pos d =? pos d) || negb (C10.Model.last_flags d =? flags d) || negb (C10.Model.last_tilt d =? tilt d) then
    let f1 := flags d in
    let c := cfg_of k d in
    let f2 := if k_tilt_type k =? TILT_NOT_SUPPORTED then clear_flag f1 FLAG_TILT_IS_SET
              else if is_tilt_set c (tilt d) then set_flag f1 FLAG_TILT_IS_SET else clear_flag f1 FLAG_TILT_IS_SET in
    let b1 := if k_tilt_type k =? TILT_NOT_SUPPORTED then 0 else s8_byte (current_tilt c (tilt d)) in
    upd_rep d f2 (pos d) (tilt d) f1
            (mk 1 [] [s8_byte (cur_pos d); b1; 0; f2 mod 256; f2 / 256; 0; 0; 0] :: outs d)
  else d.
Lemma report_block_eq k d t :
  report_block k d t =
  if REPORT_PERIOD_US <=? u32 (t - last_comm d) then
    let d1 := rb_report k d in
    let d2 := if (TEN_MINUTES_US <? up_time d1) || (TEN_MINUTES_US <? down_time d1) then set_relay k d1 RELAY_OFF false false else d1 in
    upd_times d2 (up_time d2) (down_time d2) (last_time d2) t
  else d.
Proof. reflexivity. Qed.

Lemma rb_report_facts up k d :
  let d1 := rb_report k d in
  (exists n, outs d1 = n ++ outs d /\ nofall up n) /\
  up_on d1 = up_on d /\ down_on d1 = down_on d /\ up_time d1 = up_time d /\ down_time d1 = down_time d /\
  last_time d1 = last_time d /\ last_comm d1 = last_comm d /\ now d1 = now d /\ pos d1 = pos d /\ tilt d1 = tilt d /\ start_time d1 = start_time d.
Proof.
  cbv zeta. unfold rb_report.
  destruct (negb (C10.Model.last_pos d =? pos d) || negb (C10.Model.last_flags d =? flags d) || negb (C10.Model.last_tilt d =? tilt d)).
  - cbv zeta. cbn [outs up_on down_on C10.Model.up_time C10.Model.down_time C10.Model.last_time C10.Model.last_comm C10.Model.now C10.Model.pos C10.Model.tilt start_time upd_rep].
    split; [|repeat split; reflexivity].
    eexists [_]. split; [reflexivity|]. apply nofall_cons. split; [reflexivity|apply nofall_nil].
  - split; [exists []; split; [reflexivity|apply nofall_nil]|repeat split; reflexivity].
Qed.

Lemma report_block_facts up k d t :
  only up d ->
  let d' := report_block k d t in
  let due := REPORT_PERIOD_US <=? u32 (t - last_comm d) in
  ext d d' /\ up_time d' = up_time d /\ down_time d' = down_time d /\ last_time d' = last_time d /\ now d' = now d /\
  last_comm d' = (if due then t else last_comm d) /\
  (nofall up (outs d') -> only up d' /\ pos d' = pos d /\ tilt d' = tilt d /\ start_time d' = start_time d /\
                          ~ (due = true /\ (TEN_MINUTES_US < up_time d \/ TEN_MINUTES_US < down_time d))).
Proof.
  intros O. cbv zeta. rewrite report_block_eq.
  destruct (REPORT_PERIOD_US <=? u32 (t - last_comm d)) eqn:Edue.
  2:{ split; [apply ext_refl|]. repeat split; auto; try apply O. intros [X _]; discriminate. }
  cbv zeta.
  pose proof (rb_report_facts up k d) as F. cbv zeta in F.
  set (d1 := rb_report k d) in *. clearbody d1.
  destruct F as ([n1 [L1 NF1]] & Fu & Fd & F1 & F2 & F3 & F4 & F5 & F6 & F7 & F8).
  assert (O1 : only up d1) by (destruct O as [P Q]; unfold only, powered in *; destruct up; cbn [negb] in *; rewrite Fu, Fd; auto).
  rewrite F1, F2.
  destruct ((TEN_MINUTES_US <? up_time d) || (TEN_MINUTES_US <? down_time d)) eqn:Elong.
  - pose proof (sub_set_relay up k d1 RELAY_OFF false false) as S.
    assert (NFF : ~ nofall up (outs (set_relay k d1 RELAY_OFF false false))) by (destruct O1 as [P _]; exact (set_relay_off_falls up k d1 false P)).
    set (d2 := set_relay k d1 RELAY_OFF false false) in *.
    clearbody d2.
    destruct (sub_log up _ _ S) as [n L].
    pose proof (sub_ut up _ _ S). pose proof (sub_dt up _ _ S). pose proof (sub_lt up _ _ S). pose proof (sub_now up _ _ S).
    unfold ext. cbn [outs C10.Model.up_time C10.Model.down_time C10.Model.last_time C10.Model.last_comm C10.Model.now upd_times].
    split; [exists (n ++ n1); rewrite L, L1, app_assoc; reflexivity|].
    split; [congruence|]. split; [congruence|]. split; [congruence|]. split; [congruence|]. split; [reflexivity|].
    intros NF. exfalso. exact (NFF NF).
  - unfold ext. cbn [outs C10.Model.up_time C10.Model.down_time C10.Model.last_time C10.Model.last_comm C10.Model.now C10.Model.pos C10.Model.tilt start_time upd_times].
    split; [exists n1; exact L1|].
    split; [congruence|]. split; [congruence|]. split; [congruence|]. split; [congruence|]. split; [reflexivity|].
    intros NF. split.
    { destruct O1 as [P Q]. split; unfold powered in *; destruct up; cbn [negb up_on down_on upd_times] in *; auto. }
    split; [congruence|]. split; [congruence|]. split; [congruence|].
    intros [_ X]. apply orb_false_iff in Elong. destruct Elong as [A B]. apply Z.ltb_ge in A. apply Z.ltb_ge in B. lia.
Qed.

End Callback.

Section Callback2.
Variable o : fpops.
Hypothesis OK : fp_ok o.

Lemma NT_transfer k up d d' :
  NT k up d -> (pos d' = pos d /\ tilt d' = tilt d) \/ known (pos d') = false -> NT k up d'.
Proof.
  intros N [[P T]|U]; [|left; exact U]. unfold NT in *. rewrite P, T. exact N.
Qed.

(* what a sub-step hands on when the output stays energised *)
Lemma sub_bundle k up d d' :
  sub up d d' -> nofall up (outs d') -> only up d -> NT k up d ->
  only up d' /\ NT k up d' /\ up_time d' = up_time d /\ down_time d' = down_time d /\ last_time d' = last_time d /\
  last_comm d' = last_comm d /\ now d' = now d /\ detected d' = detected d /\ (start_time d <> 0 -> start_time d' = start_time d).
Proof.
  intros S NF O N.
  split; [exact (sub_on up _ _ S NF O)|]. split; [exact (NT_transfer k up d d' N (sub_pos up _ _ S NF O))|].
  split; [exact (sub_ut up _ _ S)|]. split; [exact (sub_dt up _ _ S)|]. split; [exact (sub_lt up _ _ S)|].
  split; [exact (sub_lc up _ _ S)|]. split; [exact (sub_now up _ _ S)|]. split; [exact (sub_det up _ _ S)|].
  exact (sub_start up _ _ S NF O).
Qed.

Lemma cb_head_frame k d :
  let d' := cb_head k d in
  outs d' = outs d /\ up_on d' = up_on d /\ down_on d' = down_on d /\ start_time d' = start_time d /\ detected d' = detected d /\
  up_time d' = up_time d /\ down_time d' = down_time d /\ last_time d' = last_time d /\ last_comm d' = last_comm d /\ now d' = now d /\
  clk d' = clk d /\ ((pos d' = pos d /\ tilt d' = tilt d) \/ known (pos d') = false).
Proof.
  cbv zeta. unfold cb_head.
  destruct (autocal_enabled k d).
  - destruct ((aot d =? 0) && (act d =? 0)); fld; repeat split; auto.
  - destruct (negb (act d =? 0) || negb (aot d =? 0) || negb (ac_step d =? 0)); fld; repeat split; auto.
Qed.

Definition frozen_cb (k : kcfg) (d : dev) (im : bool) : bool :=
  autocal_enabled k d && negb (detected d || im) && (u32 (counter k d - start_time d) <? POWER_DETECT_US).

(* the accounting stage when exactly the output of direction `up` is energised *)
Lemma cb_account_only up k d im t fo fc :
  wfk k -> only up d -> NT k up d ->
  let el := u32 (t - last_time d) in
  0 <= carry up d -> carry up d + el < 4294967296 ->
  let d' := fst (fst (cb_account o k d im t fo fc)) in
  ext d d' /\
  (nofall up (outs d') ->
   only up d' /\ NT k up d' /\ carry up d' = carry up d + el /\ last_time d' = last_time d /\ last_comm d' = last_comm d /\
   now d' = now d /\ (start_time d <> 0 -> start_time d' = start_time d)).
Proof.
  intros W O N. cbv zeta. intros Hc Hsum.
  pose proof (u32_range (t - last_time d)) as Hel.
  unfold cb_account. cbv zeta.
  destruct O as [P Q]. pose proof (conj P Q) as O.
  destruct up; unfold powered in P, Q; cbn [negb] in P, Q; unfold carry in *.
  - (* up *)
    rewrite P.
    set (d3 := upd_times d (u32 (up_time d + u32 (t - last_time d))) 0 (last_time d) (last_comm d)).
    assert (F3 : same_frame d (upd_times d (up_time d) (down_time d) (last_time d) (last_comm d)) ) by (unfold same_frame; fld; repeat split; reflexivity).
    assert (U3 : up_time d3 = up_time d + u32 (t - last_time d)) by (unfold d3; fld; apply u32_small; lia).
    assert (O3 : only true d3) by (unfold d3, only, powered; fld; auto).
    assert (N3 : NT k true d3) by (unfold d3, NT in *; fld; exact N).
    assert (E3 : outs d3 = outs d) by reflexivity.
    assert (L3 : last_time d3 = last_time d /\ last_comm d3 = last_comm d /\ now d3 = now d /\ start_time d3 = start_time d) by (unfold d3; fld; auto).
    clearbody d3.
    set (d4 := if 0 <? up_time d3 then check_motor k d3 true im else d3).
    assert (S4 : sub true d3 d4) by (unfold d4; destruct (0 <? up_time d3); [apply sub_check_motor|apply sub_refl]).
    clearbody d4.
    pose proof (sub_autocalibrate true k d4 im) as S5.
    set (da := autocalibrate k d4 im) in *. set (d5 := fst da) in *.
    set (fo' := if snd da then aot d5 else fo). clearbody fo'. clearbody da.
    pose proof (sub_trans true _ _ _ S4 S5) as S35.
    (* calibrate + move *)
    set (d6 := calibrate_d o k d5 fo' (up_time d5) 100).
    set (d7 := move_position_d o k d6 fo' true im).
    assert (X35 : ext d d5) by (destruct (sub_log true _ _ S35) as [n L]; exists n; rewrite L, E3; reflexivity).
    assert (X56 : forall N5 : NT k true d5, same_frame d5 d6 /\ NT k true d6 /\ stop_time d6 = stop_time d5)
      by (intros N5; exact (calibrate_d_facts o k d5 fo' (up_time d5) true W N5)).
    split.
    { (* log only grows *)
      admit. }
    admit.
  - admit.
Admitted.

End Callback2.
