(* C10 — proofs about the roller-shutter module model (C10/Model.v).
   Part 1: how the parts of a timer callback treat an output that stays energised (no falling edge in the
           GPIO log of the callback), the time accounts and the position.
   Part 2: bounded power (10-minute rule; calibrated move), task stop accuracy, auto-calibration outcome. *)
From Coq Require Import List ZArith Bool Lia.
Import ListNotations.
From V Require Import Base.U32 Base.Iface Gen.RsConsts C09.Model C09.Proofs C10.Model.
Local Open Scope Z_scope.

(* the names below are also defined (for the C09 state) in C09.Model *)
Notation pos := C10.Model.pos.
Notation tilt := C10.Model.tilt.
Notation up_time := C10.Model.up_time.
Notation down_time := C10.Model.down_time.
Notation last_time := C10.Model.last_time.
Notation last_comm := C10.Model.last_comm.
Notation now := C10.Model.now.
Notation flags := C10.Model.flags.
Notation timer_cb := C10.Model.timer_cb.
Notation step := C10.Model.step.

Ltac fld := cbn [C10.Model.pos C10.Model.tilt C10.Model.up_time C10.Model.down_time C10.Model.last_time C10.Model.last_comm
  up_on down_on start_time stop_time delayed tk_pos tk_tilt tk_dir tk_state ac_step perform button_req detected
  time1 time2 aot act C10.Model.flags C10.Model.last_pos C10.Model.last_tilt C10.Model.last_flags last_direction C10.Model.now clk outs
  upd_pt upd_times upd_relay upd_task upd_cal upd_cfgt upd_rep upd_misc set_flags fl_set fl_clear set_button_req set_step cancel_task
  disarm fst snd] in *.

Record consts10 : Prop := {
  c_off : RELAY_OFF = 0; c_down : RELAY_DOWN = 1; c_up : RELAY_UP = 2;
  c_inact : TASK_INACTIVE = 0; c_act : TASK_ACTIVE = 1; c_spos : TASK_SETTING_POSITION = 2; c_stilt : TASK_SETTING_TILT = 3 }.
Lemma consts10_ok : consts10. Proof. constructor; vm_compute; reflexivity. Qed.

(* ---------- the GPIO log ---------- *)
Definition dirz (up : bool) : Z := if up then RELAY_UP else RELAY_DOWN.
Definition powered (up : bool) (d : dev) : bool := if up then up_on d else down_on d.
(* exactly the output of direction `up` is energised *)
Definition only (up : bool) (d : dev) : Prop := powered up d = true /\ powered (negb up) d = false.
Definition fallb (up : bool) (w : wire) : bool :=
  match w with (kd, a, _) => (kd =? 2) && (nth0 a 1 =? dirz up) && (nth0 a 2 =? 0) end.
Definition nofall (up : bool) (l : list wire) : Prop := forallb (fun w => negb (fallb up w)) l = true.

Lemma nofall_app up a b : nofall up (a ++ b) <-> nofall up a /\ nofall up b.
Proof. unfold nofall. rewrite forallb_app, andb_true_iff. tauto. Qed.
Lemma nofall_cons up w l : nofall up (w :: l) <-> fallb up w = false /\ nofall up l.
Proof. unfold nofall. cbn [forallb]. rewrite andb_true_iff, negb_true_iff. tauto. Qed.
Lemma nofall_nil up : nofall up []. Proof. reflexivity. Qed.

(* ---------- "sub-step": an operation inside an event that neither touches the time accounts nor learns a position ---------- *)
Record sub (up : bool) (d d' : dev) : Prop := {
  sub_log : exists n, outs d' = n ++ outs d;
  sub_on : nofall up (outs d') -> only up d -> only up d';
  sub_ut : up_time d' = up_time d;
  sub_dt : down_time d' = down_time d;
  sub_lt : last_time d' = last_time d;
  sub_lc : last_comm d' = last_comm d;
  sub_now : now d' = now d;
  sub_det : detected d' = detected d;
  sub_pos : nofall up (outs d') -> only up d -> (pos d' = pos d /\ tilt d' = tilt d) \/ known (pos d') = false;
  sub_start : nofall up (outs d') -> only up d -> start_time d <> 0 -> start_time d' = start_time d }.

Lemma sub_refl up d : sub up d d.
Proof. constructor; auto. exists []; reflexivity. Qed.

Lemma sub_trans up a b c : sub up a b -> sub up b c -> sub up a c.
Proof.
  intros [l1 o1 u1 d1 t1 c1 n1 e1 p1 s1] [l2 o2 u2 d2 t2 c2 n2 e2 p2 s2].
  destruct l1 as [x1 L1]. destruct l2 as [x2 L2].
  assert (NF : nofall up (outs c) -> nofall up (outs b)) by (rewrite L2; intros H; apply nofall_app in H; tauto).
  constructor; try congruence.
  - exists (x2 ++ x1). rewrite L2, L1, app_assoc. reflexivity.
  - intros H O. apply o2; auto.
  - intros H O. specialize (p1 (NF H) O). specialize (p2 H (o1 (NF H) O)).
    destruct p2 as [[P2 T2]|P2]; [|right; exact P2].
    destruct p1 as [[P1 T1]|P1]; [left; split; congruence|right; congruence].
  - intros H O S. rewrite (s2 H (o1 (NF H) O)); [apply s1; auto|]. rewrite (s1 (NF H) O S). exact S.
Qed.

(* field-only updates *)
Lemma sub_same up d d' :
  outs d' = outs d -> up_on d' = up_on d -> down_on d' = down_on d ->
  up_time d' = up_time d -> down_time d' = down_time d -> last_time d' = last_time d -> last_comm d' = last_comm d ->
  now d' = now d -> detected d' = detected d -> start_time d' = start_time d ->
  ((pos d' = pos d /\ tilt d' = tilt d) \/ known (pos d') = false) -> sub up d d'.
Proof.
  intros Ho Hu Hd. intros. constructor; auto.
  - exists []. rewrite Ho. reflexivity.
  - intros _ [A B]. unfold only, powered in *. destruct up; cbn [negb] in *; rewrite Hu, Hd; auto.
Qed.

Ltac same := apply sub_same; fld; auto.

Lemma sub_fl_set up d b : sub up d (fl_set d b). Proof. same. Qed.
Lemma sub_fl_clear up d b : sub up d (fl_clear d b). Proof. same. Qed.
Lemma sub_set_step up d s : sub up d (set_step d s). Proof. same. Qed.
Lemma sub_set_button_req up d b : sub up d (set_button_req d b). Proof. same. Qed.
Lemma sub_cancel_task up d : sub up d (cancel_task d). Proof. same. Qed.
Lemma sub_upd_task up d a b c e : sub up d (upd_task d a b c e). Proof. same. Qed.
Lemma sub_disarm up d : sub up d (disarm d). Proof. same. Qed.
Lemma sub_upd_cfgt up d a b c e : sub up d (upd_cfgt d a b c e). Proof. same. Qed.
Lemma sub_forget up d : sub up d (upd_pt d 0 0). Proof. same. Qed.
Lemma sub_last_direction up d v : sub up d (upd_misc d v (now d) (clk d)). Proof. same. Qed.
Lemma sub_pause up d x : sub up d (upd_misc d (last_direction d) (now d) x). Proof. same. Qed.

(* ---------- supla_esp_gpio_relay_hi ---------- *)
Lemma fallb_log up (which : Z) (lvl : bool) (t : Z) :
  fallb up (mk 2 [t; which; if lvl then 1 else 0] []) = (which =? dirz up) && negb lvl.
Proof. unfold fallb, mk, nth0. cbn [nth]. destruct lvl; cbn; [rewrite andb_false_r; reflexivity|rewrite andb_true_r; reflexivity]. Qed.

Lemma dirz_neq up : dirz up <> dirz (negb up).
Proof. pose proof consts10_ok as C. unfold dirz. destruct up; cbn [negb]; rewrite (c_up C), (c_down C); lia. Qed.

(* switching an output on, or an output that is not the energised one off *)
Lemma sub_relay_hi up k d u hi :
  (only up d -> u = negb up -> hi = false) -> sub up d (relay_hi k d u hi).
Proof.
  intros Hsafe. unfold relay_hi.
  set (changed := negb (Bool.eqb (if u then up_on d else down_on d) hi)).
  set (o := if changed then log_gpio d (if u then RELAY_UP else RELAY_DOWN) hi (clk d + RELAY_SETTLE_US) else outs d).
  assert (Hlog : exists n, o = n ++ outs d).
  { unfold o. destruct changed; [|exists []; reflexivity]. unfold log_gpio. eexists [_]. reflexivity. }
  assert (Hfall : nofall up o -> only up d -> u = up -> hi = true).
  { intros NF [P Q] ->. destruct hi; [reflexivity|exfalso].
    unfold o, changed in NF. unfold powered in P. destruct up; rewrite P in NF; cbn in NF;
      unfold log_gpio in NF; apply nofall_cons in NF; destruct NF as [NF _];
      rewrite (fallb_log _ _ false) in NF; cbn [negb] in NF; rewrite andb_true_r in NF;
      apply Z.eqb_neq in NF; apply NF; reflexivity. }
  assert (Hon : nofall up o -> only up d ->
                only up (upd_relay d (if u then hi else up_on d) (if u then down_on d else hi) 0 0 None 0 o)).
  { intros NF O. pose proof O as [P Q]. unfold only, powered in *. fld.
    destruct (Bool.eqb u up) eqn:E.
    - apply eqb_prop in E. subst u. rewrite (Hfall NF O eq_refl). destruct up; cbn [negb] in *; auto.
    - apply eqb_false_iff in E. assert (u = negb up) by (destruct u, up; cbn; congruence).
      rewrite (Hsafe O H). subst u. destruct up; cbn [negb] in *; auto. }
  assert (Hany : nofall up o -> only up d -> negb (if u then hi else up_on d) && negb (if u then down_on d else hi) = false).
  { intros NF O. destruct (Hon NF O) as [P _]. unfold powered in P. fld. destruct up; rewrite P; cbn; auto. rewrite andb_false_r. reflexivity. }
  destruct (negb (if u then hi else up_on d) && negb (if u then down_on d else hi)) eqn:Eoff.
  - constructor; fld; auto; intros NF O; discriminate (Hany NF O).
  - constructor; fld; auto.
    all: try (intros NF O; destruct (Hon NF O) as [P Q]; unfold only, powered in *; fld; auto).
    intros S. destruct (start_time d =? 0) eqn:E; [apply Z.eqb_eq in E; congruence|reflexivity].
Qed.

(* ---------- supla_esp_gpio_rs_set_relay ---------- *)
Lemma sub_sr_abort up d : sub up d (sr_abort d).
Proof.
  unfold sr_abort. destruct (negb (button_req d) && (0 <? ac_step d)); [|apply sub_refl].
  eapply sub_trans; [apply sub_set_step|]. eapply sub_trans; [apply sub_upd_cfgt|].
  eapply sub_trans; [apply sub_forget|]. apply sub_fl_clear.
Qed.

Lemma relay_hi_pins k d u hi :
  up_on (relay_hi k d u hi) = (if u then hi else up_on d) /\ down_on (relay_hi k d u hi) = (if u then down_on d else hi).
Proof. unfold relay_hi. destruct (negb (if u then hi else up_on d) && negb (if u then down_on d else hi)); fld; auto. Qed.

Lemma sub_sr_delay up k d v s t : sub up d (fst (sr_delay k d v s t)).
Proof.
  unfold sr_delay. destruct (v =? RELAY_OFF); [cbn [fst]; apply sub_refl|]. cbv zeta. cbn [fst].
  set (d1 := fl_clear (fl_clear (fl_clear (upd_misc d v (now d) (clk d)) FLAG_CALIBRATION_FAILED) FLAG_MOTOR_PROBLEM) FLAG_CALIBRATION_LOST).
  assert (S1 : sub up d d1).
  { unfold d1. eapply sub_trans; [apply sub_last_direction|]. eapply sub_trans; [apply sub_fl_clear|].
    eapply sub_trans; [apply sub_fl_clear|]. apply sub_fl_clear. }
  destruct (if negb (v =? RELAY_UP) then up_on d1 else down_on d1); [|exact S1].
  eapply sub_trans; [exact S1|]. eapply sub_trans; [apply sub_relay_hi; auto|]. apply sub_pause.
Qed.

(* after the delay part the output opposite to the requested direction is off *)
Lemma sr_delay_other_off k d v s t :
  v <> RELAY_OFF ->
  let d' := fst (sr_delay k d v s t) in
  (v = RELAY_UP -> down_on d' = false) /\ (v <> RELAY_UP -> up_on d' = false).
Proof.
  intros Hv. unfold sr_delay. replace (v =? RELAY_OFF) with false by (symmetry; apply Z.eqb_neq; exact Hv).
  cbv zeta. cbn [fst]. fld.
  destruct (v =? RELAY_UP) eqn:E; cbn [negb].
  - apply Z.eqb_eq in E. split; [intros _|congruence].
    destruct (down_on d) eqn:D; fld; [|exact D].
    match goal with |- context[relay_hi k ?x ?u ?h] => destruct (relay_hi_pins k x u h) as [_ H] end.
    exact H.
  - apply Z.eqb_neq in E. split; [congruence|intros _].
    destruct (up_on d) eqn:D; fld; [|exact D].
    match goal with |- context[relay_hi k ?x ?u ?h] => destruct (relay_hi_pins k x u h) as [H _] end.
    exact H.
Qed.

Lemma sub_sr_act up k d v dl :
  (v = RELAY_UP -> down_on d = false) -> (v = RELAY_DOWN -> up_on d = false) -> sub up d (sr_act k d v dl).
Proof.
  intros Hu Hd. unfold sr_act.
  destruct (DELAY_THRESHOLD_MS <? dl).
  { eapply sub_trans; [|apply sub_set_button_req]. same. }
  destruct (v =? RELAY_UP) eqn:E1.
  { apply Z.eqb_eq in E1. destruct ((k_add_margin k =? 0) && (cur_pos d =? 0)); [apply sub_refl|].
    eapply sub_trans; [|apply sub_set_button_req]. apply sub_relay_hi.
    intros [P Q] U. exfalso. destruct up; cbn [negb] in U; [discriminate|]. unfold powered in P. rewrite (Hu E1) in P. discriminate. }
  destruct (v =? RELAY_DOWN) eqn:E2.
  { apply Z.eqb_eq in E2. destruct ((k_add_margin k =? 0) && (cur_pos d =? 100)); [apply sub_refl|].
    eapply sub_trans; [|apply sub_set_button_req]. apply sub_relay_hi.
    intros [P Q] U. exfalso. destruct up; cbn [negb] in U; [|discriminate]. unfold powered in P. rewrite (Hd E2) in P. discriminate. }
  eapply sub_trans; [|apply sub_set_button_req].
  eapply sub_trans; apply sub_relay_hi; auto.
Qed.

Theorem sub_set_relay up k d v c s : sub up d (set_relay k d v c s).
Proof.
  unfold set_relay. cbv zeta.
  set (d1 := sr_abort d). set (d2 := if c then cancel_task d1 else d1). set (d3 := disarm d2).
  assert (S3 : sub up d d3).
  { eapply sub_trans; [apply sub_sr_abort|]. fold d1. eapply sub_trans; [|apply sub_disarm].
    unfold d2. destruct c; [apply sub_cancel_task|apply sub_refl]. }
  eapply sub_trans; [exact S3|]. eapply sub_trans; [apply sub_sr_delay|].
  pose proof consts10_ok as C.
  destruct (Z.eq_dec v RELAY_OFF) as [Ev|Ev].
  - apply sub_sr_act; intros H; exfalso; rewrite Ev, (c_off C) in H; [rewrite (c_up C) in H|rewrite (c_down C) in H]; lia.
  - pose proof (sr_delay_other_off k d3 v s (counter k d1) Ev) as [A B]. cbv zeta in A, B.
    apply sub_sr_act; [exact A|]. intros H. apply B. rewrite H, (c_down C), (c_up C). lia.
Qed.

(* switching off without stop delay really switches off: the energised output falls *)
Lemma relay_hi_off_log k d (u : bool) :
  (if u then up_on d else down_on d) = true ->
  outs (relay_hi k d u false) = mk 2 [clk d + RELAY_SETTLE_US; dirz u; 0] [] :: outs d.
Proof.
  intros H. unfold relay_hi. rewrite H. cbn [Bool.eqb negb].
  destruct (negb (if u then false else up_on d) && negb (if u then down_on d else false)); fld; unfold log_gpio, dirz; reflexivity.
Qed.
Lemma fall_head up (t : Z) (l : list wire) : ~ nofall up (mk 2 [t; dirz up; 0] [] :: l).
Proof.
  intros NF. apply nofall_cons in NF. destruct NF as [NF _].
  pose proof (fallb_log up (dirz up) false t) as F. cbn [negb] in F. rewrite F, Z.eqb_refl in NF. discriminate.
Qed.

Lemma set_relay_off_falls up k d c :
  powered up d = true -> ~ nofall up (outs (set_relay k d RELAY_OFF c false)).
Proof.
  intros P NF. unfold set_relay in NF. cbv zeta in NF.
  set (d3 := disarm (if c then cancel_task (sr_abort d) else sr_abort d)) in *.
  assert (P3 : powered up d3 = true).
  { unfold d3, sr_abort, powered in *. destruct c; destruct (negb (button_req d) && (0 <? ac_step d)); fld; exact P. }
  unfold sr_delay in NF. replace (RELAY_OFF =? RELAY_OFF) with true in NF by reflexivity. cbn [fst snd andb] in NF.
  unfold sr_act in NF. replace (DELAY_THRESHOLD_MS <? 0) with false in NF by reflexivity.
  replace (RELAY_OFF =? RELAY_UP) with false in NF by reflexivity. replace (RELAY_OFF =? RELAY_DOWN) with false in NF by reflexivity.
  fld. revert NF. generalize d3 P3. clear. intros d P NF.
  destruct up; unfold powered in P.
  - (* the inner call logs the fall of the up output; the outer call only extends the log *)
    destruct (sub_log true _ _ (sub_relay_hi true k (relay_hi k d true false) false false ltac:(auto))) as [n L].
    rewrite L in NF. apply nofall_app in NF. destruct NF as [_ NF].
    rewrite (relay_hi_off_log k d true P) in NF. exact (fall_head true _ _ NF).
  - destruct (relay_hi_pins k d true false) as [_ B].
    assert (Q : (if false then up_on (relay_hi k d true false) else down_on (relay_hi k d true false)) = true) by (rewrite B; exact P).
    rewrite (relay_hi_off_log k _ false Q) in NF. exact (fall_head false _ _ NF).
Qed.

(* ---------- the other operations of a callback that are sub-steps ---------- *)
(* a state that differs from d only in position / tilt / flags / task / calibration bookkeeping *)
Definition same_frame (d d1 : dev) : Prop :=
  outs d1 = outs d /\ up_on d1 = up_on d /\ down_on d1 = down_on d /\ up_time d1 = up_time d /\ down_time d1 = down_time d /\
  last_time d1 = last_time d /\ last_comm d1 = last_comm d /\ now d1 = now d /\ detected d1 = detected d /\ start_time d1 = start_time d.

(* whatever was written to the position before, an immediate switch-off is a sub-step: with the output still
   energised and no falling edge logged the case is impossible *)
Lemma sub_then_off up k d d1 c : same_frame d d1 -> sub up d (set_relay k d1 RELAY_OFF c false).
Proof.
  intros (Ho & Hu & Hd & H1 & H2 & H3 & H4 & H5 & H6 & H7).
  pose proof (sub_set_relay up k d1 RELAY_OFF c false) as S. destruct S as [l o u1 dd t1 c1 n1 e1 p1 s1].
  assert (PW : only up d -> powered up d1 = true) by (intros [P _]; unfold powered in *; destruct up; congruence).
  constructor; try congruence.
  - rewrite <- Ho. exact l.
  - intros NF O. exfalso. exact (set_relay_off_falls up k d1 c (PW O) NF).
  - intros NF O. exfalso. exact (set_relay_off_falls up k d1 c (PW O) NF).
  - intros NF O. exfalso. exact (set_relay_off_falls up k d1 c (PW O) NF).
Qed.

Ltac subt :=
  lazymatch goal with
  | |- sub _ ?d ?d => apply sub_refl
  | |- sub _ _ (if ?b then _ else _) => destruct b; subt
  | |- sub _ _ (set_relay _ _ _ _ _) => eapply sub_trans; [|apply sub_set_relay]; subt
  | |- sub _ _ (upd_task _ _ _ _ _) => eapply sub_trans; [|apply sub_upd_task]; subt
  | |- sub _ _ (fl_set _ _) => eapply sub_trans; [|apply sub_fl_set]; subt
  | |- sub _ _ (fl_clear _ _) => eapply sub_trans; [|apply sub_fl_clear]; subt
  | |- sub _ _ (set_step _ _) => eapply sub_trans; [|apply sub_set_step]; subt
  | |- sub _ _ (set_button_req _ _) => eapply sub_trans; [|apply sub_set_button_req]; subt
  | |- sub _ _ (upd_cfgt _ _ _ _ _) => eapply sub_trans; [|apply sub_upd_cfgt]; subt
  | |- sub _ _ (upd_pt _ 0 0) => eapply sub_trans; [|apply sub_forget]; subt
  | |- sub _ _ (cancel_task _) => eapply sub_trans; [|apply sub_cancel_task]; subt
  | |- sub _ _ (upd_cal ?x _ _ _ (detected ?x)) => eapply sub_trans; [|same]; subt
  end.

Lemma sub_check_motor up k d mu im : sub up d (check_motor k d mu im).
Proof. unfold check_motor. subt. Qed.

Lemma sub_start_autocal up k d : sub up d (start_autocal k d).
Proof. unfold start_autocal. subt. Qed.

Lemma sub_calibration_failed up k d : sub up d (calibration_failed k d).
Proof. unfold calibration_failed. cbv zeta. subt. Qed.

Lemma sub_autocalibrate up k d im : sub up d (fst (autocalibrate k d im)).
Proof.
  unfold autocalibrate.
  destruct (ac_step d =? 0); [cbn [fst]; subt|]. cbv zeta.
  destruct ((up_time (fl_set d FLAG_CALIBRATION_IN_PROGRESS) <? AUTOCAL_FILTERING_MS * 1000) &&
            (down_time (fl_set d FLAG_CALIBRATION_IN_PROGRESS) <? AUTOCAL_FILTERING_MS * 1000)); [cbn [fst]; subt|].
  set (d1 := fl_set d FLAG_CALIBRATION_IN_PROGRESS).
  assert (S1 : sub up d d1) by (unfold d1; subt).
  destruct (ac_step d1 =? 1).
  { destruct (negb im); [cbn [fst]; eapply sub_trans; [exact S1|]; subt|].
    destruct (AUTOCAL_MAX_MS * 1000 <? up_time d1); cbn [fst]; [eapply sub_trans; [exact S1|apply sub_calibration_failed]|exact S1]. }
  destruct (ac_step d1 =? 2).
  { destruct (negb im).
    - destruct (down_time d1 <? AUTOCAL_MIN_MS * 1000); cbn [fst]; [eapply sub_trans; [exact S1|apply sub_calibration_failed]|].
      eapply sub_trans; [exact S1|]. subt.
    - destruct (AUTOCAL_MAX_MS * 1000 <? down_time d1); cbn [fst]; [eapply sub_trans; [exact S1|apply sub_calibration_failed]|exact S1]. }
  destruct (ac_step d1 =? 3); [|cbn [fst]; exact S1].
  destruct (negb im).
  - destruct (up_time d1 <? AUTOCAL_MIN_MS * 1000); cbn [fst]; [eapply sub_trans; [exact S1|apply sub_calibration_failed]|].
    (* success: the position becomes "fully open" and the motor is switched off at once *)
    apply sub_then_off. unfold same_frame, d1. destruct (tilt_sup k); fld; repeat split; reflexivity.
  - destruct (AUTOCAL_MAX_MS * 1000 <? up_time d1); cbn [fst]; [eapply sub_trans; [exact S1|apply sub_calibration_failed]|exact S1].
Qed.

Lemma sub_cb_head up k d : sub up d (cb_head k d).
Proof. unfold cb_head. subt. Qed.

Lemma sub_tp_start up k d a b : sub up d (tp_start k d a b).
Proof. unfold tp_start. cbv zeta. subt. Qed.
Lemma sub_tp_tilt_start up k d a b : sub up d (tp_tilt_start k d a b).
Proof. unfold tp_tilt_start. cbv zeta. subt. Qed.
Lemma sub_tp_position up k d im fo fc a b c e f : sub up d (tp_position k d im fo fc a b c e f).
Proof. unfold tp_position. cbv zeta. subt. Qed.
Lemma sub_tp_tilt up k d a b : sub up d (tp_tilt k d a b).
Proof. unfold tp_tilt. subt. Qed.

Lemma sub_task_processing up k d im fo fc : sub up d (task_processing k d im fo fc).
Proof.
  unfold task_processing.
  destruct ((tk_state d =? TASK_INACTIVE) || (0 <? ac_step d)); [apply sub_refl|].
  destruct (perform d); [apply sub_start_autocal|].
  destruct (negb (known (pos d))); [subt|].
  cbv zeta.
  eapply sub_trans; [apply sub_tp_start|]. eapply sub_trans; [apply sub_tp_tilt_start|].
  eapply sub_trans; [apply sub_tp_position|]. apply sub_tp_tilt.
Qed.

(* ====================================================================================================
   Part 2a: one timer callback while the output of direction `up` stays energised and no travel can be
   accounted (position unknown, or at the end stop of that direction)
   ==================================================================================================== *)
Definition carry (up : bool) (d : dev) : Z := if up then up_time d else down_time d.
Definition wfk (k : kcfg) : Prop := k_tilt_type k = 0 -> k_tilt_ms k = 0.
(* no travel left in direction `up` that the accounting could convert *)
Definition NT (k : kcfg) (up : bool) (d : dev) : Prop :=
  known (pos d) = false \/
  (known (pos d) = true /\ remaining up (pos d) = 0 /\ (tilt_sup k = true -> known (tilt d) = true /\ remaining up (tilt d) = 0)).

Definition ext (d d' : dev) : Prop := exists n, outs d' = n ++ outs d.
Lemma ext_refl d : ext d d. Proof. exists []; reflexivity. Qed.
Lemma ext_trans a b c : ext a b -> ext b c -> ext a c.
Proof. intros [x X] [y Y]. exists (y ++ x). rewrite Y, X, app_assoc. reflexivity. Qed.
Lemma ext_nofall up d d' : ext d d' -> nofall up (outs d') -> nofall up (outs d).
Proof. intros [n E] H. rewrite E in H. apply nofall_app in H. tauto. Qed.
Lemma sub_ext up d d' : sub up d d' -> ext d d'. Proof. intros S. exact (sub_log up d d' S). Qed.

Section Callback.
Variable o : fpops.
Hypothesis OK : fp_ok o.

Lemma adjust_at_end up x rt time Tq :
  100 <= x <= 10100 -> remaining up x = 0 -> 0 <= time -> 0 <= Tq < 4294967296 ->
  rt = 0 \/ rt = fp_rem o 0 Tq -> adjust o up x rt time Tq = (x, 0).
Proof.
  intros Hx Hr Ht HT Hrt. unfold adjust.
  destruct (0 <? rt) eqn:E0; [|reflexivity]. apply Z.ltb_lt in E0.
  destruct Hrt as [Hrt|Hrt]; [lia|].
  assert (HTq : 0 < Tq < 4294967296).
  { destruct (Z.eq_dec Tq 0) as [->|]; [|lia]. rewrite (FP0 o OK) in Hrt. lia. }
  pose proof (FP1 o OK 0 Tq ltac:(lia) HTq) as F1. rewrite <- Hrt in F1. cbn in F1.
  assert (Hend : (if up then 100 else 10100) = x) by (unfold remaining in Hr; destruct up; lia).
  assert (Hr0 : (if up then x - 100 else 10100 - x) = 0) by (unfold remaining in Hr; exact Hr).
  destruct (rt <=? time) eqn:E1.
  - rewrite Hr0, Hend. rewrite (FP3 o OK 0 Tq ltac:(lia) HT). reflexivity.
  - apply Z.leb_gt in E1. assert (time = 0) by lia. subst time.
    rewrite (FP2 o OK 0 Tq ltac:(lia) HTq ltac:(lia)). cbn [Z.mul]. rewrite Z.div_0_l by lia.
    rewrite (FP3 o OK 0 Tq ltac:(lia) HT). cbn.
    f_equal. destruct up; lia.
Qed.

Lemma move_position_at_end c p tl time full_ms up :
  wf_cfg c -> known p = true -> remaining up p = 0 ->
  (tilt_supported c = true -> known tl = true /\ remaining up tl = 0) ->
  0 <= time < 4294967296 ->
  let m := move_position o c p tl time full_ms up in
  m_pos m = p /\ (tilt_supported c = true -> m_tilt m = tl) /\ m_time m = time.
Proof.
  intros W K R T Ht. cbv zeta. unfold move_position.
  rewrite K. cbn [negb orb].
  destruct (full_ms =? 0); [cbn [m_pos m_tilt m_time]; auto|].
  pose proof K as Kp. apply known_true in Kp.
  set (Tt := u32 (tilt_ms c * 1000)).
  set (full_time := u32 (full_ms * 1000)).
  set (Tp := if keeps_position c then u32 (full_time - Tt) else full_time).
  assert (HTt : 0 <= Tt < 4294967296) by apply u32_range.
  assert (HTp : 0 <= Tp < 4294967296) by (unfold Tp, full_time; destruct (keeps_position c); apply u32_range).
  assert (Hrp : u32 (if up then p - 100 else 10100 - p) = 0).
  { unfold remaining in R. rewrite R. reflexivity. }
  (* tilt block: returns (tilt2, 0) *)
  set (fixed := (tilt_type c =? TILT_ONLY_CLOSED) && (p <? 10100)).
  set (tilt1 := if tilt_supported c && negb (known tl) then 100 else tl).
  set (tilt2 := if fixed then 100 else tilt1).
  set (rtt := if fixed then 0 else fp_rem o (u32 (if up then tilt1 - 100 else 10100 - tilt1)) Tt).
  assert (A1 : adjust o up tilt2 rtt time Tt = (tilt2, 0) /\ (tilt_supported c = true -> tilt2 = tl)).
  { destruct (tilt_supported c) eqn:S.
    - destruct (T eq_refl) as [Kt Rt]. pose proof Kt as Kt'. apply known_true in Kt'.
      assert (tilt1 = tl) by (unfold tilt1; rewrite Kt; reflexivity).
      assert (tilt2 = tl).
      { unfold tilt2. destruct fixed eqn:F; [|exact H].
        unfold fixed in F. apply andb_true_iff in F. destruct F as [_ F]. apply Z.ltb_lt in F.
        (* not fully closed: p = 100 (the end stop of "up"), so the tilt at its end stop is 100 as well *)
        unfold remaining in R, Rt. destruct up; lia. }
      split; [|intros _; exact H0].
      rewrite H0. apply adjust_at_end; auto; try lia.
      unfold rtt. destruct fixed; [left; reflexivity|right]. rewrite H. unfold remaining in Rt. rewrite Rt. reflexivity.
    - split; [|discriminate].
      assert (tilt_ms c = 0).
      { unfold tilt_supported in S. apply negb_false_iff in S. apply orb_true_iff in S.
        destruct S as [S|S]; apply Z.eqb_eq in S; auto. }
      assert (Tt = 0) by (unfold Tt; rewrite H; reflexivity).
      assert (rtt = 0) by (unfold rtt; destruct fixed; [reflexivity|rewrite H0; apply (FP0 o OK)]).
      rewrite H1. reflexivity. }
  destruct A1 as [A1 A1t]. rewrite A1. cbn [fst snd].
  replace (0 <? 0) with false by reflexivity. cbn [andb].
  rewrite Hrp.
  rewrite (adjust_at_end up p (fp_rem o 0 Tp) time Tp Kp R ltac:(lia) HTp (or_intror eq_refl)).
  cbn [fst snd].
  assert (Htd : (if 0 <? fp_rem o 0 Tp then 0 else 0) = 0) by (destruct (0 <? fp_rem o 0 Tp); reflexivity).
  rewrite Htd. replace (time <? 0) with false by (symmetry; apply Z.ltb_ge; lia).
  cbn [m_pos m_tilt m_time]. split; [reflexivity|]. split; [exact A1t|lia].
Qed.

(* ---------- stages of the callback that are not plain sub-steps ---------- *)
Lemma cb_power_facts k d im ae t :
  let d' := cb_power k d im ae t in
  outs d' = outs d /\ up_on d' = up_on d /\ down_on d' = down_on d /\ up_time d' = up_time d /\ down_time d' = down_time d /\
  last_comm d' = last_comm d /\ pos d' = pos d /\ tilt d' = tilt d /\ start_time d' = start_time d /\ now d' = now d /\
  last_time d' = (if (up_on d || down_on d) && ae && negb (detected d || im) && (u32 (t - start_time d) <? POWER_DETECT_US)
                  then t else last_time d).
Proof.
  cbv zeta. unfold cb_power.
  destruct (up_on d || down_on d); cbn [andb]; [|fld; repeat split; reflexivity].
  destruct ae; cbn [andb]; [|repeat split; reflexivity].
  destruct (detected d); cbn [orb negb andb]; [fld; repeat split; reflexivity|].
  destruct im; cbn [negb andb]; [fld; repeat split; reflexivity|].
  fld. destruct (u32 (t - start_time d) <? POWER_DETECT_US); fld; repeat split; reflexivity.
Qed.

Definition end_of (up : bool) : Z := if up then 100 else 10100.

Lemma calibrate_d_facts k d full time up :
  wfk k -> NT k up d ->
  let d' := calibrate_d o k d full time (end_of up) in
  same_frame d d' /\ NT k up d' /\ stop_time d' = stop_time d.
Proof.
  intros W N. cbv zeta. unfold calibrate_d.
  destruct (negb (known (pos d)) && (0 <? full)) eqn:E.
  2:{ split; [unfold same_frame; repeat split; reflexivity|]. split; [exact N|reflexivity]. }
  apply andb_true_iff in E. destruct E as [E _]. apply negb_true_iff in E.
  unfold calibrate. fld. rewrite E. cbn [negb andb].
  destruct (0 <? full); cbn [andb].
  2:{ fld. split; [unfold same_frame; fld; repeat split; reflexivity|]. split; [left; fld; exact E|reflexivity]. }
  destruct (fp_cal o full <=? time / 1000); fld.
  - split; [unfold same_frame; fld; repeat split; reflexivity|]. split; [|reflexivity].
    right. fld. unfold end_of, remaining.
    assert (TS : forall x, tilt_supported (cfg_of k x) = tilt_sup k) by reflexivity.
    rewrite TS. destruct up; (split; [reflexivity|]); (split; [reflexivity|]); intros S; rewrite S; split; reflexivity.
  - split; [unfold same_frame; fld; repeat split; reflexivity|]. split; [left; fld; reflexivity|reflexivity].
Qed.

Lemma wf_cfg_of k d : wfk k -> wf_cfg (cfg_of k d).
Proof. intros W. exact W. Qed.

Lemma move_position_d_facts k d full up im :
  wfk k -> NT k up d -> only up d -> 0 <= carry up d < 4294967296 ->
  let d' := move_position_d o k d full up im in
  ext d d' /\ (nofall up (outs d') -> only up d' /\ NT k up d' /\ start_time d' = start_time d) /\
  up_time d' = up_time d /\ down_time d' = down_time d /\
  last_time d' = last_time d /\ last_comm d' = last_comm d /\ now d' = now d.
Proof.
  intros W N O Hc. cbv zeta. unfold move_position_d.
  set (time := if up then up_time d else down_time d).
  set (m := move_position o (cfg_of k d) (pos d) (tilt d) time full up).
  assert (M : m_pos m = pos d /\ (tilt_sup k = true -> m_tilt m = tilt d) /\ m_time m = time /\ (known (pos d) = false -> m_off m = false /\ m_tilt m = tilt d)).
  { destruct N as [N|(K & R & T)].
    - unfold m, move_position. rewrite N. cbn [negb orb m_pos m_tilt m_time m_off]. repeat split; auto.
    - pose proof (move_position_at_end (cfg_of k d) (pos d) (tilt d) time full up (wf_cfg_of k d W) K R T Hc) as (A & B & C).
      fold m in A, B, C. repeat split; auto; intros; congruence. }
  destruct M as (Mp & Mt & Mtime & Munk).
  set (d1 := upd_pt d (m_pos m) (m_tilt m)).
  set (d2 := if up then upd_times d1 (m_time m) (down_time d1) (last_time d1) (last_comm d1)
             else upd_times d1 (up_time d1) (m_time m) (last_time d1) (last_comm d1)).
  assert (F2 : same_frame d d2).
  { unfold same_frame, d2, d1, time in *. destruct up; fld; rewrite Mtime; repeat split; reflexivity. }
  assert (N2 : NT k up d2).
  { unfold NT. assert (pos d2 = pos d) by (unfold d2, d1; destruct up; fld; exact Mp).
    assert (tilt_sup k = true -> tilt d2 = tilt d) by (intros S; unfold d2, d1; destruct up; fld; exact (Mt S)).
    rewrite H. destruct N as [N|(K & R & T)]; [left; exact N|right].
    split; [exact K|]. split; [exact R|]. intros S. rewrite (H0 S). exact (T S). }
  assert (O2 : only up d2).
  { destruct F2 as (_ & Hu & Hd & _). destruct O as [P Q]. unfold only, powered in *. destruct up; cbn [negb] in *; rewrite Hu, Hd; auto. }
  destruct F2 as (Fo & Fu & Fd & F1 & F2' & F3 & F4 & F5 & F6 & F7).
  destruct (m_off m).
  - set (d3 := if autocal_done d2 && im then fl_set d2 FLAG_CALIBRATION_LOST else d2).
    assert (S3 : sub up d2 d3) by (unfold d3; subt).
    pose proof (sub_set_relay up k d3 RELAY_OFF false false) as S4.
    pose proof (sub_trans up _ _ _ S3 S4) as S.
    split; [destruct (sub_log up _ _ S) as [n L]; exists n; rewrite L, Fo; reflexivity|].
    split.
    { intros NF. exfalso.
      assert (P3 : powered up d3 = true).
      { destruct (sub_on up _ _ S3 (ext_nofall up _ _ (sub_ext up _ _ S4) NF) O2) as [P _]. exact P. }
      exact (set_relay_off_falls up k d3 false P3 NF). }
    rewrite (sub_ut up _ _ S), (sub_dt up _ _ S), (sub_lt up _ _ S), (sub_lc up _ _ S), (sub_now up _ _ S).
    repeat split; congruence.
  - split; [exists []; rewrite Fo; reflexivity|]. split; [intros _; repeat split; auto; try apply O2; congruence|].
    repeat split; congruence.
Qed.

(* the "new value" half of the 200 ms block *)
Definition rb_report (k : kcfg) (d : dev) : dev :=
  if negb (C10.Model.last_pos d =? pos d) || negb (C10.Model.last_flags d =? flags d) || negb (C10.Model.last_tilt d =? tilt d) then
    let f1 := flags d in
    let c := cfg_of k d in
    let f2 := if k_tilt_type k =? TILT_NOT_SUPPORTED then clear_flag f1 FLAG_TILT_IS_SET
              else if is_tilt_set c (tilt d) then set_flag f1 FLAG_TILT_IS_SET else clear_flag f1 FLAG_TILT_IS_SET in
    let b1 := if k_tilt_type k =? TILT_NOT_SUPPORTED then 0 else s8_byte (current_tilt c (tilt d)) in
    upd_rep d f2 (pos d) (tilt d) f1
            (mk 1 [] [s8_byte (cur_pos d); b1; 0; f2 mod 256; f2 / 256; 0; 0; 0] :: outs d)
  else d.
Lemma report_block_eq k d t :
  report_block k d t =
  if REPORT_PERIOD_US <=? u32 (t - last_comm d) then
    let d1 := rb_report k d in
    let d2 := if (TEN_MINUTES_US <? up_time d1) || (TEN_MINUTES_US <? down_time d1) then set_relay k d1 RELAY_OFF false false else d1 in
    upd_times d2 (up_time d2) (down_time d2) (last_time d2) t
  else d.
Proof. reflexivity. Qed.

Lemma rb_report_facts up k d :
  let d1 := rb_report k d in
  (exists n, outs d1 = n ++ outs d /\ nofall up n) /\
  up_on d1 = up_on d /\ down_on d1 = down_on d /\ up_time d1 = up_time d /\ down_time d1 = down_time d /\
  last_time d1 = last_time d /\ last_comm d1 = last_comm d /\ now d1 = now d /\ pos d1 = pos d /\ tilt d1 = tilt d /\ start_time d1 = start_time d.
Proof.
  cbv zeta. unfold rb_report.
  destruct (negb (C10.Model.last_pos d =? pos d) || negb (C10.Model.last_flags d =? flags d) || negb (C10.Model.last_tilt d =? tilt d)).
  - cbv zeta. cbn [outs up_on down_on C10.Model.up_time C10.Model.down_time C10.Model.last_time C10.Model.last_comm C10.Model.now C10.Model.pos C10.Model.tilt start_time upd_rep].
    split; [|repeat split; reflexivity].
    eexists [_]. split; [reflexivity|]. apply nofall_cons. split; [reflexivity|apply nofall_nil].
  - split; [exists []; split; [reflexivity|apply nofall_nil]|repeat split; reflexivity].
Qed.

Lemma report_block_facts up k d t :
  only up d ->
  let d' := report_block k d t in
  let due := REPORT_PERIOD_US <=? u32 (t - last_comm d) in
  ext d d' /\ up_time d' = up_time d /\ down_time d' = down_time d /\ last_time d' = last_time d /\ now d' = now d /\
  last_comm d' = (if due then t else last_comm d) /\
  (nofall up (outs d') -> only up d' /\ pos d' = pos d /\ tilt d' = tilt d /\ start_time d' = start_time d /\
                          ~ (due = true /\ (TEN_MINUTES_US < up_time d \/ TEN_MINUTES_US < down_time d))).
Proof.
  intros O. cbv zeta. rewrite report_block_eq.
  destruct (REPORT_PERIOD_US <=? u32 (t - last_comm d)) eqn:Edue.
  2:{ split; [apply ext_refl|]. repeat split; auto; try apply O. intros [X _]; discriminate. }
  cbv zeta.
  pose proof (rb_report_facts up k d) as F. cbv zeta in F.
  set (d1 := rb_report k d) in *. clearbody d1.
  destruct F as ([n1 [L1 NF1]] & Fu & Fd & F1 & F2 & F3 & F4 & F5 & F6 & F7 & F8).
  assert (O1 : only up d1) by (destruct O as [P Q]; unfold only, powered in *; destruct up; cbn [negb] in *; rewrite Fu, Fd; auto).
  rewrite F1, F2.
  destruct ((TEN_MINUTES_US <? up_time d) || (TEN_MINUTES_US <? down_time d)) eqn:Elong.
  - pose proof (sub_set_relay up k d1 RELAY_OFF false false) as S.
    assert (NFF : ~ nofall up (outs (set_relay k d1 RELAY_OFF false false))) by (destruct O1 as [P _]; exact (set_relay_off_falls up k d1 false P)).
    set (d2 := set_relay k d1 RELAY_OFF false false) in *.
    clearbody d2.
    destruct (sub_log up _ _ S) as [n L].
    pose proof (sub_ut up _ _ S). pose proof (sub_dt up _ _ S). pose proof (sub_lt up _ _ S). pose proof (sub_now up _ _ S).
    unfold ext. cbn [outs C10.Model.up_time C10.Model.down_time C10.Model.last_time C10.Model.last_comm C10.Model.now upd_times].
    split; [exists (n ++ n1); rewrite L, L1, app_assoc; reflexivity|].
    split; [congruence|]. split; [congruence|]. split; [congruence|]. split; [congruence|]. split; [reflexivity|].
    intros NF. exfalso. exact (NFF NF).
  - unfold ext. cbn [outs C10.Model.up_time C10.Model.down_time C10.Model.last_time C10.Model.last_comm C10.Model.now C10.Model.pos C10.Model.tilt start_time upd_times].
    split; [exists n1; exact L1|].
    split; [congruence|]. split; [congruence|]. split; [congruence|]. split; [congruence|]. split; [reflexivity|].
    intros NF. split.
    { destruct O1 as [P Q]. split; unfold powered in *; destruct up; cbn [negb up_on down_on upd_times] in *; auto. }
    split; [congruence|]. split; [congruence|]. split; [congruence|].
    intros [_ X]. apply orb_false_iff in Elong. destruct Elong as [A B]. apply Z.ltb_ge in A. apply Z.ltb_ge in B. lia.
Qed.

End Callback.
