(* C10 — convergence, part 4: starting the motor from rest (immediately or through the delayed trigger). *)
From Coq Require Import List ZArith Bool Lia.
Import ListNotations.
From V Require Import Base.U32 Base.Iface Gen.RsConsts C09.Model C09.Proofs C10.Model C10.Frame C10.Fields C10.Proofs C10.Autocal C10.Calibrated C10.Conv1 C10.Conv2.
Local Open Scope Z_scope.
Notation pos := C10.Model.pos.
Notation tilt := C10.Model.tilt.
Notation up_time := C10.Model.up_time.
Notation down_time := C10.Model.down_time.
Notation last_time := C10.Model.last_time.
Notation last_comm := C10.Model.last_comm.
Notation now := C10.Model.now.
Notation flags := C10.Model.flags.

Lemma start_delay_range k d :
  start_delay_ms k d = 0 \/
  (2 <= start_delay_ms k d <= 1001 /\
   1001000 <= u32 (u32 (k_boot k + (clk d + start_delay_ms k d * 1000)) - stop_time d)).
Proof.
  unfold start_delay_ms.
  destruct ((start_time d =? 0) && (0 <? stop_time d) && (u32 (counter k d - stop_time d) / 1000 <? START_DELAY_MS)) eqn:E; [|left; reflexivity].
  right. apply andb_true_iff in E. destruct E as [_ E]. apply Z.ltb_lt in E.
  change START_DELAY_MS with 1000 in *.
  set (ea := u32 (counter k d - stop_time d)) in *.
  assert (Hea : 0 <= ea < 4294967296) by (apply u32_range).
  assert (Hq : 0 <= ea / 1000) by (apply Z.div_pos; lia).
  rewrite (u32_small (1000 - ea / 1000 + 1)) by lia.
  split; [lia|].
  replace (k_boot k + (clk d + (1000 - ea / 1000 + 1) * 1000)) with ((k_boot k + clk d) + (1000 - ea / 1000 + 1) * 1000) by lia.
  rewrite u32_shift.
  assert (Ee : u32 (k_boot k + clk d - stop_time d) = ea) by (unfold ea, counter, u32; rewrite Zminus_mod_idemp_l; reflexivity).
  rewrite Ee.
  pose proof (Z.mul_div_le ea 1000 ltac:(lia)). pose proof (Z.mod_pos_bound ea 1000 ltac:(lia)). pose proof (Z.div_mod ea 1000 ltac:(lia)).
  rewrite u32_small by lia. lia.
Qed.

Lemma only_of up d : up_on d = up -> down_on d = negb up -> only up d.
Proof. intros U D. unfold only, powered. destruct up; cbn [negb] in *; rewrite U, D; auto. Qed.

(* a start request in direction `up` on a shutter at rest *)
Lemma start_outcome k x up y :
  ac_step x = 0 -> up_on x = false -> down_on x = false -> refused k x up = false ->
  y = set_relay k x (dirz up) false false ->
  keeps2 x y /\ keeps3 x y /\ sub true x y /\
  ((only up y /\ delayed y = None) \/
   (100 < start_delay_ms k x /\ up_on y = false /\ down_on y = false /\ stop_time y = stop_time x /\ start_time y = start_time x /\
    exists req, delayed y = Some (dirz up, clk x + start_delay_ms k x * 1000, req))) /\
  (start_delay_ms k x <= 100 -> only up y /\ delayed y = None).
Proof.
  intros S U D Rf Ey.
  split; [rewrite Ey; apply set_relay_keeps2; exact S|]. split; [rewrite Ey; apply set_relay_keeps3; exact S|].
  split; [rewrite Ey; apply sub_set_relay|].
  rewrite (set_relay_start_eq k x up S U D) in Ey.
  assert (Up : up_on (sr_prep x (dirz up)) = false) by exact U.
  assert (Dp : down_on (sr_prep x (dirz up)) = false) by exact D.
  rewrite (sr_act_start k _ up _ Up Dp) in Ey.
  assert (Rp : refused k (sr_prep x (dirz up)) up = false) by exact Rf.
  rewrite Rp in Ey.
  assert (On : forall z, z = set_button_req (relay_hi k (sr_prep x (dirz up)) up true) false -> only up z /\ delayed z = None).
  { intros z Ez. rewrite (relay_hi_on_eq k _ up Up Dp) in Ez. subst z. split.
    - apply only_of; reflexivity.
    - reflexivity. }
  change DELAY_THRESHOLD_MS with 100 in Ey.
  destruct (100 <? start_delay_ms k x) eqn:El.
  - apply Z.ltb_lt in El. split; [|intros; lia]. right. split; [exact El|].
    subst y. repeat split; first [exact U | exact D | reflexivity | (eexists; reflexivity)].
  - apply Z.ltb_ge in El. split; [left|intros _]; exact (On y Ey).
Qed.

(* ---------- the frame of a callback with both outputs off ---------- *)
Lemma off_pre_facts d :
  same_core d (off_pre d) /\ up_time (off_pre d) = 0 /\ down_time (off_pre d) = 0 /\ last_time (off_pre d) = last_time d /\
  last_comm (off_pre d) = last_comm d /\ now (off_pre d) = now d /\ clk (off_pre d) = clk d.
Proof. unfold off_pre, fl_clear. split; [sc|]. frw. repeat split; reflexivity. Qed.

Section OffFrame.
Variable o : fpops.

Lemma off_cb_frame k e im t y d' :
  k_autocal_flag k = false -> up_on e = false -> down_on e = false -> ac_step e = 0 -> aot e = 0 -> act e = 0 ->
  y = task_processing k (off_pre e) im (time1 e) (time2 e) -> up_time y = 0 -> down_time y = 0 ->
  d' = set_clock (C10.Model.timer_cb o k e im) t ->
  same_core y d' /\ up_time d' = 0 /\ down_time d' = 0 /\ last_time d' = counter k e /\ now d' = t.
Proof.
  intros NF U D S A B Ey Uy Dy E'.
  rewrite (timer_cb_off o k e im NF U D S A B), <- Ey in E'.
  assert (Hl : (TEN_MINUTES_US <? up_time y) || (TEN_MINUTES_US <? down_time y) = false) by (rewrite Uy, Dy; reflexivity).
  destruct (report_block_short k y (counter k e) Hl) as (Srb & Urb & Drb & Nrb).
  remember (report_block k y (counter k e)) as d5 eqn:E5. clear E5.
  split; [rewrite E'; exact (same_core_trans _ _ _ Srb (same_core_trans _ _ _ (same_core_stamp d5 (counter k e)) (same_core_set_clock _ t)))|].
  subst d'. unfold set_clock, stamp_last. frw. rewrite Urb, Drb, Uy, Dy. auto.
Qed.

End OffFrame.
