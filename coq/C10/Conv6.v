(* C10 — convergence, part 6: the run of a positioning task from rest to rest. *)
From Coq Require Import List ZArith Bool Lia.
Import ListNotations.
From V Require Import Base.U32 Base.Iface Gen.RsConsts C09.Model C09.Proofs C10.Model C10.Frame C10.Fields C10.Proofs C10.Autocal C10.Calibrated C10.Conv1 C10.Conv2 C10.Conv3 C10.Conv4 C10.Conv5.
Local Open Scope Z_scope.
Notation pos := C10.Model.pos.
Notation tilt := C10.Model.tilt.
Notation up_time := C10.Model.up_time.
Notation down_time := C10.Model.down_time.
Notation last_time := C10.Model.last_time.
Notation last_comm := C10.Model.last_comm.
Notation now := C10.Model.now.
Notation flags := C10.Model.flags.

Ltac feed X := repeat match type of X with ?A -> _ => match type of A with Prop => specialize (X ltac:(assumption)) end end.

Definition cbs_of (l : list (Z * Z)) : list ev := map (fun e => Cb (fst e) (snd e)) l.

Section Run.
Variable o : fpops.
Hypothesis OK : fp_ok o.
Variables (k : kcfg) (up : bool) (tau F p : Z).
Hypothesis R : rsk k.
Hypothesis NF : k_autocal_flag k = false.
Hypothesis HT : 30000 <= F * 1000 < 4294967296.
Hypothesis Hp : 0 <= p <= 100.
Hypothesis Htau : 0 < tau.
Hypothesis Hcm : carry_max o k F + tau <= TEN_MINUTES_US.

Local Notation T := (F * 1000).
Local Notation cm := (carry_max o k F).
Local Notation mm := (margin_ms o k F).
Local Notation gap := (gap up p).
Local Notation phA := (phA k up F p).
Local Notation phW := (phW k up F p).
Local Notation mvs := (mvs up F p).
Local Notation term := (term up tau F p).
Local Notation potA := (potA o k up tau F p).
Local Notation potW := (potW o k up tau F p).
Local Notation potME := (potME o k up tau F p).

Definition phase (d : dev) (P : Z) : Prop :=
  (phA d /\ potA d P) \/ (exists due, phW d due /\ potW d due P) \/ (mvs d /\ 0 <= carry_of up d /\ potME d P).

Lemma cm_facts : 0 < cm /\ T <= 10000 * cm - 10000 /\ 1000 * mm <= cm.
Proof.
  unfold carry_max. pose proof (Z.le_max_r (1000 * mm) (T / 10000 + 2)). pose proof (Z.le_max_l (1000 * mm) (T / 10000 + 2)).
  pose proof (Z.mul_div_le T 10000 ltac:(lia)). pose proof (Z.mod_pos_bound T 10000 ltac:(lia)). pose proof (Z.div_mod T 10000 ltac:(lia)).
  assert (0 <= T / 10000) by (apply Z.div_pos; lia). lia.
Qed.

Lemma phase_pos d P : phase d P -> 0 < P.
Proof.
  destruct cm_facts as (C1 & C2 & C3).
  intros [(A & Pot)|[(due & W & Pot)|(M & Hc & Pot)]].
  - unfold C10.Conv5.potA, potM0 in Pot. pose proof (a_gap _ _ _ _ _ A).
    assert (0 < gap d * T) by (apply Z.mul_pos_pos; lia). lia.
  - unfold C10.Conv5.potW, potM0 in Pot. pose proof (w_gap _ _ _ _ _ _ W). pose proof (w_now _ _ _ _ _ _ W).
    assert (0 < gap d * T) by (apply Z.mul_pos_pos; lia). lia.
  - destruct Pot as [(G & Hc1 & HP)|(_ & _ & _ & Hc1 & HP)]; [|lia].
    assert (0 < gap d * T) by (apply Z.mul_pos_pos; lia). lia.
Qed.

Lemma phase_step d P dt sm :
  phase d P -> stamped k d -> 0 < dt <= tau ->
  stamped k (C10.Model.step o k d (Cb dt sm)) /\
  (phase (C10.Model.step o k d (Cb dt sm)) (P - 10000 * dt) \/ term (C10.Model.step o k d (Cb dt sm))).
Proof.
  intros [(A & Pot)|[(due & W & Pot)|(M & Hc & Pot)]] St Hdt.
  - pose proof (fresh_step o k up tau F p) as X. feed X. specialize (X d dt sm P). feed X. cbv zeta in X.
    destruct X as (St' & [H|(due & W & PW)]).
    + split; [exact St'|]. left. right. right. exact H.
    + split; [exact St'|]. left. right. left. exists due. split; assumption.
  - pose proof (wait_step o OK k up tau F p) as X. feed X. specialize (X d due dt sm P). feed X. cbv zeta in X.
    destruct X as (St' & [(W' & PW)|[H|H]]).
    + split; [exact St'|]. left. right. left. exists due. split; assumption.
    + split; [exact St'|]. left. right. right. exact H.
    + split; [exact St'|]. right. exact H.
  - pose proof (running_step o OK k up tau F p) as X. feed X. specialize (X d dt sm P). feed X. cbv zeta in X.
    destruct X as (St' & [H|H]).
    + split; [exact St'|]. left. right. right. exact H.
    + split; [exact St'|]. right. exact H.
Qed.

Lemma term_run cbs : forall d, term d -> stamped k d -> Forall (fun e => 0 < fst e <= tau) cbs ->
  term (run o k d (cbs_of cbs)) /\ pos (run o k d (cbs_of cbs)) = pos d.
Proof.
  induction cbs as [|[dt sm] r IH]; intros d Tm St Hev; [split; [exact Tm|reflexivity]|].
  inversion Hev as [|? ? Hd Hr]; subst. cbn [fst] in Hd.
  pose proof (term_step o k up tau F p) as X. feed X. specialize (X d dt sm). feed X. specialize (X ltac:(lia)). cbv zeta in X.
  destruct X as (St' & Tm' & P').
  cbn [cbs_of map run fst snd]. destruct (IH _ Tm' St' Hr) as (H1 & H2). split; [exact H1|]. unfold cbs_of in H2. rewrite H2. exact P'.
Qed.

Lemma converge_run cbs : forall d P, phase d P -> stamped k d -> Forall (fun e => 0 < fst e <= tau) cbs ->
  P <= 10000 * elapsed cbs -> term (run o k d (cbs_of cbs)).
Proof.
  induction cbs as [|[dt sm] r IH]; intros d P Ph St Hev HP.
  - pose proof (phase_pos d P Ph). cbn [elapsed fold_right] in HP. lia.
  - inversion Hev as [|? ? Hd Hr]; subst. cbn [fst] in Hd.
    destruct (phase_step d P dt sm Ph St Hd) as (St' & [Ph'|Tm]).
    + cbn [cbs_of map run fst snd]. apply (IH _ (P - 10000 * dt) Ph' St' Hr). cbn [elapsed fold_right fst] in HP. unfold elapsed. lia.
    + cbn [cbs_of map run fst snd]. exact (proj1 (term_run r _ Tm St' Hr)).
Qed.

End Run.

(* ---------- from rest, through the TASK request, to rest ---------- *)
Record idle (d : dev) : Prop := {
  i_known : known (pos d) = true; i_tilt : tilt d = -1 \/ tilt d = 0; i_step : ac_step d = 0; i_aot : aot d = 0; i_act : act d = 0;
  i_perf : perform d = false; i_up : up_on d = false; i_down : down_on d = false; i_del : delayed d = None;
  i_task : tk_state d = TASK_INACTIVE \/ tk_tilt d = -1 }.

Definition dir_to (d : dev) (p : Z) : bool := p * 100 <? pos d - 100.

Lemma task_start o k d p :
  rsk k -> idle d -> stamped k d -> 0 <= p <= 100 -> cur_pos d <> p ->
  let up := dir_to d p in
  let d1 := C10.Model.step o k d (Task p (-1)) in
  phA k up (full_k up d) p d1 /\ stamped k d1 /\ pos d1 = pos d.
Proof.
  intros [R1 R2] I St Hp Hcp. cbv zeta. cbn [C10.Model.step]. unfold add_task.
  assert (Eb : cur_pos (begin_event d) = cur_pos d /\ tk_state (begin_event d) = tk_state d /\ tk_tilt (begin_event d) = tk_tilt d)
    by (unfold cur_pos, begin_event; frw; auto).
  destruct Eb as (Eb1 & Eb2 & Eb3). rewrite Eb1, Eb2, Eb3.
  replace (100 <? p) with false by (symmetry; apply Z.ltb_ge; lia).
  replace (100 <? -1) with false by reflexivity.
  replace (cur_pos d =? p) with false by (symmetry; apply Z.eqb_neq; exact Hcp).
  replace (p =? -1) with false by (symmetry; apply Z.eqb_neq; lia).
  cbn [orb andb]. rewrite andb_false_r. rewrite R1.
  replace (0 =? TILT_ONLY_CLOSED) with false by reflexivity.
  assert (Et : (if negb (tk_state d =? TASK_INACTIVE) && (-1 =? -1) then tk_tilt d else -1) = -1).
  { destruct (i_task _ I) as [H|H]; [rewrite H; reflexivity|rewrite H; destruct (negb (tk_state d =? TASK_INACTIVE) && (-1 =? -1)); reflexivity]. }
  rewrite Et.
  pose proof (i_known _ I) as Kn. apply known_true in Kn.
  assert (Hraw : pos d - 100 <> p * 100).
  { intros E. apply Hcp. unfold cur_pos, current_position. rewrite (i_known _ I). rewrite E.
    replace (p * 100 + 50) with (50 + p * 100) by lia. rewrite Z.div_add by lia. reflexivity. }
  assert (Fb : same_core d (begin_event d)) by apply same_core_begin.
  split; [|split; [unfold stamped, begin_event in *; frw; exact St|unfold begin_event; frw; reflexivity]].
  constructor.
  - constructor.
    + constructor; frw; unfold begin_event; frw; try (destruct I; assumption); reflexivity.
    + unfold begin_event; frw. exact (i_up _ I).
    + unfold begin_event; frw. exact (i_down _ I).
  - unfold begin_event; frw. exact (i_del _ I).
  - frw. reflexivity.
  - unfold gap, dir_to, begin_event. frw. destruct (p * 100 <? pos d - 100) eqn:E; [apply Z.ltb_lt in E|apply Z.ltb_ge in E]; lia.
  - unfold refused. apply andb_false_iff. right. apply Z.eqb_neq.
    assert (Ec : cur_pos (upd_task (begin_event d) p (-1) 0 TASK_ACTIVE) = cur_pos d) by (unfold cur_pos, begin_event; frw; reflexivity).
    rewrite Ec.
    assert (Hq0 : cur_pos d = (pos d - 100 + 50) / 100) by (unfold cur_pos, current_position; rewrite (i_known _ I); reflexivity).
    pose proof (Z.div_mod (pos d - 100 + 50) 100 ltac:(lia)) as Dm. pose proof (Z.mod_pos_bound (pos d - 100 + 50) 100 ltac:(lia)) as Mb.
    unfold dir_to.
    destruct (p * 100 <? pos d - 100) eqn:E; [apply Z.ltb_lt in E|apply Z.ltb_ge in E]; lia.
Qed.

(* Convergence of a positioning task on a calibrated roller shutter (no tilt), board without the auto-calibration flag.
   From rest, a TASK request for p (0..100, tilt -1) whose target differs from the reported position, followed by timer
   callbacks at intervals 0 < dt <= tau (any sensor readings): once the callbacks span
     travel needed + max(end-stop margin, one position unit + 2 us) + 1.001 s start delay + 2 tau + 3 us
   both outputs are off, no delayed trigger is pending, the shutter is at or past the target in the direction of travel
   and the overshoot e (hundredths of a percent) satisfies e * full < 10000 * tau + 30000. *)
Theorem C10_converges_rs_thm o k tau d0 p cbs :
  fp_ok o -> rsk k -> k_autocal_flag k = false -> idle d0 -> stamped k d0 -> 0 <= p <= 100 -> cur_pos d0 <> p ->
  let up := dir_to d0 p in
  let F := full_k up d0 in
  30000 <= F * 1000 < 4294967296 -> 0 < tau -> carry_max o k F + tau <= TEN_MINUTES_US ->
  Forall (fun e => 0 < fst e <= tau) cbs ->
  Z.abs (pos d0 - 100 - p * 100) * (F * 1000) + 10000 * (carry_max o k F + 1001000 + 2 * tau + 3) <= 10000 * elapsed cbs ->
  let d := run o k d0 (Task p (-1) :: cbs_of cbs) in
  up_on d = false /\ down_on d = false /\ delayed d = None /\ known (pos d) = true /\
  (if up then pos d - 100 <= p * 100 else p * 100 <= pos d - 100) /\
  Z.abs (pos d - 100 - p * 100) * (F * 1000) < 10000 * tau + 30000.
Proof.
  intros OK R NF I St Hp Hcp up F HT Htau Hcm Hev Hel d.
  destruct (task_start o k d0 p R I St Hp Hcp) as (A & St1 & P1). fold up in A. fold F in A.
  unfold d. cbn [run].
  remember (C10.Model.step o k d0 (Task p (-1))) as d1 eqn:E1. clear E1.
  pose proof (a_gap _ _ _ _ _ A) as G1.
  assert (Eg : gap up p d1 = Z.abs (pos d0 - 100 - p * 100)).
  { unfold gap in *. rewrite P1 in *. destruct up; lia. }
  assert (Ph : phase o k up tau F p d1 (Z.abs (pos d0 - 100 - p * 100) * (F * 1000) + 10000 * (carry_max o k F + 1001000 + 2 * tau + 3))).
  { left. split; [exact A|]. unfold potA, potM0. rewrite Eg. lia. }
  pose proof (converge_run o OK k up tau F p R NF HT Hp Htau Hcm cbs d1 _ Ph St1 Hev Hel) as Tm.
  destruct Tm as [B U D Dl G Acc _].
  split; [exact U|]. split; [exact D|]. split; [exact Dl|]. split; [exact (b_known _ _ _ _ B)|].
  unfold accb, gap in *. destruct up; (split; [lia|]).
  - rewrite Z.abs_neq by lia. lia.
  - rewrite Z.abs_eq by lia. lia.
Qed.

(* in points: the raw error is at most ceil(10000 tau / full) hundredths; the reported percentage differs from the
   target by at most ceil(10000 tau / full)/100 + 0.5; and by at most one point when full >= 200 tau *)
Lemma overshoot_points e T tau : 0 <= e -> 30000 <= T -> 0 < tau -> e * T < 10000 * tau + 30000 -> e <= (10000 * tau + T - 1) / T.
Proof. intros He HT Htau H. apply Z.div_le_lower_bound; [lia|]. lia. Qed.

Lemma reported_error raw p e : 0 <= raw -> Z.abs (raw - p * 100) <= e -> 100 * Z.abs ((raw + 50) / 100 - p) <= e + 50.
Proof.
  intros Hr H.
  pose proof (Z.div_mod (raw + 50) 100 ltac:(lia)). pose proof (Z.mod_pos_bound (raw + 50) 100 ltac:(lia)). lia.
Qed.

Lemma reported_one_point raw p T tau :
  0 <= raw -> 30000 <= T -> 0 < tau -> 200 * tau <= T -> Z.abs (raw - p * 100) * T < 10000 * tau + 30000 ->
  Z.abs ((raw + 50) / 100 - p) <= 1.
Proof.
  intros Hr HT Htau H200 H.
  assert (He : Z.abs (raw - p * 100) <= 50).
  { assert (Z.abs (raw - p * 100) < 51); [|lia]. apply Z.nle_gt. intros C.
    assert (51 * T <= Z.abs (raw - p * 100) * T) by (apply Z.mul_le_mono_nonneg_r; lia). lia. }
  pose proof (reported_error raw p 50 Hr He). lia.
Qed.
