(* C10 theorems instantiated at the bit-exact binary64 instance `fops` (fp_ok fops is C09/FloatFacts.fops_ok, Flocq).
   Used by the `_fops` theorems of Properties_C10.v. *)
From Coq Require Import List ZArith.
From V Require Import Base.U32 C09.Model C09.Proofs C09.FloatFacts C10.Model C10.Proofs C10.Calibrated C10.Conv6.
Local Open Scope Z_scope.

Definition C10_converges_rs_inst := fun k tau d0 p cbs => C10_converges_rs_thm fops k tau d0 p cbs fops_ok.
Definition C10_bounded_power_counted_inst := C10_bounded_power_counted_thm fops fops_ok.
Definition C10_bounded_power_uncalibrated_inst := C10_bounded_power_thm fops fops_ok.
Definition C10_callback_keeps_accounts_inst := step_cb_only fops fops_ok.
Definition C10_bounded_power_calibrated_inst := C10_bounded_power_calibrated_thm fops fops_ok.
Definition C10_calibrated_callback_is_C09_accounting_inst := cal_step_thm fops fops_ok.
