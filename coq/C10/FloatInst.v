(* C10 theorems instantiated at the bit-exact binary64 instance `fops` (fp_ok fops is C09/FloatFacts.fops_ok, Flocq).
   Kept outside Properties_C10.v because of the Reals axioms (see C09/FloatFacts.v). *)
From Coq Require Import List ZArith.
From V Require Import Base.U32 C09.Model C09.Proofs C09.FloatFacts C10.Model C10.Proofs C10.Calibrated C10.Conv6.
Local Open Scope Z_scope.

Definition C10_converges_rs_fops := fun k tau d0 p cbs => C10_converges_rs_thm fops k tau d0 p cbs fops_ok.
Definition C10_bounded_power_counted_fops := C10_bounded_power_counted_thm fops fops_ok.
Definition C10_bounded_power_fops := C10_bounded_power_thm fops fops_ok.
Definition C10_bounded_power_calibrated_fops := C10_bounded_power_calibrated_thm fops fops_ok.
Check C10_converges_rs_fops.
Print Assumptions C10_converges_rs_fops.
