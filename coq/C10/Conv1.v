(* C10 — convergence of a positioning task on a calibrated roller shutter, part 1: set_relay and task_processing
   evaluated symbolically for a roller shutter without auto-calibration business; callbacks with both outputs off. *)
From Coq Require Import List ZArith Bool Lia.
Import ListNotations.
From V Require Import Base.U32 Base.Iface Gen.RsConsts C09.Model C09.Proofs C10.Model C10.Frame C10.Fields C10.Proofs C10.Autocal C10.Calibrated.
Local Open Scope Z_scope.
Notation pos := C10.Model.pos.
Notation tilt := C10.Model.tilt.
Notation up_time := C10.Model.up_time.
Notation down_time := C10.Model.down_time.
Notation last_time := C10.Model.last_time.
Notation last_comm := C10.Model.last_comm.
Notation now := C10.Model.now.
Notation flags := C10.Model.flags.

(* ---------- set_relay, symbolically, when no auto-calibration is running ---------- *)
Lemma sr_abort_id d : ac_step d = 0 -> sr_abort d = d.
Proof. intros H. unfold sr_abort. rewrite H, andb_false_r. reflexivity. Qed.

Lemma set_relay_off_eq k d :
  ac_step d = 0 ->
  set_relay k d RELAY_OFF false false = set_button_req (relay_hi k (relay_hi k (disarm d) true false) false false) false.
Proof.
  intros H. unfold set_relay. rewrite (sr_abort_id d H).
  unfold sr_delay. rewrite Z.eqb_refl. rewrite fst_pair2. cbn [snd andb].
  unfold sr_act. replace (DELAY_THRESHOLD_MS <? 0) with false by reflexivity.
  replace (RELAY_OFF =? RELAY_UP) with false by reflexivity. replace (RELAY_OFF =? RELAY_DOWN) with false by reflexivity.
  reflexivity.
Qed.

(* the state after the flag clearing of a start request *)
Definition sr_prep (d : dev) (v : Z) : dev :=
  fl_clear (fl_clear (fl_clear (upd_misc (disarm d) v (now (disarm d)) (clk (disarm d))) FLAG_CALIBRATION_FAILED) FLAG_MOTOR_PROBLEM) FLAG_CALIBRATION_LOST.
Definition start_delay_ms (k : kcfg) (d : dev) : Z :=
  if (start_time d =? 0) && (0 <? stop_time d) && (u32 (counter k d - stop_time d) / 1000 <? START_DELAY_MS)
  then u32 (START_DELAY_MS - u32 (counter k d - stop_time d) / 1000 + 1) else 0.

(* a start request (up or down) while both outputs are off *)
Lemma set_relay_start_eq k d up :
  ac_step d = 0 -> up_on d = false -> down_on d = false ->
  set_relay k d (dirz up) false false = sr_act k (sr_prep d (dirz up)) (dirz up) (start_delay_ms k d).
Proof.
  intros H U D. unfold set_relay. rewrite (sr_abort_id d H).
  unfold sr_delay.
  assert (Ev : (dirz up =? RELAY_OFF) = false) by (destruct up; reflexivity).
  rewrite Ev. rewrite fst_pair2. cbn [snd]. fold (sr_prep d (dirz up)).
  assert (Eo : (if negb (dirz up =? RELAY_UP) then up_on (sr_prep d (dirz up)) else down_on (sr_prep d (dirz up))) = false).
  { unfold sr_prep. frw. destruct (negb (dirz up =? RELAY_UP)); assumption. }
  rewrite Eo.
  unfold start_delay_ms, sr_prep, counter. frw. reflexivity.
Qed.

(* task fields and the pending trigger *)
Record keeps3 (d d' : dev) : Prop := {
  k3_pos : tk_pos d' = tk_pos d; k3_tilt : tk_tilt d' = tk_tilt d; k3_dir : tk_dir d' = tk_dir d; k3_state : tk_state d' = tk_state d }.
Lemma keeps3_refl d : keeps3 d d. Proof. constructor; reflexivity. Qed.
Lemma keeps3_trans a b c : keeps3 a b -> keeps3 b c -> keeps3 a c.
Proof. intros [] []. constructor; congruence. Qed.
Ltac k3 := constructor; first [rfl_noevar | (frw; reflexivity)].

Lemma relay_hi_keeps3 k d u hi : keeps3 d (relay_hi k d u hi) /\ delayed (relay_hi k d u hi) = delayed d.
Proof. unfold relay_hi. destruct (negb (if u then hi else up_on d) && negb (if u then down_on d else hi)); split; try k3; frw; reflexivity. Qed.

Lemma sr_act_keeps3 k d v dl : keeps3 d (sr_act k d v dl).
Proof.
  unfold sr_act. destruct (DELAY_THRESHOLD_MS <? dl); [k3|].
  destruct (v =? RELAY_UP); [destruct ((k_add_margin k =? 0) && (cur_pos d =? 0)); [apply keeps3_refl|eapply keeps3_trans; [apply relay_hi_keeps3|k3]]|].
  destruct (v =? RELAY_DOWN); [destruct ((k_add_margin k =? 0) && (cur_pos d =? 100)); [apply keeps3_refl|eapply keeps3_trans; [apply relay_hi_keeps3|k3]]|].
  eapply keeps3_trans; [apply relay_hi_keeps3|]. eapply keeps3_trans; [apply relay_hi_keeps3|k3].
Qed.

Lemma set_relay_keeps3 k d v s : ac_step d = 0 -> keeps3 d (set_relay k d v false s).
Proof.
  intros H. unfold set_relay. rewrite (sr_abort_id d H).
  eapply keeps3_trans; [|apply sr_act_keeps3].
  unfold sr_delay. destruct (v =? RELAY_OFF); rewrite fst_pair2; [k3|].
  match goal with |- context[if ?c then _ else _] => destruct c end.
  - eapply keeps3_trans; [|k3]. eapply keeps3_trans; [|apply relay_hi_keeps3]. k3.
  - k3.
Qed.

(* switching off: nothing pending afterwards *)
Lemma set_relay_off_facts k d d' :
  ac_step d = 0 -> d' = set_relay k d RELAY_OFF false false ->
  up_on d' = false /\ down_on d' = false /\ delayed d' = None /\ keeps2 d d' /\ keeps3 d d' /\ sub true d d'.
Proof.
  intros H E'.
  destruct (set_relay_off_state k d false d' (or_intror H) E') as (U & D & _ & _).
  split; [exact U|]. split; [exact D|].
  split.
  { rewrite E', (set_relay_off_eq k d H). frw.
    rewrite (proj2 (relay_hi_keeps3 k _ _ _)), (proj2 (relay_hi_keeps3 k _ _ _)). frw. reflexivity. }
  split; [rewrite E'; apply set_relay_keeps2; exact H|]. split; [rewrite E'; apply set_relay_keeps3; exact H|].
  rewrite E'. apply sub_set_relay.
Qed.

(* switching an output on from "both off" *)
Lemma relay_hi_on_eq k d (up : bool) :
  up_on d = false -> down_on d = false ->
  relay_hi k d up true =
  upd_relay d up (negb up) (if start_time d =? 0 then counter k d else start_time d) 0 (delayed d)
            (clk d + RELAY_SETTLE_US + RELAY_DOUBLE_TRY_US + RELAY_SETTLE_US)
            (mk 2 [clk d + RELAY_SETTLE_US; dirz up; 1] [] :: outs d).
Proof.
  intros U D. unfold relay_hi. rewrite U, D. destruct up; cbn [negb andb Bool.eqb]; unfold log_gpio, dirz; reflexivity.
Qed.

(* the three outcomes of a start request on an idle shutter *)
Definition refused (k : kcfg) (d : dev) (up : bool) : bool :=
  (k_add_margin k =? 0) && (cur_pos d =? (if up then 0 else 100)).

Lemma sr_act_start k d (up : bool) dl :
  up_on d = false -> down_on d = false ->
  sr_act k d (dirz up) dl =
  if DELAY_THRESHOLD_MS <? dl then
    set_button_req (upd_relay d (up_on d) (down_on d) (start_time d) (stop_time d) (Some (dirz up, clk d + dl * 1000, button_req d)) (clk d) (outs d)) false
  else if refused k d up then d
  else set_button_req (relay_hi k d up true) false.
Proof.
  intros U D. unfold sr_act, refused. destruct (DELAY_THRESHOLD_MS <? dl); [reflexivity|].
  destruct up; unfold dirz.
  - rewrite Z.eqb_refl. reflexivity.
  - replace (RELAY_DOWN =? RELAY_UP) with false by reflexivity. rewrite Z.eqb_refl. reflexivity.
Qed.

(* ---------- task_processing on a calibrated roller shutter ---------- *)
Record rs_task (d : dev) : Prop := {
  rt_known : known (pos d) = true; rt_step : ac_step d = 0; rt_perf : perform d = false;
  rt_tilt : tilt d = -1 \/ tilt d = 0; rt_ttilt : tk_tilt d = -1 }.

Lemma task_processing_rs k d im fo fc :
  rsk k -> rs_task d -> tk_state d <> TASK_INACTIVE ->
  task_processing k d im fo fc =
  tp_tilt k (tp_position k (tp_tilt_start k (tp_start k d (tk_pos d * 100) (pos d - 100)) 0 (-100)) im fo fc (pos d - 100) 0 (tk_pos d * 100) 0 0) 0 (-100).
Proof.
  intros [R0 R1] T Hs. unfold task_processing.
  replace (tk_state d =? TASK_INACTIVE) with false by (symmetry; apply Z.eqb_neq; exact Hs).
  rewrite (rt_step _ T), (rt_perf _ T), (rt_known _ T). cbn [orb negb Z.ltb Z.compare].
  assert (Et : (if tilt d - 100 <? 0 then 0 else tilt d - 100) = 0).
  { destruct (rt_tilt _ T) as [E|E]; rewrite E; reflexivity. }
  rewrite Et, (rt_ttilt _ T).
  assert (Ep : tp_pre k d fo fc (pos d - 100) 0 (tk_pos d * 100) (-1 * 100) = (pos d - 100, 0, 0)) by (unfold tp_pre; reflexivity).
  rewrite Ep. reflexivity.
Qed.

Definition beyond (up : bool) (raw tp : Z) : Prop := if up then tp < raw else raw < tp.
Definition with_task (d : dev) (di st : Z) : dev := upd_task d (tk_pos d) (tk_tilt d) di st.

(* a fresh task: the motor is asked to start towards the target *)
Lemma tp_active k d im fo fc up :
  rsk k -> rs_task d -> tk_state d = TASK_ACTIVE -> 0 <= tk_pos d <= 100 -> beyond up (pos d - 100) (tk_pos d * 100) ->
  task_processing k d im fo fc =
  set_relay k (with_task (with_task d (tk_dir d) TASK_SETTING_POSITION) (dirz up) TASK_SETTING_POSITION) (dirz up) false false.
Proof.
  intros R T Hs Hp Hb.
  rewrite (task_processing_rs k d im fo fc R T) by (rewrite Hs; discriminate).
  assert (E1 : tp_start k d (tk_pos d * 100) (pos d - 100) =
               set_relay k (with_task (with_task d (tk_dir d) TASK_SETTING_POSITION) (dirz up) TASK_SETTING_POSITION) (dirz up) false false).
  { unfold tp_start. rewrite Hs. rewrite Z.eqb_refl. cbv zeta.
    replace (tk_pos d * 100 =? -100) with false by (symmetry; apply Z.eqb_neq; lia). cbn [negb].
    unfold beyond in Hb. destruct up.
    - replace (tk_pos d * 100 <? pos d - 100) with true by (symmetry; apply Z.ltb_lt; exact Hb).
      unfold with_task, dirz. frw. reflexivity.
    - replace (tk_pos d * 100 <? pos d - 100) with false by (symmetry; apply Z.ltb_ge; lia).
      replace (pos d - 100 <? tk_pos d * 100) with true by (symmetry; apply Z.ltb_lt; exact Hb).
      unfold with_task, dirz. frw. reflexivity. }
  rewrite E1.
  set (x := with_task (with_task d (tk_dir d) TASK_SETTING_POSITION) (dirz up) TASK_SETTING_POSITION).
  assert (Sx : ac_step x = 0) by (unfold x, with_task; frw; exact (rt_step _ T)).
  pose proof (set_relay_keeps3 k x (dirz up) false Sx) as K3.
  assert (Tx : tk_state x = TASK_SETTING_POSITION /\ tk_dir x = dirz up /\ tk_pos x = tk_pos d) by (unfold x, with_task; frw; auto).
  destruct Tx as (Tx1 & Tx2 & Tx3).
  remember (set_relay k x (dirz up) false false) as y eqn:Ey. clear Ey.
  assert (Ty1 : tk_state y = TASK_SETTING_POSITION) by (rewrite (k3_state _ _ K3); exact Tx1).
  assert (Ty2 : tk_dir y = dirz up) by (rewrite (k3_dir _ _ K3); exact Tx2).
  assert (Dn0 : (dirz up =? 0) = false) by (destruct up; reflexivity).
  unfold tp_tilt_start. rewrite Ty1, Ty2, Dn0, andb_false_r.
  unfold tp_position. rewrite Ty1, Ty2, Z.eqb_refl. cbn [andb].
  assert (Ec : ((dirz up =? RELAY_UP) && (pos d - 100 <=? tk_pos d * 100 - 0) || (dirz up =? RELAY_DOWN) && (tk_pos d * 100 + 0 <=? pos d - 100)) = false).
  { unfold beyond in Hb. destruct up; unfold dirz.
    - rewrite Z.eqb_refl. replace (RELAY_UP =? RELAY_DOWN) with false by reflexivity. cbn [andb orb].
      rewrite orb_false_r. apply Z.leb_gt. lia.
    - replace (RELAY_DOWN =? RELAY_UP) with false by reflexivity. rewrite Z.eqb_refl. cbn [andb orb]. apply Z.leb_gt. lia. }
  rewrite Ec.
  unfold tp_tilt. rewrite Ty1. replace (TASK_SETTING_POSITION =? TASK_SETTING_TILT) with false by reflexivity. reflexivity.
Qed.

Definition task_margin (k : kcfg) (im : bool) : Z :=
  if k_margin k <? DEFAULT_MARGIN then (if im && (k_margin k <? SENSOR_TASK_MARGIN) then SENSOR_TASK_MARGIN else k_margin k)
  else DEFAULT_TASK_MARGIN.
(* the task keeps the motor running at an end stop while the time margin lasts *)
Definition end_wait (k : kcfg) (d : dev) (im : bool) (fo fc : Z) : bool :=
  ((pos d - 100 =? 0) && time_margin fo (up_time d) (task_margin k im))
  || ((pos d - 100 =? 10000) && time_margin fc (down_time d) (task_margin k im)).
Definition reached (up : bool) (raw tp : Z) : Prop := if up then raw <= tp else tp <= raw.

Lemma reached_or_beyond up raw tp : reached up raw tp \/ beyond up raw tp.
Proof. unfold reached, beyond. destruct up; lia. Qed.

(* a task that is positioning in direction `up` *)
Lemma tp_moving k d im fo fc up :
  rsk k -> rs_task d -> aot d = 0 -> tk_state d = TASK_SETTING_POSITION -> tk_dir d = dirz up ->
  (beyond up (pos d - 100) (tk_pos d * 100) -> task_processing k d im fo fc = d) /\
  (reached up (pos d - 100) (tk_pos d * 100) ->
   task_processing k d im fo fc =
   if end_wait k d im fo fc then d else set_relay k (with_task d 0 TASK_SETTING_POSITION) RELAY_OFF false false).
Proof.
  intros R T Ha Hs Hd.
  rewrite (task_processing_rs k d im fo fc R T) by (rewrite Hs; discriminate).
  assert (E1 : tp_start k d (tk_pos d * 100) (pos d - 100) = d).
  { unfold tp_start. rewrite Hs. replace (TASK_SETTING_POSITION =? TASK_ACTIVE) with false by reflexivity. reflexivity. }
  rewrite E1.
  assert (Dn0 : (dirz up =? 0) = false) by (destruct up; reflexivity).
  assert (E2 : tp_tilt_start k d 0 (-100) = d) by (unfold tp_tilt_start; rewrite Hs, Hd, Dn0, andb_false_r; reflexivity).
  rewrite E2.
  assert (Ett : forall x, tk_state x = TASK_SETTING_POSITION -> tp_tilt k x 0 (-100) = x).
  { intros x Hx. unfold tp_tilt. rewrite Hx. replace (TASK_SETTING_POSITION =? TASK_SETTING_TILT) with false by reflexivity. reflexivity. }
  destruct R as [R0 R1].
  split.
  - intros Hb. unfold tp_position. rewrite Hs, Hd, Z.eqb_refl. cbn [andb].
    assert (Ec : ((dirz up =? RELAY_UP) && (pos d - 100 <=? tk_pos d * 100 - 0) || (dirz up =? RELAY_DOWN) && (tk_pos d * 100 + 0 <=? pos d - 100)) = false).
    { unfold beyond in Hb. destruct up; unfold dirz.
      - rewrite Z.eqb_refl. replace (RELAY_UP =? RELAY_DOWN) with false by reflexivity. cbn [andb orb].
        rewrite orb_false_r. apply Z.leb_gt. lia.
      - replace (RELAY_DOWN =? RELAY_UP) with false by reflexivity. rewrite Z.eqb_refl. cbn [andb orb]. apply Z.leb_gt. lia. }
    rewrite Ec. apply Ett. exact Hs.
  - intros Hr. unfold tp_position. rewrite Hs, Hd, Z.eqb_refl. cbn [andb].
    assert (Ec : ((dirz up =? RELAY_UP) && (pos d - 100 <=? tk_pos d * 100 - 0) || (dirz up =? RELAY_DOWN) && (tk_pos d * 100 + 0 <=? pos d - 100)) = true).
    { unfold reached in Hr. destruct up; unfold dirz.
      - rewrite Z.eqb_refl. cbn [andb]. apply orb_true_iff. left. apply Z.leb_le. lia.
      - replace (RELAY_DOWN =? RELAY_UP) with false by reflexivity. rewrite Z.eqb_refl. cbn [andb orb]. apply Z.leb_le. lia. }
    rewrite Ec. cbv zeta. fold (task_margin k im).
    rewrite R0. replace (0 =? TILT_CHANGE_POSITION) with false by reflexivity. replace (0 =? TILT_NOT_SUPPORTED) with true by reflexivity.
    cbn [orb andb]. rewrite andb_true_r.
    unfold end_wait.
    destruct ((pos d - 100 =? 0) && time_margin (fo) (up_time d) (task_margin k im)) eqn:W1; cbn [orb].
    { apply Ett. exact Hs. }
    destruct ((pos d - 100 =? 10000) && time_margin fc (down_time d) (task_margin k im)) eqn:W2.
    { apply Ett. exact Hs. }
    assert (Ead : autocal_done d = false) by (unfold autocal_done; rewrite Ha; reflexivity).
    rewrite Ead, andb_false_r. cbn [andb].
    assert (Ets : tilt_sup k = false) by (unfold tilt_sup; rewrite R1; reflexivity).
    rewrite Ets. cbn [negb]. unfold with_task. rewrite ?Hs.
    assert (Sx : ac_step (upd_task d (tk_pos d) (tk_tilt d) 0 TASK_SETTING_POSITION) = 0) by (frw; exact (rt_step _ T)).
    pose proof (set_relay_keeps3 k _ RELAY_OFF false Sx) as K3.
    apply Ett. rewrite (k3_state _ _ K3). frw. reflexivity.
Qed.

(* positioning finished (direction cleared): the task ends, the motor is (again) switched off *)
Lemma tp_finish k d im fo fc :
  rsk k -> rs_task d -> tk_state d = TASK_SETTING_POSITION -> tk_dir d = 0 ->
  task_processing k d im fo fc =
  set_relay k (with_task (with_task d (tk_dir d) TASK_SETTING_TILT) 0 TASK_INACTIVE) RELAY_OFF false false.
Proof.
  intros R T Hs Hd.
  rewrite (task_processing_rs k d im fo fc R T) by (rewrite Hs; discriminate).
  assert (E1 : tp_start k d (tk_pos d * 100) (pos d - 100) = d).
  { unfold tp_start. rewrite Hs. replace (TASK_SETTING_POSITION =? TASK_ACTIVE) with false by reflexivity. reflexivity. }
  rewrite E1.
  assert (E2 : tp_tilt_start k d 0 (-100) = set_relay k (with_task (with_task d (tk_dir d) TASK_SETTING_TILT) 0 TASK_INACTIVE) RELAY_OFF false false).
  { unfold tp_tilt_start. rewrite Hs, Hd, !Z.eqb_refl. cbn [andb]. cbv zeta.
    replace ((-100 <? 0) && negb (-100 =? -100)) with false by reflexivity.
    replace ((0 <? -100) && negb (-100 =? -100)) with false by reflexivity.
    unfold with_task. frw. reflexivity. }
  rewrite E2.
  set (x := with_task (with_task d (tk_dir d) TASK_SETTING_TILT) 0 TASK_INACTIVE).
  assert (Sx : ac_step x = 0) by (unfold x, with_task; frw; exact (rt_step _ T)).
  pose proof (set_relay_keeps3 k x RELAY_OFF false Sx) as K3.
  assert (Tx : tk_state x = TASK_INACTIVE) by (unfold x, with_task; frw; reflexivity).
  remember (set_relay k x RELAY_OFF false false) as y eqn:Ey. clear Ey.
  assert (Ty : tk_state y = TASK_INACTIVE) by (rewrite (k3_state _ _ K3); exact Tx).
  unfold tp_position. rewrite Ty. replace (TASK_INACTIVE =? TASK_SETTING_POSITION) with false by reflexivity. cbn [andb].
  unfold tp_tilt. rewrite Ty. replace (TASK_INACTIVE =? TASK_SETTING_TILT) with false by reflexivity. reflexivity.
Qed.

Lemma tp_inactive k d im fo fc : tk_state d = TASK_INACTIVE -> task_processing k d im fo fc = d.
Proof. intros H. unfold task_processing. rewrite H, Z.eqb_refl. reflexivity. Qed.

(* ---------- what the parts of a callback leave alone ---------- *)
Record same_core (d d' : dev) : Prop := {
  sc_k2 : keeps2 d d'; sc_k3 : keeps3 d d';
  sc_up : up_on d' = up_on d; sc_down : down_on d' = down_on d; sc_del : delayed d' = delayed d;
  sc_st : start_time d' = start_time d; sc_sp : stop_time d' = stop_time d }.
Lemma same_core_refl d : same_core d d.
Proof. constructor; try reflexivity; [apply keeps2_refl|apply keeps3_refl]. Qed.
Lemma same_core_trans a b c : same_core a b -> same_core b c -> same_core a c.
Proof. intros [] []. constructor; try congruence; [eapply keeps2_trans; eauto|eapply keeps3_trans; eauto]. Qed.
Ltac sc := constructor; [k2|k3|..]; first [rfl_noevar | (frw; reflexivity)].

Lemma same_core_begin d : same_core d (begin_event d). Proof. unfold begin_event. sc. Qed.
Lemma same_core_set_clock d t : same_core d (set_clock d t). Proof. unfold set_clock. sc. Qed.
Lemma same_core_stamp d t : same_core d (stamp_last d t). Proof. unfold stamp_last. sc. Qed.
Lemma same_core_rb_report k d : same_core d (rb_report k d).
Proof.
  unfold rb_report.
  destruct (negb (C10.Model.last_pos d =? pos d) || negb (C10.Model.last_flags d =? flags d) || negb (C10.Model.last_tilt d =? tilt d)); [cbv zeta; sc|apply same_core_refl].
Qed.

(* the report block when neither run-time counter exceeds ten minutes *)
Lemma report_block_short k d t :
  (TEN_MINUTES_US <? up_time d) || (TEN_MINUTES_US <? down_time d) = false ->
  same_core d (report_block k d t) /\ up_time (report_block k d t) = up_time d /\ down_time (report_block k d t) = down_time d /\
  now (report_block k d t) = now d.
Proof.
  intros Hl.
  destruct (REPORT_PERIOD_US <=? u32 (t - last_comm d)) eqn:Edue.
  - rewrite (rb_due_short k d t Edue Hl).
    destruct (rb_report_facts true k d (rb_report k d) eq_refl) as (_ & _ & _ & U & D & _ & _ & N & _).
    split; [eapply same_core_trans; [apply same_core_rb_report|sc]|]. frw. auto.
  - rewrite (rb_not_due k d t Edue). split; [apply same_core_refl|auto].
Qed.

(* ---------- a callback with both outputs off (board without the auto-calibration flag) ---------- *)
Definition off_pre (d : dev) : dev :=
  upd_times (fl_clear (upd_cal d (ac_step d) (perform d) (button_req d) false) FLAG_CALIBRATION_IN_PROGRESS) 0 0 (last_time d) (last_comm d).

Lemma noflag_not_enabled k d : k_autocal_flag k = false -> autocal_enabled k d = false.
Proof. intros F. unfold autocal_enabled. rewrite F, andb_false_r. reflexivity. Qed.

Section OffCallback.
Variable o : fpops.

Lemma timer_cb_off k d im :
  k_autocal_flag k = false -> up_on d = false -> down_on d = false -> ac_step d = 0 -> aot d = 0 -> act d = 0 ->
  C10.Model.timer_cb o k d im =
  stamp_last (report_block k (task_processing k (off_pre d) im (time1 d) (time2 d)) (counter k d)) (counter k d).
Proof.
  intros F U D S A B. rewrite timer_cb_eq.
  pose proof (noflag_not_enabled k d F) as NE.
  rewrite (cb_head_id k d NE S A B), NE.
  assert (Ep : cb_power k d im false (counter k d) = upd_cal d (ac_step d) (perform d) (button_req d) false)
    by (unfold cb_power; rewrite U, D; reflexivity).
  rewrite Ep.
  assert (Ea : cb_account o k (upd_cal d (ac_step d) (perform d) (button_req d) false) im (counter k d) (cb_fo k d) (cb_fc k d) =
               (off_pre d, time1 d, time2 d)).
  { unfold cb_account, cb_fo, cb_fc, off_pre. frw. rewrite U, D, NE, S. rewrite Z.eqb_refl. frw. reflexivity. }
  rewrite Ea. cbn [fst snd]. unfold cb_tail.
  rewrite (cb_need_id k (off_pre d)) by (apply noflag_not_enabled; exact F). reflexivity.
Qed.

End OffCallback.
