(* C10 — proofs about the roller-shutter module model (C10/Model.v), part 1 (part 2 is C10/Proofs.v).
   Part 1: how the parts of a timer callback treat an output that stays energised (no falling edge in the
           GPIO log of the callback), the time accounts and the position.
   Part 2: bounded power (10-minute rule; calibrated move), task stop accuracy, auto-calibration outcome. *)
From Coq Require Import List ZArith Bool Lia.
Import ListNotations.
From V Require Import Base.U32 Base.Iface Gen.RsConsts C09.Model C09.Proofs C10.Model.
Local Open Scope Z_scope.

(* the names below are also defined (for the C09 state) in C09.Model *)
Notation pos := C10.Model.pos.
Notation tilt := C10.Model.tilt.
Notation up_time := C10.Model.up_time.
Notation down_time := C10.Model.down_time.
Notation last_time := C10.Model.last_time.
Notation last_comm := C10.Model.last_comm.
Notation now := C10.Model.now.
Notation flags := C10.Model.flags.
Notation timer_cb := C10.Model.timer_cb.
Notation step := C10.Model.step.

Ltac fld := cbn [C10.Model.pos C10.Model.tilt C10.Model.up_time C10.Model.down_time C10.Model.last_time C10.Model.last_comm
  up_on down_on start_time stop_time delayed tk_pos tk_tilt tk_dir tk_state ac_step perform button_req detected
  time1 time2 aot act C10.Model.flags C10.Model.last_pos C10.Model.last_tilt C10.Model.last_flags last_direction C10.Model.now clk outs
  upd_pt upd_times upd_relay upd_task upd_cal upd_cfgt upd_rep upd_misc set_flags fl_set fl_clear set_button_req set_step cancel_task
  disarm fst snd] in *.

Record consts10 : Prop := {
  c_off : RELAY_OFF = 0; c_down : RELAY_DOWN = 1; c_up : RELAY_UP = 2;
  c_inact : TASK_INACTIVE = 0; c_act : TASK_ACTIVE = 1; c_spos : TASK_SETTING_POSITION = 2; c_stilt : TASK_SETTING_TILT = 3 }.
Lemma consts10_ok : consts10. Proof. constructor; vm_compute; reflexivity. Qed.

(* ---------- the GPIO log ---------- *)
Definition dirz (up : bool) : Z := if up then RELAY_UP else RELAY_DOWN.
Definition powered (up : bool) (d : dev) : bool := if up then up_on d else down_on d.
(* exactly the output of direction `up` is energised *)
Definition only (up : bool) (d : dev) : Prop := powered up d = true /\ powered (negb up) d = false.
Definition fallb (up : bool) (w : wire) : bool :=
  match w with (kd, a, _) => (kd =? 2) && (nth0 a 1 =? dirz up) && (nth0 a 2 =? 0) end.
Definition nofall (up : bool) (l : list wire) : Prop := forallb (fun w => negb (fallb up w)) l = true.

Lemma nofall_app up a b : nofall up (a ++ b) <-> nofall up a /\ nofall up b.
Proof. unfold nofall. rewrite forallb_app, andb_true_iff. tauto. Qed.
Lemma nofall_cons up w l : nofall up (w :: l) <-> fallb up w = false /\ nofall up l.
Proof. unfold nofall. cbn [forallb]. rewrite andb_true_iff, negb_true_iff. tauto. Qed.
Lemma nofall_nil up : nofall up []. Proof. reflexivity. Qed.

(* ---------- "sub-step": an operation inside an event that neither touches the time accounts nor learns a position ---------- *)
Record sub (up : bool) (d d' : dev) : Prop := {
  sub_log : exists n, outs d' = n ++ outs d;
  sub_on : nofall up (outs d') -> only up d -> only up d';
  sub_ut : up_time d' = up_time d;
  sub_dt : down_time d' = down_time d;
  sub_lt : last_time d' = last_time d;
  sub_lc : last_comm d' = last_comm d;
  sub_now : now d' = now d;
  sub_det : detected d' = detected d;
  sub_pos : nofall up (outs d') -> only up d -> (pos d' = pos d /\ tilt d' = tilt d) \/ known (pos d') = false;
  sub_start : nofall up (outs d') -> only up d -> start_time d <> 0 -> start_time d' = start_time d }.

Lemma sub_refl up d : sub up d d.
Proof. constructor; auto. exists []; reflexivity. Qed.

Lemma sub_trans up a b c : sub up a b -> sub up b c -> sub up a c.
Proof.
  intros [l1 o1 u1 d1 t1 c1 n1 e1 p1 s1] [l2 o2 u2 d2 t2 c2 n2 e2 p2 s2].
  destruct l1 as [x1 L1]. destruct l2 as [x2 L2].
  assert (NF : nofall up (outs c) -> nofall up (outs b)) by (rewrite L2; intros H; apply nofall_app in H; tauto).
  constructor; try congruence.
  - exists (x2 ++ x1). rewrite L2, L1, app_assoc. reflexivity.
  - intros H O. apply o2; auto.
  - intros H O. specialize (p1 (NF H) O). specialize (p2 H (o1 (NF H) O)).
    destruct p2 as [[P2 T2]|P2]; [|right; exact P2].
    destruct p1 as [[P1 T1]|P1]; [left; split; congruence|right; congruence].
  - intros H O S. rewrite (s2 H (o1 (NF H) O)); [apply s1; auto|]. rewrite (s1 (NF H) O S). exact S.
Qed.

(* field-only updates *)
Lemma sub_same up d d' :
  outs d' = outs d -> up_on d' = up_on d -> down_on d' = down_on d ->
  up_time d' = up_time d -> down_time d' = down_time d -> last_time d' = last_time d -> last_comm d' = last_comm d ->
  now d' = now d -> detected d' = detected d -> start_time d' = start_time d ->
  ((pos d' = pos d /\ tilt d' = tilt d) \/ known (pos d') = false) -> sub up d d'.
Proof.
  intros Ho Hu Hd. intros. constructor; auto.
  - exists []. rewrite Ho. reflexivity.
  - intros _ [A B]. unfold only, powered in *. destruct up; cbn [negb] in *; rewrite Hu, Hd; auto.
Qed.

Ltac same := apply sub_same; fld; auto.

Lemma sub_fl_set up d b : sub up d (fl_set d b). Proof. same. Qed.
Lemma sub_fl_clear up d b : sub up d (fl_clear d b). Proof. same. Qed.
Lemma sub_set_step up d s : sub up d (set_step d s). Proof. same. Qed.
Lemma sub_set_button_req up d b : sub up d (set_button_req d b). Proof. same. Qed.
Lemma sub_cancel_task up d : sub up d (cancel_task d). Proof. same. Qed.
Lemma sub_upd_task up d a b c e : sub up d (upd_task d a b c e). Proof. same. Qed.
Lemma sub_disarm up d : sub up d (disarm d). Proof. same. Qed.
Lemma sub_upd_cfgt up d a b c e : sub up d (upd_cfgt d a b c e). Proof. same. Qed.
Lemma sub_forget up d : sub up d (upd_pt d 0 0). Proof. same. Qed.
Lemma sub_last_direction up d v : sub up d (upd_misc d v (now d) (clk d)). Proof. same. Qed.
Lemma sub_pause up d x : sub up d (upd_misc d (last_direction d) (now d) x). Proof. same. Qed.

(* ---------- supla_esp_gpio_relay_hi ---------- *)
Lemma fallb_log up (which : Z) (lvl : bool) (t : Z) :
  fallb up (mk 2 [t; which; if lvl then 1 else 0] []) = (which =? dirz up) && negb lvl.
Proof. unfold fallb, mk, nth0. cbn [nth]. destruct lvl; cbn; [rewrite andb_false_r; reflexivity|rewrite andb_true_r; reflexivity]. Qed.

Lemma dirz_neq up : dirz up <> dirz (negb up).
Proof. pose proof consts10_ok as C. unfold dirz. destruct up; cbn [negb]; rewrite (c_up C), (c_down C); lia. Qed.

(* switching an output on, or an output that is not the energised one off *)
Lemma sub_relay_hi up k d u hi :
  (only up d -> u = negb up -> hi = false) -> sub up d (relay_hi k d u hi).
Proof.
  intros Hsafe. unfold relay_hi.
  set (changed := negb (Bool.eqb (if u then up_on d else down_on d) hi)).
  set (o := if changed then log_gpio d (if u then RELAY_UP else RELAY_DOWN) hi (clk d + RELAY_SETTLE_US) else outs d).
  assert (Hlog : exists n, o = n ++ outs d).
  { unfold o. destruct changed; [|exists []; reflexivity]. unfold log_gpio. eexists [_]. reflexivity. }
  assert (Hfall : nofall up o -> only up d -> u = up -> hi = true).
  { intros NF [P Q] ->. destruct hi; [reflexivity|exfalso].
    unfold o, changed in NF. unfold powered in P. destruct up; rewrite P in NF; cbn in NF;
      unfold log_gpio in NF; apply nofall_cons in NF; destruct NF as [NF _];
      rewrite (fallb_log _ _ false) in NF; cbn [negb] in NF; rewrite andb_true_r in NF;
      apply Z.eqb_neq in NF; apply NF; reflexivity. }
  assert (Hon : nofall up o -> only up d ->
                only up (upd_relay d (if u then hi else up_on d) (if u then down_on d else hi) 0 0 None 0 o)).
  { intros NF O. pose proof O as [P Q]. unfold only, powered in *. fld.
    destruct (Bool.eqb u up) eqn:E.
    - apply eqb_prop in E. subst u. rewrite (Hfall NF O eq_refl). destruct up; cbn [negb] in *; auto.
    - apply eqb_false_iff in E. assert (u = negb up) by (destruct u, up; cbn; congruence).
      rewrite (Hsafe O H). subst u. destruct up; cbn [negb] in *; auto. }
  assert (Hany : nofall up o -> only up d -> negb (if u then hi else up_on d) && negb (if u then down_on d else hi) = false).
  { intros NF O. destruct (Hon NF O) as [P _]. unfold powered in P. fld. destruct up; rewrite P; cbn; auto. rewrite andb_false_r. reflexivity. }
  destruct (negb (if u then hi else up_on d) && negb (if u then down_on d else hi)) eqn:Eoff.
  - constructor; fld; auto; intros NF O; discriminate (Hany NF O).
  - constructor; fld; auto.
    all: try (intros NF O; destruct (Hon NF O) as [P Q]; unfold only, powered in *; fld; auto).
    intros S. destruct (start_time d =? 0) eqn:E; [apply Z.eqb_eq in E; congruence|reflexivity].
Qed.

(* ---------- supla_esp_gpio_rs_set_relay ---------- *)
Lemma sub_sr_abort up d : sub up d (sr_abort d).
Proof.
  unfold sr_abort. destruct (negb (button_req d) && (0 <? ac_step d)); [|apply sub_refl].
  eapply sub_trans; [apply sub_set_step|]. eapply sub_trans; [apply sub_upd_cfgt|].
  eapply sub_trans; [apply sub_forget|]. apply sub_fl_clear.
Qed.

Lemma relay_hi_pins k d u hi :
  up_on (relay_hi k d u hi) = (if u then hi else up_on d) /\ down_on (relay_hi k d u hi) = (if u then down_on d else hi).
Proof. unfold relay_hi. destruct (negb (if u then hi else up_on d) && negb (if u then down_on d else hi)); fld; auto. Qed.

Lemma sub_sr_delay up k d v s t : sub up d (fst (sr_delay k d v s t)).
Proof.
  unfold sr_delay. destruct (v =? RELAY_OFF); [cbn [fst]; apply sub_refl|]. cbv zeta. cbn [fst].
  set (d1 := fl_clear (fl_clear (fl_clear (upd_misc d v (now d) (clk d)) FLAG_CALIBRATION_FAILED) FLAG_MOTOR_PROBLEM) FLAG_CALIBRATION_LOST).
  assert (S1 : sub up d d1).
  { unfold d1. eapply sub_trans; [apply sub_last_direction|]. eapply sub_trans; [apply sub_fl_clear|].
    eapply sub_trans; [apply sub_fl_clear|]. apply sub_fl_clear. }
  destruct (if negb (v =? RELAY_UP) then up_on d1 else down_on d1); [|exact S1].
  eapply sub_trans; [exact S1|]. eapply sub_trans; [apply sub_relay_hi; auto|]. apply sub_pause.
Qed.

(* after the delay part the output opposite to the requested direction is off *)
Lemma sr_delay_other_off k d v s t :
  v <> RELAY_OFF ->
  (v = RELAY_UP -> down_on (fst (sr_delay k d v s t)) = false) /\ (v <> RELAY_UP -> up_on (fst (sr_delay k d v s t)) = false).
Proof.
  intros Hv.
  assert (E0 : fst (sr_delay k d v s t) =
               if (if negb (v =? RELAY_UP) then up_on (fl_clear (fl_clear (fl_clear (upd_misc d v (now d) (clk d)) FLAG_CALIBRATION_FAILED) FLAG_MOTOR_PROBLEM) FLAG_CALIBRATION_LOST) else down_on (fl_clear (fl_clear (fl_clear (upd_misc d v (now d) (clk d)) FLAG_CALIBRATION_FAILED) FLAG_MOTOR_PROBLEM) FLAG_CALIBRATION_LOST))
               then upd_misc (relay_hi k (fl_clear (fl_clear (fl_clear (upd_misc d v (now d) (clk d)) FLAG_CALIBRATION_FAILED) FLAG_MOTOR_PROBLEM) FLAG_CALIBRATION_LOST) (negb (v =? RELAY_UP)) false)
                      (last_direction (relay_hi k (fl_clear (fl_clear (fl_clear (upd_misc d v (now d) (clk d)) FLAG_CALIBRATION_FAILED) FLAG_MOTOR_PROBLEM) FLAG_CALIBRATION_LOST) (negb (v =? RELAY_UP)) false))
                      (now (relay_hi k (fl_clear (fl_clear (fl_clear (upd_misc d v (now d) (clk d)) FLAG_CALIBRATION_FAILED) FLAG_MOTOR_PROBLEM) FLAG_CALIBRATION_LOST) (negb (v =? RELAY_UP)) false))
                      (clk (relay_hi k (fl_clear (fl_clear (fl_clear (upd_misc d v (now d) (clk d)) FLAG_CALIBRATION_FAILED) FLAG_MOTOR_PROBLEM) FLAG_CALIBRATION_LOST) (negb (v =? RELAY_UP)) false) + REVERSE_PAUSE_US)
               else fl_clear (fl_clear (fl_clear (upd_misc d v (now d) (clk d)) FLAG_CALIBRATION_FAILED) FLAG_MOTOR_PROBLEM) FLAG_CALIBRATION_LOST).
  { unfold sr_delay. replace (v =? RELAY_OFF) with false by (symmetry; apply Z.eqb_neq; exact Hv).
    reflexivity. }
  rewrite E0. clear E0.
  set (X := fl_clear (fl_clear (fl_clear (upd_misc d v (now d) (clk d)) FLAG_CALIBRATION_FAILED) FLAG_MOTOR_PROBLEM) FLAG_CALIBRATION_LOST).
  destruct (v =? RELAY_UP) eqn:E; cbn [negb].
  - apply Z.eqb_eq in E. split; [intros _|congruence].
    destruct (down_on X) eqn:D; [|exact D].
    destruct (relay_hi_pins k X false false) as [_ H]. exact H.
  - apply Z.eqb_neq in E. split; [congruence|intros _].
    destruct (up_on X) eqn:D; [|exact D].
    destruct (relay_hi_pins k X true false) as [H _]. exact H.
Qed.

Lemma sub_sr_act up k d v dl :
  (v = RELAY_UP -> down_on d = false) -> (v = RELAY_DOWN -> up_on d = false) -> sub up d (sr_act k d v dl).
Proof.
  intros Hu Hd. unfold sr_act.
  destruct (DELAY_THRESHOLD_MS <? dl).
  { eapply sub_trans; [|apply sub_set_button_req]. same. }
  destruct (v =? RELAY_UP) eqn:E1.
  { apply Z.eqb_eq in E1. destruct ((k_add_margin k =? 0) && (cur_pos d =? 0)); [apply sub_refl|].
    eapply sub_trans; [|apply sub_set_button_req]. apply sub_relay_hi.
    intros [P Q] U. exfalso. destruct up; cbn [negb] in U; [discriminate|]. unfold powered in P. rewrite (Hu E1) in P. discriminate. }
  destruct (v =? RELAY_DOWN) eqn:E2.
  { apply Z.eqb_eq in E2. destruct ((k_add_margin k =? 0) && (cur_pos d =? 100)); [apply sub_refl|].
    eapply sub_trans; [|apply sub_set_button_req]. apply sub_relay_hi.
    intros [P Q] U. exfalso. destruct up; cbn [negb] in U; [|discriminate]. unfold powered in P. rewrite (Hd E2) in P. discriminate. }
  eapply sub_trans; [|apply sub_set_button_req].
  eapply sub_trans; apply sub_relay_hi; auto.
Qed.

Theorem sub_set_relay up k d v c s : sub up d (set_relay k d v c s).
Proof.
  unfold set_relay. cbv zeta.
  set (d1 := sr_abort d). set (d2 := if c then cancel_task d1 else d1). set (d3 := disarm d2).
  assert (S3 : sub up d d3).
  { eapply sub_trans; [apply sub_sr_abort|]. fold d1. eapply sub_trans; [|apply sub_disarm].
    unfold d2. destruct c; [apply sub_cancel_task|apply sub_refl]. }
  eapply sub_trans; [exact S3|]. eapply sub_trans; [apply sub_sr_delay|].
  pose proof consts10_ok as C.
  destruct (Z.eq_dec v RELAY_OFF) as [Ev|Ev].
  - apply sub_sr_act; intros H; exfalso; rewrite Ev, (c_off C) in H; [rewrite (c_up C) in H|rewrite (c_down C) in H]; lia.
  - pose proof (sr_delay_other_off k d3 v s (counter k d1) Ev) as [A B].
    apply sub_sr_act; [exact A|]. intros H. apply B. rewrite H, (c_down C), (c_up C). lia.
Qed.

(* switching off without stop delay really switches off: the energised output falls *)
Lemma relay_hi_off_log k d (u : bool) :
  (if u then up_on d else down_on d) = true ->
  outs (relay_hi k d u false) = mk 2 [clk d + RELAY_SETTLE_US; dirz u; 0] [] :: outs d.
Proof.
  intros H. unfold relay_hi. rewrite H. cbn [Bool.eqb negb].
  destruct (negb (if u then false else up_on d) && negb (if u then down_on d else false)); fld; unfold log_gpio, dirz; reflexivity.
Qed.
Lemma fall_head up (t : Z) (l : list wire) : ~ nofall up (mk 2 [t; dirz up; 0] [] :: l).
Proof.
  intros NF. apply nofall_cons in NF. destruct NF as [NF _].
  pose proof (fallb_log up (dirz up) false t) as F. cbn [negb] in F. rewrite F, Z.eqb_refl in NF. discriminate.
Qed.

Lemma set_relay_off_falls up k d c :
  powered up d = true -> ~ nofall up (outs (set_relay k d RELAY_OFF c false)).
Proof.
  intros P NF. unfold set_relay in NF. cbv zeta in NF.
  set (d3 := disarm (if c then cancel_task (sr_abort d) else sr_abort d)) in *.
  assert (P3 : powered up d3 = true).
  { unfold d3, sr_abort, powered in *. destruct c; destruct (negb (button_req d) && (0 <? ac_step d)); fld; exact P. }
  unfold sr_delay in NF. replace (RELAY_OFF =? RELAY_OFF) with true in NF by reflexivity. cbn [fst snd andb] in NF.
  unfold sr_act in NF. replace (DELAY_THRESHOLD_MS <? 0) with false in NF by reflexivity.
  replace (RELAY_OFF =? RELAY_UP) with false in NF by reflexivity. replace (RELAY_OFF =? RELAY_DOWN) with false in NF by reflexivity.
  fld. revert NF. generalize d3 P3. clear. intros d P NF.
  destruct up; unfold powered in P.
  - (* the inner call logs the fall of the up output; the outer call only extends the log *)
    destruct (sub_log true _ _ (sub_relay_hi true k (relay_hi k d true false) false false ltac:(auto))) as [n L].
    rewrite L in NF. apply nofall_app in NF. destruct NF as [_ NF].
    rewrite (relay_hi_off_log k d true P) in NF. exact (fall_head true _ _ NF).
  - destruct (relay_hi_pins k d true false) as [_ B].
    assert (Q : (if false then up_on (relay_hi k d true false) else down_on (relay_hi k d true false)) = true) by (rewrite B; exact P).
    rewrite (relay_hi_off_log k _ false Q) in NF. exact (fall_head false _ _ NF).
Qed.

(* ---------- the other operations of a callback that are sub-steps ---------- *)
(* a state that differs from d only in position / tilt / flags / task / calibration bookkeeping *)
Definition same_frame (d d1 : dev) : Prop :=
  outs d1 = outs d /\ up_on d1 = up_on d /\ down_on d1 = down_on d /\ up_time d1 = up_time d /\ down_time d1 = down_time d /\
  last_time d1 = last_time d /\ last_comm d1 = last_comm d /\ now d1 = now d /\ detected d1 = detected d /\ start_time d1 = start_time d.

(* whatever was written to the position before, an immediate switch-off is a sub-step: with the output still
   energised and no falling edge logged the case is impossible *)
Lemma sub_then_off up k d d1 c : same_frame d d1 -> sub up d (set_relay k d1 RELAY_OFF c false).
Proof.
  intros (Ho & Hu & Hd & H1 & H2 & H3 & H4 & H5 & H6 & H7).
  pose proof (sub_set_relay up k d1 RELAY_OFF c false) as S. destruct S as [l o u1 dd t1 c1 n1 e1 p1 s1].
  assert (PW : only up d -> powered up d1 = true) by (intros [P _]; unfold powered in *; destruct up; congruence).
  constructor; try congruence.
  - rewrite <- Ho. exact l.
  - intros NF O. exfalso. exact (set_relay_off_falls up k d1 c (PW O) NF).
  - intros NF O. exfalso. exact (set_relay_off_falls up k d1 c (PW O) NF).
  - intros NF O. exfalso. exact (set_relay_off_falls up k d1 c (PW O) NF).
Qed.

Ltac subt :=
  lazymatch goal with
  | |- sub _ ?d ?d => apply sub_refl
  | |- sub _ _ (if ?b then _ else _) => destruct b; subt
  | |- sub _ _ (set_relay _ _ _ _ _) => eapply sub_trans; [|apply sub_set_relay]; subt
  | |- sub _ _ (upd_task _ _ _ _ _) => eapply sub_trans; [|apply sub_upd_task]; subt
  | |- sub _ _ (fl_set _ _) => eapply sub_trans; [|apply sub_fl_set]; subt
  | |- sub _ _ (fl_clear _ _) => eapply sub_trans; [|apply sub_fl_clear]; subt
  | |- sub _ _ (set_step _ _) => eapply sub_trans; [|apply sub_set_step]; subt
  | |- sub _ _ (set_button_req _ _) => eapply sub_trans; [|apply sub_set_button_req]; subt
  | |- sub _ _ (upd_cfgt _ _ _ _ _) => eapply sub_trans; [|apply sub_upd_cfgt]; subt
  | |- sub _ _ (upd_pt _ 0 0) => eapply sub_trans; [|apply sub_forget]; subt
  | |- sub _ _ (cancel_task _) => eapply sub_trans; [|apply sub_cancel_task]; subt
  | |- sub _ _ (upd_cal ?x _ _ _ (detected ?x)) => eapply sub_trans; [|same]; subt
  end.

Lemma sub_check_motor up k d mu im : sub up d (check_motor k d mu im).
Proof. unfold check_motor. subt. Qed.

Lemma sub_start_autocal up k d : sub up d (start_autocal k d).
Proof. unfold start_autocal. subt. Qed.

Lemma sub_calibration_failed up k d : sub up d (calibration_failed k d).
Proof. unfold calibration_failed. cbv zeta. subt. Qed.

Lemma sub_ac_step1 up k d im : sub up d (fst (ac_step1 k d im)).
Proof.
  unfold ac_step1. destruct (negb im); [cbn [fst]; subt|].
  destruct (AUTOCAL_MAX_MS * 1000 <? C10.Model.up_time d); cbn [fst]; [apply sub_calibration_failed|apply sub_refl].
Qed.
Lemma sub_ac_step2 up k d im : sub up d (fst (ac_step2 k d im)).
Proof.
  unfold ac_step2. destruct (negb im).
  - destruct (C10.Model.down_time d <? AUTOCAL_MIN_MS * 1000); cbn [fst]; [apply sub_calibration_failed|]. unfold ac_step2_ok. subt.
  - destruct (AUTOCAL_MAX_MS * 1000 <? C10.Model.down_time d); cbn [fst]; [apply sub_calibration_failed|apply sub_refl].
Qed.
Lemma sub_ac_step3 up k d im : sub up d (fst (ac_step3 k d im)).
Proof.
  unfold ac_step3. destruct (negb im).
  - destruct (C10.Model.up_time d <? AUTOCAL_MIN_MS * 1000); cbn [fst]; [apply sub_calibration_failed|].
    (* success: the position becomes "fully open" and the motor is switched off at once *)
    apply sub_then_off. unfold same_frame, ac_done. destruct (tilt_sup k); fld; repeat split; reflexivity.
  - destruct (AUTOCAL_MAX_MS * 1000 <? C10.Model.up_time d); cbn [fst]; [apply sub_calibration_failed|apply sub_refl].
Qed.
Lemma sub_autocalibrate up k d im : sub up d (fst (autocalibrate k d im)).
Proof.
  unfold autocalibrate.
  destruct (ac_step d =? 0); [cbn [fst]; subt|].
  eapply sub_trans; [apply (sub_fl_set up d FLAG_CALIBRATION_IN_PROGRESS)|].
  unfold ac_steps.
  destruct ((C10.Model.up_time (fl_set d FLAG_CALIBRATION_IN_PROGRESS) <? AUTOCAL_FILTERING_MS * 1000) &&
            (C10.Model.down_time (fl_set d FLAG_CALIBRATION_IN_PROGRESS) <? AUTOCAL_FILTERING_MS * 1000)); [cbn [fst]; apply sub_refl|].
  destruct (ac_step (fl_set d FLAG_CALIBRATION_IN_PROGRESS) =? 1); [apply sub_ac_step1|].
  destruct (ac_step (fl_set d FLAG_CALIBRATION_IN_PROGRESS) =? 2); [apply sub_ac_step2|].
  destruct (ac_step (fl_set d FLAG_CALIBRATION_IN_PROGRESS) =? 3); [apply sub_ac_step3|cbn [fst]; apply sub_refl].
Qed.

Lemma sub_cb_head up k d : sub up d (cb_head k d).
Proof. unfold cb_head. subt. Qed.

Lemma sub_tp_start up k d a b : sub up d (tp_start k d a b).
Proof. unfold tp_start. cbv zeta. subt. Qed.
Lemma sub_tp_tilt_start up k d a b : sub up d (tp_tilt_start k d a b).
Proof. unfold tp_tilt_start. cbv zeta. subt. Qed.
Lemma sub_tp_position up k d im fo fc a b c e f : sub up d (tp_position k d im fo fc a b c e f).
Proof. unfold tp_position. cbv zeta. subt. Qed.
Lemma sub_tp_tilt up k d a b : sub up d (tp_tilt k d a b).
Proof. unfold tp_tilt. subt. Qed.

Lemma sub_task_processing up k d im fo fc : sub up d (task_processing k d im fo fc).
Proof.
  unfold task_processing.
  destruct ((tk_state d =? TASK_INACTIVE) || (0 <? ac_step d)); [apply sub_refl|].
  destruct (perform d); [apply sub_start_autocal|].
  destruct (negb (known (pos d))); [subt|].
  cbv zeta.
  eapply sub_trans; [apply sub_tp_start|]. eapply sub_trans; [apply sub_tp_tilt_start|].
  eapply sub_trans; [apply sub_tp_position|]. apply sub_tp_tilt.
Qed.

