From Coq Require Import Extraction ExtrOcamlBasic ExtrOCamlFloats ExtrOCamlInt63.
From V Require Import C10.Model.
Extraction Language OCaml.
Extraction "model.ml" main_wire.
