(* C10 — convergence, part 5: the phases of a positioning task and their potential. *)
From Coq Require Import List ZArith Bool Lia.
Import ListNotations.
From V Require Import Base.U32 Base.Iface Gen.RsConsts C09.Model C09.Proofs C10.Model C10.Frame C10.Fields C10.Proofs C10.Autocal C10.Calibrated C10.Conv1 C10.Conv2 C10.Conv3 C10.Conv4.
Local Open Scope Z_scope.
Notation pos := C10.Model.pos.
Notation tilt := C10.Model.tilt.
Notation up_time := C10.Model.up_time.
Notation down_time := C10.Model.down_time.
Notation last_time := C10.Model.last_time.
Notation last_comm := C10.Model.last_comm.
Notation now := C10.Model.now.
Notation flags := C10.Model.flags.

(* ---------- the delayed trigger, let-free ---------- *)
Definition fire_z0 (b : dev) (due : Z) : dev := upd_misc b (last_direction b) (now b) (Z.max (clk b) due).
Definition fire_z1 (z : dev) : dev := upd_relay z (up_on z) (down_on z) (start_time z) (stop_time z) None (clk z) (outs z).
Definition fire_prep (b : dev) (due : Z) (req : bool) : dev :=
  if req then set_button_req (fire_z1 (fire_z0 b due)) true else fire_z1 (fire_z0 b due).

Lemma fire_delayed_eq k b v due req :
  delayed b = Some (v, due, req) -> fire_delayed k b = set_relay k (fire_prep b due req) v false false.
Proof. intros H. unfold fire_delayed. rewrite H. reflexivity. Qed.

Lemma cb_entry_some k d dt v due req :
  delayed d = Some (v, due, req) ->
  cb_entry k d dt = if due <=? now d + dt then set_clock (set_relay k (fire_prep (begin_event d) due req) v false false) (now d + dt)
                    else set_clock (begin_event d) (now d + dt).
Proof.
  intros H. unfold cb_entry, fire_if_due.
  assert (Hb : delayed (begin_event d) = Some (v, due, req)) by (unfold begin_event; frw; exact H).
  rewrite Hb. destruct (due <=? now d + dt); [rewrite (fire_delayed_eq k _ v due req Hb)|]; reflexivity.
Qed.

Lemma fire_prep_facts d due req :
  let z := fire_prep (begin_event d) due req in
  ac_step z = ac_step d /\ up_on z = up_on d /\ down_on z = down_on d /\ keeps2 d z /\ keeps3 d z /\
  up_time z = up_time d /\ down_time z = down_time d /\ last_time z = last_time d /\
  start_time z = start_time d /\ stop_time z = stop_time d /\ clk z = Z.max (now d) due.
Proof.
  cbv zeta. destruct req; (split; [reflexivity|]); (split; [reflexivity|]); (split; [reflexivity|]);
    (split; [constructor; reflexivity|]); (split; [constructor; reflexivity|]); repeat split; reflexivity.
Qed.

Section Converge.
Variable o : fpops.
Hypothesis OK : fp_ok o.
Variables (k : kcfg) (up : bool) (tau F p : Z).
Hypothesis R : rsk k.
Hypothesis NF : k_autocal_flag k = false.
Hypothesis HT : 30000 <= F * 1000 < 4294967296.
Hypothesis Hp : 0 <= p <= 100.
Hypothesis Htau : 0 < tau.
Hypothesis Hcm : carry_max o k F + tau <= TEN_MINUTES_US.

Local Notation T := (F * 1000).
Local Notation cm := (carry_max o k F).
Local Notation mm := (margin_ms o k F).

(* signed distance still to go: positive before the target, <= 0 at or past it *)
Definition gap (d : dev) : Z := if up then pos d - 100 - p * 100 else p * 100 - (pos d - 100).
Definition accb (d : dev) : Prop := - gap d * T < 10000 * tau + 30000.

Record base (d : dev) : Prop := {
  b_known : known (pos d) = true; b_tilt : tilt d = -1 \/ tilt d = 0; b_step : ac_step d = 0; b_aot : aot d = 0; b_act : act d = 0;
  b_perf : perform d = false; b_full : full_k up d = F; b_tt : tk_tilt d = -1; b_tp : tk_pos d = p }.

Lemma base_transfer d d' : base d -> keeps2 d d' -> tk_pos d' = tk_pos d -> tk_tilt d' = tk_tilt d -> base d'.
Proof.
  intros B K2 P1 P2. destruct B. constructor; try congruence;
    rewrite ?(k2_pos _ _ K2), ?(k2_tilt _ _ K2), ?(k2_step _ _ K2), ?(k2_aot _ _ K2), ?(k2_act _ _ K2), ?(k2_perf _ _ K2); auto.
  unfold full_k in *. rewrite (k2_t1 _ _ K2), (k2_t2 _ _ K2). assumption.
Qed.
Lemma base_sc d d' : base d -> same_core d d' -> base d'.
Proof. intros B S. exact (base_transfer d d' B (sc_k2 _ _ S) (k3_pos _ _ (sc_k3 _ _ S)) (k3_tilt _ _ (sc_k3 _ _ S))). Qed.

Lemma gap_beyond d : tk_pos d = p -> (beyond up (pos d - 100) (tk_pos d * 100) <-> 0 < gap d).
Proof. intros ->. unfold beyond, gap. destruct up; lia. Qed.
Lemma gap_reached d : tk_pos d = p -> (reached up (pos d - 100) (tk_pos d * 100) <-> gap d <= 0).
Proof. intros ->. unfold reached, gap. destruct up; lia. Qed.
Lemma gap_pos d d' : pos d' = pos d -> gap d' = gap d.
Proof. unfold gap. intros ->. reflexivity. Qed.

(* the motor runs towards the target *)
Record mvs (e : dev) : Prop := {
  ms_base : base e; ms_only : only up e; ms_del : delayed e = None; ms_st : tk_state e = TASK_SETTING_POSITION; ms_dir : tk_dir e = dirz up }.

Lemma mvs_mv e : mvs e -> mv up e.
Proof.
  intros [B O Dl St Di]. destruct B.
  constructor; auto; try lia. constructor; auto. lia.
Qed.

(* potential of the two phases with the motor running *)
Definition potME (d : dev) (Q : Z) : Prop :=
  (0 < gap d /\ 10000 * carry_of up d < T + 10000 /\ gap d * T + 10000 * (cm - carry_of up d) + 10000 * tau + 30000 <= Q)
  \/ (pos d = end_stop up /\ gap d <= 0 /\ accb d /\ carry_of up d < 1000 * mm /\ 10000 * (1000 * mm - carry_of up d) <= Q).

(* the task is over as far as the outputs are concerned *)
Record term (d : dev) : Prop := {
  t_base : base d; t_up : up_on d = false; t_down : down_on d = false; t_del : delayed d = None;
  t_gap : gap d <= 0; t_acc : accb d;
  t_task : tk_state d = TASK_INACTIVE \/ (tk_state d = TASK_SETTING_POSITION /\ (tk_dir d = 0 \/ tk_dir d = dirz up)) }.

Lemma run_core e im t el d' P :
  mvs e -> clk e = t -> u32 (counter k e - last_time e) = el -> 0 < el <= tau -> 0 <= carry_of up e -> potME e P ->
  d' = set_clock (C10.Model.timer_cb o k e im) t ->
  stamped k d' /\ ((mvs d' /\ 0 <= carry_of up d' /\ potME d' (P - 10000 * el)) \/ term d').
Proof.
  intros M Ck Eel Hel Hc Pot E'.
  pose proof (ms_base _ M) as B. pose proof (b_known _ B) as Kn. pose proof Kn as Kp. apply known_true in Kp.
  pose proof (b_full _ B) as HF.
  assert (Hcm1 : 1000 * mm <= cm) by (unfold carry_max; apply Z.le_max_l).
  assert (Hcm2 : T <= 10000 * cm - 10000).
  { unfold carry_max. pose proof (Z.le_max_r (1000 * mm) (T / 10000 + 2)).
    pose proof (Z.mul_div_le T 10000 ltac:(lia)). pose proof (Z.mod_pos_bound T 10000 ltac:(lia)). pose proof (Z.div_mod T 10000 ltac:(lia)). lia. }
  assert (Hcb : carry_of up e < cm).
  { destruct Pot as [(_ & Hc1 & _)|(_ & _ & _ & Hc1 & _)]; lia. }
  assert (TEN : TEN_MINUTES_US = 600000000) by reflexivity.
  pose proof (moving_core o OK up k e im t el d' R NF (mvs_mv e M) Ck Eel Hc ltac:(lia) ltac:(lia) ltac:(lia) ltac:(rewrite HF; lia) E') as MC.
  cbv zeta in MC. rewrite HF in MC.
  destruct (move_position_rs o OK (cfg_of k e) (pos e) (tilt e) (carry_of up e + el) F up (rsk_cfg k e R) Kn ltac:(lia)) as (Mp & _ & Mtime).
  cbv zeta in Mp, Mtime.
  pose proof (move_position_rs_off o OK (cfg_of k e) (pos e) (tilt e) (carry_of up e + el) F up (rsk_cfg k e R) Kn (b_tilt _ B) ltac:(lia)) as Off.
  pose proof (adjust_spec o OK up (pos e) (fp_rem o (remaining up (pos e)) T) (carry_of up e + el) T Kp ltac:(lia) ltac:(lia) (or_intror eq_refl)) as A.
  cbv zeta in A. rewrite <- Mp, <- Mtime in A.
  remember (move_position o (cfg_of k e) (pos e) (tilt e) (carry_of up e + el) F up) as m eqn:Em. clear Em Mp Mtime.
  destruct MC as ((P' & Kn' & Tl' & Cy' & Lt' & Nw' & Tp' & Tt' & St' & Ao' & Ac' & Sp' & Pf' & T1' & T2' & Dl') & Cs).
  rewrite <- P', <- Cy' in A, Off.
  change (margin (cfg_of k e)) with (k_margin k) in Off. fold (margin_ms o k F) in Off.
  destruct A as (A1 & A2 & A3 & A4 & A5 & A6 & A7 & _).
  specialize (A7 eq_refl ltac:(lia)).
  assert (St : stamped k d') by (unfold stamped; rewrite Lt', Nw'; unfold counter; rewrite Ck; reflexivity).
  split; [exact St|].
  assert (B' : base d').
  { constructor; auto; [rewrite Tl'; exact (b_tilt _ B)|unfold full_k in *; rewrite T1', T2'; exact HF|rewrite Tp'; exact (b_tp _ B)]. }
  (* distances *)
  set (dl := remaining up (pos e) - remaining up (pos d')) in *.
  assert (Hg : gap d' = gap e - dl) by (unfold dl, gap, remaining; destruct up; lia).
  assert (HgT : gap d' * T = gap e * T - dl * T) by (rewrite Hg; ring).
  assert (Hrg : remaining up (pos d') >= gap d') by (unfold gap, remaining; destruct up; lia).
  rewrite (b_tp _ B) in Cs.
  assert (Hby : beyond up (pos d' - 100) (p * 100) <-> 0 < gap d') by (unfold beyond, gap; destruct up; lia).
  assert (Hre : reached up (pos d' - 100) (p * 100) <-> gap d' <= 0) by (unfold reached, gap; destruct up; lia).
  (* m_off = false at the end stop: the margin has not run out *)
  assert (Hmm : m_off m = false -> pos d' = end_stop up -> carry_of up d' < 1000 * mm).
  { intros Ho He. rewrite Ho, He, Z.eqb_refl in Off. cbn [andb] in Off. symmetry in Off. apply Z.leb_gt in Off.
    pose proof (Z.mul_div_le (carry_of up d') 1000 ltac:(lia)). pose proof (Z.mod_pos_bound (carry_of up d') 1000 ltac:(lia)).
    pose proof (Z.div_mod (carry_of up d') 1000 ltac:(lia)). lia. }
  destruct Pot as [(Hg0 & Hc1 & HP)|(He & Hg0 & Hacc & Hc1 & HP)].
  - (* on the way *)
    assert (HgT1 : T <= gap e * T) by (replace T with (1 * T) at 1 by ring; apply Z.mul_le_mono_nonneg_r; lia).
    assert (Hacc' : gap d' <= 0 -> accb d') by (intros; unfold accb; lia).
    destruct Cs as [(Ho & On & Di & [Hb|(Hr & Hend)])|(U & D & Di & Hr)].
    + left. split; [constructor; auto|]. split; [lia|]. left.
      apply Hby in Hb. split; [exact Hb|]. split; [apply A7; lia|lia].
    + left. split; [constructor; auto|]. split; [lia|]. right. apply Hre in Hr.
      assert (He' : pos d' = end_stop up) by (unfold end_stop, gap in *; destruct up; lia).
      split; [exact He'|]. split; [exact Hr|]. split; [exact (Hacc' Hr)|]. split; [exact (Hmm Ho He')|].
      specialize (Hacc' Hr). unfold accb in Hacc'. lia.
    + right. apply Hre in Hr. constructor; auto; try (right; split; [exact St'|exact Di]).
  - (* waiting at the end stop *)
    assert (Hr0 : remaining up (pos e) = 0) by (rewrite He; unfold remaining, end_stop; destruct up; reflexivity).
    assert (Hd0 : dl = 0) by (unfold dl; lia).
    assert (He' : pos d' = end_stop up) by (unfold dl, remaining, end_stop in *; destruct up; lia).
    assert (Hgg : gap d' = gap e) by lia.
    assert (Hacc' : accb d') by (unfold accb in *; rewrite Hgg; exact Hacc).
    rewrite Hd0 in A5. 
    destruct Cs as [(Ho & On & Di & _)|(U & D & Di & Hr)].
    + left. split; [constructor; auto|]. split; [lia|]. right.
      split; [exact He'|]. split; [lia|]. split; [exact Hacc'|]. split; [exact (Hmm Ho He')|]. lia.
    + right. constructor; auto; try lia; try (right; split; [exact St'|exact Di]).
Qed.

Lemma tau_small : tau < 600000000.
Proof.
  assert (TEN : TEN_MINUTES_US = 600000000) by reflexivity.
  pose proof (Z.le_max_r (1000 * mm) (T / 10000 + 2)) as H. fold (carry_max o k F) in H.
  assert (0 <= T / 10000) by (apply Z.div_pos; lia). lia.
Qed.

(* ---------- entry states ---------- *)
Lemma entry_plain d t :
  same_core d (set_clock (begin_event d) t) /\ clk (set_clock (begin_event d) t) = t /\
  last_time (set_clock (begin_event d) t) = last_time d /\ up_time (set_clock (begin_event d) t) = up_time d /\
  down_time (set_clock (begin_event d) t) = down_time d.
Proof.
  split; [exact (same_core_trans _ _ _ (same_core_begin d) (same_core_set_clock (begin_event d) t))|].
  unfold set_clock, begin_event. frw. auto.
Qed.

Lemma elapsed_dt d dt e : stamped k d -> 0 <= dt < 4294967296 -> clk e = now d + dt -> last_time e = last_time d ->
  u32 (counter k e - last_time e) = dt.
Proof.
  intros St Hdt Ck Lt. unfold counter. rewrite Ck, Lt, St.
  pose proof (u32_diff_shift (k_boot k) (now d + dt) (now d)) as X.
  replace (now d + dt - now d) with dt in X by lia. replace (k_boot k + (now d + dt)) with (k_boot k + now d + dt) in X by lia.
  replace (k_boot k + (now d + dt)) with (k_boot k + now d + dt) by lia. apply X. lia.
Qed.

Lemma mvs_sc d e : mvs d -> same_core d e -> mvs e.
Proof.
  intros [B O Dl St Di] S. constructor; [exact (base_sc _ _ B S)|exact (same_core_only up d e S O)|rewrite (sc_del _ _ S); exact Dl|
    rewrite (k3_state _ _ (sc_k3 _ _ S)); exact St|rewrite (k3_dir _ _ (sc_k3 _ _ S)); exact Di].
Qed.

Lemma potME_sc d e Q : potME d Q -> pos e = pos d -> carry_of up e = carry_of up d -> potME e Q.
Proof. unfold potME, accb, gap. intros H -> ->. exact H. Qed.

(* ---------- a callback while the motor runs ---------- *)
Lemma running_step d dt sm P :
  mvs d -> stamped k d -> 0 <= carry_of up d -> potME d P -> 0 < dt <= tau ->
  let d' := C10.Model.step o k d (Cb dt sm) in
  stamped k d' /\ ((mvs d' /\ 0 <= carry_of up d' /\ potME d' (P - 10000 * dt)) \/ term d').
Proof.
  intros M St Hc Pot Hdt. cbv zeta. cbn [C10.Model.step].
  rewrite (cb_entry_nodelay k d dt (ms_del _ M)).
  destruct (entry_plain d (now d + dt)) as (Se & Ck & Lt & Ut & Dt).
  remember (set_clock (begin_event d) (now d + dt)) as e eqn:Ee. clear Ee.
  pose proof tau_small as TS.
  assert (Cy : carry_of up e = carry_of up d) by (unfold carry_of; destruct up; assumption).
  apply (run_core e (sensor k e sm) (now d + dt) dt _ P (mvs_sc d e M Se) Ck (elapsed_dt d dt e St ltac:(lia) Ck Lt) Hdt ltac:(lia)
           (potME_sc d e P Pot (k2_pos _ _ (sc_k2 _ _ Se)) Cy) eq_refl).
Qed.

(* ---------- callbacks with both outputs off ---------- *)
Record rest (d : dev) : Prop := { r_base : base d; r_up : up_on d = false; r_down : down_on d = false }.

Lemma rest_rs_task d : rest d -> rs_task d.
Proof. intros [B _ _]. destruct B. constructor; auto. Qed.

Lemma rest_sc d e : rest d -> same_core d e -> rest e.
Proof. intros [B U D] S. constructor; [exact (base_sc _ _ B S)|rewrite (sc_up _ _ S); exact U|rewrite (sc_down _ _ S); exact D]. Qed.

(* the task is over: it stays over, the position is untouched *)
Lemma term_step d dt sm :
  term d -> stamped k d -> 0 <= dt ->
  let d' := C10.Model.step o k d (Cb dt sm) in
  stamped k d' /\ term d' /\ pos d' = pos d.
Proof.
  intros Tm St Hdt. cbv zeta. cbn [C10.Model.step].
  rewrite (cb_entry_nodelay k d dt (t_del _ Tm)).
  destruct (entry_plain d (now d + dt)) as (Se & Ck & Lt & Ut & Dt).
  remember (set_clock (begin_event d) (now d + dt)) as e eqn:Ee. clear Ee.
  remember (sensor k e sm) as im eqn:Eim. clear Eim.
  assert (Re : rest e) by (apply (rest_sc d e); [constructor; [exact (t_base _ Tm)|exact (t_up _ Tm)|exact (t_down _ Tm)]|exact Se]).
  destruct (off_pre_facts e) as (Sx & Ux & Dx & Ltx & Lcx & Nwx & Ckx).
  pose proof (rest_sc e _ Re Sx) as Rx. pose proof (rest_rs_task _ Rx) as RTx.
  assert (Dlx : delayed (off_pre e) = None) by (rewrite (sc_del _ _ Sx), (sc_del _ _ Se); exact (t_del _ Tm)).
  assert (Tkx : tk_state (off_pre e) = tk_state d /\ tk_dir (off_pre e) = tk_dir d).
  { rewrite (k3_state _ _ (sc_k3 _ _ Sx)), (k3_state _ _ (sc_k3 _ _ Se)), (k3_dir _ _ (sc_k3 _ _ Sx)), (k3_dir _ _ (sc_k3 _ _ Se)). auto. }
  destruct Tkx as (Tsx & Tdx).
  assert (Px : pos (off_pre e) = pos d) by (rewrite (k2_pos _ _ (sc_k2 _ _ Sx)), (k2_pos _ _ (sc_k2 _ _ Se)); reflexivity).
  (* the task stage *)
  assert (Y : exists y, y = task_processing k (off_pre e) im (time1 e) (time2 e) /\ keeps2 (off_pre e) y /\ tk_pos y = tk_pos (off_pre e) /\
               tk_tilt y = tk_tilt (off_pre e) /\ up_time y = 0 /\ down_time y = 0 /\ up_on y = false /\ down_on y = false /\ delayed y = None /\
               (tk_state y = TASK_INACTIVE \/ (tk_state y = TASK_SETTING_POSITION /\ (tk_dir y = 0 \/ tk_dir y = dirz up)))).
  { assert (Hoff : forall x, ac_step x = 0 -> keeps2 (off_pre e) x -> keeps3 (off_pre e) x \/ (tk_pos x = tk_pos (off_pre e) /\ tk_tilt x = tk_tilt (off_pre e)) ->
                   up_time x = 0 -> down_time x = 0 ->
                   (tk_state x = TASK_INACTIVE \/ (tk_state x = TASK_SETTING_POSITION /\ (tk_dir x = 0 \/ tk_dir x = dirz up))) ->
                   let y := set_relay k x RELAY_OFF false false in
                   keeps2 (off_pre e) y /\ tk_pos y = tk_pos (off_pre e) /\ tk_tilt y = tk_tilt (off_pre e) /\ up_time y = 0 /\ down_time y = 0 /\
                   up_on y = false /\ down_on y = false /\ delayed y = None /\
                   (tk_state y = TASK_INACTIVE \/ (tk_state y = TASK_SETTING_POSITION /\ (tk_dir y = 0 \/ tk_dir y = dirz up)))).
    { intros x Sx0 K2x Tx Uxx Dxx Tkk. cbv zeta.
      destruct (set_relay_off_facts k x _ Sx0 eq_refl) as (U & Dn & Dl & K2y & K3y & Suby).
      rewrite (k3_pos _ _ K3y), (k3_tilt _ _ K3y), (k3_state _ _ K3y), (k3_dir _ _ K3y), (sub_ut _ _ _ Suby), (sub_dt _ _ _ Suby).
      split; [exact (keeps2_trans _ _ _ K2x K2y)|].
      destruct Tx as [K3x|(Tp & Tt)]; [rewrite (k3_pos _ _ K3x), (k3_tilt _ _ K3x)|rewrite Tp, Tt]; repeat split; auto. }
    destruct (t_task _ Tm) as [Hi|(Hs & [Hd|Hd])].
    - exists (off_pre e). rewrite (tp_inactive k _ im _ _ ltac:(rewrite Tsx; exact Hi)).
      split; [reflexivity|]. split; [apply keeps2_refl|]. rewrite (r_up _ Rx), (r_down _ Rx), Dlx, Tsx. repeat split; auto.
    - eexists. split; [reflexivity|]. rewrite (tp_finish k _ im _ _ R RTx ltac:(rewrite Tsx; exact Hs) ltac:(rewrite Tdx; exact Hd)).
      apply Hoff; unfold with_task; frw; auto; [exact (rt_step _ RTx)|k2].
    - destruct (tp_moving k (off_pre e) im (time1 e) (time2 e) up R RTx (b_aot _ (r_base _ Rx)) ltac:(rewrite Tsx; exact Hs) ltac:(rewrite Tdx; exact Hd)) as (_ & TPr).
      eexists. split; [reflexivity|]. rewrite TPr.
      2:{ apply (gap_reached _ (b_tp _ (r_base _ Rx))). rewrite (gap_pos d _ Px). exact (t_gap _ Tm). }
      destruct (end_wait k (off_pre e) im (time1 e) (time2 e)).
      + split; [apply keeps2_refl|]. rewrite (r_up _ Rx), (r_down _ Rx), Dlx, Tsx, Tdx. repeat split; auto.
      + apply Hoff; unfold with_task; frw; auto; [exact (rt_step _ RTx)|k2]. }
  destruct Y as (y & Ey & K2y & Tpy & Tty & Uy & Dy & Uoy & Doy & Dly & Tky).
  destruct (off_cb_frame o k e im (now d + dt) y _ NF (r_up _ Re) (r_down _ Re) (b_step _ (r_base _ Re)) (b_aot _ (r_base _ Re)) (b_act _ (r_base _ Re))
              Ey Uy Dy eq_refl) as (Sy & _ & _ & Lt' & Nw').
  remember (set_clock (C10.Model.timer_cb o k e im) (now d + dt)) as d' eqn:E'. clear E'.
  assert (St' : stamped k d') by (unfold stamped; rewrite Lt', Nw'; unfold counter; rewrite Ck; reflexivity).
  assert (P' : pos d' = pos d) by (rewrite (k2_pos _ _ (sc_k2 _ _ Sy)), (k2_pos _ _ K2y); exact Px).
  split; [exact St'|]. split; [|exact P'].
  assert (By : base y) by (exact (base_transfer _ y (r_base _ Rx) K2y Tpy Tty)).
  constructor; [exact (base_sc _ _ By Sy)|rewrite (sc_up _ _ Sy); exact Uoy|rewrite (sc_down _ _ Sy); exact Doy|rewrite (sc_del _ _ Sy); exact Dly|
                rewrite (gap_pos _ _ P'); exact (t_gap _ Tm)|unfold accb; rewrite (gap_pos _ _ P'); exact (t_acc _ Tm)|
                rewrite (k3_state _ _ (sc_k3 _ _ Sy)), (k3_dir _ _ (sc_k3 _ _ Sy)); exact Tky].
Qed.

(* ---------- a fresh task (A) and the start delay (W) ---------- *)
Record phA (d : dev) : Prop := {
  a_rest : rest d; a_del : delayed d = None; a_st : tk_state d = TASK_ACTIVE; a_gap : 0 < gap d; a_ref : refused k d up = false }.
Record phW (d : dev) (due : Z) : Prop := {
  w_rest : rest d; w_del : exists req, delayed d = Some (dirz up, due, req);
  w_st : tk_state d = TASK_SETTING_POSITION; w_dir : tk_dir d = dirz up; w_gap : 0 < gap d; w_ref : refused k d up = false;
  w_now : now d < due; w_fire : 1001000 <= u32 (u32 (k_boot k + due) - stop_time d); w_ut : up_time d = 0; w_dt : down_time d = 0 }.

Definition potM0 (g : Z) : Z := g * T + 10000 * cm + 10000 * tau + 30000.
Definition potW (d : dev) (due Q : Z) : Prop := 10000 * (due - now d) + potM0 (gap d) <= Q.
Definition potA (d : dev) (Q : Z) : Prop := 10000 * 1001000 + potM0 (gap d) + 10000 * tau <= Q.

Lemma potME_mono d Q Q' : potME d Q -> Q <= Q' -> potME d Q'.
Proof. unfold potME. intros [H|H] L; [left|right]; intuition lia. Qed.

Lemma refused_pos d d' : pos d' = pos d -> refused k d' up = refused k d up.
Proof. unfold refused, cur_pos. intros ->. reflexivity. Qed.

Lemma potME_start d Q : 0 < gap d -> carry_of up d = 0 -> potM0 (gap d) <= Q -> potME d Q.
Proof. intros G C H. left. unfold potM0 in H. rewrite C. split; [exact G|]. split; lia. Qed.

Lemma fresh_step d dt sm P :
  phA d -> stamped k d -> 0 < dt <= tau -> potA d P ->
  let d' := C10.Model.step o k d (Cb dt sm) in
  stamped k d' /\ ((mvs d' /\ 0 <= carry_of up d' /\ potME d' (P - 10000 * dt)) \/ (exists due, phW d' due /\ potW d' due (P - 10000 * dt))).
Proof.
  intros A St Hdt Pot. cbv zeta. cbn [C10.Model.step].
  rewrite (cb_entry_nodelay k d dt (a_del _ A)).
  destruct (entry_plain d (now d + dt)) as (Se & Ck & Lt & Ut & Dt).
  remember (set_clock (begin_event d) (now d + dt)) as e eqn:Ee. clear Ee.
  remember (sensor k e sm) as im eqn:Eim. clear Eim.
  pose proof (rest_sc d e (a_rest _ A) Se) as Re.
  destruct (off_pre_facts e) as (Sx & Ux & Dx & Ltx & Lcx & Nwx & Ckx).
  pose proof (rest_sc e _ Re Sx) as Rx. pose proof (rest_rs_task _ Rx) as RTx.
  assert (Px : pos (off_pre e) = pos d) by (rewrite (k2_pos _ _ (sc_k2 _ _ Sx)), (k2_pos _ _ (sc_k2 _ _ Se)); reflexivity).
  assert (Tsx : tk_state (off_pre e) = TASK_ACTIVE) by (rewrite (k3_state _ _ (sc_k3 _ _ Sx)), (k3_state _ _ (sc_k3 _ _ Se)); exact (a_st _ A)).
  assert (Dlx : delayed (off_pre e) = None) by (rewrite (sc_del _ _ Sx), (sc_del _ _ Se); exact (a_del _ A)).
  assert (Spx : stop_time (off_pre e) = stop_time d) by (rewrite (sc_sp _ _ Sx), (sc_sp _ _ Se); reflexivity).
  pose proof (b_tp _ (r_base _ Rx)) as Tpx.
  assert (Hb : beyond up (pos (off_pre e) - 100) (tk_pos (off_pre e) * 100)).
  { apply (gap_beyond _ Tpx). rewrite (gap_pos d _ Px). exact (a_gap _ A). }
  pose proof (tp_active k (off_pre e) im (time1 e) (time2 e) up R RTx Tsx ltac:(rewrite Tpx; exact Hp) Hb) as Ey.
  set (x2 := with_task (with_task (off_pre e) (tk_dir (off_pre e)) TASK_SETTING_POSITION) (dirz up) TASK_SETTING_POSITION) in *.
  assert (X2 : ac_step x2 = 0 /\ up_on x2 = false /\ down_on x2 = false /\ pos x2 = pos d /\ keeps2 (off_pre e) x2 /\
               tk_pos x2 = p /\ tk_tilt x2 = -1 /\ tk_state x2 = TASK_SETTING_POSITION /\ tk_dir x2 = dirz up /\
               up_time x2 = 0 /\ down_time x2 = 0 /\ clk x2 = now d + dt /\ stop_time x2 = stop_time d).
  { unfold x2, with_task. frw.
    split; [exact (rt_step _ RTx)|]. split; [exact (r_up _ Rx)|]. split; [exact (r_down _ Rx)|]. split; [exact Px|]. split; [k2|].
    split; [exact Tpx|]. split; [exact (b_tt _ (r_base _ Rx))|]. repeat split; auto; congruence. }
  destruct X2 as (S2 & U2 & D2 & P2 & K22 & Tp2 & Tt2 & Ts2 & Td2 & Ut2 & Dt2 & Ck2 & Sp2).
  assert (Rf2 : refused k x2 up = false) by (rewrite (refused_pos d x2 P2); exact (a_ref _ A)).
  clearbody x2.
  destruct (start_outcome k x2 up _ S2 U2 D2 Rf2 eq_refl) as (K2y & K3y & Suby & Out & _).
  pose proof (start_delay_range k x2) as Rg.
  remember (set_relay k x2 (dirz up) false false) as y eqn:Ey2. clear Ey2. symmetry in Ey.
  destruct (off_cb_frame o k e im (now d + dt) y _ NF (r_up _ Re) (r_down _ Re) (b_step _ (r_base _ Re)) (b_aot _ (r_base _ Re)) (b_act _ (r_base _ Re))
              Ey ltac:(rewrite (sub_ut _ _ _ Suby); exact Ut2) ltac:(rewrite (sub_dt _ _ _ Suby); exact Dt2) eq_refl) as (Sy & Ut' & Dt' & Lt' & Nw').
  remember (set_clock (C10.Model.timer_cb o k e im) (now d + dt)) as d' eqn:E'. clear E'.
  assert (St' : stamped k d') by (unfold stamped; rewrite Lt', Nw'; unfold counter; rewrite Ck; reflexivity).
  split; [exact St'|].
  assert (P' : pos d' = pos d) by (rewrite (k2_pos _ _ (sc_k2 _ _ Sy)), (k2_pos _ _ K2y); exact P2).
  assert (B' : base d').
  { apply (base_sc y d'); [|exact Sy].
    apply (base_transfer (off_pre e) y (r_base _ Rx) (keeps2_trans _ _ _ K22 K2y)); [rewrite (k3_pos _ _ K3y), Tp2; symmetry; exact Tpx|
      rewrite (k3_tilt _ _ K3y), Tt2; symmetry; exact (b_tt _ (r_base _ Rx))]. }
  assert (Ts' : tk_state d' = TASK_SETTING_POSITION) by (rewrite (k3_state _ _ (sc_k3 _ _ Sy)), (k3_state _ _ K3y); exact Ts2).
  assert (Td' : tk_dir d' = dirz up) by (rewrite (k3_dir _ _ (sc_k3 _ _ Sy)), (k3_dir _ _ K3y); exact Td2).
  assert (G' : gap d' = gap d) by (exact (gap_pos d d' P')).
  assert (Cy' : carry_of up d' = 0) by (unfold carry_of; destruct up; assumption).
  unfold potA in Pot.
  destruct Out as [(On & Dl)|(Hdl & Uy & Dy & Spy & Sty & req & Dl)].
  - left. split; [constructor; auto; [exact (same_core_only up y d' Sy On)|rewrite (sc_del _ _ Sy); exact Dl]|]. split; [lia|].
    apply potME_start; [rewrite G'; exact (a_gap _ A)|exact Cy'|rewrite G'; unfold potM0 in *; lia].
  - right. exists (clk x2 + start_delay_ms k x2 * 1000). destruct Rg as [Rg|(Rg1 & Rg2)]; [lia|].
    split.
    + constructor; auto.
      * constructor; [exact B'|rewrite (sc_up _ _ Sy); exact Uy|rewrite (sc_down _ _ Sy); exact Dy].
      * exists req. rewrite (sc_del _ _ Sy). exact Dl.
      * rewrite G'. exact (a_gap _ A).
      * rewrite (refused_pos d d' P'). exact (a_ref _ A).
      * rewrite Nw', Ck2. lia.
      * rewrite (sc_sp _ _ Sy), Spy. exact Rg2.
    + unfold potW. rewrite G', Nw', Ck2. lia.
Qed.

Lemma wait_step d due dt sm P :
  phW d due -> stamped k d -> 0 < dt <= tau -> potW d due P ->
  let d' := C10.Model.step o k d (Cb dt sm) in
  stamped k d' /\ ((phW d' due /\ potW d' due (P - 10000 * dt)) \/ (mvs d' /\ 0 <= carry_of up d' /\ potME d' (P - 10000 * dt)) \/ term d').
Proof.
  intros W St Hdt Pot. cbv zeta. cbn [C10.Model.step].
  destruct (w_del _ _ W) as (req & Dl).
  pose proof (w_rest _ _ W) as Rd.
  pose proof tau_small as TS.
  rewrite (cb_entry_some k d dt _ _ _ Dl).
  destruct (due <=? now d + dt) eqn:Edue.
  - (* the delayed trigger fires at `due`, then the callback runs *)
    apply Z.leb_le in Edue.
    pose proof (fire_prep_facts d due req) as Z2. cbv zeta in Z2.
    remember (fire_prep (begin_event d) due req) as z2 eqn:Ez2. clear Ez2.
    destruct Z2 as (S2 & U2 & D2 & K22 & K32 & Ut2 & Dt2 & Lt2 & Sta2 & Sp2 & Ck2).
    rewrite (b_step _ (r_base _ Rd)) in S2. rewrite (r_up _ Rd) in U2. rewrite (r_down _ Rd) in D2.
    rewrite Z.max_r in Ck2 by (pose proof (w_now _ _ W); lia).
    assert (Rf2 : refused k z2 up = false) by (rewrite (refused_pos d z2 (k2_pos _ _ K22)); exact (w_ref _ _ W)).
    assert (Sd2 : start_delay_ms k z2 = 0).
    { unfold start_delay_ms, counter. rewrite Sta2, Sp2, Ck2.
      replace (u32 (u32 (k_boot k + due) - stop_time d) / 1000 <? START_DELAY_MS) with false; [rewrite andb_false_r; reflexivity|].
      symmetry. apply Z.ltb_ge. change START_DELAY_MS with 1000. apply Z.div_le_lower_bound; [lia|]. pose proof (w_fire _ _ W). lia. }
    destruct (start_outcome k z2 up _ S2 U2 D2 Rf2 eq_refl) as (K2y & K3y & Suby & _ & Out).
    destruct (Out ltac:(lia)) as (On & Dly).
    remember (set_relay k z2 (dirz up) false false) as y eqn:Ey. clear Ey Out.
    assert (Se : same_core y (set_clock y (now d + dt))) by (apply same_core_set_clock).
    assert (Fe : clk (set_clock y (now d + dt)) = now d + dt /\ last_time (set_clock y (now d + dt)) = last_time y /\
                 up_time (set_clock y (now d + dt)) = up_time y /\ down_time (set_clock y (now d + dt)) = down_time y)
      by (unfold set_clock; frw; auto).
    destruct Fe as (Cke & Lte & Ute & Dte).
    remember (set_clock y (now d + dt)) as e eqn:Ee. clear Ee.
    assert (By : base y).
    { apply (base_transfer d y (r_base _ Rd) (keeps2_trans _ _ _ K22 K2y)); [rewrite (k3_pos _ _ K3y), (k3_pos _ _ K32); reflexivity|
        rewrite (k3_tilt _ _ K3y), (k3_tilt _ _ K32); reflexivity]. }
    assert (My : mvs y).
    { constructor; auto; [rewrite (k3_state _ _ K3y), (k3_state _ _ K32); exact (w_st _ _ W)|rewrite (k3_dir _ _ K3y), (k3_dir _ _ K32); exact (w_dir _ _ W)]. }
    pose proof (mvs_sc y e My Se) as Me.
    assert (Pe : pos e = pos d) by (rewrite (k2_pos _ _ (sc_k2 _ _ Se)), (k2_pos _ _ K2y), (k2_pos _ _ K22); reflexivity).
    assert (Cye : carry_of up e = 0).
    { unfold carry_of. destruct up; [rewrite Ute, (sub_ut _ _ _ Suby), Ut2; exact (w_ut _ _ W)|rewrite Dte, (sub_dt _ _ _ Suby), Dt2; exact (w_dt _ _ W)]. }
    assert (Lte' : last_time e = last_time d) by (rewrite Lte, (sub_lt _ _ _ Suby); exact Lt2).
    unfold potW in Pot. pose proof (w_now _ _ W) as Hnow.
    destruct (run_core e (sensor k e sm) (now d + dt) dt _ (potM0 (gap d)) Me Cke (elapsed_dt d dt e St ltac:(lia) Cke Lte') Hdt ltac:(lia)
                ltac:(apply potME_start; [rewrite (gap_pos d e Pe); exact (w_gap _ _ W)|exact Cye|rewrite (gap_pos d e Pe); lia]) eq_refl) as (St' & [(M' & C' & Pot')|Tm]).
    + split; [exact St'|]. right. left. split; [exact M'|]. split; [exact C'|]. apply (potME_mono _ _ _ Pot'). lia.
    + split; [exact St'|]. right. right. exact Tm.
  - (* not yet due *)
    apply Z.leb_gt in Edue.
    destruct (entry_plain d (now d + dt)) as (Se & Ck & Lt & Ut & Dt).
    remember (set_clock (begin_event d) (now d + dt)) as e eqn:Ee. clear Ee.
    remember (sensor k e sm) as im eqn:Eim. clear Eim.
    pose proof (rest_sc d e Rd Se) as Re.
    destruct (off_pre_facts e) as (Sx & Ux & Dx & Ltx & Lcx & Nwx & Ckx).
    pose proof (rest_sc e _ Re Sx) as Rx. pose proof (rest_rs_task _ Rx) as RTx.
    pose proof (same_core_trans _ _ _ Se Sx) as Sdx.
    assert (Px : pos (off_pre e) = pos d) by (exact (k2_pos _ _ (sc_k2 _ _ Sdx))).
    pose proof (b_tp _ (r_base _ Rx)) as Tpx.
    destruct (tp_moving k (off_pre e) im (time1 e) (time2 e) up R RTx (b_aot _ (r_base _ Rx))
                ltac:(rewrite (k3_state _ _ (sc_k3 _ _ Sdx)); exact (w_st _ _ W)) ltac:(rewrite (k3_dir _ _ (sc_k3 _ _ Sdx)); exact (w_dir _ _ W))) as (TPb & _).
    specialize (TPb ltac:(apply (gap_beyond _ Tpx); rewrite (gap_pos d _ Px); exact (w_gap _ _ W))). symmetry in TPb.
    destruct (off_cb_frame o k e im (now d + dt) _ _ NF (r_up _ Re) (r_down _ Re) (b_step _ (r_base _ Re)) (b_aot _ (r_base _ Re)) (b_act _ (r_base _ Re))
                TPb Ux Dx eq_refl) as (Sy & Ut' & Dt' & Lt' & Nw').
    remember (set_clock (C10.Model.timer_cb o k e im) (now d + dt)) as d' eqn:E'. clear E'.
    pose proof (same_core_trans _ _ _ Sdx Sy) as S'.
    assert (St' : stamped k d') by (unfold stamped; rewrite Lt', Nw'; unfold counter; rewrite Ck; reflexivity).
    split; [exact St'|]. left.
    assert (P' : pos d' = pos d) by (exact (k2_pos _ _ (sc_k2 _ _ S'))).
    split.
    + constructor; auto.
      * exact (rest_sc d d' Rd S').
      * exists req. rewrite (sc_del _ _ S'). exact Dl.
      * rewrite (k3_state _ _ (sc_k3 _ _ S')). exact (w_st _ _ W).
      * rewrite (k3_dir _ _ (sc_k3 _ _ S')). exact (w_dir _ _ W).
      * rewrite (gap_pos d d' P'). exact (w_gap _ _ W).
      * rewrite (refused_pos d d' P'). exact (w_ref _ _ W).
      * rewrite Nw'. lia.
      * rewrite (sc_sp _ _ S'). exact (w_fire _ _ W).
    + unfold potW in *. rewrite (gap_pos d d' P'), Nw'. lia.
Qed.

End Converge.
