(* C18 — proofs about the model of the firmware-update path (C18/Model.v).
   Structure: facts about the generated constants; flash read/write lemmas; supla_esp_update_flash_write,
   supal_esp_update_download, verify_and_reboot, recv_cb as pre/post lemmas; the invariant of reachable states
   (Inv) and the per-step contract (step_post); runs; the property theorems; witnesses for the code before the
   repairs. *)
From Coq Require Import List ZArith Bool Lia.
Import ListNotations.
From V Require Import Base.U32 Base.Bytes Base.Iface Gen.UpdateConsts C18.Model.
Local Open Scope Z_scope.

(* ---------- facts about the generated constants (re-proved by computation) ---------- *)
Record consts_facts : Prop := {
  cf_sec : 0 < SEC_SIZE;
  cf_att : 0 < MAX_ATTEMPTS;
  cf_foot : 0 < FOOTER_SIZE;
  cf_rsa : 0 < RSA_BYTES;
  cf_maxlim : 0 <= max_limit /\ max_limit * 10 + 9 < 2147483648;
  cf_flags : FLAG_FINISH <> FLAG_IDLE /\ FLAG_FINISH <> FLAG_START /\ FLAG_START <> FLAG_IDLE;
  cf_zero_footer : footer_ok (zeros FOOTER_SIZE) = false;
  cf_limits : forallb (fun row => match row with [_; l] => (0 <? l) && (l <=? max_limit) | _ => true end) LIMITS = true;
  cf_slots : forallb (fun row => match row with [_; a; b] => (a mod SEC_SIZE =? 0) && (b mod SEC_SIZE =? 0) && (SEC_SIZE <=? a) && (SEC_SIZE <=? b) | _ => true end) SLOTS = true
}.
Lemma CF : consts_facts.
Proof. constructor; vm_compute; try reflexivity; try (split; congruence); try (repeat split; congruence). Qed.

Lemma lookup_in t k row : lookup t k = Some row -> In (k :: row) t.
Proof.
  induction t as [|r t IH]; cbn [lookup]; [discriminate|].
  destruct r as [|k' r']; [intros H; right; auto|].
  destruct (k' =? k) eqn:E.
  - apply Z.eqb_eq in E. intros H. left. congruence.
  - intros H; right; auto.
Qed.
Lemma size_limit_range m l : size_limit m = Some l -> 0 < l <= max_limit.
Proof.
  unfold size_limit. destruct (lookup LIMITS m) as [row|] eqn:E; [|discriminate].
  destruct row as [|l' [|? ?]]; try discriminate. intros H. assert (l' = l) by congruence. subst l'.
  apply lookup_in in E. pose proof (cf_limits CF) as F. rewrite forallb_forall in F. specialize (F _ E).
  cbn beta iota in F. apply andb_prop in F. destruct F as [F1 F2].
  apply Z.ltb_lt in F1. apply Z.leb_le in F2. lia.
Qed.
Lemma slot_base_aligned m u b : slot_base m u = Some b -> b mod SEC_SIZE = 0 /\ SEC_SIZE <= b.
Proof.
  unfold slot_base. destruct (lookup SLOTS m) as [row|] eqn:E; [|discriminate].
  destruct row as [|a [|b' [|? ?]]]; try discriminate.
  apply lookup_in in E. pose proof (cf_slots CF) as F. rewrite forallb_forall in F. specialize (F _ E).
  cbn beta iota in F. apply andb_prop in F. destruct F as [F F4]. apply andb_prop in F. destruct F as [F F3].
  apply andb_prop in F. destruct F as [F1 F2].
  apply Z.eqb_eq in F1, F2. apply Z.leb_le in F3, F4.
  intros H. destruct (u =? FW_BIN1); assert (b = a \/ b = b') by (first [left; congruence | right; congruence]); intuition (subst; auto).
Qed.

(* ---------- lists ---------- *)
Lemma land255 b : byte_ok b -> Z.land 255 b = b.
Proof.
  unfold byte_ok; intros. rewrite Z.land_comm. change 255 with (Z.ones 8).
  rewrite Z.land_ones by lia. apply Z.mod_small. lia.
Qed.
Lemma zseq_length a n : length (zseq a n) = n.
Proof. revert a; induction n; intros; cbn [zseq length]; auto. Qed.
Lemma zseq_app a n m : zseq a (n + m) = zseq a n ++ zseq (a + Z.of_nat n) m.
Proof.
  revert a; induction n as [|n IH]; intros a.
  - cbn. f_equal. lia.
  - cbn [Nat.add zseq app]. f_equal. rewrite IH. f_equal. f_equal. lia.
Qed.
Lemma in_zseq x a n : In x (zseq a n) -> a <= x < a + Z.of_nat n.
Proof.
  revert a; induction n as [|n IH]; intros a; cbn [zseq In]; [tauto|].
  intros [H|H]; [lia|]. apply IH in H. lia.
Qed.
Lemma fread_len f a n : 0 <= n -> len (fread f a n) = n.
Proof. intros. unfold fread, len. rewrite map_length, zseq_length. lia. Qed.
Lemma fread_app f a n m : 0 <= n -> 0 <= m -> fread f a (n + m) = fread f a n ++ fread f (a + n) m.
Proof.
  intros. unfold fread. rewrite Z2Nat.inj_add by lia. rewrite zseq_app, map_app. rewrite Z2Nat.id by lia. reflexivity.
Qed.
Lemma fread_ext f g a n : (forall x, a <= x < a + n -> f x = g x) -> fread f a n = fread g a n.
Proof.
  intros H. unfold fread. apply map_ext_in. intros x Hx. apply in_zseq in Hx. apply H.
  destruct (Z_le_gt_dec 0 n); [rewrite Z2Nat.id in Hx by lia; lia|].
  replace (Z.to_nat n) with 0%nat in Hx by lia. lia.
Qed.
Lemma nthz_cons_succ b l z : 0 <= z -> nthz (b :: l) (z + 1) = nthz l z.
Proof. intros. unfold nthz. replace (Z.to_nat (z + 1)) with (S (Z.to_nat z)) by lia. reflexivity. Qed.
Lemma map_nthz_zseq d a : map (fun x => nthz d (x - a)) (zseq a (length d)) = d.
Proof.
  revert a; induction d as [|b d IH]; intros a; cbn [length zseq map]; [reflexivity|].
  f_equal. { replace (a - a) with 0 by lia. reflexivity. }
  transitivity (map (fun x => nthz d (x - (a + 1))) (zseq (a + 1) (length d))); [|apply IH]. apply map_ext_in. intros x Hx. apply in_zseq in Hx.
  replace (x - a) with ((x - (a + 1)) + 1) by lia. apply nthz_cons_succ. lia.
Qed.
Lemma fread_sub f B o n L : 0 <= o -> 0 <= n -> o + n <= L ->
  fread f (B + o) n = take n (drop o (fread f B L)).
Proof.
  intros. replace L with (o + (n + (L - o - n))) by lia.
  rewrite (fread_app f B o) by lia. rewrite (fread_app f (B + o) n) by lia.
  pose proof (fread_len f B o ltac:(lia)) as Hl1. pose proof (fread_len f (B + o) n ltac:(lia)) as Hl2.
  rewrite drop_app_ge by lia. rewrite Hl1. replace (o - o) with 0 by lia. rewrite drop_0.
  rewrite take_app_le by lia. rewrite take_all by lia. reflexivity.
Qed.
Lemma accepted_push_eq (g : list (list Z)) c : concat (rev (c :: g)) = concat (rev g) ++ c.
Proof. cbn [rev]. rewrite concat_app. cbn [concat]. rewrite app_nil_r. reflexivity. Qed.

(* ---------- alignment ---------- *)
Definition aligned (a : Z) : Prop := a mod SEC_SIZE = 0.
Lemma aligned_add a : aligned a -> aligned (a + SEC_SIZE).
Proof.
  pose proof (cf_sec CF). unfold aligned; intros. rewrite <- Zplus_mod_idemp_r, Z_mod_same_full, Z.add_0_r. auto.
Qed.
Lemma aligned_sector a : aligned a -> a / SEC_SIZE * SEC_SIZE = a.
Proof.
  pose proof (cf_sec CF). unfold aligned; intros. pose proof (Z.div_mod a SEC_SIZE ltac:(lia)). lia.
Qed.

(* ---------- attempts ---------- *)
Definition insec (s x : Z) : Prop := s * SEC_SIZE <= x < s * SEC_SIZE + SEC_SIZE.
Lemma erase_out f s x : ~ insec s x -> erase f s x = f x.
Proof.
  unfold insec, erase; intros H.
  destruct (s * SEC_SIZE <=? x) eqn:E1; destruct (x <? s * SEC_SIZE + SEC_SIZE) eqn:E2; cbn [andb]; auto.
  apply Z.leb_le in E1. apply Z.ltb_lt in E2. lia.
Qed.
Lemma erase_in f s x : insec s x -> erase f s x = 255.
Proof.
  unfold insec, erase; intros H.
  destruct (s * SEC_SIZE <=? x) eqn:E1; destruct (x <? s * SEC_SIZE + SEC_SIZE) eqn:E2; cbn [andb]; auto;
  try (apply Z.leb_gt in E1); try (apply Z.ltb_ge in E2); lia.
Qed.
Lemma write_out f a d x : ~ (a <= x < a + len d) -> write f a d x = f x.
Proof.
  unfold write; intros H.
  destruct (a <=? x) eqn:E1; destruct (x <? a + len d) eqn:E2; cbn [andb]; auto.
  apply Z.leb_le in E1. apply Z.ltb_lt in E2. lia.
Qed.
Lemma write_in f a d x : a <= x < a + len d -> write f a d x = Z.land (f x) (nthz d (x - a)).
Proof.
  unfold write; intros H.
  destruct (a <=? x) eqn:E1; destruct (x <? a + len d) eqn:E2; cbn [andb]; auto;
  try (apply Z.leb_gt in E1); try (apply Z.ltb_ge in E2); lia.
Qed.

Definition is_op (a : Z) (d : list Z) (o : out) : Prop := o = OErase (a / SEC_SIZE * SEC_SIZE) \/ o = OWrite a d.

Lemma attempts_spec k : forall f fs a d f' fs' o ok,
  attempts k f fs a d = (f', fs', o, ok) ->
  Forall (is_op a d) o /\
  (ok = true -> exists g, (forall x, ~ insec (a / SEC_SIZE) x -> g x = f x) /\ f' = write (erase g (a / SEC_SIZE)) a d).
Proof.
  induction k as [|k IH]; intros f fs a d f' fs' o ok; cbn [attempts].
  - intros H. assert (o = [] /\ ok = false) as [-> ->] by (split; congruence). split; [constructor|discriminate].
  - destruct (pop_fail fs) as [fe fs1]. destruct fe.
    + destruct (attempts k f fs1 a d) as [[[f2 fs2] o2] ok2] eqn:E. intros H.
      assert (f' = f2 /\ o = OErase (a / SEC_SIZE * SEC_SIZE) :: o2 /\ ok = ok2) as (-> & -> & ->) by (repeat split; congruence).
      apply IH in E. destruct E as [E1 E2]. split; [constructor; [left; reflexivity|auto]|auto].
    + destruct (pop_fail fs1) as [fw fs2]. destruct fw.
      * destruct (attempts k (erase f (a / SEC_SIZE)) fs2 a d) as [[[f3 fs3] o3] ok3] eqn:E. intros H.
        assert (f' = f3 /\ o = OErase (a / SEC_SIZE * SEC_SIZE) :: OWrite a d :: o3 /\ ok = ok3) as (-> & -> & ->) by (repeat split; congruence).
        apply IH in E. destruct E as [E1 E2]. split.
        { constructor; [left; reflexivity|]. constructor; [right; reflexivity|auto]. }
        intros Hok. destruct (E2 Hok) as (g & Hg & Hf). exists g. split; [|auto].
        intros x Hx. rewrite Hg by auto. apply erase_out; auto.
      * intros H.
        assert (f' = write (erase f (a / SEC_SIZE)) a d /\ o = [OErase (a / SEC_SIZE * SEC_SIZE); OWrite a d]) as (-> & ->) by (split; congruence).
        split. { constructor; [left; reflexivity|]. constructor; [right; reflexivity|constructor]. }
        intros _. exists f. split; auto.
Qed.

(* reading back after a successful erase+write of `d` at the aligned address a = B + L *)
Lemma fread_after_write f g B L d :
  aligned (B + L) -> 0 <= L -> len d <= SEC_SIZE -> bytes_ok d ->
  (forall x, ~ insec ((B + L) / SEC_SIZE) x -> g x = f x) ->
  fread (write (erase g ((B + L) / SEC_SIZE)) (B + L) d) B (L + len d) = fread f B L ++ d.
Proof.
  intros Ha HL Hd Hb Hg. pose proof (cf_sec CF) as Hs. pose proof (len_nonneg d).
  pose proof (aligned_sector _ Ha) as Hsec.
  rewrite fread_app by lia. f_equal.
  - apply fread_ext. intros x Hx. rewrite write_out by lia. rewrite erase_out by (unfold insec; lia).
    apply Hg. unfold insec; lia.
  - unfold fread, len. rewrite Nat2Z.id.
    transitivity (map (fun x => nthz d (x - (B + L))) (zseq (B + L) (length d))); [|apply map_nthz_zseq].
    apply map_ext_in. intros x Hx. apply in_zseq in Hx. fold (len d) in Hx.
    rewrite write_in by lia. rewrite erase_in by (unfold insec; lia).
    apply land255. apply nthz_ok; auto.
Qed.

(* ---------- flash_write ---------- *)
Definition frame (s s' : st) : Prop :=
  started s' = started s /\ rhdr s' = rhdr s /\ matched s' = matched s /\ expected s' = expected s /\
  downloading s' = downloading s /\ downloaded s' = downloaded s /\ got s' = got s.
Notation FAILTAIL := [OFlag FLAG_IDLE; OFlag FLAG_IDLE; ORestart].

Lemma flash_write_spec B E s s' o ok :
  flash_write s = (s', o, ok) ->
  aligned (awo s) -> B <= awo s -> 0 < len (buf s) <= SEC_SIZE -> awo s + len (buf s) <= B + E -> bytes_ok (buf s) ->
  frame s s' /\
  exists ops tail, o = ops ++ tail /\ Forall (opok B E) ops /\
  if ok then tail = [] /\ halted s' = halted s /\ bufnull s' = bufnull s /\ hlen s' = hlen s /\
             awo s' = awo s + len (buf s) /\ buf s' = [] /\
             fread (fl s') B (awo s - B + len (buf s)) = fread (fl s) B (awo s - B) ++ buf s
  else tail = FAILTAIL /\ halted s' = true /\ bufnull s' = true /\ awo s' = awo s.
Proof.
  unfold flash_write. destruct (attempts _ _ _ _ _) as [[[f' fs'] o1] ok1] eqn:E0.
  intros H Ha HB Hl Hle Hb. cbv zeta in H.
  apply attempts_spec in E0. destruct E0 as [Hops Hok].
  assert (Forall (opok B E) o1) as Hops'.
  { eapply Forall_impl; [|exact Hops]. intros x [->| ->]; cbn [opok].
    - rewrite (aligned_sector _ Ha). split; [lia|]. split; [exact Ha|lia].
    - lia. }
  destruct ok1.
  - assert (s' = mkst (started s) (halted s) f' fs' (awo s + len (buf s)) (rhdr s) (matched s) (hlen s) (expected s)
                 (downloaded s) (downloading s) [] (bufnull s) (got s) /\ o = o1 /\ ok = true) as (-> & -> & ->) by (repeat split; congruence).
    split; [unfold frame; cbn; repeat split; reflexivity|].
    exists o1, []. rewrite app_nil_r. split; [reflexivity|]. split; [exact Hops'|].
    cbn [halted bufnull hlen awo buf fl]. repeat split; try reflexivity.
    destruct (Hok eq_refl) as (g & Hg & ->).
    replace (awo s) with (B + (awo s - B)) at 1 2 by lia.
    apply fread_after_write; try lia; auto. replace (B + (awo s - B)) with (awo s) by lia. exact Ha.
    intros x Hx. apply Hg. replace (awo s) with (B + (awo s - B)) by lia. exact Hx.
  - assert (s' = halt (mkst (started s) (halted s) f' fs' (awo s) (rhdr s) (matched s) (hlen s) (expected s)
                 (downloaded s) (downloading s) (buf s) (bufnull s) (got s)) /\ o = o1 ++ FAILTAIL /\ ok = false) as (-> & -> & ->)
      by (repeat split; congruence).
    split; [unfold frame; cbn; repeat split; reflexivity|].
    exists o1, FAILTAIL. split; [reflexivity|]. split; [exact Hops'|]. cbn. repeat split; reflexivity.
Qed.

(* ---------- dl_loop ---------- *)
Lemma frame_refl s : frame s s. Proof. unfold frame; repeat split; reflexivity. Qed.

Lemma dl_loop_spec B E : forall fuel s content s' o ok,
  dl_loop fuel s content = (s', o, ok) ->
  (length content < fuel)%nat ->
  bytes_ok content -> bytes_ok (buf s) ->
  aligned (awo s) -> B <= awo s -> len (buf s) < SEC_SIZE ->
  awo s + len (buf s) = B + downloaded s -> 0 <= downloaded s ->
  downloaded s + len content <= E ->
  fread (fl s) B (awo s - B) ++ buf s = accepted s ->
  started s' = started s /\ rhdr s' = rhdr s /\ matched s' = matched s /\ expected s' = expected s /\ downloading s' = downloading s /\
  exists ops tail, o = ops ++ tail /\ Forall (opok B E) ops /\
  if ok then tail = [] /\ halted s' = halted s /\ bufnull s' = bufnull s /\ hlen s' = hlen s /\
             aligned (awo s') /\ B <= awo s' /\ len (buf s') < SEC_SIZE /\ bytes_ok (buf s') /\
             awo s' + len (buf s') = B + downloaded s' /\ downloaded s' = downloaded s + len content /\
             fread (fl s') B (awo s' - B) ++ buf s' = accepted s' /\ accepted s' = accepted s ++ content
  else tail = FAILTAIL /\ halted s' = true /\ bufnull s' = true /\ 0 <= downloaded s' < E.
Proof.
  pose proof (cf_sec CF) as Hsec.
  induction fuel as [|fuel IH]; intros s content s' o ok H Hfuel Hbc Hbb Hal HB Hlb Hawo Hd0 HdE HFR; [lia|].
  cbn [dl_loop] in H. destruct content as [|c rest].
  - assert (s' = s /\ o = [] /\ ok = true) as (-> & -> & ->) by (repeat split; congruence).
    repeat split; try reflexivity. exists [], []. split; [reflexivity|]. split; [constructor|].
    repeat split; auto. rewrite len_nil; lia. rewrite app_nil_r; reflexivity.
  - set (content := c :: rest) in *.
    assert (1 <= len content) as Hlc by (unfold content; rewrite len_cons; pose proof (len_nonneg rest); lia).
    set (n := Z.min (len content) (SEC_SIZE - len (buf s))) in *.
    assert (1 <= n <= len content /\ n <= SEC_SIZE - len (buf s)) as Hn by (unfold n; lia).
    assert (len (take n content) = n) as Hlt by (rewrite len_take by lia; lia).
    assert (len (buf (push s (take n content))) = len (buf s) + n) as Hlb1 by (cbn [push buf]; rewrite len_app; lia).
    assert (accepted (push s (take n content)) = accepted s ++ take n content) as Hacc1
      by (unfold accepted; cbn [push got]; apply accepted_push_eq).
    assert (length (drop n content) < fuel)%nat as Hfuel'.
    { pose proof (len_drop n content ltac:(lia)) as Hld. unfold len in Hld. unfold len in Hlc, Hn. cbn [length] in Hfuel. lia. }
    assert (len (drop n content) = len content - n) as Hld by (rewrite len_drop by lia; lia).
    destruct (len (buf (push s (take n content))) =? SEC_SIZE) eqn:Efull.
    + apply Z.eqb_eq in Efull.
      destruct (flash_write (push s (take n content))) as [[s2 o2] ok2] eqn:Efw.
      apply (flash_write_spec B E) in Efw; cbn [push awo buf]; try assumption; try lia.
      2:{ rewrite len_app. lia. }
      2:{ rewrite len_app. lia. }
      2:{ apply bytes_ok_app; split; [auto|apply bytes_ok_take; auto]. }
      destruct Efw as [Hfr (ops2 & tail2 & -> & Hops2 & Hrest)].
      unfold frame in Hfr; cbn [push started rhdr matched expected downloading downloaded got] in Hfr.
      destruct Hfr as (F1 & F2 & F3 & F4 & F5 & F6 & F7).
      destruct ok2.
      * destruct Hrest as (-> & G1 & G2 & G2' & G3 & G4 & G5). cbn [push halted bufnull hlen awo buf fl] in G1, G2, G2', G3, G5.
        destruct (dl_loop fuel (add_downloaded s2 n) (drop n content)) as [[s3 o3] ok3] eqn:Eloop.
        assert (s' = s3 /\ o = (ops2 ++ []) ++ o3 /\ ok = ok3) as (-> & -> & ->) by (repeat split; congruence).
        assert (bytes_ok (drop n content)) as P1 by (apply bytes_ok_drop; auto).
        assert (bytes_ok (buf (add_downloaded s2 n))) as P2 by (cbn [add_downloaded buf]; rewrite G4; constructor).
        assert (aligned (awo (add_downloaded s2 n))) as P3.
        { cbn [add_downloaded awo]. rewrite G3. rewrite len_app, Hlt. replace (awo s + (len (buf s) + n)) with (awo s + SEC_SIZE) by (rewrite Hlb1 in Efull; lia). apply aligned_add; auto. }
        assert (B <= awo (add_downloaded s2 n)) as P4.
        { cbn [add_downloaded awo]. rewrite G3. pose proof (len_nonneg (buf s ++ take n content)). lia. }
        assert (len (buf (add_downloaded s2 n)) < SEC_SIZE) as P5 by (cbn [add_downloaded buf]; rewrite G4, len_nil; lia).
        assert (awo (add_downloaded s2 n) + len (buf (add_downloaded s2 n)) = B + downloaded (add_downloaded s2 n)) as P6.
        { cbn [add_downloaded awo buf downloaded]. rewrite G3, G4, len_nil, F6, len_app, Hlt. lia. }
        assert (0 <= downloaded (add_downloaded s2 n)) as P7 by (cbn [add_downloaded downloaded]; rewrite F6; lia).
        assert (downloaded (add_downloaded s2 n) + len (drop n content) <= E) as P8 by (cbn [add_downloaded downloaded]; rewrite F6, Hld; lia).
        assert (fread (fl (add_downloaded s2 n)) B (awo (add_downloaded s2 n) - B) ++ buf (add_downloaded s2 n) = accepted (add_downloaded s2 n)) as P9.
        { cbn [add_downloaded awo buf fl]. rewrite G4, app_nil_r. unfold accepted. cbn [add_downloaded got]. rewrite F7, accepted_push_eq. fold (accepted s). rewrite G3. replace (awo s + len (buf s ++ take n content) - B) with (awo s - B + len (buf s ++ take n content)) by lia.
          rewrite G5. rewrite <- HFR. rewrite app_assoc. reflexivity. }
        pose proof (IH _ _ _ _ _ Eloop Hfuel' P1 P2 P3 P4 P5 P6 P7 P8 P9) as K. clear Eloop. rename K into Eloop.
        cbn [add_downloaded started rhdr matched expected downloading halted bufnull hlen] in Eloop.
        destruct Eloop as (K1 & K2 & K3 & K4 & K5 & ops3 & tail3 & -> & Hops3 & Hrest3).
        repeat split; try congruence.
        exists (ops2 ++ ops3), tail3. split; [rewrite app_nil_r, app_assoc; reflexivity|].
        split; [apply Forall_app; split; auto|].
        destruct ok3.
        -- destruct Hrest3 as (-> & M1 & M2 & M2' & M3 & M4 & M5 & M6 & M7 & M8 & M9 & M10).
           repeat split; auto; try congruence.
           ++ rewrite M8. cbn [add_downloaded downloaded]. rewrite F6, Hld. lia.
           ++ rewrite M10. unfold accepted at 1. cbn [add_downloaded got]. rewrite F7, accepted_push_eq. fold (accepted s).
              rewrite <- app_assoc, take_drop. reflexivity.
        -- exact Hrest3.
      * destruct Hrest as (-> & G1 & G2 & G3).
        assert (s' = s2 /\ o = ops2 ++ FAILTAIL /\ ok = false) as (-> & -> & ->) by (repeat split; congruence).
        repeat split; try congruence.
        exists ops2, FAILTAIL. split; [reflexivity|]. split; [auto|].
        repeat split; auto; rewrite F6; lia.
    + apply Z.eqb_neq in Efull.
      set (s1 := add_downloaded (push s (take n content)) n) in *.
      assert (bytes_ok (drop n content)) as P1 by (apply bytes_ok_drop; auto).
      assert (bytes_ok (buf s1)) as P2 by (unfold s1; cbn [add_downloaded push buf]; apply bytes_ok_app; split; [auto|apply bytes_ok_take; auto]).
      assert (aligned (awo s1)) as P3 by (unfold s1; cbn [add_downloaded push awo]; auto).
      assert (B <= awo s1) as P4 by (unfold s1; cbn [add_downloaded push awo]; auto).
      assert (len (buf s1) < SEC_SIZE) as P5 by (unfold s1; cbn [add_downloaded push buf]; cbn [push buf] in Hlb1, Efull; lia).
      assert (awo s1 + len (buf s1) = B + downloaded s1) as P6 by (unfold s1; cbn [add_downloaded push awo buf downloaded]; cbn [push buf] in Hlb1; lia).
      assert (0 <= downloaded s1) as P7 by (unfold s1; cbn [add_downloaded push downloaded]; lia).
      assert (downloaded s1 + len (drop n content) <= E) as P8 by (unfold s1; cbn [add_downloaded push downloaded]; lia).
      assert (fread (fl s1) B (awo s1 - B) ++ buf s1 = accepted s1) as P9.
      { unfold s1. cbn [add_downloaded push awo buf fl]. unfold accepted. cbn [add_downloaded push got]. rewrite accepted_push_eq. fold (accepted s). rewrite <- HFR, app_assoc. reflexivity. }
      pose proof (IH _ _ _ _ _ H Hfuel' P1 P2 P3 P4 P5 P6 P7 P8 P9) as K. clear H. rename K into H. unfold s1 in H.
      cbn [add_downloaded push started rhdr matched expected downloading halted bufnull hlen] in H.
      destruct H as (K1 & K2 & K3 & K4 & K5 & ops3 & tail3 & -> & Hops3 & Hrest3).
      repeat split; try congruence.
      exists ops3, tail3. split; [reflexivity|]. split; [auto|].
      destruct ok.
      * destruct Hrest3 as (-> & M1 & M2 & M2' & M3 & M4 & M5 & M6 & M7 & M8 & M9 & M10).
        repeat split; auto.
        -- rewrite M8. cbn [add_downloaded push downloaded]. lia.
        -- rewrite M10. unfold accepted at 1. cbn [add_downloaded push got]. rewrite accepted_push_eq. fold (accepted s).
           rewrite <- app_assoc, take_drop. reflexivity.
      * exact Hrest3.
Qed.

(* ---------- download (repaired code) ---------- *)
Definition DInv (B : Z) (s : st) : Prop :=
  0 <= downloaded s <= expected s /\ awo s + len (buf s) = B + downloaded s /\ len (buf s) < SEC_SIZE /\
  bytes_ok (buf s) /\ B <= awo s /\ (downloaded s < expected s -> aligned (awo s)) /\
  fread (fl s) B (awo s - B) ++ buf s = accepted s.

Lemma download_spec B s content s' o ok :
  download FIXED s content = (s', o, ok) ->
  DInv B s -> downloaded s < expected s -> bytes_ok content ->
  started s' = started s /\ rhdr s' = rhdr s /\ matched s' = matched s /\ expected s' = expected s /\ downloading s' = downloading s /\
  exists ops tail, o = ops ++ tail /\ Forall (opok B (expected s)) ops /\
  if ok then tail = [] /\ halted s' = halted s /\ bufnull s' = false /\ DInv B s' /\
             (downloaded s' = expected s' -> buf s' = [] /\ awo s' = B + expected s')
  else tail = FAILTAIL /\ halted s' = true /\ bufnull s' = true.
Proof.
  pose proof (cf_sec CF) as Hsec.
  unfold download. cbn [fx_clamp FIXED].
  set (s0 := mkst (started s) (halted s) (fl s) (fails s) (awo s) (rhdr s) (matched s) (hlen s) (expected s) (downloaded s)
                  (downloading s) (buf s) false (got s)).
  set (c := take (Z.max 0 (expected s - downloaded s)) content).
  intros H (D1 & D2 & D3 & D4 & D5 & D6 & D7) Hlt Hbc.
  assert (len c <= expected s - downloaded s) as Hlc by (unfold c; rewrite len_take by lia; lia).
  destruct (dl_loop (S (length c)) s0 c) as [[s1 o1] ok1] eqn:El.
  assert (bytes_ok c) as Hbc' by (unfold c; apply bytes_ok_take; auto).
  pose proof (dl_loop_spec B (expected s) _ _ _ _ _ _ El (Nat.lt_succ_diag_r _) Hbc' D4 (D6 Hlt) D5 D3 D2 (proj1 D1) ltac:(cbn [s0 downloaded]; lia) D7) as K.
  clear El. rename K into El.
  assert (accepted s0 = accepted s) as Hacc0 by reflexivity. rewrite Hacc0 in El. clear Hacc0. unfold s0 in El.
  cbn [started rhdr matched expected downloading halted bufnull hlen] in El.
  destruct El as (K1 & K2 & K3 & K4 & K5 & ops1 & tail1 & -> & Hops1 & Hrest).
  destruct ok1.
  - destruct Hrest as (-> & M1 & M2 & M2' & M3 & M4 & M5 & M6 & M7 & M8 & M9 & M10). rewrite app_nil_r in *.
    cbn [downloaded] in M8.
    destruct ((0 <? len (buf s1)) && (downloaded s1 =? expected s1)) eqn:Efin.
    + apply andb_prop in Efin. destruct Efin as [E1 E2]. apply Z.ltb_lt in E1. apply Z.eqb_eq in E2.
      destruct (flash_write s1) as [[s2 o2] ok2] eqn:Efw.
      assert (s' = s2 /\ o = ops1 ++ o2 /\ ok = ok2) as (-> & -> & ->) by (repeat split; congruence).
      assert (aligned (awo s1)) as Hal1 by exact M3.
      assert (0 < len (buf s1) <= SEC_SIZE) as Hq1 by lia.
      assert (awo s1 + len (buf s1) <= B + expected s) as Hq2 by lia.
      pose proof (flash_write_spec B (expected s) _ _ _ _ Efw Hal1 M4 Hq1 Hq2 M6) as K. clear Efw. rename K into Efw.
      destruct Efw as [(F1 & F2 & F3 & F4 & F5 & F6 & F7) (ops2 & tail2 & -> & Hops2 & Hrest2)].
      repeat split; try congruence.
      exists (ops1 ++ ops2), tail2. split; [rewrite app_assoc; reflexivity|]. split; [apply Forall_app; split; auto|].
      destruct ok2.
      * destruct Hrest2 as (-> & G1 & G2 & G2' & G3 & G4 & G5).
        split; [reflexivity|]. split; [congruence|]. split; [congruence|].
        assert (awo s2 = B + expected s2) as Hawo by (rewrite G3, F4; lia).
        split.
        { unfold DInv. rewrite G4. change (len (@nil Z)) with 0.
          split; [lia|]. split; [lia|]. split; [lia|]. split; [constructor|]. split; [lia|]. split; [intros; lia|].
          rewrite app_nil_r. unfold accepted. rewrite F7. fold (accepted s1). rewrite <- M9.
          rewrite G3. replace (awo s1 + len (buf s1) - B) with (awo s1 - B + len (buf s1)) by lia. exact G5. }
        intros _. split; [exact G4|exact Hawo].
      * destruct Hrest2 as (-> & G1 & G2 & G3). repeat split; auto.
    + assert (s' = s1 /\ o = ops1 /\ ok = true) as (-> & -> & ->) by (repeat split; congruence).
      repeat split; try congruence.
      exists ops1, []. rewrite app_nil_r. split; [reflexivity|]. split; [auto|].
      split; [reflexivity|]. split; [congruence|]. split; [exact M2|].
      split.
      { unfold DInv. rewrite K4. pose proof (len_nonneg c).
        split; [lia|]. split; [exact M7|]. split; [exact M5|]. split; [exact M6|]. split; [exact M4|]. split; [intros; exact M3|exact M9]. }
      intros Heq. apply andb_false_iff in Efin. destruct Efin as [E|E].
      * apply Z.ltb_ge in E. pose proof (len_nonneg (buf s1)).
        assert (buf s1 = []) as Hb by (destruct (buf s1); [reflexivity|rewrite len_cons in E; pose proof (len_nonneg l); lia]).
        split; [exact Hb|]. rewrite Hb, len_nil in M7. lia.
      * apply Z.eqb_neq in E. contradiction.
  - destruct Hrest as (-> & M1 & M2 & M3).
    assert (s' = s1 /\ o = ops1 ++ FAILTAIL /\ ok = false) as (-> & -> & ->) by (repeat split; congruence).
    repeat split; try congruence.
    exists ops1, FAILTAIL. repeat split; auto.
Qed.

(* ---------- verify_and_reboot ---------- *)
Lemma s32_small z : 0 <= z < 2147483648 -> s32 z = z.
Proof.
  intros. unfold s32. rewrite Z.mod_small by lia.
  destruct (z <? 2147483648) eqn:E; [reflexivity|apply Z.ltb_ge in E; lia].
Qed.

Lemma opok_benign B E o : opok B E o -> benign o.
Proof. destruct o; cbn; tauto. Qed.

Section Fixed.
Variables (map_ userbin : Z) (heap : list Z) (verify : list Z -> list Z -> bool).
Notation B := (base map_ userbin).

(* what holds once FLAG_FINISH has been emitted *)
Definition Fin (s : st) : Prop :=
  let img := accepted s in let E := expected s in
  halted s = true /\ downloaded s = E /\ len img = E /\ SIG_OFF < E /\
  fread (fl s) B E = img /\
  footer_ok (drop (E - FOOTER_SIZE) img) = true /\
  verify (take (E - SIG_OFF) img) (take RSA_BYTES (drop (E - SIG_OFF) img)) = true.

Lemma halt_fields s : fl (halt s) = fl s /\ expected (halt s) = expected s /\ downloaded (halt s) = downloaded s /\
  got (halt s) = got s /\ halted (halt s) = true /\ started (halt s) = started s /\ rhdr (halt s) = rhdr s /\
  matched (halt s) = matched s /\ downloading (halt s) = downloading s.
Proof. cbn. repeat split; reflexivity. Qed.

Lemma verify_complete s s' o :
  verify_and_reboot FIXED map_ userbin heap verify s = (s', o) ->
  DInv B s -> downloaded s = expected s -> buf s = [] -> awo s = B + expected s -> bufnull s = false ->
  expected s < 2147483648 ->
  s' = halt s /\
  ((exists b sg, o = [OVerify b sg true; OFlag FLAG_FINISH; OUpgradeReboot] /\ Fin s' /\
                 b = take (expected s - SIG_OFF) (accepted s) /\ sg = take RSA_BYTES (drop (expected s - SIG_OFF) (accepted s)))
   \/ o = [OFlag FLAG_IDLE; ORestart]
   \/ (exists b sg, o = [OVerify b sg false; OFlag FLAG_IDLE; ORestart])).
Proof.
  pose proof (cf_foot CF) as Hf. pose proof (cf_rsa CF) as Hr.
  intros H (D1 & D2 & D3 & D4 & D5 & D6 & D7) Hde Hb Hawo Hbn Hlim.
  rewrite Hb, app_nil_r in D7. rewrite Hawo in D7. replace (B + expected s - B) with (expected s) in D7 by lia.
  assert (len (accepted s) = expected s) as Hlen by (rewrite <- D7; apply fread_len; lia).
  unfold verify_and_reboot in H. rewrite Hbn in H.
  destruct (SIG_OFF <? downloaded s) eqn:Esz.
  - apply Z.ltb_lt in Esz. unfold SIG_OFF in Esz.
    assert (fread (fl s) (awo s - FOOTER_SIZE) FOOTER_SIZE = drop (expected s - FOOTER_SIZE) (accepted s)) as Hft.
    { rewrite Hawo. replace (B + expected s - FOOTER_SIZE) with (B + (expected s - FOOTER_SIZE)) by lia.
      rewrite (fread_sub _ B (expected s - FOOTER_SIZE) FOOTER_SIZE (expected s)) by lia. rewrite D7.
      apply take_all. rewrite len_drop by lia. lia. }
    rewrite Hft in H.
    destruct (footer_ok (drop (expected s - FOOTER_SIZE) (accepted s))) eqn:Efo.
    + assert (s32 (awo s - B - FOOTER_SIZE - RSA_BYTES) = expected s - SIG_OFF) as Hbl
        by (unfold SIG_OFF; rewrite Hawo; rewrite s32_small by lia; lia).
      rewrite Hbl in H.
      assert (0 <? expected s - SIG_OFF = true) as Hpos by (apply Z.ltb_lt; unfold SIG_OFF; lia). rewrite Hpos in H.
      rewrite Z.max_r in H by (unfold SIG_OFF; lia).
      assert (fread (fl s) B (expected s - SIG_OFF) = take (expected s - SIG_OFF) (accepted s)) as Hbody.
      { replace B with (B + 0) at 1 by lia. rewrite (fread_sub _ B 0 (expected s - SIG_OFF) (expected s)) by (unfold SIG_OFF; lia).
        rewrite drop_0, D7. reflexivity. }
      assert (fread (fl s) (B + (expected s - SIG_OFF)) RSA_BYTES = take RSA_BYTES (drop (expected s - SIG_OFF) (accepted s))) as Hsig.
      { rewrite (fread_sub _ B (expected s - SIG_OFF) RSA_BYTES (expected s)) by (unfold SIG_OFF; lia). rewrite D7. reflexivity. }
      rewrite Hbody, Hsig in H.
      destruct (verify (take (expected s - SIG_OFF) (accepted s)) (take RSA_BYTES (drop (expected s - SIG_OFF) (accepted s)))) eqn:Ev;
        unfold reboot, after_verify in H; cbn [fx_done FIXED snd] in H.
      * assert (s' = halt s /\ o = [OVerify (take (expected s - SIG_OFF) (accepted s)) (take RSA_BYTES (drop (expected s - SIG_OFF) (accepted s))) true;
                                    OFlag FLAG_FINISH; OUpgradeReboot]) as (-> & ->) by (split; congruence).
        split; [reflexivity|]. left. eexists _, _. split; [reflexivity|]. split; [|split; reflexivity].
        unfold Fin, accepted. cbn [halt halted downloaded expected got fl]. fold (accepted s).
        unfold SIG_OFF. repeat split; auto; try lia.
      * assert (s' = halt s /\ o = [OVerify (take (expected s - SIG_OFF) (accepted s)) (take RSA_BYTES (drop (expected s - SIG_OFF) (accepted s))) false;
                                    OFlag FLAG_IDLE; ORestart]) as (-> & ->) by (split; congruence).
        split; [reflexivity|]. right. right. eexists _, _. reflexivity.
    + unfold reboot in H. assert (s' = halt s /\ o = [OFlag FLAG_IDLE; ORestart]) as (-> & ->) by (split; congruence).
      split; [reflexivity|]. right. left. reflexivity.
  - rewrite (cf_zero_footer CF) in H. unfold reboot in H.
    assert (s' = halt s /\ o = [OFlag FLAG_IDLE; ORestart]) as (-> & ->) by (split; congruence).
    split; [reflexivity|]. right. left. reflexivity.
Qed.

(* after a failed final write (buffer freed): abandoned again, or the freed buffer is used *)
Lemma verify_after_fail s s' o :
  verify_and_reboot FIXED map_ userbin heap verify s = (s', o) -> bufnull s = true ->
  s' = halt s /\ (o = [OFlag FLAG_IDLE; ORestart] \/ o = [OFault]).
Proof.
  unfold verify_and_reboot. intros H Hbn. rewrite Hbn in H.
  destruct (footer_ok _); unfold reboot in H.
  - assert (s' = halt s /\ o = [OFault]) as (-> & ->) by (split; congruence). auto.
  - assert (s' = halt s /\ o = [OFlag FLAG_IDLE; ORestart]) as (-> & ->) by (split; congruence). auto.
Qed.

(* ---------- the download phase of recv_cb ---------- *)
Inductive outcome (E : Z) (s4 : st) (o : list out) : Prop :=
| Oc_cont : halted s4 = false -> Forall (opok B E) o -> DInv B s4 -> downloaded s4 < expected s4 -> outcome E s4 o
| Oc_finish pre b sg : halted s4 = true -> o = pre ++ [OVerify b sg true; OFlag FLAG_FINISH; OUpgradeReboot] ->
    Forall (opok B E) pre -> Fin s4 ->
    b = take (E - SIG_OFF) (accepted s4) -> sg = take RSA_BYTES (drop (E - SIG_OFF) (accepted s4)) -> outcome E s4 o
| Oc_abandon pre tail : halted s4 = true -> o = pre ++ tail -> Forall (opok B E) pre -> halting_tail tail ->
    ~ In (OFlag FLAG_FINISH) tail -> ~ In OUpgradeReboot tail -> outcome E s4 o.

Lemma DInv_reset s : DInv B (reset_hlen s) <-> DInv B s.
Proof. unfold DInv, reset_hlen, accepted; cbn. tauto. Qed.

Lemma no_finish_idle : ~ In (OFlag FLAG_FINISH) [OFlag FLAG_IDLE; ORestart] /\ ~ In OUpgradeReboot [OFlag FLAG_IDLE; ORestart].
Proof.
  destruct (cf_flags CF) as (H1 & H2 & H3). split; cbn [In]; intros [H|[H|[]]]; try discriminate; congruence.
Qed.

Lemma recv_body_spec s1 content s4 o :
  recv_body FIXED map_ userbin heap verify s1 content = (s4, o) ->
  halted s1 = false -> DInv B s1 -> downloaded s1 < expected s1 -> bytes_ok content -> expected s1 < 2147483648 ->
  started s4 = started s1 /\ rhdr s4 = rhdr s1 /\ matched s4 = matched s1 /\ expected s4 = expected s1 /\ downloading s4 = downloading s1 /\
  outcome (expected s1) s4 o.
Proof.
  destruct (cf_flags CF) as (Hfi & Hfs & Hsi).
  unfold recv_body. intros H Hh HD Hlt Hbc Hlim.
  destruct (download FIXED s1 content) as [[s2 o2] ok] eqn:Ed.
  apply (download_spec B) in Ed; auto.
  destruct Ed as (K1 & K2 & K3 & K4 & K5 & ops & tail & -> & Hops & Hrest).
  destruct ok.
  - destruct Hrest as (-> & G1 & G2 & G3 & G4). rewrite app_nil_r in H.
    destruct (downloaded (reset_hlen s2) =? expected (reset_hlen s2)) eqn:Eq.
    + apply Z.eqb_eq in Eq. cbn [reset_hlen downloaded expected] in Eq. destruct (G4 Eq) as [Hb Hawo].
      destruct (verify_and_reboot FIXED map_ userbin heap verify (reset_hlen s2)) as [s5 o3] eqn:Ev.
      assert (s4 = s5 /\ o = ops ++ o3) as (-> & ->) by (split; congruence).
      apply verify_complete in Ev; try (apply DInv_reset; exact G3); cbn [reset_hlen downloaded expected buf awo bufnull]; auto; try lia.
      destruct Ev as [-> Hcases].
      cbn [halt reset_hlen started rhdr matched expected downloading].
      repeat split; auto.
      destruct Hcases as [(b & sg & -> & HF & -> & ->)|[->|(b & sg & ->)]].
      * eapply Oc_finish; try reflexivity; auto.
        -- cbn [halt reset_hlen expected accepted got]. unfold accepted. cbn. rewrite K4. reflexivity.
        -- unfold accepted. cbn. rewrite K4. reflexivity.
      * eapply (Oc_abandon _ _ _ ops); try reflexivity; auto. constructor. apply no_finish_idle. apply no_finish_idle.
      * eapply (Oc_abandon _ _ _ ops); try reflexivity; auto. constructor.
        cbn [In]; intros [X|[X|[X|[]]]]; try discriminate; congruence.
        cbn [In]; intros [X|[X|[X|[]]]]; discriminate.
    + apply Z.eqb_neq in Eq. cbn [reset_hlen downloaded expected] in Eq.
      assert (s4 = reset_hlen s2 /\ o = ops) as (-> & ->) by (split; congruence).
      cbn [reset_hlen started rhdr matched expected downloading]. repeat split; auto.
      apply Oc_cont.
      * cbn [reset_hlen halted]. congruence.
      * exact Hops.
      * apply DInv_reset; auto.
      * cbn [reset_hlen downloaded expected]. destruct G3 as (D1 & _). lia.
  - destruct Hrest as (-> & G1 & G2).
    destruct (downloaded (reset_hlen s2) =? expected (reset_hlen s2)) eqn:Eq.
    + destruct (verify_and_reboot FIXED map_ userbin heap verify (reset_hlen s2)) as [s5 o3] eqn:Ev.
      assert (s4 = s5 /\ o = (ops ++ FAILTAIL) ++ o3) as (-> & ->) by (split; congruence).
      apply verify_after_fail in Ev; [|cbn; exact G2]. destruct Ev as [-> Hc].
      cbn [halt reset_hlen started rhdr matched expected downloading]. repeat split; auto.
      destruct Hc as [-> | ->].
      * eapply (Oc_abandon _ _ _ ops (FAILTAIL ++ [OFlag FLAG_IDLE; ORestart])); auto.
        rewrite <- app_assoc; reflexivity. apply HT_fail_idle.
        cbn [In app]; intros X; repeat (destruct X as [X|X]; try discriminate; try congruence).
        cbn [In app]; intros X; repeat (destruct X as [X|X]; try discriminate; try congruence).
      * eapply (Oc_abandon _ _ _ ops (FAILTAIL ++ [OFault])); auto.
        rewrite <- app_assoc; reflexivity. apply HT_fail_fault.
        cbn [In app]; intros X; repeat (destruct X as [X|X]; try discriminate; try congruence).
        cbn [In app]; intros X; repeat (destruct X as [X|X]; try discriminate; try congruence).
    + assert (s4 = reset_hlen s2 /\ o = ops ++ FAILTAIL) as (-> & ->) by (split; congruence).
      cbn [reset_hlen started rhdr matched expected downloading]. repeat split; auto.
      eapply (Oc_abandon _ _ _ ops FAILTAIL); auto. apply HT_fail.
      cbn [In]; intros X; repeat (destruct X as [X|X]; try discriminate; try congruence).
      cbn [In]; intros X; repeat (destruct X as [X|X]; try discriminate; try congruence).
Qed.

(* ---------- header ---------- *)
Lemma parse_header_true hdr e0 e :
  parse_header FIXED map_ heap hdr e0 = (e, true) -> exists l, size_limit map_ = Some l /\ 0 < e <= l.
Proof.
  unfold parse_header.
  destruct (find_sub HDR_STATUS _ 0); [|intros; discriminate].
  destruct (find_sub HDR_CTYPE _ 0); [|intros; discriminate].
  destruct (find_sub HDR_CLEN _ 0); [|intros; discriminate].
  destruct (clen_loop FIXED _ e0) as [e' eol]. intros H.
  assert (e' = e) by congruence. subst e'.
  assert (eol && (0 <? e) && match size_limit map_ with Some l => e <=? l | None => false end = true) as Hc by congruence.
  apply andb_prop in Hc. destruct Hc as [Hc H3]. apply andb_prop in Hc. destruct Hc as [H1 H2].
  destruct (size_limit map_) as [l|]; [|discriminate]. exists l. apply Z.ltb_lt in H2. apply Z.leb_le in H3. auto.
Qed.

Lemma halting_tail_noflash t : halting_tail t -> forall x, In x t -> ~ isflash x.
Proof. destruct 1; cbn [In app]; intros x H; repeat (destruct H as [H|H]; [subst x; cbn; tauto|]); destruct H. Qed.
Lemma opok_not_flag B' E f : ~ opok B' E (OFlag f). Proof. cbn; tauto. Qed.

(* ---------- the invariant of reachable states ---------- *)
Definition Inv (s : st) : Prop :=
  (downloading s = true -> started s = true /\ matched s = 1 /\
     exists l, size_limit map_ = Some l /\ 0 < expected s <= l /\
               parse_header FIXED map_ heap (rev (rhdr s)) 0 = (expected s, true)) /\
  (started s = true -> exists b, slot_base map_ userbin = Some b) /\
  (started s = true -> halted s = false -> downloading s = false ->
     awo s = B /\ buf s = [] /\ got s = [] /\ downloaded s = 0 /\ (matched s = 0 -> expected s = 0)) /\
  (started s = true -> halted s = false -> downloading s = true -> DInv B s /\ downloaded s < expected s).


Definition step_post (s s1 : st) (o : list out) : Prop :=
  Inv s1 /\
  (downloading s = true -> downloading s1 = true /\ expected s1 = expected s) /\
  (forall x, In x o -> isflash x -> downloading s1 = true /\ opok B (expected s1) x) /\
  ((halted s1 = false /\ Forall benign o) \/
   (halted s1 = true /\ exists pre tail, o = pre ++ tail /\ Forall benign pre /\ halting_tail tail)) /\
  (In (OFlag FLAG_FINISH) o ->
     Fin s1 /\ In (OVerify (take (expected s1 - SIG_OFF) (accepted s1))
                           (take RSA_BYTES (drop (expected s1 - SIG_OFF) (accepted s1))) true) o).

Lemma Inv_halt s : Inv s -> Inv (halt s).
Proof.
  intros (I1 & I2 & I3 & I4). unfold Inv. cbn [halt downloading started matched expected rhdr halted].
  repeat split; auto; intros; try discriminate; try (apply I1; auto).
Qed.

Lemma limit_lt l : size_limit map_ = Some l -> l < 2147483648.
Proof. intros H. apply size_limit_range in H. pose proof (cf_maxlim CF). lia. Qed.

(* outcome of the download phase, seen from the state before the segment *)
Lemma outcome_post s s1 s4 hd o :
  outcome (expected s1) s4 o ->
  Inv s ->
  (downloading s = true -> downloading s1 = true /\ expected s1 = expected s) ->
  started s4 = true -> downloading s4 = true -> expected s4 = expected s1 ->
  (matched s4 = 1 /\ exists l, size_limit map_ = Some l /\ 0 < expected s4 <= l /\
               parse_header FIXED map_ heap (rev (rhdr s4)) 0 = (expected s4, true)) ->
  (exists b, slot_base map_ userbin = Some b) ->
  Forall benign hd -> (forall x, In x hd -> ~ isflash x /\ x <> OFlag FLAG_FINISH) ->
  step_post s s4 (hd ++ o).
Proof.
  intros Hoc HI Hdl Hst Hd4 He4 HI1 HI2 Hhd Hhd2.
  assert ((halted s4 = true \/ (DInv B s4 /\ downloaded s4 < expected s4)) -> Inv s4) as HInv4.
  { intros Hc. unfold Inv. split; [intros _; split; auto|]. split; [intros _; auto|].
    split; [intros _ _ X; rewrite Hd4 in X; discriminate|].
    intros _ Hh' _. destruct Hc as [Hc|Hc]; [congruence|auto]. }
  unfold step_post.
  assert (forall x, In x (hd ++ o) -> isflash x -> In x o) as Hfl.
  { intros x Hx Hf. apply in_app_or in Hx. destruct Hx as [Hx|Hx]; [exfalso; destruct (Hhd2 x Hx) as [Hn _]; exact (Hn Hf)|auto]. }
  destruct Hoc as [Hh Hops HD Hlt | pre b sg Hh -> Hops HF Hb Hsg | pre tail Hh -> Hops Htail Hnf Hnu].
  - split; [apply HInv4; right; auto|]. split; [intros X; destruct (Hdl X); split; congruence|].
    split. { intros x Hx Hf. split; [auto|]. rewrite He4. rewrite Forall_forall in Hops. apply Hops. auto. }
    split. { left. split; [auto|]. apply Forall_app; split; [auto|]. eapply Forall_impl; [|exact Hops]. apply opok_benign. }
    intros X. exfalso. apply in_app_or in X. destruct X as [X|X]; [destruct (Hhd2 _ X) as [_ Hn]; apply Hn; reflexivity|].
    rewrite Forall_forall in Hops. apply (opok_not_flag _ _ _ (Hops _ X)).
  - split; [apply HInv4; left; auto|]. split; [intros X; destruct (Hdl X); split; congruence|].
    split. { intros x Hx Hf. split; [auto|]. rewrite He4. apply Hfl in Hx; auto. apply in_app_or in Hx. destruct Hx as [Hx|Hx].
             - rewrite Forall_forall in Hops. auto.
             - exfalso. revert Hf. apply (halting_tail_noflash _ (HT_finish b sg)); auto. }
    split. { right. split; [auto|]. exists (hd ++ pre), [OVerify b sg true; OFlag FLAG_FINISH; OUpgradeReboot].
             split; [rewrite app_assoc; reflexivity|]. split; [|constructor].
             apply Forall_app; split; [auto|]. eapply Forall_impl; [|exact Hops]. apply opok_benign. }
    intros _. split; [auto|]. rewrite He4, <- Hb, <- Hsg. apply in_or_app. right. apply in_or_app. right. left. reflexivity.
  - split; [apply HInv4; left; auto|]. split; [intros X; destruct (Hdl X); split; congruence|].
    split. { intros x Hx Hf. split; [auto|]. rewrite He4. apply Hfl in Hx; auto. apply in_app_or in Hx. destruct Hx as [Hx|Hx].
             - rewrite Forall_forall in Hops. auto.
             - exfalso. revert Hf. apply (halting_tail_noflash _ Htail); auto. }
    split. { right. split; [auto|]. exists (hd ++ pre), tail.
             split; [rewrite app_assoc; reflexivity|]. split; [|auto].
             apply Forall_app; split; [auto|]. eapply Forall_impl; [|exact Hops]. apply opok_benign. }
    intros X. exfalso. apply in_app_or in X. destruct X as [X|X]; [destruct (Hhd2 _ X) as [_ Hn]; apply Hn; reflexivity|].
    apply in_app_or in X. destruct X as [X|X]; [|auto].
    rewrite Forall_forall in Hops. apply (opok_not_flag _ _ _ (Hops _ X)).
Qed.

Lemma step_post_nil s : Inv s -> halted s = false -> step_post s s [].
Proof.
  intros HI Hh. unfold step_post. split; [auto|]. split; [auto|]. split; [intros x []|].
  split; [left; split; [auto|constructor]|intros []].
Qed.

Lemma fread_zero f a : fread f a 0 = []. Proof. reflexivity. Qed.

Lemma step_spec s e s1 o :
  step FIXED map_ userbin heap verify s e = (s1, o) -> Inv s -> halted s = false -> ev_ok e -> step_post s s1 o.
Proof.
  pose proof (cf_sec CF) as Hsec. destruct (cf_flags CF) as (Hfi & Hfs & Hsi).
  intros H HI Hh Hev. pose proof HI as (I1 & I2 & I3 & I4).
  destruct e as [|seg| |code].
  4: change (step FIXED map_ userbin heap verify s (Err code)) with (step FIXED map_ userbin heap verify s Disc) in H.
  all: unfold step in H; cbn [fx_done FIXED andb] in H; rewrite Hh in H.
  - (* Start *)
    destruct (started s) eqn:Est.
    + assert (s1 = s /\ o = []) as (-> & ->) by (split; congruence). apply step_post_nil; auto.
    + unfold start in H. destruct (slot_base map_ userbin) as [b|] eqn:Esl.
      * assert (s1 = mkst true false (fl s) (fails s) b [] 0 0 0 0 false [] false [] /\ o = [OBase b]) as (-> & ->) by (split; congruence).
        assert (B = b) as HB by (unfold base; rewrite Esl; reflexivity).
        unfold step_post. split.
        { unfold Inv. cbn [downloading started halted awo buf got downloaded matched expected].
          split; [intros; discriminate|]. split; [intros; eauto|]. split; [intros; repeat split; auto|intros; discriminate]. }
        split. { intros X. destruct (I1 X) as (X1 & _). congruence. }
        split. { intros x [<-|[]] []. }
        split. { left. split; [reflexivity|]. constructor; [exact I|constructor]. }
        intros [X|[]]; discriminate.
      * assert (s1 = s /\ o = [ONoUpdate]) as (-> & ->) by (split; congruence).
        unfold step_post. split; [auto|]. split; [auto|].
        split. { intros x [<-|[]] []. }
        split. { left. split; [auto|]. constructor; [exact I|constructor]. }
        intros [X|[]]; discriminate.
  - (* Seg *)
    cbn [ev_ok] in Hev.
    destruct (started s) eqn:Est; [|assert (s1 = s /\ o = []) as (-> & ->) by (split; congruence); apply step_post_nil; auto].
    unfold recv in H.
    destruct ((len seg =? 0) || (65535 <? len seg)); [assert (s1 = s /\ o = []) as (-> & ->) by (split; congruence); apply step_post_nil; auto|].
    cbn [fx_offset FIXED] in H.
    destruct (I2 eq_refl) as [b Hslot].
    assert (B = b) as HB by (unfold base; rewrite Hslot; reflexivity).
    destruct (slot_base_aligned _ _ _ Hslot) as [Hbal HbS].
    unfold recv_header in H.
    destruct (matched s =? 0) eqn:Em.
    + apply Z.eqb_eq in Em.
      assert (downloading s = false) as Hnd.
      { destruct (downloading s) eqn:X; [|reflexivity]. destruct (I1 eq_refl) as (_ & X2 & _). lia. }
      destruct (I3 eq_refl Hh Hnd) as (J1 & J2 & J3 & J4 & J5). specialize (J5 Em).
      destruct (scan (rhdr s) seg 0) as [[rh m] off].
      destruct (m =? 1) eqn:Em1.
      * rewrite J5 in H.
        destruct (parse_header FIXED map_ heap (rev rh) 0) as [e dl] eqn:Ep. destruct dl.
        -- (* download starts *)
           cbn [downloading] in H.
           set (s0 := mkst (started s) (halted s) (fl s) (fails s) (awo s) rh 1 (len rh) e 0 true (buf s) (bufnull s) (got s)) in *.
           destruct (recv_body FIXED map_ userbin heap verify s0 (drop off seg)) as [s4 ob] eqn:Eb.
           assert (s1 = s4 /\ o = [OFlag FLAG_START] ++ ob) as (-> & ->) by (split; congruence).
           destruct (parse_header_true _ _ _ Ep) as (l & Hl & Hel).
           pose proof (limit_lt _ Hl) as Hl2.
           apply recv_body_spec in Eb; unfold s0; cbn [halted downloaded expected]; auto; try lia.
           2:{ unfold DInv, accepted. cbn [downloaded expected awo buf fl got]. rewrite J1, J2, J3. rewrite Z.sub_diag.
               change (len (@nil Z)) with 0. cbn [rev concat app]. rewrite fread_zero.
               repeat split; auto; try lia. constructor. intros _. rewrite HB. exact Hbal. }
           2:{ apply bytes_ok_drop; auto. }
           destruct Eb as (K1 & K2 & K3 & K4 & K5 & Hoc).
           unfold s0 in K1, K2, K3, K4, K5; cbn [started rhdr matched expected downloading] in K1, K2, K3, K4, K5.
           apply (outcome_post s s0); auto; try congruence.
           ++ split; [congruence|]. exists l. rewrite K4, K2. auto.
           ++ constructor; [reflexivity|constructor].
           ++ intros x [<-|[]]. split; [cbn; tauto|]. intros X. apply Hfs. congruence.
        -- cbn [downloading] in H.
           match type of H with (?a, _) = _ => assert (s1 = a /\ o = []) as (-> & ->) by (split; congruence) end.
           unfold step_post. split.
           { unfold Inv. cbn [downloading started halted awo buf got downloaded matched expected].
             split; [intros; discriminate|]. split; [auto|]. split; [intros; repeat split; auto; intros; lia|intros; discriminate]. }
           split; [intros; congruence|]. split; [intros x []|]. split; [left; split; [auto|constructor]|intros []].
      * cbn [downloading] in H. rewrite Hnd in H.
        match type of H with (?a, _) = _ => assert (s1 = a /\ o = []) as (-> & ->) by (split; congruence) end.
        unfold step_post. split.
        { unfold Inv. cbn [downloading started halted awo buf got downloaded matched expected].
          split; [intros; discriminate|]. split; [auto|]. split; [intros; repeat split; auto|intros; discriminate]. }
        split; [intros; congruence|]. split; [intros x []|]. split; [left; split; [auto|constructor]|intros []].
    + destruct (downloading s) eqn:Hd.
      * destruct (recv_body FIXED map_ userbin heap verify s (drop 0 seg)) as [s4 ob] eqn:Eb.
        assert (s1 = s4 /\ o = [] ++ ob) as (-> & ->) by (split; congruence).
        destruct (I1 eq_refl) as (_ & Hm1 & l & Hl & Hel & Hp).
        destruct (I4 eq_refl Hh eq_refl) as [HD Hlt].
        pose proof (limit_lt _ Hl) as Hl2.
        apply recv_body_spec in Eb; auto; try lia.
        destruct Eb as (K1 & K2 & K3 & K4 & K5 & Hoc).
        apply (outcome_post s s); auto; try congruence.
        split; [congruence|]. exists l. rewrite K4, K2. auto.
      * assert (s1 = s /\ o = []) as (-> & ->) by (split; congruence). apply step_post_nil; auto.
  - (* Disc *)
    destruct (started s) eqn:Est; [|assert (s1 = s /\ o = []) as (-> & ->) by (split; congruence); apply step_post_nil; auto].
    unfold disconnect in H. cbn [fx_disc FIXED andb] in H.
    assert (negb (downloading s) || negb (downloaded s =? expected s) = true) as Hc.
    { destruct (downloading s) eqn:Hd; [|reflexivity]. destruct (I4 eq_refl Hh eq_refl) as [_ Hlt].
      cbn [negb orb]. apply negb_true_iff. apply Z.eqb_neq. lia. }
    rewrite Hc in H. unfold reboot in H.
    assert (s1 = halt s /\ o = [OFlag FLAG_IDLE; ORestart]) as (-> & ->) by (split; congruence).
    unfold step_post. split; [apply Inv_halt; auto|]. split; [cbn [halt downloading expected]; auto|].
    split. { intros x [<-|[<-|[]]] []. }
    split. { right. split; [reflexivity|]. exists [], [OFlag FLAG_IDLE; ORestart]. split; [reflexivity|]. split; constructor. }
    intros X. exfalso. revert X. apply no_finish_idle.
  - (* Err: the same code path *)
    destruct (started s) eqn:Est; [|assert (s1 = s /\ o = []) as (-> & ->) by (split; congruence); apply step_post_nil; auto].
    unfold disconnect in H. cbn [fx_disc FIXED andb] in H.
    assert (negb (downloading s) || negb (downloaded s =? expected s) = true) as Hc.
    { destruct (downloading s) eqn:Hd; [|reflexivity]. destruct (I4 eq_refl Hh eq_refl) as [_ Hlt].
      cbn [negb orb]. apply negb_true_iff. apply Z.eqb_neq. lia. }
    rewrite Hc in H. unfold reboot in H.
    assert (s1 = halt s /\ o = [OFlag FLAG_IDLE; ORestart]) as (-> & ->) by (split; congruence).
    unfold step_post. split; [apply Inv_halt; auto|]. split; [cbn [halt downloading expected]; auto|].
    split. { intros x [<-|[<-|[]]] []. }
    split. { right. split; [reflexivity|]. exists [], [OFlag FLAG_IDLE; ORestart]. split; [reflexivity|]. split; constructor. }
    intros X. exfalso. revert X. apply no_finish_idle.
Qed.

(* ---------- runs ---------- *)
Lemma run_halted evs : forall s, halted s = true -> run_from FIXED map_ userbin heap verify s evs = (s, []).
Proof.
  induction evs as [|e t IH]; intros s Hh; cbn [run_from]; [reflexivity|].
  unfold step. cbn [fx_done FIXED andb]. rewrite Hh. rewrite IH by auto. reflexivity.
Qed.

Lemma step_post_trans s s1 s2 o1 o2 :
  step_post s s1 o1 -> halted s1 = false -> step_post s1 s2 o2 -> step_post s s2 (o1 ++ o2).
Proof.
  intros (A1 & A2 & A3 & A4 & A5) Hh (C1 & C2 & C3 & C4 & C5). unfold step_post.
  split; [auto|].
  split. { intros X. destruct (A2 X) as [X1 X2]. destruct (C2 X1) as [Y1 Y2]. split; congruence. }
  split. { intros x Hx Hf. apply in_app_or in Hx. destruct Hx as [Hx|Hx]; [|auto].
           destruct (A3 x Hx Hf) as [X1 X2]. destruct (C2 X1) as [Y1 Y2]. rewrite Y2. auto. }
  assert (Forall benign o1) as Hb1 by (destruct A4 as [[_ X]|[X _]]; [auto|congruence]).
  split. { destruct C4 as [[Y1 Y2]|[Y1 (pre & tail & -> & Y2 & Y3)]].
           - left. split; [auto|apply Forall_app; auto].
           - right. split; [auto|]. exists (o1 ++ pre), tail. split; [rewrite app_assoc; reflexivity|]. split; [apply Forall_app; auto|auto]. }
  intros X. apply in_app_or in X. destruct X as [X|X].
  - destruct (A5 X) as [(Y & _) _]. congruence.
  - destruct (C5 X) as [Y1 Y2]. split; [auto|apply in_or_app; auto].
Qed.

Lemma run_spec evs : forall s s' outs,
  run_from FIXED map_ userbin heap verify s evs = (s', outs) -> Inv s -> halted s = false -> Forall ev_ok evs ->
  step_post s s' outs.
Proof.
  induction evs as [|e t IH]; intros s s' outs H HI Hh Hev; cbn [run_from] in H.
  - assert (s' = s /\ outs = []) as (-> & ->) by (split; congruence). apply step_post_nil; auto.
  - destruct (step FIXED map_ userbin heap verify s e) as [s1 o1] eqn:Es.
    destruct (run_from FIXED map_ userbin heap verify s1 t) as [s2 o2] eqn:Er.
    assert (s' = s2 /\ outs = o1 ++ o2) as (-> & ->) by (split; congruence).
    apply step_spec in Es; auto; [|inversion Hev; auto].
    destruct (halted s1) eqn:Hh1.
    + rewrite run_halted in Er by auto. assert (s2 = s1 /\ o2 = []) as (-> & ->) by (split; congruence).
      rewrite app_nil_r. exact Es.
    + eapply step_post_trans; eauto. apply IH; auto. apply Es. inversion Hev; auto.
Qed.

Lemma Inv_init f fs : Inv (init f fs).
Proof. unfold Inv, init; cbn. repeat split; intros; discriminate. Qed.

(* ---------- Content-Length ---------- *)

Lemma clen_loop_spec : forall l e0 e,
  clen_loop FIXED l e0 = (e, true) -> 0 <= e0 ->
  exists ds c rest, l = ds ++ c :: rest /\ (c = 13 \/ c = 10) /\ Forall is_digit ds /\ e = dec ds e0.
Proof.
  pose proof (cf_maxlim CF) as [Hm0 Hm].
  induction l as [|c t IH]; intros e0 e H He0; cbn [clen_loop] in H; [discriminate|].
  destruct ((c =? 13) || (c =? 10)) eqn:Ecr.
  - assert (e = e0) by congruence. subst e. exists [], c, t. split; [reflexivity|]. split; [|split; [constructor|reflexivity]].
    apply orb_prop in Ecr. destruct Ecr as [X|X]; apply Z.eqb_eq in X; auto.
  - destruct ((c <? 48) || (57 <? c)) eqn:Edig; [discriminate|].
    apply orb_false_elim in Edig. destruct Edig as [D1 D2]. apply Z.ltb_ge in D1, D2.
    cbn [fx_clen FIXED andb] in H.
    destruct (max_limit <? e0) eqn:Eg; [discriminate|]. apply Z.ltb_ge in Eg.
    rewrite s32_small in H by lia.
    apply IH in H; [|lia]. destruct H as (ds & c' & rest & -> & Hc & Hds & ->).
    exists (c :: ds), c', rest. split; [reflexivity|]. split; [auto|]. split; [constructor; [unfold is_digit; lia|auto]|].
    cbn [dec]. f_equal. lia.
Qed.

Lemma parse_header_spec hdr e :
  parse_header FIXED map_ heap hdr 0 = (e, true) ->
  (exists p, find_sub HDR_STATUS (cstr heap hdr) 0 = Some p) /\
  (exists p, find_sub HDR_CTYPE (cstr heap hdr) 0 = Some p) /\
  exists pos ds c rest, find_sub HDR_CLEN (cstr heap hdr) 0 = Some pos /\
     drop (pos + CLEN_SKIP) hdr = ds ++ c :: rest /\ (c = 13 \/ c = 10) /\ Forall is_digit ds /\ e = dec ds 0.
Proof.
  unfold parse_header.
  destruct (find_sub HDR_STATUS _ 0) as [p1|]; [|intros; discriminate].
  destruct (find_sub HDR_CTYPE _ 0) as [p2|]; [|intros; discriminate].
  destruct (find_sub HDR_CLEN _ 0) as [pos|]; [|intros; discriminate].
  destruct (clen_loop FIXED _ 0) as [e' eol] eqn:El. intros H.
  assert (e' = e) by congruence. subst e'.
  assert (eol = true) as -> by (destruct eol; [reflexivity|cbn [andb] in H; congruence]).
  apply clen_loop_spec in El; [|lia]. destruct El as (ds & c & rest & Hl & Hc & Hds & He).
  split; [eauto|]. split; [eauto|]. exists pos, ds, c, rest. auto.
Qed.

(* ---------- the theorems (for every flash map, running slot, heap content and signature oracle) ---------- *)
Lemma halting_tail_cases t : halting_tail t ->
  (exists b sg, t = [OVerify b sg true; OFlag FLAG_FINISH; OUpgradeReboot]) \/
  (~ In (OFlag FLAG_FINISH) t /\ ~ In OUpgradeReboot t /\ In ORestart t /\ forall f, In (OFlag f) t -> f = FLAG_IDLE).
Proof.
  destruct (cf_flags CF) as (Hfi & Hfs & Hsi).
  destruct 1; [left; eauto| | | | |]; right; cbn [In app];
    (split; [intros X; repeat (destruct X as [X|X]; try discriminate; try congruence); auto|]);
    (split; [intros X; repeat (destruct X as [X|X]; try discriminate); auto|]);
    (split; [tauto|]); intros f X; repeat (destruct X as [X|X]; try discriminate; try congruence); destruct X.
Qed.

Theorem C18_writes_contained_thm : forall f fs evs s' outs x,
  Forall ev_ok evs -> run_from FIXED map_ userbin heap verify (init f fs) evs = (s', outs) -> In x outs -> isflash x ->
  exists b l, slot_base map_ userbin = Some b /\ size_limit map_ = Some l /\ 0 < expected s' <= l /\ opok b (expected s') x.
Proof.
  intros f fs evs s' outs x Hev Hrun Hx Hf.
  apply run_spec in Hrun; auto; [|apply Inv_init].
  destruct Hrun as ((I1 & I2 & _) & _ & A3 & _).
  destruct (A3 x Hx Hf) as [Hd Hop]. destruct (I1 Hd) as (Hst & _ & l & Hl & Hel & _).
  destruct (I2 Hst) as [b Hb]. exists b, l. repeat split; auto; try lia.
  replace b with B by (unfold base; rewrite Hb; reflexivity). exact Hop.
Qed.

Theorem C18_finish_implies_authentic_thm : forall f fs evs s' outs,
  Forall ev_ok evs -> run_from FIXED map_ userbin heap verify (init f fs) evs = (s', outs) ->
  In (OFlag FLAG_FINISH) outs ->
  let img := accepted s' in let E := expected s' in
  downloaded s' = E /\ len img = E /\ SIG_OFF < E /\
  fread (fl s') B E = img /\
  footer_ok (drop (E - FOOTER_SIZE) img) = true /\
  verify (take (E - SIG_OFF) img) (take RSA_BYTES (drop (E - SIG_OFF) img)) = true /\
  In (OVerify (take (E - SIG_OFF) img) (take RSA_BYTES (drop (E - SIG_OFF) img)) true) outs.
Proof.
  intros f fs evs s' outs Hev Hrun Hfin. apply run_spec in Hrun; auto; [|apply Inv_init].
  destruct Hrun as (_ & _ & _ & _ & A5). destruct (A5 Hfin) as [(F1 & F2 & F3 & F4 & F5 & F6 & F7) Hv].
  cbv zeta. repeat split; auto.
Qed.

Theorem C18_otherwise_idle_and_restart_thm : forall f fs evs s' outs,
  Forall ev_ok evs -> run_from FIXED map_ userbin heap verify (init f fs) evs = (s', outs) ->
  (halted s' = false -> Forall benign outs) /\
  (halted s' = true -> exists pre tail, outs = pre ++ tail /\ Forall benign pre /\ halting_tail tail) /\
  (halted s' = false -> started s' = true ->
     step FIXED map_ userbin heap verify s' Disc = (halt s', [OFlag FLAG_IDLE; ORestart])) /\
  (downloading s' = true -> downloaded s' = expected s' -> halted s' = true) /\
  (In OUpgradeReboot outs -> In (OFlag FLAG_FINISH) outs) /\
  (halted s' = false -> started s' = true -> forall code,
     step FIXED map_ userbin heap verify s' (Err code) = (halt s', [OFlag FLAG_IDLE; ORestart])).
Proof.
  intros f fs evs s' outs Hev Hrun. apply run_spec in Hrun; auto; [|apply Inv_init].
  destruct Hrun as ((I1 & I2 & I3 & I4) & _ & _ & A4 & _).
  split. { intros Hh. destruct A4 as [[_ X]|[X _]]; [auto|congruence]. }
  split. { intros Hh. destruct A4 as [[X _]|[_ X]]; [congruence|auto]. }
  split.
  { intros Hh Hst. unfold step. cbn [fx_done FIXED andb]. rewrite Hh, Hst. unfold disconnect. cbn [fx_disc FIXED andb].
    assert (negb (downloading s') || negb (downloaded s' =? expected s') = true) as Hc.
    { destruct (downloading s') eqn:Hd; [|reflexivity]. destruct (I4 Hst Hh eq_refl) as [_ Hlt].
      cbn [negb orb]. apply negb_true_iff. apply Z.eqb_neq. lia. }
    rewrite Hc. reflexivity. }
  split.
  { intros Hd He. destruct (halted s') eqn:Hh; [reflexivity|]. destruct (I1 Hd) as (Hst & _).
    destruct (I4 Hst eq_refl Hd) as [_ Hlt]. lia. }
  split.
  { intros X. destruct A4 as [[_ Hb]|[_ (pre & tail & -> & Hb & Ht)]].
    - rewrite Forall_forall in Hb. destruct (Hb _ X).
    - apply in_app_or in X. destruct X as [X|X]; [rewrite Forall_forall in Hb; destruct (Hb _ X)|].
      apply in_or_app. right. destruct (halting_tail_cases _ Ht) as [(b & sg & ->)|(_ & Hn & _)]; [cbn; auto|contradiction]. }
  intros Hh Hst code.
  change (step FIXED map_ userbin heap verify s' (Err code)) with (step FIXED map_ userbin heap verify s' Disc).
  unfold step. cbn [fx_done FIXED andb]. rewrite Hh, Hst. unfold disconnect. cbn [fx_disc FIXED andb].
  assert (negb (downloading s') || negb (downloaded s' =? expected s') = true) as Hc.
  { destruct (downloading s') eqn:Hd; [|reflexivity]. destruct (I4 Hst Hh eq_refl) as [_ Hlt].
    cbn [negb orb]. apply negb_true_iff. apply Z.eqb_neq. lia. }
  rewrite Hc. reflexivity.
Qed.

Theorem C18_content_length_safe_thm : forall f fs evs s' outs,
  Forall ev_ok evs -> run_from FIXED map_ userbin heap verify (init f fs) evs = (s', outs) ->
  downloading s' = true ->
  let hdr := rev (rhdr s') in
  exists pos ds c rest l,
    find_sub HDR_CLEN (cstr heap hdr) 0 = Some pos /\
    drop (pos + CLEN_SKIP) hdr = ds ++ c :: rest /\ (c = 13 \/ c = 10) /\ Forall is_digit ds /\
    expected s' = dec ds 0 /\ size_limit map_ = Some l /\ 0 < dec ds 0 <= l.
Proof.
  intros f fs evs s' outs Hev Hrun Hd. apply run_spec in Hrun; auto; [|apply Inv_init].
  destruct Hrun as ((I1 & _) & _). destruct (I1 Hd) as (_ & _ & l & Hl & Hel & Hp).
  apply parse_header_spec in Hp. destruct Hp as (_ & _ & pos & ds & c & rest & H1 & H2 & H3 & H4 & H5).
  cbv zeta. exists pos, ds, c, rest, l. rewrite <- H5. repeat split; auto; lia.
Qed.

(* no flash operation, START flag or verification before a download has been accepted *)
Theorem C18_no_download_no_write_thm : forall f fs evs s' outs,
  Forall ev_ok evs -> run_from FIXED map_ userbin heap verify (init f fs) evs = (s', outs) ->
  downloading s' = false -> forall x, In x outs -> ~ isflash x.
Proof.
  intros f fs evs s' outs Hev Hrun Hd x Hx Hf. apply run_spec in Hrun; auto; [|apply Inv_init].
  destruct Hrun as (_ & _ & A3 & _). destruct (A3 x Hx Hf). congruence.
Qed.

(* ---------- the image is a prefix of the HTTP body, whatever the segmentation ---------- *)
Lemma DInv_len s : DInv B s -> len (accepted s) = downloaded s.
Proof.
  intros (D1 & D2 & D3 & D4 & D5 & D6 & D7). rewrite <- D7, len_app, fread_len by lia. lia.
Qed.

Lemma download_accepted s content s' o ok :
  download FIXED s content = (s', o, ok) ->
  DInv B s -> downloaded s < expected s -> bytes_ok content ->
  (ok = true \/ downloaded s' = expected s') ->
  accepted s' = accepted s ++ take (Z.max 0 (expected s - downloaded s)) content /\ len (accepted s') = downloaded s'.
Proof.
  pose proof (cf_sec CF) as Hsec. intros H HD Hlt Hbc Hc. pose proof (DInv_len _ HD) as Hla. revert H HD.
  unfold download. cbn [fx_clamp FIXED].
  set (s0 := mkst (started s) (halted s) (fl s) (fails s) (awo s) (rhdr s) (matched s) (hlen s) (expected s) (downloaded s)
                  (downloading s) (buf s) false (got s)).
  set (c := take (Z.max 0 (expected s - downloaded s)) content).
  intros H (D1 & D2 & D3 & D4 & D5 & D6 & D7).
  assert (len c <= expected s - downloaded s) as Hlc by (unfold c; rewrite len_take by lia; lia).
  destruct (dl_loop (S (length c)) s0 c) as [[s1 o1] ok1] eqn:El.
  assert (bytes_ok c) as Hbc' by (unfold c; apply bytes_ok_take; auto).
  pose proof (dl_loop_spec B (expected s) _ _ _ _ _ _ El (Nat.lt_succ_diag_r _) Hbc' D4 (D6 Hlt) D5 D3 D2 (proj1 D1) ltac:(cbn [s0 downloaded]; lia) D7) as K.
  clear El. rename K into El.
  assert (accepted s0 = accepted s) as Hacc0 by reflexivity. rewrite Hacc0 in El. clear Hacc0. unfold s0 in El.
  cbn [started rhdr matched expected downloading halted bufnull hlen downloaded] in El.
  destruct El as (K1 & K2 & K3 & K4 & K5 & ops1 & tail1 & -> & Hops1 & Hrest).
  destruct ok1.
  - destruct Hrest as (-> & M1 & M2 & M2' & M3 & M4 & M5 & M6 & M7 & M8 & M9 & M10).
    assert (len (accepted s1) = downloaded s1) as Hl1 by (rewrite M10, len_app, M8; lia).
    destruct ((0 <? len (buf s1)) && (downloaded s1 =? expected s1)) eqn:Efin.
    + destruct (flash_write s1) as [[s2 o2] ok2] eqn:Efw.
      assert (s' = s2) as -> by congruence.
      assert (got s2 = got s1 /\ downloaded s2 = downloaded s1) as [G1 G2].
      { revert Efw. unfold flash_write. destruct (attempts _ _ _ _ _) as [[[f' fs'] oo] okk]. destruct okk; intros X;
          match type of X with (?a, _, _) = _ => assert (s2 = a) as -> by congruence end; cbn; auto. }
      unfold accepted. rewrite G1, G2. fold (accepted s1). split; [exact M10|exact Hl1].
    + assert (s' = s1) as -> by congruence. split; [exact M10|exact Hl1].
  - destruct Hrest as (-> & M1 & M2 & M3).
    assert (s' = s1 /\ ok = false) as (-> & ->) by (split; congruence).
    destruct Hc as [Hc|Hc]; [discriminate|]. lia.
Qed.

Lemma recv_body_accepted s1 content s4 o :
  recv_body FIXED map_ userbin heap verify s1 content = (s4, o) ->
  DInv B s1 -> downloaded s1 < expected s1 -> bytes_ok content ->
  (halted s4 = false \/ downloaded s4 = expected s4) -> halted s1 = false ->
  accepted s4 = accepted s1 ++ take (Z.max 0 (expected s1 - downloaded s1)) content /\ len (accepted s4) = downloaded s4.
Proof.
  unfold recv_body. intros H HD Hlt Hbc Hc Hh1.
  destruct (download FIXED s1 content) as [[s2 o2] ok] eqn:Ed.
  pose proof (download_spec B _ _ _ _ _ Ed HD Hlt Hbc) as (K1 & K2 & K3 & K4 & K5 & ops & tail & _ & _ & Hrest).
  assert (accepted (reset_hlen s2) = accepted s2 /\ downloaded (reset_hlen s2) = downloaded s2 /\ expected (reset_hlen s2) = expected s2
          /\ halted (reset_hlen s2) = halted s2) as (R1 & R2 & R3 & R4) by (cbn; auto).
  assert (accepted s4 = accepted s2 /\ downloaded s4 = downloaded s2 /\ expected s4 = expected s2 /\ (halted s4 = false -> halted s2 = false)) as (A1 & A2 & A3 & A4).
  { destruct (downloaded (reset_hlen s2) =? expected (reset_hlen s2)).
    - destruct (verify_and_reboot FIXED map_ userbin heap verify (reset_hlen s2)) as [s5 o3] eqn:Ev.
      assert (s4 = s5) as -> by congruence.
      assert (s5 = halt (reset_hlen s2)) as ->.
      { revert Ev. unfold verify_and_reboot, after_verify. cbn [fx_done FIXED]. destruct (footer_ok _); [destruct (bufnull _)|]; unfold reboot; intros X; congruence. }
      cbn. repeat split; auto. intros; discriminate.
    - assert (s4 = reset_hlen s2) as -> by congruence. cbn. repeat split; auto. }
  rewrite A1, A2. apply (download_accepted _ _ _ _ _ Ed); auto.
  destruct ok; [left; reflexivity|]. destruct Hrest as (_ & G1 & _).
  destruct Hc as [Hc|Hc]; [rewrite (A4 Hc) in G1; discriminate|]. right. congruence.
Qed.

Lemma scan_spec : forall seg rh off rh' m off',
  scan rh seg off = (rh', m, off') ->
  off <= off' <= off + len seg /\ rev rh' = rev rh ++ take (off' - off) seg /\ (m = 0 -> off' = off + len seg).
Proof.
  induction seg as [|b rest IH]; intros rh off rh' m off' H; cbn [scan] in H.
  - assert (rh' = rh /\ m = 0 /\ off' = off) as (-> & -> & ->) by (repeat split; congruence).
    rewrite Z.sub_diag. change (take 0 (@nil Z)) with (@nil Z). change (len (@nil Z)) with 0. rewrite app_nil_r. repeat split; lia.
  - pose proof (len_nonneg rest). rewrite len_cons.
    destruct (MAX_HEADER - 1 <=? len rh).
    { assert (rh' = rh /\ m = -1 /\ off' = off) as (-> & -> & ->) by (repeat split; congruence).
      rewrite Z.sub_diag. change (take 0 (b :: rest)) with (@nil Z). rewrite app_nil_r. repeat split; try lia. }
    destruct (ends_header (b :: rh)).
    + assert (rh' = b :: rh /\ m = 1 /\ off' = off + 1) as (-> & -> & ->) by (repeat split; congruence).
      replace (off + 1 - off) with 1 by lia. change (take 1 (b :: rest)) with [b]. cbn [rev]. repeat split; try lia.
    + apply IH in H. destruct H as (H1 & H2 & H3). split; [lia|]. split; [|intros; rewrite H3 by auto; lia].
      rewrite H2. cbn [rev]. rewrite <- app_assoc. f_equal.
      unfold take. replace (Z.to_nat (off' - off)) with (S (Z.to_nat (off' - (off + 1)))) by lia. reflexivity.
Qed.

Lemma take_app_ge {A} n (a b : list A) : len a <= n -> take n (a ++ b) = a ++ take (n - len a) b.
Proof.
  intros. unfold take, len in *. rewrite firstn_app. rewrite firstn_all2 by lia. f_equal. f_equal. lia.
Qed.

Definition SR (s : st) (c : list Z) : Prop :=
  (halted s = false -> matched s = 0 -> rev (rhdr s) = c) /\
  (downloading s = true -> (halted s = false \/ downloaded s = expected s) ->
     exists body, c = rev (rhdr s) ++ body /\ accepted s = take (expected s) body /\ len (accepted s) = downloaded s).

Lemma seg_step_SR s b s1 o c :
  step FIXED map_ userbin heap verify s (Seg b) = (s1, o) ->
  Inv s -> started s = true -> SR s c -> bytes_ok b ->
  SR s1 (c ++ (if eff b then b else [])).
Proof.
  intros H HI Hst (S1 & S2) Hb. pose proof HI as (I1 & I2 & I3 & I4).
  unfold step in H. cbn [fx_done FIXED andb] in H. destruct (halted s) eqn:Hh.
  - (* already decided *)
    assert (s1 = s) as -> by congruence. split; [intros; congruence|].
    intros Hd [X|He]; [congruence|]. destruct (S2 Hd (or_intror He)) as (body & -> & Ha & Hl).
    exists (body ++ (if eff b then b else [])). rewrite app_assoc. split; [reflexivity|]. split; [|auto].
    rewrite Ha. symmetry. apply take_app_le.
    rewrite Ha in Hl. destruct (I1 Hd) as (_ & _ & l & _ & Hel & _).
    rewrite len_take in Hl by lia. lia.
  - rewrite Hst in H. unfold recv in H. unfold eff.
    destruct ((len b =? 0) || (65535 <? len b)).
    { assert (s1 = s) as -> by congruence. cbn [negb]. rewrite app_nil_r. split; auto. }
    cbn [negb fx_offset FIXED] in H |- *.
    destruct (I2 Hst) as [bb Hslot].
    assert (B = bb) as HB by (unfold base; rewrite Hslot; reflexivity).
    destruct (slot_base_aligned _ _ _ Hslot) as [Hbal HbS]. pose proof (cf_sec CF) as Hsec.
    unfold recv_header in H.
    destruct (matched s =? 0) eqn:Em.
    + apply Z.eqb_eq in Em.
      assert (downloading s = false) as Hnd.
      { destruct (downloading s) eqn:X; [|reflexivity]. destruct (I1 eq_refl) as (_ & X2 & _). lia. }
      destruct (I3 Hst eq_refl Hnd) as (J1 & J2 & J3 & J4 & J5). specialize (J5 Em).
      specialize (S1 eq_refl Em).
      destruct (scan (rhdr s) b 0) as [[rh m] off] eqn:Esc.
      apply scan_spec in Esc. destruct Esc as (Q1 & Q2 & Q3). rewrite Z.sub_0_r in Q2. rewrite S1 in Q2.
      destruct (m =? 1) eqn:Em1.
      * rewrite J5 in H.
        destruct (parse_header FIXED map_ heap (rev rh) 0) as [e dl] eqn:Ep. destruct dl.
        -- cbn [downloading] in H.
           set (s0 := mkst (started s) (halted s) (fl s) (fails s) (awo s) rh 1 (len rh) e 0 true (buf s) (bufnull s) (got s)) in *.
           destruct (recv_body FIXED map_ userbin heap verify s0 (drop off b)) as [s4 ob] eqn:Eb.
           assert (s1 = s4) as -> by congruence.
           destruct (parse_header_true _ _ _ Ep) as (l & Hl & Hel).
           pose proof (limit_lt _ Hl) as Hl2.
           assert (DInv B s0) as HD0.
           { unfold DInv, accepted, s0. cbn [downloaded expected awo buf fl got]. rewrite J1, J2, J3. rewrite Z.sub_diag.
             change (len (@nil Z)) with 0. cbn [rev concat app]. rewrite fread_zero.
             repeat split; auto; try lia. constructor. intros _. rewrite HB. exact Hbal. }
           assert (bytes_ok (drop off b)) as Hbd by (apply bytes_ok_drop; auto).
           pose proof (recv_body_spec _ _ _ _ Eb Hh HD0 ltac:(unfold s0; cbn [downloaded expected]; lia) Hbd ltac:(unfold s0; cbn [expected]; lia))
             as (K1 & K2 & K3 & K4 & K5 & _).
           unfold s0 in K1, K2, K3, K4, K5; cbn [started rhdr matched expected downloading] in K1, K2, K3, K4, K5.
           split; [intros _ X; lia|]. intros _ Hc.
           pose proof (recv_body_accepted _ _ _ _ Eb HD0 ltac:(unfold s0; cbn [downloaded expected]; lia) Hbd Hc Hh) as [A1 A2].
           exists (drop off b). rewrite K2, K4. split.
           ++ rewrite Q2, <- app_assoc, take_drop. reflexivity.
           ++ split; [|exact A2]. rewrite A1. unfold accepted at 1, s0 at 1. cbn [got]. rewrite J3. cbn [rev concat app].
              unfold s0. cbn [expected downloaded]. f_equal. lia.
        -- cbn [downloading] in H.
           match type of H with (?a, _) = _ => assert (s1 = a) as -> by congruence end.
           unfold SR. cbn [halted matched downloading]. split; [intros _ X; lia|intros; discriminate].
      * cbn [downloading] in H. rewrite Hnd in H.
        match type of H with (?a, _) = _ => assert (s1 = a) as -> by congruence end.
        unfold SR. cbn [halted matched downloading rhdr]. split; [|intros; discriminate].
        intros _ X. rewrite Q2, (Q3 X). rewrite Z.add_0_l. rewrite take_all by lia. reflexivity.
    + apply Z.eqb_neq in Em. destruct (downloading s) eqn:Hd.
      * destruct (recv_body FIXED map_ userbin heap verify s (drop 0 b)) as [s4 ob] eqn:Eb.
        assert (s1 = s4) as -> by congruence. rewrite drop_0 in Eb.
        destruct (I1 eq_refl) as (_ & Hm1 & l & Hl & Hel & Hp).
        destruct (I4 Hst eq_refl eq_refl) as [HD Hlt].
        pose proof (limit_lt _ Hl) as Hl2.
        pose proof (recv_body_spec _ _ _ _ Eb Hh HD Hlt Hb ltac:(lia)) as (K1 & K2 & K3 & K4 & K5 & _).
        split; [intros _ X; lia|]. intros _ Hc.
        pose proof (recv_body_accepted _ _ _ _ Eb HD Hlt Hb Hc Hh) as [A1 A2].
        destruct (S2 eq_refl (or_introl eq_refl)) as (body & -> & Ha & Hla).
        exists (body ++ b). rewrite K2, K4, <- app_assoc. split; [reflexivity|]. split; [|exact A2].
        rewrite A1, Ha.
        assert (len body = downloaded s) as Hlb.
        { rewrite Ha in Hla. rewrite len_take in Hla by lia. lia. }
        rewrite (take_all (expected s) body) by lia.
        rewrite take_app_ge by lia. f_equal. f_equal. lia.
      * assert (s1 = s) as -> by congruence. split; [intros _ X; lia|intros; congruence].
Qed.

Lemma flash_write_started s s' o ok : flash_write s = (s', o, ok) -> started s' = started s.
Proof.
  unfold flash_write. destruct (attempts _ _ _ _ _) as [[[f' fs'] oo] okk]. destruct okk; intros X;
    match type of X with (?a, _, _) = _ => assert (s' = a) as -> by congruence end; reflexivity.
Qed.
Lemma dl_loop_started : forall n s l s' o ok, dl_loop n s l = (s', o, ok) -> started s' = started s.
Proof.
  induction n as [|n IHn]; intros s l s' o ok; cbn [dl_loop].
  - intros X; congruence.
  - destruct l as [|z l]; [intros X; congruence|].
    destruct (len (buf (push s (take (Z.min (len (z :: l)) (SEC_SIZE - len (buf s))) (z :: l)))) =? SEC_SIZE).
    + destruct (flash_write _) as [[sw ow] okw] eqn:Ew. apply flash_write_started in Ew. cbn [push started] in Ew.
      destruct okw; [|intros X; congruence].
      destruct (dl_loop n _ _) as [[s3 o3] ok3] eqn:E3. apply IHn in E3. cbn [add_downloaded started] in E3. intros X; congruence.
    + intros X. apply IHn in X. cbn [add_downloaded push started] in X. exact X.
Qed.
Lemma download_started fx s l s' o ok : download fx s l = (s', o, ok) -> started s' = started s.
Proof.
  unfold download. destruct (dl_loop _ _ _) as [[sl ol] okl] eqn:El. apply dl_loop_started in El. cbn [started] in El.
  destruct okl; [|intros X; congruence].
  destruct (_ && _); [|intros X; congruence].
  destruct (flash_write sl) as [[sw ow] okw] eqn:Ew. apply flash_write_started in Ew. intros X; congruence.
Qed.
Lemma verify_started s s' o : verify_and_reboot FIXED map_ userbin heap verify s = (s', o) -> started s' = started s.
Proof.
  unfold verify_and_reboot, after_verify. cbn [fx_done FIXED]. destruct (footer_ok _); [destruct (bufnull _)|]; unfold reboot.
  - intros X. assert (s' = halt s) as -> by congruence. reflexivity.
  - destruct (verify _ _); intros X; assert (s' = halt s) as -> by congruence; reflexivity.
  - intros X. assert (s' = halt s) as -> by congruence. reflexivity.
Qed.
Lemma recv_started s b s' o : recv FIXED map_ userbin heap verify s b = (s', o) -> started s' = started s.
Proof.
  unfold recv. destruct ((len b =? 0) || (65535 <? len b)); [intros X; congruence|].
  destruct (recv_header FIXED map_ heap s b) as [[sh oh] off] eqn:Eh.
  assert (started sh = started s) as Hsh.
  { revert Eh. unfold recv_header. destruct (matched s =? 0); [|intros X; congruence].
    destruct (scan _ _ _) as [[rh m] o']. destruct (m =? 1); [destruct (parse_header _ _ _ _ _) as [e dl]|]; intros X;
      match type of X with (?a, _, _) = _ => assert (sh = a) as -> by congruence end; reflexivity. }
  destruct (downloading sh); [|intros X; congruence].
  destruct (recv_body _ _ _ _ _ _) as [s4 o4] eqn:Eb. intros X. assert (s' = s4) as -> by congruence.
  revert Eb. unfold recv_body. destruct (download FIXED sh _) as [[sd od] okd] eqn:Ed. apply download_started in Ed.
  destruct (downloaded (reset_hlen sd) =? expected (reset_hlen sd)).
  - destruct (verify_and_reboot _ _ _ _) as [s5 o5] eqn:Ev. apply verify_started in Ev. cbn [reset_hlen started] in Ev.
    intros Y. assert (s4 = s5) as -> by congruence. congruence.
  - intros Y. assert (s4 = reset_hlen sd) as -> by congruence. cbn [reset_hlen started]. congruence.
Qed.

Lemma segs_run_SR : forall segs s c s' outs,
  run_from FIXED map_ userbin heap verify s (map Seg segs) = (s', outs) ->
  Inv s -> started s = true -> SR s c -> Forall bytes_ok segs ->
  SR s' (c ++ stream_of segs).
Proof.
  induction segs as [|b t IH]; intros s c s' outs H HI Hst HS Hb; cbn [map run_from] in H.
  - assert (s' = s) as -> by congruence. unfold stream_of. cbn. rewrite app_nil_r. auto.
  - destruct (step FIXED map_ userbin heap verify s (Seg b)) as [s1 o1] eqn:Es.
    destruct (run_from FIXED map_ userbin heap verify s1 (map Seg t)) as [s2 o2] eqn:Er.
    assert (s' = s2) as -> by congruence.
    inversion Hb as [|? ? Hb1 Hb2]; subst.
    pose proof (seg_step_SR _ _ _ _ _ Es HI Hst HS Hb1) as HS1.
    assert (Inv s1 /\ started s1 = true) as [HI1 Hst1].
    { destruct (halted s) eqn:Hh.
      - unfold step in Es. cbn [fx_done FIXED andb] in Es. rewrite Hh in Es. assert (s1 = s) as -> by congruence. auto.
      - pose proof (step_spec _ _ _ _ Es HI Hh Hb1) as (XI & _). split; [auto|].
        unfold step in Es. cbn [fx_done FIXED andb] in Es. rewrite Hh, Hst in Es. apply recv_started in Es. congruence. }
    specialize (IH _ _ _ _ Er HI1 Hst1 HS1 Hb2).
    unfold stream_of in *. cbn [map concat]. rewrite app_assoc. exact IH.
Qed.

Lemma run_segs_not_started : forall segs s, started s = false ->
  run_from FIXED map_ userbin heap verify s (map Seg segs) = (s, []).
Proof.
  induction segs as [|b t IH]; intros s Hs; cbn [map run_from]; [reflexivity|].
  unfold step. cbn [fx_done FIXED andb]. destruct (halted s); rewrite ?Hs; rewrite IH by auto; reflexivity.
Qed.

Theorem C18_image_is_stream_prefix_thm : forall f fs segs s' outs,
  Forall bytes_ok segs ->
  run_from FIXED map_ userbin heap verify (init f fs) (Start :: map Seg segs) = (s', outs) ->
  downloading s' = true -> (halted s' = false \/ downloaded s' = expected s') ->
  exists body, stream_of segs = rev (rhdr s') ++ body /\ accepted s' = take (expected s') body.
Proof.
  intros f fs segs s' outs Hb H Hd Hc. cbn [run_from] in H.
  destruct (step FIXED map_ userbin heap verify (init f fs) Start) as [s0 o0] eqn:Es.
  destruct (run_from FIXED map_ userbin heap verify s0 (map Seg segs)) as [s2 o2] eqn:Er.
  assert (s' = s2) as -> by congruence.
  pose proof (step_spec _ _ _ _ Es (Inv_init f fs) eq_refl I) as (HI0 & _).
  unfold step in Es. cbn [fx_done FIXED andb init halted started] in Es. unfold start in Es.
  destruct (slot_base map_ userbin) as [b|] eqn:Esl.
  - assert (s0 = mkst true false f fs b [] 0 0 0 0 false [] false []) as -> by (cbn [init fl fails] in Es; congruence).
    assert (SR (mkst true false f fs b [] 0 0 0 0 false [] false []) []) as HS0.
    { unfold SR. cbn. split; [reflexivity|intros; discriminate]. }
    pose proof (segs_run_SR _ _ _ _ _ Er HI0 eq_refl HS0 Hb) as (_ & S2).
    destruct (S2 Hd Hc) as (body & E1 & E2 & _). exists body. split; [exact E1|exact E2].
  - assert (s0 = init f fs) as -> by congruence.
    rewrite run_segs_not_started in Er by reflexivity. assert (s2 = init f fs) as -> by congruence.
    cbn in Hd. discriminate.
Qed.

End Fixed.

Lemma footer_ok_magic ft : footer_ok ft = true ->
  take (len FOOTER_MAGIC) ft = FOOTER_MAGIC /\ u32 (nthz ft 6 * 256 - nthz ft 7) = RSA_BYTES.
Proof.
  unfold footer_ok. intros H. apply andb_prop in H. destruct H as [H1 H2].
  apply list_eqb_true in H1. apply Z.eqb_eq in H2. auto.
Qed.

(* ---------- the slot written is the one the running firmware does not occupy ---------- *)
Theorem C18_base_is_inactive_slot_thm : forall m u b,
  slot_base m u = Some b ->
  2 <= m <= 6 /\
  b = (if u =? 0 then sdk_user2 m else sdk_user1) /\       (* userbin_check() = 0: user1 runs, user2 is written *)
  exists l, size_limit m = Some l /\ sdk_user1 + l <= sdk_user2 m /\ sdk_user1 mod SEC_SIZE = 0 /\ sdk_user2 m mod SEC_SIZE = 0.
Proof.
  intros m u b. unfold slot_base, size_limit, SLOTS, LIMITS, sdk_user1, sdk_user2. cbn [lookup].
  destruct (2 =? m) eqn:E2; [apply Z.eqb_eq in E2; subst m; intros H; split; [lia|]; split; [destruct (u =? FW_BIN1) eqn:X; unfold FW_BIN1 in X; rewrite X; cbn; congruence|eexists; split; [reflexivity|vm_compute; repeat split; congruence]]|].
  destruct (3 =? m) eqn:E3; [apply Z.eqb_eq in E3; subst m; intros H; split; [lia|]; split; [destruct (u =? FW_BIN1) eqn:X; unfold FW_BIN1 in X; rewrite X; cbn; congruence|eexists; split; [reflexivity|vm_compute; repeat split; congruence]]|].
  destruct (4 =? m) eqn:E4; [apply Z.eqb_eq in E4; subst m; intros H; split; [lia|]; split; [destruct (u =? FW_BIN1) eqn:X; unfold FW_BIN1 in X; rewrite X; cbn; congruence|eexists; split; [reflexivity|vm_compute; repeat split; congruence]]|].
  destruct (5 =? m) eqn:E5; [apply Z.eqb_eq in E5; subst m; intros H; split; [lia|]; split; [destruct (u =? FW_BIN1) eqn:X; unfold FW_BIN1 in X; rewrite X; cbn; congruence|eexists; split; [reflexivity|vm_compute; repeat split; congruence]]|].
  destruct (6 =? m) eqn:E6; [apply Z.eqb_eq in E6; subst m; intros H; split; [lia|]; split; [destruct (u =? FW_BIN1) eqn:X; unfold FW_BIN1 in X; rewrite X; cbn; congruence|eexists; split; [reflexivity|vm_compute; repeat split; congruence]]|].
  discriminate.
Qed.

(* ---------- the code before the repairs: witnesses (each also replayed on the real code, corpus/C18) ---------- *)
From Coq Require Import String Ascii.
Definition bytes_of_string (s : string) : list Z := map (fun c => Z.of_nat (nat_of_ascii c)) (list_ascii_of_string s).
Definition crlf : list Z := [13; 10].
Definition w_header (clen : string) : list Z :=
  bytes_of_string "HTTP/1.1 200 OK" ++ crlf ++ bytes_of_string "Content-Type: application/octet-stream" ++ crlf ++
  bytes_of_string "Content-Length: " ++ bytes_of_string clen ++ crlf ++ crlf.
Definition w_image : list Z :=          (* 5000 bytes: body, 512-byte signature, footer *)
  repeat 1 (Z.to_nat 4472) ++ repeat 2 (Z.to_nat 512) ++ FOOTER_MAGIC ++ [2; 0] ++ zeros 8.
Definition accept_all (b sg : list Z) : bool := true.
Definition OLD_CLAMP := {| fx_clamp := false; fx_offset := true; fx_disc := true; fx_clen := true; fx_done := true |}.
Definition OLD_OFFSET := {| fx_clamp := true; fx_offset := false; fx_disc := true; fx_clen := true; fx_done := true |}.
Definition OLD_DISC := {| fx_clamp := true; fx_offset := true; fx_disc := false; fx_clen := true; fx_done := true |}.
Definition OLD_CLEN := {| fx_clamp := true; fx_offset := true; fx_disc := true; fx_clen := false; fx_done := true |}.
Definition OLD_DONE := {| fx_clamp := true; fx_offset := true; fx_disc := true; fx_clen := true; fx_done := false |}.
Definition OLD_ALL := {| fx_clamp := false; fx_offset := false; fx_disc := false; fx_clen := false; fx_done := false |}.   (* the code before all repairs *)
Definition w_run (fx : fixes) (evs : list event) := run_from fx 5 0 [] accept_all (init flash0 []) evs.
Definition has (p : out -> bool) (r : st * list out) : bool := existsb p (snd r).
Definition erase_at (a : Z) (o : out) : bool := match o with OErase a' => a' =? a | _ => false end.
Definition write_from (a : Z) (o : out) : bool := match o with OWrite a' _ => a <=? a' | _ => false end.
Definition is_restart (o : out) : bool := match o with ORestart => true | _ => false end.
Definition is_finish (o : out) : bool := match o with OFlag f => f =? FLAG_FINISH | _ => false end.

(* body longer than announced: Content-Length 5000, twelve segments of 1400 bytes (DESIGN A.3) *)
Definition w_long : list event := Start :: Seg (w_header "5000") :: repeat (Seg (repeat 7 (Z.to_nat 1400))) 12 ++ [Disc].
(* header in two segments, the second shorter than the header *)
Definition w_split : list event :=
  [Start; Seg (firstn 60 (w_header "5000")); Seg (skipn 60 (w_header "5000") ++ firstn 20 w_image); Seg (skipn 20 w_image)].
(* 3000 of 5000 bytes, then the server closes *)
Definition w_short : list event := [Start; Seg (w_header "5000" ++ firstn 3000 w_image); Disc].
(* a valid 20000-byte image, then one more segment before the requested reboot takes effect *)
Definition w_image2 : list Z := repeat 1 (Z.to_nat 19472) ++ repeat 2 (Z.to_nat 512) ++ FOOTER_MAGIC ++ [2; 0] ++ zeros 8.
Definition w_extra : list event := [Start; Seg (w_header "20000" ++ w_image2); Seg (repeat 7 (Z.to_nat 100))].
(* Content-Length 2^32 + 5000 and a valid 5000-byte image *)
Definition w_wrap : list event := [Start; Seg (w_header "4294972296" ++ w_image); Disc].

Theorem C18_old_code_refuted_thm :
  (* 1: without the clamp sectors beyond the announced 5000 bytes (base 0x101000) are erased and written, nothing stops it *)
  expected (fst (w_run OLD_CLAMP w_long)) = 5000 /\ has (erase_at (1052672 + 12288)) (w_run OLD_CLAMP w_long) = true /\
  has (write_from (1052672 + 8192)) (w_run OLD_CLAMP w_long) = true /\ has (erase_at (1052672 + 12288)) (w_run OLD_ALL w_long) = true /\
  has (write_from (1052672 + 8192)) (w_run FIXED w_long) = false /\ has is_restart (w_run FIXED w_long) = true /\
  (* 2: with the cumulative header length as body offset 65 KB from beyond the segment are flashed, far past the
        announced 5000 bytes; with the clamp alone the valid image is still replaced by bytes from beyond the segment *)
  expected (fst (w_run OLD_ALL w_split)) = 5000 /\ has (erase_at (1052672 + 61440)) (w_run OLD_ALL w_split) = true /\
  has is_finish (w_run OLD_OFFSET w_split) = false /\
  has (erase_at (1052672 + 8192)) (w_run FIXED w_split) = false /\ has is_finish (w_run FIXED w_split) = true /\
  (* 3: a disconnect during the download is ignored: no restart, not halted *)
  has is_restart (w_run OLD_DISC w_short) = false /\ halted (fst (w_run OLD_DISC w_short)) = false /\
  has is_restart (w_run FIXED w_short) = true /\
  (* 4: the announced length wraps to 5000 and the image is marked for boot *)
  expected (fst (w_run OLD_CLEN w_wrap)) = 5000 /\ has is_finish (w_run OLD_CLEN w_wrap) = true /\
  has is_finish (w_run FIXED w_wrap) = false /\ has is_restart (w_run FIXED w_wrap) = true /\
  (* 5: a segment delivered after FINISH + upgrade reboot request: the sector holding the signature is erased and 3088 bytes
        are written from base+19472 on, i.e. past the announced 20000 bytes, then the update is cancelled (restart) *)
  has is_finish (w_run OLD_DONE w_extra) = true /\ has (write_from (1052672 + 19472)) (w_run OLD_DONE w_extra) = true /\
  has is_restart (w_run OLD_DONE w_extra) = true /\
  has is_finish (w_run FIXED w_extra) = true /\ has (write_from (1052672 + 19472)) (w_run FIXED w_extra) = false /\
  has is_restart (w_run FIXED w_extra) = false.
Proof. vm_compute. repeat split; reflexivity. Qed.

(* non-vacuity: a valid image in three segments (header cut inside "Content-Length") is flashed, verified over exactly
   its body and marked for boot; with a rejecting oracle it is abandoned *)
Definition w_valid : list event :=
  [Start; Seg (firstn 70 (w_header "5000")); Seg (skipn 70 (w_header "5000") ++ firstn 2000 w_image); Seg (skipn 2000 w_image)].
Example C18_nonvacuous_thm :
  snd (w_run FIXED w_valid) =
    [OBase 1052672; OFlag FLAG_START; OErase 1052672; OWrite 1052672 (firstn 4096 w_image);
     OErase 1056768; OWrite 1056768 (skipn 4096 w_image);
     OVerify (firstn 4472 w_image) (firstn 512 (skipn 4472 w_image)) true; OFlag FLAG_FINISH; OUpgradeReboot] /\
  forallb (fun e => match e with Seg b => forallb (fun x => (0 <=? x) && (x <? 256)) b | _ => true end) w_valid = true /\
  snd (run_from FIXED 5 0 [] (fun _ _ => false) (init flash0 []) w_valid) =
    [OBase 1052672; OFlag FLAG_START; OErase 1052672; OWrite 1052672 (firstn 4096 w_image);
     OErase 1056768; OWrite 1056768 (skipn 4096 w_image);
     OVerify (firstn 4472 w_image) (firstn 512 (skipn 4472 w_image)) false; OFlag FLAG_IDLE; ORestart].
Proof. vm_compute. repeat split; reflexivity. Qed.
