(* C18 — executable model of the firmware-update path of src/user/supla_update.c:
   supla_esp_update_url_result (slot choice), supla_esp_update_recv_cb (HTTP header collection,
   Content-Length parse, size limit per flash map), supal_esp_update_download (sector buffering),
   supla_esp_update_flash_write (erase+write, MAX_FLASH_ATTEMPTS), supla_esp_update_verify_and_reboot
   (footer, SHA-256 over the body read back from flash, RSA verify), supla_esp_update_reboot,
   supla_esp_update_disconnect_cb.
   The model follows the code *with the four repairs of docs/fixes/C18_*.diff*; each old behaviour is
   kept behind a boolean of `fixes` (false = code before the repair).
   SHA-256/RSA are not modelled: `verify` is a parameter (the signature oracle).
   Definitions only (proofs are in Proofs.v). *)
From Coq Require Import List ZArith Bool.
Import ListNotations.
From V Require Import Base.U32 Base.Bytes Base.Iface Gen.UpdateConsts.
Local Open Scope Z_scope.

(* ---------- repairs ---------- *)
Record fixes := { fx_clamp : bool;    (* C18_clamp.diff: chunk clamped to expected - downloaded *)
                  fx_offset : bool;   (* C18_offset.diff: body offset inside the current segment *)
                  fx_disc : bool;     (* C18_disconnect.diff: disconnect before completion abandons *)
                  fx_clen : bool;     (* C18_content_length.diff: digit loop stops above the largest limit *)
                  fx_done : bool }.   (* C18_finished.diff: nothing is accepted once a restart was requested;
                                         false = callbacks still run after the request (system_restart() is asynchronous) *)
Definition FIXED : fixes := {| fx_clamp := true; fx_offset := true; fx_disc := true; fx_clen := true; fx_done := true |}.

(* ---------- tables generated from the source ---------- *)
Fixpoint lookup (t : list (list Z)) (k : Z) : option (list Z) :=
  match t with
  | [] => None
  | (k' :: row) :: t' => if k' =? k then Some row else lookup t' k
  | [] :: t' => lookup t' k
  end.
(* url_result: flash_addr = ubin == UPGRADE_FW_BIN1 ? A : B *)
Definition slot_base (map ubin : Z) : option Z :=
  match lookup SLOTS map with
  | Some [a; b] => Some (if ubin =? FW_BIN1 then a else b)
  | _ => None
  end.
Definition size_limit (map : Z) : option Z :=
  match lookup LIMITS map with Some [l] => Some l | _ => None end.
Definition max_limit : Z := fold_right (fun row m => match row with [_; l] => Z.max l m | _ => m end) 0 LIMITS.
Definition SIG_OFF : Z := FOOTER_SIZE + RSA_BYTES.    (* 16 + RSA_NUM_BYTES *)

(* ---------- flash: address -> byte (NOR: a write can only clear bits) ---------- *)
Definition flash := Z -> Z.
Definition erase (f : flash) (s : Z) : flash :=
  let lo := s * SEC_SIZE in let hi := lo + SEC_SIZE in
  fun x => if (lo <=? x) && (x <? hi) then 255 else f x.
Definition write (f : flash) (a : Z) (data : list Z) : flash :=
  let hi := a + len data in
  fun x => if (a <=? x) && (x <? hi) then Z.land (f x) (nthz data (x - a)) else f x.
Fixpoint zseq (a : Z) (n : nat) : list Z := match n with O => [] | S n' => a :: zseq (a + 1) n' end.
(* contiguous read of n bytes at address a *)
Definition fread (f : flash) (a n : Z) : list Z := map f (zseq a (Z.to_nat n)).
(* raw preset of bytes (test set-up only) *)
Definition poke (f : flash) (a : Z) (data : list Z) : flash :=
  let hi := a + len data in
  fun x => if (a <=? x) && (x <? hi) then nthz data (x - a) else f x.
Definition flash0 : flash := fun _ => 0.

(* ---------- outputs ---------- *)
Inductive out :=
| OBase (a : Z) | ONoUpdate
| OFlag (f : Z)
| OErase (a : Z)
| OWrite (a : Z) (data : list Z)
| OVerify (body sig : list Z) (v : bool)      (* bytes fed to SHA-256, signature buffer, verdict *)
| OUpgradeReboot | ORestart
| OFault.                                      (* access outside an object (old code paths only) *)

(* ---------- state ---------- *)
Record st := mkst {
  started : bool; halted : bool;
  fl : flash; fails : list bool;          (* results of the next erase/write operations: true = fails *)
  awo : Z;                                (* update->flash_awo *)
  rhdr : list Z;                          (* http_header_data[0..http_header_data_len), reversed *)
  matched : Z;                            (* http_header_matched: 0, 1, -1 *)
  hlen : Z;                               (* http_header_data_len as used for the body offset (old code) *)
  expected : Z; downloaded : Z;
  downloading : bool;                     (* update_step == FUPDT_STEP_DOWNLOADING *)
  buf : list Z;                           (* buff[0..buff_pos) *)
  bufnull : bool;                         (* buff was freed by supla_esp_update_reboot *)
  got : list (list Z)                     (* ghost: chunks accepted by the download, newest first *)
}.
Definition accepted (s : st) : list Z := concat (rev (got s)).

Definition init (f : flash) (fs : list bool) : st :=
  mkst false false f fs 0 [] 0 0 0 0 false [] false [].

Definition halt (s : st) : st :=
  mkst (started s) true (fl s) (fails s) (awo s) (rhdr s) (matched s) (hlen s) (expected s) (downloaded s)
       (downloading s) [] true (got s).

Section Model.
Variable fx : fixes.
Variable map_ userbin : Z.           (* system_get_flash_size_map(), system_upgrade_userbin_check() *)
Variable heap : list Z.              (* content of the freshly allocated header buffer *)
Variable verify : list Z -> list Z -> bool.   (* signature oracle: body -> signature -> valid? *)

Definition base : Z := match slot_base map_ userbin with Some b => b | None => 0 end.

(* supla_esp_update_reboot(uf_finish) *)
Definition reboot (s : st) (finish : bool) : st * list out :=
  (halt s, if finish then [OFlag FLAG_FINISH; OUpgradeReboot] else [OFlag FLAG_IDLE; ORestart]).

(* ---------- supla_esp_update_flash_write ---------- *)
Definition pop_fail (l : list bool) : bool * list bool :=
  match l with [] => (false, []) | b :: t => (b, t) end.
Fixpoint attempts (k : nat) (f : flash) (fs : list bool) (a : Z) (data : list Z)
  : flash * list bool * list out * bool :=
  match k with
  | O => (f, fs, [], false)
  | S k' =>
    let s := a / SEC_SIZE in
    let '(fe, fs1) := pop_fail fs in
    if fe then
      let '(f', fs', o, ok) := attempts k' f fs1 a data in (f', fs', OErase (s * SEC_SIZE) :: o, ok)
    else
      let f1 := erase f s in
      let '(fw, fs2) := pop_fail fs1 in
      if fw then
        let '(f', fs', o, ok) := attempts k' f1 fs2 a data in
        (f', fs', OErase (s * SEC_SIZE) :: OWrite a data :: o, ok)
      else (write f1 a data, fs2, [OErase (s * SEC_SIZE); OWrite a data], true)
  end.
Definition flash_write (s : st) : st * list out * bool :=
  let '(f', fs', o, ok) := attempts (Z.to_nat MAX_ATTEMPTS) (fl s) (fails s) (awo s) (buf s) in
  if ok then
    (mkst (started s) (halted s) f' fs' (awo s + len (buf s)) (rhdr s) (matched s) (hlen s) (expected s)
          (downloaded s) (downloading s) [] (bufnull s) (got s), o, true)
  else
    let s1 := mkst (started s) (halted s) f' fs' (awo s) (rhdr s) (matched s) (hlen s) (expected s)
                   (downloaded s) (downloading s) (buf s) (bufnull s) (got s) in
    (* system_upgrade_flag_set(IDLE); supla_esp_update_reboot(0); *)
    (halt s1, o ++ [OFlag FLAG_IDLE; OFlag FLAG_IDLE; ORestart], false).

(* ---------- supal_esp_update_download ---------- *)
Definition push (s : st) (chunk : list Z) : st :=
  mkst (started s) (halted s) (fl s) (fails s) (awo s) (rhdr s) (matched s) (hlen s) (expected s)
       (downloaded s) (downloading s) (buf s ++ chunk) (bufnull s) (chunk :: got s).
Definition add_downloaded (s : st) (n : Z) : st :=
  mkst (started s) (halted s) (fl s) (fails s) (awo s) (rhdr s) (matched s) (hlen s) (expected s)
       (downloaded s + n) (downloading s) (buf s) (bufnull s) (got s).
Fixpoint dl_loop (fuel : nat) (s : st) (content : list Z) : st * list out * bool :=
  match fuel with
  | O => (s, [], true)
  | S fuel' =>
    match content with
    | [] => (s, [], true)
    | _ =>
      let n := Z.min (len content) (SEC_SIZE - len (buf s)) in
      let s1 := push s (take n content) in
      if len (buf s1) =? SEC_SIZE then
        let '(s2, o, ok) := flash_write s1 in
        if ok then
          let '(s3, o', ok') := dl_loop fuel' (add_downloaded s2 n) (drop n content) in (s3, o ++ o', ok')
        else (s2, o, false)
      else dl_loop fuel' (add_downloaded s1 n) (drop n content)
    end
  end.
Definition download (s : st) (content : list Z) : st * list out * bool :=
  let s0 := mkst (started s) (halted s) (fl s) (fails s) (awo s) (rhdr s) (matched s) (hlen s) (expected s)
                 (downloaded s) (downloading s) (buf s) false (got s) in     (* buff allocated if NULL *)
  let content := if fx_clamp fx then take (Z.max 0 (expected s - downloaded s)) content else content in
  let '(s1, o, ok) := dl_loop (S (length content)) s0 content in
  if ok then
    if (0 <? len (buf s1)) && (downloaded s1 =? expected s1) then
      let '(s2, o', ok') := flash_write s1 in (s2, o ++ o', ok')
    else (s1, o, true)
  else (s1, o, false).

(* ---------- supla_esp_update_verify_and_reboot ---------- *)
Definition footer_ok (ft : list Z) : bool :=
  list_eqb (take (len FOOTER_MAGIC) ft) FOOTER_MAGIC &&
  (u32 (nthz ft 6 * 256 - nthz ft 7) =? RSA_BYTES).
(* the state verify_and_reboot leaves behind: flash_awo at the signature, buff_pos = size of the last hashed chunk,
   buff freed (the next malloc returns memory with the heap fill pattern) *)
Definition after_verify (s : st) (a n : Z) : st :=
  if fx_done fx then halt s
  else mkst (started s) true (fl s) (fails s) a (rhdr s) (matched s) (hlen s) (expected s) (downloaded s)
            (downloading s) (take n (heap ++ zeros SEC_SIZE)) true (got s).
Definition verify_and_reboot (s : st) : st * list out :=
  let ft := if SIG_OFF <? downloaded s then fread (fl s) (awo s - FOOTER_SIZE) FOOTER_SIZE else zeros FOOTER_SIZE in
  if footer_ok ft then
    if bufnull s then (halt s, [OFault])        (* spi_flash_read into the freed buffer *)
    else
      let bl := s32 (awo s - base - FOOTER_SIZE - RSA_BYTES) in
      let body := if 0 <? bl then fread (fl s) base bl else [] in
      let sa := base + Z.max 0 bl in
      let sg := fread (fl s) sa RSA_BYTES in
      let v := verify body sg in
      (after_verify s sa (if 0 <? bl then (bl - 1) mod SEC_SIZE + 1 else len (buf s)), OVerify body sg v :: snd (reboot s v))
  else reboot s false.

(* ---------- header collection and parse (supla_esp_update_recv_cb, first part) ---------- *)
(* one pass over the bytes of a segment while http_header_matched == 0;
   result: reversed header, matched, number of bytes of the segment consumed *)
Definition ends_header (rh : list Z) : bool :=       (* ..."\r\n\r\n", newest byte first *)
  match rh with
  | a :: b :: c :: d :: _ => (a =? 10) && (b =? 13) && (c =? 10) && (d =? 13)
  | _ => false
  end.
Fixpoint scan (rh : list Z) (seg : list Z) (off : Z) : list Z * Z * Z :=
  match seg with
  | [] => (rh, 0, off)
  | b :: rest =>
    if MAX_HEADER - 1 <=? len rh then (rh, -1, off)
    else if ends_header (b :: rh) then (b :: rh, 1, off + 1)
    else scan (b :: rh) rest (off + 1)
  end.
(* the C string seen by strstr(): header bytes, then the uninitialised rest of the buffer, NUL at [MAX-1] *)
Fixpoint until_nul (l : list Z) : list Z :=
  match l with [] => [] | c :: t => if c =? 0 then [] else c :: until_nul t end.
Definition cstr (hdr : list Z) : list Z :=
  until_nul (hdr ++ take (MAX_HEADER - 1 - len hdr) (drop (len hdr) heap)).
Fixpoint prefixb (p s : list Z) : bool :=
  match p, s with
  | [], _ => true
  | a :: p', b :: s' => (a =? b) && prefixb p' s'
  | _ :: _, [] => false
  end.
Fixpoint find_sub (p s : list Z) (i : Z) : option Z :=
  if prefixb p s then Some i else match s with [] => None | _ :: t => find_sub p t (i + 1) end.
(* the digit loop: (value, reached end of line) *)
Fixpoint clen_loop (l : list Z) (e : Z) : Z * bool :=
  match l with
  | [] => (e, false)
  | c :: t =>
    if (c =? 13) || (c =? 10) then (e, true)
    else if (c <? 48) || (57 <? c) then (e, false)
    else if fx_clen fx && (max_limit <? e) then (e, false)
    else clen_loop t (s32 (e * 10 + c - 48))
  end.
(* result: (expected_file_size, download starts) *)
Definition parse_header (hdr : list Z) (e0 : Z) : Z * bool :=
  let cs := cstr hdr in
  match find_sub HDR_STATUS cs 0, find_sub HDR_CTYPE cs 0, find_sub HDR_CLEN cs 0 with
  | Some _, Some _, Some pos =>
    let '(e, eol) := clen_loop (drop (pos + CLEN_SKIP) hdr) e0 in
    (e, eol && (0 <? e) && match size_limit map_ with Some l => e <=? l | None => false end)
  | _, _, _ => (e0, false)
  end.

Definition padding : list Z := repeat 0 (Z.to_nat 66300).   (* memory after the segment in the harness arena (old code only) *)

(* supla_esp_update_recv_cb, first part: header collection while http_header_matched == 0;
   result: state, outputs, number of bytes of the segment that belong to the header *)
Definition recv_header (s : st) (seg : list Z) : st * list out * Z :=
  if matched s =? 0 then
    let '(rh, m, off) := scan (rhdr s) seg 0 in
    if m =? 1 then
      let '(e, dl) := parse_header (rev rh) (expected s) in
      (mkst (started s) (halted s) (fl s) (fails s) (awo s) rh 1 (len rh) e (if dl then 0 else downloaded s)
            dl (buf s) (bufnull s) (got s),
       if dl then [OFlag FLAG_START] else [], off)
    else
      (mkst (started s) (halted s) (fl s) (fails s) (awo s) rh m (len rh) (expected s) (downloaded s)
            (downloading s) (buf s) (bufnull s) (got s), [], off)
  else (s, [], 0).
Definition reset_hlen (s : st) : st :=
  mkst (started s) (halted s) (fl s) (fails s) (awo s) (rhdr s) (matched s) 0 (expected s)
       (downloaded s) (downloading s) (buf s) (bufnull s) (got s).
(* second part, update_step == DOWNLOADING: download, then the completion test *)
Definition recv_body (s1 : st) (content : list Z) : st * list out :=
  let '(s2, o2, ok) := download s1 content in
  let s3 := reset_hlen s2 in
  if downloaded s3 =? expected s3 then
    let '(s4, o3) := verify_and_reboot s3 in (s4, o2 ++ o3)
  else (s3, o2).
Definition recv (s : st) (seg : list Z) : st * list out :=
  if (len seg =? 0) || (65535 <? len seg) then (s, []) else
  let '(s1, o1, off) := recv_header s seg in
  if downloading s1 then
    let content :=
      if fx_offset fx then drop off seg
      else take (u16 (len seg - hlen s1)) (drop (hlen s1) (seg ++ padding)) in
    let '(s4, o) := recv_body s1 content in (s4, o1 ++ o)
  else (s1, o1).

(* supla_esp_update_disconnect_cb / reconnect_cb *)
Definition disconnect (s : st) : st * list out :=
  if negb (downloading s) || (fx_disc fx && negb (downloaded s =? expected s)) then reboot s false
  else (s, []).

(* supla_esp_update_url_result: slot choice; the connection is then opened *)
Definition start (s : st) : st * list out :=
  match slot_base map_ userbin with
  | Some b => (mkst true false (fl s) (fails s) b [] 0 0 0 0 false [] false [], [OBase b])
  | None => (s, [ONoUpdate])
  end.

Inductive event := Start | Seg (bytes : list Z) | Disc | Err (code : Z).   (* Err: reconnect (error) callback with an espconn error code *)

Definition step (s : st) (e : event) : st * list out :=
  if fx_done fx && halted s then (s, []) else
  match e with
  | Start => if started s then (s, []) else start s
  | Seg b => if started s then recv s b else (s, [])
  | Disc => if started s then disconnect s else (s, [])
  | Err _ => if started s then disconnect s else (s, [])     (* supla_esp_update_reconnect_cb: same for every code *)
  end.
Fixpoint run_from (s : st) (evs : list event) : st * list out :=
  match evs with
  | [] => (s, [])
  | e :: t => let '(s1, o1) := step s e in let '(s2, o2) := run_from s1 t in (s2, o1 ++ o2)
  end.
End Model.

(* ---------- vocabulary of the property statements (no proofs here) ---------- *)
Definition ev_ok (e : event) : Prop := match e with Seg b => bytes_ok b | _ => True end.
Definition isflash (o : out) : Prop := match o with OErase _ | OWrite _ _ => True | _ => False end.
(* a flash operation lies inside [B, B+E): erases are whole sectors that start inside it, writes end inside it *)
Definition opok (B E : Z) (o : out) : Prop :=
  match o with
  | OErase a => B <= a /\ a mod SEC_SIZE = 0 /\ a < B + E
  | OWrite a d => B <= a /\ a + len d <= B + E
  | _ => False
  end.
(* outputs that decide nothing about the boot selection *)
Definition benign (o : out) : Prop :=
  match o with OBase _ | ONoUpdate | OErase _ | OWrite _ _ => True | OFlag f => f = FLAG_START | _ => False end.
(* the ways an update cycle ends *)
Inductive halting_tail : list out -> Prop :=
| HT_finish b sg : halting_tail [OVerify b sg true; OFlag FLAG_FINISH; OUpgradeReboot]
| HT_idle : halting_tail [OFlag FLAG_IDLE; ORestart]
| HT_verify_idle b sg : halting_tail [OVerify b sg false; OFlag FLAG_IDLE; ORestart]
| HT_fail : halting_tail [OFlag FLAG_IDLE; OFlag FLAG_IDLE; ORestart]                    (* MAX_FLASH_ATTEMPTS failures *)
| HT_fail_idle : halting_tail ([OFlag FLAG_IDLE; OFlag FLAG_IDLE; ORestart] ++ [OFlag FLAG_IDLE; ORestart])
| HT_fail_fault : halting_tail ([OFlag FLAG_IDLE; OFlag FLAG_IDLE; ORestart] ++ [OFault]).
(* segments the receive callback looks at (non-empty, length fits the 16-bit parameter) and the byte stream they form *)
Definition eff (b : list Z) : bool := negb ((len b =? 0) || (65535 <? len b)).
Definition stream_of (segs : list (list Z)) : list Z := concat (map (fun b => if eff b then b else []) segs).
Definition is_digit (c : Z) : Prop := 48 <= c <= 57.
Fixpoint dec (ds : list Z) (acc : Z) : Z := match ds with [] => acc | d :: t => dec t (acc * 10 + (d - 48)) end.
(* where the SDK keeps the two firmware images (ESP8266 non-OS SDK flash maps) *)
Definition sdk_user1 : Z := 4096.
Definition sdk_user2 (m : Z) : Z := if (2 <=? m) && (m <=? 4) then 528384 else 1052672.   (* 0x81000 / 0x101000 *)

(* ---------- wire format of the correspondence harness ---------- *)
(* checksum printed by the harness doubles: s = s*31 + b (mod 2^32) *)
Definition cks (l : list Z) : Z := fold_left (fun s b => Z.land (s * 31 + b) 4294967295) l 0.
(* signature oracle of a test case *)
Definition oracle (mode n sm sg : Z) (body sig : list Z) : bool :=
  if mode =? 1 then true
  else if mode =? 2 then (len body =? n) && (cks body =? sm) && (len sig =? RSA_BYTES) && (cks sig =? sg)
  else false.

Definition wire_of_out (o : out) : wire :=
  match o with
  | OBase a => mk 0 [a] []
  | ONoUpdate => mk 1 [] []
  | OFlag f => mk 2 [f] []
  | OErase a => mk 3 [a] []
  | OWrite a d => mk 4 [a; len d; cks d] []
  | OVerify b sg v => mk 5 [len b; cks b; len sg; cks sg; if v then 1 else 0; 1] []   (* last: built-in key and exponent *)
  | OUpgradeReboot => mk 6 [] []
  | ORestart => mk 7 [] []
  | OFault => mk 8 [] []
  end.

(* test-case configuration collected from the wire events that precede START *)
Record tcfg := { t_map : Z; t_ubin : Z; t_heap : list Z; t_fl : flash; t_fails : list bool;
                 t_oracle : list Z; t_seen_start : bool }.
Definition tcfg0 : tcfg :=
  {| t_map := 5; t_ubin := 0; t_heap := []; t_fl := flash0; t_fails := []; t_oracle := [0; 0; 0; 0]; t_seen_start := false |}.
Definition cfg_step (c : tcfg) (w : wire) : tcfg :=
  let '(k, a, b) := w in
  let pre := negb (t_seen_start c) in
  let a0 := nth 0 a 0 in
  if k =? 2 then {| t_map := t_map c; t_ubin := t_ubin c; t_heap := t_heap c; t_fl := t_fl c; t_fails := t_fails c;
                    t_oracle := a; t_seen_start := t_seen_start c |}
  else if negb pre then c
  else if k =? 0 then {| t_map := a0; t_ubin := t_ubin c; t_heap := t_heap c; t_fl := t_fl c; t_fails := t_fails c;
                         t_oracle := t_oracle c; t_seen_start := false |}
  else if k =? 1 then {| t_map := t_map c; t_ubin := a0; t_heap := t_heap c; t_fl := t_fl c; t_fails := t_fails c;
                         t_oracle := t_oracle c; t_seen_start := false |}
  else if k =? 3 then {| t_map := t_map c; t_ubin := t_ubin c; t_heap := t_heap c; t_fl := t_fl c;
                         t_fails := map (fun x => negb (x =? 0)) b; t_oracle := t_oracle c; t_seen_start := false |}
  else if k =? 4 then {| t_map := t_map c; t_ubin := t_ubin c; t_heap := b; t_fl := t_fl c; t_fails := t_fails c;
                         t_oracle := t_oracle c; t_seen_start := false |}
  else if k =? 5 then {| t_map := t_map c; t_ubin := t_ubin c; t_heap := t_heap c; t_fl := poke (t_fl c) a0 b;
                         t_fails := t_fails c; t_oracle := t_oracle c; t_seen_start := false |}
  else if k =? 6 then {| t_map := t_map c; t_ubin := t_ubin c; t_heap := t_heap c; t_fl := t_fl c; t_fails := t_fails c;
                         t_oracle := t_oracle c; t_seen_start := true |}
  else c.
(* SEGFILL len seed: filler bytes b_i = (x_i + hi_i) & 255, x_{i+1} = (5 x_i + 113) & 255, hi steps every 256 bytes *)
Fixpoint fill (n : nat) (x lo hi : Z) : list Z :=
  match n with
  | O => []
  | S n' => Z.land (x + hi) 255 ::
            (if lo =? 255 then fill n' (Z.land (x * 5 + 113) 255) 0 (Z.land (hi + 1) 255)
             else fill n' (Z.land (x * 5 + 113) 255) (lo + 1) hi)
  end.
Definition segfill (l seed : Z) : list Z :=
  fill (Z.to_nat (Z.min l 65535)) (Z.land seed 255) 0 (Z.land (Z.shiftr seed 8) 255).
Definition evs_of_wire (ws : list wire) : list event :=
  flat_map (fun w : wire => let '(k, a, b) := w in
              if k =? 6 then [Start] else if k =? 7 then [Seg b] else if k =? 8 then [Disc]
              else if k =? 12 then [Err (nth 0 a 0)]
              else if k =? 10 then [Seg (segfill (nth 0 a 0) (nth 1 a 0))] else []) ws.
Definition run_wire (fx : fixes) (ws : list wire) : list wire :=
  let c := fold_left cfg_step ws tcfg0 in
  let orc := t_oracle c in
  let vf := oracle (nth 0 orc 0) (nth 1 orc 0) (nth 2 orc 0) (nth 3 orc 0) in
  map wire_of_out (snd (run_from fx (t_map c) (t_ubin c) (t_heap c) vf (init (t_fl c) (t_fails c)) (evs_of_wire ws))).
Definition main_wire (ws : list wire) : list wire := run_wire FIXED ws.
