(* C04 — Each connection starts with one registration and stays quiet until accepted.
   Property theorems only: each is closed by `exact` of a lemma proved in C04/Proofs.v.

   Reading of the statement used here (also in MANIFEST / report):
   * "connection" = one SRPC instance: created by the connect callback, freed by supla_esp_devconn__stop; [sid] is the
     number of the TCP connection it was created for.  [hist p] is the sequence of calls srpc_async_call accepted on
     that instance (newest first), i.e. the frames handed to the wire of that connection, in order (C02: the wire carries
     the accepted calls intact and in order).
   * device-originated traffic = every call that is neither a registration nor a direct reply to a server request
     (set-value result, channel-state result, calcfg result, set-channel-config result).  Replies are not originated
     traffic.
   * the SDK model: connect_cb only for a pending espconn_connect, disconnect_cb only for a live/closing connection,
     received data on a live connection, and a segment in flight at a device-initiated close is still delivered while the
     connection is closing, followed at once by the disconnect callback ([env_allows] / [dev_step], the design's
     Env_disconnect_before_connect); every other event, the results of espconn_sent and all timing are unconstrained. *)
From Coq Require Import List ZArith Bool.
Import ListNotations.
From V Require Import Base.Bytes Base.Iface Gen.ProtoConsts Gen.C04Consts C04.Model C04.Proofs C04.Timing.
Local Open Scope Z_scope.

(* The generated list of every srpc_*async* call site of the device sources is what the theorems rest on:
   a registration site must be the 0 -> -1 transition of devconn_iterate; every originated call and every call
   in a public (LOCAL) function must be guarded by is_registered() (or follow registered = 1).  A new unguarded
   site makes this lemma, and with it every theorem below, fail. *)
Lemma C04_sites_guarded : sites_ok CallSites = true.
Proof. reflexivity. Qed.

Theorem C04_first_is_register : forall cs cc s p,
  reachable cs cc s -> srpc s = Some p -> hist p <> [] -> last (hist p) 0 = CALL_REGISTER_E /\ sid p = conn s.
Proof. intros cs cc. exact (C04_first_is_register_thm cs cc C04_sites_guarded). Qed.
Print Assumptions C04_first_is_register.

Theorem C04_one_register_per_connection : forall cs cc s p,
  reachable cs cc s -> srpc s = Some p ->
  (registered s = 0 -> hist p = []) /\
  (registered s <> 0 -> exists l, hist p = l ++ [CALL_REGISTER_E] /\ forall c, In c l -> is_reg c = false).
Proof. intros cs cc. exact (C04_one_register_thm cs cc C04_sites_guarded). Qed.
Print Assumptions C04_one_register_per_connection.

Theorem C04_quiet_until_accepted : forall cs cc s p,
  reachable cs cc s -> srpc s = Some p ->
  (registered s = 1 <-> got_ok p = true) /\
  (got_ok p = false -> forall c, In c (hist p) -> originated c = false).
Proof. intros cs cc. exact (C04_quiet_until_accepted_thm cs cc C04_sites_guarded). Qed.
Print Assumptions C04_quiet_until_accepted.

Theorem C04_clean_restart : forall cs cc s,
  cs || cc = true -> reachable cs cc s -> halted s = false -> stuck s = false -> link s = L_PENDING ->
  let s' := step s ConnCb in
  espbuf s' = [] /\ recvbuf s' = [] /\ registered s' = 0 /\
  srpc s' = Some (fresh_instance (conn s + 1) (now s)) /\ conn s' = conn s + 1.
Proof. intros cs cc. exact (C04_clean_restart_thm cs cc C04_sites_guarded). Qed.
Print Assumptions C04_clean_restart.

(* "after a refusal it stops and closes the connection": a register result other than TRUE (any code) or a version error
   marks the instance (refused_at = now, nothing is sent, the registration is not accepted) ... *)
Theorem C04_refusal_marks : forall code tmo s p, srpc s = Some p -> code <> RESULTCODE_TRUE ->
  let s' := on_register_result code tmo s in
  exists p', srpc s' = Some p' /\ refused_at p' = Some (now s) /\ hist p' = hist p /\ got_ok p' = got_ok p /\
             registered s' = registered s /\ outs s' = outs s.
Proof. exact refusal_marks_thm. Qed.
Print Assumptions C04_refusal_marks.

(* ... the stop timer is then armed for exactly refused_at + stop delay (5 ms) in every reachable state, and once an
   Adv step has reached that time the instance no longer exists (unless it was refused again less than 5 ms before the
   end of the step); ending an instance is done by __stop only, which calls espconn_disconnect. *)
Theorem C04_refusal_stops : forall cs cc s p t,
  reachable cs cc s -> srpc s = Some p -> refused_at p = Some t ->
  armed (t_stop s) = true /\ due (t_stop s) = t + STOP_DELAY_MS * 1000 /\
  (forall dt, 0 <= dt -> halted s = false -> stuck s = false ->
     let s' := step s (Adv dt) in halted s' = false -> stuck s' = false ->
     forall p' t', srpc s' = Some p' -> refused_at p' = Some t' -> now s + dt < t' + STOP_DELAY_MS * 1000).
Proof. intros cs cc. exact (C04_refusal_stops_thm cs cc C04_sites_guarded). Qed.
Print Assumptions C04_refusal_stops.

Theorem C04_stop_disconnects : forall s,
  In (mk O_DISCONNECT [now s] []) (outs (devconn_stop s)) /\ srpc (devconn_stop s) = None /\ started (devconn_stop s) = false.
Proof. exact devconn_stop_disconnects. Qed.
Print Assumptions C04_stop_disconnects.

(* ---------- fuel-free semantics ----------
   The executable model runs the timer queue with a fuel bound (and reports FUEL / sets `stuck` when it is exhausted,
   which the correspondence run would show as a disagreement).  The theorems do not depend on that bound: `Advance`,
   `rstep`, `RRun` (C04/Timing.v) define the same semantics as an inductive relation without fuel, the executable
   functions refine it whenever they do not get stuck, and every theorem above is also proved for `rreachable`
   (reachability in the relation; J bounds the lateness script). *)
Theorem C04_model_refines_relation : forall cs cc J b cyc d pay lt evs, Forall (fun l => 0 <= l <= J) lt ->
  stuck (run_from (boot_device b cyc d pay lt cs cc) evs) = false ->
  rreachable cs cc J (run_from (boot_device b cyc d pay lt cs cc) evs).
Proof. exact run_rreachable. Qed.
Print Assumptions C04_model_refines_relation.

Theorem C04_fuel_free : forall cs cc J s p, rreachable cs cc J s -> srpc s = Some p ->
  sid p = conn s /\
  (registered s = 0 -> hist p = []) /\
  (registered s <> 0 -> exists l, hist p = l ++ [CALL_REGISTER_E] /\ forall c, In c l -> is_reg c = false) /\
  (registered s = 1 <-> got_ok p = true) /\
  (got_ok p = false -> forall c, In c (hist p) -> originated c = false) /\
  (forall t, refused_at p = Some t -> armed (t_stop s) = true /\ due (t_stop s) = t + STOP_DELAY_MS * 1000).
Proof. intros cs cc J. exact (C04_fuel_free_thm cs cc J C04_sites_guarded). Qed.
Print Assumptions C04_fuel_free.

Theorem C04_clean_restart_fuel_free : forall cs cc J s s',
  cs || cc = true -> rreachable cs cc J s -> halted s = false -> link s = L_PENDING -> rstep s ConnCb s' ->
  espbuf s' = [] /\ recvbuf s' = [] /\ registered s' = 0 /\ srpc s' = Some (fresh_instance (conn s + 1) (now s)) /\ conn s' = conn s + 1.
Proof. intros cs cc J. exact (C04_clean_restart_fuel_free_thm cs cc J C04_sites_guarded). Qed.
Print Assumptions C04_clean_restart_fuel_free.

Theorem C04_refusal_stops_fuel_free : forall cs cc J s dt s',
  rreachable cs cc J s -> 0 <= dt -> halted s = false -> rstep s (Adv dt) s' -> halted s' = false ->
  forall p' t', srpc s' = Some p' -> refused_at p' = Some t' -> now s + dt < t' + STOP_DELAY_MS * 1000.
Proof. intros cs cc J. exact (C04_refusal_stops_fuel_free_thm cs cc J C04_sites_guarded). Qed.
Print Assumptions C04_refusal_stops_fuel_free.

(* the registration is issued within one iterate period (100 ms) + lateness J of the connect callback:
   while `registered = 0` the clock has not passed created_at + 100 ms + J; afterwards the history ends with the registration *)
Theorem C04_register_within : forall cs cc J s p, 0 <= J -> rreachable cs cc J s -> srpc s = Some p ->
  (registered s = 0 -> now s <= created_at p + ITERATE_MS * 1000 + J) /\
  (created_at p + ITERATE_MS * 1000 + J < now s -> exists l, hist p = l ++ [CALL_REGISTER_E] /\ forall c, In c l -> is_reg c = false).
Proof.
  intros cs cc J s p HJ HR Hp. split.
  - exact (register_within_thm J HJ cs cc s p C04_sites_guarded HR Hp).
  - exact (register_sent_thm J HJ cs cc s p C04_sites_guarded HR Hp).
Qed.
Print Assumptions C04_register_within.

(* without either clearing (the tree before docs/fixes/C04_stop_clears_buffers.diff) the clean-restart clause is false *)
Theorem C04_old_code_refuted :
  let s := witness_final false false in
  conn s = 2 /\ registered s = 0 /\ 0 < len (espbuf s) /\ halted s = false /\ stuck s = false /\
  (exists p, srpc s = Some p /\ hist p = []).
Proof. exact C04_old_code_refuted_thm. Qed.
Print Assumptions C04_old_code_refuted.

Example C04_witness_repaired :
  espbuf (witness_final true false) = [] /\ espbuf (witness_final false true) = [] /\ conn (witness_final true false) = 2.
Proof. exact C04_witness_repaired_thm. Qed.

Example C04_ex_accepted : reachable true false ex_accepted /\
  exists p, srpc ex_accepted = Some p /\ got_ok p = true /\ hist p = [CALL_VALUE_CHANGED; CALL_SET_ACTIVITY_TIMEOUT; CALL_REGISTER_E] /\ sid p = 1.
Proof. exact ex_accepted_ok. Qed.
Example C04_ex_refused : reachable true false ex_refused /\
  exists p, srpc ex_refused = Some p /\ refused_at p = Some 1100000 /\ hist p = [CALL_REGISTER_E] /\ registered ex_refused = -1 /\
  srpc (step ex_refused (Adv 1)) = None /\ link ex_refused = L_LIVE /\ link (step ex_refused (Adv 1)) = L_CLOSING.
Proof. exact ex_refused_ok. Qed.

(* LAST, so that everything above is still checked on an unrepaired tree: the tree the model was generated from
   clears the two byte buffers in supla_esp_devconn__stop or in the connect callback. *)
Lemma C04_tree_is_repaired : TREE_CLRSTOP || TREE_CLRCONN = true.
Proof. reflexivity. Qed.

(* examples, witnesses and generated-list facts: closed as well *)
Print Assumptions C04_sites_guarded.
Print Assumptions C04_witness_repaired.
Print Assumptions C04_ex_accepted.
Print Assumptions C04_ex_refused.
Print Assumptions C04_tree_is_repaired.
