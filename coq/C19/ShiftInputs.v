(* C19 (c) — shift invariance of the input model of C11 (coq/C11/Model.v, imported, not copied):
   the same schedule of micro-steps / harness events under two boot values of the counter gives identical
   outputs (notifies, relay actions, action triggers, value reports, config-mode entry) at identical true times.
   The only raw stamp of that model is `lsc` (input_cfg->last_state_change); the silent start-up period
   compares the modular difference now32 - init32, which does not see the boot value.
   Technique: set_lsc commutes with every other operation of the model; run B is the image of run A under
   lsc := lsc + (bootB - bootA) mod 2^32. *)
From Coq Require Import List ZArith Bool Lia.
Import ListNotations.
From V Require Import Base.U32 Gen.InputConsts C11.Model.
Local Open Scope Z_scope.

(* set_lsc commutes with everything else *)
Ltac ds := intros; match goal with s : st |- _ => destruct s end; reflexivity.
Lemma g_now v s : now (set_lsc v s) = now s. Proof. ds. Qed.
Lemma g_lvl v s : lvl (set_lsc v s) = lvl s. Proof. ds. Qed.
Lemma g_dstep v s : dstep (set_lsc v s) = dstep s. Proof. ds. Qed.
Lemma g_dval v s : dval (set_lsc v s) = dval s. Proof. ds. Qed.
Lemma g_d_on v s : d_on (set_lsc v s) = d_on s. Proof. ds. Qed.
Lemma g_d_due v s : d_due (set_lsc v s) = d_due s. Proof. ds. Qed.
Lemma g_d_seq v s : d_seq (set_lsc v s) = d_seq s. Proof. ds. Qed.
Lemma g_last v s : last (set_lsc v s) = last s. Proof. ds. Qed.
Lemma g_cc v s : cc (set_lsc v s) = cc s. Proof. ds. Qed.
Lemma g_maxc v s : maxc (set_lsc v s) = maxc s. Proof. ds. Qed.
Lemma g_act v s : act (set_lsc v s) = act s. Proof. ds. Qed.
Lemma g_relg v s : relg (set_lsc v s) = relg s. Proof. ds. Qed.
Lemma g_disg v s : disg (set_lsc v s) = disg s. Proof. ds. Qed.
Lemma g_lsc v s : lsc (set_lsc v s) = v. Proof. ds. Qed.
Lemma g_silent v s : silent (set_lsc v s) = silent s. Proof. ds. Qed.
Lemma g_t_on v s : t_on (set_lsc v s) = t_on s. Proof. ds. Qed.
Lemma g_t_due v s : t_due (set_lsc v s) = t_due s. Proof. ds. Qed.
Lemma g_t_seq v s : t_seq (set_lsc v s) = t_seq s. Proof. ds. Qed.
Lemma g_t_adv v s : t_adv (set_lsc v s) = t_adv s. Proof. ds. Qed.
Lemma g_m_on v s : m_on (set_lsc v s) = m_on s. Proof. ds. Qed.
Lemma g_m_due v s : m_due (set_lsc v s) = m_due s. Proof. ds. Qed.
Lemma g_m_seq v s : m_seq (set_lsc v s) = m_seq s. Proof. ds. Qed.
Lemma g_relay v s : relay (set_lsc v s) = relay s. Proof. ds. Qed.
Lemma g_seqc v s : seqc (set_lsc v s) = seqc s. Proof. ds. Qed.
Lemma g_halted v s : halted (set_lsc v s) = halted s. Proof. ds. Qed.
Lemma g_late v s : late (set_lsc v s) = late s. Proof. ds. Qed.
Lemma g_outs v s : outs (set_lsc v s) = outs s. Proof. ds. Qed.
Lemma g_tr v s : tr (set_lsc v s) = tr s. Proof. ds. Qed.
#[export] Hint Rewrite g_now g_lvl g_dstep g_dval g_d_on g_d_due g_d_seq g_last g_cc g_maxc g_act g_relg g_disg g_lsc g_silent
  g_t_on g_t_due g_t_seq g_t_adv g_m_on g_m_due g_m_seq g_relay g_seqc g_halted g_late g_outs g_tr : shg.

Lemma c_now x v s : set_now x (set_lsc v s) = set_lsc v (set_now x s). Proof. ds. Qed.
Lemma c_lvl x v s : set_lvl x (set_lsc v s) = set_lsc v (set_lvl x s). Proof. ds. Qed.
Lemma c_dstep x v s : set_dstep x (set_lsc v s) = set_lsc v (set_dstep x s). Proof. ds. Qed.
Lemma c_dval x v s : set_dval x (set_lsc v s) = set_lsc v (set_dval x s). Proof. ds. Qed.
Lemma c_d_on x v s : set_d_on x (set_lsc v s) = set_lsc v (set_d_on x s). Proof. ds. Qed.
Lemma c_d_due x v s : set_d_due x (set_lsc v s) = set_lsc v (set_d_due x s). Proof. ds. Qed.
Lemma c_d_seq x v s : set_d_seq x (set_lsc v s) = set_lsc v (set_d_seq x s). Proof. ds. Qed.
Lemma c_last x v s : set_last x (set_lsc v s) = set_lsc v (set_last x s). Proof. ds. Qed.
Lemma c_cc x v s : set_cc x (set_lsc v s) = set_lsc v (set_cc x s). Proof. ds. Qed.
Lemma c_maxc x v s : set_maxc x (set_lsc v s) = set_lsc v (set_maxc x s). Proof. ds. Qed.
Lemma c_act x v s : set_act x (set_lsc v s) = set_lsc v (set_act x s). Proof. ds. Qed.
Lemma c_relg x v s : set_relg x (set_lsc v s) = set_lsc v (set_relg x s). Proof. ds. Qed.
Lemma c_disg x v s : set_disg x (set_lsc v s) = set_lsc v (set_disg x s). Proof. ds. Qed.
Lemma c_lsc x v s : set_lsc x (set_lsc v s) = set_lsc x s. Proof. ds. Qed.
Lemma c_silent x v s : set_silent x (set_lsc v s) = set_lsc v (set_silent x s). Proof. ds. Qed.
Lemma c_t_on x v s : set_t_on x (set_lsc v s) = set_lsc v (set_t_on x s). Proof. ds. Qed.
Lemma c_t_due x v s : set_t_due x (set_lsc v s) = set_lsc v (set_t_due x s). Proof. ds. Qed.
Lemma c_t_seq x v s : set_t_seq x (set_lsc v s) = set_lsc v (set_t_seq x s). Proof. ds. Qed.
Lemma c_t_adv x v s : set_t_adv x (set_lsc v s) = set_lsc v (set_t_adv x s). Proof. ds. Qed.
Lemma c_m_on x v s : set_m_on x (set_lsc v s) = set_lsc v (set_m_on x s). Proof. ds. Qed.
Lemma c_m_due x v s : set_m_due x (set_lsc v s) = set_lsc v (set_m_due x s). Proof. ds. Qed.
Lemma c_m_seq x v s : set_m_seq x (set_lsc v s) = set_lsc v (set_m_seq x s). Proof. ds. Qed.
Lemma c_relay x v s : set_relay x (set_lsc v s) = set_lsc v (set_relay x s). Proof. ds. Qed.
Lemma c_seqc x v s : set_seqc x (set_lsc v s) = set_lsc v (set_seqc x s). Proof. ds. Qed.
Lemma c_halted x v s : set_halted x (set_lsc v s) = set_lsc v (set_halted x s). Proof. ds. Qed.
Lemma c_late x v s : set_late x (set_lsc v s) = set_lsc v (set_late x s). Proof. ds. Qed.
Lemma c_outs x v s : set_outs x (set_lsc v s) = set_lsc v (set_outs x s). Proof. ds. Qed.
Lemma c_tr x v s : set_tr x (set_lsc v s) = set_lsc v (set_tr x s). Proof. ds. Qed.
Lemma c_if (b : bool) v (x y : st) : (if b then set_lsc v x else set_lsc v y) = set_lsc v (if b then x else y).
Proof. destruct b; reflexivity. Qed.
#[export] Hint Rewrite c_now c_lvl c_dstep c_dval c_d_on c_d_due c_d_seq c_last c_cc c_maxc c_act c_relg c_disg c_lsc c_silent
  c_t_on c_t_due c_t_seq c_t_adv c_m_on c_m_due c_m_seq c_relay c_seqc c_halted c_late c_outs c_tr c_if : shg.

Ltac comm := cbv zeta; repeat (autorewrite with shg; cbv zeta); try reflexivity.

Lemma emit_sh o v s : emit o (set_lsc v s) = set_lsc v (emit o s).
Proof. unfold emit. comm. Qed.
#[export] Hint Rewrite emit_sh : shg.
Lemma relc_sh v s : relc (set_lsc v s) = relc s. Proof. unfold relc. comm. Qed.
#[export] Hint Rewrite relc_sh : shg.
Lemma relay_switch_sh hi v s : relay_switch hi (set_lsc v s) = set_lsc v (relay_switch hi s).
Proof. unfold relay_switch. comm. Qed.
#[export] Hint Rewrite relay_switch_sh : shg.
Lemma on_active_sh c lg v s : on_active c lg (set_lsc v s) = set_lsc v (on_active c lg s).
Proof. unfold on_active. comm. Qed.
#[export] Hint Rewrite on_active_sh : shg.
Lemma on_inactive_sh c lg v s : on_inactive c lg (set_lsc v s) = set_lsc v (on_inactive c lg s).
Proof. unfold on_inactive. comm. Qed.
#[export] Hint Rewrite on_inactive_sh : shg.
Lemma halt_sh v s : halt (set_lsc v s) = set_lsc v (halt s). Proof. unfold halt. comm. Qed.
Lemma arm_d_sh v s : arm_d (set_lsc v s) = set_lsc v (arm_d s). Proof. unfold arm_d. comm. Qed.
Lemma arm_t_sh v s : arm_t (set_lsc v s) = set_lsc v (arm_t s). Proof. unfold arm_t. comm. Qed.
#[export] Hint Rewrite halt_sh arm_d_sh arm_t_sh : shg.
Lemma emit_trigger_sh c a v s : emit_trigger c a (set_lsc v s) = set_lsc v (emit_trigger c a s).
Proof. unfold emit_trigger. comm. Qed.
#[export] Hint Rewrite emit_trigger_sh : shg.
Lemma send_trigger_sh c a v s : send_trigger c a (set_lsc v s) = set_lsc v (send_trigger c a s).
Proof. unfold send_trigger. comm. Qed.
#[export] Hint Rewrite send_trigger_sh : shg.
Lemma set_triggers_sh c m v s : set_triggers c m (set_lsc v s) = set_lsc v (set_triggers c m s).
Proof. unfold set_triggers. comm. Qed.
Lemma mot_cb_sh c v s : mot_cb c (set_lsc v s) = set_lsc v (mot_cb c s).
Proof. unfold mot_cb. comm. Qed.
Lemma isr_sh c v s : isr c (set_lsc v s) = set_lsc v (isr c s).
Proof. unfold isr. comm. Qed.
#[export] Hint Rewrite set_triggers_sh mot_cb_sh isr_sh : shg.
Lemma pend_sh v s : pend (set_lsc v s) = pend s. Proof. unfold pend. comm. Qed.
Lemma now32_sh c v s : now32 c (set_lsc v s) = now32 c s. Proof. unfold now32. comm. Qed.
#[export] Hint Rewrite pend_sh now32_sh : shg.

(* operations that commute with set_lsc keep lsc *)
Lemma set_lsc_id s : set_lsc (lsc s) s = s. Proof. destruct s; reflexivity. Qed.
Lemma lsc_pres (f : st -> st) : (forall v s, f (set_lsc v s) = set_lsc v (f s)) -> forall s, lsc (f s) = lsc s.
Proof. intros H s. rewrite <- (set_lsc_id s) at 1. rewrite H. apply g_lsc. Qed.
Lemma t_on_lsc_free v s : t_on (set_lsc v s) = t_on s. Proof. apply g_t_on. Qed.

(* ---------- a configuration that differs only in the boot value ---------- *)
Definition wb (b : Z) (c : cfgT) : cfgT :=
  {| boot := b; typ := typ c; flags := flags c; rel := rel c; chan := chan c; cap := cap c; rst := rst c |}.

Lemma now32_wb b c s : now32 (wb b c) s = u32 (now32 c s + (b - boot c)).
Proof. unfold now32, wb; cbn [boot]. rewrite u32_add_l. f_equal. lia. Qed.
Lemma init32_wb b c : init32 (wb b c) = u32 (init32 c + (b - boot c)).
Proof. unfold init32, wb; cbn [boot]. rewrite u32_add_l. f_equal. lia. Qed.
(* modular differences do not see the shift *)
Lemma diff_shift x y d : u32 (u32 (x + d) - u32 (y + d)) = u32 (x - y).
Proof. rewrite u32_sub_l, u32_sub_r. f_equal. lia. Qed.

Lemma on_active_wb b c lg s : on_active (wb b c) lg s = on_active c lg s. Proof. reflexivity. Qed.
Lemma on_inactive_wb b c lg s : on_inactive (wb b c) lg s = on_inactive c lg s. Proof. reflexivity. Qed.
Lemma emit_trigger_wb b c a s : emit_trigger (wb b c) a s = emit_trigger c a s. Proof. reflexivity. Qed.
Lemma send_trigger_wb b c a s : send_trigger (wb b c) a s = send_trigger c a s. Proof. reflexivity. Qed.
Lemma set_triggers_wb b c m s : set_triggers (wb b c) m s = set_triggers c m s. Proof. reflexivity. Qed.
Lemma mot_cb_wb b c s : mot_cb (wb b c) s = mot_cb c s. Proof. reflexivity. Qed.
Lemma isr_wb b c s : isr (wb b c) s = isr c s. Proof. reflexivity. Qed.
Lemma l_now x s : lsc (set_now x s) = lsc s. Proof. ds. Qed.
Lemma l_lvl x s : lsc (set_lvl x s) = lsc s. Proof. ds. Qed.
Lemma l_dstep x s : lsc (set_dstep x s) = lsc s. Proof. ds. Qed.
Lemma l_dval x s : lsc (set_dval x s) = lsc s. Proof. ds. Qed.
Lemma l_d_on x s : lsc (set_d_on x s) = lsc s. Proof. ds. Qed.
Lemma l_d_due x s : lsc (set_d_due x s) = lsc s. Proof. ds. Qed.
Lemma l_d_seq x s : lsc (set_d_seq x s) = lsc s. Proof. ds. Qed.
Lemma l_last x s : lsc (set_last x s) = lsc s. Proof. ds. Qed.
Lemma l_cc x s : lsc (set_cc x s) = lsc s. Proof. ds. Qed.
Lemma l_maxc x s : lsc (set_maxc x s) = lsc s. Proof. ds. Qed.
Lemma l_act x s : lsc (set_act x s) = lsc s. Proof. ds. Qed.
Lemma l_relg x s : lsc (set_relg x s) = lsc s. Proof. ds. Qed.
Lemma l_disg x s : lsc (set_disg x s) = lsc s. Proof. ds. Qed.
Lemma l_silent x s : lsc (set_silent x s) = lsc s. Proof. ds. Qed.
Lemma l_t_on x s : lsc (set_t_on x s) = lsc s. Proof. ds. Qed.
Lemma l_t_due x s : lsc (set_t_due x s) = lsc s. Proof. ds. Qed.
Lemma l_t_seq x s : lsc (set_t_seq x s) = lsc s. Proof. ds. Qed.
Lemma l_t_adv x s : lsc (set_t_adv x s) = lsc s. Proof. ds. Qed.
Lemma l_m_on x s : lsc (set_m_on x s) = lsc s. Proof. ds. Qed.
Lemma l_m_due x s : lsc (set_m_due x s) = lsc s. Proof. ds. Qed.
Lemma l_m_seq x s : lsc (set_m_seq x s) = lsc s. Proof. ds. Qed.
Lemma l_relay x s : lsc (set_relay x s) = lsc s. Proof. ds. Qed.
Lemma l_seqc x s : lsc (set_seqc x s) = lsc s. Proof. ds. Qed.
Lemma l_halted x s : lsc (set_halted x s) = lsc s. Proof. ds. Qed.
Lemma l_late x s : lsc (set_late x s) = lsc s. Proof. ds. Qed.
Lemma l_outs x s : lsc (set_outs x s) = lsc s. Proof. ds. Qed.
Lemma l_tr x s : lsc (set_tr x s) = lsc s. Proof. ds. Qed.
#[export] Hint Rewrite l_now l_lvl l_dstep l_dval l_d_on l_d_due l_d_seq l_last l_cc l_maxc l_act l_relg l_disg l_silent l_t_on l_t_due l_t_seq l_t_adv l_m_on l_m_due l_m_seq l_relay l_seqc l_halted l_late l_outs l_tr g_lsc : lscdb.
Lemma l_emit o s : lsc (emit o s) = lsc s. Proof. apply (lsc_pres (emit o)); intros; apply emit_sh. Qed.
Lemma l_halt s : lsc (halt s) = lsc s. Proof. apply (lsc_pres halt); intros; apply halt_sh. Qed.
Lemma l_arm_d s : lsc (arm_d s) = lsc s. Proof. apply (lsc_pres arm_d); intros; apply arm_d_sh. Qed.
Lemma l_arm_t s : lsc (arm_t s) = lsc s. Proof. apply (lsc_pres arm_t); intros; apply arm_t_sh. Qed.
Lemma l_relay_switch h s : lsc (relay_switch h s) = lsc s. Proof. apply (lsc_pres (relay_switch h)); intros; apply relay_switch_sh. Qed.
Lemma l_on_active c lg s : lsc (on_active c lg s) = lsc s. Proof. apply (lsc_pres (on_active c lg)); intros; apply on_active_sh. Qed.
Lemma l_on_inactive c lg s : lsc (on_inactive c lg s) = lsc s. Proof. apply (lsc_pres (on_inactive c lg)); intros; apply on_inactive_sh. Qed.
Lemma l_emit_trigger c a s : lsc (emit_trigger c a s) = lsc s. Proof. apply (lsc_pres (emit_trigger c a)); intros; apply emit_trigger_sh. Qed.
Lemma l_send_trigger c a s : lsc (send_trigger c a s) = lsc s. Proof. apply (lsc_pres (send_trigger c a)); intros; apply send_trigger_sh. Qed.
Lemma l_set_triggers c m s : lsc (set_triggers c m s) = lsc s. Proof. apply (lsc_pres (set_triggers c m)); intros; apply set_triggers_sh. Qed.
Lemma l_mot_cb c s : lsc (mot_cb c s) = lsc s. Proof. apply (lsc_pres (mot_cb c)); intros; apply mot_cb_sh. Qed.
Lemma l_isr c s : lsc (isr c s) = lsc s. Proof. apply (lsc_pres (isr c)); intros; apply isr_sh. Qed.
Lemma l_if (b : bool) (x y : st) : lsc (if b then x else y) = if b then lsc x else lsc y. Proof. destruct b; reflexivity. Qed.
#[export] Hint Rewrite l_emit l_halt l_arm_d l_arm_t l_relay_switch l_on_active l_on_inactive l_emit_trigger l_send_trigger
  l_set_triggers l_mot_cb l_isr : lscdb.

Definition sh (d : Z) (s : st) : st := set_lsc (u32 (lsc s + d)) s.
Lemma sg_now d s : now (sh d s) = now s. Proof. destruct s; reflexivity. Qed.
Lemma sc_now x d s : set_now x (sh d s) = sh d (set_now x s). Proof. destruct s; reflexivity. Qed.
Lemma sg_lvl d s : lvl (sh d s) = lvl s. Proof. destruct s; reflexivity. Qed.
Lemma sc_lvl x d s : set_lvl x (sh d s) = sh d (set_lvl x s). Proof. destruct s; reflexivity. Qed.
Lemma sg_dstep d s : dstep (sh d s) = dstep s. Proof. destruct s; reflexivity. Qed.
Lemma sc_dstep x d s : set_dstep x (sh d s) = sh d (set_dstep x s). Proof. destruct s; reflexivity. Qed.
Lemma sg_dval d s : dval (sh d s) = dval s. Proof. destruct s; reflexivity. Qed.
Lemma sc_dval x d s : set_dval x (sh d s) = sh d (set_dval x s). Proof. destruct s; reflexivity. Qed.
Lemma sg_d_on d s : d_on (sh d s) = d_on s. Proof. destruct s; reflexivity. Qed.
Lemma sc_d_on x d s : set_d_on x (sh d s) = sh d (set_d_on x s). Proof. destruct s; reflexivity. Qed.
Lemma sg_d_due d s : d_due (sh d s) = d_due s. Proof. destruct s; reflexivity. Qed.
Lemma sc_d_due x d s : set_d_due x (sh d s) = sh d (set_d_due x s). Proof. destruct s; reflexivity. Qed.
Lemma sg_d_seq d s : d_seq (sh d s) = d_seq s. Proof. destruct s; reflexivity. Qed.
Lemma sc_d_seq x d s : set_d_seq x (sh d s) = sh d (set_d_seq x s). Proof. destruct s; reflexivity. Qed.
Lemma sg_last d s : last (sh d s) = last s. Proof. destruct s; reflexivity. Qed.
Lemma sc_last x d s : set_last x (sh d s) = sh d (set_last x s). Proof. destruct s; reflexivity. Qed.
Lemma sg_cc d s : cc (sh d s) = cc s. Proof. destruct s; reflexivity. Qed.
Lemma sc_cc x d s : set_cc x (sh d s) = sh d (set_cc x s). Proof. destruct s; reflexivity. Qed.
Lemma sg_maxc d s : maxc (sh d s) = maxc s. Proof. destruct s; reflexivity. Qed.
Lemma sc_maxc x d s : set_maxc x (sh d s) = sh d (set_maxc x s). Proof. destruct s; reflexivity. Qed.
Lemma sg_act d s : act (sh d s) = act s. Proof. destruct s; reflexivity. Qed.
Lemma sc_act x d s : set_act x (sh d s) = sh d (set_act x s). Proof. destruct s; reflexivity. Qed.
Lemma sg_relg d s : relg (sh d s) = relg s. Proof. destruct s; reflexivity. Qed.
Lemma sc_relg x d s : set_relg x (sh d s) = sh d (set_relg x s). Proof. destruct s; reflexivity. Qed.
Lemma sg_disg d s : disg (sh d s) = disg s. Proof. destruct s; reflexivity. Qed.
Lemma sc_disg x d s : set_disg x (sh d s) = sh d (set_disg x s). Proof. destruct s; reflexivity. Qed.
Lemma sg_silent d s : silent (sh d s) = silent s. Proof. destruct s; reflexivity. Qed.
Lemma sc_silent x d s : set_silent x (sh d s) = sh d (set_silent x s). Proof. destruct s; reflexivity. Qed.
Lemma sg_t_on d s : t_on (sh d s) = t_on s. Proof. destruct s; reflexivity. Qed.
Lemma sc_t_on x d s : set_t_on x (sh d s) = sh d (set_t_on x s). Proof. destruct s; reflexivity. Qed.
Lemma sg_t_due d s : t_due (sh d s) = t_due s. Proof. destruct s; reflexivity. Qed.
Lemma sc_t_due x d s : set_t_due x (sh d s) = sh d (set_t_due x s). Proof. destruct s; reflexivity. Qed.
Lemma sg_t_seq d s : t_seq (sh d s) = t_seq s. Proof. destruct s; reflexivity. Qed.
Lemma sc_t_seq x d s : set_t_seq x (sh d s) = sh d (set_t_seq x s). Proof. destruct s; reflexivity. Qed.
Lemma sg_t_adv d s : t_adv (sh d s) = t_adv s. Proof. destruct s; reflexivity. Qed.
Lemma sc_t_adv x d s : set_t_adv x (sh d s) = sh d (set_t_adv x s). Proof. destruct s; reflexivity. Qed.
Lemma sg_m_on d s : m_on (sh d s) = m_on s. Proof. destruct s; reflexivity. Qed.
Lemma sc_m_on x d s : set_m_on x (sh d s) = sh d (set_m_on x s). Proof. destruct s; reflexivity. Qed.
Lemma sg_m_due d s : m_due (sh d s) = m_due s. Proof. destruct s; reflexivity. Qed.
Lemma sc_m_due x d s : set_m_due x (sh d s) = sh d (set_m_due x s). Proof. destruct s; reflexivity. Qed.
Lemma sg_m_seq d s : m_seq (sh d s) = m_seq s. Proof. destruct s; reflexivity. Qed.
Lemma sc_m_seq x d s : set_m_seq x (sh d s) = sh d (set_m_seq x s). Proof. destruct s; reflexivity. Qed.
Lemma sg_relay d s : relay (sh d s) = relay s. Proof. destruct s; reflexivity. Qed.
Lemma sc_relay x d s : set_relay x (sh d s) = sh d (set_relay x s). Proof. destruct s; reflexivity. Qed.
Lemma sg_seqc d s : seqc (sh d s) = seqc s. Proof. destruct s; reflexivity. Qed.
Lemma sc_seqc x d s : set_seqc x (sh d s) = sh d (set_seqc x s). Proof. destruct s; reflexivity. Qed.
Lemma sg_halted d s : halted (sh d s) = halted s. Proof. destruct s; reflexivity. Qed.
Lemma sc_halted x d s : set_halted x (sh d s) = sh d (set_halted x s). Proof. destruct s; reflexivity. Qed.
Lemma sg_late d s : late (sh d s) = late s. Proof. destruct s; reflexivity. Qed.
Lemma sc_late x d s : set_late x (sh d s) = sh d (set_late x s). Proof. destruct s; reflexivity. Qed.
Lemma sg_outs d s : outs (sh d s) = outs s. Proof. destruct s; reflexivity. Qed.
Lemma sc_outs x d s : set_outs x (sh d s) = sh d (set_outs x s). Proof. destruct s; reflexivity. Qed.
Lemma sg_tr d s : tr (sh d s) = tr s. Proof. destruct s; reflexivity. Qed.
Lemma sc_tr x d s : set_tr x (sh d s) = sh d (set_tr x s). Proof. destruct s; reflexivity. Qed.
Lemma sg_lsc d s : lsc (sh d s) = u32 (lsc s + d). Proof. destruct s; reflexivity. Qed.
Lemma sc_lsc x d s : set_lsc x (sh d s) = set_lsc x s. Proof. destruct s; reflexivity. Qed.
#[export] Hint Rewrite sg_now sc_now sg_lvl sc_lvl sg_dstep sc_dstep sg_dval sc_dval sg_d_on sc_d_on sg_d_due sc_d_due sg_d_seq sc_d_seq sg_last sc_last sg_cc sc_cc sg_maxc sc_maxc sg_act sc_act sg_relg sc_relg sg_disg sc_disg sg_silent sc_silent sg_t_on sc_t_on sg_t_due sc_t_due sg_t_seq sc_t_seq sg_t_adv sc_t_adv sg_m_on sc_m_on sg_m_due sc_m_due sg_m_seq sc_m_seq sg_relay sc_relay sg_seqc sc_seqc sg_halted sc_halted sg_late sc_late sg_outs sc_outs sg_tr sc_tr sg_lsc sc_lsc : shd.

Lemma sh_if d (b : bool) x y : (if b then sh d x else sh d y) = sh d (if b then x else y). Proof. destruct b; reflexivity. Qed.
Lemma sh_stamp N d Y : set_lsc (u32 (N + d)) Y = sh d (set_lsc N Y). Proof. destruct Y; reflexivity. Qed.
(* boot-free operations commute with the shift *)
Lemma sh_comm (f : st -> st) : (forall v s, f (set_lsc v s) = set_lsc v (f s)) -> forall d s, f (sh d s) = sh d (f s).
Proof. intros H d s. unfold sh. rewrite H, (lsc_pres f H). reflexivity. Qed.
Lemma sh_emit o d s : emit o (sh d s) = sh d (emit o s). Proof. apply (sh_comm (emit o)); intros; apply emit_sh. Qed.
Lemma sh_halt d s : halt (sh d s) = sh d (halt s). Proof. apply (sh_comm halt); intros; apply halt_sh. Qed.
Lemma sh_arm_d d s : arm_d (sh d s) = sh d (arm_d s). Proof. apply (sh_comm arm_d); intros; apply arm_d_sh. Qed.
Lemma sh_arm_t d s : arm_t (sh d s) = sh d (arm_t s). Proof. apply (sh_comm arm_t); intros; apply arm_t_sh. Qed.
Lemma sh_relay_switch h d s : relay_switch h (sh d s) = sh d (relay_switch h s). Proof. apply (sh_comm (relay_switch h)); intros; apply relay_switch_sh. Qed.
Lemma sh_on_active c lg d s : on_active c lg (sh d s) = sh d (on_active c lg s). Proof. apply (sh_comm (on_active c lg)); intros; apply on_active_sh. Qed.
Lemma sh_on_inactive c lg d s : on_inactive c lg (sh d s) = sh d (on_inactive c lg s). Proof. apply (sh_comm (on_inactive c lg)); intros; apply on_inactive_sh. Qed.
Lemma sh_emit_trigger c a d s : emit_trigger c a (sh d s) = sh d (emit_trigger c a s). Proof. apply (sh_comm (emit_trigger c a)); intros; apply emit_trigger_sh. Qed.
Lemma sh_send_trigger c a d s : send_trigger c a (sh d s) = sh d (send_trigger c a s). Proof. apply (sh_comm (send_trigger c a)); intros; apply send_trigger_sh. Qed.
Lemma sh_set_triggers c m d s : set_triggers c m (sh d s) = sh d (set_triggers c m s). Proof. apply (sh_comm (set_triggers c m)); intros; apply set_triggers_sh. Qed.
Lemma sh_mot_cb c d s : mot_cb c (sh d s) = sh d (mot_cb c s). Proof. apply (sh_comm (mot_cb c)); intros; apply mot_cb_sh. Qed.
Lemma sh_isr c d s : isr c (sh d s) = sh d (isr c s). Proof. apply (sh_comm (isr c)); intros; apply isr_sh. Qed.
Lemma sh_relc d s : relc (sh d s) = relc s. Proof. unfold relc. rewrite sg_relg. reflexivity. Qed.
Lemma sh_pend d s : pend (sh d s) = pend s. Proof. unfold pend. autorewrite with shd. reflexivity. Qed.
Lemma sh_now32 c d s : now32 c (sh d s) = now32 c s. Proof. unfold now32. rewrite sg_now. reflexivity. Qed.
#[export] Hint Rewrite sh_if sh_stamp sh_emit sh_halt sh_arm_d sh_arm_t sh_relay_switch sh_on_active sh_on_inactive sh_emit_trigger
  sh_send_trigger sh_set_triggers sh_mot_cb sh_isr sh_relc sh_pend sh_now32 : shd.

(* predicates of the configuration do not mention boot *)
(* the configuration of run B: same input, counter at boot larger by d (mod 2^32) *)
Definition cB (d : Z) (c : cfgT) : cfgT := wb (boot c + d) c.
Lemma now32_cB d c s : now32 (cB d c) s = u32 (now32 c s + d).
Proof. unfold cB. rewrite now32_wb. f_equal. lia. Qed.
Lemma init32_cB d c : init32 (cB d c) = u32 (init32 c + d).
Proof. unfold cB. rewrite init32_wb. f_equal. lia. Qed.
(* predicates of the configuration do not mention boot *)
Lemma p_cfg_btn d c : cfg_btn (cB d c) = cfg_btn c. Proof. reflexivity. Qed.
Lemma p_on_hold d c : on_hold_en (cB d c) = on_hold_en c. Proof. reflexivity. Qed.
Lemma p_on_toggle d c : on_toggle_en (cB d c) = on_toggle_en c. Proof. reflexivity. Qed.
Lemma p_counts d c x : counts_click (cB d c) x = counts_click c x. Proof. reflexivity. Qed.
Lemma p_mono d c : is_mono (cB d c) = is_mono c. Proof. reflexivity. Qed.
Lemma p_bi d c : is_bi (cB d c) = is_bi c. Proof. reflexivity. Qed.
Lemma p_motion d c : is_motion (cB d c) = is_motion c. Proof. reflexivity. Qed.
Lemma p_alevel d c : active_level (cB d c) = active_level c. Proof. reflexivity. Qed.
Lemma f_on_active d c lg s : on_active (cB d c) lg s = on_active c lg s. Proof. reflexivity. Qed.
Lemma f_on_inactive d c lg s : on_inactive (cB d c) lg s = on_inactive c lg s. Proof. reflexivity. Qed.
Lemma f_emit_trigger d c a s : emit_trigger (cB d c) a s = emit_trigger c a s. Proof. reflexivity. Qed.
Lemma f_send_trigger d c a s : send_trigger (cB d c) a s = send_trigger c a s. Proof. reflexivity. Qed.
Lemma f_set_triggers d c m s : set_triggers (cB d c) m s = set_triggers c m s. Proof. reflexivity. Qed.
Lemma f_mot_cb d c s : mot_cb (cB d c) s = mot_cb c s. Proof. reflexivity. Qed.
Lemma f_isr d c s : isr (cB d c) s = isr c s. Proof. reflexivity. Qed.
#[export] Hint Rewrite p_cfg_btn p_on_hold p_on_toggle p_counts p_mono p_bi p_motion p_alevel
  f_on_active f_on_inactive f_emit_trigger f_send_trigger f_set_triggers f_mot_cb f_isr : shd.

Ltac norm := cbv zeta; repeat (progress (autorewrite with shd; rewrite ?now32_cB, ?init32_cB, ?diff_shift)).

Lemma legacy_handler_sh d c x s : legacy_handler (cB d c) x (sh d s) = sh d (legacy_handler c x s).
Proof. unfold legacy_handler. norm. reflexivity. Qed.
Lemma adv_handler_sh d c x s : adv_handler (cB d c) x (sh d s) = sh d (adv_handler c x s).
Proof. unfold adv_handler. norm. reflexivity. Qed.
#[export] Hint Rewrite legacy_handler_sh adv_handler_sh : shd.
Lemma notify_sh d c x s : notify (cB d c) x (sh d s) = sh d (notify c x s).
Proof. unfold notify. norm. reflexivity. Qed.
#[export] Hint Rewrite notify_sh : shd.
Lemma deb_cb_sh d c s : deb_cb (cB d c) (sh d s) = sh d (deb_cb c s).
Proof. unfold deb_cb. norm. reflexivity. Qed.
Lemma legacy_timer_sh d c s : legacy_timer (cB d c) (sh d s) = sh d (legacy_timer c s).
Proof. unfold legacy_timer. norm. reflexivity. Qed.
Lemma adv_timer_sh d c s : adv_timer (cB d c) (sh d s) = sh d (adv_timer c s).
Proof. unfold adv_timer. norm. reflexivity. Qed.
#[export] Hint Rewrite deb_cb_sh legacy_timer_sh adv_timer_sh : shd.

(* ---------- micro-steps, scheduler, runs ---------- *)
Lemma mact_sh d c m s : mact (cB d c) m (sh d s) = sh d (mact c m s).
Proof. unfold mact. destruct m; norm; reflexivity. Qed.
Lemma mstep_sh d c m s : mstep (cB d c) m (sh d s) = sh d (mstep c m s).
Proof. unfold mstep. rewrite mact_sh. norm. reflexivity. Qed.
Lemma mrun_sh d c ms : forall s, mrun (cB d c) ms (sh d s) = sh d (mrun c ms s).
Proof. unfold mrun. induction ms as [|m r IH]; intros s; cbn [fold_left]; [reflexivity|]. rewrite mstep_sh. apply IH. Qed.

Lemma pick_sh d s e : pick (sh d s) e = pick s e.
Proof. unfold pick. autorewrite with shd. reflexivity. Qed.
Lemma fire_due_sh d c fuel : forall e s, fire_due (cB d c) fuel e (sh d s) = sh d (fire_due c fuel e s).
Proof.
  induction fuel as [|f IH]; intros e s; cbn [fire_due]; rewrite pick_sh.
  - destruct (pick s e); [apply mstep_sh | reflexivity].
  - destruct (pick s e) as [[[due q] k]|]; [|reflexivity].
    rewrite sg_now, !mstep_sh, sg_halted.
    destruct (halted _); [reflexivity | apply IH].
Qed.
Lemma estep_sh d c s ev : estep (cB d c) (sh d s) ev = sh d (estep c s ev).
Proof.
  unfold estep. rewrite sg_halted. destruct (halted s); [reflexivity|].
  destruct ev; try reflexivity; rewrite ?sg_now, ?fire_due_sh, ?sg_halted, ?mstep_sh; try reflexivity.
  destruct (halted _); rewrite ?sg_now, ?mstep_sh; reflexivity.
Qed.
Lemma run_from_sh d c evs : forall s, run_from (cB d c) (sh d s) evs = sh d (run_from c s evs).
Proof. unfold run_from. induction evs as [|e r IH]; intros s; cbn [fold_left]; [reflexivity|]. rewrite estep_sh. apply IH. Qed.

(* The shift theorem: from states whose stamps are related, every schedule of micro-steps and every event list of the
   harness scheduler leads to related states; all fields but lsc — in particular the output list with its true
   times, the relay, the timers, the ghost `late` — are EQUAL. *)
Theorem input_shift_micro : forall d c ms s, mrun (cB d c) ms (sh d s) = sh d (mrun c ms s).
Proof. intros; apply mrun_sh. Qed.
Theorem input_shift_events : forall d c evs s, run_from (cB d c) (sh d s) evs = sh d (run_from c s evs).
Proof. intros; apply run_from_sh. Qed.
Corollary input_shift_outs : forall d c evs s,
  outs (run_from (cB d c) (sh d s) evs) = outs (run_from c s evs) /\
  relay (run_from (cB d c) (sh d s) evs) = relay (run_from c s evs) /\
  halted (run_from (cB d c) (sh d s) evs) = halted (run_from c s evs) /\
  now (run_from (cB d c) (sh d s) evs) = now (run_from c s evs).
Proof. intros. rewrite run_from_sh, sg_outs, sg_relay, sg_halted, sg_now. auto. Qed.
Lemma t_now x s : t_on (set_now x s) = t_on s. Proof. destruct s; reflexivity. Qed.
Lemma t_lvl x s : t_on (set_lvl x s) = t_on s. Proof. destruct s; reflexivity. Qed.
Lemma t_dstep x s : t_on (set_dstep x s) = t_on s. Proof. destruct s; reflexivity. Qed.
Lemma t_dval x s : t_on (set_dval x s) = t_on s. Proof. destruct s; reflexivity. Qed.
Lemma t_d_on x s : t_on (set_d_on x s) = t_on s. Proof. destruct s; reflexivity. Qed.
Lemma t_d_due x s : t_on (set_d_due x s) = t_on s. Proof. destruct s; reflexivity. Qed.
Lemma t_d_seq x s : t_on (set_d_seq x s) = t_on s. Proof. destruct s; reflexivity. Qed.
Lemma t_last x s : t_on (set_last x s) = t_on s. Proof. destruct s; reflexivity. Qed.
Lemma t_cc x s : t_on (set_cc x s) = t_on s. Proof. destruct s; reflexivity. Qed.
Lemma t_maxc x s : t_on (set_maxc x s) = t_on s. Proof. destruct s; reflexivity. Qed.
Lemma t_act x s : t_on (set_act x s) = t_on s. Proof. destruct s; reflexivity. Qed.
Lemma t_relg x s : t_on (set_relg x s) = t_on s. Proof. destruct s; reflexivity. Qed.
Lemma t_disg x s : t_on (set_disg x s) = t_on s. Proof. destruct s; reflexivity. Qed.
Lemma t_lsc x s : t_on (set_lsc x s) = t_on s. Proof. destruct s; reflexivity. Qed.
Lemma t_silent x s : t_on (set_silent x s) = t_on s. Proof. destruct s; reflexivity. Qed.
Lemma t_t_due x s : t_on (set_t_due x s) = t_on s. Proof. destruct s; reflexivity. Qed.
Lemma t_t_seq x s : t_on (set_t_seq x s) = t_on s. Proof. destruct s; reflexivity. Qed.
Lemma t_t_adv x s : t_on (set_t_adv x s) = t_on s. Proof. destruct s; reflexivity. Qed.
Lemma t_m_on x s : t_on (set_m_on x s) = t_on s. Proof. destruct s; reflexivity. Qed.
Lemma t_m_due x s : t_on (set_m_due x s) = t_on s. Proof. destruct s; reflexivity. Qed.
Lemma t_m_seq x s : t_on (set_m_seq x s) = t_on s. Proof. destruct s; reflexivity. Qed.
Lemma t_relay x s : t_on (set_relay x s) = t_on s. Proof. destruct s; reflexivity. Qed.
Lemma t_seqc x s : t_on (set_seqc x s) = t_on s. Proof. destruct s; reflexivity. Qed.
Lemma t_halted x s : t_on (set_halted x s) = t_on s. Proof. destruct s; reflexivity. Qed.
Lemma t_late x s : t_on (set_late x s) = t_on s. Proof. destruct s; reflexivity. Qed.
Lemma t_outs x s : t_on (set_outs x s) = t_on s. Proof. destruct s; reflexivity. Qed.
Lemma t_tr x s : t_on (set_tr x s) = t_on s. Proof. destruct s; reflexivity. Qed.
Lemma t_t_on x s : t_on (set_t_on x s) = x. Proof. destruct s; reflexivity. Qed.
#[export] Hint Rewrite t_now t_lvl t_dstep t_dval t_d_on t_d_due t_d_seq t_last t_cc t_maxc t_act t_relg t_disg t_lsc t_silent t_t_due t_t_seq t_t_adv t_m_on t_m_due t_m_seq t_relay t_seqc t_halted t_late t_outs t_tr t_t_on : tdb.

(* ---------- the initial value of lsc is irrelevant when there is no configuration button ----------
   (lsc is read only by the click-window test of the configuration button and by the two timer callbacks, and the
   timer is armed only after lsc was stamped) *)
Lemma t_if (b : bool) (x y : st) : t_on (if b then x else y) = if b then t_on x else t_on y. Proof. destruct b; reflexivity. Qed.
Lemma t_emit o s : t_on (emit o s) = t_on s. Proof. unfold emit. autorewrite with tdb. reflexivity. Qed.
#[export] Hint Rewrite t_emit : tdb.
Lemma t_halt s : t_on (halt s) = t_on s. Proof. unfold halt. autorewrite with tdb. reflexivity. Qed.
Lemma t_arm_d s : t_on (arm_d s) = t_on s. Proof. unfold arm_d. autorewrite with tdb. reflexivity. Qed.
Lemma t_relay_switch h s : t_on (relay_switch h s) = t_on s.
Proof. unfold relay_switch. cbv zeta. autorewrite with tdb. rewrite t_if. autorewrite with tdb. destruct (_ =? _); reflexivity. Qed.
#[export] Hint Rewrite t_halt t_arm_d t_relay_switch : tdb.
Ltac tsplit := repeat (rewrite ?t_if; autorewrite with tdb); repeat match goal with |- context [if ?b then _ else _] => destruct b end; try reflexivity.
Lemma t_on_active c lg s : t_on (on_active c lg s) = t_on s. Proof. unfold on_active. cbv zeta. tsplit. Qed.
Lemma t_on_inactive c lg s : t_on (on_inactive c lg s) = t_on s. Proof. unfold on_inactive. cbv zeta. tsplit. Qed.
Lemma t_emit_trigger c a s : t_on (emit_trigger c a s) = t_on s. Proof. unfold emit_trigger. tsplit. Qed.
#[export] Hint Rewrite t_on_active t_on_inactive t_emit_trigger : tdb.
Lemma t_isr c s : t_on (isr c s) = t_on s. Proof. unfold isr. tsplit. Qed.
Lemma t_mot_cb c s : t_on (mot_cb c s) = t_on s. Proof. unfold mot_cb. tsplit. Qed.
Lemma t_set_triggers c m s : t_on s = false -> t_on (set_triggers c m s) = false.
Proof. intros H. unfold set_triggers. cbv zeta. tsplit; assumption. Qed.

(* b is a, or a with another lsc while its timer is off *)
Definition Ev (v : Z) (a b : st) : Prop := b = a \/ (t_on a = false /\ b = set_lsc v a).

Section NoCfgButton.
Variable c : cfgT.
Hypothesis Hcfg : cfg_btn c = false.
Lemma no_hold : on_hold_en c = false. Proof. unfold on_hold_en. rewrite Hcfg. reflexivity. Qed.
Lemma no_toggle : on_toggle_en c = false. Proof. unfold on_toggle_en. rewrite Hcfg. reflexivity. Qed.

Lemma legacy_handler_irr v x s : Ev v (legacy_handler c x s) (legacy_handler c x (set_lsc v s)).
Proof.
  unfold legacy_handler. rewrite Hcfg, no_hold. cbv zeta. autorewrite with shg.
  destruct (halted (set_t_on false s)).
  - right. split; [apply t_t_on | reflexivity].
  - destruct (x =? ST_ACTIVE).
    + left. reflexivity.
    + right. autorewrite with tdb. split; reflexivity.
Qed.
Lemma adv_handler_irr v x s : Ev v (adv_handler c x s) (adv_handler c x (set_lsc v s)).
Proof.
  unfold adv_handler. rewrite no_toggle. cbv zeta. cbn [andb]. autorewrite with shg.
  match goal with |- context [if halted ?s1 then _ else _] => destruct (halted s1) eqn:Eh end.
  - right. split; [|reflexivity]. tsplit.
  - left. reflexivity.
Qed.
Lemma notify_irr v x s : t_on s = false -> Ev v (notify c x s) (notify c x (set_lsc v s)).
Proof.
  intros Ht. unfold notify. cbv zeta. autorewrite with shg.
  destruct (silent (emit _ s) && _).
  - right. autorewrite with tdb. auto.
  - destruct (last _ =? x).
    + right. autorewrite with tdb. auto.
    + destruct (negb _).
      * rewrite <- !c_t_adv, <- !c_last, <- !c_t_on, <- !c_silent. apply adv_handler_irr.
      * rewrite <- !c_t_adv, <- !c_last, <- !c_t_on, <- !c_silent. apply legacy_handler_irr.
Qed.

Lemma deb_cb_irr v s : t_on s = false -> Ev v (deb_cb c s) (deb_cb c (set_lsc v s)).
Proof.
  intros Ht. unfold deb_cb. cbv zeta. autorewrite with shg.
  destruct ((dstep s =? 1) || _).
  { right. autorewrite with tdb. auto. }
  destruct (MIN_CYCLE_COUNT <? dstep s).
  - destruct (notify_irr v (if lvl s =? active_level c then ST_ACTIVE else ST_INACTIVE) s Ht) as [E|[Ht1 E]]; rewrite E.
    + left. reflexivity.
    + right. autorewrite with shg. destruct (halted _); autorewrite with tdb; auto.
  - right. autorewrite with tdb. auto.
Qed.

Lemma mact_irr v m s : t_on s = false -> Ev v (mact c m s) (mact c m (set_lsc v s)).
Proof.
  intros Ht. unfold mact. autorewrite with shg. destruct (halted s); [right; auto|].
  destruct m; autorewrite with shg.
  - destruct (now s <=? t); right; autorewrite with tdb; auto.
  - destruct (l =? lvl s); right; [auto|]. rewrite t_isr. autorewrite with tdb. auto.
  - destruct (d_on s && _); [|right; auto].
    rewrite <- !c_seqc, <- !c_d_seq, <- !c_d_due. apply deb_cb_irr. autorewrite with tdb. exact Ht.
  - rewrite Ht. cbn [andb]. right; auto.
  - destruct (m_on s && _); right; [|auto]. rewrite t_mot_cb. autorewrite with tdb. auto.
  - right. split; [apply t_set_triggers; exact Ht | reflexivity].
  - right. autorewrite with tdb. auto.
Qed.

Lemma mstep_E v m a b : Ev v a b -> Ev v (mstep c m a) (mstep c m b).
Proof.
  intros [->|[Ht ->]]; [left; reflexivity|].
  unfold mstep. destruct (mact_irr v m a Ht) as [E|[Ht1 E]]; rewrite E.
  - left. reflexivity.
  - right. autorewrite with shg tdb. auto.
Qed.
Lemma Ev_fields v a b : Ev v a b ->
  outs b = outs a /\ halted b = halted a /\ now b = now a /\ relay b = relay a /\ (forall e, pick b e = pick a e).
Proof.
  intros [->|[_ ->]]; [auto 6|]. unfold pick. autorewrite with shg. auto 6.
Qed.
Lemma fire_due_E v fuel : forall e a b, Ev v a b -> Ev v (fire_due c fuel e a) (fire_due c fuel e b).
Proof.
  induction fuel as [|f IH]; intros e a b H; cbn [fire_due];
    destruct (Ev_fields v a b H) as (_ & _ & En & _ & Ep); rewrite Ep.
  - destruct (pick a e); [apply mstep_E; exact H | exact H].
  - destruct (pick a e) as [[[due q] k]|]; [|exact H]. rewrite En.
    assert (H2 : Ev v (mstep c (micro_of k) (mstep c (MTime (Z.max (now a) due)) a))
                      (mstep c (micro_of k) (mstep c (MTime (Z.max (now a) due)) b))) by (apply mstep_E, mstep_E; exact H).
    destruct (Ev_fields v _ _ H2) as (_ & Eh & _). rewrite Eh. clear Eh.
    match goal with |- context [if halted ?x then _ else _] => destruct (halted x) end; [exact H2 | apply IH; exact H2].
Qed.
Lemma estep_E v a b ev : Ev v a b -> Ev v (estep c a ev) (estep c b ev).
Proof.
  intros H. unfold estep. destruct (Ev_fields v a b H) as (_ & Eh & En & _). rewrite Eh, En. clear Eh En.
  destruct (halted a); [exact H|].
  destruct ev; try (apply mstep_E; exact H); [|exact H].
  assert (H2 := fire_due_E v (Z.to_nat (dt / 5000) + 100) (now a + dt) a b H).
  destruct (Ev_fields v _ _ H2) as (_ & Eh2 & En2 & _). rewrite Eh2, En2. clear Eh2 En2.
  match goal with |- context [if halted ?x then _ else _] => destruct (halted x) end; [exact H2 | apply mstep_E; exact H2].
Qed.
Lemma run_from_E v evs : forall a b, Ev v a b -> Ev v (run_from c a evs) (run_from c b evs).
Proof. unfold run_from. induction evs as [|e r IH]; intros a b H; cbn [fold_left]; [exact H|]. apply IH, estep_E, H. Qed.
End NoCfgButton.

(* ---------- the property-level statement: two devices that differ only in the boot value of the counter ---------- *)
Lemma init_cB d c l0 : init (cB d c) l0 = init c l0. Proof. reflexivity. Qed.
Lemma init_t_on c l0 : t_on (init c l0) = false. Proof. reflexivity. Qed.

Theorem C19_input_shift_invariance_thm : forall c bootB l0 evs, cfg_btn c = false ->
  let a := run c l0 evs in
  let b := run (wb bootB c) l0 evs in
  outs b = outs a /\ relay b = relay a /\ halted b = halted a /\ now b = now a /\
  exists v, b = set_lsc v a.
Proof.
  intros c bootB l0 evs Hcfg. cbv zeta.
  set (d := bootB - boot c).
  assert (Ec : wb bootB c = cB d c) by (unfold cB, d; f_equal; lia). rewrite Ec.
  unfold run. rewrite init_cB.
  (* run B from init = run B from sh d (init with lsc := -d) ; the latter is the shifted image of run A' *)
  set (s0 := init c l0).
  assert (E0 : s0 = sh d (set_lsc (u32 (- d)) s0)).
  { unfold sh. rewrite g_lsc, c_lsc. replace (u32 (u32 (- d) + d)) with 0.
    - reflexivity.
    - rewrite u32_add_l. replace (- d + d) with 0 by lia. reflexivity. }
  assert (EB : run_from (cB d c) s0 evs = sh d (run_from c (set_lsc (u32 (- d)) s0) evs)).
  { rewrite E0 at 1. apply run_from_sh. }
  rewrite EB. clear EB.
  assert (HE : Ev (u32 (- d)) (run_from c s0 evs) (run_from c (set_lsc (u32 (- d)) s0) evs)).
  { apply run_from_E; [exact Hcfg|]. right. split; [apply init_t_on | reflexivity]. }
  destruct (Ev_fields _ _ _ HE) as (Eo & Eh & En & Er & _).
  rewrite sg_outs, sg_relay, sg_halted, sg_now. repeat split; auto.
  destruct HE as [->|[_ ->]]; unfold sh; autorewrite with shg; eexists; reflexivity.
Qed.

(* The hypothesis cfg_btn c = false of the theorem above is necessary: a configuration button that is held during start-up
   and released after the silent period makes the first click-window test read lsc = 0, i.e. the raw counter; with the
   counter below / above 2 s at that moment the click counter differs (visible in the fourth notify) *)
Definition cfgbtn_cfg (b : Z) : cfgT :=
  {| boot := b; typ := TYPE_MONOSTABLE; flags := FLAG_CFG_BTN; rel := false; chan := 255; cap := 0; rst := true |}.
Definition cfgbtn_evs : list event := [EAdv 600000; EIn 0; EAdv 400000; EIn 1; EAdv 400000].
Example cfgbtn_initial_window_depends_on_boot :
  rev (outs (run (cfgbtn_cfg 1) 1 cfgbtn_evs)) =
    [ONotify 120000 1 0 0; ONotify 720000 0 1 0; OInactive 720000; ONotify 1120000 1 0 0; OActive 1120000] /\
  rev (outs (run (cfgbtn_cfg 5000001) 1 cfgbtn_evs)) =
    [ONotify 120000 1 0 0; ONotify 720000 0 1 0; OInactive 720000; ONotify 1120000 1 0 1; OActive 1120000].
Proof. vm_compute. split; reflexivity. Qed.
