(* C19 (b) — shift invariance of the shutter model of C08: two runs of the same event list whose boot
   counter values differ by c produce the same outputs (same true times), provided neither run samples a
   stamp that is exactly 0.  Simulation relation: every stored stamp of run B is the stamp of run A shifted
   by c modulo 2^32 (or both are 0 = unset).  Model = code after docs/fixes/C08_rs_wrap.diff (og = false). *)
From Coq Require Import List ZArith Bool Lia.
Import ListNotations.
From V Require Import Base.U32 Gen.RsSpacingConsts C08.Model C08.Proofs.
Local Open Scope Z_scope.

Definition stamp_rel (c a b : Z) : Prop :=
  (a = 0 /\ b = 0) \/ (0 < a /\ 0 < b /\ b = u32 (a + c)).

Record Rel (c : Z) (x y : sh) : Prop := {
  r_pa : pa y = pa x; r_pb : pb y = pb x; r_swp : swp y = swp x;
  r_armed : armed y = armed x; r_due : due y = due x; r_seq : seq y = seq x; r_dval : dval y = dval x; r_blk : blk y = blk x;
  r_start : stamp_rel c (start x) (start y); r_stop : stamp_rel c (stop x) (stop y) }.

Lemma stamp_rel_zero c a b : stamp_rel c a b -> (a =? 0) = (b =? 0).
Proof. intros [[-> ->]|(Ha & Hb & _)]; [reflexivity|]. rewrite (proj2 (Z.eqb_neq a 0)), (proj2 (Z.eqb_neq b 0)) by lia. reflexivity. Qed.
Lemma stamp_rel_pos c a b : stamp_rel c a b -> (0 <? a) = (0 <? b).
Proof. intros [[-> ->]|(Ha & Hb & _)]; [reflexivity|]. rewrite (proj2 (Z.ltb_lt 0 a)), (proj2 (Z.ltb_lt 0 b)) by lia. reflexivity. Qed.
(* the modular difference does not see the shift *)
Lemma stamp_rel_diff c a b ta : stamp_rel c a b -> a <> 0 -> u32 (u32 (ta + c) - b) = u32 (ta - a).
Proof.
  intros [[-> ->]|(Ha & Hb & ->)] Hne; [contradiction|].
  rewrite u32_sub_l, u32_sub_r. f_equal. lia.
Qed.

Lemma counter_shift bootA bootB now : u32 (bootB + now) = u32 (u32 (bootA + now) + (bootB - bootA)).
Proof. rewrite u32_add_l. f_equal. lia. Qed.

Lemma stamp_new c t : t <> 0 -> u32 (t + c) <> 0 -> 0 <= t -> stamp_rel c t (u32 (t + c)).
Proof. intros H1 H2 H0. right. pose proof (u32_range (t + c)). repeat split; lia. Qed.

Lemma is_zero_wp_edge idx s now a hi : no_zero (wp_edge idx s now a hi).
Proof. unfold wp_edge, no_zero. destruct (Bool.eqb _ _); reflexivity. Qed.

(* writing one pin *)
Lemma write_pin_rel bootA bootB idx x y now a hi :
  Rel (bootB - bootA) x y ->
  no_zero (wp_edge idx x now a hi ++ wp_zero bootA idx x now a hi) ->
  no_zero (wp_edge idx y now a hi ++ wp_zero bootB idx y now a hi) ->
  Rel (bootB - bootA) (wp_sh bootA x now a hi) (wp_sh bootB y now a hi) /\
  wp_edge idx y now a hi ++ wp_zero bootB idx y now a hi = wp_edge idx x now a hi ++ wp_zero bootA idx x now a hi.
Proof.
  intros [Ra Rb Rs Rar Rdu Rsq Rdv Rbl Rst Rsp] HzA HzB.
  apply no_zero_app in HzA as [_ HzA]. apply no_zero_app in HzB as [_ HzB].
  set (c := bootB - bootA) in *.
  pose proof (counter_shift bootA bootB now) as Ht. fold c in Ht.
  pose proof (u32_range (bootA + now)) as HrA.
  set (tA := u32 (bootA + now)) in *. set (tB := u32 (bootB + now)) in *.
  assert (Eedge : wp_edge idx y now a hi = wp_edge idx x now a hi).
  { unfold wp_edge, pin_on. rewrite Ra, Rb. reflexivity. }
  assert (Estored : wp_stored y a hi = wp_stored x a hi).
  { unfold wp_stored. rewrite Ra, Rb, <- (stamp_rel_zero _ _ _ Rst), <- (stamp_rel_zero _ _ _ Rsp). reflexivity. }
  unfold wp_zero in HzA, HzB. fold tA in HzA. fold tB in HzB. rewrite Estored in HzB.
  assert (Hst : wp_stored x a hi = true -> tA <> 0 /\ tB <> 0).
  { intros E. rewrite E in HzA, HzB. cbn [andb] in *.
    destruct (tA =? 0) eqn:EA; [discriminate|]. destruct (tB =? 0) eqn:EB; [discriminate|].
    split; apply Z.eqb_neq; assumption. }
  split.
  - unfold wp_stored in Hst. unfold wp_sh. fold tA tB. rewrite Ra, Rb.
    constructor; cbn [pa pb swp start stop armed due seq dval blk]; auto.
    + destruct (negb (if a then hi else pa x) && negb (if a then pb x else hi)); [left; auto|].
      rewrite <- (stamp_rel_zero _ _ _ Rst).
      destruct (start x =? 0) eqn:E0; [|exact Rst].
      destruct (Hst eq_refl) as [HA HB]. rewrite Ht. apply stamp_new; lia.
    + destruct (negb (if a then hi else pa x) && negb (if a then pb x else hi)); [|left; auto].
      rewrite <- (stamp_rel_zero _ _ _ Rsp).
      destruct (stop x =? 0) eqn:E0; [|exact Rsp].
      destruct (Hst eq_refl) as [HA HB]. rewrite Ht. apply stamp_new; lia.
  - rewrite Eedge. f_equal. unfold wp_zero. fold tA tB. rewrite Estored.
    destruct (wp_stored x a hi) eqn:E; [|reflexivity].
    destruct (Hst eq_refl) as [HA HB]. apply Z.eqb_neq in HA, HB. rewrite HA, HB. reflexivity.
Qed.

Lemma Rel_disarm c x y : Rel c x y -> Rel c (disarm x) (disarm y).
Proof. intros [? ? ? ? ? ? ? ? ? ?]; constructor; cbn; auto. Qed.
Lemma Rel_arm c x y v d q : Rel c x y -> Rel c (arm x v d q) (arm y v d q).
Proof. intros [? ? ? ? ? ? ? ? ? ?]; constructor; cbn; auto. Qed.

Lemma role_on_rel c x y r : Rel c x y -> role_on y r = role_on x r.
Proof. intros R. unfold role_on, role_is_a, pin_on. rewrite (r_swp _ _ _ R), (r_pa _ _ _ R), (r_pb _ _ _ R). reflexivity. Qed.
Lemma role_is_a_rel c x y r : Rel c x y -> role_is_a y r = role_is_a x r.
Proof. intros R. unfold role_is_a. rewrite (r_swp _ _ _ R). reflexivity. Qed.

Lemma start_delay_rel c x y tA : Rel c x y ->
  start_delay_ms false y (u32 (tA + c)) = start_delay_ms false x tA.
Proof.
  intros R. unfold start_delay_ms. cbn [implb].
  rewrite <- (stamp_rel_zero _ _ _ (r_start _ _ _ R)), <- (stamp_rel_pos _ _ _ (r_stop _ _ _ R)).
  destruct (0 <? stop x) eqn:E; [|rewrite !andb_false_r; reflexivity].
  apply Z.ltb_lt in E. rewrite (stamp_rel_diff _ _ _ tA (r_stop _ _ _ R)) by lia. reflexivity.
Qed.
Lemma stop_delay_rel c x y sd tA : Rel c x y ->
  stop_delay_ms false sd y (u32 (tA + c)) = stop_delay_ms false sd x tA.
Proof.
  intros R. unfold stop_delay_ms. cbn [implb].
  rewrite <- (stamp_rel_zero _ _ _ (r_stop _ _ _ R)), <- (stamp_rel_pos _ _ _ (r_start _ _ _ R)).
  destruct (0 <? start x) eqn:E; [|rewrite !andb_false_r; cbn; rewrite ?andb_false_r; reflexivity].
  apply Z.ltb_lt in E. rewrite (stamp_rel_diff _ _ _ tA (r_start _ _ _ R)) by lia. reflexivity.
Qed.

Lemma relay_hi_rel bootA bootB idx x y now r hi sA nA oA sB nB oB :
  Rel (bootB - bootA) x y ->
  relay_hi bootA idx x now r hi = (sA, nA, oA) -> relay_hi bootB idx y now r hi = (sB, nB, oB) ->
  no_zero oA -> no_zero oB -> Rel (bootB - bootA) sA sB /\ nB = nA /\ oB = oA.
Proof.
  intros R EA EB HzA HzB. unfold relay_hi, write_pin in *. rewrite (role_is_a_rel _ _ _ r R) in EB.
  injection EA as <- <- <-. injection EB as <- <- <-.
  destruct (write_pin_rel bootA bootB idx x y now (role_is_a x r) hi R HzA HzB) as [R' Eo]. auto.
Qed.

Lemma prepare_rel bootA bootB idx x y now value sdz sA nA oA dA sB nB oB dB :
  Rel (bootB - bootA) x y ->
  prepare false bootA idx x now value sdz = (sA, nA, oA, dA) ->
  prepare false bootB idx y now value sdz = (sB, nB, oB, dB) ->
  no_zero oA -> no_zero oB -> Rel (bootB - bootA) sA sB /\ nB = nA /\ oB = oA /\ dB = dA.
Proof.
  intros R EA EB HzA HzB. unfold prepare in *.
  pose proof (Rel_disarm _ _ _ R) as Rd.
  destruct (value =? RS_OFF).
  - injection EA as <- <- <- <-. injection EB as <- <- <- <-.
    split; [exact Rd|]. split; [reflexivity|]. split; [reflexivity|].
    rewrite (counter_shift bootA bootB now). apply stop_delay_rel; assumption.
  - rewrite (role_on_rel _ _ _ _ Rd) in EB.
    destruct (role_on (disarm x) (negb (value =? RS_UP))).
    + destruct (relay_hi bootA idx (disarm x) now (negb (value =? RS_UP)) false) as [[s1 n1] o1] eqn:E1.
      destruct (relay_hi bootB idx (disarm y) now (negb (value =? RS_UP)) false) as [[s2 n2] o2] eqn:E2.
      injection EA as <- <- <- <-. injection EB as <- <- <- <-.
      destruct (relay_hi_rel _ _ _ _ _ _ _ _ _ _ _ _ _ _ Rd E1 E2 HzA HzB) as (R1 & -> & ->).
      split; [exact R1|]. split; [reflexivity|]. split; [reflexivity|].
      rewrite (counter_shift bootA bootB (n1 + RS_SETTLE_US)). apply start_delay_rel; assumption.
    + injection EA as <- <- <- <-. injection EB as <- <- <- <-.
      split; [exact Rd|]. split; [reflexivity|]. split; [reflexivity|].
      rewrite (counter_shift bootA bootB now). apply start_delay_rel; assumption.
Qed.

Lemma set_relay_prefix og boot idx x now q value sdz s1 n1 o1 d s' n' q' o :
  prepare og boot idx x now value sdz = (s1, n1, o1, d) ->
  (let '(s1, n1, o1, delay) := (s1, n1, o1, d) in
   if RS_DELAY_THRESHOLD <? delay then
     (arm s1 value (n1 + delay * 1000) q, n1, q + 1, o1 ++ [OArm idx n1 delay])
   else if value =? RS_UP then
     if blk s1 =? 1 then (s1, n1, q, o1)
     else let '(s2, n2, o2) := relay_hi boot idx s1 n1 true true in (s2, n2, q, o1 ++ o2)
   else if value =? RS_DOWN then
     if blk s1 =? 2 then (s1, n1, q, o1)
     else let '(s2, n2, o2) := relay_hi boot idx s1 n1 false true in (s2, n2, q, o1 ++ o2)
   else
     let '(s2, n2, o2) := relay_hi boot idx s1 n1 true false in
     let '(s3, n3, o3) := relay_hi boot idx s2 n2 false false in
     (s3, n3, q, o1 ++ o2 ++ o3)) = (s', n', q', o) ->
  exists rest, o = o1 ++ rest.
Proof.
  intros _ E. cbv beta iota in E.
  destruct (RS_DELAY_THRESHOLD <? d); [injection E as <- <- <- <-; eauto|].
  destruct (value =? RS_UP).
  { destruct (blk s1 =? 1); [injection E as <- <- <- <-; exists []; rewrite app_nil_r; reflexivity|].
    destruct (relay_hi boot idx s1 n1 true true) as [[? ?] ?]. injection E as <- <- <- <-; eauto. }
  destruct (value =? RS_DOWN).
  { destruct (blk s1 =? 2); [injection E as <- <- <- <-; exists []; rewrite app_nil_r; reflexivity|].
    destruct (relay_hi boot idx s1 n1 false true) as [[? ?] ?]. injection E as <- <- <- <-; eauto. }
  destruct (relay_hi boot idx s1 n1 true false) as [[s2 n2] o2].
  destruct (relay_hi boot idx s2 n2 false false) as [[? ?] ?]. injection E as <- <- <- <-; eauto.
Qed.

Lemma set_relay_rel bootA bootB idx x y now q value sdz sA nA qA oA sB nB qB oB :
  Rel (bootB - bootA) x y ->
  set_relay false bootA idx x now q value sdz = (sA, nA, qA, oA) ->
  set_relay false bootB idx y now q value sdz = (sB, nB, qB, oB) ->
  no_zero oA -> no_zero oB -> Rel (bootB - bootA) sA sB /\ nB = nA /\ qB = qA /\ oB = oA.
Proof.
  intros R EA EB HzA HzB. unfold set_relay in *.
  destruct (prepare false bootA idx x now value sdz) as [[[s1 n1] o1] d1] eqn:P1.
  destruct (prepare false bootB idx y now value sdz) as [[[s2 n2] o2] d2] eqn:P2.
  assert (Hz1 : no_zero o1 /\ no_zero o2).
  { destruct (set_relay_prefix _ _ _ _ _ _ _ _ _ _ _ _ _ _ _ _ P1 EA) as [r1 ->].
    destruct (set_relay_prefix _ _ _ _ _ _ _ _ _ _ _ _ _ _ _ _ P2 EB) as [r2 ->].
    apply no_zero_app in HzA as [? _]. apply no_zero_app in HzB as [? _]. auto. }
  destruct Hz1 as [Hz1 Hz2].
  destruct (prepare_rel _ _ _ _ _ _ _ _ _ _ _ _ _ _ _ _ R P1 P2 Hz1 Hz2) as (R1 & -> & -> & ->).
  destruct (RS_DELAY_THRESHOLD <? d1).
  { injection EA as <- <- <- <-. injection EB as <- <- <- <-. split; [apply Rel_arm; assumption|]. auto. }
  rewrite (r_blk _ _ _ R1) in EB.
  destruct (value =? RS_UP).
  { destruct (blk s1 =? 1).
    { injection EA as <- <- <- <-. injection EB as <- <- <- <-. auto. }
    destruct (relay_hi bootA idx s1 n1 true true) as [[s3 n3] o3] eqn:E3.
    destruct (relay_hi bootB idx s2 n1 true true) as [[s4 n4] o4] eqn:E4.
    injection EA as <- <- <- <-. injection EB as <- <- <- <-.
    apply no_zero_app in HzA as [_ HzA]. apply no_zero_app in HzB as [_ HzB].
    destruct (relay_hi_rel _ _ _ _ _ _ _ _ _ _ _ _ _ _ R1 E3 E4 HzA HzB) as (R3 & -> & ->). auto. }
  destruct (value =? RS_DOWN).
  { destruct (blk s1 =? 2).
    { injection EA as <- <- <- <-. injection EB as <- <- <- <-. auto. }
    destruct (relay_hi bootA idx s1 n1 false true) as [[s3 n3] o3] eqn:E3.
    destruct (relay_hi bootB idx s2 n1 false true) as [[s4 n4] o4] eqn:E4.
    injection EA as <- <- <- <-. injection EB as <- <- <- <-.
    apply no_zero_app in HzA as [_ HzA]. apply no_zero_app in HzB as [_ HzB].
    destruct (relay_hi_rel _ _ _ _ _ _ _ _ _ _ _ _ _ _ R1 E3 E4 HzA HzB) as (R3 & -> & ->). auto. }
  destruct (relay_hi bootA idx s1 n1 true false) as [[s3 n3] o3] eqn:E3.
  destruct (relay_hi bootA idx s3 n3 false false) as [[s5 n5] o5] eqn:E5.
  destruct (relay_hi bootB idx s2 n1 true false) as [[s4 n4] o4] eqn:E4.
  destruct (relay_hi bootB idx s4 n4 false false) as [[s6 n6] o6] eqn:E6.
  injection EA as <- <- <- <-. injection EB as <- <- <- <-.
  apply no_zero_app in HzA as [_ HzA]. apply no_zero_app in HzB as [_ HzB].
  apply no_zero_app in HzA as [HzA3 HzA5]. apply no_zero_app in HzB as [HzB4 HzB6].
  destruct (relay_hi_rel _ _ _ _ _ _ _ _ _ _ _ _ _ _ R1 E3 E4 HzA3 HzB4) as (R3 & -> & ->).
  destruct (relay_hi_rel _ _ _ _ _ _ _ _ _ _ _ _ _ _ R3 E5 E6 HzA5 HzB6) as (R5 & -> & ->). auto.
Qed.

(* ---------- the device ---------- *)
Record RelSt (c : Z) (a b : st) : Prop := {
  rs_now : now b = now a; rs_seqc : seqc b = seqc a; rs_shs : Forall2 (Rel c) (shs a) (shs b) }.

Lemma Forall2_nth_error {A B} (R : A -> B -> Prop) l1 l2 n :
  Forall2 R l1 l2 ->
  match nth_error l1 n, nth_error l2 n with
  | Some x, Some y => R x y
  | None, None => True
  | _, _ => False
  end.
Proof.
  intros H; revert n; induction H as [|x y l1 l2 Hxy H IH]; intros [|n]; cbn; auto. apply IH.
Qed.
Lemma Forall2_nth_sh c l1 l2 i : Forall2 (Rel c) l1 l2 ->
  match nth_sh l1 i, nth_sh l2 i with
  | Some x, Some y => Rel c x y
  | None, None => True
  | _, _ => False
  end.
Proof. intros H. unfold nth_sh. destruct (i <? 0); [exact I|]. apply Forall2_nth_error; assumption. Qed.
Lemma Forall2_upd c l1 l2 n x y : Forall2 (Rel c) l1 l2 -> Rel c x y -> Forall2 (Rel c) (upd l1 n x) (upd l2 n y).
Proof.
  intros H; revert n; induction H as [|a b l1 l2 Hab H IH]; intros [|n] Hxy; cbn; constructor; auto.
Qed.

Lemma step_rel bootA bootB sA sB e sA' oA sB' oB :
  RelSt (bootB - bootA) sA sB ->
  step false bootA sA e = (sA', oA) -> step false bootB sB e = (sB', oB) ->
  no_zero oA -> no_zero oB -> RelSt (bootB - bootA) sA' sB' /\ oB = oA.
Proof.
  intros [Rn Rq Rl] EA EB HzA HzB.
  destruct e as [i v sd | i m | i p | i | t]; cbn [step] in EA, EB;
    try (pose proof (Forall2_nth_sh _ _ _ i Rl) as Hi;
         destruct (nth_sh (shs sA) i) as [x|] eqn:HxA; destruct (nth_sh (shs sB) i) as [y|] eqn:HxB; try contradiction;
         [|injection EA as <- <-; injection EB as <- <-; split; [constructor; auto | reflexivity]]).
  - rewrite Rn, Rq in EB.
    destruct (set_relay false bootA i x (now sA) (seqc sA) v sd) as [[[x' n'] q'] o'] eqn:SA.
    destruct (set_relay false bootB i y (now sA) (seqc sA) v sd) as [[[y' m'] r'] p'] eqn:SB.
    injection EA as <- <-. injection EB as <- <-.
    destruct (set_relay_rel _ _ _ _ _ _ _ _ _ _ _ _ _ _ _ _ _ Hi SA SB HzA HzB) as (R' & -> & -> & ->).
    split; [|reflexivity]. constructor; cbn [now seqc shs]; auto. apply Forall2_upd; assumption.
  - rewrite (r_swp _ _ _ Hi) in EB.
    destruct (_ && _).
    + injection EA as <- <-. injection EB as <- <-. split; [|reflexivity].
      constructor; cbn [now seqc shs]; auto. apply Forall2_upd; auto.
      destruct Hi; constructor; cbn; auto; congruence.
    + injection EA as <- <-. injection EB as <- <-. split; [constructor; auto | reflexivity].
  - injection EA as <- <-. injection EB as <- <-. split; [|reflexivity].
    constructor; cbn [now seqc shs]; auto. apply Forall2_upd; auto. destruct Hi; constructor; cbn; auto.
  - rewrite (r_armed _ _ _ Hi) in EB. destruct (armed x).
    + rewrite Rn, Rq, (r_dval _ _ _ Hi) in EB.
      destruct (set_relay false bootA i x (now sA) (seqc sA) (dval x) 0) as [[[x' n'] q'] o'] eqn:SA.
      destruct (set_relay false bootB i y (now sA) (seqc sA) (dval x) 0) as [[[y' m'] r'] p'] eqn:SB.
      injection EA as <- <-. injection EB as <- <-.
      destruct (set_relay_rel _ _ _ _ _ _ _ _ _ _ _ _ _ _ _ _ _ Hi SA SB HzA HzB) as (R' & -> & -> & ->).
      split; [|reflexivity]. constructor; cbn [now seqc shs]; auto. apply Forall2_upd; assumption.
    + injection EA as <- <-. injection EB as <- <-. split; [constructor; auto | reflexivity].
  - injection EA as <- <-. injection EB as <- <-. split; [|reflexivity]. constructor; cbn [now seqc shs]; auto. congruence.
Qed.

Lemma run_rel bootA bootB evs : forall sA sB sA' oA sB' oB,
  RelSt (bootB - bootA) sA sB ->
  run_from false bootA sA evs = (sA', oA) -> run_from false bootB sB evs = (sB', oB) ->
  no_zero oA -> no_zero oB -> oB = oA.
Proof.
  induction evs as [|e r IH]; intros sA sB sA' oA sB' oB R EA EB HzA HzB; cbn [run_from] in EA, EB.
  - injection EA as <- <-. injection EB as <- <-. reflexivity.
  - destruct (step false bootA sA e) as [a1 p1] eqn:SA. destruct (run_from false bootA a1 r) as [a2 p2] eqn:RA.
    destruct (step false bootB sB e) as [b1 q1] eqn:SB. destruct (run_from false bootB b1 r) as [b2 q2] eqn:RB.
    injection EA as <- <-. injection EB as <- <-.
    apply no_zero_app in HzA as [HzA1 HzA2]. apply no_zero_app in HzB as [HzB1 HzB2].
    destruct (step_rel _ _ _ _ _ _ _ _ _ R SA SB HzA1 HzB1) as [R1 ->].
    rewrite (IH _ _ _ _ _ _ R1 RA RB HzA2 HzB2). reflexivity.
Qed.

Lemma Forall2_repeat {A B} (R : A -> B -> Prop) x y n : R x y -> Forall2 R (repeat x n) (repeat y n).
Proof. intros H; induction n; cbn; constructor; auto. Qed.

Lemma init_outs_nil boot n t0 : no_zero (init_outs boot n t0) -> init_outs boot n t0 = [] /\ ((0 < Z.to_nat n)%nat -> u32 (boot + t0) <> 0).
Proof.
  unfold init_outs, no_zero. destruct (u32 (boot + t0) =? 0) eqn:E.
  - destruct (Z.to_nat n); cbn; [split; [reflexivity | lia] | discriminate].
  - apply Z.eqb_neq in E. auto.
Qed.

(* the outputs (GPIO edges and timer armings with their true times) do not depend on the boot value of the
   counter, wrap-around included, excluding runs in which a sampled stamp is exactly 0 *)
Theorem C19_shutter_shift_invariance_thm : forall bootA bootB n t0 evs,
  no_zero (run bootA n t0 evs) -> no_zero (run bootB n t0 evs) ->
  run bootB n t0 evs = run bootA n t0 evs.
Proof.
  intros bootA bootB n t0 evs HzA HzB. unfold run in *. change CURRENT_OG with false in *.
  apply no_zero_app in HzA as [HiA HzA]. apply no_zero_app in HzB as [HiB HzB].
  destruct (init_outs_nil _ _ _ HiA) as [-> HA]. destruct (init_outs_nil _ _ _ HiB) as [-> HB]. cbn [app].
  destruct (run_from false bootA (init bootA n t0) evs) as [sA oA] eqn:EA.
  destruct (run_from false bootB (init bootB n t0) evs) as [sB oB] eqn:EB. cbn [snd] in *.
  eapply run_rel; eauto.
  constructor; cbn [init now seqc shs]; auto.
  destruct (Z.to_nat n) as [|k] eqn:En; [constructor|].
  apply Forall2_repeat. constructor; cbn [init_sh pa pb swp armed due seq dval blk start stop]; auto; try (left; split; reflexivity).
  right. pose proof (u32_range (bootA + t0)). pose proof (u32_range (bootB + t0)).
  specialize (HA ltac:(lia)). specialize (HB ltac:(lia)).
  repeat split; try lia. rewrite <- counter_shift. reflexivity.
Qed.

(* the unchanged code is not shift-invariant: same witness as C08_old_code_refuted *)
Theorem C19_old_code_not_shift_invariant_thm :
  no_zero (run_og true 1 1 0 witness_evs) /\ no_zero (run_og true witness_boot 1 0 witness_evs) /\
  run_og true 1 1 0 witness_evs <> run_og true witness_boot 1 0 witness_evs.
Proof. vm_compute. repeat split; try reflexivity. intro H; discriminate H. Qed.
