(* C19 — behaviour is independent of the absolute value of the microsecond counter.  Definitions only.

   (a) src/user/uptime.c: uptime_usec / uptime_msec / uptime_sec and the 10 s poll timer of
       supla_esp_uptime_init, with the C widths (cycles, last_system_time: uint32; usec, msec: 64-bit;
       sec: uint32).
   (b) the stamp-shift simulation relation for the shutter model of C08 (C08/Model.v) is stated in
       C19/Proofs.v; nothing new is defined for it here.
   True time `now` is an unbounded Z of microseconds since boot; the counter read is u32 (boot + now). *)
From Coq Require Import List ZArith Bool Lia.
Import ListNotations.
From V Require Import Base.U32 Base.Iface Gen.UptimeConsts.
Local Open Scope Z_scope.

Definition u64 (z : Z) : Z := z mod 18446744073709551616.

(* usermain_uptime *)
Record ut := mkUt { ucycles : Z; ulast : Z }.

(* uptime_usec() entered when the counter reads `time` *)
Definition usec_at (u : ut) (time : Z) : ut * Z :=
  let c := if time <? ulast u then u32 (ucycles u + 1) else ucycles u in
  (mkUt c time, u64 (c * UPTIME_MULT + time)).
Definition msec_at (u : ut) (time : Z) : ut * Z :=
  let '(u', v) := usec_at u time in (u', v / UPTIME_MS_DIV).
Definition sec_at (u : ut) (time : Z) : ut * Z :=
  let '(u', v) := msec_at u time in (u', u32 (v / UPTIME_S_DIV)).

(* value of the 64-bit uptime the state stands for (what the last poll returned) *)
Definition usec_of (u : ut) : Z := ucycles u * UPTIME_MULT + ulast u.

(* a sequence of polls of uptime_usec at true times ts (absolute), counter at boot = boot *)
Fixpoint polls (boot : Z) (u : ut) (ts : list Z) : list Z :=
  match ts with
  | [] => []
  | t :: r => let '(u', v) := usec_at u (u32 (boot + t)) in v :: polls boot u' r
  end.
Fixpoint final (boot : Z) (u : ut) (ts : list Z) : ut :=
  match ts with
  | [] => u
  | t :: r => final boot (fst (usec_at u (u32 (boot + t)))) r
  end.

Fixpoint nondecreasing (l : list Z) : Prop :=
  match l with
  | a :: ((b :: _) as r) => a <= b /\ nondecreasing r
  | _ => True
  end.

(* ---------- wire interface ----------
   inputs : 0 CFG boot cycles0 last0 wd   (wd = 1: the 10 s poll timer armed at true time 0 is running)
            1 ADV dt | 2 USEC | 3 MSEC | 4 SEC
   outputs: 0 U kind hi lo     (kind 2/3/4, value = hi * 2^32 + lo) *)
Record wst := mkW { wnow : Z; wu : ut; wnext : Z }.   (* wnext: next expiry of the poll timer *)

Definition split64 (k v : Z) : wire := mk 0 [k; v / 4294967296; v mod 4294967296] [].

(* advance to endt, polling at every expiry of the repeating timer in (now, endt] *)
Fixpoint wadv (fuel : nat) (boot : Z) (wd : bool) (s : wst) (endt : Z) : wst :=
  match fuel with
  | O => mkW (Z.max (wnow s) endt) (wu s) (wnext s)
  | S k =>
      if wd && (wnext s <=? endt) then
        let u' := fst (usec_at (wu s) (u32 (boot + wnext s))) in
        wadv k boot wd (mkW (wnext s) u' (wnext s + UPTIME_POLL_MS * 1000)) endt
      else mkW (Z.max (wnow s) endt) (wu s) (wnext s)
  end.

Definition warg (l : list Z) (n : nat) : Z := nth n l 0.

Fixpoint urun_wire (boot : Z) (wd : bool) (s : wst) (ws : list wire) : list wire :=
  match ws with
  | [] => []
  | (k, a, _) :: r =>
      let time := u32 (boot + wnow s) in
      if k =? 1 then
        let dt := Z.max 0 (warg a 0) in
        urun_wire boot wd (wadv (Z.to_nat (dt / (UPTIME_POLL_MS * 1000) + 2)) boot wd s (wnow s + dt)) r
      else if k =? 2 then let '(u', v) := usec_at (wu s) time in split64 2 v :: urun_wire boot wd (mkW (wnow s) u' (wnext s)) r
      else if k =? 3 then let '(u', v) := msec_at (wu s) time in split64 3 v :: urun_wire boot wd (mkW (wnow s) u' (wnext s)) r
      else if k =? 4 then let '(u', v) := sec_at (wu s) time in split64 4 v :: urun_wire boot wd (mkW (wnow s) u' (wnext s)) r
      else urun_wire boot wd s r
  end.

Definition main_wire (ws : list wire) : list wire :=
  match ws with
  | (k, a, _) :: r =>
      if (k =? 0) && (warg a 4 =? 0) then
        urun_wire (warg a 0) (warg a 3 =? 1) (mkW 0 (mkUt (warg a 1) (warg a 2)) (UPTIME_POLL_MS * 1000)) r
      else []
  | [] => []
  end.
