From Coq Require Import Extraction ExtrOcamlBasic.
From V Require Import C19.Model.
Extraction Language OCaml.
Extraction "model.ml" main_wire.
