(* C19 (e) — devconn second arithmetic: whole-trace shift invariance over the keep-alive machine of C04/C05
   (C04/Keepalive.v: kstep / krun — the abstraction the C04 automaton is proved to follow, C05/Proofs.v
   timer1_cb_decide, watchdog_cb_decide), imported, not copied.
   Two devices whose uptime seconds differ by a constant K (boot values that differ by K * 10^6 us, see
   C19_devconn_second_phase) and the same events: the keep-alive machine goes through the same decisions
   (ping / reconnect / nothing) at every tick; its state is the image under +K. *)
From Coq Require Import List ZArith Bool Lia.
Import ListNotations.
From V Require Import Base.U32 Gen.C04Consts C04.Keepalive C05.Model.
Local Open Scope Z_scope.

Definition oshift (K : Z) (o : option Z) : option Z := match o with Some u => Some (u + K) | None => None end.
Definition kshift (K : Z) (s : kst) : kst :=
  mkk (k_ls s + K) (k_lr s + K) (oshift K (k_pr s)) (oshift K (k_ps s)) (k_lt s + K) (k_cur s + K) (k_bad s).
Definition evshift (K : Z) (e : kev) : kev :=
  match e with Tick u sl => Tick (u + K) sl | Sent u => Sent (u + K) | Resp u => Resp (u + K) end.

(* the timer1 decision sees only differences of seconds *)
Lemma t1_decide_shift K up ls lr tmo : t1_decide (up + K) (ls + K) (lr + K) tmo = t1_decide up ls lr tmo.
Proof.
  unfold t1_decide. replace (up + K - (ls + K)) with (up - ls) by lia. replace (up + K - (lr + K)) with (up - lr) by lia.
  reflexivity.
Qed.
(* the watchdog decision: differences and two ordering tests, all unchanged by a common shift *)
Lemma wd_decide_shift K up lr tmo nw : wd_decide (up + K) (lr + K) tmo (nw + K) = wd_decide up lr tmo nw.
Proof.
  unfold wd_decide. replace (up + K - (lr + K)) with (up - lr) by lia.
  replace (lr + K <? up + K) with (lr <? up) by (destruct (lr <? up) eqn:E; symmetry; [apply Z.ltb_lt in E; apply Z.ltb_lt; lia | apply Z.ltb_ge in E; apply Z.ltb_ge; lia]).
  replace (nw + K <? up + K) with (nw <? up) by (destruct (nw <? up) eqn:E; symmetry; [apply Z.ltb_lt in E; apply Z.ltb_lt; lia | apply Z.ltb_ge in E; apply Z.ltb_ge; lia]).
  reflexivity.
Qed.

Lemma kstep_shift K tmo s e : kstep tmo (kshift K s) (evshift K e) = kshift K (kstep tmo s e).
Proof.
  destruct s as [ls lr pr ps lt cur bad]. destruct e as [u sl|u|u]; unfold kshift; cbn [kstep evshift k_ls k_lr k_pr k_ps k_lt k_cur k_bad].
  - rewrite t1_decide_shift.
    destruct (t1_decide u ls lr tmo); cbn [k_ls k_lr k_pr k_ps k_lt k_cur k_bad]; [reflexivity| |reflexivity].
    destruct sl; cbn [k_ls k_lr k_pr k_ps k_lt k_cur k_bad]; [|reflexivity]. destruct pr, ps; reflexivity.
  - reflexivity.
  - reflexivity.
Qed.
Theorem krun_shift K tmo l : forall s, krun tmo (kshift K s) (map (evshift K) l) = kshift K (krun tmo s l).
Proof. induction l as [|e r IH]; intros s; cbn [krun map]; [reflexivity|]. rewrite kstep_shift. apply IH. Qed.

(* the device's verdict ("decided to reconnect") and the pending-ping bookkeeping are the same in both runs *)
Corollary krun_shift_verdict K tmo l s :
  k_bad (krun tmo (kshift K s) (map (evshift K) l)) = k_bad (krun tmo s l).
Proof. rewrite krun_shift. reflexivity. Qed.
