(* C19 (d) — boot-value independence statements on top of the models of C07 (countdown), C12 (configuration
   button timing) and C04 (devconn second arithmetic).  The models are imported, nothing is copied.
   These are NOT whole-trace simulations like C19/Shift.v and C19/ShiftInputs.v: they are
   * C07: the two C07 wrap theorems instantiated at two arbitrary boot values (same window for the switch-back),
   * C12: every time decision of the model reads the clock only through u32 (now32 - stamp); that expression
     is a function of the true-time gap, whatever the boot value (so the known finding toggle-gap-u32-wrap is
     about gaps congruent modulo 2^32, not about the boot value),
   * C04: uptime_sec and the comparisons made with it under a boot shift of whole seconds without a counter
     wrap; with a wrap in between the phase slips by one microsecond (0xFFFFFFFF per cycle). *)
From Coq Require Import List ZArith Bool Lia.
Import ListNotations.
From V Require Import Base.U32.
From V Require Gen.RelayConsts Gen.C12Consts C07.Model C07.Proofs C12.Model C04.Model.
Local Open Scope Z_scope.

(* ================= C07 ================= *)
Module CD.
Import Gen.RelayConsts C07.Model C07.Proofs.

Definition with_boot (b : Z) (c : cfg) : cfg :=
  {| c_boot := b; c_boot2 := c_boot2 c; c_sbt := c_sbt c; c_lateflags := c_lateflags c; c_relays := c_relays c;
     c_time2 := c_time2 c; c_late := c_late c |}.

(* Whatever the value of the counter at boot (any number of wraps up to WB, clock polled once per period, evaluations at
   most S late): every switch-back happens in the same window after its arming, and corresponds to one arming.
   Two boot values can therefore move a switch-back by less than the width of that window. *)
Theorem countdown_window_any_boot : forall (wr : Wraps) c b evs S,
  wf_cfg (with_boot b c) -> Forall wf_ev evs ->
  NWwrun true (with_boot b c) (start true (with_boot b c)) evs -> 0 <= S ->
  Slack S (outs (run_from true (with_boot b c) (start true (with_boot b c)) evs)) ->
  forall tcb ch tg t0 dur u0 u, In (GFinish tcb ch tg t0 dur u0 u) (run true (with_boot b c) evs) ->
    (dur - 1) * 1000 < tcb - t0 < dur * 1000 + CD_MIN * 1000 + S + 2 * (8 * OP) + WB /\
    In (GArm t0 ch dur tg) (run true (with_boot b c) evs).
Proof.
  intros wr c b evs S W Wev N HS SL tcb ch tg t0 dur u0 u H.
  destruct (never_early_w true _ W evs Wev N _ _ _ _ _ _ _ H) as [A B].
  pose proof (on_time_w _ W evs Wev N S HS SL _ _ _ _ _ _ _ H) as C.
  split; [lia | exact B].
Qed.

(* The countdown reads the clock as rd s t = up64 (cnt0 + (t - tb)) / 1000: the unwrapped count minus one microsecond per
   wrap, truncated to milliseconds.  A reading is the ideal one (true count / 1000) unless it falls within w microseconds
   after a millisecond boundary, w = number of wraps so far: *)
Lemma up64_ideal a : 0 <= a -> a / 4294967296 <= a mod 1000 -> up64 a / 1000 = a / 1000.
Proof.
  intros Ha H. unfold up64.
  pose proof (Z.div_pos a 4294967296 Ha ltac:(lia)) as Hw.
  pose proof (Z.div_mod a 1000 ltac:(lia)) as Hd. pose proof (Z.mod_pos_bound a 1000 ltac:(lia)) as Hm.
  symmetry. apply Z.div_unique with (r := a mod 1000 - a / 4294967296); lia.
Qed.
(* two boot values with the same sub-millisecond phase (they differ by k ms): at every true time at which both readings
   are ideal in that sense, the readings differ by exactly k — so every elapsed-time difference the countdown computes
   between two such instants is the same in both runs.  The excluded instants are the countdown's analogue of the
   "stamp sampled as 0" exclusion: a set of measure w / 1000 per wrap. *)
Theorem countdown_clock_phase : forall s s' t k,
  tb s' = tb s -> cnt0 s' = cnt0 s + 1000 * k ->
  let a := cnt0 s + (t - tb s) in let a' := cnt0 s' + (t - tb s') in
  0 <= a -> 0 <= a' -> a / 4294967296 <= a mod 1000 -> a' / 4294967296 <= a' mod 1000 ->
  rd s' t = rd s t + k.
Proof.
  intros s s' t k Etb Ec a a' Ha Ha' Hi Hi'. unfold rd. fold a a'.
  rewrite (up64_ideal a Ha Hi), (up64_ideal a' Ha' Hi').
  unfold a', a. rewrite Etb, Ec.
  replace (cnt0 s + 1000 * k + (t - tb s)) with (cnt0 s + (t - tb s) + k * 1000) by lia.
  apply Z.div_add. lia.
Qed.
End CD.

(* ================= C12 ================= *)
Module CB.
Import Gen.C12Consts C12.Model.

(* the only way the C12 model reads the clock against a stamp *)
Definition elapsed32 (s : st) (stamp : Z) : Z := u32 (now32 s - stamp).

(* a stamp taken at true time t1 and read at true time t2 yields the true gap modulo 2^32, for every boot value *)
Theorem elapsed_is_gap : forall b t1 t2,
  u32 (u32 (b + t2) - u32 (b + t1)) = u32 (t2 - t1).
Proof. intros. rewrite u32_sub_l, u32_sub_r. f_equal. lia. Qed.

Corollary elapsed_boot_independent : forall b b' t1 t2,
  u32 (u32 (b + t2) - u32 (b + t1)) = u32 (u32 (b' + t2) - u32 (b' + t1)).
Proof. intros. rewrite !elapsed_is_gap. reflexivity. Qed.

(* a state with the clock set: counter value b at boot, true time t *)
Definition with_clock (b t : Z) (s : st) : st :=
  {| booted := booted s; halted := halted s; now := t; boot32 := b; blank := blank s; entertime := entertime s;
     exit_to := exit_to s; cfgtmr := cfgtmr s; silent := silent s; connectable := connectable s; srpc_up := srpc_up s;
     registered := registered s; inputs := inputs s; rss := rss s |}.
Definition stamp_at (b t : Z) : Z := u32 (b + t).     (* what last_state_change / entertime hold when sampled at true time t *)
Definition with_lsc (x : input) (v : Z) : input := upd_in x (i_last x) (i_cnt x) v (i_armed x) (i_adv x).

Lemma now32_with_clock b t s : now32 (with_clock b t s) = u32 (b + t). Proof. reflexivity. Qed.

(* the ten-toggle rule: the click counter after a change at true time t2, the previous change having been stamped at
   true time t1, is the same for every boot value *)
Theorem toggle_count_boot_independent : forall b b' t1 t2 s x stt,
  legacy_count (with_clock b t2 s) (with_lsc x (stamp_at b t1)) stt =
  legacy_count (with_clock b' t2 s) (with_lsc x (stamp_at b' t1)) stt.
Proof.
  intros. unfold legacy_count, stamp_at. rewrite !now32_with_clock.
  replace (i_lsc (with_lsc x (u32 (b + t1)))) with (u32 (b + t1)) by reflexivity.
  replace (i_lsc (with_lsc x (u32 (b' + t1)))) with (u32 (b' + t1)) by reflexivity.
  rewrite (elapsed_boot_independent b b' t1 t2).
  reflexivity.
Qed.
(* ... and it treats a gap of k * 2^32 us + g exactly like a gap of g: this is the known finding toggle-gap-u32-wrap of
   C12, a property of the GAP, present for every boot value alike *)
Theorem toggle_gap_class_is_about_gaps : forall b t1 g k s x stt,
  legacy_count (with_clock b (t1 + g + k * 4294967296) s) (with_lsc x (stamp_at b t1)) stt =
  legacy_count (with_clock b (t1 + g) s) (with_lsc x (stamp_at b t1)) stt.
Proof.
  intros. unfold legacy_count, stamp_at. rewrite !now32_with_clock.
  replace (i_lsc (with_lsc x (u32 (b + t1)))) with (u32 (b + t1)) by reflexivity.
  rewrite !elapsed_is_gap.
  replace (t1 + g + k * 4294967296 - t1) with (g + k * 4294967296) by lia.
  replace (t1 + g - t1) with g by lia.
  replace (u32 (g + k * 4294967296)) with (u32 g) by (unfold u32; rewrite Z.mod_add; lia).
  reflexivity.
Qed.

(* hold time of the configuration button (legacy_tick) and the "3 s after entering configuration mode" test use the
   same expression; the decisions are therefore functions of true-time gaps *)
Theorem hold_decision_boot_independent : forall b b' t1 t2 (limit : Z),
  (limit <=? u32 (u32 (b + t2) - stamp_at b t1)) = (limit <=? u32 (u32 (b' + t2) - stamp_at b' t1)).
Proof. intros. unfold stamp_at. rewrite (elapsed_boot_independent b b' t1 t2). reflexivity. Qed.
Theorem exit_decision_boot_independent : forall b b' t1 t2,
  (3000000 <? u32 (u32 (b + t2) - stamp_at b t1)) = (3000000 <? u32 (u32 (b' + t2) - stamp_at b' t1)).
Proof. intros. unfold stamp_at. rewrite (elapsed_boot_independent b b' t1 t2). reflexivity. Qed.
(* the two exceptions of that model, both outside shift invariance by the code's own conventions:
   entertime = 0 means "not in configuration mode" (a stamp sampled as exactly 0 is excluded by the property), and
   i_lsc starts at 0, not at a sampled stamp: the FIRST evaluation of the 2 s click window compares the raw counter
   with 2 s (see first_window_reads_raw_counter) *)
Theorem first_window_reads_raw_counter : forall b t s x stt, i_lsc x = 0 ->
  legacy_count (with_clock b t s) x stt =
  if 2000000 <=? u32 (b + t) then 1 else if counted_legacy x stt then s8 (i_cnt x + 1) else i_cnt x.
Proof.
  intros b t s x stt H. unfold legacy_count. rewrite now32_with_clock, H, Z.sub_0_r, u32_idem. reflexivity.
Qed.
End CB.

(* ================= C04 ================= *)
Module DC.
Import C04.Model.

Definition with_boot (b : Z) (s : st) : st := set_boot b s.
Lemma usec_with_boot b s : uptime_usec (with_boot b s) =
  let t := b + now s in (cycles0 s + t / 4294967296) * 4294967295 + t mod 4294967296.
Proof. destruct s; reflexivity. Qed.

(* boot values that differ by K whole seconds, no wrap of the counter up to the reading in either run:
   the 64-bit uptime differs by exactly K * 10^6 us, the seconds by exactly K *)
Theorem uptime_phase : forall b K s,
  0 <= b + now s -> b + K * 1000000 + now s < 4294967296 -> 0 <= K ->
  uptime_usec (with_boot (b + K * 1000000) s) = uptime_usec (with_boot b s) + K * 1000000 /\
  uptime_usec (with_boot b s) / 1000 / 1000 + K = uptime_usec (with_boot (b + K * 1000000) s) / 1000 / 1000.
Proof.
  intros b K s H0 H1 HK. rewrite !usec_with_boot. cbv zeta.
  rewrite (Z.div_small (b + now s)), (Z.mod_small (b + now s)) by lia.
  rewrite (Z.div_small (b + K * 1000000 + now s)), (Z.mod_small (b + K * 1000000 + now s)) by lia.
  split; [lia|].
  rewrite !Z.div_div by lia. replace (1000 * 1000) with 1000000 by reflexivity.
  replace ((cycles0 s + 0) * 4294967295 + (b + K * 1000000 + now s)) with ((cycles0 s + 0) * 4294967295 + (b + now s) + K * 1000000) by lia.
  rewrite Z.div_add by lia. reflexivity.
Qed.

(* every comparison the devconn model makes with uptime_sec — keep-alive window, activity timeout, watchdog, soft
   time-out challenge — is unchanged when the reading and the stored second stamps are all shifted by K
   (below 2^32 seconds, where the ordering tests `lastresp < uptime`, `nextwd < uptime` are meaningful) *)
Theorem second_diff_shift : forall u l K, u32 (u32 (u + K) - u32 (l + K)) = u32 (u - l).
Proof. intros. rewrite u32_sub_l, u32_sub_r. f_equal. lia. Qed.
Theorem second_order_shift : forall u l K, 0 <= l -> 0 <= u -> 0 <= K -> u + K < 4294967296 -> l + K < 4294967296 ->
  (u32 (l + K) <? u32 (u + K)) = (l <? u).
Proof.
  intros. rewrite !u32_small by lia.
  destruct (l <? u) eqn:E; [apply Z.ltb_lt in E; apply Z.ltb_lt; lia | apply Z.ltb_ge in E; apply Z.ltb_ge; lia].
Qed.

(* with a wrap between the two readings the phase is NOT kept: one cycle counts as 0xFFFFFFFF us, so the run that wrapped
   is one microsecond behind — the sub-second phase slips by 1 us per wrap (boot = 2^32 - 10^6 vs boot = 0 at t = 2 s) *)
Example phase_slips_one_us_per_wrap : forall s, now s = 2000000 -> cycles0 s = 0 ->
  uptime_usec (with_boot (4294967296 - 1000000) s) = 4294967296 - 1000000 + 2000000 - 1 /\
  uptime_usec (with_boot 0 s) = 2000000.
Proof.
  intros s Hn Hc. rewrite !usec_with_boot, Hn, Hc. cbv zeta. split; reflexivity.
Qed.
End DC.
