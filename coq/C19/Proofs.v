(* C19 (a) — uptime.c: monotonicity and accuracy of the 64-bit uptime across wrap-arounds. *)
From Coq Require Import List ZArith Bool Lia.
Import ListNotations.
From V Require Import Base.U32 Base.Iface Gen.UptimeConsts C19.Model.
Local Open Scope Z_scope.

Record consts_facts : Prop := {
  cf_mult_lo : 4294967295 <= UPTIME_MULT;       (* the code multiplies by 0xFFFFFFFF: one microsecond is lost per wrap *)
  cf_mult_hi : UPTIME_MULT <= 4294967296;
  cf_ms : 0 < UPTIME_MS_DIV;
  cf_s : 0 < UPTIME_S_DIV;
  cf_w : SIZEOF_CYCLES = 4 /\ SIZEOF_LAST = 4 /\ SIZEOF_USEC = 8 /\ SIZEOF_MSEC = 8 /\ SIZEOF_SEC = 4
}.
Lemma consts_ok : consts_facts.
Proof. constructor; vm_compute; first [reflexivity | congruence | repeat split; reflexivity]. Qed.

Local Opaque UPTIME_MULT UPTIME_MS_DIV UPTIME_S_DIV.

(* well-formed state: both fields are 32-bit values *)
Definition wf (u : ut) : Prop := 0 <= ucycles u < 4294967296 /\ 0 <= ulast u < 4294967296.

Lemma u64_small z : 0 <= z < 18446744073709551616 -> u64 z = z.
Proof. intros; unfold u64; apply Z.mod_small; lia. Qed.

(* the 64-bit expression cycles * MULT + time can never wrap: (2^32-1) * 2^32 + (2^32-1) < 2^64 *)
Lemma no_u64_wrap c t : consts_facts -> 0 <= c < 4294967296 -> 0 <= t < 4294967296 ->
  0 <= c * UPTIME_MULT + t < 18446744073709551616.
Proof. intros CF Hc Ht. pose proof (cf_mult_lo CF); pose proof (cf_mult_hi CF). nia. Qed.

(* one poll: the returned value is the value of the new state, never below the previous one
   (no hypothesis on the time between polls), as long as the 32-bit cycle counter itself does not wrap *)
Lemma usec_at_mono u time : consts_facts -> wf u -> 0 <= time < 4294967296 -> ucycles u + 1 < 4294967296 ->
  let '(u', v) := usec_at u time in
  wf u' /\ v = usec_of u' /\ usec_of u <= v /\ ucycles u <= ucycles u' <= ucycles u + 1.
Proof.
  intros CF [Hc Hl] Ht Hov. unfold usec_at, usec_of. cbn [ucycles ulast].
  pose proof (cf_mult_lo CF); pose proof (cf_mult_hi CF).
  destruct (time <? ulast u) eqn:E.
  - apply Z.ltb_lt in E. rewrite (u32_small (ucycles u + 1)) by lia.
    rewrite u64_small by (apply no_u64_wrap; auto; lia).
    unfold wf; cbn [ucycles ulast]. split; [lia|]. split; [reflexivity|]. split; [nia | lia].
  - apply Z.ltb_ge in E. rewrite u64_small by (apply no_u64_wrap; auto; lia).
    unfold wf; cbn [ucycles ulast]. split; [lia|]. split; [reflexivity|]. split; [lia | lia].
Qed.

(* accuracy of one poll: previous poll at true time p, this one at now, less than one counter period later *)
Lemma usec_at_accurate boot u p now : consts_facts -> wf u -> ucycles u + 1 < 4294967296 ->
  ulast u = u32 (boot + p) -> 0 <= now - p < 4294967296 ->
  let '(u', v) := usec_at u (u32 (boot + now)) in
  v = usec_of u + (now - p) - (4294967296 - UPTIME_MULT) * (ucycles u' - ucycles u) /\
  ulast u' = u32 (boot + now).
Proof.
  intros CF [Hc Hl] Hov El Hgap. unfold usec_at, usec_of. cbn [ucycles ulast].
  pose proof (cf_mult_lo CF); pose proof (cf_mult_hi CF).
  pose proof (u32_range (boot + now)) as Hr.
  assert (Hn : u32 (boot + now) = boot + now - 4294967296 * ((boot + now) / 4294967296)) by (unfold u32; apply Z.mod_eq; lia).
  assert (Hp : u32 (boot + p) = boot + p - 4294967296 * ((boot + p) / 4294967296)) by (unfold u32; apply Z.mod_eq; lia).
  pose proof (u32_range (boot + p)) as Hrp.
  set (qn := (boot + now) / 4294967296) in *. set (qp := (boot + p) / 4294967296) in *.
  destruct (u32 (boot + now) <? ulast u) eqn:E.
  - apply Z.ltb_lt in E. rewrite (u32_small (ucycles u + 1)) by lia.
    rewrite u64_small by (apply no_u64_wrap; auto; lia).
    split; [|reflexivity]. rewrite El in *. assert (qn = qp + 1) by lia. nia.
  - apply Z.ltb_ge in E. rewrite u64_small by (apply no_u64_wrap; auto; lia).
    split; [|reflexivity]. rewrite El in *. assert (qn = qp) by lia. nia.
Qed.

(* ---------- sequences of polls ---------- *)
Lemma nondecreasing_cons a l : nondecreasing (a :: l) <-> match l with [] => True | b :: _ => a <= b /\ nondecreasing l end.
Proof. destruct l; cbn; tauto. Qed.

Theorem C19_uptime_usec_monotone_thm : forall ts boot u, wf u ->
  ucycles u + Z.of_nat (length ts) < 4294967296 ->
  nondecreasing (usec_of u :: polls boot u ts) /\ wf (final boot u ts) /\
  ucycles u <= ucycles (final boot u ts) <= ucycles u + Z.of_nat (length ts).
Proof.
  induction ts as [|t r IH]; intros boot u Hwf Hov.
  - cbn. repeat split; try apply Hwf; lia.
  - cbn [polls final]. pose proof (usec_at_mono u (u32 (boot + t)) consts_ok Hwf (u32_range _)) as H.
    cbn [length] in Hov. rewrite Nat2Z.inj_succ in Hov. specialize (H ltac:(lia)).
    destruct (usec_at u (u32 (boot + t))) as [u' v] eqn:E. cbn [fst].
    destruct H as (Hwf' & Ev & Hle & Hc).
    destruct (IH boot u' Hwf' ltac:(lia)) as (Hnd & Hwff & Hcf).
    split.
    + apply nondecreasing_cons. split; [exact Hle|]. rewrite Ev. exact Hnd.
    + split; [exact Hwff|]. cbn [length]. rewrite Nat2Z.inj_succ. lia.
Qed.

(* consecutive true poll times, each less than one period after the previous one *)
Fixpoint gaps_ok (p : Z) (ts : list Z) : Prop :=
  match ts with [] => True | t :: r => 0 <= t - p < 4294967296 /\ gaps_ok t r end.
Definition last_time (p : Z) (ts : list Z) : Z := List.last ts p.

Lemma last_default_irrel (l : list Z) : forall x d1 d2, List.last (x :: l) d1 = List.last (x :: l) d2.
Proof. induction l as [|y r IH]; intros; [reflexivity|]. change (List.last (y :: r) d1 = List.last (y :: r) d2). apply IH. Qed.
Lemma last_time_cons p t r : last_time p (t :: r) = last_time t r.
Proof. unfold last_time. destruct r as [|y r]; [reflexivity|]. change (List.last (y :: r) p = List.last (y :: r) t). apply last_default_irrel. Qed.

Theorem C19_uptime_accurate_thm : forall ts boot u p, wf u ->
  ucycles u + Z.of_nat (length ts) < 4294967296 ->
  ulast u = u32 (boot + p) -> gaps_ok p ts ->
  let u' := final boot u ts in
  usec_of u' = usec_of u + (last_time p ts - p) - (4294967296 - UPTIME_MULT) * (ucycles u' - ucycles u) /\
  0 <= ucycles u' - ucycles u <= Z.of_nat (length ts).
Proof.
  induction ts as [|t r IH]; intros boot u p Hwf Hov El Hg.
  - unfold last_time. cbn [final List.last length Z.of_nat]. split; lia.
  - cbn [final]. cbn [gaps_ok] in Hg. destruct Hg as [Hg1 Hg2].
    cbn [length] in Hov. rewrite Nat2Z.inj_succ in Hov.
    pose proof (usec_at_mono u (u32 (boot + t)) consts_ok Hwf (u32_range _) ltac:(lia)) as HM.
    pose proof (usec_at_accurate boot u p t consts_ok Hwf ltac:(lia) El Hg1) as HA.
    destruct (usec_at u (u32 (boot + t))) as [u1 v] eqn:E. cbn [fst].
    destruct HM as (Hwf1 & Ev & _ & Hc1). destruct HA as (Eacc & El1).
    specialize (IH boot u1 t Hwf1 ltac:(lia) El1 Hg2). cbn zeta in IH. destruct IH as (E2 & Hc2).
    assert (Elast : last_time p (t :: r) = last_time t r) by apply last_time_cons.
    rewrite Elast. cbn [length]. rewrite Nat2Z.inj_succ. split; [|lia].
    rewrite E2, <- Ev, Eacc. ring.
Qed.

(* derived units *)
Definition to_msec (v : Z) : Z := v / UPTIME_MS_DIV.
Definition to_sec (v : Z) : Z := u32 (v / UPTIME_MS_DIV / UPTIME_S_DIV).

Lemma nondecreasing_map (f : Z -> Z) l :
  (forall a b, In a l -> In b l -> a <= b -> f a <= f b) -> nondecreasing l -> nondecreasing (map f l).
Proof.
  induction l as [|a [|b r] IH]; intros Hf Hn; cbn [map]; try exact I.
  change (f a <= f b /\ nondecreasing (map f (b :: r))).
  destruct Hn as [Hab Hr]. split.
  - apply Hf; cbn; auto.
  - apply IH; [|exact Hr]. intros x y Hx Hy. apply Hf; right; assumption.
Qed.

Lemma to_msec_mono a b : a <= b -> to_msec a <= to_msec b.
Proof. intros. unfold to_msec. apply Z.div_le_mono; [apply (cf_ms consts_ok) | assumption]. Qed.
Lemma to_sec_mono a b bound : 0 <= a -> a <= b -> b <= bound -> bound / UPTIME_MS_DIV / UPTIME_S_DIV < 4294967296 ->
  to_sec a <= to_sec b.
Proof.
  intros H0 Hab Hb Hbound. unfold to_sec.
  pose proof (cf_ms consts_ok); pose proof (cf_s consts_ok).
  assert (M : forall x y, x <= y -> x / UPTIME_MS_DIV / UPTIME_S_DIV <= y / UPTIME_MS_DIV / UPTIME_S_DIV).
  { intros. apply Z.div_le_mono; [assumption|]. apply Z.div_le_mono; assumption. }
  assert (0 <= a / UPTIME_MS_DIV / UPTIME_S_DIV) by (apply Z.div_pos; [apply Z.div_pos|]; lia).
  pose proof (M a b Hab). pose proof (M b bound Hb).
  rewrite !u32_small by lia. assumption.
Qed.

Lemma nondecreasing_bounds l : nondecreasing l -> forall a, In a l -> hd 0 l <= a /\ a <= List.last l 0.
Proof.
  induction l as [|x [|y r] IH]; intros Hn a Hin; [contradiction| |].
  - destruct Hin as [<-|[]]. cbn. lia.
  - destruct Hn as [Hxy Hr]. specialize (IH Hr).
    change (List.last (x :: y :: r) 0) with (List.last (y :: r) 0). cbn [hd] in *.
    destruct Hin as [<-|Hin].
    + destruct (IH y (or_introl eq_refl)). lia.
    + destruct (IH a Hin). lia.
Qed.

(* all three units are non-decreasing over any poll sequence (seconds: while the uptime is below 2^32 s) *)
Theorem C19_uptime_monotone_thm : forall ts boot u, wf u ->
  ucycles u + Z.of_nat (length ts) < 4294967296 ->
  let vs := usec_of u :: polls boot u ts in
  nondecreasing vs /\ nondecreasing (map to_msec vs) /\
  (List.last vs 0 / UPTIME_MS_DIV / UPTIME_S_DIV < 4294967296 -> nondecreasing (map to_sec vs)).
Proof.
  intros ts boot u Hwf Hov vs.
  destruct (C19_uptime_usec_monotone_thm ts boot u Hwf Hov) as (Hnd & _ & _). fold vs in Hnd.
  split; [exact Hnd|]. split.
  - apply nondecreasing_map; [|exact Hnd]. intros; apply to_msec_mono; assumption.
  - intros Hb. apply nondecreasing_map; [|exact Hnd]. intros a b Ha Hbn Hab.
    destruct (nondecreasing_bounds vs Hnd a Ha) as [Hlo _]. destruct (nondecreasing_bounds vs Hnd b Hbn) as [_ Hhi].
    apply to_sec_mono with (bound := List.last vs 0); auto.
    unfold vs in Hlo; cbn [hd] in Hlo. destruct Hwf as [Hc Hl]. unfold usec_of in Hlo.
    pose proof (cf_mult_lo consts_ok). nia.
Qed.

(* what the three C functions return is what the theorems speak about *)
Lemma msec_at_spec u time : msec_at u time = (fst (usec_at u time), to_msec (snd (usec_at u time))).
Proof. unfold msec_at. destruct (usec_at u time); reflexivity. Qed.
Lemma sec_at_spec u time : sec_at u time = (fst (usec_at u time), to_sec (snd (usec_at u time))).
Proof. unfold sec_at, msec_at. destruct (usec_at u time); reflexivity. Qed.

(* a regression the lead asked to be visible: truncating the milliseconds to 32 bits BEFORE dividing is not
   monotone once the uptime passes 2^32 ms (cycles = 1000) *)
Example trunc_before_div_not_monotone :
  let bad v := u32 (v / 1000) / 1000 in
  let u := mkUt 1000 0 in
  let vs := polls 0 u [999; 1000] in
  vs = [4294967295999; 4294967296000] /\ bad 4294967295999 = 4294967 /\ bad 4294967296000 = 0 /\
  to_sec 4294967295999 = 4294967 /\ to_sec 4294967296000 = 4294967.
Proof. vm_compute. repeat split; reflexivity. Qed.
