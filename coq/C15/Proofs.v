(* C15 — proofs about the page renderer model. *)
From Coq Require Import List ZArith Lia Bool.
Import ListNotations.
From V Require Import Base.Bytes Base.Iface Gen.HtmlTemplates C15.Model.
Local Open Scope Z_scope.

(* ---------- lists / indices ---------- *)
Lemma nthz_nil i : nthz [] i = 0.
Proof. unfold nthz; destruct (Z.to_nat i); reflexivity. Qed.
Lemma nthz_cons_0 b r : nthz (b :: r) 0 = b.
Proof. reflexivity. Qed.
Lemma nthz_cons_S b r i : 0 <= i -> nthz (b :: r) (i + 1) = nthz r i.
Proof. intros; unfold nthz. replace (Z.to_nat (i + 1)) with (S (Z.to_nat i)) by lia. reflexivity. Qed.
Lemma nth_skipn_add {A} (d : A) n : forall l i, nth i (skipn n l) d = nth (n + i) l d.
Proof.
  induction n as [|n IH]; intros l i; [reflexivity|].
  destruct l as [|x l]; cbn [skipn Nat.add nth]; [destruct i; reflexivity | apply IH].
Qed.
Lemma nthz_drop c off i : 0 <= off -> 0 <= i -> nthz (drop off c) i = nthz c (off + i).
Proof. intros; unfold nthz, drop. rewrite nth_skipn_add. f_equal. lia. Qed.
Lemma idxs_in n i : 0 <= i < n -> In i (idxs n).
Proof.
  intros; unfold idxs. apply in_map_iff. exists (Z.to_nat i). split; [lia|]. apply in_seq. lia.
Qed.
Lemma idxs_range n i : In i (idxs n) -> 0 <= i < n.
Proof.
  unfold idxs; intros H. apply in_map_iff in H. destruct H as [k [Hk Hin]]. apply in_seq in Hin. lia.
Qed.

(* ---------- C strings ---------- *)
Lemma cstr_agree : forall l1 l2 n,
  (exists k, 0 <= k < n /\ nthz l1 k = 0) ->
  (forall i, 0 <= i < n -> (forall j, 0 <= j < i -> nthz l1 j <> 0) -> nthz l1 i = nthz l2 i) ->
  cstr l1 = cstr l2.
Proof.
  induction l1 as [|b r IH]; intros l2 n [k [Hk Hz]] Hag.
  - assert (Hhd : nthz [] 0 = nthz l2 0) by (apply Hag; [lia | intros; lia]).
    rewrite nthz_nil in Hhd. destruct l2 as [|b2 r2]; [reflexivity|].
    rewrite nthz_cons_0 in Hhd. subst b2. reflexivity.
  - assert (Hhd : nthz (b :: r) 0 = nthz l2 0) by (apply Hag; [lia | intros; lia]).
    rewrite nthz_cons_0 in Hhd. cbn [cstr]. destruct (b =? 0) eqn:E.
    + apply Z.eqb_eq in E. rewrite E in Hhd. destruct l2 as [|b2 r2]; [reflexivity|].
      rewrite nthz_cons_0 in Hhd. cbn [cstr]. rewrite <- Hhd. reflexivity.
    + apply Z.eqb_neq in E. destruct l2 as [|b2 r2].
      { rewrite nthz_nil in Hhd. congruence. }
      rewrite nthz_cons_0 in Hhd. subst b2. cbn [cstr]. rewrite (proj2 (Z.eqb_neq b 0) E). f_equal.
      apply (IH r2 (n - 1)).
      * assert (k <> 0) by (intro; subst k; rewrite nthz_cons_0 in Hz; congruence).
        exists (k - 1). split; [lia|].
        replace k with ((k - 1) + 1) in Hz by lia. rewrite nthz_cons_S in Hz by lia. exact Hz.
      * intros i Hi Hj. specialize (Hag (i + 1)). rewrite !nthz_cons_S in Hag by lia.
        apply Hag; [lia|]. intros j Hjr. destruct (Z.eq_dec j 0) as [->|Hne].
        { rewrite nthz_cons_0. exact E. }
        replace j with ((j - 1) + 1) by lia. rewrite nthz_cons_S by lia. apply Hj. lia.
Qed.

Lemma cstr_nonul l : nonul (cstr l).
Proof.
  unfold nonul. induction l as [|b r IH]; cbn [cstr]; [intros []|].
  destruct (b =? 0) eqn:E; [intros []|]. apply Z.eqb_neq in E. intros [H|H]; [congruence | auto].
Qed.
Lemma cstr_len l : len (cstr l) <= len l.
Proof.
  induction l as [|b r IH]; cbn [cstr]; [lia|]. destruct (b =? 0); rewrite ?len_cons, ?len_nil.
  - pose proof (len_nonneg r); lia.
  - lia.
Qed.
Lemma cstr_id l : nonul l -> cstr l = l.
Proof.
  unfold nonul. induction l as [|b r IH]; intros H; cbn [cstr]; [reflexivity|].
  destruct (b =? 0) eqn:E.
  - apply Z.eqb_eq in E. subst b. exfalso. apply H. left; reflexivity.
  - f_equal. apply IH. intros Hin. apply H. right; exact Hin.
Qed.

Lemma field_agree c1 c2 off sz :
  0 <= off -> terminated c1 off sz ->
  (forall i, 0 <= i < sz -> (forall j, 0 <= j < i -> nthz c1 (off + j) <> 0) ->
             nthz c1 (off + i) = nthz c2 (off + i)) ->
  field_str c1 off = field_str c2 off.
Proof.
  intros Ho [k [Hk Hz]] Hag. unfold field_str. apply (cstr_agree _ _ sz).
  - exists k. split; [exact Hk|]. rewrite nthz_drop by lia. exact Hz.
  - intros i Hi Hj. rewrite !nthz_drop by lia. apply Hag; [exact Hi|].
    intros j Hjr. rewrite <- nthz_drop by lia. apply Hj. exact Hjr.
Qed.

(* ---------- which argument sources are public ---------- *)
Definition disjoint (a n b m : Z) : bool := (a + n <=? b) || (b + m <=? a).
Definition range_public (off sz : Z) : bool :=
  (0 <=? off) && (off + sz <=? CFG_SIZE) && disjoint off sz OFF_AUTHKEY SZ_AUTHKEY &&
  disjoint off sz OFF_PWD SZ_PWD && disjoint off sz OFF_WIFIPWD SZ_WIFIPWD && disjoint off sz OFF_EMAIL SZ_EMAIL.
Definition is_field (off sz o s : Z) : bool := (off =? o) && (sz =? s).
Definition src_public (s : src) : bool :=
  match s with
  | S_field off sz =>
      (is_field off sz OFF_EMAIL SZ_EMAIL && (0 <=? off)) ||
      ((is_field off sz OFF_SSID SZ_SSID || is_field off sz OFF_SERVER SZ_SERVER || is_field off sz OFF_PREFIX SZ_PREFIX)
       && range_public off sz)
  | S_byte off | S_schar off | S_uchar off | S_sel_eq off _ _ => range_public off 1
  | S_sel_flag _ _ _ => range_public OFF_FLAGS 4
  | S_port => range_public OFF_PORT 4
  | _ => true
  end.

Lemma range_public_spec off sz : range_public off sz = true ->
  0 <= off /\ off + sz <= CFG_SIZE /\
  (off + sz <= OFF_AUTHKEY \/ OFF_AUTHKEY + SZ_AUTHKEY <= off) /\
  (off + sz <= OFF_PWD \/ OFF_PWD + SZ_PWD <= off) /\
  (off + sz <= OFF_WIFIPWD \/ OFF_WIFIPWD + SZ_WIFIPWD <= off) /\
  (off + sz <= OFF_EMAIL \/ OFF_EMAIL + SZ_EMAIL <= off).
Proof.
  unfold range_public, disjoint. rewrite !andb_true_iff, !orb_true_iff, !Z.leb_le. tauto.
Qed.
Lemma secret_static_false i :
  ~ (OFF_AUTHKEY <= i < OFF_AUTHKEY + SZ_AUTHKEY) -> ~ (OFF_PWD <= i < OFF_PWD + SZ_PWD) ->
  ~ (OFF_WIFIPWD <= i < OFF_WIFIPWD + SZ_WIFIPWD) -> secret_static i = false.
Proof.
  intros. unfold secret_static, in_range. rewrite !orb_false_iff, !andb_false_iff, !Z.leb_gt, !Z.ltb_ge. lia.
Qed.
Lemma in_email_false i : ~ (OFF_EMAIL <= i < OFF_EMAIL + SZ_EMAIL) -> in_email i = false.
Proof. intros. unfold in_email, in_range. rewrite andb_false_iff, Z.leb_gt, Z.ltb_ge. lia. Qed.

Lemma public_byte c1 c2 off sz i :
  low_equiv c1 c2 -> range_public off sz = true -> 0 <= i < sz -> nthz c1 (off + i) = nthz c2 (off + i).
Proof.
  intros [L _] R Hi. apply range_public_spec in R.
  apply L; [lia | apply secret_static_false; lia | apply in_email_false; lia].
Qed.
Lemma public_byte0 c1 c2 off sz :
  low_equiv c1 c2 -> range_public off sz = true -> 0 < sz -> nthz c1 off = nthz c2 off.
Proof. intros L R H. replace off with (off + 0) by lia. apply (public_byte c1 c2 off sz); [assumption..|lia]. Qed.
Lemma public_le32 c1 c2 off :
  low_equiv c1 c2 -> range_public off 4 = true -> le32 c1 off = le32 c2 off.
Proof.
  intros L R. unfold le32.
  rewrite (public_byte0 c1 c2 off 4 L R) by lia.
  rewrite (public_byte c1 c2 off 4 1 L R), (public_byte c1 c2 off 4 2 L R), (public_byte c1 c2 off 4 3 L R) by lia.
  reflexivity.
Qed.

Lemma is_field_spec off sz o s : is_field off sz o s = true -> off = o /\ sz = s.
Proof. unfold is_field. rewrite andb_true_iff, !Z.eqb_eq. tauto. Qed.

Lemma eval_public sg c1 c2 nm mc stt d s :
  wf_cfg c1 -> low_equiv c1 c2 -> src_public s = true ->
  eval sg (mkenv c1 nm mc stt d) s = eval sg (mkenv c2 nm mc stt d) s.
Proof.
  intros W L P. destruct s; cbn [eval mkenv cfg name mac state ds]; try reflexivity; cbn [src_public] in P.
  - (* S_field *)
    apply orb_true_iff in P. destruct P as [P|P].
    + apply andb_true_iff in P. destruct P as [F Ho]. apply is_field_spec in F. destruct F as [-> ->].
      apply Z.leb_le in Ho. apply (field_agree c1 c2 OFF_EMAIL SZ_EMAIL Ho (wf_email c1 W)). exact (proj2 L).
    + apply andb_true_iff in P. destruct P as [F R].
      assert (T : terminated c1 off sz).
      { rewrite !orb_true_iff in F. destruct F as [[F|F]|F]; apply is_field_spec in F; destruct F as [-> ->];
        [exact (wf_ssid c1 W) | exact (wf_server c1 W) | exact (wf_prefix c1 W)]. }
      pose proof (range_public_spec _ _ R) as RS.
      apply (field_agree c1 c2 off sz); [lia | exact T |].
      intros i Hi _. apply (public_byte c1 c2 off sz i L R Hi).
  - rewrite (public_byte0 c1 c2 off 1 L P) by lia. reflexivity.
  - rewrite (public_byte0 c1 c2 off 1 L P) by lia. reflexivity.
  - unfold flags_of. rewrite (public_le32 c1 c2 OFF_FLAGS L P). reflexivity.
  - rewrite (public_le32 c1 c2 OFF_PORT L P). reflexivity.
  - rewrite (public_byte0 c1 c2 off 1 L P) by lia. reflexivity.
  - rewrite (public_byte0 c1 c2 off 1 L P) by lia. reflexivity.
Qed.

Lemma map_eval_public sg c1 c2 nm mc stt d sp :
  wf_cfg c1 -> low_equiv c1 c2 -> forallb src_public sp = true ->
  map (eval sg (mkenv c1 nm mc stt d)) sp = map (eval sg (mkenv c2 nm mc stt d)) sp.
Proof.
  intros W L P. apply map_ext_in. intros s Hin. apply eval_public; [exact W | exact L |].
  rewrite forallb_forall in P. apply P. exact Hin.
Qed.

(* facts about the generated constants, re-proved by computation on every run *)
Lemma common_public H : forallb src_public (common_supla H) = true.
Proof. vm_compute. reflexivity. Qed.
Lemma sel_public : forallb src_public sel_cfgbtn = true /\ forallb src_public sel_btn12 = true /\
                   forallb src_public sel_fota = true /\ forallb src_public spec_mqtt = true.
Proof. vm_compute. repeat split. Qed.

Lemma spec_public v : forallb src_public (spec v) = true.
Proof.
  unfold spec. rewrite !forallb_app, common_public. destruct sel_public as [A [B [C _]]].
  destruct ((v =? 1) || (v =? 4)); [|destruct ((v =? 2) || (v =? 5))]; destruct (v <? 3);
    rewrite ?A, ?B, ?C; reflexivity.
Qed.

Lemma fmt_public sg c1 c2 nm mc stt d t sp :
  wf_cfg c1 -> low_equiv c1 c2 -> forallb src_public sp = true ->
  fmt sg (mkenv c1 nm mc stt d) t sp = fmt sg (mkenv c2 nm mc stt d) t sp.
Proof. intros. unfold fmt. f_equal. apply map_eval_public; assumption. Qed.

Lemma field_public c1 c2 off sz :
  wf_cfg c1 -> low_equiv c1 c2 -> src_public (S_field off sz) = true -> field_str c1 off = field_str c2 off.
Proof. intros W L P. exact (eval_public true c1 c2 [] [] [] 0 (S_field off sz) W L P). Qed.

Lemma text_fields_public :
  src_public (S_field OFF_SSID SZ_SSID) = true /\ src_public (S_field OFF_SERVER SZ_SERVER) = true /\
  src_public (S_field OFF_EMAIL SZ_EMAIL) = true.
Proof. vm_compute. repeat split. Qed.

Lemma page_noninterference sg v c1 c2 nm mc stt d add :
  wf_cfg c1 -> low_equiv c1 c2 ->
  page sg v (mkenv c1 nm mc stt d) add = page sg v (mkenv c2 nm mc stt d) add.
Proof.
  intros W L. destruct text_fields_public as [Ps [Pv Pe]].
  assert (Hb : mqtt_body sg (mkenv c1 nm mc stt d) = mqtt_body sg (mkenv c2 nm mc stt d)).
  { unfold mqtt_body. apply fmt_public; [exact W | exact L | exact (proj2 (proj2 (proj2 sel_public)))]. }
  assert (Hs : supla_full sg v (mkenv c1 nm mc stt d) = supla_full sg v (mkenv c2 nm mc stt d)).
  { unfold supla_full. apply fmt_public; [exact W | exact L | apply spec_public]. }
  assert (Hn : supla_bufflen v (mkenv c1 nm mc stt d) = supla_bufflen v (mkenv c2 nm mc stt d)).
  { unfold supla_bufflen. cbn [mkenv cfg name state].
    rewrite (field_public c1 c2 _ _ W L Ps), (field_public c1 c2 _ _ W L Pv), (field_public c1 c2 _ _ W L Pe).
    reflexivity. }
  unfold page, mqtt_room, mqtt_size, mqtt_full. rewrite Hb, Hs, Hn. reflexivity.
Qed.

Lemma http_ok_cfg_independent sg c1 c2 nm mc stt d html :
  http_ok sg (mkenv c1 nm mc stt d) html = http_ok sg (mkenv c2 nm mc stt d) html.
Proof. reflexivity. Qed.

(* the complete observable: allocation size, truncation flag, and the bytes given to espconn_sent *)
Definition observable (sg : bool) (v : Z) (e : env) (add : list Z) : Z * Z * list Z :=
  let '(n, tr, html) := page sg v e add in (n, tr, http_ok sg e html).

Theorem C15_noninterference_thm : forall sg v c1 c2 nm mc stt d add,
  wf_cfg c1 -> low_equiv c1 c2 ->
  observable sg v (mkenv c1 nm mc stt d) add = observable sg v (mkenv c2 nm mc stt d) add.
Proof.
  intros. unfold observable. rewrite (page_noninterference sg v c1 c2 nm mc stt d add) by assumption.
  destruct (page sg v (mkenv c2 nm mc stt d) add) as [[n tr] html]. reflexivity.
Qed.

(* ---------- the page fits its buffer ---------- *)
Fixpoint sumlen (ts : list (list Z)) : Z := match ts with [] => 0 | t :: r => len t + sumlen r end.
Lemma sumlen_nonneg ts : 0 <= sumlen ts.
Proof. induction ts as [|t r IH]; cbn [sumlen]; [lia|]. pose proof (len_nonneg t). lia. Qed.
Lemma render_len : forall its ts, len (render its ts) <= nlit its + sumlen ts.
Proof.
  induction its as [|i r IH]; intros ts; cbn [render nlit].
  - rewrite len_nil. apply sumlen_nonneg.
  - destruct i as [b|k|].
    + rewrite len_cons. specialize (IH ts). lia.
    + destruct ts as [|t ts']; cbn [sumlen].
      * specialize (IH []). cbn [sumlen] in IH. lia.
      * rewrite len_app. specialize (IH ts'). lia.
    + apply IH.
Qed.

Lemma digits_len2 dig v : 0 <= v < 256 ->
  len (let d := digits_fuel 8 16 dig v [] in if len d <? 2 then 48 :: d else d) = 2.
Proof.
  intros Hv. cbn [digits_fuel]. destruct (v <? 16) eqn:E.
  - reflexivity.
  - apply Z.ltb_ge in E. assert (H : v / 16 < 16) by (apply Z.div_lt_upper_bound; lia).
    apply Z.ltb_lt in H. rewrite H. reflexivity.
Qed.
Lemma hex02_len v : 0 <= v < 256 -> len (hex02 v) = 2.
Proof. intros. unfold hex02. apply digits_len2. assumption. Qed.

Lemma digits_fuel_len : forall f base dig v acc, len (digits_fuel f base dig v acc) <= Z.of_nat f + len acc.
Proof.
  induction f as [|f IH]; intros; cbn [digits_fuel]; [lia|].
  destruct (v <? base).
  - rewrite len_cons. lia.
  - specialize (IH base dig (v / base) (dig (v mod base) :: acc)). rewrite len_cons in IH. lia.
Qed.
Lemma dec_len v : len (dec v) <= 13.
Proof.
  unfold dec. destruct (v <? 0); rewrite ?len_cons.
  - pose proof (digits_fuel_len 12 10 decd (- v) []). rewrite len_nil in H. lia.
  - pose proof (digits_fuel_len 12 10 decd v []). rewrite len_nil in H. lia.
Qed.

(* an upper bound of the length of each formatted argument *)
Definition bound (e : env) (s : src) : Z :=
  match s with
  | S_lit l | S_ds l | S_sel_eq _ _ l | S_sel_flag _ _ l => len l
  | S_name => len (name e) | S_state => len (state e)
  | S_field off _ => len (field_str (cfg e) off)
  | S_byte _ | S_mac _ => 2
  | _ => 13
  end.
Fixpoint sumb (e : env) (sp : list src) : Z := match sp with [] => 0 | s :: r => bound e s + sumb e r end.
Lemma sumb_app e a b : sumb e (a ++ b) = sumb e a + sumb e b.
Proof. induction a as [|s r IH]; cbn [app sumb]; lia. Qed.

Lemma eval_bound sg e s : bytes_ok (cfg e) -> bytes_ok (mac e) -> len (eval sg e s) <= bound e s.
Proof.
  intros Bc Bm. destruct s; cbn [eval bound]; try lia; try apply dec_len.
  - rewrite hex02_len; [lia|]. apply nthz_ok. exact Bc.
  - rewrite hex02_len; [lia|]. apply nthz_ok. exact Bm.
  - destruct (ds e =? 1); rewrite ?len_nil; pose proof (len_nonneg s); lia.
  - destruct (nthz (cfg e) off =? v); rewrite ?len_nil; pose proof (len_nonneg s); lia.
  - destruct (xorb neg _); rewrite ?len_nil; pose proof (len_nonneg s); lia.
Qed.
Lemma sumlen_bound sg e sp : bytes_ok (cfg e) -> bytes_ok (mac e) -> sumlen (map (eval sg e) sp) <= sumb e sp.
Proof.
  intros Bc Bm. induction sp as [|s r IH]; cbn [map sumlen sumb]; [lia|].
  pose proof (eval_bound sg e s Bc Bm). lia.
Qed.

Lemma sumb_common e H :
  sumb e (common_supla H) =
  len H + len DSMSG + len (name e) + len (state e) + len SOFTVER + 44 +
  len (field_str (cfg e) OFF_SSID) + len (field_str (cfg e) OFF_SERVER) + len (field_str (cfg e) OFF_EMAIL).
Proof. unfold common_supla, guid_mac. cbn [map app sumb bound]. lia. Qed.

(* the "selected" attributes come in pairs that test the same byte against different constants:
   at most one of each pair is printed *)
Lemma sumlen_app a b : sumlen (a ++ b) = sumlen a + sumlen b.
Proof. induction a as [|t r IH]; cbn [app sumlen]; lia. Qed.
Lemma sel_pair sg e off a b s : a <> b ->
  len (eval sg e (S_sel_eq off a s)) + len (eval sg e (S_sel_eq off b s)) <= len s.
Proof.
  intros Hab. cbn [eval]. pose proof (len_nonneg s).
  destruct (nthz (cfg e) off =? a) eqn:Ea; destruct (nthz (cfg e) off =? b) eqn:Eb;
    change (len (@nil Z)) with 0; lia.
Qed.
Lemma btn_consts_distinct : BTN_MONO <> BTN_BI.
Proof. intros H. assert (E : (BTN_MONO =? BTN_BI) = true) by (apply Z.eqb_eq; exact H). vm_compute in E. discriminate. Qed.
Definition npairs (v : Z) : Z :=
  (if (v =? 1) || (v =? 4) then 1 else if (v =? 2) || (v =? 5) then 2 else 0) + (if v <? 3 then 1 else 0).
Definition sel_part (v : Z) : list src :=
  (if (v =? 1) || (v =? 4) then sel_cfgbtn else if (v =? 2) || (v =? 5) then sel_btn12 else []) ++
  (if v <? 3 then sel_fota else []).
Lemma sumlen_sel sg e v : sumlen (map (eval sg e) (sel_part v)) <= npairs v * len SELECTED.
Proof.
  pose proof (len_nonneg SELECTED) as P. pose proof btn_consts_distinct as D.
  pose proof (sel_pair sg e OFF_CFGBTN BTN_MONO BTN_BI SELECTED D).
  pose proof (sel_pair sg e OFF_BTN1 BTN_MONO BTN_BI SELECTED D).
  pose proof (sel_pair sg e OFF_BTN2 BTN_MONO BTN_BI SELECTED D).
  pose proof (sel_pair sg e OFF_FWUPD 0 1 SELECTED ltac:(lia)).
  unfold sel_part, npairs. rewrite map_app, sumlen_app.
  destruct ((v =? 1) || (v =? 4)); [|destruct ((v =? 2) || (v =? 5))]; destruct (v <? 3);
    unfold sel_cfgbtn, sel_btn12, sel_fota; cbn [map sumlen]; lia.
Qed.

(* closed facts about the six SUPLA templates: literal bytes + "Data saved" + 22 hex pairs + one
   selected attribute per pair stay below template length + slack *)
Definition tmpl_fits (t : list Z) (sl np : Z) : bool :=
  nlit (parse t) + len DSMSG + 44 + np * len SELECTED <? len t + sl.
Lemma tmpl_fits_all :
  tmpl_fits T0 SLACK0 1 = true /\ tmpl_fits T1 SLACK1 2 = true /\ tmpl_fits T2 SLACK2 3 = true /\
  tmpl_fits T3 SLACK3 0 = true /\ tmpl_fits T4 SLACK4 1 = true /\ tmpl_fits T5 SLACK5 2 = true.
Proof. vm_compute. repeat split. Qed.
Lemma tmpl_fits_mono t sl a b : a <= b -> tmpl_fits t sl b = true -> tmpl_fits t sl a = true.
Proof.
  unfold tmpl_fits. intros Hab H. apply Z.ltb_lt in H. apply Z.ltb_lt.
  pose proof (len_nonneg SELECTED). nia.
Qed.
Lemma tmpl_fits_v v : tmpl_fits (tmpl v) (slack v) (npairs v) = true.
Proof.
  destruct tmpl_fits_all as [A0 [A1 [A2 [A3 [A4 A5]]]]]. unfold tmpl, slack.
  destruct (v =? 0) eqn:E0; [apply Z.eqb_eq in E0; subst v; exact A0|].
  destruct (v =? 1) eqn:E1; [apply Z.eqb_eq in E1; subst v; exact A1|].
  destruct (v =? 2) eqn:E2; [apply Z.eqb_eq in E2; subst v; exact A2|].
  destruct (v =? 3) eqn:E3; [apply Z.eqb_eq in E3; subst v; exact A3|].
  destruct (v =? 4) eqn:E4; [apply Z.eqb_eq in E4; subst v; exact A4|].
  apply (tmpl_fits_mono _ _ _ 2); [|exact A5].
  unfold npairs. rewrite E1, E2, E4. cbn [orb]. apply Z.eqb_neq in E0, E1, E2.
  destruct (v =? 5) eqn:E5; destruct (v <? 3) eqn:L; try lia; apply Z.eqb_eq in E5; apply Z.ltb_lt in L; lia.
Qed.

Lemma supla_fits sg v e : bytes_ok (cfg e) -> bytes_ok (mac e) ->
  len (supla_full sg v e) < supla_bufflen v e.
Proof.
  intros Bc Bm. unfold supla_full, fmt.
  pose proof (render_len (parse (tmpl v)) (map (eval sg e) (spec v))) as R.
  assert (Sp : spec v = common_supla (hdr v) ++ sel_part v) by (unfold spec, sel_part; reflexivity).
  rewrite Sp, map_app, sumlen_app in R. rewrite Sp, map_app.
  pose proof (sumlen_bound sg e (common_supla (hdr v)) Bc Bm) as S. rewrite sumb_common in S.
  pose proof (sumlen_sel sg e v) as Q.
  pose proof (tmpl_fits_v v) as F. unfold tmpl_fits in F. apply Z.ltb_lt in F.
  unfold supla_bufflen. lia.
Qed.

Lemma mqtt_fits sg e add :
  len (mqtt_full sg e add) < mqtt_size sg e add /\ len (mqtt_body sg e) < mqtt_room sg e add.
Proof.
  unfold mqtt_room, mqtt_size, mqtt_full, mqtt_prefix. rewrite !len_app.
  pose proof (len_nonneg MQ_DS). pose proof (len_nonneg add). pose proof (len_nonneg MQ_FOOTER).
  destruct (ds e =? 0); rewrite ?len_nil; lia.
Qed.

Lemma truncated_no n full : len full < n -> truncated n full = 0.
Proof. intros. unfold truncated. destruct (n <=? len full) eqn:E; [apply Z.leb_le in E; lia | reflexivity]. Qed.

Theorem C15_fits_and_terminated_thm : forall sg v e add,
  bytes_ok (cfg e) -> bytes_ok (mac e) ->
  let '(n, tr, html) := page sg v e add in
  tr = 0 /\ html = cstr (full_page sg v e add) /\ len (full_page sg v e add) < n /\ len html + 1 <= n.
Proof.
  intros sg v e add Bc Bm. unfold page, full_page. destruct (v =? 6).
  - destruct (mqtt_fits sg e add) as [A B]. rewrite (truncated_no _ _ B). cbn [Z.eqb].
    pose proof (cstr_len (mqtt_full sg e add)). repeat split; try lia.
  - pose proof (supla_fits sg v e Bc Bm) as A. rewrite (truncated_no _ _ A).
    unfold snprintf_str. destruct (supla_bufflen v e <=? 0) eqn:E.
    + apply Z.leb_le in E. pose proof (len_nonneg (supla_full sg v e)). lia.
    + rewrite take_all by lia. pose proof (cstr_len (supla_full sg v e)). repeat split; try lia.
Qed.

(* ---------- nothing is cut: no embedded NUL ---------- *)
Definition nonulb (l : list Z) : bool := forallb (fun b => negb (b =? 0)) l.
Lemma nonulb_spec l : nonulb l = true -> nonul l.
Proof.
  unfold nonulb, nonul. intros H Hin. rewrite forallb_forall in H. specialize (H 0 Hin). discriminate.
Qed.
Lemma nonul_app a b : nonul a -> nonul b -> nonul (a ++ b).
Proof. unfold nonul. intros A B H. apply in_app_or in H. tauto. Qed.
Lemma nonul_nil : nonul [].
Proof. intros []. Qed.

Lemma digits_fuel_pos : forall f base dig v acc,
  (forall x, 0 < dig x) -> (forall b, In b acc -> 0 < b) -> forall b, In b (digits_fuel f base dig v acc) -> 0 < b.
Proof.
  induction f as [|f IH]; intros base dig v acc Hd Ha b; cbn [digits_fuel]; [apply Ha|].
  assert (Ha' : forall b, In b (dig (v mod base) :: acc) -> 0 < b).
  { intros x [<-|Hx]; [apply Hd | apply Ha; exact Hx]. }
  destruct (v <? base); [apply Ha' | apply IH; assumption].
Qed.
Lemma hexd_pos x : 0 <= x -> 0 < hexd x.
Proof. intros; unfold hexd. destruct (x <? 10); lia. Qed.
(* digits are taken modulo the base, hence non-negative; we bound through a wrapper *)
Lemma digits_nonul base dig v : 0 < base -> (forall x, 0 <= x -> 0 < dig x) ->
  nonul (digits_fuel 12 base dig v []) /\ nonul (digits_fuel 8 base dig v []).
Proof.
  intros Hb Hd.
  assert (G : forall f w acc, (forall b, In b acc -> 0 < b) -> forall b, In b (digits_fuel f base dig w acc) -> 0 < b).
  { induction f as [|f IH]; intros w acc Ha b; cbn [digits_fuel]; [apply Ha|].
    assert (Ha' : forall b, In b (dig (w mod base) :: acc) -> 0 < b).
    { intros x [<-|Hx]; [apply Hd; apply Z.mod_pos_bound; exact Hb | apply Ha; exact Hx]. }
    destruct (w <? base); [apply Ha' | apply IH; exact Ha']. }
  split; intros Hin; apply (G _ v []) in Hin; try lia; intros b [].
Qed.
Lemma dec_nonul v : nonul (dec v).
Proof.
  assert (Hd : forall x, 0 <= x -> 0 < decd x) by (intros; unfold decd; lia).
  unfold dec. destruct (v <? 0).
  - intros [H|H]; [lia|]. exact (proj1 (digits_nonul 10 decd (- v) ltac:(lia) Hd) H).
  - exact (proj1 (digits_nonul 10 decd v ltac:(lia) Hd)).
Qed.
Lemma hex02_nonul v : nonul (hex02 v).
Proof.
  unfold hex02. pose proof (proj2 (digits_nonul 16 hexd v ltac:(lia) hexd_pos)) as H.
  destruct (len _ <? 2); [|exact H]. intros [E|E]; [lia | exact (H E)].
Qed.

Definition src_nonulb (s : src) : bool :=
  match s with S_lit l | S_ds l | S_sel_eq _ _ l | S_sel_flag _ _ l => nonulb l | _ => true end.
Lemma eval_nonul sg e s : src_nonulb s = true -> nonul (name e) -> nonul (state e) -> nonul (eval sg e s).
Proof.
  intros P Hn Hs. destruct s; cbn [eval]; cbn [src_nonulb] in P;
    try (apply nonulb_spec; exact P); try assumption; try apply dec_nonul; try apply hex02_nonul.
  - apply cstr_nonul.
  - destruct (ds e =? 1); [apply nonulb_spec; exact P | apply nonul_nil].
  - destruct (nthz (cfg e) off =? v); [apply nonulb_spec; exact P | apply nonul_nil].
  - destruct (xorb neg _); [apply nonulb_spec; exact P | apply nonul_nil].
Qed.

Definition lits_nonulb (its : list item) : bool := forallb (fun i => negb (is_lit0 i)) its.
Lemma render_nonul : forall its ts, lits_nonulb its = true -> Forall nonul ts -> nonul (render its ts).
Proof.
  induction its as [|i r IH]; intros ts L T; cbn [render]; [apply nonul_nil|].
  unfold lits_nonulb in L. cbn [forallb] in L. apply andb_true_iff in L. destruct L as [Li Lr].
  destruct i as [b|k|].
  - intros [H|H]; [subst b; discriminate | exact (IH ts Lr T H)].
  - destruct ts as [|t ts']; [exact (IH [] Lr T)|].
    inversion T as [|? ? Ht Hts]; subst. apply nonul_app; [exact Ht | exact (IH ts' Lr Hts)].
  - exact (IH ts Lr T).
Qed.

Lemma fmt_nonul sg e t sp :
  lits_nonulb (parse t) = true -> forallb src_nonulb sp = true -> nonul (name e) -> nonul (state e) ->
  nonul (fmt sg e t sp).
Proof.
  intros L P Hn Hs. unfold fmt. apply render_nonul; [exact L|].
  apply Forall_forall. intros x Hx. apply in_map_iff in Hx. destruct Hx as [s [<- Hin]].
  rewrite forallb_forall in P. apply eval_nonul; [apply P; exact Hin | exact Hn | exact Hs].
Qed.

Lemma templates_nonul :
  lits_nonulb (parse T0) = true /\ lits_nonulb (parse T1) = true /\ lits_nonulb (parse T2) = true /\
  lits_nonulb (parse T3) = true /\ lits_nonulb (parse T4) = true /\ lits_nonulb (parse T5) = true /\
  lits_nonulb (parse MQ_MAIN) = true /\
  nonulb MQ_HEADER = true /\ nonulb MQ_DS = true /\ nonulb MQ_DIV = true /\ nonulb MQ_SVG = true /\ nonulb MQ_FOOTER = true.
Proof. vm_compute. repeat split. Qed.
Lemma specs_nonul :
  (forallb src_nonulb (common_supla H0) = true /\ forallb src_nonulb (common_supla H1) = true /\
   forallb src_nonulb (common_supla H2) = true /\ forallb src_nonulb (common_supla H3) = true /\
   forallb src_nonulb (common_supla H4) = true /\ forallb src_nonulb (common_supla H5) = true) /\
  forallb src_nonulb sel_cfgbtn = true /\ forallb src_nonulb sel_btn12 = true /\
  forallb src_nonulb sel_fota = true /\ forallb src_nonulb spec_mqtt = true.
Proof. vm_compute. repeat split. Qed.

Lemma tmpl_nonul_v v : lits_nonulb (parse (tmpl v)) = true.
Proof.
  destruct templates_nonul as [A0 [A1 [A2 [A3 [A4 [A5 _]]]]]]. unfold tmpl.
  destruct (v =? 0); [exact A0|]. destruct (v =? 1); [exact A1|]. destruct (v =? 2); [exact A2|].
  destruct (v =? 3); [exact A3|]. destruct (v =? 4); [exact A4|]. exact A5.
Qed.
Lemma spec_nonul_v v : forallb src_nonulb (spec v) = true.
Proof.
  destruct specs_nonul as [[A0 [A1 [A2 [A3 [A4 A5]]]]] [B [C [D _]]]].
  unfold spec. rewrite !forallb_app.
  assert (Hc : forallb src_nonulb (common_supla (hdr v)) = true).
  { unfold hdr. destruct (v =? 0); [exact A0|]. destruct (v =? 1); [exact A1|]. destruct (v =? 2); [exact A2|].
    destruct (v =? 3); [exact A3|]. destruct (v =? 4); [exact A4|]. exact A5. }
  rewrite Hc. destruct ((v =? 1) || (v =? 4)); [|destruct ((v =? 2) || (v =? 5))]; destruct (v <? 3);
    rewrite ?B, ?C, ?D; reflexivity.
Qed.

Theorem C15_page_complete_thm : forall sg v e add,
  bytes_ok (cfg e) -> bytes_ok (mac e) -> nonul (name e) -> nonul (state e) -> nonul add ->
  let '(n, tr, html) := page sg v e add in
  html = full_page sg v e add /\ nonul html /\ len html + 1 <= n.
Proof.
  intros sg v e add Bc Bm Hn Hs Ha.
  pose proof (C15_fits_and_terminated_thm sg v e add Bc Bm) as F.
  destruct (page sg v e add) as [[n tr] html]. destruct F as [_ [Hh [_ Hl]]].
  assert (N : nonul (full_page sg v e add)).
  { unfold full_page. destruct (v =? 6).
    - destruct templates_nonul as [_ [_ [_ [_ [_ [_ [M [Hh' [Hd [Hv [Hg Hf]]]]]]]]]]].
      unfold mqtt_full, mqtt_prefix. repeat apply nonul_app; try (apply nonulb_spec; assumption); try assumption.
      + destruct (ds e =? 0); [apply nonul_nil | apply nonulb_spec; exact Hd].
      + unfold mqtt_body. apply fmt_nonul; [exact M | exact (proj2 (proj2 (proj2 (proj2 specs_nonul)))) | exact Hn | exact Hs].
    - unfold supla_full. apply fmt_nonul; [apply tmpl_nonul_v | apply spec_nonul_v | exact Hn | exact Hs]. }
  rewrite (cstr_id _ N) in Hh. subst html. repeat split; [exact N | exact Hl].
Qed.

(* format strings and argument lists agree: no unsupported conversion, same number and kinds *)
Definition conv_eqb (a b : conv) : bool :=
  match a, b with CStr, CStr | CDec, CDec | CHex02, CHex02 => true | _, _ => false end.
Fixpoint convs_eqb (a b : list conv) : bool :=
  match a, b with [], [] => true | x :: a', y :: b' => conv_eqb x y && convs_eqb a' b' | _, _ => false end.
Definition tmpl_ok (t : list Z) (sp : list src) : bool :=
  negb (existsb is_bad (parse t)) && convs_eqb (convs (parse t)) (map kind_of sp).
Theorem C15_templates_wellformed_thm :
  tmpl_ok T0 (spec 0) = true /\ tmpl_ok T1 (spec 1) = true /\ tmpl_ok T2 (spec 2) = true /\
  tmpl_ok T3 (spec 3) = true /\ tmpl_ok T4 (spec 4) = true /\ tmpl_ok T5 (spec 5) = true /\
  tmpl_ok MQ_MAIN spec_mqtt = true /\ tmpl_ok HTTP_HDR [S_lit HTTP_OK; S_len []] = true.
Proof. vm_compute. repeat split. Qed.

(* ---------- executable checkers are sound (for the examples) ---------- *)
Lemma terminatedb_spec c off sz : terminatedb c off sz = true -> terminated c off sz.
Proof.
  unfold terminatedb, terminated. intros H. apply existsb_exists in H. destruct H as [k [Hin Hk]].
  exists k. split; [apply idxs_range; exact Hin | apply Z.eqb_eq; exact Hk].
Qed.
Lemma wf_cfgb_spec c : wf_cfgb c = true -> wf_cfg c.
Proof.
  unfold wf_cfgb. rewrite !andb_true_iff. intros [[[A B] C] D].
  constructor; apply terminatedb_spec; assumption.
Qed.
Lemma low_equivb_spec c1 c2 : low_equivb c1 c2 = true -> low_equiv c1 c2.
Proof.
  unfold low_equivb. rewrite andb_true_iff. intros [A B]. rewrite forallb_forall in A, B. split.
  - intros i Hi Hs He. specialize (A i (idxs_in _ _ Hi)). rewrite Hs, He in A. cbn [orb] in A.
    apply Z.eqb_eq. exact A.
  - intros i Hi Hj. specialize (B i (idxs_in _ _ Hi)). apply orb_true_iff in B. destruct B as [B|B].
    + apply existsb_exists in B. destruct B as [j [Hin Hz]]. apply idxs_range in Hin.
      apply Z.eqb_eq in Hz. exfalso. exact (Hj j Hin Hz).
    + apply Z.eqb_eq. exact B.
Qed.

(* ---------- examples ---------- *)
Definition str_hunter : list Z := [104;117;110;116;101;114;50;115;101;99;114;101;116].   (* "hunter2secret" *)
Definition str_other : list Z := [88;88;88;88;88;88;88;88;88;88;88;88;88].
Definition ex_base : list Z :=
  poke (poke (poke (zeros CFG_SIZE) OFF_SSID [104;111;109;101]) OFF_SERVER [115;46;111;114;103]) OFF_EMAIL [97;64;98;46;99].
(* a long password: Password field full, the rest behind the e-mail terminator *)
Definition ex_c1 : list Z :=
  poke (poke (poke (poke ex_base OFF_WIFIPWD str_hunter) OFF_PWD (repeat 112 (Z.to_nat SZ_PWD))) (OFF_EMAIL + 6) str_hunter)
       OFF_AUTHKEY (repeat 7 (Z.to_nat SZ_AUTHKEY)).
Definition ex_c2 : list Z :=
  poke (poke (poke (poke ex_base OFF_WIFIPWD str_other) OFF_PWD (repeat 113 (Z.to_nat SZ_PWD))) (OFF_EMAIL + 6) str_other)
       OFF_AUTHKEY (repeat 9 (Z.to_nat SZ_AUTHKEY)).
(* the same with WIFI_SSID filled to its last byte (no terminator inside the field) *)
Definition ex_bad1 : list Z := poke ex_c1 OFF_SSID (repeat 65 (Z.to_nat SZ_SSID)).
Definition ex_bad2 : list Z := poke ex_c2 OFF_SSID (repeat 65 (Z.to_nat SZ_SSID)).

Lemma C15_hypotheses_satisfiable_thm :
  wf_cfg ex_c1 /\ low_equiv ex_c1 ex_c2 /\ ex_c1 <> ex_c2 /\ bytes_ok ex_c1 /\ len ex_c1 = CFG_SIZE /\
  forall v, observable true v (mkenv ex_c1 [] [] [] 1) [] = observable true v (mkenv ex_c2 [] [] [] 1) [].
Proof.
  assert (W : wf_cfg ex_c1) by (apply wf_cfgb_spec; vm_compute; reflexivity).
  assert (L : low_equiv ex_c1 ex_c2) by (apply low_equivb_spec; vm_compute; reflexivity).
  split; [exact W|]. split; [exact L|]. split; [|split; [|split]].
  - intros E. assert (H : list_eqb ex_c1 ex_c2 = true) by (apply list_eqb_true; exact E). vm_compute in H. discriminate.
  - apply Forall_forall. intros b Hb.
    assert (H : forallb (fun b => (0 <=? b) && (b <? 256)) ex_c1 = true) by (vm_compute; reflexivity).
    rewrite forallb_forall in H. specialize (H b Hb). apply andb_true_iff in H. destruct H as [H1 H2].
    apply Z.leb_le in H1. apply Z.ltb_lt in H2. unfold byte_ok. lia.
  - vm_compute. reflexivity.
  - intros v. apply C15_noninterference_thm; assumption.
Qed.

(* the hypothesis wf_cfg is needed: with WIFI_SSID unterminated the page runs into WIFI_PWD *)
Lemma C15_wf_needed_example_thm :
  low_equiv ex_bad1 ex_bad2 /\ ~ wf_cfg ex_bad1 /\
  (let '(_, _, sent1) := observable true 0 (mkenv ex_bad1 [] [] [] 0) [] in
   let '(_, _, sent2) := observable true 0 (mkenv ex_bad2 [] [] [] 0) [] in
   sent1 <> sent2 /\ infixb str_hunter sent1 = true /\ infixb str_hunter sent2 = false) /\
  (let '(_, _, sent1) := observable true 6 (mkenv ex_bad1 [] [] [] 0) [] in infixb str_hunter sent1 = true).
Proof.
  split; [apply low_equivb_spec; vm_compute; reflexivity|]. split.
  - intros [[k [Hk Hz]] _ _ _].
    assert (H : forallb (fun k => negb (nthz ex_bad1 (OFF_SSID + k) =? 0)) (idxs SZ_SSID) = true) by (vm_compute; reflexivity).
    rewrite forallb_forall in H. specialize (H k (idxs_in _ _ Hk)). rewrite Hz in H. discriminate.
  - split.
    + destruct (observable true 0 (mkenv ex_bad1 [] [] [] 0) []) as [[a1 b1] sent1] eqn:E1.
      destruct (observable true 0 (mkenv ex_bad2 [] [] [] 0) []) as [[a2 b2] sent2] eqn:E2.
      assert (H : let '(_, _, s1) := observable true 0 (mkenv ex_bad1 [] [] [] 0) [] in
                  let '(_, _, s2) := observable true 0 (mkenv ex_bad2 [] [] [] 0) [] in
                  list_eqb s1 s2 = false /\ infixb str_hunter s1 = true /\ infixb str_hunter s2 = false)
        by (vm_compute; repeat split).
      rewrite E1, E2 in H. destruct H as [H1 [H2 H3]]. repeat split; try assumption.
      apply list_eqb_false. exact H1.
    + vm_compute. reflexivity.
Qed.

(* ---------- composition with the form handler (C14): pages served after a saved form ---------- *)
From V Require C14.Model C14.Proofs C14.Fields Gen.C14Vars.

Lemma layouts_agree :
  C14Vars.O_Email = OFF_EMAIL /\ C14Vars.Z_Email = SZ_EMAIL /\ C14Vars.CFG_SIZE = CFG_SIZE /\
  C14Vars.O_WIFI_SSID = OFF_SSID /\ C14Vars.O_Server = OFF_SERVER /\ C14Vars.O_MqttTopicPrefix = OFF_PREFIX /\
  C14Vars.O_WIFI_PWD = OFF_WIFIPWD /\ C14Vars.O_LocationPwd = OFF_PWD /\ C14Vars.O_AuthKey = OFF_AUTHKEY.
Proof. vm_compute. repeat split. Qed.

(* the configuration stored after any sequence of segments handled by the repaired supla_esp_recv_callback *)
Definition stored_after (sg : bool) (d : C14.Model.dev) (segs : list (list Z)) : list Z :=
  C14.Model.dcfg (fst (C14.Proofs.recv_all C14.Model.FIXED sg d segs)).

Lemma stored_email_terminated sg d segs : C14.Proofs.dev_ok d ->
  terminated (stored_after sg d segs) OFF_EMAIL SZ_EMAIL.
Proof.
  intros D. unfold stored_after. pose proof (C14.Proofs.C14_no_fault_thm sg segs d D) as H.
  destruct (C14.Proofs.recv_all C14.Model.FIXED sg d segs) as [d' rs]. destruct H as [_ D'].
  destruct (C14.Proofs.d_email d' D') as [k [Hk Hz]]. destruct layouts_agree as [E1 [E2 _]].
  rewrite E1, E2 in *. exists k. split; assumption.
Qed.

(* Secrecy after a saved form.  The e-mail/username link is proved (C14_no_fault keeps it terminated in place);
   for WIFI_SSID, Server and MqttTopicPrefix the in-place termination by the form handler is a hypothesis here
   (C14's frame lemma covers the Email field only; these three are checked by the C14 and C15 monitors and by the
   byte comparison of both models with the real code). *)
Theorem C15_after_saved_form_partial_thm : forall sg sgf d segs,
  C14.Proofs.dev_ok d ->
  let c1 := stored_after sgf d segs in
  terminated c1 OFF_EMAIL SZ_EMAIL /\
  (terminated c1 OFF_SSID SZ_SSID -> terminated c1 OFF_SERVER SZ_SERVER -> terminated c1 OFF_PREFIX SZ_PREFIX ->
   forall v c2 nm mc stt dd add, low_equiv c1 c2 ->
     observable sg v (mkenv c1 nm mc stt dd) add = observable sg v (mkenv c2 nm mc stt dd) add).
Proof.
  intros sg sgf d segs D. cbv zeta. pose proof (stored_email_terminated sgf d segs D) as E.
  split; [exact E|]. intros Hs Hv Hp v c2 nm mc stt dd add L.
  apply C15_noninterference_thm; [constructor; assumption | exact L].
Qed.

(* ---------- full composition: every printed field is terminated in place after any saved form ---------- *)
Lemma sizes_agree :
  C14Vars.Z_WIFI_SSID = SZ_SSID /\ C14Vars.Z_Server = SZ_SERVER /\ C14Vars.Z_MqttTopicPrefix = SZ_PREFIX.
Proof. vm_compute. repeat split. Qed.

(* a stored image in the sense of C14 (dev_ok /\ dev_ok2) is wf_cfg in the sense of C15 *)
Lemma wf_of_dev_ok d : C14.Proofs.dev_ok d -> C14.Fields.dev_ok2 d -> wf_cfg (C14.Model.dcfg d).
Proof.
  intros D D2. destruct layouts_agree as [E1 [E2 [_ [E4 [E5 [E6 _]]]]]]. destruct sizes_agree as [S1 [S2 S3]].
  assert (T : forall o z, In (o, z) C14.Fields.TF4 -> terminated (C14.Model.dcfg d) o z).
  { intros o z H. destruct (D2 (o, z) H) as [k [Hk Hz]]. exists k. split; assumption. }
  constructor.
  - rewrite <- E4, <- S1. apply T. cbn; auto.
  - rewrite <- E5, <- S2. apply T. cbn; auto.
  - destruct (C14.Proofs.d_email d D) as [k [Hk Hz]]. rewrite E1, E2 in *. exists k. split; assumption.
  - rewrite <- E6, <- S3. apply T. cbn; auto.
Qed.

Theorem C15_after_saved_form_thm : forall sg sgf d segs,
  C14.Proofs.dev_ok d -> C14.Fields.dev_ok2 d ->
  let c1 := stored_after sgf d segs in
  wf_cfg c1 /\
  forall v c2 nm mc stt dd add, low_equiv c1 c2 ->
    observable sg v (mkenv c1 nm mc stt dd) add = observable sg v (mkenv c2 nm mc stt dd) add.
Proof.
  intros sg sgf d segs D D2. cbv zeta. unfold stored_after.
  pose proof (C14.Fields.C14_text_fields_thm sgf segs d D D2) as H. cbv zeta in H. destruct H as [H1 H2].
  pose proof (wf_of_dev_ok _ H1 H2) as W. split; [exact W|].
  intros v c2 nm mc stt dd add L. apply C15_noninterference_thm; assumption.
Qed.

(* ---------- the last-state text the firmware itself produces (wifi status messages) ---------- *)
From V Require Import Gen.StateSites.
Definition site_publicb (r : list Z) : bool :=
  (nthz r 1 =? 0) ||
  existsb (fun f : Z * Z => (nthz r 3 =? fst f) && src_public (S_field (fst f) (snd f)))
          [(OFF_SSID, SZ_SSID); (OFF_SERVER, SZ_SERVER); (OFF_EMAIL, SZ_EMAIL); (OFF_PREFIX, SZ_PREFIX)].
(* every generated call site formats at most a public text field (re-proved on every run) *)
Lemma wifi_sites_public : forallb site_publicb WIFI_SITES = true.
Proof. vm_compute. reflexivity. Qed.

Lemma wifi_msg_public c1 c2 r : wf_cfg c1 -> low_equiv c1 c2 -> site_publicb r = true -> wifi_msg c1 r = wifi_msg c2 r.
Proof.
  intros W L P. unfold wifi_msg. destruct (nthz r 1 =? 0) eqn:E; [reflexivity|].
  unfold site_publicb in P. rewrite E in P. cbn [orb] in P. apply existsb_exists in P. destruct P as [f [_ Pf]].
  apply andb_true_iff in Pf. destruct Pf as [Eo Pp]. apply Z.eqb_eq in Eo.
  rewrite Eo. rewrite (field_public c1 c2 (fst f) (snd f) W L Pp). reflexivity.
Qed.
Lemma wifi_site_in n r : wifi_site n = Some r -> site_publicb r = true.
Proof.
  unfold wifi_site. intros H. apply find_some in H. destruct H as [Hin _].
  pose proof wifi_sites_public as P. rewrite forallb_forall in P. apply P. exact Hin.
Qed.
Lemma wifi_status_public c1 c2 tl n : wf_cfg c1 -> low_equiv c1 c2 -> wifi_status c1 tl n = wifi_status c2 tl n.
Proof.
  intros W L. unfold wifi_status. destruct tl as [text last]. destruct (last =? n); [reflexivity|].
  destruct (n =? ST_GOT_IP); [reflexivity|]. destruct (wifi_site n) as [r|] eqn:E; [|reflexivity].
  rewrite (wifi_msg_public c1 c2 r W L (wifi_site_in n r E)). reflexivity.
Qed.
Lemma log_step_public c1 c2 tl e : wf_cfg c1 -> low_equiv c1 c2 -> log_step c1 tl e = log_step c2 tl e.
Proof.
  intros W L. unfold log_step. destruct e as [[k n] b]. destruct (k =? 0); [reflexivity|].
  destruct (k =? 1); [|apply wifi_status_public; assumption].
  destruct (snd tl =? ST_GOT_IP + 1); [apply wifi_status_public; assumption | reflexivity].
Qed.
Lemma state_of_public c1 c2 log : wf_cfg c1 -> low_equiv c1 c2 -> state_of c1 log = state_of c2 log.
Proof.
  intros W L. unfold state_of. generalize (@nil Z, ST_GOT_IP + 1). induction log as [|e r IH]; intros tl; cbn [fold_left]; [reflexivity|].
  rewrite (log_step_public c1 c2 tl e W L). apply IH.
Qed.

Theorem C15_noninterference_firmware_state_thm : forall sg v c1 c2 nm mc log d add,
  wf_cfg c1 -> low_equiv c1 c2 ->
  observable sg v (mkenv c1 nm mc (state_of c1 log) d) add = observable sg v (mkenv c2 nm mc (state_of c2 log) d) add.
Proof.
  intros sg v c1 c2 nm mc log d add W L. rewrite (state_of_public c1 c2 log W L).
  apply C15_noninterference_thm; assumption.
Qed.
