(* C15 — executable model of the configuration page renderer:
   supla_esp_cfgmode_get_html_template (supla_esp_cfgmode_html.c: 3 button variants x FOTA/no FOTA;
   supla_esp_cfgmode_mqtt_html.c with supla_esp_cfgmode_get_body), supla_esp_http_ok /
   supla_esp_http_send_response (supla_esp_cfgmode.c) and supla_esp_set_state (supla_esp_state.c).
   The format strings and literal arguments are the generated constants of Gen/HtmlTemplates.v.
   Definitions only. *)
From Coq Require Import List ZArith Bool.
Import ListNotations.
From V Require Import Base.Bytes Base.Iface Gen.HtmlTemplates Gen.StateSites.
From V Require C14.Model.   (* the form handler, for pages served after a saved form *)
Local Open Scope Z_scope.

(* ---------- C strings inside a byte image ---------- *)
Fixpoint cstr (l : list Z) : list Z :=
  match l with [] => [] | b :: r => if b =? 0 then [] else b :: cstr r end.
(* what `%s` prints for a pointer to offset `off` of the configuration image: bytes up to the
   first NUL, wherever that is (an unterminated field runs into the next one) *)
Definition field_str (c : list Z) (off : Z) : list Z := cstr (drop off c).

(* ---------- printf subset ---------- *)
Inductive conv := CStr | CDec | CHex02.
Inductive item := Lit (b : Z) | Conv (k : conv) | Bad.

Fixpoint parse_fuel (f : nat) (s : list Z) : list item :=
  match f with O => [] | S f' =>
  match s with
  | [] => []
  | 37 :: 115 :: r => Conv CStr :: parse_fuel f' r                  (* %s *)
  | 37 :: 105 :: r => Conv CDec :: parse_fuel f' r                  (* %i *)
  | 37 :: 100 :: r => Conv CDec :: parse_fuel f' r                  (* %d *)
  | 37 :: 48 :: 50 :: 88 :: r => Conv CHex02 :: parse_fuel f' r     (* %02X *)
  | 37 :: 37 :: r => Lit 37 :: parse_fuel f' r                      (* %% *)
  | 37 :: r => Bad :: parse_fuel f' r
  | b :: r => Lit b :: parse_fuel f' r
  end end.
Definition parse (s : list Z) : list item := parse_fuel (S (length s)) s.

Fixpoint digits_fuel (f : nat) (base : Z) (dig : Z -> Z) (v : Z) (acc : list Z) : list Z :=
  match f with O => acc | S f' =>
    let acc' := dig (v mod base) :: acc in
    if v <? base then acc' else digits_fuel f' base dig (v / base) acc' end.
Definition decd (n : Z) : Z := 48 + n.
Definition hexd (n : Z) : Z := if n <? 10 then 48 + n else 55 + n.
(* %i / %d of a C int *)
Definition dec (v : Z) : list Z :=
  if v <? 0 then 45 :: digits_fuel 12 10 decd (- v) [] else digits_fuel 12 10 decd v [].
(* %02X of an unsigned value *)
Definition hex02 (v : Z) : list Z :=
  let d := digits_fuel 8 16 hexd v [] in if len d <? 2 then 48 :: d else d.

(* the literal bytes and the already formatted arguments, in order *)
Fixpoint render (its : list item) (texts : list (list Z)) : list Z :=
  match its with
  | [] => []
  | Lit b :: r => b :: render r texts
  | Bad :: r => render r texts
  | Conv _ :: r => match texts with t :: ts => t ++ render r ts | [] => render r [] end
  end.
Fixpoint convs (its : list item) : list conv :=
  match its with [] => [] | Conv k :: r => k :: convs r | _ :: r => convs r end.
Definition is_bad (i : item) : bool := match i with Bad => true | _ => false end.
Definition is_lit0 (i : item) : bool := match i with Lit 0 => true | _ => false end.
Fixpoint nlit (its : list item) : Z :=
  match its with [] => 0 | Lit _ :: r => 1 + nlit r | _ :: r => nlit r end.

(* ---------- argument sources (one per conversion of a template) ---------- *)
Inductive src :=
| S_lit (s : list Z)                      (* string literal / generated constant *)
| S_name | S_state                        (* dev_name, supla_esp_get_laststate() *)
| S_field (off sz : Z)                    (* supla_esp_cfg.<text field> *)
| S_byte (off : Z)                        (* (unsigned char)supla_esp_cfg.<byte> for %02X *)
| S_mac (i : Z)                           (* (unsigned char)mac[i] *)
| S_ds (s : list Z)                       (* data_saved == 1 ? s : "" *)
| S_sel_eq (off v : Z) (s : list Z)       (* supla_esp_cfg.<char> == v ? s : "" *)
| S_sel_flag (mask : Z) (neg : bool) (s : list Z) (* [!](Flags & mask) ? s : "" *)
| S_port                                  (* Port == 0 ? MQ_DEFPORT : Port *)
| S_schar (off : Z)                       (* plain `char` promoted to int, %i *)
| S_uchar (off : Z)                       (* unsigned char promoted to int, %i *)
| S_const (v : Z)                         (* integer constant, %i *)
| S_len (s : list Z).                     (* Content-Length *)

Definition kind_of (s : src) : conv :=
  match s with
  | S_byte _ | S_mac _ => CHex02
  | S_port | S_schar _ | S_uchar _ | S_const _ | S_len _ => CDec
  | _ => CStr
  end.

Record env := { cfg : list Z; name : list Z; mac : list Z; state : list Z; ds : Z }.

Definition s32 (v : Z) : Z := if 2147483648 <=? v then v - 4294967296 else v.
Definition flags_of (c : list Z) : Z := le32 c OFF_FLAGS.
(* `char` is signed on the host of the correspondence check and unsigned on the xtensa target *)
Definition char_val (sg : bool) (b : Z) : Z := if sg && (128 <=? b) then b - 256 else b.

Definition eval (sg : bool) (e : env) (s : src) : list Z :=
  match s with
  | S_lit l => l
  | S_name => name e
  | S_state => state e
  | S_field off _ => field_str (cfg e) off
  | S_byte off => hex02 (nthz (cfg e) off)
  | S_mac i => hex02 (nthz (mac e) i)
  | S_ds l => if ds e =? 1 then l else []
  | S_sel_eq off v l => if nthz (cfg e) off =? v then l else []
  | S_sel_flag mask neg l =>
      if xorb neg (negb (Z.land (flags_of (cfg e)) mask =? 0)) then l else []
  | S_port => let p := s32 (le32 (cfg e) OFF_PORT) in dec (if p =? 0 then MQ_DEFPORT else p)
  | S_schar off => dec (char_val sg (nthz (cfg e) off))
  | S_uchar off => dec (nthz (cfg e) off)
  | S_const v => dec v
  | S_len l => dec (len l)
  end.

Definition guid_mac : list src :=
  map (fun i => S_byte (OFF_GUID + i)) [0;1;2;3;4;5;6;7;8;9;10;11;12;13;14;15] ++
  map S_mac [0;1;2;3;4;5].

Definition common_supla (H : list Z) : list src :=
  [S_lit H; S_ds DSMSG; S_name; S_state; S_lit SOFTVER] ++ guid_mac ++
  [S_field OFF_SSID SZ_SSID; S_field OFF_SERVER SZ_SERVER; S_field OFF_EMAIL SZ_EMAIL].
Definition sel_cfgbtn := [S_sel_eq OFF_CFGBTN BTN_MONO SELECTED; S_sel_eq OFF_CFGBTN BTN_BI SELECTED].
Definition sel_btn12 := [S_sel_eq OFF_BTN1 BTN_MONO SELECTED; S_sel_eq OFF_BTN1 BTN_BI SELECTED;
                         S_sel_eq OFF_BTN2 BTN_MONO SELECTED; S_sel_eq OFF_BTN2 BTN_BI SELECTED].
Definition sel_fota := [S_sel_eq OFF_FWUPD 0 SELECTED; S_sel_eq OFF_FWUPD 1 SELECTED].

(* variants: 0 plain, 1 CFGBTN_TYPE_SELECTION, 2 BTN1_2_TYPE_SELECTION (with __FOTA); 3,4,5 the same
   without __FOTA; 6 the MQTT page *)
Definition tmpl (v : Z) : list Z :=
  if v =? 0 then T0 else if v =? 1 then T1 else if v =? 2 then T2 else
  if v =? 3 then T3 else if v =? 4 then T4 else T5.
Definition hdr (v : Z) : list Z :=
  if v =? 0 then H0 else if v =? 1 then H1 else if v =? 2 then H2 else
  if v =? 3 then H3 else if v =? 4 then H4 else H5.
Definition slack (v : Z) : Z :=
  if v =? 0 then SLACK0 else if v =? 1 then SLACK1 else if v =? 2 then SLACK2 else
  if v =? 3 then SLACK3 else if v =? 4 then SLACK4 else SLACK5.
Definition spec (v : Z) : list src :=
  common_supla (hdr v) ++
  (if (v =? 1) || (v =? 4) then sel_cfgbtn else if (v =? 2) || (v =? 5) then sel_btn12 else []) ++
  (if v <? 3 then sel_fota else []).

Definition spec_mqtt : list src :=
  [S_name; S_state; S_lit SOFTVER] ++ guid_mac ++
  [S_field OFF_SSID SZ_SSID;
   S_sel_flag FLAG_MQTT_ENABLED true MQ_SELECTED; S_sel_flag FLAG_MQTT_ENABLED false MQ_SELECTED;
   S_field OFF_SERVER SZ_SERVER; S_field OFF_EMAIL SZ_EMAIL; S_field OFF_SERVER SZ_SERVER;
   S_port;
   S_sel_flag FLAG_MQTT_TLS true MQ_SELECTED; S_sel_flag FLAG_MQTT_TLS false MQ_SELECTED;
   S_sel_flag FLAG_MQTT_NO_AUTH false MQ_SELECTED; S_sel_flag FLAG_MQTT_NO_AUTH true MQ_SELECTED;
   S_field OFF_EMAIL SZ_EMAIL; S_field OFF_PREFIX SZ_PREFIX;
   S_schar OFF_QOS;
   S_sel_flag FLAG_MQTT_NO_RETAIN true MQ_SELECTED; S_sel_flag FLAG_MQTT_NO_RETAIN false MQ_SELECTED;
   S_const PPD_MAX; S_uchar OFF_PPD].

Definition fmt (sg : bool) (e : env) (t : list Z) (sp : list src) : list Z :=
  render (parse t) (map (eval sg e) sp).

(* what snprintf(buf, n, ...) leaves in buf as a C string, given the complete text *)
Definition snprintf_str (n : Z) (full : list Z) : list Z :=
  if n <=? 0 then [] else cstr (take (n - 1) full).
Definition truncated (n : Z) (full : list Z) : Z := if n <=? len full then 1 else 0.

(* ---------- SUPLA page (supla_esp_cfgmode_html.c) ---------- *)
Definition supla_full (sg : bool) (v : Z) (e : env) : list Z := fmt sg e (tmpl v) (spec v).
Definition supla_bufflen (v : Z) (e : env) : Z :=
  len (state e) + len (name e) + len SOFTVER + len (field_str (cfg e) OFF_SSID) +
  len (field_str (cfg e) OFF_SERVER) + len (field_str (cfg e) OFF_EMAIL) +
  len (hdr v) + len (tmpl v) + slack v.

(* ---------- MQTT page (supla_esp_cfgmode_mqtt_html.c) ---------- *)
Definition mqtt_body (sg : bool) (e : env) : list Z := fmt sg e MQ_MAIN spec_mqtt.
Definition mqtt_prefix (e : env) : list Z :=
  MQ_HEADER ++ (if ds e =? 0 then [] else MQ_DS) ++ MQ_DIV ++ MQ_SVG.
Definition mqtt_size (sg : bool) (e : env) (add : list Z) : Z :=
  (len MQ_HEADER + 1) + len MQ_SVG + (len MQ_DS + 1) + (len MQ_DIV + 1) + (len MQ_FOOTER + 1) +
  len (mqtt_body sg e) + len add.
Definition mqtt_full (sg : bool) (e : env) (add : list Z) : list Z :=
  mqtt_prefix e ++ mqtt_body sg e ++ add ++ MQ_FOOTER.
(* room handed to the second supla_esp_cfgmode_get_body call *)
Definition mqtt_room (sg : bool) (e : env) (add : list Z) : Z := mqtt_size sg e add - len (mqtt_prefix e).

(* (allocation size, truncation flag, C string left in the buffer) *)
Definition page (sg : bool) (v : Z) (e : env) (add : list Z) : Z * Z * list Z :=
  if v =? 6 then
    let room := mqtt_room sg e add in
    let tr := truncated room (mqtt_body sg e) in
    (mqtt_size sg e add, tr,
     if tr =? 1 then cstr (mqtt_prefix e ++ take (room - 1) (mqtt_body sg e)) else cstr (mqtt_full sg e add))
  else
    let n := supla_bufflen v e in
    (n, truncated n (supla_full sg v e), snprintf_str n (supla_full sg v e)).

(* supla_esp_http_ok: the bytes handed to espconn_sent (header, then the page when it is not empty) *)
Definition http_ok (sg : bool) (e : env) (html : list Z) : list Z :=
  fmt sg e HTTP_HDR [S_lit HTTP_OK; S_len html] ++ html.

(* supla_esp_set_state *)
Definition set_state (old msg : list Z) : list Z :=
  let m := cstr msg in
  cstr (take (STATE_MAX - 1) (m ++ (if 0 <? len old then [44] else []) ++ old)).

(* ---------- the last-state text as the firmware produces it ---------- *)
(* supla_esp_wifi_check_status: the message of a station status, from the generated call sites
   (row = status, kind 0 literal / 1 format with one text field of the configuration, buffer size, field offset, text index) *)
Definition wifi_site (n : Z) : option (list Z) := find (fun r => nthz r 0 =? n) WIFI_SITES.
Definition wifi_text (idx : Z) : list Z :=
  if idx =? 0 then WIFI_MSG0 else if idx =? 1 then WIFI_MSG1 else if idx =? 2 then WIFI_MSG2 else WIFI_MSG3.
Definition wifi_msg (c : list Z) (r : list Z) : list Z :=
  let t := wifi_text (nthz r 4) in
  if nthz r 1 =? 0 then t else snprintf_str (nthz r 2) (render (parse t) [field_str c (nthz r 3)]).
(* (last-state text, supla_esp_wifi_vars.last_status) *)
Definition wifi_status (c : list Z) (tl : list Z * Z) (n : Z) : list Z * Z :=
  let '(text, last) := tl in
  if last =? n then tl
  else (match (if n =? ST_GOT_IP then None else wifi_site n) with
        | Some r => set_state text (wifi_msg c r)
        | None => text
        end, n).
(* a log entry: (0, _, message) supla_esp_set_state(message) with a text chosen by the case;
   (1, n, _) supla_esp_wifi_station_connect while the SDK reports status n; (2, n, _) the status poll sees n *)
Definition log_step (c : list Z) (tl : list Z * Z) (e : Z * Z * list Z) : list Z * Z :=
  let '(k, n, b) := e in
  if k =? 0 then (set_state (fst tl) b, snd tl)
  else if k =? 1 then
    let tl1 := (set_state (fst tl) WIFI_CONNECTING_MSG, snd tl) in
    if snd tl =? ST_GOT_IP + 1 then wifi_status c tl1 n else tl1
  else wifi_status c tl n.
Definition state_of (c : list Z) (log : list (Z * Z * list Z)) : list Z :=
  fst (fold_left (log_step c) log ([], ST_GOT_IP + 1)).

(* ---------- wire ---------- *)
Definition HOST_CHAR_SIGNED : bool := negb (CHAR_IS_SIGNED =? 0).

Record st := { cfgA : list Z; cfgB : list Z; s_name : list Z; s_mac : list Z; s_add : list Z;
               s_log : list (Z * Z * list Z); s_reqb : list Z }.
Definition init : st :=
  {| cfgA := zeros CFG_SIZE; cfgB := zeros CFG_SIZE; s_name := []; s_mac := zeros 6; s_add := []; s_log := []; s_reqb := [] |}.
Definition fit (n : Z) (l : list Z) : list Z := take n (l ++ zeros n).
Definition upd_st (s : st) (a b nm mc ad : list Z) (lg : list (Z * Z * list Z)) (rq : list Z) : st :=
  {| cfgA := a; cfgB := b; s_name := nm; s_mac := mc; s_add := ad; s_log := lg; s_reqb := rq |}.

Definition out_page (k : Z) (s : st) (c : list Z) (v d : Z) : wire :=
  let e := {| cfg := c; name := cstr (s_name s); mac := s_mac s; state := state_of c (s_log s); ds := d |} in
  let '(n, tr, html) := page HOST_CHAR_SIGNED v e (cstr (s_add s)) in
  mk k [v; d; n; tr] (http_ok HOST_CHAR_SIGNED e html).

(* POST of a form on a fresh connection through supla_esp_recv_callback (the repaired handler of C14/Model.v):
   the configuration that is stored afterwards and whether it was saved *)
Definition post_form (c req : list Z) : list Z * bool :=
  let '(d, r) := C14.Model.recv C14.Model.FIXED HOST_CHAR_SIGNED
                   {| C14.Model.dcfg := c; C14.Model.dcmd := None; C14.Model.dpv := C14.Model.pv0 |} req in
  (C14.Model.dcfg d, C14.Model.saved r).
(* the response to the POST: the natively linked (MQTT) page with "Data saved" on the stored configuration, or nothing;
   the last-state text is the one produced before the form (configuration c0) *)
Definition out_form (k : Z) (s : st) (c0 c : list Z) (sv : bool) : wire :=
  if sv then
    let e := {| cfg := c; name := cstr (s_name s); mac := s_mac s; state := state_of c0 (s_log s); ds := 1 |} in
    let '(n, tr, html) := page HOST_CHAR_SIGNED 6 e (cstr (s_add s)) in
    mk k [1; n; tr] (http_ok HOST_CHAR_SIGNED e html)
  else mk k [0; -1; 0] [].

Definition step (s : st) (w : wire) : st * list wire :=
  let '(k, a, b) := w in
  let A := cfgA s in let B := cfgB s in let nm := s_name s in let mc := s_mac s in
  let ad := s_add s in let lg := s_log s in let rq := s_reqb s in
  if k =? 0 then (upd_st s (fit CFG_SIZE b) B nm mc ad lg rq, [])
  else if k =? 1 then (upd_st s A (fit CFG_SIZE b) nm mc ad lg rq, [])
  else if k =? 2 then (upd_st s A B (take 24 b) mc ad lg rq, [])
  else if k =? 3 then (upd_st s A B nm (fit 6 b) ad lg rq, [])
  else if k =? 4 then (upd_st s A B nm mc b lg rq, [])
  else if k =? 5 then (upd_st s A B nm mc ad (lg ++ [(0, 0, b)]) rq, [])
  else if k =? 6 then
    let v := nth 0 a 0 in let d := nth 1 a 0 in
    (s, [out_page 0 s A v d; out_page 1 s B v d])
  else if k =? 7 then
    (* GET through supla_esp_recv_callback: natively linked page (MQTT), data_saved = 0 *)
    (s, [out_page 2 s A 6 0])
  else if k =? 8 then (upd_st s A B nm mc ad lg b, [])
  else if k =? 9 then
    let '(A', svA) := post_form A b in
    let '(B', svB) := post_form B rq in
    (upd_st s A' B' nm mc ad lg rq, [out_form 3 s A A' svA; mk 5 [] A'; out_form 4 s B B' svB; mk 6 [] B'])
  else if k =? 10 then (upd_st s A B nm mc ad (lg ++ [(1, nth 0 a 0, [])]) rq, [])
  else if k =? 11 then (upd_st s A B nm mc ad (lg ++ [(2, nth 0 a 0, [])]) rq, [])
  else (s, []).

Fixpoint run (s : st) (ws : list wire) : list wire :=
  match ws with [] => [] | w :: r => let '(s', o) := step s w in o ++ run s' r end.
Definition main_wire (ws : list wire) : list wire := run init ws.

(* ---------- specification vocabulary (used by the theorems; not extracted) ---------- *)
Definition in_range (o n i : Z) : bool := (o <=? i) && (i <? o + n).
(* the secrets with a fixed place: AuthKey, LocationPwd/Password, WIFI_PWD *)
Definition secret_static (i : Z) : bool :=
  in_range OFF_AUTHKEY SZ_AUTHKEY i || in_range OFF_PWD SZ_PWD i || in_range OFF_WIFIPWD SZ_WIFIPWD i.
Definition in_email (i : Z) : bool := in_range OFF_EMAIL SZ_EMAIL i.
(* a text field holds a terminator inside its own bytes *)
Definition terminated (c : list Z) (off sz : Z) : Prop := exists k, 0 <= k < sz /\ nthz c (off + k) = 0.
Record wf_cfg (c : list Z) : Prop := {
  wf_ssid : terminated c OFF_SSID SZ_SSID;
  wf_server : terminated c OFF_SERVER SZ_SERVER;
  wf_email : terminated c OFF_EMAIL SZ_EMAIL;
  wf_prefix : terminated c OFF_PREFIX SZ_PREFIX }.
(* c1 and c2 agree on everything that is not a secret: outside AuthKey / Password / WIFI_PWD / Email
   byte for byte, and inside Email/Username up to and including its first terminator (what follows
   the terminator is the overflow part of a long password) *)
Definition low_equiv (c1 c2 : list Z) : Prop :=
  (forall i, 0 <= i < CFG_SIZE -> secret_static i = false -> in_email i = false -> nthz c1 i = nthz c2 i) /\
  (forall i, 0 <= i < SZ_EMAIL -> (forall j, 0 <= j < i -> nthz c1 (OFF_EMAIL + j) <> 0) ->
             nthz c1 (OFF_EMAIL + i) = nthz c2 (OFF_EMAIL + i)).
Definition nonul (l : list Z) : Prop := ~ In 0 l.
Definition mkenv (c nm mc stt : list Z) (d : Z) : env := {| cfg := c; name := nm; mac := mc; state := stt; ds := d |}.
(* the complete text of the page before it is put into the buffer *)
Definition full_page (sg : bool) (v : Z) (e : env) (add : list Z) : list Z :=
  if v =? 6 then mqtt_full sg e add else supla_full sg v e.

(* executable versions, for the examples *)
Definition idxs (n : Z) : list Z := map Z.of_nat (seq 0 (Z.to_nat n)).
Definition terminatedb (c : list Z) (off sz : Z) : bool := existsb (fun k => nthz c (off + k) =? 0) (idxs sz).
Definition wf_cfgb (c : list Z) : bool :=
  terminatedb c OFF_SSID SZ_SSID && terminatedb c OFF_SERVER SZ_SERVER &&
  terminatedb c OFF_EMAIL SZ_EMAIL && terminatedb c OFF_PREFIX SZ_PREFIX.
Definition low_equivb (c1 c2 : list Z) : bool :=
  forallb (fun i => secret_static i || in_email i || (nthz c1 i =? nthz c2 i)) (idxs CFG_SIZE) &&
  forallb (fun i => existsb (fun j => nthz c1 (OFF_EMAIL + j) =? 0) (idxs i) ||
                    (nthz c1 (OFF_EMAIL + i) =? nthz c2 (OFF_EMAIL + i))) (idxs SZ_EMAIL).
Fixpoint prefixb (p l : list Z) : bool :=
  match p, l with [], _ => true | x :: p', y :: l' => (x =? y) && prefixb p' l' | _, [] => false end.
Fixpoint infixb (p l : list Z) : bool :=
  prefixb p l || match l with [] => false | _ :: l' => infixb p l' end.
(* replace the bytes at [off, off+len s) *)
Definition poke (c : list Z) (off : Z) (s : list Z) : list Z := take off c ++ s ++ drop (off + len s) c.
