(* C09 — Shutter position estimate matches motor run time regardless of timer jitter.
   Property theorems only: each is closed by `exact` of a lemma proved in C09/Proofs.v.
   Every theorem is stated for an arbitrary record `o` of the five floating-point sub-expressions of
   supla_esp_gpio_rs_move_position that satisfies the relational facts `fp_ok` (FP0..FP3: product with 0 is 0;
   two roundings stay within one of the exact floor; the two single-rounding quotients truncate to the exact
   floor).  The harness runs the bit-exact IEEE binary64 instance `fops` against the real C code. *)
From Coq Require Import List ZArith Lia.
Import ListNotations.
From V Require Import Base.U32 Gen.RsConsts C09.Model C09.Proofs C09.Fb13 C09.FloatFacts C09.FloatInst.
Local Open Scope Z_scope.

(* Range.  For every configuration in which a roller shutter has no tilting time, from every state whose position is
   unknown (0) or inside 100..10100 and whose tilt is -1, 0 or inside 100..10100, every sequence of output
   changes, in-range pokes and timer callbacks at arbitrary intervals keeps position and tilt in those sets, and the
   values put on the wire are -1 or 0..100. *)
Theorem C09_range : forall o, fp_ok o -> forall c boot s evs,
  wf_cfg c -> Forall ev_ok evs -> range_ok s ->
  let s' := run o c boot s evs in
  range_ok s' /\ rep_ok (current_position (pos s')) /\ rep_ok (current_tilt c (tilt s')).
Proof. exact C09_range_thm. Qed.
Print Assumptions C09_range.

(* the reported values are -1 or 0..100 whatever is stored *)
Theorem C09_reported_range : forall c p t, rep_ok (current_position p) /\ rep_ok (current_tilt c t).
Proof. intros; split; [apply current_position_range|apply current_tilt_range]. Qed.
Print Assumptions C09_reported_range.

(* the same from ANY stored state (e.g. a state sector loaded without validation: arbitrary 32-bit words as position and tilt): whatever
   the events, the values put on the wire are -1 or 0..100 *)
Theorem C09_reported_range_any_state : forall o c boot s evs,
  rep_ok (current_position (pos (run o c boot s evs))) /\ rep_ok (current_tilt c (tilt (run o c boot s evs))).
Proof. intros. exact (C09_reported_range c _ _). Qed.
Print Assumptions C09_reported_range_any_state.

(* the range tests of the model's getters are the ones of the compiled source: the translator probes supla_esp_gpio_rs_get_current_position /
   _tilt on every word -300..30300 and on large / negative words and emits the bounds it observes (Gen/RsConsts.v); a dropped or moved
   comparison in the source changes these constants and this theorem no longer checks *)
Theorem C09_getters_as_generated :
  (forall p, known p = andb (GETTER_POS_LO <=? p) (p <=? GETTER_POS_HI)) /\
  GETTER_TILT_HI = GETTER_POS_HI /\ GETTER_TILT_FIRST_NONZERO = GETTER_POS_LO + 50 /\ GETTER_TILT_BELOW_NONZERO = 0 /\
  GETTER_POS_OUTSIDE_KNOWN = 0 /\ GETTER_TILT_OUTSIDE_KNOWN = 0 /\ GETTER_POS_ROUNDING_DIFFERS = 0 /\ GETTER_TILT_ROUNDING_DIFFERS = 0 /\
  GETTER_TILT_UNSUPPORTED = -1.
Proof. repeat split; reflexivity. Qed.
Print Assumptions C09_getters_as_generated.

(* Direction.  A callback with the up (down) output energised and a known position never moves position or tilt away
   from the end stop of that direction (remaining distance never grows, never becomes negative). *)
Theorem C09_direction : forall o, fp_ok o -> forall c boot s dt up,
  wf_cfg c -> range_ok s -> dir s = dir_of up -> known (pos s) = true ->
  let s' := timer_cb o c boot s dt in
  known (pos s') = true /\ 0 <= remaining up (pos s') <= remaining up (pos s) /\
  (tilt_supported c = true -> known (tilt s) = true -> fixed_tilt_consistent c s ->
   known (tilt s') = true /\ 0 <= remaining up (tilt s') <= remaining up (tilt s)).
Proof. exact C09_direction_thm. Qed.
Print Assumptions C09_direction.

(* Accounting, roller shutter.  n callbacks at arbitrary non-negative intervals (sum t, total below 2^32 us) with the
   motor energised in one direction from a known position: the distance moved, times the full travel time T, equals
   10000 * (time run - carry) up to 2 us per callback, and the carry is below one position unit unless the end stop is
   reached.  No hypothesis on how t is split. *)
Theorem C09_accounting_rs : forall o, fp_ok o -> forall c boot up s ds,
  rs_cfg c -> 20000 <= full_of c up * 1000 < 4294967296 ->
  synced boot s -> known (pos s) = true -> 0 <= carry_of up s ->
  Forall (fun d => 0 <= d) ds -> carry_of up s + sumz ds < 4294967296 ->
  motor_on o c boot up s ds ->
  let T := full_of c up * 1000 in
  let s' := run_cbs o c boot s ds in
  let e := carry_of up s + sumz ds in
  let n := Z.of_nat (length ds) in
  let moved := remaining up (pos s) - remaining up (pos s') in
  known (pos s') = true /\ 0 <= remaining up (pos s') /\ 0 <= moved /\
  0 <= carry_of up s' <= e /\
  10000 * (e - carry_of up s') <= moved * T <= 10000 * (e - carry_of up s') + 20000 * n /\
  (0 < n -> 0 < remaining up (pos s') -> 10000 * carry_of up s' < T + 10000).
Proof. exact C09_accounting_rs_thm. Qed.
Print Assumptions C09_accounting_rs.

(* the same in position units (0.01 %): ideal = floor(10000 t / T) clamped at the end stop *)
Theorem C09_accounting_rs_units : forall T R0 r' e cy n,
  20000 <= T -> 0 <= r' <= R0 -> 0 <= cy <= e -> 0 <= n ->
  10000 * (e - cy) <= (R0 - r') * T <= 10000 * (e - cy) + 20000 * n ->
  (0 < r' -> 10000 * cy < T + 10000) ->
  let moved := R0 - r' in
  let ideal := Z.min R0 (10000 * e / T) in
  ideal - 1 <= moved <= ideal + 1 + (20000 * n) / T + 1.
Proof. exact accounting_units. Qed.
Print Assumptions C09_accounting_rs_units.

(* End to end, roller shutter: callback intervals of at least 1 ms, a run of at most four full travel times, the true
   motor run time within 30 ms of the time seen by the callbacks (switching instants anywhere between callbacks, nominal
   10 ms timer with up to 20 ms lateness): the stored position is the ideal position for the true run time within
   one percentage point (100 units) plus the travel of 30 ms. *)
Theorem C09_end_to_end_rs : forall o, fp_ok o -> forall c boot up s ds t_true,
  rs_cfg c -> 20000 <= full_of c up * 1000 < 4294967296 ->
  synced boot s -> known (pos s) = true -> carry_of up s = 0 ->
  Forall (fun d => 1000 <= d) ds -> sumz ds < 4294967296 -> sumz ds <= 4 * (full_of c up * 1000) ->
  motor_on o c boot up s ds ->
  0 <= t_true -> sumz ds - 30000 <= t_true <= sumz ds + 30000 ->
  let T := full_of c up * 1000 in
  let moved := remaining up (pos s) - remaining up (pos (run_cbs o c boot s ds)) in
  let ideal := Z.min (remaining up (pos s)) (10000 * t_true / T) in
  ideal - (100 + (10000 * 30000 / T + 1)) <= moved <= ideal + (100 + (10000 * 30000 / T + 1)).
Proof. exact C09_end_to_end_rs_thm. Qed.
Print Assumptions C09_end_to_end_rs.

(* Facade blinds.  The accounting clause is FALSE of the faithful model (and of the real code, see
   corpus/C09/fb_mode2_tilt_fast.txt) for "change position while tilting": witness computed on the bit-exact
   float instance.  Full statement that is refuted:
     forall runs of a calibrated blind in mode 2, |stored tilt - clamp(start -/+ 10000 t / T_tilt)| <= 100 + travel of 30 ms.
   For the modes that tilt in place (1 and 3) the clause holds only up to the travel of one callback interval at the
   hand-over between tilting and moving, and only when one tilt unit is not longer than a callback interval
   (docs/reports/C09.md); those two deviations are reported by the monitor and proposed as known findings, the
   per-callback facts that do hold for them are C09_range and C09_direction above. *)
Theorem C09_accounting_fb_change_position_refuted :
  tilt w_final - 100 = 9860 /\
  let ideal_tilt := 10000 * (50 * 10000) / (tilt_ms w_cfg * 1000) in
  let tolerance := 100 + 10000 * 30000 / (tilt_ms w_cfg * 1000) + 1 in
  ideal_tilt = 2890 /\ tolerance = 274 /\ tilt w_final - 100 > ideal_tilt + tolerance.
Proof. exact C09_fb_change_position_tilt_refuted_lem. Qed.
Print Assumptions C09_accounting_fb_change_position_refuted.

(* Accounting, facade blinds of tilt types 1 (tilting keeps the position) and 3 (tilting only when closed); the tilting time
   Tt is part of the travel time (Tp = full - Tt).  Outside the two listed deviation classes of these modes:
     - every callback interval is at least one tilt unit, Tt <= 10000 dt (excludes fb-slow-tilt-starved);
     - intervals are at most tau: the lag at the tilt/position hand-over is one interval (fb-handover-lag: inside the stated
       tolerance for tau <= 30 ms, outside it for coarser callbacks).
   From known position and tilt (type 3: slats open whenever the blind is not closed) and a carry below one unit, after
   callbacks ds with the output of direction `up` energised: the time converted into tilt plus the time converted into
   position equals the time run minus the carry, up to 2 us per callback — nothing lost, nothing counted twice; tilt and
   position move in their physical order (tilt first; type 3 going down: position first, the slats turn at the closed
   position); the carry is below one unit of the moving quantity, plus one interval right after the hand-over. *)
Theorem C09_accounting_fb13 : forall o, fp_ok o -> forall c boot up tau s ds,
  keeps_position c = true -> tilt_supported c = true ->
  let Tt := tilt_ms c * 1000 in let Tp := full_of c up * 1000 - Tt in
  20000 <= Tt -> 20000 <= Tp -> full_of c up * 1000 < 4294967296 -> 0 <= tau ->
  synced boot s -> known (pos s) = true -> known (tilt s) = true -> consistent3 c (pos s) (tilt s) ->
  0 <= carry_of up s -> 10000 * carry_of up s < Z.max Tt Tp + 10000 ->
  Forall (fun d => 0 <= d <= tau /\ Tt <= 10000 * d) ds -> carry_of up s + sumz ds < 4294967296 ->
  motor_on o c boot up s ds ->
  let s' := run_cbs o c boot s ds in
  let e := carry_of up s + sumz ds in
  let n := Z.of_nat (length ds) in
  let mt := remaining up (tilt s) - remaining up (tilt s') in
  let mp := remaining up (pos s) - remaining up (pos s') in
  known (pos s') = true /\ known (tilt s') = true /\ consistent3 c (pos s') (tilt s') /\
  0 <= mt /\ 0 <= mp /\ 0 <= remaining up (tilt s') /\ 0 <= remaining up (pos s') /\ 0 <= carry_of up s' <= e /\
  10000 * (e - carry_of up s') <= mt * Tt + mp * Tp <= 10000 * (e - carry_of up s') + 20000 * n /\
  (if tilt_second c up then 0 < mt -> remaining up (pos s') = 0 else 0 < mp -> remaining up (tilt s') = 0) /\
  (0 < remaining up (tilt s') \/ 0 < remaining up (pos s') -> 10000 * carry_of up s' < Z.max Tt Tp + 10000 + 10000 * tau).
Proof. exact C09_accounting_fb13_thm. Qed.
Print Assumptions C09_accounting_fb13.

(* a command re-sent for the direction that is already running goes through supla_esp_gpio_relay_hi: the translator extracts the set
   of shutter fields that function assigns ("start_time,stop_time" as bytes) — neither last_time nor a run-time counter nor the position:
   the accounting state of the theorems above is untouched by repeated commands (the RESEND event of the wire model is the identity) *)
Theorem C09_relay_hi_leaves_accounting_state : RELAY_HI_RS_WRITES = [115; 116; 97; 114; 116; 95; 116; 105; 109; 101; 44; 115; 116; 111; 112; 95; 116; 105; 109; 101].
Proof. reflexivity. Qed.
Print Assumptions C09_relay_hi_leaves_accounting_state.

(* ---------- the same theorems for the bit-exact IEEE binary64 instance `fops`, without the hypothesis fp_ok ---------- *)
(* FP0..FP3 hold for `fops` (C09/FloatFacts.v, Flocq: Prim2B bridge, Bmult_correct, Bdiv_correct, binary_normalize_correct) *)
Theorem C09_fp_facts : fp_ok fops.
Proof. exact fops_ok. Qed.
Print Assumptions C09_fp_facts.
Theorem C09_range_fops : forall c boot s evs,
  wf_cfg c -> Forall ev_ok evs -> range_ok s ->
  let s' := run fops c boot s evs in
  range_ok s' /\ rep_ok (current_position (pos s')) /\ rep_ok (current_tilt c (tilt s')).
Proof. exact C09_range_inst. Qed.
Print Assumptions C09_range_fops.

Theorem C09_direction_fops : forall c boot s dt up,
  wf_cfg c -> range_ok s -> dir s = dir_of up -> known (pos s) = true ->
  let s' := timer_cb fops c boot s dt in
  known (pos s') = true /\ 0 <= remaining up (pos s') <= remaining up (pos s) /\
  (tilt_supported c = true -> known (tilt s) = true -> fixed_tilt_consistent c s ->
   known (tilt s') = true /\ 0 <= remaining up (tilt s') <= remaining up (tilt s)).
Proof. exact C09_direction_inst. Qed.
Print Assumptions C09_direction_fops.

Theorem C09_accounting_rs_fops : forall c boot up s ds,
  rs_cfg c -> 20000 <= full_of c up * 1000 < 4294967296 ->
  synced boot s -> known (pos s) = true -> 0 <= carry_of up s ->
  Forall (fun d => 0 <= d) ds -> carry_of up s + sumz ds < 4294967296 ->
  motor_on fops c boot up s ds ->
  let T := full_of c up * 1000 in
  let s' := run_cbs fops c boot s ds in
  let e := carry_of up s + sumz ds in
  let n := Z.of_nat (length ds) in
  let moved := remaining up (pos s) - remaining up (pos s') in
  known (pos s') = true /\ 0 <= remaining up (pos s') /\ 0 <= moved /\
  0 <= carry_of up s' <= e /\
  10000 * (e - carry_of up s') <= moved * T <= 10000 * (e - carry_of up s') + 20000 * n /\
  (0 < n -> 0 < remaining up (pos s') -> 10000 * carry_of up s' < T + 10000).
Proof. exact C09_accounting_rs_inst. Qed.
Print Assumptions C09_accounting_rs_fops.

Theorem C09_end_to_end_rs_fops : forall c boot up s ds t_true,
  rs_cfg c -> 20000 <= full_of c up * 1000 < 4294967296 ->
  synced boot s -> known (pos s) = true -> carry_of up s = 0 ->
  Forall (fun d => 1000 <= d) ds -> sumz ds < 4294967296 -> sumz ds <= 4 * (full_of c up * 1000) ->
  motor_on fops c boot up s ds ->
  0 <= t_true -> sumz ds - 30000 <= t_true <= sumz ds + 30000 ->
  let T := full_of c up * 1000 in
  let moved := remaining up (pos s) - remaining up (pos (run_cbs fops c boot s ds)) in
  let ideal := Z.min (remaining up (pos s)) (10000 * t_true / T) in
  ideal - (100 + (10000 * 30000 / T + 1)) <= moved <= ideal + (100 + (10000 * 30000 / T + 1)).
Proof. exact C09_end_to_end_rs_inst. Qed.
Print Assumptions C09_end_to_end_rs_fops.

Theorem C09_accounting_fb13_fops : forall c boot up tau s ds,
  keeps_position c = true -> tilt_supported c = true ->
  let Tt := tilt_ms c * 1000 in let Tp := full_of c up * 1000 - Tt in
  20000 <= Tt -> 20000 <= Tp -> full_of c up * 1000 < 4294967296 -> 0 <= tau ->
  synced boot s -> known (pos s) = true -> known (tilt s) = true -> consistent3 c (pos s) (tilt s) ->
  0 <= carry_of up s -> 10000 * carry_of up s < Z.max Tt Tp + 10000 ->
  Forall (fun d => 0 <= d <= tau /\ Tt <= 10000 * d) ds -> carry_of up s + sumz ds < 4294967296 ->
  motor_on fops c boot up s ds ->
  let s' := run_cbs fops c boot s ds in
  let e := carry_of up s + sumz ds in
  let n := Z.of_nat (length ds) in
  let mt := remaining up (tilt s) - remaining up (tilt s') in
  let mp := remaining up (pos s) - remaining up (pos s') in
  known (pos s') = true /\ known (tilt s') = true /\ consistent3 c (pos s') (tilt s') /\
  0 <= mt /\ 0 <= mp /\ 0 <= remaining up (tilt s') /\ 0 <= remaining up (pos s') /\ 0 <= carry_of up s' <= e /\
  10000 * (e - carry_of up s') <= mt * Tt + mp * Tp <= 10000 * (e - carry_of up s') + 20000 * n /\
  (if tilt_second c up then 0 < mt -> remaining up (pos s') = 0 else 0 < mp -> remaining up (tilt s') = 0) /\
  (0 < remaining up (tilt s') \/ 0 < remaining up (pos s') -> 10000 * carry_of up s' < Z.max Tt Tp + 10000 + 10000 * tau).
Proof. exact C09_accounting_fb13_inst. Qed.
Print Assumptions C09_accounting_fb13_fops.

(* ---------- the hypotheses are satisfiable ---------- *)
(* exact integer arithmetic is one instance of the floating-point facts *)
Definition zops : fpops := {|
  fp_rem := fun r T => r * T / 10000; fp_dot := fun t T => 10000 * t / T; fp_tod := fun d T => d * T / 10000;
  fp_margin := fun F m => F * m / 100; fp_cal := fun F => F * 11 / 10 |}.
Example zops_ok : fp_ok zops.
Proof.
  constructor; cbn [fp_rem fp_dot fp_tod zops]; intros; try reflexivity; try lia.
  replace (r * 0) with 0 by lia. reflexivity.
Qed.
Example rs_cfg_example : rs_cfg {| full_open := 17300; full_close := 17300; tilt_ms := 0; tilt_type := 0; margin := 110 |}
  /\ wf_cfg {| full_open := 17300; full_close := 17300; tilt_ms := 0; tilt_type := 0; margin := 110 |}.
Proof. split; [split; reflexivity|intros _; reflexivity]. Qed.
(* a concrete run meeting the hypotheses of C09_accounting_rs on the float instance: 120 callbacks of 10 ms, moving down *)
Example accounting_example :
  let c := {| full_open := 17300; full_close := 17300; tilt_ms := 0; tilt_type := 0; margin := 110 |} in
  let s0 := step fops c 1 (timer_cb fops c 1 (init c 3100 0 250000) 10000) (SetDir 1) in
  synced 1 s0 /\ known (pos s0) = true /\ motor_on fops c 1 false s0 (repeat 10000 120) /\
  pos (run_cbs fops c 1 s0 (repeat 10000 120)) = 3100 + 10000 * 1200000 / 17300000.
Proof. vm_compute. repeat split; reflexivity. Qed.

(* a concrete run meeting the hypotheses of C09_accounting_fb13 on the float instance: type 1, 17.3 s travel incl. 1.73 s tilting,
   250 callbacks of 10 ms going down from (31 %, 20 %): the slats close first (1.384 s), then the position moves *)
Example accounting_fb13_example :
  let c := {| full_open := 17300; full_close := 17300; tilt_ms := 1730; tilt_type := 1; margin := 110 |} in
  let s0 := step fops c 1 (timer_cb fops c 1 (init c 3200 2100 250000) 10000) (SetDir 1) in
  keeps_position c = true /\ tilt_supported c = true /\ synced 1 s0 /\ known (pos s0) = true /\ known (tilt s0) = true /\
  carry_of false s0 = 0 /\ motor_on fops c 1 false s0 (repeat 10000 250) /\
  tilt (run_cbs fops c 1 s0 (repeat 10000 250)) = 10100 /\ 3200 < pos (run_cbs fops c 1 s0 (repeat 10000 250)) < 3200 + 10000 * 2500000 / 15570000 .
Proof. vm_compute. repeat split; reflexivity. Qed.

(* assumptions of the examples *)
Print Assumptions zops_ok.
Print Assumptions rs_cfg_example.
Print Assumptions accounting_example.
Print Assumptions accounting_fb13_example.
