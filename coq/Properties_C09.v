From Coq Require Import List ZArith.
From V Require Import C09.Model C09.Proofs.
Theorem C09_placeholder : True. Proof. exact placeholder. Qed.
Print Assumptions C09_placeholder.
