(* C04 — proofs about the connection automaton of Model.v.
   Generated constants are used only through [consts_facts] (checked by computation) and the generated call-site
   list only through the hypothesis [sites_ok CallSites = true] (closed by reflexivity in Properties_C04.v). *)
From Coq Require Import List ZArith Lia Bool.
Import ListNotations.
From V Require Import Base.U32 Base.Bytes Base.Iface Gen.ProtoConsts Gen.C04Consts C04.Keepalive C04.Model.
From V Require C01.Model.
Local Open Scope Z_scope.

(* ---------- classification of device -> server calls ---------- *)
Definition REG : Z := CALL_REGISTER_E.
Definition is_reg (c : Z) : bool :=
  (c =? CALL_REGISTER) || (c =? CALL_REGISTER_B) || (c =? CALL_REGISTER_C) || (c =? CALL_REGISTER_D) ||
  (c =? CALL_REGISTER_E) || (c =? CALL_REGISTER_F).
(* direct replies to a server request; everything else that is not a registration counts as device-originated *)
Definition is_reply (c : Z) : bool :=
  (c =? CALL_SET_VALUE_RESULT) || (c =? CALL_CHANNEL_STATE_RESULT) || (c =? CALL_CALCFG_RESULT) ||
  (c =? CALL_SET_CHANNEL_CONFIG_RESULT).
Definition originated (c : Z) : bool := negb (is_reg c) && negb (is_reply c).

(* side condition on one generated call site [file; line; call id; guard; api] *)
Definition site_ok (r : list Z) : bool :=
  let call := nthz r 2 in let g := nthz r 3 in let api := nthz r 4 in
  if is_reg call then (g =? 3) && (api <? 0)
  else if originated call || (0 <=? api) then negb (g =? 0) else true.
Definition sites_ok (l : list (list Z)) : bool := forallb site_ok l.

(* ---------- side conditions on generated constants ---------- *)
Record consts_facts : Prop := {
  cf_queue : 0 < QUEUE_SIZE;
  cf_reg_is_reg : is_reg REG = true;
  cf_sat : is_reg (api_call A_SAT) = false;
  cf_ping : is_reg (api_call A_PING) = false;
  cf_chstate : is_reg (api_call A_CHSTATE) = false /\ originated (api_call A_CHSTATE) = false;
  cf_links : L_IDLE <> L_LIVE /\ L_CLOSING <> L_LIVE /\ L_PENDING <> L_LIVE /\ L_IDLE <> L_PENDING /\ L_CLOSING <> L_PENDING;
  cf_stop_delay : 0 <= STOP_DELAY_MS;
  cf_periods : 0 < WIFI_CHECK_MS /\ 0 < TIMER1_MS /\ 0 < ITERATE_MS /\ 0 < WATCHDOG_MS /\ 0 <= RECONNECT_DELAY_MS
               /\ 0 <= VALUE_DELAY_MS /\ 0 <= GPIO_TIMER2_MS
}.
Lemma consts_ok : consts_facts.
Proof. constructor; vm_compute; repeat split; congruence. Qed.

(* ---------- the part of the state the invariant talks about ---------- *)
Record core := mkcore { c_reg : Z; c_rpc : option rpc; c_esp : list Z; c_recv : list Z; c_link : Z;
                        c_cs : bool; c_cc : bool; c_conn : Z; c_tstop : timer }.
Definition core_of (s : st) : core :=
  mkcore (registered s) (srpc s) (espbuf s) (recvbuf s) (link s) (clrstop s) (clrconn s) (conn s) (t_stop s).

Ltac stsimp := cbn [now boot cycles0 lat lati fired seqc t_wifi t_timer1 t_iter t_wd t_recon t_stop t_value t_gpio2 t_srv srvdelay srvq nresp kabs kenv ktmo wstatus wlast
  link liveres deadres script started registered srpc espbuf recvbuf lastresp lastsent nextwd actto resolving gstate conn wbuf
  stalled outs halted stuck regpay clrstop clrconn evi
  set_now set_boot set_cycles0 set_lat set_lati set_fired set_seqc set_t_wifi set_t_timer1 set_t_iter set_t_wd set_t_recon set_t_stop
  set_t_value set_t_gpio2 set_t_srv set_srvdelay set_srvq set_nresp set_kabs set_kenv set_ktmo set_wstatus set_wlast set_link set_liveres set_deadres set_script set_started set_registered set_srpc
  set_espbuf set_recvbuf set_lastresp set_lastsent set_nextwd set_actto set_resolving set_gstate set_conn set_wbuf set_stalled
  set_outs set_halted set_stuck set_regpay set_clrstop set_clrconn set_evi
  core_of c_reg c_rpc c_esp c_recv c_link c_cs c_cc c_conn c_tstop] in *.

(* functions that do not touch the core *)
Lemma core_emit k a s : core_of (emit k a s) = core_of s. Proof. reflexivity. Qed.
Lemma core_set_tm i v s : i <> T_stop -> core_of (set_tm i v s) = core_of s.
Proof. destruct i; intros H; try reflexivity. contradiction. Qed.
Lemma core_arm i ms rep s : i <> T_stop -> core_of (arm i ms rep s) = core_of s.
Proof. intros H. unfold arm. rewrite core_set_tm by auto. reflexivity. Qed.
Lemma core_disarm i s : i <> T_stop -> core_of (disarm i s) = core_of s.
Proof. intros H. unfold disarm. apply core_set_tm; auto. Qed.
Lemma core_srv_on_frame c s : core_of (srv_on_frame c s) = core_of s.
Proof.
  unfold srv_on_frame. destruct (_ && _); [|reflexivity].
  match goal with |- context [if ?c then _ else _] => destruct c end; reflexivity.
Qed.
Lemma core_decode k s : core_of (decode k s) = core_of s.
Proof.
  revert s; induction k as [|k IH]; intros s; cbn [decode]; [reflexivity|].
  repeat match goal with |- context [if ?c then _ else _] => destruct c end; try reflexivity.
  rewrite IH, core_srv_on_frame. reflexivity.
Qed.
Lemma core_wire_accept b s : core_of (wire_accept b s) = core_of s.
Proof. unfold wire_accept. rewrite core_decode. reflexivity. Qed.
Lemma core_wire_close s : core_of (wire_close s) = core_of s.
Proof. unfold wire_close. destruct (_ || _); reflexivity. Qed.
Lemma core_gpio_disc s : core_of (gpio_state_disconnected s) = core_of s.
Proof. unfold gpio_state_disconnected. destruct (_ =? _); reflexivity. Qed.
Lemma core_gpio_ip s : core_of (gpio_state_ipreceived s) = core_of s.
Proof. unfold gpio_state_ipreceived. destruct (_ =? _); reflexivity. Qed.
Lemma core_gpio_conn s : core_of (gpio_state_connected s) = core_of s.
Proof. unfold gpio_state_connected. destruct (_ =? _); [reflexivity|]. rewrite core_arm by discriminate. reflexivity. Qed.
Lemma core_sdk_sent s : core_of (snd (sdk_sent s)) = core_of s.
Proof. unfold sdk_sent. destruct (script s); reflexivity. Qed.
Lemma core_restart s : core_of (restart s) = core_of s. Proof. reflexivity. Qed.
Lemma core_k_event e s : core_of (k_event e s) = core_of s. Proof. reflexivity. Qed.
Lemma core_k_reset s : core_of (k_reset s) = core_of s. Proof. reflexivity. Qed.

(* ---------- the invariant ---------- *)
Definition fresh_rpc (p : rpc) : Prop :=
  hist p = [] /\ oq p = [] /\ obuf p = [] /\ rr_last p = 0 /\ got_ok p = false /\ refused_at p = None /\ ibuf p = empty_inb.
Record PInst (r : Z) (p : rpc) : Prop := {
  pi_fresh : r = 0 -> fresh_rpc p;
  pi_first : r <> 0 -> exists l, hist p = l ++ [REG] /\ forall c, In c l -> is_reg c = false;
  pi_quiet : r <> 1 -> forall c, In c (hist p) -> originated c = false;
  pi_ok : r = 1 <-> got_ok p = true
}.
Section Flags.
(* the two "which function clears the byte buffers" flags of the modelled tree; never written by the automaton *)
Variables cs cc : bool.
Record InvC (c : core) : Prop := {
  i_cs : c_cs c = cs;
  i_cc : c_cc c = cc;
  i_range : c_reg c = 0 \/ c_reg c = -1 \/ c_reg c = 1;
  i_none_reg : c_rpc c = None -> c_reg c = 0;
  i_none_link : c_rpc c = None -> c_link c <> L_LIVE;
  i_none_clean : c_cs c = true -> c_rpc c = None -> c_esp c = [] /\ c_recv c = [];
  i_pending : c_link c = L_PENDING -> c_rpc c = None;
  i_inst : forall p, c_rpc c = Some p -> sid p = c_conn c /\ PInst (c_reg c) p;
  (* a refusal / version error dispatched at time t has armed the stop timer for t + stop delay *)
  i_stop : forall p t, c_rpc c = Some p -> refused_at p = Some t ->
           armed (c_tstop c) = true /\ due (c_tstop c) = t + STOP_DELAY_MS * 1000
}.
Definition Inv (s : st) : Prop := InvC (core_of s).

Lemma Inv_core s s' : core_of s' = core_of s -> Inv s -> Inv s'.
Proof. unfold Inv; intros ->; auto. Qed.

(* core changes of the leaf functions that do touch it *)
Definition with_esp (e : list Z) (c : core) := mkcore (c_reg c) (c_rpc c) e (c_recv c) (c_link c) (c_cs c) (c_cc c) (c_conn c) (c_tstop c).
Definition with_recv (e : list Z) (c : core) := mkcore (c_reg c) (c_rpc c) (c_esp c) e (c_link c) (c_cs c) (c_cc c) (c_conn c) (c_tstop c).
Definition with_link (l : Z) (c : core) := mkcore (c_reg c) (c_rpc c) (c_esp c) (c_recv c) l (c_cs c) (c_cc c) (c_conn c) (c_tstop c).
Definition with_rpc (p : option rpc) (c : core) := mkcore (c_reg c) p (c_esp c) (c_recv c) (c_link c) (c_cs c) (c_cc c) (c_conn c) (c_tstop c).
Definition with_tstop (t : timer) (c : core) := mkcore (c_reg c) (c_rpc c) (c_esp c) (c_recv c) (c_link c) (c_cs c) (c_cc c) (c_conn c) t.
Definition with_reg (r : Z) (c : core) := mkcore r (c_rpc c) (c_esp c) (c_recv c) (c_link c) (c_cs c) (c_cc c) (c_conn c) (c_tstop c).

Lemma core_eta c : mkcore (c_reg c) (c_rpc c) (c_esp c) (c_recv c) (c_link c) (c_cs c) (c_cc c) (c_conn c) (c_tstop c) = c.
Proof. destruct c; reflexivity. Qed.

(* buffers may change freely while an SRPC instance exists *)
Lemma InvC_esp e c : InvC c -> c_rpc c <> None -> InvC (with_esp e c).
Proof. intros [FX FY A B C D E F ST] H. constructor; cbn; auto. intros _ Hn; contradiction. Qed.
Lemma InvC_recv e c : InvC c -> c_rpc c <> None -> InvC (with_recv e c).
Proof. intros [FX FY A B C D E F ST] H. constructor; cbn; auto. intros _ Hn; contradiction. Qed.

Lemma core_append_buffer b s : exists e, core_of (append_buffer b s) = with_esp e (core_of s).
Proof.
  unfold append_buffer. destruct (0 <? len b); [destruct (_ <? _)|].
  - exists (espbuf s). reflexivity.
  - eexists. reflexivity.
  - exists (espbuf s). reflexivity.
Qed.

Lemma core_data_write b s : exists e, core_of (data_write b s) = with_esp e (core_of s).
Proof.
  unfold data_write.
  set (s1 := if 0 <? len (espbuf s) then _ else s).
  assert (H1 : exists e, core_of s1 = with_esp e (core_of s)).
  { subst s1. destruct (0 <? len (espbuf s)).
    - pose proof (core_sdk_sent s) as Hs. destruct (sdk_sent s) as [r s'] eqn:E. cbn [snd] in Hs.
      destruct (r =? 0).
      + exists []. rewrite core_k_event. change (core_of (set_lastsent (uptime s') (wire_accept (espbuf s') (set_espbuf [] s'))))
          with (core_of (wire_accept (espbuf s') (set_espbuf [] s'))).
        rewrite core_wire_accept. stsimp. unfold with_esp. rewrite <- Hs. reflexivity.
      + exists (espbuf s). rewrite Hs. reflexivity.
    - exists (espbuf s). reflexivity. }
  destruct H1 as [e1 H1].
  destruct (0 <? len (espbuf s1)).
  - destruct (core_append_buffer b s1) as [e2 H2]. exists e2. rewrite H2, H1. reflexivity.
  - destruct (0 <? len b); [|eauto].
    pose proof (core_sdk_sent s1) as Hs. destruct (sdk_sent s1) as [r s2] eqn:E. cbn [snd] in Hs.
    destruct ((r =? ESP_INPROGRESS) || (r =? ESP_MAXNUM)).
    + destruct (core_append_buffer b s2) as [e2 H2]. exists e2. rewrite H2, Hs, H1. reflexivity.
    + destruct (r =? 0).
      * exists e1. rewrite core_k_event. change (core_of (set_lastsent (uptime s2) (wire_accept b s2))) with (core_of (wire_accept b s2)).
        rewrite core_wire_accept, Hs, H1. reflexivity.
      * exists e1. rewrite Hs, H1. reflexivity.
Qed.

Lemma core_sdk_connect s : core_of (sdk_connect s) = with_link L_PENDING (core_of s).
Proof.
  unfold sdk_connect. destruct (link (emit O_CONNECT [now s] s) =? L_LIVE).
  - change (core_of (set_link L_PENDING (wire_close (emit O_CONNECT [now s] s))))
      with (with_link L_PENDING (core_of (wire_close (emit O_CONNECT [now s] s)))).
    rewrite core_wire_close. reflexivity.
  - reflexivity.
Qed.
Definition link_after_disconnect (l : Z) : Z := if l =? L_LIVE then L_CLOSING else if l =? L_PENDING then L_IDLE else l.
Lemma core_sdk_disconnect s : core_of (sdk_disconnect s) = with_link (link_after_disconnect (link s)) (core_of s).
Proof.
  unfold sdk_disconnect, link_after_disconnect. stsimp.
  change (link (emit O_DISCONNECT [now s] s)) with (link s).
  destruct (link s =? L_LIVE) eqn:E1.
  - change (core_of (set_link L_CLOSING (wire_close (emit O_DISCONNECT [now s] s))))
      with (with_link L_CLOSING (core_of (wire_close (emit O_DISCONNECT [now s] s)))).
    rewrite core_wire_close. reflexivity.
  - destruct (link s =? L_PENDING) eqn:E2; [reflexivity|].
    unfold with_link. cbn. rewrite core_emit. unfold core_of. reflexivity.
Qed.
Lemma link_after_disconnect_not_live l : link_after_disconnect l <> L_LIVE.
Proof.
  destruct consts_ok. unfold link_after_disconnect.
  destruct (l =? L_LIVE) eqn:E1; [intuition|]. destruct (l =? L_PENDING) eqn:E2; [intuition|].
  apply Z.eqb_neq in E1. exact E1.
Qed.
Lemma link_after_disconnect_pending l : link_after_disconnect l <> L_PENDING.
Proof.
  destruct consts_ok. unfold link_after_disconnect.
  destruct (l =? L_LIVE) eqn:E1; [intuition|]. destruct (l =? L_PENDING) eqn:E2; [intuition|].
  apply Z.eqb_neq in E2. exact E2.
Qed.

(* ---------- SRPC instance updates ---------- *)
Lemma PInst_same r p p' : r <> 0 -> hist p' = hist p -> got_ok p' = got_ok p -> PInst r p -> PInst r p'.
Proof.
  intros Hr Hh Hg [A B C D]. constructor; try rewrite Hh; try rewrite Hg; auto. intros; contradiction.
Qed.
Lemma PInst_call r p p' c : r <> 0 -> is_reg c = false -> (originated c = true -> r = 1) ->
  hist p' = c :: hist p -> got_ok p' = got_ok p -> PInst r p -> PInst r p'.
Proof.
  intros Hr Hc Ho Hh Hg [A B C D]. constructor; try rewrite Hh; try rewrite Hg; auto.
  - intros; contradiction.
  - intros _. destruct (B Hr) as [l [E F]]. exists (c :: l). split; [rewrite E; reflexivity|].
    intros x [<-|Hin]; auto.
  - intros H1 x [Hx|Hin]; [|apply C; auto]. subst x.
    destruct (originated c) eqn:E; [|reflexivity]. exfalso. apply H1. auto.
Qed.
Lemma InvC_rpc c p p' : InvC c -> c_rpc c = Some p -> sid p' = sid p -> refused_at p' = refused_at p -> PInst (c_reg c) p' -> InvC (with_rpc (Some p') c).
Proof.
  intros [FX FY A B C D E F ST] Hp Hs Hrf HP. constructor; cbn; try (intros; discriminate); auto.
  - intros Hl. rewrite (E Hl) in Hp. discriminate.
  - intros q Hq. inversion Hq; subst q. split; auto. rewrite Hs. apply (F p Hp).
  - intros q t Hq Hr. inversion Hq; subst q. rewrite Hrf in Hr. apply (ST p t Hp Hr).
Qed.

Definition Act (s : st) : Prop := Inv s /\ registered s <> 0 /\ srpc s <> None.

Lemma async_call_act c pay s : Act s -> is_reg c = false -> (originated c = true -> registered s = 1) -> Act (async_call c pay s).
Proof.
  intros [HI [Hr Hn]] Hc Ho. unfold async_call. destruct (srpc s) as [p|] eqn:E; [|contradiction].
  assert (HP := proj2 (i_inst _ HI p E)). cbn in HP.
  destruct (len (oq p) <? QUEUE_SIZE).
  - split; [|split; stsimp; auto; discriminate].
    apply (InvC_rpc (core_of s) p); auto. cbn.
    apply (PInst_call _ p _ c); auto.
  - split; [|split; stsimp; auto; discriminate].
    apply (InvC_rpc (core_of s) p); auto. cbn.
    apply (PInst_same _ p); auto.
Qed.

Lemma originated_REG : originated REG = false.
Proof. unfold originated. rewrite (cf_reg_is_reg consts_ok). reflexivity. Qed.

Lemma register_act s : Inv s -> srpc s <> None -> registered s = 0 -> Act (async_call REG (regpay s) (set_registered (-1) s)).
Proof.
  intros HI Hn Hr. destruct (srpc s) as [p|] eqn:E; [|contradiction].
  destruct (i_inst _ HI p E) as [Hsid HP]. cbn in Hsid, HP. destruct (pi_fresh _ _ HP Hr) as [Hh [Hq [Hob [Hrr [Hg [Hrf Hib]]]]]].
  unfold async_call. stsimp. rewrite E, Hq. cbn [len length Z.of_nat].
  destruct consts_ok as [Cq Creg].
  replace (0 <? QUEUE_SIZE) with true by (symmetry; apply Z.ltb_lt; exact Cq).
  split; [|split; stsimp; [lia|discriminate]].
  destruct HI as [FX FY A B C D F G ST]. constructor; cbn in *; try (intros; discriminate); auto.
  - intros Hl. rewrite (F Hl) in E. discriminate.
  - intros q Hq'. inversion Hq'; subst q; cbn. split; auto.
    constructor; cbn.
    + intros; lia.
    + intros _. exists []. rewrite Hh. split; [reflexivity|]. intros ? [].
    + intros _ x [Hx|Hin]; [subst x; apply originated_REG | rewrite Hh in Hin; destruct Hin].
    + rewrite Hg. split; intros; [lia|discriminate].
  - intros q t Hq' Ht. inversion Hq'; subst q; cbn in Ht. rewrite Hrf in Ht. discriminate.
Qed.

Lemma Act_core s s' : core_of s' = core_of s -> Act s -> Act s'.
Proof.
  intros H [HI [Hr Hn]]. assert (registered s' = registered s) by (change (c_reg (core_of s') = c_reg (core_of s)); rewrite H; reflexivity).
  assert (srpc s' = srpc s) by (change (c_rpc (core_of s') = c_rpc (core_of s)); rewrite H; reflexivity).
  split; [eapply Inv_core; eauto|]. split; congruence.
Qed.
Lemma stop_with_delay_act s : Act s -> Act (stop_with_delay s).
Proof.
  intros [HI [Hr Hn]]. unfold stop_with_delay, mark_refused. destruct (srpc s) as [p|] eqn:E; [|contradiction].
  set (p' := mkrpc (sid p) (rr_last p) (oq p) (obuf p) (ibuf p) (hist p) (got_ok p) (Some (now s)) (created_at p)).
  set (s' := arm T_stop STOP_DELAY_MS false (set_srpc (Some p') s)).
  assert (C : core_of s' = with_tstop (mktimer true (now s + STOP_DELAY_MS * 1000) (seqc s + 1) 0) (with_rpc (Some p') (core_of s))) by reflexivity.
  split; [|split; [exact Hr|change (c_rpc (core_of s') <> None); rewrite C; discriminate]].
  unfold Inv. rewrite C. destruct (i_inst _ HI p E) as [Hsid HP]. cbn in Hsid, HP.
  destruct HI as [FX FY A B C0 D F G ST]. constructor; cbn in *; try (intros; discriminate); auto.
  - intros Hl. rewrite (F Hl) in E. discriminate.
  - intros q Hq. inversion Hq; subst q. split; auto. apply (PInst_same _ p); auto.
  - intros q t Hq Ht. inversion Hq; subst q. cbn in Ht. inversion Ht; subst t. split; reflexivity.
Qed.

Lemma Act_esp e s s' : core_of s' = with_esp e (core_of s) -> Act s -> Act s'.
Proof.
  intros H [HI [Hr Hn]].
  assert (registered s' = registered s) by (change (c_reg (core_of s') = c_reg (core_of s)); rewrite H; reflexivity).
  assert (srpc s' = srpc s) by (change (c_rpc (core_of s') = c_rpc (core_of s)); rewrite H; reflexivity).
  split; [|split; congruence]. unfold Inv. rewrite H. apply InvC_esp; auto.
Qed.
Lemma data_write_act b s : Act s -> Act (data_write b s).
Proof. intros H. destruct (core_data_write b s) as [e He]. eapply Act_esp; eauto. Qed.

Lemma on_register_result_act code tmo s : Act s -> Act (on_register_result code tmo s).
Proof.
  intros HA. unfold on_register_result. destruct (code =? RESULTCODE_TRUE); [|apply stop_with_delay_act; auto].
  destruct HA as [HI [Hr Hn]]. destruct (srpc s) as [p|] eqn:E; [|contradiction].
  set (s1 := k_reset (set_registered 1 (set_actto tmo s))).
  assert (E1 : srpc s1 = Some p) by exact E. rewrite E1.
  set (s2 := set_srpc _ s1).
  assert (A2 : Act s2 /\ registered s2 = 1).
  { split; [|reflexivity]. split; [|split; subst s2 s1; unfold k_reset; stsimp; [lia|discriminate]].
    destruct (i_inst _ HI p E) as [Hsid HP]. cbn in Hsid, HP.
    destruct HI as [FX FY A B C D F G ST]. constructor; cbn in *; try (intros; discriminate); auto.
    - intros Hl. rewrite (F Hl) in E. discriminate.
    - intros q Hq. inversion Hq; subst q; cbn. split; auto.
      destruct HP as [P1 P2 P3 P4]. constructor; cbn; [intros; lia | intros _; auto | intros; contradiction | split; auto].
    - intros q t Hq Ht. inversion Hq; subst q; cbn in Ht. apply (ST p t E Ht). }
  destruct A2 as [A2 R2].
  assert (A3 : Act (gpio_state_connected s2) /\ registered (gpio_state_connected s2) = 1).
  { split; [eapply Act_core; [apply core_gpio_conn|auto]|].
    change (c_reg (core_of (gpio_state_connected s2)) = 1). rewrite core_gpio_conn. exact R2. }
  destruct A3 as [A3 R3].
  eapply Act_core; [apply core_arm; discriminate|]. eapply Act_core; [apply core_disarm; discriminate|].
  destruct (tmo =? ACTIVITY_TIMEOUT_DEFAULT); auto.
  apply async_call_act; auto; try apply consts_ok.
Qed.

Definition handler_body (f : list Z) (s0 : st) : st :=
  let call := le32 f OFF_CALL_ID in
  let ds := le32 f OFF_DATA_SIZE in
  let pay := drop OFF_DATA f in
  if (call =? SRV_REGISTER_RESULT) && (ds =? SZ_REGISTER_RESULT) then
    on_register_result (s32 (le32 pay OFF_RESULT_CODE)) (nthz pay OFF_RESULT_TIMEOUT) s0
  else if (call =? SRV_VERSIONERROR) && (ds =? SZ_VERSIONERROR) then stop_with_delay s0
  else if (call =? SRV_SET_ACTIVITY_TIMEOUT_RESULT) && (ds =? SZ_SET_ACTIVITY_TIMEOUT_RESULT) then
    k_reset (set_actto (nthz pay OFF_SAT_RESULT_TIMEOUT) s0)
  else if (call =? SRV_GET_CHANNEL_STATE) && (ds =? SZ_CHANNEL_STATE_REQUEST) then
    async_call (api_call A_CHSTATE) (zeros (api_size A_CHSTATE)) s0
  else s0.
Definition handler_pre (s : st) : st := k_event (Resp (uptime s)) (set_nresp (nresp s + 1) (set_lastresp (uptime s) s)).
Lemma handler_eq f s : handler f s = handler_body f (handler_pre s).
Proof. reflexivity. Qed.
Lemma handler_body_act f s0 : Act s0 -> Act (handler_body f s0).
Proof.
  intros H0. unfold handler_body.
  destruct (_ && _); [apply on_register_result_act; auto|].
  destruct (_ && _); [apply stop_with_delay_act; auto|].
  destruct (_ && _); [eapply Act_core; [rewrite core_k_reset; reflexivity|eauto]|].
  destruct (_ && _); auto.
  destruct consts_ok as [? ? ? ? [C1 C2]].
  apply async_call_act; auto. rewrite C2. discriminate.
Qed.
Lemma handler_act f s : Act s -> Act (handler f s).
Proof.
  intros HA. rewrite handler_eq. apply handler_body_act.
  unfold handler_pre. eapply Act_core; [rewrite core_k_event; reflexivity|eauto].
Qed.

Lemma set_rpc_same_act s p p' : Act s -> srpc s = Some p -> sid p' = sid p -> hist p' = hist p -> got_ok p' = got_ok p ->
  refused_at p' = refused_at p -> Act (set_srpc (Some p') s).
Proof.
  intros [HI [Hr Hn]] E Hs Hh Hg Hrf. split; [|split; stsimp; auto; discriminate].
  apply (InvC_rpc (core_of s) p); auto. cbn. apply (PInst_same _ p); auto. exact (proj2 (i_inst _ HI p E)).
Qed.

Lemma srpc_out_act s : Act s -> Act (srpc_out s).
Proof.
  intros HA. unfold srpc_out. destruct (srpc s) as [p|] eqn:E; auto.
  destruct (match oq p with f :: rest => (rest, obuf p ++ encode f) | [] => ([], obuf p) end) as [q ob].
  set (n := if OUT_CHUNK <? len ob then OUT_CHUNK else len ob).
  assert (A1 : Act (set_srpc (Some (mkrpc (sid p) (rr_last p) q (drop n ob) (ibuf p) (hist p) (got_ok p) (refused_at p) (created_at p))) s))
    by (apply (set_rpc_same_act s p); auto).
  destruct (0 <? n); auto. apply data_write_act; auto.
Qed.

Lemma Act_recv e s : Act s -> Act (set_recvbuf e s).
Proof.
  intros [HI [Hr Hn]]. split; [|split; auto].
  change (InvC (with_recv e (core_of s))). apply InvC_recv; auto.
Qed.

Lemma Inv_restart s : Inv s -> Inv (restart s). Proof. apply Inv_core. reflexivity. Qed.

Lemma srpc_iterate_inv s : Act s -> Inv (srpc_iterate s).
Proof.
  intros HA. unfold srpc_iterate. destruct (srpc s) as [p|] eqn:E; [|apply HA].
  set (n := if OUT_CHUNK <? len (recvbuf s) then OUT_CHUNK else len (recvbuf s)).
  set (s1 := set_recvbuf (drop n (recvbuf s)) s).
  assert (A1 : Act s1) by (apply Act_recv; auto).
  assert (E1 : srpc s1 = Some p) by exact E.
  destruct (if 0 <? n then _ else _) as [b|]; [|apply Inv_restart; apply A1].
  destruct (C01.Model.pop _ b []) as [[b' f] r].
  assert (A2 : Act (set_srpc (Some (with_ibuf b' p)) s1)) by (apply (set_rpc_same_act s1 p); auto).
  destruct r; try (apply Inv_restart; apply A2).
  - apply srpc_out_act. apply handler_act. auto.
  - apply srpc_out_act. auto.
Qed.

Lemma devconn_iterate_inv s : Inv s -> Inv (devconn_iterate s).
Proof.
  intros HI. unfold devconn_iterate. destruct (srpc s) as [p|] eqn:E; auto.
  apply srpc_iterate_inv. apply data_write_act.
  destruct (registered s =? 0) eqn:R.
  - apply Z.eqb_eq in R. apply register_act; auto. rewrite E; discriminate.
  - apply Z.eqb_neq in R. split; auto. split; auto. rewrite E; discriminate.
Qed.

(* ---------- stop / start / reconnect ---------- *)
Lemma InvC_stopped c l e r t : c_cs c = cs -> c_cc c = cc -> l <> L_LIVE -> l <> L_PENDING -> (c_cs c = true -> e = [] /\ r = []) ->
  InvC (mkcore 0 None e r l (c_cs c) (c_cc c) (c_conn c) t).
Proof.
  intros FX FY H1 H2 H3. constructor; cbn; auto; try (intros; discriminate); try (intros; contradiction).
Qed.

Lemma devconn_stop_inv s : clrstop s = cs -> clrconn s = cc -> Inv (devconn_stop s) /\ srpc (devconn_stop s) = None.
Proof.
  intros FX FY. unfold devconn_stop.
  set (s2 := disarm T_iter (disarm T_timer1 (set_started false (set_registered 0 s)))).
  assert (C2 : core_of s2 = with_reg 0 (core_of s)) by (subst s2; rewrite !core_disarm by discriminate; reflexivity).
  pose proof (core_sdk_disconnect s2) as C3. rewrite C2 in C3.
  assert (L2 : link s2 = link s) by (change (c_link (core_of s2) = link s); rewrite C2; reflexivity).
  rewrite L2 in C3.
  set (s3 := sdk_disconnect s2) in *.
  set (s4 := set_srpc None s3).
  assert (C4 : core_of s4 = with_rpc None (core_of s3)) by reflexivity. rewrite C3 in C4.
  assert (CS : clrstop s4 = clrstop s) by (change (c_cs (core_of s4) = clrstop s); rewrite C4; reflexivity).
  destruct (clrstop s4) eqn:Ecs.
  - split; [|reflexivity]. unfold Inv.
    change (core_of (set_recvbuf [] (set_espbuf [] s4))) with (with_recv [] (with_esp [] (core_of s4))).
    rewrite C4. apply (InvC_stopped (core_of s)); auto.
    + apply link_after_disconnect_not_live.
    + apply link_after_disconnect_pending.
  - split; [|reflexivity]. unfold Inv. rewrite C4.
    apply (InvC_stopped (core_of s)); auto.
    + apply link_after_disconnect_not_live.
    + apply link_after_disconnect_pending.
    + cbn. intros Hc. rewrite <- CS in Hc. discriminate.
Qed.

Lemma InvC_link_none c l : InvC c -> c_rpc c = None -> l <> L_LIVE -> InvC (with_link l c).
Proof. intros [FX FY A B C D F G ST] Hn Hl. constructor; cbn; auto. Qed.

Lemma resolvandconnect_inv s : Inv s -> srpc s = None -> Inv (resolvandconnect s) /\ srpc (resolvandconnect s) = None.
Proof.
  intros HI Hn. unfold resolvandconnect. destruct (resolving s); [auto|].
  set (s1 := sdk_disconnect (set_resolving true s)).
  set (s2 := sdk_disconnect (set_resolving false s1)).
  pose proof (core_sdk_disconnect (set_resolving true s)) as C1. fold s1 in C1.
  pose proof (core_sdk_disconnect (set_resolving false s1)) as C2. fold s2 in C2.
  pose proof (core_sdk_connect s2) as C3.
  change (core_of (set_resolving true s)) with (core_of s) in C1.
  change (core_of (set_resolving false s1)) with (core_of s1) in C2.
  rewrite C1 in C2. rewrite C2 in C3. cbn in C3.
  destruct consts_ok as [? ? ? ? ? [K1 [K2 [K3 [K4 K5]]]]].
  split.
  - unfold Inv. rewrite C3.
    change (InvC (with_link L_PENDING (core_of s))). apply InvC_link_none; auto.
  - change (c_rpc (core_of (sdk_connect s2)) = None). rewrite C3. exact Hn.
Qed.

Lemma wifi_check_status_inv s : Inv s -> Inv (wifi_check_status s) /\ (srpc s = None -> srpc (wifi_check_status s) = None).
Proof.
  intros HI. unfold wifi_check_status. destruct (wlast s =? wstatus s); [auto|].
  set (s1 := set_wlast (wstatus s) s).
  set (s2 := if wstatus s =? STATION_GOT_IP_ then gpio_state_ipreceived s1 else gpio_state_disconnected s1).
  assert (C2 : core_of s2 = core_of s).
  { subst s2. destruct (wstatus s =? STATION_GOT_IP_); [rewrite core_gpio_ip|rewrite core_gpio_disc]; reflexivity. }
  assert (I2 : Inv s2) by (eapply Inv_core; eauto).
  assert (R2 : srpc s2 = srpc s) by (change (c_rpc (core_of s2) = c_rpc (core_of s)); rewrite C2; reflexivity).
  destruct (srpc s2) as [p|] eqn:E.
  - rewrite andb_false_r. cbn [andb]. split; auto. intros Hn. congruence.
  - destruct (started s2 && true && (wstatus s =? STATION_GOT_IP_)).
    + destruct (resolvandconnect_inv s2 I2 E). auto.
    + auto.
Qed.

Lemma wifi_station_connect_inv s : Inv s -> Inv (wifi_station_connect s) /\ (srpc s = None -> srpc (wifi_station_connect s) = None).
Proof.
  intros HI. unfold wifi_station_connect.
  set (s1 := gpio_state_disconnected s).
  set (s2 := set_wstatus STATION_CONNECTING_ (emit O_WIFISTART [now s1] s1)).
  assert (C2 : core_of s2 = core_of s) by (subst s2 s1; stsimp; change (core_of (gpio_state_disconnected s) = core_of s); apply core_gpio_disc).
  assert (I2 : Inv s2) by (eapply Inv_core; eauto).
  assert (R2 : srpc s2 = srpc s) by (change (c_rpc (core_of s2) = c_rpc (core_of s)); rewrite C2; reflexivity).
  set (s3 := if wlast s2 =? STATION_GOT_IP_ + 1 then wifi_check_status s2 else s2).
  assert (I3 : Inv s3 /\ (srpc s = None -> srpc s3 = None)).
  { subst s3. destruct (_ =? _).
    - destruct (wifi_check_status_inv s2 I2). split; auto. intros; apply H0; congruence.
    - split; auto. intros; congruence. }
  destruct I3 as [I3 N3].
  split.
  - eapply Inv_core; [|exact I3]. rewrite core_arm, core_disarm by discriminate. reflexivity.
  - intros Hn. change (c_rpc (core_of (arm T_wifi WIFI_CHECK_MS true (disarm T_wifi s3))) = None).
    rewrite core_arm, core_disarm by discriminate. apply N3; auto.
Qed.

Lemma devconn_start_inv s : Inv s -> Inv (devconn_start s) /\ (srpc s = None -> srpc (devconn_start s) = None).
Proof.
  intros HI. unfold devconn_start.
  set (s1 := set_started true (gpio_state_ipreceived s)).
  assert (C1 : core_of s1 = core_of s) by (subst s1; stsimp; change (core_of (gpio_state_ipreceived s) = core_of s); apply core_gpio_ip).
  assert (I1 : Inv s1) by (eapply Inv_core; eauto).
  destruct (wifi_station_connect_inv s1 I1) as [I2 N2].
  split.
  - eapply Inv_core; [|exact I2]. rewrite core_arm, !core_disarm by discriminate. reflexivity.
  - intros Hn. change (c_rpc (core_of (arm T_timer1 TIMER1_MS true (disarm T_timer1 (disarm T_recon (wifi_station_connect s1))))) = None).
    rewrite core_arm, !core_disarm by discriminate. apply N2. change (c_rpc (core_of s1) = None). rewrite C1. exact Hn.
Qed.

Lemma devconn_reconnect_inv s : Inv s -> Inv (devconn_reconnect s).
Proof.
  intros HI. unfold devconn_reconnect.
  assert (I0 : Inv (set_nextwd (uptime s + WATCHDOG_SOFT_TIMEOUT_S) s)) by (eapply Inv_core; [|eauto]; reflexivity).
  destruct (devconn_stop_inv (set_nextwd (uptime s + WATCHDOG_SOFT_TIMEOUT_S) s) (i_cs _ HI) (i_cc _ HI)) as [I1 _]. apply devconn_start_inv; auto.
Qed.

(* ---------- callbacks ---------- *)
Lemma is_registered_true s : is_registered s = true -> registered s = 1 /\ srpc s <> None.
Proof. unfold is_registered. destruct (srpc s); [|discriminate]. intros H; apply Z.eqb_eq in H. split; auto; discriminate. Qed.

Lemma timer1_cb_inv s : Inv s -> Inv (timer1_cb s).
Proof.
  intros HI. unfold timer1_cb. destruct (is_registered s) eqn:E; auto.
  apply is_registered_true in E. destruct E as [R N].
  set (s1 := if 0 <? actto s then _ else s).
  assert (C1 : core_of s1 = core_of s) by (subst s1; destruct (0 <? actto s); reflexivity).
  assert (I1 : Inv s1) by (eapply Inv_core; eauto).
  assert (R1 : registered s1 = 1) by (change (c_reg (core_of s1) = 1); rewrite C1; exact R).
  assert (N1 : srpc s1 <> None) by (change (c_rpc (core_of s1) <> None); rewrite C1; exact N).
  destruct (t1_decide _ _ _ _); auto.
  - apply async_call_act; [split; auto; split; auto; lia| apply consts_ok | auto].
  - apply devconn_reconnect_inv; auto.
Qed.
Lemma watchdog_cb_inv s : Inv s -> Inv (watchdog_cb s).
Proof.
  intros HI. unfold watchdog_cb. destruct (_ <? _); auto. destruct (_ <? _); [apply Inv_restart; auto|].
  destruct (_ && _); auto. apply devconn_reconnect_inv; auto.
Qed.
Lemma Inv_not_live_none s : Inv s -> link s = L_LIVE -> srpc s <> None.
Proof. intros HI Hl Hn. exact (i_none_link _ HI Hn Hl). Qed.

Lemma recv_cb_inv b s : Inv s -> link s = L_LIVE -> Inv (recv_cb b s).
Proof.
  intros HI Hl. unfold recv_cb. destruct (len b =? 0); auto. destruct (_ <=? _); auto.
  apply devconn_iterate_inv. change (InvC (with_recv (recvbuf s ++ b) (core_of s))).
  apply InvC_recv; auto. apply Inv_not_live_none; auto.
Qed.

Lemma srv_cb_inv s : Inv s -> Inv (srv_cb s).
Proof.
  intros HI. unfold srv_cb. destruct (srvq s) as [|d rest]; auto.
  set (s1 := set_srvq rest s).
  set (s2 := match rest with [] => s1 | d0 :: _ => _ end).
  assert (C2 : core_of s2 = core_of s) by (subst s2 s1; destruct rest; reflexivity).
  assert (I2 : Inv s2) by (eapply Inv_core; eauto).
  destruct (link s2 =? L_LIVE) eqn:E; auto. apply Z.eqb_eq in E.
  apply recv_cb_inv; auto.
Qed.
Lemma callback_inv i s : Inv s -> Inv (callback i s).
Proof.
  intros HI. destruct i; cbn [callback]; auto.
  - apply wifi_check_status_inv; auto.
  - apply timer1_cb_inv; auto.
  - apply devconn_iterate_inv; auto.
  - apply watchdog_cb_inv; auto.
  - apply devconn_reconnect_inv; auto.
  - apply devconn_stop_inv; [apply (i_cs _ HI)|apply (i_cc _ HI)].
  - apply srv_cb_inv; auto.
Qed.
Definition tid_eq_dec (a b : tid) : {a = b} + {a <> b}.
Proof. decide equality. Defined.
Lemma core_lateness s : core_of (snd (lateness s)) = core_of s.
Proof. unfold lateness. destruct (lat s); reflexivity. Qed.
Lemma fire_inv i s : Inv s -> Inv (fire i s).
Proof.
  intros HI. unfold fire. pose proof (core_lateness s) as CL. destruct (lateness s) as [l s0]. cbn [snd] in CL.
  set (s1 := if now s0 <? _ then _ else s0).
  assert (C1 : core_of s1 = core_of s) by (subst s1; destruct (_ <? _); rewrite <- CL; reflexivity).
  destruct (tid_eq_dec i T_stop) as [->|Hne].
  - (* the stop timer itself: __stop does not depend on the timer state *)
    cbn [callback]. apply devconn_stop_inv.
    + change (c_cs (core_of s1) = cs) || idtac.
      destruct (0 <? period (get_tm T_stop s)); cbn [set_tm]; stsimp;
        [change (clrstop s1 = cs)|change (clrstop s1 = cs)]; change (c_cs (core_of s1) = cs); rewrite C1; apply (i_cs _ HI).
    + destruct (0 <? period (get_tm T_stop s)); cbn [set_tm]; stsimp;
        [change (clrconn s1 = cc)|change (clrconn s1 = cc)]; change (c_cc (core_of s1) = cc); rewrite C1; apply (i_cc _ HI).
  - apply callback_inv. eapply Inv_core; [|exact HI].
    change (core_of (set_fired ?x ?y)) with (core_of y).
    destruct (0 <? period (get_tm i s)); rewrite core_set_tm by auto; auto.
Qed.
Lemma advance_inv k fin s : Inv s -> Inv (advance k fin s).
Proof.
  revert s. induction k as [|k IH]; intros s HI; cbn [advance].
  - destruct (halted s); auto. destruct (pick s fin); [eapply Inv_core; [|eauto]; reflexivity|].
    destruct (_ <? _); auto.
  - destruct (halted s); auto. destruct (pick s fin).
    + apply IH. apply fire_inv; auto.
    + destruct (_ <? _); auto.
Qed.

(* ---------- LOCAL api calls: the generated call-site list ---------- *)
Lemma find_In {A} (f : A -> bool) l x : find f l = Some x -> In x l /\ f x = true.
Proof. apply find_some. Qed.

Lemma local_call_inv api s : sites_ok CallSites = true -> Inv s -> Inv (local_call api s).
Proof.
  intros HS HI. unfold local_call. destruct (api <? 0) eqn:Eneg; auto. apply Z.ltb_ge in Eneg.
  destruct (site_of_api api) as [r|] eqn:E; auto.
  unfold site_of_api in E. apply find_In in E. destruct E as [Hin Hapi]. apply Z.eqb_eq in Hapi.
  unfold sites_ok in HS. rewrite forallb_forall in HS. specialize (HS r Hin). unfold site_ok in HS.
  rewrite Hapi in HS.
  set (call := nthz r 2) in *. set (g := nthz r 3) in *.
  destruct (is_reg call) eqn:Ereg.
  - apply andb_true_iff in HS. destruct HS as [_ HS]. apply Z.ltb_lt in HS. lia.
  - replace (0 <=? api) with true in HS by (symmetry; apply Z.leb_le; auto).
    rewrite orb_true_r in HS. apply negb_true_iff in HS. rewrite HS.
    destruct (is_registered s) eqn:ER; auto. apply is_registered_true in ER. destruct ER as [R N].
    apply async_call_act; auto. split; auto. split; auto. lia.
Qed.

(* ---------- events ---------- *)
Definition fresh_instance (c t : Z) : rpc := mkrpc c 0 [] [] empty_inb [] false None t.

(* what the connect callback leaves behind: the theorem behind C04_clean_restart *)
Lemma conncb_state s : Inv s -> link s = L_PENDING ->
  let s' := dev_step s ConnCb in
  Inv s' /\ registered s' = 0 /\ srpc s' = Some (fresh_instance (conn s + 1) (now s)) /\ conn s' = conn s + 1 /\ link s' = L_LIVE /\
  (clrstop s || clrconn s = true -> espbuf s' = [] /\ recvbuf s' = []).
Proof.
  intros HI Hl. cbn [dev_step].
  set (s1 := set_stalled false (set_wbuf [] (set_conn (conn s + 1) (set_link L_LIVE s)))).
  pose proof (i_pending _ HI Hl) as Hn. cbn in Hn.
  pose proof (i_none_reg _ HI Hn) as Hr. cbn in Hr.
  unfold connect_cb.
  set (s2 := arm T_iter ITERATE_MS true (set_srpc (Some (mkrpc (conn s1) 0 [] [] empty_inb [] false None (now s1))) s1)).
  assert (C2 : core_of s2 = mkcore 0 (Some (fresh_instance (conn s + 1) (now s))) (espbuf s) (recvbuf s) L_LIVE (clrstop s) (clrconn s) (conn s + 1) (t_stop s)).
  { subst s2. rewrite core_arm by discriminate. subst s1. unfold core_of. stsimp. rewrite Hr. reflexivity. }
  assert (PF : forall t, PInst 0 (fresh_instance (conn s + 1) t)).
  { intros t. constructor; cbn.
    - intros _. repeat split.
    - intros; contradiction.
    - intros _ c [].
    - split; intros; discriminate. }
  destruct consts_ok as [? ? ? ? ? [K1 [K2 [K3 [K4 K5]]]]].
  assert (IG : forall e r, InvC (mkcore 0 (Some (fresh_instance (conn s + 1) (now s))) e r L_LIVE (clrstop s) (clrconn s) (conn s + 1) (t_stop s))).
  { intros e r. pose proof (i_cs _ HI) as F1. pose proof (i_cc _ HI) as F2. cbn in F1, F2.
    constructor; cbn; auto; try (intros; discriminate).
    - intros p Hp. inversion Hp; subst p. split; [reflexivity|apply PF].
    - intros p t Hp Ht. inversion Hp; subst p. discriminate Ht. }
  assert (CC : clrconn s2 = clrconn s) by (change (c_cc (core_of s2) = clrconn s); rewrite C2; reflexivity).
  destruct (clrconn s2) eqn:Ecc.
  - remember (set_recvbuf [] (set_espbuf [] s2)) as s3 eqn:E3.
    assert (C3 : core_of s3 = with_recv [] (with_esp [] (core_of s2))) by (subst s3; reflexivity). rewrite C2 in C3. cbn in C3.
    clear E3. remember (emit O_FRESH [now s3; conn s3; len (espbuf s3); len (recvbuf s3); registered s3; evi s3] s3) as s4 eqn:E4.
    assert (C4 : core_of s4 = core_of s3) by (subst s4; apply core_emit). rewrite C3 in C4. clear E4.
    split; [unfold Inv; rewrite C4; apply IG|].
    split; [change (c_reg (core_of s4) = 0); rewrite C4; reflexivity|].
    split; [change (c_rpc (core_of s4) = Some (fresh_instance (conn s + 1) (now s))); rewrite C4; reflexivity|].
    split; [change (c_conn (core_of s4) = conn s + 1); rewrite C4; reflexivity|].
    split; [change (c_link (core_of s4) = L_LIVE); rewrite C4; reflexivity|].
    intros _. split; [change (c_esp (core_of s4) = []); rewrite C4; reflexivity|change (c_recv (core_of s4) = []); rewrite C4; reflexivity].
  - remember (emit O_FRESH [now s2; conn s2; len (espbuf s2); len (recvbuf s2); registered s2; evi s2] s2) as s4 eqn:E4.
    assert (C4 : core_of s4 = core_of s2) by (subst s4; apply core_emit). rewrite C2 in C4. clear E4.
    split; [unfold Inv; rewrite C4; apply IG|].
    split; [change (c_reg (core_of s4) = 0); rewrite C4; reflexivity|].
    split; [change (c_rpc (core_of s4) = Some (fresh_instance (conn s + 1) (now s))); rewrite C4; reflexivity|].
    split; [change (c_conn (core_of s4) = conn s + 1); rewrite C4; reflexivity|].
    split; [change (c_link (core_of s4) = L_LIVE); rewrite C4; reflexivity|].
    rewrite <- CC, orb_false_r. intros Hcs. destruct (i_none_clean _ HI Hcs Hn) as [Y1 Y2]. cbn in Y1, Y2.
    split; [change (c_esp (core_of s4) = []); rewrite C4; exact Y1|change (c_recv (core_of s4) = []); rewrite C4; exact Y2].
Qed.

(* the disconnect callback re-establishes the invariant whatever the receive buffer held (bytes stored while no SRPC instance
   existed: a segment delivered in the closing window) *)
Lemma disc_step_inv s s0 r : Inv s0 -> core_of s = with_recv r (core_of s0) -> Inv (disc_step s).
Proof.
  intros HI C0. unfold disc_step.
  set (s1 := if link s =? L_LIVE then wire_close s else s).
  assert (C1 : core_of s1 = core_of s) by (subst s1; destruct (_ =? _); [apply core_wire_close|reflexivity]).
  unfold disconnect_cb.
  set (s1' := emit O_DISCD [now s1; conn s1; evi s1] s1).
  set (s2 := set_recvbuf [] (set_espbuf [] (gpio_state_ipreceived (set_link L_IDLE s1')))).
  assert (C2 : core_of s2 = with_recv [] (with_esp [] (with_link L_IDLE (core_of s0)))).
  { subst s2. change (core_of (set_recvbuf [] (set_espbuf [] ?x))) with (with_recv [] (with_esp [] (core_of x))).
    rewrite core_gpio_ip. change (core_of (set_link L_IDLE s1')) with (with_link L_IDLE (core_of s1)). rewrite C1, C0. reflexivity. }
  assert (I2 : Inv s2).
  { unfold Inv. rewrite C2. destruct consts_ok as [? ? ? ? ? [K1 [K2 [K3 [K4 K5]]]]].
    destruct HI as [FX FY A B C D F G ST]. constructor; cbn in *; auto. intros Hl. contradiction. }
  destruct (started s2); auto.
Qed.
Lemma disccb_inv s : Inv s -> Inv (dev_step s DiscCb).
Proof. intros HI. cbn [dev_step]. apply (disc_step_inv s s (recvbuf s)); auto. Qed.
Lemma recv_closing_inv b s : Inv s -> Inv (disc_step (recv_cb b (emit O_RX [now s; conn s; evi s] s))).
Proof.
  intros HI. set (s0 := emit O_RX [now s; conn s; evi s] s). assert (HI0 : Inv s0) by (eapply Inv_core; [|eauto]; reflexivity).
  clearbody s0. clear HI s. destruct (srpc s0) as [p|] eqn:E.
  - (* an instance exists: the ordinary receive path keeps the invariant *)
    assert (HR : Inv (recv_cb b s0)).
    { unfold recv_cb. destruct (len b =? 0); auto. destruct (_ <=? _); auto.
      apply devconn_iterate_inv. change (InvC (with_recv (recvbuf s0 ++ b) (core_of s0))).
      apply InvC_recv; auto. cbn. rewrite E. discriminate. }
    apply (disc_step_inv (recv_cb b s0) (recv_cb b s0) (recvbuf (recv_cb b s0))); auto.
  - (* no instance: the bytes are only stored *)
    assert (C : core_of (recv_cb b s0) = with_recv (recvbuf (recv_cb b s0)) (core_of s0)).
    { unfold recv_cb. destruct (len b =? 0); [reflexivity|]. destruct (_ <=? _); [|reflexivity].
      unfold devconn_iterate. cbn [srpc set_recvbuf]. rewrite E. reflexivity. }
    apply (disc_step_inv _ s0 _ HI0 C).
Qed.

Lemma dev_step_inv s e : sites_ok CallSites = true -> Inv s -> env_allows s e = true -> Inv (dev_step s e).
Proof.
  intros HS HI HE. destruct e; cbn [dev_step].
  - destruct (dt <? 0); auto. apply advance_inv; auto.
  - eapply Inv_core; [|eauto]; reflexivity.
  - cbn [env_allows] in HE. apply Z.eqb_eq in HE. apply (conncb_state s HI HE).
  - apply disccb_inv; auto.
  - destruct (link s =? L_CLOSING) eqn:EC; [apply recv_closing_inv; auto|].
    cbn [env_allows] in HE. rewrite EC, orb_false_r in HE. apply Z.eqb_eq in HE. apply recv_cb_inv; auto.
  - eapply Inv_core; [|eauto]; reflexivity.
  - eapply Inv_core; [|eauto]; reflexivity.
  - apply local_call_inv; auto.
  - eapply Inv_core; [|eauto]; reflexivity.
  - auto.
Qed.
Lemma step_inv s e : sites_ok CallSites = true -> Inv s -> Inv (step s e).
Proof.
  intros HS HI. unfold step.
  assert (HI' : Inv (set_evi (evi s + 1) s)) by (eapply Inv_core; [|eauto]; reflexivity).
  destruct (_ || _); auto. destruct (env_allows _ e) eqn:E; auto. apply dev_step_inv; auto.
Qed.
Lemma run_from_inv evs : forall s, sites_ok CallSites = true -> Inv s -> Inv (run_from s evs).
Proof. induction evs as [|e r IH]; intros s HS HI; cbn [run_from]; auto. apply IH; auto. apply step_inv; auto. Qed.

Lemma boot_inv b cyc d pay lt : Inv (boot_device b cyc d pay lt cs cc).
Proof.
  unfold boot_device.
  set (s2 := arm T_wd WATCHDOG_MS true _).
  apply devconn_start_inv.
  eapply Inv_core; [subst s2; rewrite core_arm by discriminate; reflexivity|].
  unfold Inv, init0. cbn.
  destruct consts_ok as [? ? ? ? ? [K1 [K2 [K3 [K4 K5]]]]].
  constructor; cbn; auto; try (intros; discriminate).
Qed.

(* ---------- reachable states ---------- *)
Definition reachable (s : st) : Prop :=
  exists b cyc d pay lt evs, s = run_from (boot_device b cyc d pay lt cs cc) evs.
Lemma reachable_inv s : sites_ok CallSites = true -> reachable s -> Inv s.
Proof. intros HS [b [cyc [d [pay [lt [evs ->]]]]]]. apply run_from_inv; auto. apply boot_inv. Qed.

(* ---------- C04 theorems (statements are repeated in Properties_C04.v) ---------- *)
Theorem C04_first_is_register_thm : sites_ok CallSites = true -> forall s p,
  reachable s -> srpc s = Some p -> hist p <> [] -> last (hist p) 0 = REG /\ sid p = conn s.
Proof.
  intros HS s p HR Hp Hh. pose proof (reachable_inv _ HS HR) as HI.
  destruct (i_inst _ HI p Hp) as [Hsid HP]. cbn in Hsid, HP. split; auto.
  destruct (Z.eq_dec (registered s) 0) as [R|R].
  - destruct (pi_fresh _ _ HP R) as [H0 _]. contradiction.
  - destruct (pi_first _ _ HP R) as [l [E _]]. rewrite E. apply last_last.
Qed.

Theorem C04_one_register_thm : sites_ok CallSites = true -> forall s p,
  reachable s -> srpc s = Some p ->
  (registered s = 0 -> hist p = []) /\
  (registered s <> 0 -> exists l, hist p = l ++ [REG] /\ forall c, In c l -> is_reg c = false).
Proof.
  intros HS s p HR Hp. pose proof (reachable_inv _ HS HR) as HI.
  destruct (i_inst _ HI p Hp) as [Hsid HP]. cbn in HP. split.
  - intros R. apply (pi_fresh _ _ HP R).
  - intros R. apply (pi_first _ _ HP R).
Qed.

Theorem C04_quiet_until_accepted_thm : sites_ok CallSites = true -> forall s p,
  reachable s -> srpc s = Some p ->
  (registered s = 1 <-> got_ok p = true) /\
  (got_ok p = false -> forall c, In c (hist p) -> originated c = false).
Proof.
  intros HS s p HR Hp. pose proof (reachable_inv _ HS HR) as HI.
  destruct (i_inst _ HI p Hp) as [Hsid HP]. cbn in HP. split; [apply (pi_ok _ _ HP)|].
  intros Hg. apply (pi_quiet _ _ HP). intros R. apply (pi_ok _ _ HP) in R. congruence.
Qed.

Theorem C04_clean_restart_thm : sites_ok CallSites = true -> forall s,
  cs || cc = true -> reachable s -> halted s = false -> stuck s = false -> link s = L_PENDING ->
  let s' := step s ConnCb in
  espbuf s' = [] /\ recvbuf s' = [] /\ registered s' = 0 /\ srpc s' = Some (fresh_instance (conn s + 1) (now s)) /\ conn s' = conn s + 1.
Proof.
  intros HS s Hc HR Hh Hst Hl. pose proof (reachable_inv _ HS HR) as HI.
  unfold step. set (s1 := set_evi (evi s + 1) s).
  assert (HI1 : Inv s1) by (eapply Inv_core; [|eauto]; reflexivity).
  change (halted s1) with (halted s). change (stuck s1) with (stuck s). rewrite Hh, Hst. cbn [orb env_allows].
  change (link s1) with (link s). rewrite Hl, Z.eqb_refl.
  destruct (conncb_state s1 HI1 Hl) as [_ [R [P [Cn [_ B]]]]].
  pose proof (i_cs _ HI) as F1. pose proof (i_cc _ HI) as F2. cbn in F1, F2.
  change (clrstop s1) with (clrstop s) in B. change (clrconn s1) with (clrconn s) in B.
  rewrite F1, F2 in B. destruct (B Hc) as [B1 B2]. auto.
Qed.

(* ---------- refusal: the stop timer ---------- *)
Definition pick_f (s : st) (fin : Z) (best : option tid) (i : tid) : option tid :=
  let t := get_tm i s in
  if armed t && (due t <=? fin) then
    match best with None => Some i | Some b => if better s i b then Some i else best end
  else best.
Lemma pick_eq s fin : pick s fin = fold_left (pick_f s fin) all_tids None. Proof. reflexivity. Qed.
Lemma pick_f_some s fin l : forall b, fold_left (pick_f s fin) l (Some b) <> None.
Proof.
  induction l as [|i l IH]; intros b; cbn [fold_left]; [discriminate|].
  unfold pick_f at 2. destruct (_ && _); [destruct (better s i b)|]; apply IH.
Qed.
Lemma pick_f_none s fin l : fold_left (pick_f s fin) l None = None ->
  forall i, In i l -> armed (get_tm i s) && (due (get_tm i s) <=? fin) = false.
Proof.
  induction l as [|j l IH]; intros H i Hin; [destruct Hin|].
  cbn [fold_left] in H. unfold pick_f at 2 in H.
  destruct (armed (get_tm j s) && (due (get_tm j s) <=? fin)) eqn:E.
  - exfalso. eapply pick_f_some; eauto.
  - destruct Hin as [<-|Hin]; auto.
Qed.
Lemma all_tids_complete i : In i all_tids.
Proof. destruct i; cbn; tauto. Qed.
Lemma pick_none s fin : pick s fin = None -> forall i, armed (get_tm i s) = true -> fin < due (get_tm i s).
Proof.
  intros H i Ha. rewrite pick_eq in H. pose proof (pick_f_none s fin all_tids H i (all_tids_complete i)) as E.
  rewrite Ha in E. cbn [andb] in E. apply Z.leb_gt in E. exact E.
Qed.

(* when an Adv step is over (and the model's fuel was sufficient) no armed timer is due at or before the target time *)
Lemma advance_no_due_left k : forall fin s, let s' := advance k fin s in
  halted s' = false -> stuck s' = false -> forall i, armed (get_tm i s') = true -> fin < due (get_tm i s').
Proof.
  induction k as [|k IH]; intros fin s; cbn [advance].
  - destruct (halted s) eqn:Hh; [intros H; congruence|].
    destruct (pick s fin) eqn:P.
    + intros _ H. discriminate H.
    + intros _ _ i Ha.
      assert (E : get_tm i (if now s <? fin then set_now fin s else s) = get_tm i s) by (destruct (now s <? fin); destruct i; reflexivity).
      rewrite E in *. apply (pick_none s fin P i Ha).
  - destruct (halted s) eqn:Hh; [intros H; congruence|].
    destruct (pick s fin) eqn:P.
    + apply IH.
    + intros _ _ i Ha.
      assert (E : get_tm i (if now s <? fin then set_now fin s else s) = get_tm i s) by (destruct (now s <? fin); destruct i; reflexivity).
      rewrite E in *. apply (pick_none s fin P i Ha).
Qed.

Lemma outs_wire_close x s : In x (outs s) -> In x (outs (wire_close s)).
Proof. unfold wire_close. destruct (_ || _); cbn; auto. Qed.
Lemma devconn_stop_disconnects s : In (mk O_DISCONNECT [now s] []) (outs (devconn_stop s)) /\ srpc (devconn_stop s) = None /\ started (devconn_stop s) = false.
Proof.
  unfold devconn_stop.
  set (s2 := disarm T_iter (disarm T_timer1 (set_started false (set_registered 0 s)))).
  assert (N2 : now s2 = now s) by reflexivity.
  assert (H3 : In (mk O_DISCONNECT [now s] []) (outs (sdk_disconnect s2)) /\ started (sdk_disconnect s2) = false).
  { unfold sdk_disconnect. rewrite N2. set (s1 := emit O_DISCONNECT [now s] s2).
    assert (I1 : In (mk O_DISCONNECT [now s] []) (outs s1)) by (left; reflexivity).
    assert (S1 : started s1 = false) by reflexivity.
    destruct (link s1 =? L_LIVE).
    - split; [apply outs_wire_close in I1; exact I1|]. unfold wire_close. destruct (_ || _); reflexivity.
    - destruct (link s1 =? L_PENDING); split; auto. }
  destruct H3 as [H3 S3].
  destruct (clrstop (set_srpc None (sdk_disconnect s2))); repeat split; auto.
Qed.

(* C04_refusal_stops: an SRPC instance on which a refusal / version error was dispatched at time t keeps the stop timer
   armed for t + stop delay, so that once an Adv step has passed that time the instance is gone (or was refused again later);
   the instance is ended by __stop, which calls espconn_disconnect. *)
Theorem C04_refusal_stops_thm : sites_ok CallSites = true -> forall s p t,
  reachable s -> srpc s = Some p -> refused_at p = Some t ->
  armed (t_stop s) = true /\ due (t_stop s) = t + STOP_DELAY_MS * 1000 /\
  (forall dt, 0 <= dt -> halted s = false -> stuck s = false ->
     let s' := step s (Adv dt) in halted s' = false -> stuck s' = false ->
     forall p' t', srpc s' = Some p' -> refused_at p' = Some t' -> now s + dt < t' + STOP_DELAY_MS * 1000).
Proof.
  intros HS s p t HR Hp Ht. pose proof (reachable_inv _ HS HR) as HI.
  destruct (i_stop _ HI p t Hp Ht) as [A D]. cbn in A, D. split; [exact A|]. split; [exact D|].
  intros dt Hdt Hh Hst s' Hh' Hst' p' t' Hp' Ht'.
  assert (HR' : reachable s').
  { destruct HR as [b [cyc [d [pay [lt [evs ->]]]]]]. exists b, cyc, d, pay, lt, (evs ++ [Adv dt]).
    subst s'. clear. revert evs. intros evs. generalize (boot_device b cyc d pay lt cs cc) as s0.
    induction evs as [|e r IH]; intros s0; cbn [run_from app]; auto. }
  pose proof (reachable_inv _ HS HR') as HI'.
  destruct (i_stop _ HI' p' t' Hp' Ht') as [A' D']. cbn in A', D'.
  subst s'. unfold step in *.
  set (s1 := set_evi (evi s + 1) s) in *.
  change (halted s1) with (halted s) in *. change (stuck s1) with (stuck s) in *. rewrite Hh, Hst in *. cbn [orb env_allows dev_step] in *.
  replace (dt <? 0) with false in * by (symmetry; apply Z.ltb_ge; auto).
  pose proof (advance_no_due_left (adv_fuel dt) (now s1 + dt) s1 Hh' Hst' T_stop A') as L.
  cbn [get_tm] in L. rewrite D' in L. exact L.
Qed.
(* dispatching a register result other than TRUE marks the instance as refused now, sends nothing and does not accept *)
Lemma refusal_marks_thm code tmo s p : srpc s = Some p -> code <> RESULTCODE_TRUE ->
  let s' := on_register_result code tmo s in
  exists p', srpc s' = Some p' /\ refused_at p' = Some (now s) /\ hist p' = hist p /\ got_ok p' = got_ok p /\
             registered s' = registered s /\ outs s' = outs s.
Proof.
  intros E Hc. unfold on_register_result. replace (code =? RESULTCODE_TRUE) with false by (symmetry; apply Z.eqb_neq; auto).
  unfold stop_with_delay, mark_refused. rewrite E. eexists. repeat split; reflexivity.
Qed.

End Flags.

(* ---------- the code before the proposed fix: stale bytes reach the next connection ---------- *)
(* registered device; the link stalls (espconn_sent answers INPROGRESS), a value change and the pings pile up in
   esp_send_buffer; the activity timeout reconnects (__stop, no disconnect_cb in between); Wi-Fi comes back, TCP
   connects: at the connect callback the send buffer still holds the old session's bytes. *)
Definition regok_frame (tmo : Z) : list Z := encode (SRV_REGISTER_RESULT, 1, enc32 RESULTCODE_TRUE ++ [tmo; DEVICE_PROTO_VERSION; 1]).
Definition witness_evs : list ev :=
  [Adv 300000; Wifi STATION_GOT_IP_; Adv 300000; ConnCb; Adv 500000; Recv (regok_frame 10); Adv 3000000;
   SentMode ESP_INPROGRESS; Local 0; Adv 13000000; Adv 5000000; Wifi STATION_GOT_IP_; Adv 300000; SentMode 0; ConnCb].
Definition witness_final (cs cc : bool) : st :=
  run_from (boot_device 0 0 ESP_ARG (zeros (REG_BASE_SIZE + 2 * REG_CHANNEL_SIZE)) [] cs cc) witness_evs.

Lemma C04_old_code_refuted_thm :
  let s := witness_final false false in
  conn s = 2 /\ registered s = 0 /\ 0 < len (espbuf s) /\ halted s = false /\ stuck s = false /\
  (exists p, srpc s = Some p /\ hist p = []).
Proof. vm_compute. repeat split; try congruence. eexists; split; reflexivity. Qed.

Lemma C04_witness_repaired_thm :
  espbuf (witness_final true false) = [] /\ espbuf (witness_final false true) = [] /\ conn (witness_final true false) = 2.
Proof. vm_compute. repeat split. Qed.

(* ---------- the hypotheses of the theorems are satisfiable ---------- *)
Definition ex_accepted : st :=
  run_from (boot_device 0 0 ESP_ARG (zeros (REG_BASE_SIZE + 2 * REG_CHANNEL_SIZE)) [] true false)
           [Adv 300000; Wifi STATION_GOT_IP_; Adv 300000; ConnCb; Adv 500000; Recv (regok_frame 20); Local 0; Adv 200000].
Lemma ex_accepted_ok : reachable true false ex_accepted /\
  exists p, srpc ex_accepted = Some p /\ got_ok p = true /\ hist p = [CALL_VALUE_CHANGED; CALL_SET_ACTIVITY_TIMEOUT; CALL_REGISTER_E] /\ sid p = 1.
Proof.
  split.
  - exists 0, 0, ESP_ARG, (zeros (REG_BASE_SIZE + 2 * REG_CHANNEL_SIZE)), [],
      [Adv 300000; Wifi STATION_GOT_IP_; Adv 300000; ConnCb; Adv 500000; Recv (regok_frame 20); Local 0; Adv 200000].
    unfold ex_accepted. reflexivity.
  - vm_compute. eexists; repeat split.
Qed.
Definition ex_refused : st :=
  run_from (boot_device 0 0 ESP_ARG (zeros REG_BASE_SIZE) [] true false)
           [Adv 300000; Wifi STATION_GOT_IP_; Adv 300000; ConnCb; Adv 500000;
            Recv (encode (SRV_REGISTER_RESULT, 1, enc32 5 ++ [0; DEVICE_PROTO_VERSION; 1])); Local 0; Adv 4999].
Lemma ex_refused_ok : reachable true false ex_refused /\
  exists p, srpc ex_refused = Some p /\ refused_at p = Some 1100000 /\ hist p = [CALL_REGISTER_E] /\ registered ex_refused = -1 /\
  srpc (step ex_refused (Adv 1)) = None /\ link ex_refused = L_LIVE /\ link (step ex_refused (Adv 1)) = L_CLOSING.
Proof.
  split.
  - exists 0, 0, ESP_ARG, (zeros REG_BASE_SIZE), [],
      [Adv 300000; Wifi STATION_GOT_IP_; Adv 300000; ConnCb; Adv 500000;
       Recv (encode (SRV_REGISTER_RESULT, 1, enc32 5 ++ [0; DEVICE_PROTO_VERSION; 1])); Local 0; Adv 4999].
    unfold ex_refused. reflexivity.
  - vm_compute. eexists; repeat split.
Qed.
