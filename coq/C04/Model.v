(* C04 — executable model of the device <-> server connection automaton of
   /repo/src/user/supla_esp_devconn.c (+ supla_esp_wifi.c, the state LED timer of supla_esp_gpio.c and the
   OUT half of srpc_iterate), on top of a small model of the SDK (software timers, espconn client, Wi-Fi station).

   C functions modelled (same names with the prefix supla_esp_ dropped):
     devconn_iterate, data_write(+append_buffer), data_read/recv_cb, on_remote_call_received (register result,
     version error, set-activity-timeout result, get-channel-state; every other call only refreshes
     last_response), on_register_result, stop_with_delay, __stop, start, __reconnect, reconnect_with_delay,
     connect_cb (srpc_init), disconnect_cb, resolvandconnect/dns__found (IP literal), on_wifi_status_changed,
     timer1_cb, watchdog_cb, send_channel_values_cb (no shutters: sends nothing), is_registered-guarded public
     functions (LOCAL api), wifi_station_connect/check_status, gpio_state_{disconnected,ipreceived,connected},
     srpc_async__call (rr id, 2-slot out queue), srpc_iterate (IN via the C01 model of the proto parser; OUT).
   Frames are real byte strings with all-zero payloads of the real size (content of payloads is not modelled,
   except that of server messages, which are inputs).
   Definitions only; proofs in Proofs.v. *)
From Coq Require Import List ZArith Bool.
Import ListNotations.
From V Require Import Base.U32 Base.Bytes Base.Iface Gen.ProtoConsts Gen.C04Consts C04.Keepalive.
From V Require C01.Model.
Local Open Scope Z_scope.

(* ---------- SDK software timers ---------- *)
Record timer := mktimer { armed : bool; due : Z; tseq : Z; period : Z }.
Definition timer0 : timer := mktimer false 0 0 0.
Inductive tid := T_wifi | T_timer1 | T_iter | T_wd | T_recon | T_stop | T_value | T_gpio2 | T_srv.
Definition all_tids : list tid := [T_wifi; T_timer1; T_iter; T_wd; T_recon; T_stop; T_value; T_gpio2; T_srv].

(* ---------- one SRPC instance (created by connect_cb, freed by __stop) ---------- *)
Record rpc := mkrpc {
  sid : Z;                          (* ghost: number of the connection it was created for *)
  rr_last : Z;                      (* proto next_rr_id *)
  oq : list (Z * Z * list Z);       (* out queue: (call_id, rr_id, payload), at most QUEUE_SIZE *)
  obuf : list Z;                    (* proto out buffer *)
  ibuf : C01.Model.inb;             (* proto in buffer *)
  hist : list Z;                    (* ghost: call ids accepted by srpc_async_call on this instance, newest first *)
  got_ok : bool;                    (* ghost: a register result TRUE was dispatched on this instance *)
  refused_at : option Z;            (* ghost: time of the last refusal / version error dispatched *)
  created_at : Z }.                 (* ghost *)

(* link states of the SDK model *)
Definition L_IDLE : Z := 0. Definition L_PENDING : Z := 1. Definition L_LIVE : Z := 2. Definition L_CLOSING : Z := 3.
(* supla_last_state *)
Definition G_DISCONNECTED : Z := 1. Definition G_IPRECEIVED : Z := 2. Definition G_CONNECTED : Z := 4.
(* output kinds *)
Definition O_WIFISTART : Z := 0. Definition O_CONNECT : Z := 1. Definition O_DISCONNECT : Z := 2. Definition O_FRESH : Z := 3.
Definition O_WIRE : Z := 4. Definition O_JUNK : Z := 5. Definition O_RESTART : Z := 6. Definition O_STATE : Z := 7. Definition O_FUEL : Z := 8.
Definition O_RX : Z := 9. Definition O_DISCD : Z := 10. Definition O_SRVRX : Z := 11.

Record st := mkst {
  now : Z;
  boot : Z;
  cycles0 : Z;
  lat : list Z;
  lati : Z;
  fired : Z;
  seqc : Z;
  t_wifi : timer;
  t_timer1 : timer;
  t_iter : timer;
  t_wd : timer;
  t_recon : timer;
  t_stop : timer;
  t_value : timer;
  t_gpio2 : timer;
  t_srv : timer;
  wstatus : Z;
  wlast : Z;
  link : Z;
  liveres : Z;
  deadres : Z;
  script : list Z;
  started : bool;
  registered : Z;
  srpc : option rpc;
  espbuf : list Z;
  recvbuf : list Z;
  lastresp : Z;
  lastsent : Z;
  nextwd : Z;
  actto : Z;
  resolving : bool;
  gstate : Z;
  conn : Z;
  wbuf : list Z;
  stalled : bool;
  outs : list wire;
  halted : bool;
  stuck : bool;
  regpay : list Z;
  clrstop : bool;
  clrconn : bool;
  evi : Z;
  srvdelay : Z;
  srvq : list Z;
  nresp : Z;       (* ghost: number of calls received (handler invocations) *)
  kabs : kst;      (* ghost: state of the abstract keep-alive semantics, run in lockstep (C05) *)
  kenv : bool;     (* ghost: the EXTERNAL hypotheses kext_ok held for every abstract event of the current episode, which began
                      with a frame sent at most T-3 s earlier (H_fresh) *)
  ktmo : Z         (* ghost: timeout of the current episode *)
}.

Definition set_now (v : Z) (s : st) : st := mkst v (boot s) (cycles0 s) (lat s) (lati s) (fired s) (seqc s) (t_wifi s) (t_timer1 s) (t_iter s) (t_wd s) (t_recon s) (t_stop s) (t_value s) (t_gpio2 s) (t_srv s) (wstatus s) (wlast s) (link s) (liveres s) (deadres s) (script s) (started s) (registered s) (srpc s) (espbuf s) (recvbuf s) (lastresp s) (lastsent s) (nextwd s) (actto s) (resolving s) (gstate s) (conn s) (wbuf s) (stalled s) (outs s) (halted s) (stuck s) (regpay s) (clrstop s) (clrconn s) (evi s) (srvdelay s) (srvq s) (nresp s) (kabs s) (kenv s) (ktmo s).
Definition set_boot (v : Z) (s : st) : st := mkst (now s) v (cycles0 s) (lat s) (lati s) (fired s) (seqc s) (t_wifi s) (t_timer1 s) (t_iter s) (t_wd s) (t_recon s) (t_stop s) (t_value s) (t_gpio2 s) (t_srv s) (wstatus s) (wlast s) (link s) (liveres s) (deadres s) (script s) (started s) (registered s) (srpc s) (espbuf s) (recvbuf s) (lastresp s) (lastsent s) (nextwd s) (actto s) (resolving s) (gstate s) (conn s) (wbuf s) (stalled s) (outs s) (halted s) (stuck s) (regpay s) (clrstop s) (clrconn s) (evi s) (srvdelay s) (srvq s) (nresp s) (kabs s) (kenv s) (ktmo s).
Definition set_cycles0 (v : Z) (s : st) : st := mkst (now s) (boot s) v (lat s) (lati s) (fired s) (seqc s) (t_wifi s) (t_timer1 s) (t_iter s) (t_wd s) (t_recon s) (t_stop s) (t_value s) (t_gpio2 s) (t_srv s) (wstatus s) (wlast s) (link s) (liveres s) (deadres s) (script s) (started s) (registered s) (srpc s) (espbuf s) (recvbuf s) (lastresp s) (lastsent s) (nextwd s) (actto s) (resolving s) (gstate s) (conn s) (wbuf s) (stalled s) (outs s) (halted s) (stuck s) (regpay s) (clrstop s) (clrconn s) (evi s) (srvdelay s) (srvq s) (nresp s) (kabs s) (kenv s) (ktmo s).
Definition set_lat (v : list Z) (s : st) : st := mkst (now s) (boot s) (cycles0 s) v (lati s) (fired s) (seqc s) (t_wifi s) (t_timer1 s) (t_iter s) (t_wd s) (t_recon s) (t_stop s) (t_value s) (t_gpio2 s) (t_srv s) (wstatus s) (wlast s) (link s) (liveres s) (deadres s) (script s) (started s) (registered s) (srpc s) (espbuf s) (recvbuf s) (lastresp s) (lastsent s) (nextwd s) (actto s) (resolving s) (gstate s) (conn s) (wbuf s) (stalled s) (outs s) (halted s) (stuck s) (regpay s) (clrstop s) (clrconn s) (evi s) (srvdelay s) (srvq s) (nresp s) (kabs s) (kenv s) (ktmo s).
Definition set_lati (v : Z) (s : st) : st := mkst (now s) (boot s) (cycles0 s) (lat s) v (fired s) (seqc s) (t_wifi s) (t_timer1 s) (t_iter s) (t_wd s) (t_recon s) (t_stop s) (t_value s) (t_gpio2 s) (t_srv s) (wstatus s) (wlast s) (link s) (liveres s) (deadres s) (script s) (started s) (registered s) (srpc s) (espbuf s) (recvbuf s) (lastresp s) (lastsent s) (nextwd s) (actto s) (resolving s) (gstate s) (conn s) (wbuf s) (stalled s) (outs s) (halted s) (stuck s) (regpay s) (clrstop s) (clrconn s) (evi s) (srvdelay s) (srvq s) (nresp s) (kabs s) (kenv s) (ktmo s).
Definition set_fired (v : Z) (s : st) : st := mkst (now s) (boot s) (cycles0 s) (lat s) (lati s) v (seqc s) (t_wifi s) (t_timer1 s) (t_iter s) (t_wd s) (t_recon s) (t_stop s) (t_value s) (t_gpio2 s) (t_srv s) (wstatus s) (wlast s) (link s) (liveres s) (deadres s) (script s) (started s) (registered s) (srpc s) (espbuf s) (recvbuf s) (lastresp s) (lastsent s) (nextwd s) (actto s) (resolving s) (gstate s) (conn s) (wbuf s) (stalled s) (outs s) (halted s) (stuck s) (regpay s) (clrstop s) (clrconn s) (evi s) (srvdelay s) (srvq s) (nresp s) (kabs s) (kenv s) (ktmo s).
Definition set_seqc (v : Z) (s : st) : st := mkst (now s) (boot s) (cycles0 s) (lat s) (lati s) (fired s) v (t_wifi s) (t_timer1 s) (t_iter s) (t_wd s) (t_recon s) (t_stop s) (t_value s) (t_gpio2 s) (t_srv s) (wstatus s) (wlast s) (link s) (liveres s) (deadres s) (script s) (started s) (registered s) (srpc s) (espbuf s) (recvbuf s) (lastresp s) (lastsent s) (nextwd s) (actto s) (resolving s) (gstate s) (conn s) (wbuf s) (stalled s) (outs s) (halted s) (stuck s) (regpay s) (clrstop s) (clrconn s) (evi s) (srvdelay s) (srvq s) (nresp s) (kabs s) (kenv s) (ktmo s).
Definition set_t_wifi (v : timer) (s : st) : st := mkst (now s) (boot s) (cycles0 s) (lat s) (lati s) (fired s) (seqc s) v (t_timer1 s) (t_iter s) (t_wd s) (t_recon s) (t_stop s) (t_value s) (t_gpio2 s) (t_srv s) (wstatus s) (wlast s) (link s) (liveres s) (deadres s) (script s) (started s) (registered s) (srpc s) (espbuf s) (recvbuf s) (lastresp s) (lastsent s) (nextwd s) (actto s) (resolving s) (gstate s) (conn s) (wbuf s) (stalled s) (outs s) (halted s) (stuck s) (regpay s) (clrstop s) (clrconn s) (evi s) (srvdelay s) (srvq s) (nresp s) (kabs s) (kenv s) (ktmo s).
Definition set_t_timer1 (v : timer) (s : st) : st := mkst (now s) (boot s) (cycles0 s) (lat s) (lati s) (fired s) (seqc s) (t_wifi s) v (t_iter s) (t_wd s) (t_recon s) (t_stop s) (t_value s) (t_gpio2 s) (t_srv s) (wstatus s) (wlast s) (link s) (liveres s) (deadres s) (script s) (started s) (registered s) (srpc s) (espbuf s) (recvbuf s) (lastresp s) (lastsent s) (nextwd s) (actto s) (resolving s) (gstate s) (conn s) (wbuf s) (stalled s) (outs s) (halted s) (stuck s) (regpay s) (clrstop s) (clrconn s) (evi s) (srvdelay s) (srvq s) (nresp s) (kabs s) (kenv s) (ktmo s).
Definition set_t_iter (v : timer) (s : st) : st := mkst (now s) (boot s) (cycles0 s) (lat s) (lati s) (fired s) (seqc s) (t_wifi s) (t_timer1 s) v (t_wd s) (t_recon s) (t_stop s) (t_value s) (t_gpio2 s) (t_srv s) (wstatus s) (wlast s) (link s) (liveres s) (deadres s) (script s) (started s) (registered s) (srpc s) (espbuf s) (recvbuf s) (lastresp s) (lastsent s) (nextwd s) (actto s) (resolving s) (gstate s) (conn s) (wbuf s) (stalled s) (outs s) (halted s) (stuck s) (regpay s) (clrstop s) (clrconn s) (evi s) (srvdelay s) (srvq s) (nresp s) (kabs s) (kenv s) (ktmo s).
Definition set_t_wd (v : timer) (s : st) : st := mkst (now s) (boot s) (cycles0 s) (lat s) (lati s) (fired s) (seqc s) (t_wifi s) (t_timer1 s) (t_iter s) v (t_recon s) (t_stop s) (t_value s) (t_gpio2 s) (t_srv s) (wstatus s) (wlast s) (link s) (liveres s) (deadres s) (script s) (started s) (registered s) (srpc s) (espbuf s) (recvbuf s) (lastresp s) (lastsent s) (nextwd s) (actto s) (resolving s) (gstate s) (conn s) (wbuf s) (stalled s) (outs s) (halted s) (stuck s) (regpay s) (clrstop s) (clrconn s) (evi s) (srvdelay s) (srvq s) (nresp s) (kabs s) (kenv s) (ktmo s).
Definition set_t_recon (v : timer) (s : st) : st := mkst (now s) (boot s) (cycles0 s) (lat s) (lati s) (fired s) (seqc s) (t_wifi s) (t_timer1 s) (t_iter s) (t_wd s) v (t_stop s) (t_value s) (t_gpio2 s) (t_srv s) (wstatus s) (wlast s) (link s) (liveres s) (deadres s) (script s) (started s) (registered s) (srpc s) (espbuf s) (recvbuf s) (lastresp s) (lastsent s) (nextwd s) (actto s) (resolving s) (gstate s) (conn s) (wbuf s) (stalled s) (outs s) (halted s) (stuck s) (regpay s) (clrstop s) (clrconn s) (evi s) (srvdelay s) (srvq s) (nresp s) (kabs s) (kenv s) (ktmo s).
Definition set_t_stop (v : timer) (s : st) : st := mkst (now s) (boot s) (cycles0 s) (lat s) (lati s) (fired s) (seqc s) (t_wifi s) (t_timer1 s) (t_iter s) (t_wd s) (t_recon s) v (t_value s) (t_gpio2 s) (t_srv s) (wstatus s) (wlast s) (link s) (liveres s) (deadres s) (script s) (started s) (registered s) (srpc s) (espbuf s) (recvbuf s) (lastresp s) (lastsent s) (nextwd s) (actto s) (resolving s) (gstate s) (conn s) (wbuf s) (stalled s) (outs s) (halted s) (stuck s) (regpay s) (clrstop s) (clrconn s) (evi s) (srvdelay s) (srvq s) (nresp s) (kabs s) (kenv s) (ktmo s).
Definition set_t_value (v : timer) (s : st) : st := mkst (now s) (boot s) (cycles0 s) (lat s) (lati s) (fired s) (seqc s) (t_wifi s) (t_timer1 s) (t_iter s) (t_wd s) (t_recon s) (t_stop s) v (t_gpio2 s) (t_srv s) (wstatus s) (wlast s) (link s) (liveres s) (deadres s) (script s) (started s) (registered s) (srpc s) (espbuf s) (recvbuf s) (lastresp s) (lastsent s) (nextwd s) (actto s) (resolving s) (gstate s) (conn s) (wbuf s) (stalled s) (outs s) (halted s) (stuck s) (regpay s) (clrstop s) (clrconn s) (evi s) (srvdelay s) (srvq s) (nresp s) (kabs s) (kenv s) (ktmo s).
Definition set_t_gpio2 (v : timer) (s : st) : st := mkst (now s) (boot s) (cycles0 s) (lat s) (lati s) (fired s) (seqc s) (t_wifi s) (t_timer1 s) (t_iter s) (t_wd s) (t_recon s) (t_stop s) (t_value s) v (t_srv s) (wstatus s) (wlast s) (link s) (liveres s) (deadres s) (script s) (started s) (registered s) (srpc s) (espbuf s) (recvbuf s) (lastresp s) (lastsent s) (nextwd s) (actto s) (resolving s) (gstate s) (conn s) (wbuf s) (stalled s) (outs s) (halted s) (stuck s) (regpay s) (clrstop s) (clrconn s) (evi s) (srvdelay s) (srvq s) (nresp s) (kabs s) (kenv s) (ktmo s).
Definition set_t_srv (v : timer) (s : st) : st := mkst (now s) (boot s) (cycles0 s) (lat s) (lati s) (fired s) (seqc s) (t_wifi s) (t_timer1 s) (t_iter s) (t_wd s) (t_recon s) (t_stop s) (t_value s) (t_gpio2 s) v (wstatus s) (wlast s) (link s) (liveres s) (deadres s) (script s) (started s) (registered s) (srpc s) (espbuf s) (recvbuf s) (lastresp s) (lastsent s) (nextwd s) (actto s) (resolving s) (gstate s) (conn s) (wbuf s) (stalled s) (outs s) (halted s) (stuck s) (regpay s) (clrstop s) (clrconn s) (evi s) (srvdelay s) (srvq s) (nresp s) (kabs s) (kenv s) (ktmo s).
Definition set_wstatus (v : Z) (s : st) : st := mkst (now s) (boot s) (cycles0 s) (lat s) (lati s) (fired s) (seqc s) (t_wifi s) (t_timer1 s) (t_iter s) (t_wd s) (t_recon s) (t_stop s) (t_value s) (t_gpio2 s) (t_srv s) v (wlast s) (link s) (liveres s) (deadres s) (script s) (started s) (registered s) (srpc s) (espbuf s) (recvbuf s) (lastresp s) (lastsent s) (nextwd s) (actto s) (resolving s) (gstate s) (conn s) (wbuf s) (stalled s) (outs s) (halted s) (stuck s) (regpay s) (clrstop s) (clrconn s) (evi s) (srvdelay s) (srvq s) (nresp s) (kabs s) (kenv s) (ktmo s).
Definition set_wlast (v : Z) (s : st) : st := mkst (now s) (boot s) (cycles0 s) (lat s) (lati s) (fired s) (seqc s) (t_wifi s) (t_timer1 s) (t_iter s) (t_wd s) (t_recon s) (t_stop s) (t_value s) (t_gpio2 s) (t_srv s) (wstatus s) v (link s) (liveres s) (deadres s) (script s) (started s) (registered s) (srpc s) (espbuf s) (recvbuf s) (lastresp s) (lastsent s) (nextwd s) (actto s) (resolving s) (gstate s) (conn s) (wbuf s) (stalled s) (outs s) (halted s) (stuck s) (regpay s) (clrstop s) (clrconn s) (evi s) (srvdelay s) (srvq s) (nresp s) (kabs s) (kenv s) (ktmo s).
Definition set_link (v : Z) (s : st) : st := mkst (now s) (boot s) (cycles0 s) (lat s) (lati s) (fired s) (seqc s) (t_wifi s) (t_timer1 s) (t_iter s) (t_wd s) (t_recon s) (t_stop s) (t_value s) (t_gpio2 s) (t_srv s) (wstatus s) (wlast s) v (liveres s) (deadres s) (script s) (started s) (registered s) (srpc s) (espbuf s) (recvbuf s) (lastresp s) (lastsent s) (nextwd s) (actto s) (resolving s) (gstate s) (conn s) (wbuf s) (stalled s) (outs s) (halted s) (stuck s) (regpay s) (clrstop s) (clrconn s) (evi s) (srvdelay s) (srvq s) (nresp s) (kabs s) (kenv s) (ktmo s).
Definition set_liveres (v : Z) (s : st) : st := mkst (now s) (boot s) (cycles0 s) (lat s) (lati s) (fired s) (seqc s) (t_wifi s) (t_timer1 s) (t_iter s) (t_wd s) (t_recon s) (t_stop s) (t_value s) (t_gpio2 s) (t_srv s) (wstatus s) (wlast s) (link s) v (deadres s) (script s) (started s) (registered s) (srpc s) (espbuf s) (recvbuf s) (lastresp s) (lastsent s) (nextwd s) (actto s) (resolving s) (gstate s) (conn s) (wbuf s) (stalled s) (outs s) (halted s) (stuck s) (regpay s) (clrstop s) (clrconn s) (evi s) (srvdelay s) (srvq s) (nresp s) (kabs s) (kenv s) (ktmo s).
Definition set_deadres (v : Z) (s : st) : st := mkst (now s) (boot s) (cycles0 s) (lat s) (lati s) (fired s) (seqc s) (t_wifi s) (t_timer1 s) (t_iter s) (t_wd s) (t_recon s) (t_stop s) (t_value s) (t_gpio2 s) (t_srv s) (wstatus s) (wlast s) (link s) (liveres s) v (script s) (started s) (registered s) (srpc s) (espbuf s) (recvbuf s) (lastresp s) (lastsent s) (nextwd s) (actto s) (resolving s) (gstate s) (conn s) (wbuf s) (stalled s) (outs s) (halted s) (stuck s) (regpay s) (clrstop s) (clrconn s) (evi s) (srvdelay s) (srvq s) (nresp s) (kabs s) (kenv s) (ktmo s).
Definition set_script (v : list Z) (s : st) : st := mkst (now s) (boot s) (cycles0 s) (lat s) (lati s) (fired s) (seqc s) (t_wifi s) (t_timer1 s) (t_iter s) (t_wd s) (t_recon s) (t_stop s) (t_value s) (t_gpio2 s) (t_srv s) (wstatus s) (wlast s) (link s) (liveres s) (deadres s) v (started s) (registered s) (srpc s) (espbuf s) (recvbuf s) (lastresp s) (lastsent s) (nextwd s) (actto s) (resolving s) (gstate s) (conn s) (wbuf s) (stalled s) (outs s) (halted s) (stuck s) (regpay s) (clrstop s) (clrconn s) (evi s) (srvdelay s) (srvq s) (nresp s) (kabs s) (kenv s) (ktmo s).
Definition set_started (v : bool) (s : st) : st := mkst (now s) (boot s) (cycles0 s) (lat s) (lati s) (fired s) (seqc s) (t_wifi s) (t_timer1 s) (t_iter s) (t_wd s) (t_recon s) (t_stop s) (t_value s) (t_gpio2 s) (t_srv s) (wstatus s) (wlast s) (link s) (liveres s) (deadres s) (script s) v (registered s) (srpc s) (espbuf s) (recvbuf s) (lastresp s) (lastsent s) (nextwd s) (actto s) (resolving s) (gstate s) (conn s) (wbuf s) (stalled s) (outs s) (halted s) (stuck s) (regpay s) (clrstop s) (clrconn s) (evi s) (srvdelay s) (srvq s) (nresp s) (kabs s) (kenv s) (ktmo s).
Definition set_registered (v : Z) (s : st) : st := mkst (now s) (boot s) (cycles0 s) (lat s) (lati s) (fired s) (seqc s) (t_wifi s) (t_timer1 s) (t_iter s) (t_wd s) (t_recon s) (t_stop s) (t_value s) (t_gpio2 s) (t_srv s) (wstatus s) (wlast s) (link s) (liveres s) (deadres s) (script s) (started s) v (srpc s) (espbuf s) (recvbuf s) (lastresp s) (lastsent s) (nextwd s) (actto s) (resolving s) (gstate s) (conn s) (wbuf s) (stalled s) (outs s) (halted s) (stuck s) (regpay s) (clrstop s) (clrconn s) (evi s) (srvdelay s) (srvq s) (nresp s) (kabs s) (kenv s) (ktmo s).
Definition set_srpc (v : option rpc) (s : st) : st := mkst (now s) (boot s) (cycles0 s) (lat s) (lati s) (fired s) (seqc s) (t_wifi s) (t_timer1 s) (t_iter s) (t_wd s) (t_recon s) (t_stop s) (t_value s) (t_gpio2 s) (t_srv s) (wstatus s) (wlast s) (link s) (liveres s) (deadres s) (script s) (started s) (registered s) v (espbuf s) (recvbuf s) (lastresp s) (lastsent s) (nextwd s) (actto s) (resolving s) (gstate s) (conn s) (wbuf s) (stalled s) (outs s) (halted s) (stuck s) (regpay s) (clrstop s) (clrconn s) (evi s) (srvdelay s) (srvq s) (nresp s) (kabs s) (kenv s) (ktmo s).
Definition set_espbuf (v : list Z) (s : st) : st := mkst (now s) (boot s) (cycles0 s) (lat s) (lati s) (fired s) (seqc s) (t_wifi s) (t_timer1 s) (t_iter s) (t_wd s) (t_recon s) (t_stop s) (t_value s) (t_gpio2 s) (t_srv s) (wstatus s) (wlast s) (link s) (liveres s) (deadres s) (script s) (started s) (registered s) (srpc s) v (recvbuf s) (lastresp s) (lastsent s) (nextwd s) (actto s) (resolving s) (gstate s) (conn s) (wbuf s) (stalled s) (outs s) (halted s) (stuck s) (regpay s) (clrstop s) (clrconn s) (evi s) (srvdelay s) (srvq s) (nresp s) (kabs s) (kenv s) (ktmo s).
Definition set_recvbuf (v : list Z) (s : st) : st := mkst (now s) (boot s) (cycles0 s) (lat s) (lati s) (fired s) (seqc s) (t_wifi s) (t_timer1 s) (t_iter s) (t_wd s) (t_recon s) (t_stop s) (t_value s) (t_gpio2 s) (t_srv s) (wstatus s) (wlast s) (link s) (liveres s) (deadres s) (script s) (started s) (registered s) (srpc s) (espbuf s) v (lastresp s) (lastsent s) (nextwd s) (actto s) (resolving s) (gstate s) (conn s) (wbuf s) (stalled s) (outs s) (halted s) (stuck s) (regpay s) (clrstop s) (clrconn s) (evi s) (srvdelay s) (srvq s) (nresp s) (kabs s) (kenv s) (ktmo s).
Definition set_lastresp (v : Z) (s : st) : st := mkst (now s) (boot s) (cycles0 s) (lat s) (lati s) (fired s) (seqc s) (t_wifi s) (t_timer1 s) (t_iter s) (t_wd s) (t_recon s) (t_stop s) (t_value s) (t_gpio2 s) (t_srv s) (wstatus s) (wlast s) (link s) (liveres s) (deadres s) (script s) (started s) (registered s) (srpc s) (espbuf s) (recvbuf s) v (lastsent s) (nextwd s) (actto s) (resolving s) (gstate s) (conn s) (wbuf s) (stalled s) (outs s) (halted s) (stuck s) (regpay s) (clrstop s) (clrconn s) (evi s) (srvdelay s) (srvq s) (nresp s) (kabs s) (kenv s) (ktmo s).
Definition set_lastsent (v : Z) (s : st) : st := mkst (now s) (boot s) (cycles0 s) (lat s) (lati s) (fired s) (seqc s) (t_wifi s) (t_timer1 s) (t_iter s) (t_wd s) (t_recon s) (t_stop s) (t_value s) (t_gpio2 s) (t_srv s) (wstatus s) (wlast s) (link s) (liveres s) (deadres s) (script s) (started s) (registered s) (srpc s) (espbuf s) (recvbuf s) (lastresp s) v (nextwd s) (actto s) (resolving s) (gstate s) (conn s) (wbuf s) (stalled s) (outs s) (halted s) (stuck s) (regpay s) (clrstop s) (clrconn s) (evi s) (srvdelay s) (srvq s) (nresp s) (kabs s) (kenv s) (ktmo s).
Definition set_nextwd (v : Z) (s : st) : st := mkst (now s) (boot s) (cycles0 s) (lat s) (lati s) (fired s) (seqc s) (t_wifi s) (t_timer1 s) (t_iter s) (t_wd s) (t_recon s) (t_stop s) (t_value s) (t_gpio2 s) (t_srv s) (wstatus s) (wlast s) (link s) (liveres s) (deadres s) (script s) (started s) (registered s) (srpc s) (espbuf s) (recvbuf s) (lastresp s) (lastsent s) v (actto s) (resolving s) (gstate s) (conn s) (wbuf s) (stalled s) (outs s) (halted s) (stuck s) (regpay s) (clrstop s) (clrconn s) (evi s) (srvdelay s) (srvq s) (nresp s) (kabs s) (kenv s) (ktmo s).
Definition set_actto (v : Z) (s : st) : st := mkst (now s) (boot s) (cycles0 s) (lat s) (lati s) (fired s) (seqc s) (t_wifi s) (t_timer1 s) (t_iter s) (t_wd s) (t_recon s) (t_stop s) (t_value s) (t_gpio2 s) (t_srv s) (wstatus s) (wlast s) (link s) (liveres s) (deadres s) (script s) (started s) (registered s) (srpc s) (espbuf s) (recvbuf s) (lastresp s) (lastsent s) (nextwd s) v (resolving s) (gstate s) (conn s) (wbuf s) (stalled s) (outs s) (halted s) (stuck s) (regpay s) (clrstop s) (clrconn s) (evi s) (srvdelay s) (srvq s) (nresp s) (kabs s) (kenv s) (ktmo s).
Definition set_resolving (v : bool) (s : st) : st := mkst (now s) (boot s) (cycles0 s) (lat s) (lati s) (fired s) (seqc s) (t_wifi s) (t_timer1 s) (t_iter s) (t_wd s) (t_recon s) (t_stop s) (t_value s) (t_gpio2 s) (t_srv s) (wstatus s) (wlast s) (link s) (liveres s) (deadres s) (script s) (started s) (registered s) (srpc s) (espbuf s) (recvbuf s) (lastresp s) (lastsent s) (nextwd s) (actto s) v (gstate s) (conn s) (wbuf s) (stalled s) (outs s) (halted s) (stuck s) (regpay s) (clrstop s) (clrconn s) (evi s) (srvdelay s) (srvq s) (nresp s) (kabs s) (kenv s) (ktmo s).
Definition set_gstate (v : Z) (s : st) : st := mkst (now s) (boot s) (cycles0 s) (lat s) (lati s) (fired s) (seqc s) (t_wifi s) (t_timer1 s) (t_iter s) (t_wd s) (t_recon s) (t_stop s) (t_value s) (t_gpio2 s) (t_srv s) (wstatus s) (wlast s) (link s) (liveres s) (deadres s) (script s) (started s) (registered s) (srpc s) (espbuf s) (recvbuf s) (lastresp s) (lastsent s) (nextwd s) (actto s) (resolving s) v (conn s) (wbuf s) (stalled s) (outs s) (halted s) (stuck s) (regpay s) (clrstop s) (clrconn s) (evi s) (srvdelay s) (srvq s) (nresp s) (kabs s) (kenv s) (ktmo s).
Definition set_conn (v : Z) (s : st) : st := mkst (now s) (boot s) (cycles0 s) (lat s) (lati s) (fired s) (seqc s) (t_wifi s) (t_timer1 s) (t_iter s) (t_wd s) (t_recon s) (t_stop s) (t_value s) (t_gpio2 s) (t_srv s) (wstatus s) (wlast s) (link s) (liveres s) (deadres s) (script s) (started s) (registered s) (srpc s) (espbuf s) (recvbuf s) (lastresp s) (lastsent s) (nextwd s) (actto s) (resolving s) (gstate s) v (wbuf s) (stalled s) (outs s) (halted s) (stuck s) (regpay s) (clrstop s) (clrconn s) (evi s) (srvdelay s) (srvq s) (nresp s) (kabs s) (kenv s) (ktmo s).
Definition set_wbuf (v : list Z) (s : st) : st := mkst (now s) (boot s) (cycles0 s) (lat s) (lati s) (fired s) (seqc s) (t_wifi s) (t_timer1 s) (t_iter s) (t_wd s) (t_recon s) (t_stop s) (t_value s) (t_gpio2 s) (t_srv s) (wstatus s) (wlast s) (link s) (liveres s) (deadres s) (script s) (started s) (registered s) (srpc s) (espbuf s) (recvbuf s) (lastresp s) (lastsent s) (nextwd s) (actto s) (resolving s) (gstate s) (conn s) v (stalled s) (outs s) (halted s) (stuck s) (regpay s) (clrstop s) (clrconn s) (evi s) (srvdelay s) (srvq s) (nresp s) (kabs s) (kenv s) (ktmo s).
Definition set_stalled (v : bool) (s : st) : st := mkst (now s) (boot s) (cycles0 s) (lat s) (lati s) (fired s) (seqc s) (t_wifi s) (t_timer1 s) (t_iter s) (t_wd s) (t_recon s) (t_stop s) (t_value s) (t_gpio2 s) (t_srv s) (wstatus s) (wlast s) (link s) (liveres s) (deadres s) (script s) (started s) (registered s) (srpc s) (espbuf s) (recvbuf s) (lastresp s) (lastsent s) (nextwd s) (actto s) (resolving s) (gstate s) (conn s) (wbuf s) v (outs s) (halted s) (stuck s) (regpay s) (clrstop s) (clrconn s) (evi s) (srvdelay s) (srvq s) (nresp s) (kabs s) (kenv s) (ktmo s).
Definition set_outs (v : list wire) (s : st) : st := mkst (now s) (boot s) (cycles0 s) (lat s) (lati s) (fired s) (seqc s) (t_wifi s) (t_timer1 s) (t_iter s) (t_wd s) (t_recon s) (t_stop s) (t_value s) (t_gpio2 s) (t_srv s) (wstatus s) (wlast s) (link s) (liveres s) (deadres s) (script s) (started s) (registered s) (srpc s) (espbuf s) (recvbuf s) (lastresp s) (lastsent s) (nextwd s) (actto s) (resolving s) (gstate s) (conn s) (wbuf s) (stalled s) v (halted s) (stuck s) (regpay s) (clrstop s) (clrconn s) (evi s) (srvdelay s) (srvq s) (nresp s) (kabs s) (kenv s) (ktmo s).
Definition set_halted (v : bool) (s : st) : st := mkst (now s) (boot s) (cycles0 s) (lat s) (lati s) (fired s) (seqc s) (t_wifi s) (t_timer1 s) (t_iter s) (t_wd s) (t_recon s) (t_stop s) (t_value s) (t_gpio2 s) (t_srv s) (wstatus s) (wlast s) (link s) (liveres s) (deadres s) (script s) (started s) (registered s) (srpc s) (espbuf s) (recvbuf s) (lastresp s) (lastsent s) (nextwd s) (actto s) (resolving s) (gstate s) (conn s) (wbuf s) (stalled s) (outs s) v (stuck s) (regpay s) (clrstop s) (clrconn s) (evi s) (srvdelay s) (srvq s) (nresp s) (kabs s) (kenv s) (ktmo s).
Definition set_stuck (v : bool) (s : st) : st := mkst (now s) (boot s) (cycles0 s) (lat s) (lati s) (fired s) (seqc s) (t_wifi s) (t_timer1 s) (t_iter s) (t_wd s) (t_recon s) (t_stop s) (t_value s) (t_gpio2 s) (t_srv s) (wstatus s) (wlast s) (link s) (liveres s) (deadres s) (script s) (started s) (registered s) (srpc s) (espbuf s) (recvbuf s) (lastresp s) (lastsent s) (nextwd s) (actto s) (resolving s) (gstate s) (conn s) (wbuf s) (stalled s) (outs s) (halted s) v (regpay s) (clrstop s) (clrconn s) (evi s) (srvdelay s) (srvq s) (nresp s) (kabs s) (kenv s) (ktmo s).
Definition set_regpay (v : list Z) (s : st) : st := mkst (now s) (boot s) (cycles0 s) (lat s) (lati s) (fired s) (seqc s) (t_wifi s) (t_timer1 s) (t_iter s) (t_wd s) (t_recon s) (t_stop s) (t_value s) (t_gpio2 s) (t_srv s) (wstatus s) (wlast s) (link s) (liveres s) (deadres s) (script s) (started s) (registered s) (srpc s) (espbuf s) (recvbuf s) (lastresp s) (lastsent s) (nextwd s) (actto s) (resolving s) (gstate s) (conn s) (wbuf s) (stalled s) (outs s) (halted s) (stuck s) v (clrstop s) (clrconn s) (evi s) (srvdelay s) (srvq s) (nresp s) (kabs s) (kenv s) (ktmo s).
Definition set_clrstop (v : bool) (s : st) : st := mkst (now s) (boot s) (cycles0 s) (lat s) (lati s) (fired s) (seqc s) (t_wifi s) (t_timer1 s) (t_iter s) (t_wd s) (t_recon s) (t_stop s) (t_value s) (t_gpio2 s) (t_srv s) (wstatus s) (wlast s) (link s) (liveres s) (deadres s) (script s) (started s) (registered s) (srpc s) (espbuf s) (recvbuf s) (lastresp s) (lastsent s) (nextwd s) (actto s) (resolving s) (gstate s) (conn s) (wbuf s) (stalled s) (outs s) (halted s) (stuck s) (regpay s) v (clrconn s) (evi s) (srvdelay s) (srvq s) (nresp s) (kabs s) (kenv s) (ktmo s).
Definition set_clrconn (v : bool) (s : st) : st := mkst (now s) (boot s) (cycles0 s) (lat s) (lati s) (fired s) (seqc s) (t_wifi s) (t_timer1 s) (t_iter s) (t_wd s) (t_recon s) (t_stop s) (t_value s) (t_gpio2 s) (t_srv s) (wstatus s) (wlast s) (link s) (liveres s) (deadres s) (script s) (started s) (registered s) (srpc s) (espbuf s) (recvbuf s) (lastresp s) (lastsent s) (nextwd s) (actto s) (resolving s) (gstate s) (conn s) (wbuf s) (stalled s) (outs s) (halted s) (stuck s) (regpay s) (clrstop s) v (evi s) (srvdelay s) (srvq s) (nresp s) (kabs s) (kenv s) (ktmo s).
Definition set_evi (v : Z) (s : st) : st := mkst (now s) (boot s) (cycles0 s) (lat s) (lati s) (fired s) (seqc s) (t_wifi s) (t_timer1 s) (t_iter s) (t_wd s) (t_recon s) (t_stop s) (t_value s) (t_gpio2 s) (t_srv s) (wstatus s) (wlast s) (link s) (liveres s) (deadres s) (script s) (started s) (registered s) (srpc s) (espbuf s) (recvbuf s) (lastresp s) (lastsent s) (nextwd s) (actto s) (resolving s) (gstate s) (conn s) (wbuf s) (stalled s) (outs s) (halted s) (stuck s) (regpay s) (clrstop s) (clrconn s) v (srvdelay s) (srvq s) (nresp s) (kabs s) (kenv s) (ktmo s).
Definition set_srvdelay (v : Z) (s : st) : st := mkst (now s) (boot s) (cycles0 s) (lat s) (lati s) (fired s) (seqc s) (t_wifi s) (t_timer1 s) (t_iter s) (t_wd s) (t_recon s) (t_stop s) (t_value s) (t_gpio2 s) (t_srv s) (wstatus s) (wlast s) (link s) (liveres s) (deadres s) (script s) (started s) (registered s) (srpc s) (espbuf s) (recvbuf s) (lastresp s) (lastsent s) (nextwd s) (actto s) (resolving s) (gstate s) (conn s) (wbuf s) (stalled s) (outs s) (halted s) (stuck s) (regpay s) (clrstop s) (clrconn s) (evi s) v (srvq s) (nresp s) (kabs s) (kenv s) (ktmo s).
Definition set_srvq (v : list Z) (s : st) : st := mkst (now s) (boot s) (cycles0 s) (lat s) (lati s) (fired s) (seqc s) (t_wifi s) (t_timer1 s) (t_iter s) (t_wd s) (t_recon s) (t_stop s) (t_value s) (t_gpio2 s) (t_srv s) (wstatus s) (wlast s) (link s) (liveres s) (deadres s) (script s) (started s) (registered s) (srpc s) (espbuf s) (recvbuf s) (lastresp s) (lastsent s) (nextwd s) (actto s) (resolving s) (gstate s) (conn s) (wbuf s) (stalled s) (outs s) (halted s) (stuck s) (regpay s) (clrstop s) (clrconn s) (evi s) (srvdelay s) v (nresp s) (kabs s) (kenv s) (ktmo s).
Definition set_nresp (v : Z) (s : st) : st := mkst (now s) (boot s) (cycles0 s) (lat s) (lati s) (fired s) (seqc s) (t_wifi s) (t_timer1 s) (t_iter s) (t_wd s) (t_recon s) (t_stop s) (t_value s) (t_gpio2 s) (t_srv s) (wstatus s) (wlast s) (link s) (liveres s) (deadres s) (script s) (started s) (registered s) (srpc s) (espbuf s) (recvbuf s) (lastresp s) (lastsent s) (nextwd s) (actto s) (resolving s) (gstate s) (conn s) (wbuf s) (stalled s) (outs s) (halted s) (stuck s) (regpay s) (clrstop s) (clrconn s) (evi s) (srvdelay s) (srvq s) v (kabs s) (kenv s) (ktmo s).
Definition set_kabs (v : kst) (s : st) : st := mkst (now s) (boot s) (cycles0 s) (lat s) (lati s) (fired s) (seqc s) (t_wifi s) (t_timer1 s) (t_iter s) (t_wd s) (t_recon s) (t_stop s) (t_value s) (t_gpio2 s) (t_srv s) (wstatus s) (wlast s) (link s) (liveres s) (deadres s) (script s) (started s) (registered s) (srpc s) (espbuf s) (recvbuf s) (lastresp s) (lastsent s) (nextwd s) (actto s) (resolving s) (gstate s) (conn s) (wbuf s) (stalled s) (outs s) (halted s) (stuck s) (regpay s) (clrstop s) (clrconn s) (evi s) (srvdelay s) (srvq s) (nresp s) v (kenv s) (ktmo s).
Definition set_kenv (v : bool) (s : st) : st := mkst (now s) (boot s) (cycles0 s) (lat s) (lati s) (fired s) (seqc s) (t_wifi s) (t_timer1 s) (t_iter s) (t_wd s) (t_recon s) (t_stop s) (t_value s) (t_gpio2 s) (t_srv s) (wstatus s) (wlast s) (link s) (liveres s) (deadres s) (script s) (started s) (registered s) (srpc s) (espbuf s) (recvbuf s) (lastresp s) (lastsent s) (nextwd s) (actto s) (resolving s) (gstate s) (conn s) (wbuf s) (stalled s) (outs s) (halted s) (stuck s) (regpay s) (clrstop s) (clrconn s) (evi s) (srvdelay s) (srvq s) (nresp s) (kabs s) v (ktmo s).
Definition set_ktmo (v : Z) (s : st) : st := mkst (now s) (boot s) (cycles0 s) (lat s) (lati s) (fired s) (seqc s) (t_wifi s) (t_timer1 s) (t_iter s) (t_wd s) (t_recon s) (t_stop s) (t_value s) (t_gpio2 s) (t_srv s) (wstatus s) (wlast s) (link s) (liveres s) (deadres s) (script s) (started s) (registered s) (srpc s) (espbuf s) (recvbuf s) (lastresp s) (lastsent s) (nextwd s) (actto s) (resolving s) (gstate s) (conn s) (wbuf s) (stalled s) (outs s) (halted s) (stuck s) (regpay s) (clrstop s) (clrconn s) (evi s) (srvdelay s) (srvq s) (nresp s) (kabs s) (kenv s) v.

Definition get_tm (i : tid) (s : st) : timer :=
  match i with T_wifi => t_wifi s | T_timer1 => t_timer1 s | T_iter => t_iter s | T_wd => t_wd s
             | T_recon => t_recon s | T_stop => t_stop s | T_value => t_value s | T_gpio2 => t_gpio2 s | T_srv => t_srv s end.
Definition set_tm (i : tid) (v : timer) (s : st) : st :=
  match i with T_wifi => set_t_wifi v s | T_timer1 => set_t_timer1 v s | T_iter => set_t_iter v s | T_wd => set_t_wd v s
             | T_recon => set_t_recon v s | T_stop => set_t_stop v s | T_value => set_t_value v s | T_gpio2 => set_t_gpio2 v s
             | T_srv => set_t_srv v s end.

Definition emit (k : Z) (a : list Z) (s : st) : st := set_outs (mk k a [] :: outs s) s.
(* uptime_sec() of uptime.c: usermain_uptime.cycles is incremented at the first call after each wrap of the 32-bit
   microsecond counter (the 1 s watchdog polls it), and one cycle counts as 0xffffffff microseconds there. *)
Definition uptime_usec (s : st) : Z :=
  let t := boot s + now s in (cycles0 s + t / 4294967296) * 4294967295 + t mod 4294967296.
Definition uptime (s : st) : Z := u32 (uptime_usec s / 1000 / 1000).

(* ghost: the abstract keep-alive semantics run in lockstep (does not influence any output) *)
Definition k_event (e : kev) (s : st) : st :=
  set_kabs (kstep (ktmo s) (kabs s) e) (set_kenv (kenv s && kext_ok (ktmo s) (kabs s) e) s).
Definition k_reset (s : st) : st :=      (* a new episode starts when the registration is accepted / a timeout is granted *)
  let up := uptime s in
  set_ktmo (actto s) (set_kabs (kinit up (lastsent s))
    (set_kenv (up - lastsent s <=? actto s - 3) s)).

(* os_timer_arm (ets_timer_arm_new with ms=1) / os_timer_disarm *)
Definition arm (i : tid) (ms : Z) (rep : bool) (s : st) : st :=
  let q := seqc s + 1 in
  set_tm i (mktimer true (now s + ms * 1000) q (if rep then ms * 1000 else 0)) (set_seqc q s).
Definition disarm (i : tid) (s : st) : st := set_tm i (mktimer false 0 (tseq (get_tm i s)) 0) s.

(* ---------- server responder of the harness (SERVER <delay>): a ping that reaches the wire of the live connection is answered
   <delay> us later by a ping result delivered from an SDK timer (ninth timer T_srv, FIFO of due times, at most 16 pending) ---------- *)
Definition srv_on_frame (call : Z) (s : st) : st :=
  if (call =? CALL_PING) && (0 <=? srvdelay s) && (link s =? L_LIVE) && (len (srvq s) <? 16) then
    let d := now s + srvdelay s in
    let s1 := set_srvq (srvq s ++ [d]) s in
    if armed (t_srv s1) then s1
    else let q := seqc s1 + 1 in set_t_srv (mktimer true d q 0) (set_seqc q s1)
  else s.

(* ---------- wire decoder of the harness (same algorithm as harness/drv/c04.c) ---------- *)
Definition HDRSZ : Z := SDP_SIZE - MAX_DATA_SIZE.
Definition wire_conn (s : st) : Z := if link s =? L_LIVE then conn s else 0.
Fixpoint decode (fuel : nat) (s : st) : st :=
  match fuel with
  | O => s
  | S k =>
    let w := wbuf s in
    if stalled s then s
    else if len w <? HDRSZ + TAG_SIZE then s
    else if negb (list_eqb (take TAG_SIZE w) TAG) then set_stalled true s
    else let ds := le32 w OFF_DATA_SIZE in
      if MAX_DATA_SIZE <? ds then set_stalled true s
      else if len w <? HDRSZ + ds + TAG_SIZE then s
      else if negb (list_eqb (take TAG_SIZE (drop (HDRSZ + ds) w)) TAG) then set_stalled true s
      else decode k (srv_on_frame (le32 w OFF_CALL_ID)
                     (set_wbuf (drop (HDRSZ + ds + TAG_SIZE) w)
                       (emit O_WIRE [now s; wire_conn s; le32 w OFF_CALL_ID; le32 w OFF_RR_ID] s)))
  end.
Definition wire_accept (b : list Z) (s : st) : st :=
  let s1 := set_wbuf (wbuf s ++ b) s in decode (S (Z.to_nat (len (wbuf s1) / (HDRSZ + TAG_SIZE)))) s1.
Definition is_prefix_of_tag (w : list Z) : bool :=
  let k := if len w <? TAG_SIZE then len w else TAG_SIZE in list_eqb (take k w) (take k TAG).
Definition wire_close (s : st) : st :=
  let w := wbuf s in
  let junk := stalled s || ((0 <? len w) && (negb (is_prefix_of_tag w) || ((HDRSZ <=? len w) && (MAX_DATA_SIZE <? le32 w OFF_DATA_SIZE)))) in
  let s1 := if junk then emit O_JUNK [now s; wire_conn s; len w] s else s in
  set_stalled false (set_wbuf [] s1).

(* ---------- SDK espconn model ---------- *)
Definition sdk_sent (s : st) : Z * st :=
  match script s with
  | r :: rest => (r, set_script rest s)
  | [] => (if link s =? L_LIVE then liveres s else deadres s, s)
  end.
Definition sdk_connect (s : st) : st :=
  let s1 := emit O_CONNECT [now s] s in
  let s2 := if link s1 =? L_LIVE then wire_close s1 else s1 in
  set_link L_PENDING s2.
Definition sdk_disconnect (s : st) : st :=
  let s1 := emit O_DISCONNECT [now s] s in
  if link s1 =? L_LIVE then set_link L_CLOSING (wire_close s1)
  else if link s1 =? L_PENDING then set_link L_IDLE s1 else s1.

(* ---------- supla_esp_data_write ---------- *)
Definition append_buffer (b : list Z) (s : st) : st :=
  if 0 <? len b then (if SEND_BUFFER_SZ <? len (espbuf s) + len b then s else set_espbuf (espbuf s ++ b) s) else s.
Definition data_write (b : list Z) (s : st) : st :=
  let s1 := if 0 <? len (espbuf s) then
              let '(r, s') := sdk_sent s in
              if r =? 0 then k_event (Sent (uptime s')) (set_lastsent (uptime s') (wire_accept (espbuf s') (set_espbuf [] s'))) else s'
            else s in
  if 0 <? len (espbuf s1) then append_buffer b s1
  else if 0 <? len b then
    let '(r, s2) := sdk_sent s1 in
    if (r =? ESP_INPROGRESS) || (r =? ESP_MAXNUM) then append_buffer b s2
    else if r =? 0 then k_event (Sent (uptime s2)) (set_lastsent (uptime s2) (wire_accept b s2)) else s2
  else s1.

(* ---------- srpc_async__call ---------- *)
Definition next_rr (r : Z) : Z := let n := u32 (r + 1) in if n =? 0 then 1 else n.
Definition async_call (call : Z) (pay : list Z) (s : st) : st :=
  match srpc s with
  | None => s
  | Some p =>
    let rr := next_rr (rr_last p) in
    if len (oq p) <? QUEUE_SIZE
    then set_srpc (Some (mkrpc (sid p) rr (oq p ++ [(call, rr, pay)]) (obuf p) (ibuf p) (call :: hist p) (got_ok p) (refused_at p) (created_at p))) s
    else set_srpc (Some (mkrpc (sid p) rr (oq p) (obuf p) (ibuf p) (hist p) (got_ok p) (refused_at p) (created_at p))) s
  end.
Definition encode (f : Z * Z * list Z) : list Z :=
  let '(call, rr, pay) := f in
  TAG ++ [DEVICE_PROTO_VERSION] ++ enc32 rr ++ enc32 call ++ enc32 (len pay) ++ pay ++ TAG.

(* ---------- gpio state LED ---------- *)
Definition gpio_state_disconnected (s : st) : st := if gstate s =? G_DISCONNECTED then s else set_gstate G_DISCONNECTED s.
Definition gpio_state_ipreceived (s : st) : st := if gstate s =? G_IPRECEIVED then s else set_gstate G_IPRECEIVED s.
Definition gpio_state_connected (s : st) : st :=
  if gstate s =? G_CONNECTED then s else arm T_gpio2 GPIO_TIMER2_MS false (set_gstate G_CONNECTED s).

Definition is_registered (s : st) : bool :=
  match srpc s with Some _ => registered s =? 1 | None => false end.

(* payload sizes measured on the real srpc functions (Gen.C04Consts.ApiFrames: api, call id, payload size, frame size) *)
Definition api_row (api : Z) : option (list Z) := find (fun r => nthz r 0 =? api) ApiFrames.
Definition api_call (api : Z) : Z := match api_row api with Some r => nthz r 1 | None => 0 end.
Definition api_size (api : Z) : Z := match api_row api with Some r => nthz r 2 | None => 0 end.
Definition A_PING : Z := 100. Definition A_SAT : Z := 101. Definition A_CHSTATE : Z := 102.

(* ---------- stop / start / reconnect ---------- *)
Definition mark_refused (s : st) : st :=
  match srpc s with
  | Some p => set_srpc (Some (mkrpc (sid p) (rr_last p) (oq p) (obuf p) (ibuf p) (hist p) (got_ok p) (Some (now s)) (created_at p))) s
  | None => s end.
Definition stop_with_delay (s : st) : st := arm T_stop STOP_DELAY_MS false (mark_refused s).

Definition devconn_stop (s : st) : st :=                       (* supla_esp_devconn__stop *)
  let s1 := set_started false (set_registered 0 s) in
  let s2 := disarm T_iter (disarm T_timer1 s1) in
  let s3 := sdk_disconnect s2 in
  let s4 := set_srpc None s3 in
  if clrstop s4 then set_recvbuf [] (set_espbuf [] s4) else s4.

(* supla_esp_wifi_check_status / on_wifi_status_changed / resolvandconnect (IP literal) / dns__found *)
Definition resolvandconnect (s : st) : st :=
  if resolving s then s
  else let s1 := sdk_disconnect (set_resolving true s) in
       let s2 := sdk_disconnect (set_resolving false s1) in
       sdk_connect s2.
Definition wifi_check_status (s : st) : st :=
  if wlast s =? wstatus s then s
  else let st_ := wstatus s in
       let s1 := set_wlast st_ s in
       let s2 := if st_ =? STATION_GOT_IP_ then gpio_state_ipreceived s1 else gpio_state_disconnected s1 in
       if started s2 && (match srpc s2 with None => true | Some _ => false end) && (st_ =? STATION_GOT_IP_)
       then resolvandconnect s2 else s2.
Definition wifi_station_connect (s : st) : st :=               (* supla_esp_wifi_station_connect(on_wifi_status_changed) *)
  let s1 := gpio_state_disconnected s in
  let s2 := set_wstatus STATION_CONNECTING_ (emit O_WIFISTART [now s1] s1) in
  let s3 := if wlast s2 =? STATION_GOT_IP_ + 1 then wifi_check_status s2 else s2 in
  arm T_wifi WIFI_CHECK_MS true (disarm T_wifi s3).
Definition devconn_start (s : st) : st :=
  let s1 := set_started true (gpio_state_ipreceived s) in
  let s2 := wifi_station_connect s1 in
  arm T_timer1 TIMER1_MS true (disarm T_timer1 (disarm T_recon s2)).
Definition devconn_reconnect (s : st) : st :=                   (* supla_esp_devconn__reconnect; not in cfg mode / update *)
  devconn_start (devconn_stop (set_nextwd (uptime s + WATCHDOG_SOFT_TIMEOUT_S) s)).

Definition restart (s : st) : st := set_halted true (emit O_RESTART [now s] s).

(* ---------- received calls ---------- *)
Definition on_register_result (code tmo : Z) (s : st) : st :=
  if code =? RESULTCODE_TRUE then
    let s1 := k_reset (set_registered 1 (set_actto tmo s)) in
    let s2 := match srpc s1 with
              | Some p => set_srpc (Some (mkrpc (sid p) (rr_last p) (oq p) (obuf p) (ibuf p) (hist p) true (refused_at p) (created_at p))) s1
              | None => s1 end in
    let s3 := gpio_state_connected s2 in
    let s4 := if tmo =? ACTIVITY_TIMEOUT_DEFAULT then s3 else async_call (api_call A_SAT) (zeros (api_size A_SAT)) s3 in
    arm T_value VALUE_DELAY_MS false (disarm T_value s4)
  else stop_with_delay s.

(* supla_esp_on_remote_call_received for one delivered frame f = header ++ payload *)
Definition handler (f : list Z) (s : st) : st :=
  let s0 := k_event (Resp (uptime s)) (set_nresp (nresp s + 1) (set_lastresp (uptime s) s)) in
  let call := le32 f OFF_CALL_ID in
  let ds := le32 f OFF_DATA_SIZE in
  let pay := drop OFF_DATA f in
  if (call =? SRV_REGISTER_RESULT) && (ds =? SZ_REGISTER_RESULT) then
    on_register_result (s32 (le32 pay OFF_RESULT_CODE)) (nthz pay OFF_RESULT_TIMEOUT) s0
  else if (call =? SRV_VERSIONERROR) && (ds =? SZ_VERSIONERROR) then stop_with_delay s0
  else if (call =? SRV_SET_ACTIVITY_TIMEOUT_RESULT) && (ds =? SZ_SET_ACTIVITY_TIMEOUT_RESULT) then
    k_reset (set_actto (nthz pay OFF_SAT_RESULT_TIMEOUT) s0)
  else if (call =? SRV_GET_CHANNEL_STATE) && (ds =? SZ_CHANNEL_STATE_REQUEST) then
    async_call (api_call A_CHSTATE) (zeros (api_size A_CHSTATE)) s0
  else s0.

(* ---------- srpc_iterate ---------- *)
Definition with_ibuf (b : C01.Model.inb) (p : rpc) : rpc :=
  mkrpc (sid p) (rr_last p) (oq p) (obuf p) b (hist p) (got_ok p) (refused_at p) (created_at p).
Definition srpc_out (s : st) : st :=
  match srpc s with
  | None => s
  | Some p =>
    let '(q, ob) := match oq p with f :: rest => (rest, obuf p ++ encode f) | [] => ([], obuf p) end in
    let n := if OUT_CHUNK <? len ob then OUT_CHUNK else len ob in
    let chunk := take n ob in
    let s1 := set_srpc (Some (mkrpc (sid p) (rr_last p) q (drop n ob) (ibuf p) (hist p) (got_ok p) (refused_at p) (created_at p))) s in
    if 0 <? n then data_write chunk s1 else s1
  end.
Definition srpc_iterate (s : st) : st :=
  match srpc s with
  | None => s
  | Some p =>
    let n := if OUT_CHUNK <? len (recvbuf s) then OUT_CHUNK else len (recvbuf s) in
    let chunk := take n (recvbuf s) in
    let s1 := set_recvbuf (drop n (recvbuf s)) s in
    match (if 0 <? n then C01.Model.append (ibuf p) chunk else Some (ibuf p)) with
    | None => restart s1
    | Some b =>
      match C01.Model.pop C01.Model.CURRENT_SUMCHECK b [] with
      | (b', f, C01.Model.R_TRUE) => srpc_out (handler f (set_srpc (Some (with_ibuf b' p)) s1))
      | (b', _, C01.Model.R_FALSE) => srpc_out (set_srpc (Some (with_ibuf b' p)) s1)
      | (b', _, _) => restart (set_srpc (Some (with_ibuf b' p)) s1)
      end
    end
  end.

(* supla_esp_devconn_iterate (e-mail configured) *)
Definition devconn_iterate (s : st) : st :=
  match srpc s with
  | None => s
  | Some _ =>
    let s1 := if registered s =? 0 then async_call CALL_REGISTER_E (regpay s) (set_registered (-1) s) else s in
    srpc_iterate (data_write [] s1)
  end.

(* ---------- espconn callbacks ---------- *)
Definition empty_inb : C01.Model.inb := C01.Model.Build_inb 0 [] false.
Definition connect_cb (s : st) : st :=                          (* supla_esp_srpc_init *)
  let s1 := set_srpc (Some (mkrpc (conn s) 0 [] [] empty_inb [] false None (now s))) s in
  let s2 := arm T_iter ITERATE_MS true s1 in
  if clrconn s2 then set_recvbuf [] (set_espbuf [] s2) else s2.
Definition disconnect_cb (s : st) : st :=
  let s1 := set_recvbuf [] (set_espbuf [] (gpio_state_ipreceived s)) in
  if started s1 then arm T_recon RECONNECT_DELAY_MS false (disarm T_recon s1) else s1.
Definition recv_cb (b : list Z) (s : st) : st :=
  if len b =? 0 then s
  else if len b <=? RECVBUFF_MAX - len (recvbuf s) then devconn_iterate (set_recvbuf (recvbuf s ++ b) s)
  else s.

(* ---------- timer callbacks ---------- *)
Definition timer1_cb (s : st) : st :=
  if is_registered s then
    let slot := match srpc s with Some p => len (oq p) <? QUEUE_SIZE | None => false end in
    let s1 := if 0 <? actto s then k_event (Tick (uptime s) slot) s else s in
    match t1_decide (uptime s) (lastsent s) (lastresp s) (actto s) with
    | T1_reconnect => devconn_reconnect s1
    | T1_ping => async_call (api_call A_PING) (zeros (api_size A_PING)) s1
    | T1_none => s1
    end
  else s.
Definition watchdog_cb (s : st) : st :=
  if lastresp s <? uptime s then
    if WATCHDOG_TIMEOUT_S <? u32 (uptime s - lastresp s) then restart s
    else let t := u32 (uptime s - lastresp s) in
         if (WATCHDOG_SOFT_TIMEOUT_S <=? t) && (u32 (actto s) <? t) && (nextwd s <? uptime s) then devconn_reconnect s else s
  else s.
(* the responder's timer: deliver one ping result (if the connection is still live), re-arm for the next pending one *)
Definition ping_result_frame : list Z := encode (SRV_PING_RESULT, 1, zeros SZ_PING_RESULT).
Definition srv_cb (s : st) : st :=
  match srvq s with
  | [] => s
  | _ :: rest =>
    let s1 := set_srvq rest s in
    let s2 := match rest with
              | [] => s1
              | d :: _ => let q := seqc s1 + 1 in
                          set_t_srv (mktimer true (if d <? now s1 then now s1 else d) q 0) (set_seqc q s1)
              end in
    if link s2 =? L_LIVE then recv_cb ping_result_frame (emit O_SRVRX [now s2; conn s2] s2) else s2
  end.
Definition callback (i : tid) (s : st) : st :=
  match i with
  | T_wifi => wifi_check_status s
  | T_timer1 => timer1_cb s
  | T_iter => devconn_iterate s
  | T_wd => watchdog_cb s
  | T_recon => devconn_reconnect s
  | T_stop => devconn_stop s
  | T_value => s                    (* send_channel_values_cb: no shutters, inert board *)
  | T_gpio2 => s                    (* supla_esp_gpio_enable_sensors: no effect on the connection *)
  | T_srv => srv_cb s
  end.

(* ---------- advancing time (harness/doubles/doubles.c v_advance) ---------- *)
Definition better (s : st) (a b : tid) : bool :=          (* a fires before b *)
  let ta := get_tm a s in let tb := get_tm b s in
  (due ta <? due tb) || ((due ta =? due tb) && (tseq ta <? tseq tb)).
Definition pick (s : st) (fin : Z) : option tid :=
  fold_left (fun best i =>
    let t := get_tm i s in
    if armed t && (due t <=? fin) then
      match best with None => Some i | Some b => if better s i b then Some i else best end
    else best) all_tids None.
Definition lateness (s : st) : Z * st :=
  match lat s with
  | [] => (0, s)
  | l => (nth (Z.to_nat (lati s mod len l)) l 0, set_lati (lati s + 1) s)
  end.
Definition fire (i : tid) (s : st) : st :=
  let t := get_tm i s in
  let '(l, s0) := lateness s in
  let at_ := due t + l in
  let s1 := if now s0 <? at_ then set_now at_ s0 else s0 in
  let s2 := if 0 <? period t then set_tm i (mktimer true (due t + period t) (seqc s1 + 1) (period t)) (set_seqc (seqc s1 + 1) s1)
            else set_tm i (mktimer false (due t) (tseq t) 0) s1 in
  callback i (set_fired (fired s2 + 1) s2).
Fixpoint advance (fuel : nat) (fin : Z) (s : st) : st :=
  if halted s then s else
  match pick s fin with
  | None => if now s <? fin then set_now fin s else s
  | Some i => match fuel with
              | O => set_stuck true (emit O_FUEL [now s] s)
              | S k => advance k fin (fire i s)
              end
  end.
Definition adv_fuel (dt : Z) : nat := Z.to_nat (dt / 1000 + 100).

(* ---------- LOCAL api: a public function of devconn.c containing one srpc call site ---------- *)
(* CallSites rows: file, line, call id, guard (0 none, 1 inside if(is_registered()), 2 after registered=1,
   3 the register transition, 4 only reachable through guarded calls), api (-1: not a LOCAL api) *)
Definition site_of_api (api : Z) : option (list Z) := find (fun r => nthz r 4 =? api) CallSites.
Definition local_call (api : Z) (s : st) : st :=
  if api <? 0 then s else
  match site_of_api api with
  | None => s
  | Some r =>
    let fires := if nthz r 3 =? 0 then (match srpc s with Some _ => true | None => false end) else is_registered s in
    if fires then async_call (nthz r 2) (zeros (api_size api)) s else s
  end.

(* ---------- events ---------- *)
Inductive ev := Adv (dt : Z) | Wifi (status : Z) | ConnCb | DiscCb | Recv (b : list Z) | SentMode (r : Z)
              | SentRes (l : list Z) | Local (api : Z) | Server (delay : Z) | Bad.

(* the SDK delivers connect_cb only for a pending request, disconnect_cb only for a live/closing connection,
   received data on a live connection (Env_disconnect_before_connect of the design) -- and a segment that was in flight when
   the device called espconn_disconnect may still be delivered while the connection is closing: the close then completes, i.e.
   that delivery is followed by the disconnect callback before any other event (one compound event, see dev_step) *)
Definition env_allows (s : st) (e : ev) : bool :=
  match e with
  | ConnCb => link s =? L_PENDING
  | DiscCb => (link s =? L_LIVE) || (link s =? L_CLOSING)
  | Recv _ => (link s =? L_LIVE) || (link s =? L_CLOSING)
  | _ => true
  end.

(* the SDK's disconnect callback for the live / closing connection *)
Definition disc_step (s : st) : st :=
  let s1 := if link s =? L_LIVE then wire_close s else s in
  disconnect_cb (set_link L_IDLE (emit O_DISCD [now s1; conn s1; evi s1] s1)).

Definition dev_step (s : st) (e : ev) : st :=
  match e with
  | Adv dt => if dt <? 0 then s else advance (adv_fuel dt) (now s + dt) s
  | Wifi w => set_wstatus w s
  | ConnCb =>
      let s1 := set_stalled false (set_wbuf [] (set_conn (conn s + 1) (set_link L_LIVE s))) in
      let s2 := connect_cb s1 in
      emit O_FRESH [now s2; conn s2; len (espbuf s2); len (recvbuf s2); registered s2; evi s2] s2
  | DiscCb => disc_step s
  | Recv b =>
      let s1 := recv_cb b (emit O_RX [now s; conn s; evi s] s) in
      if link s =? L_CLOSING then disc_step s1 else s1
  | SentMode r => set_liveres r s
  | SentRes l => set_script l s
  | Local api => local_call api s
  | Server d => set_srvdelay d s
  | Bad => s
  end.
Definition step (s0 : st) (e : ev) : st :=
  let s := set_evi (evi s0 + 1) s0 in
  if halted s || stuck s then s else if env_allows s e then dev_step s e else s.

(* ---------- boot: user_init order gpio_init, wifi_init, devconn_init, devconn_start ---------- *)
Definition init0 (boot_ cyc dead : Z) (pay lat_ : list Z) (cs cc : bool) : st :=
  mkst 0 boot_ cyc lat_ 0 0 0 timer0 timer0 timer0 timer0 timer0 timer0 timer0 timer0 timer0
       0 (STATION_GOT_IP_ + 1)
       L_IDLE 0 dead []
       false 0 None [] [] 0 0 0 0 false 0
       0 [] false [] false false pay cs cc 0 (-1) [] 0 (kinit 0 0) false 0.
Definition boot_device (boot_ cyc dead : Z) (pay lat_ : list Z) (cs cc : bool) : st :=
  let s0 := init0 boot_ cyc dead pay lat_ cs cc in
  let s1 := set_wstatus STATION_CONNECTING_ (emit O_WIFISTART [now s0] s0) in         (* supla_esp_wifi_init *)
  let s2 := arm T_wd WATCHDOG_MS true (set_lastresp (uptime s1) s1) in                 (* supla_esp_devconn_init *)
  devconn_start s2.

Fixpoint run_from (s : st) (evs : list ev) : st :=
  match evs with [] => s | e :: r => run_from (step s e) r end.

Definition final_state (s : st) : st :=
  if halted s || stuck s then s
  else let s1 := if link s =? L_LIVE then wire_close s else set_wbuf [] s in
       emit O_STATE [now s1; registered s1; (match srpc s1 with Some _ => 1 | None => 0 end); (if started s1 then 1 else 0);
                     len (espbuf s1); len (recvbuf s1); link s1; actto s1; fired s1] s1.

(* the tree's variant: which function clears the two byte buffers (generated from the source) *)
Definition TREE_CLRSTOP : bool := STOP_CLEARS =? 1.
Definition TREE_CLRCONN : bool := CONNECT_CB_CLEARS =? 1.

(* ---------- wire interface ---------- *)
Definition ev_of_wire (w : wire) : ev :=
  match w with (k, a, b) =>
    if k =? 1 then Adv (nthz a 0) else if k =? 2 then Wifi (nthz a 0) else if k =? 3 then ConnCb
    else if k =? 4 then DiscCb else if k =? 5 then Recv b else if k =? 6 then SentMode (nthz a 0)
    else if k =? 7 then SentRes a else if k =? 8 then Local (nthz a 0) else if k =? 9 then Server (nthz a 0) else Bad end.
(* first event: CFG boot dead nchannels cycles lateness... *)
Definition run_wire (cs cc : bool) (ws : list wire) : list wire :=
  match ws with
  | (k, a, _) :: rest =>
      if k =? 0 then
        let s := boot_device (nthz a 0) (nthz a 3) (nthz a 1) (zeros (REG_BASE_SIZE + nthz a 2 * REG_CHANNEL_SIZE)) (drop 4 a) cs cc in
        rev (outs (final_state (run_from s (map ev_of_wire rest))))
      else (* no CFG line (a shrunk replay): defaults boot 0, dead result ESPCONN_ARG, no channels; the line counts as event 1 *)
        let s := boot_device 0 0 ESP_ARG (zeros REG_BASE_SIZE) [] cs cc in
        rev (outs (final_state (run_from (set_evi (-1) s) (map ev_of_wire ws))))
  | [] => []
  end.
Definition main_wire (ws : list wire) : list wire := run_wire TREE_CLRSTOP TREE_CLRCONN ws.
