(* C04/C05 — fuel-free semantics of the automaton and timing invariants.
   (1) `Advance`/`rstep`/`RRun`: the run of the timer queue as an inductive relation (no fuel, no `stuck` flag); the
       executable `advance`/`step`/`run_from` of Model.v refine it whenever they do not report FUEL.
   (2) frame relation `TStep` for all functions that neither move the clock nor touch the 1 s / 100 ms timers,
   (3) timing invariants: no core timer overdue by more than the lateness bound J, the watchdog / timer1 / iterate
       ticks happened on time, last_response is monotone, ... used by C04 (registration within 100 ms) and C05. *)
From Coq Require Import List ZArith Lia Bool.
Import ListNotations.
From V Require Import Base.U32 Base.Bytes Base.Iface Gen.ProtoConsts Gen.C04Consts C04.Keepalive C04.Model C04.Proofs.
Local Open Scope Z_scope.

(* ---------- (1) relational semantics ---------- *)
Inductive Advance (fin : Z) : st -> st -> Prop :=
| adv_halted s : halted s = true -> Advance fin s s
| adv_done s : halted s = false -> pick s fin = None -> Advance fin s (if now s <? fin then set_now fin s else s)
| adv_fire s i s' : halted s = false -> pick s fin = Some i -> Advance fin (fire i s) s' -> Advance fin s s'.

Definition dev_rstep (s : st) (e : ev) (s' : st) : Prop :=
  match e with
  | Adv dt => if dt <? 0 then s' = s else Advance (now s + dt) s s'
  | _ => s' = dev_step s e
  end.
Definition rstep (s0 : st) (e : ev) (s' : st) : Prop :=
  let s := set_evi (evi s0 + 1) s0 in
  if halted s then s' = s else if env_allows s e then dev_rstep s e s' else s' = s.
Inductive RRun : st -> list ev -> st -> Prop :=
| rr_nil s : RRun s [] s
| rr_cons s e s1 r s2 : rstep s e s1 -> RRun s1 r s2 -> RRun s (e :: r) s2.

(* reachable without fuel; J bounds the lateness script *)
Definition rreachable (cs cc : bool) (J : Z) (s : st) : Prop :=
  exists b cyc d pay lt evs, Forall (fun l => 0 <= l <= J) lt /\ RRun (boot_device b cyc d pay lt cs cc) evs s.

(* the executable model refines the relation as long as it does not run out of fuel *)
Lemma advance_refines k : forall fin s, stuck (advance k fin s) = false -> Advance fin s (advance k fin s).
Proof.
  induction k as [|k IH]; intros fin s H; cbn [advance] in *.
  - destruct (halted s) eqn:Hh; [apply adv_halted; auto|].
    destruct (pick s fin) eqn:P; [discriminate H|apply adv_done; auto].
  - destruct (halted s) eqn:Hh; [apply adv_halted; auto|].
    destruct (pick s fin) eqn:P; [eapply adv_fire; eauto|apply adv_done; auto].
Qed.
Lemma step_stuck s e : stuck s = true -> stuck (step s e) = true.
Proof. intros H. unfold step. change (stuck (set_evi (evi s + 1) s)) with (stuck s). rewrite H, orb_true_r. exact H. Qed.
Lemma run_stuck evs : forall s, stuck s = true -> stuck (run_from s evs) = true.
Proof. induction evs as [|e r IH]; intros s H; cbn [run_from]; auto. apply IH, step_stuck; auto. Qed.
Lemma step_refines s e : stuck (step s e) = false -> rstep s e (step s e).
Proof.
  intros H. assert (Hs : stuck s = false) by (destruct (stuck s) eqn:E; auto; rewrite (step_stuck s e E) in H; discriminate).
  unfold step, rstep in *. set (s1 := set_evi (evi s + 1) s) in *.
  change (stuck s1) with (stuck s) in *. rewrite Hs, orb_false_r in *.
  destruct (halted s1); [reflexivity|]. destruct (env_allows s1 e); [|split; reflexivity].
  destruct e; cbn [dev_step dev_rstep] in *; try reflexivity.
  destruct (dt <? 0); [reflexivity|]. apply advance_refines; auto.
Qed.
Lemma run_refines evs : forall s, stuck (run_from s evs) = false -> RRun s evs (run_from s evs).
Proof.
  induction evs as [|e r IH]; intros s H; cbn [run_from] in *; [constructor|].
  assert (H1 : stuck (step s e) = false) by (destruct (stuck (step s e)) eqn:E; auto; rewrite (run_stuck r _ E) in H; discriminate).
  econstructor; [apply step_refines; auto|apply IH; auto].
Qed.
Lemma run_rreachable cs cc J b cyc d pay lt evs : Forall (fun l => 0 <= l <= J) lt ->
  stuck (run_from (boot_device b cyc d pay lt cs cc) evs) = false -> rreachable cs cc J (run_from (boot_device b cyc d pay lt cs cc) evs).
Proof. intros HL Hs. exists b, cyc, d, pay, lt, evs. split; auto. apply run_refines; auto. Qed.

(* ---------- the C04 invariant holds on the relational semantics ---------- *)
Section Flags.
Variables cs cc : bool.
Notation Inv := (Inv cs cc).
Lemma Advance_inv fin s s' : Advance fin s s' -> Inv s -> Inv s'.
Proof.
  induction 1; intros HI; auto.
  - destruct (now s <? fin); auto.
  - apply IHAdvance. apply fire_inv; auto.
Qed.
Lemma rstep_inv s e s' : sites_ok CallSites = true -> rstep s e s' -> Inv s -> Inv s'.
Proof.
  intros HS H HI. unfold rstep in H. set (s1 := set_evi (evi s + 1) s) in *.
  assert (HI1 : Inv s1) by (eapply Inv_core; [|eauto]; reflexivity).
  destruct (halted s1); [subst; auto|]. destruct (env_allows s1 e) eqn:E; [|subst; auto].
  destruct e; cbn [dev_rstep] in H; try (subst s'; apply dev_step_inv; auto).
  destruct (dt <? 0); [subst; auto|]. eapply Advance_inv; eauto.
Qed.
Lemma RRun_inv s evs s' : sites_ok CallSites = true -> RRun s evs s' -> Inv s -> Inv s'.
Proof. intros HS H. induction H; auto. intros HI. apply IHRRun. eapply rstep_inv; eauto. Qed.
Lemma rreachable_inv J s : sites_ok CallSites = true -> rreachable cs cc J s -> Inv s.
Proof. intros HS [b [cyc [d [pay [lt [evs [_ H]]]]]]]. eapply RRun_inv; eauto. apply boot_inv. Qed.
End Flags.

(* ---------- (2) frame relation ---------- *)
Definition inst_created (s : st) : option Z := match srpc s with Some p => Some (created_at p) | None => None end.
Definition restart_mark (s : st) : wire := mk O_RESTART [now s] [].

(* what none of the "ordinary" functions changes *)
Record TBase (s s' : st) : Prop := {
  tb_now : now s' = now s; tb_boot : boot s' = boot s; tb_cyc : cycles0 s' = cycles0 s; tb_lat : lat s' = lat s;
  tb_wd : t_wd s' = t_wd s; tb_t1 : t_timer1 s' = t_timer1 s; tb_it : t_iter s' = t_iter s;
  tb_started : started s' = started s;
  tb_link : link s' = L_PENDING -> link s = L_PENDING \/ started s = true;
  tb_cre : inst_created s' = inst_created s;
  tb_reg0 : registered s' = 0 -> registered s = 0;
  tb_reg1 : registered s = 1 -> registered s' = 1;
  tb_nresp : nresp s <= nresp s';
  tb_halt : halted s' = halted s \/ (halted s' = true /\ In (restart_mark s) (outs s'));
  tb_outs : forall x, In x (outs s) -> In x (outs s')
}.
(* ... and either no call was received (last_response, granted timeout, "accepted" unchanged) or one was, now *)
Definition quiet (s s' : st) : Prop :=
  nresp s' = nresp s /\ lastresp s' = lastresp s /\ actto s' = actto s /\ (registered s' = 1 -> registered s = 1) /\ t_stop s' = t_stop s.
Definition TStep (s s' : st) : Prop :=
  TBase s s' /\ (quiet s s' \/ (nresp s < nresp s' /\ lastresp s' = uptime s)).

Lemma uptime_frame s s' : now s' = now s -> boot s' = boot s -> cycles0 s' = cycles0 s -> uptime s' = uptime s.
Proof. intros A B C. unfold uptime, uptime_usec. rewrite A, B, C. reflexivity. Qed.
Lemma TBase_uptime s s' : TBase s s' -> uptime s' = uptime s.
Proof. intros H. apply uptime_frame; apply H. Qed.

Lemma TBase_refl s : TBase s s.
Proof. constructor; auto; lia. Qed.
Lemma TBase_trans s1 s2 s3 : TBase s1 s2 -> TBase s2 s3 -> TBase s1 s3.
Proof.
  intros A B. constructor; try (etransitivity; [apply B|apply A]).
  - intros H. destruct (tb_link _ _ B H) as [H1|H1]; [apply (tb_link _ _ A H1)|right; rewrite <- (tb_started _ _ A); exact H1].
  - intros H. apply A, B, H.
  - intros H. apply B, A, H.
  - pose proof (tb_nresp _ _ A). pose proof (tb_nresp _ _ B). lia.
  - destruct (tb_halt _ _ B) as [Hb|[Hb Ib]]; destruct (tb_halt _ _ A) as [Ha|[Ha Ia]].
    + left. congruence.
    + right. split; [congruence|]. apply (tb_outs _ _ B). exact Ia.
    + right. split; auto. unfold restart_mark in *. rewrite (tb_now _ _ A) in Ib. exact Ib.
    + right. split; auto. apply (tb_outs _ _ B). exact Ia.
  - intros x H. apply (tb_outs _ _ B), (tb_outs _ _ A), H.
Qed.
Lemma quiet_refl s : quiet s s. Proof. repeat split; auto. Qed.
Lemma TStep_refl s : TStep s s. Proof. split; [apply TBase_refl|left; apply quiet_refl]. Qed.
Lemma TStep_trans s1 s2 s3 : TStep s1 s2 -> TStep s2 s3 -> TStep s1 s3.
Proof.
  intros [A RA] [B RB]. split; [eapply TBase_trans; eauto|].
  pose proof (TBase_uptime _ _ A) as U.
  destruct RA as [[a1 [a2 [a3 [a4 a4']]]]|[a1 a2]]; destruct RB as [[b1 [b2 [b3 [b4 b4']]]]|[b1 b2]].
  - left. repeat split; try congruence. auto.
  - right. split; [lia|congruence].
  - right. split; [lia|congruence].
  - right. split; [lia|congruence].
Qed.
Lemma TStep_base_quiet s s' : TBase s s' -> quiet s s' -> TStep s s'.
Proof. intros A B. split; auto. Qed.

Definition TQ (s s' : st) : Prop := TBase s s' /\ quiet s s' /\ (halted s' = halted s /\ registered s' = registered s).
Lemma TQ_intro s s' : TBase s s' -> quiet s s' -> (halted s' = halted s /\ registered s' = registered s) -> TQ s s'. Proof. intros; split; auto. Qed.
Lemma TQ_refl s : TQ s s. Proof. split; [apply TBase_refl|split; [apply quiet_refl|split; reflexivity]]. Qed.
Lemma TQ_trans s1 s2 s3 : TQ s1 s2 -> TQ s2 s3 -> TQ s1 s3.
Proof.
  intros [A [[a1 [a2 [a3 [a4 a4']]]] [a5 a6]]] [B [[b1 [b2 [b3 [b4 b4']]]] [b5 b6]]]. split; [eapply TBase_trans; eauto|].
  split; [|split; congruence]. repeat split; try congruence; auto.
Qed.
Lemma TQ_TStep s s' : TQ s s' -> TStep s s'. Proof. intros [A [B _]]. split; auto. Qed.

(* leaves *)
Ltac tb_leaf := constructor; cbn; auto; try lia; try (intros; tauto).
Lemma tq_emit k a s : TQ s (emit k a s).
Proof. apply TQ_intro; [tb_leaf|repeat split; auto|split; reflexivity]. Qed.
Definition core_timer (i : tid) : Prop := i = T_wd \/ i = T_timer1 \/ i = T_iter \/ i = T_stop.
Lemma tq_set_tm i v s : ~ core_timer i -> TQ s (set_tm i v s).
Proof.
  intros H. unfold core_timer in H.
  destruct i; try (exfalso; tauto); (apply TQ_intro; [tb_leaf|repeat split; auto|split; reflexivity]).
Qed.
Lemma tq_set_seqc v s : TQ s (set_seqc v s).
Proof. apply TQ_intro; [tb_leaf|repeat split; auto|split; reflexivity]. Qed.
Lemma tq_arm i ms r s : ~ core_timer i -> TQ s (arm i ms r s).
Proof. intros H. unfold arm. eapply TQ_trans; [apply tq_set_seqc|apply tq_set_tm; auto]. Qed.
Lemma tq_disarm i s : ~ core_timer i -> TQ s (disarm i s).
Proof. intros H. unfold disarm. apply tq_set_tm; auto. Qed.
Ltac notcore := unfold core_timer; intros [X|[X|[X|X]]]; discriminate X.

Lemma tq_srv_on_frame c s : TQ s (srv_on_frame c s).
Proof.
  unfold srv_on_frame. destruct (_ && _); [|apply TQ_refl].
  match goal with |- context [if ?c then _ else _] => destruct c end;
    apply TQ_intro; try tb_leaf; repeat split; auto.
Qed.
Lemma tq_set_stalled v s : TQ s (set_stalled v s).
Proof. apply TQ_intro; [tb_leaf|repeat split; auto|split; reflexivity]. Qed.
Lemma tq_set_wbuf v s : TQ s (set_wbuf v s).
Proof. apply TQ_intro; [tb_leaf|repeat split; auto|split; reflexivity]. Qed.
Lemma tq_decode k : forall s, TQ s (decode k s).
Proof.
  induction k as [|k IH]; intros s; cbn [decode]; [apply TQ_refl|].
  repeat match goal with |- context [if ?c then _ else _] => destruct c end; try apply TQ_refl; try apply tq_set_stalled.
  eapply TQ_trans; [|apply IH]. eapply TQ_trans; [|apply tq_srv_on_frame].
  eapply TQ_trans; [apply tq_emit|apply tq_set_wbuf].
Qed.
Lemma tq_wire_accept b s : TQ s (wire_accept b s).
Proof. unfold wire_accept. eapply TQ_trans; [|apply tq_decode]. apply tq_set_wbuf. Qed.
Lemma tq_wire_close s : TQ s (wire_close s).
Proof.
  unfold wire_close. destruct (_ || _).
  - eapply TQ_trans; [apply tq_emit|]. eapply TQ_trans; [apply tq_set_wbuf|apply tq_set_stalled].
  - eapply TQ_trans; [apply tq_set_wbuf|apply tq_set_stalled].
Qed.
Lemma tq_sdk_sent s : TQ s (snd (sdk_sent s)).
Proof. unfold sdk_sent. destruct (script s); cbn [snd]; [apply TQ_refl|]. apply TQ_intro; [tb_leaf|repeat split; auto|split; reflexivity]. Qed.
Lemma tq_append_buffer b s : TQ s (append_buffer b s).
Proof.
  unfold append_buffer. destruct (0 <? len b); [destruct (_ <? _)|]; try apply TQ_refl.
  apply TQ_intro; [tb_leaf|repeat split; auto|split; reflexivity].
Qed.
Lemma tq_k_event e s : TQ s (k_event e s).
Proof. apply TQ_intro; [tb_leaf|repeat split; auto|split; reflexivity]. Qed.
Lemma tq_k_reset s : TQ s (k_reset s).
Proof. apply TQ_intro; [tb_leaf|repeat split; auto|split; reflexivity]. Qed.
Lemma tq_set_lastsent v s : TQ s (set_lastsent v s).
Proof. apply TQ_intro; [tb_leaf|repeat split; auto|split; reflexivity]. Qed.
Lemma tq_set_espbuf v s : TQ s (set_espbuf v s).
Proof. apply TQ_intro; [tb_leaf|repeat split; auto|split; reflexivity]. Qed.
Lemma tq_set_recvbuf v s : TQ s (set_recvbuf v s).
Proof. apply TQ_intro; [tb_leaf|repeat split; auto|split; reflexivity]. Qed.

Lemma tq_data_write b s : TQ s (data_write b s).
Proof.
  unfold data_write.
  set (s1 := if 0 <? len (espbuf s) then _ else s).
  assert (H1 : TQ s s1).
  { subst s1. destruct (0 <? len (espbuf s)); [|apply TQ_refl].
    pose proof (tq_sdk_sent s) as Hs. destruct (sdk_sent s) as [r s'] eqn:E. cbn [snd] in Hs.
    destruct (r =? 0); auto.
    eapply TQ_trans; [exact Hs|]. eapply TQ_trans; [|apply tq_k_event]. eapply TQ_trans; [|apply tq_set_lastsent].
    eapply TQ_trans; [|apply tq_wire_accept]. apply tq_set_espbuf. }
  eapply TQ_trans; [exact H1|].
  destruct (0 <? len (espbuf s1)); [apply tq_append_buffer|].
  destruct (0 <? len b); [|apply TQ_refl].
  pose proof (tq_sdk_sent s1) as Hs. destruct (sdk_sent s1) as [r s2] eqn:E. cbn [snd] in Hs.
  eapply TQ_trans; [exact Hs|].
  destruct (_ || _); [apply tq_append_buffer|]. destruct (r =? 0); [|apply TQ_refl].
  eapply TQ_trans; [|apply tq_k_event]. eapply TQ_trans; [|apply tq_set_lastsent]. apply tq_wire_accept.
Qed.

Lemma tq_async_call c pay s : TQ s (async_call c pay s).
Proof.
  unfold async_call. destruct (srpc s) as [p|] eqn:E; [|apply TQ_refl].
  destruct (_ <? _); (apply TQ_intro; [|repeat split; auto|split; reflexivity]);
    constructor; cbn; auto; try lia; unfold inst_created; cbn; rewrite E; reflexivity.
Qed.
Lemma tq_gpio_conn s : TQ s (gpio_state_connected s).
Proof.
  unfold gpio_state_connected. destruct (_ =? _); [apply TQ_refl|].
  eapply TQ_trans; [|apply tq_arm; notcore]. apply TQ_intro; [tb_leaf|repeat split; auto|split; reflexivity].
Qed.
Lemma tb_stop_with_delay s : TBase s (stop_with_delay s) /\ nresp (stop_with_delay s) = nresp s /\ lastresp (stop_with_delay s) = lastresp s.
Proof.
  unfold stop_with_delay, arm, mark_refused. destruct (srpc s) as [p|] eqn:E; (split; [|split; reflexivity]);
    constructor; cbn; auto; try lia; unfold inst_created; cbn; rewrite E; reflexivity.
Qed.
Lemma ts_restart s : TStep s (restart s).
Proof.
  split; [|left; repeat split; auto].
  constructor; cbn; auto; try lia; try (right; split; auto; left; reflexivity).
Qed.

(* functions that may change the granted timeout / "accepted" but are not themselves the reception of a call *)
Definition TW (s s' : st) : Prop := TBase s s' /\ nresp s' = nresp s /\ lastresp s' = lastresp s.
Lemma TW_refl s : TW s s. Proof. split; [apply TBase_refl|auto]. Qed.
Lemma TW_trans s1 s2 s3 : TW s1 s2 -> TW s2 s3 -> TW s1 s3.
Proof. intros [A [a1 a2]] [B [b1 b2]]. split; [eapply TBase_trans; eauto|split; congruence]. Qed.
Lemma TQ_TW s s' : TQ s s' -> TW s s'. Proof. intros [A [[a1 [a2 _]] _]]. split; auto. Qed.

Lemma tw_set_actto v s : TW s (set_actto v s). Proof. split; [tb_leaf|auto]. Qed.
Lemma tw_set_registered1 s : TW s (set_registered 1 s).
Proof. split; [|auto]. constructor; cbn; auto; try lia. Qed.
Lemma tw_set_rpc_same s p p' : srpc s = Some p -> created_at p' = created_at p -> TW s (set_srpc (Some p') s).
Proof.
  intros E C. split; [|auto]. constructor; cbn; auto; try lia. unfold inst_created; cbn; rewrite E, C; reflexivity.
Qed.
Lemma tw_on_register_result code tmo s : TW s (on_register_result code tmo s).
Proof.
  unfold on_register_result. destruct (code =? RESULTCODE_TRUE); [|apply tb_stop_with_delay].
  remember (k_reset (set_registered 1 (set_actto tmo s))) as s1 eqn:E1.
  assert (H1 : TW s s1).
  { subst s1. eapply TW_trans; [apply tw_set_actto|]. eapply TW_trans; [apply tw_set_registered1|]. apply TQ_TW, tq_k_reset. }
  clear E1. eapply TW_trans; [exact H1|]. clear H1.
  assert (H2 : TW s1 (match srpc s1 with
                      | Some p => set_srpc (Some (mkrpc (sid p) (rr_last p) (oq p) (obuf p) (ibuf p) (hist p) true (refused_at p) (created_at p))) s1
                      | None => s1 end)).
  { destruct (srpc s1) as [p|] eqn:E; [|apply TW_refl]. apply (tw_set_rpc_same s1 p); auto. }
  remember (match srpc s1 with Some p => _ | None => s1 end) as s2 eqn:E2. clear E2.
  eapply TW_trans; [exact H2|]. clear H2.
  eapply TW_trans; [apply TQ_TW, tq_gpio_conn|].
  eapply TW_trans; [|apply TQ_TW, tq_arm; notcore]. eapply TW_trans; [|apply TQ_TW, tq_disarm; notcore].
  destruct (tmo =? ACTIVITY_TIMEOUT_DEFAULT); [apply TW_refl|apply TQ_TW, tq_async_call].
Qed.
Lemma tw_handler_body f s0 : TW s0 (handler_body f s0).
Proof.
  unfold handler_body.
  destruct (_ && _); [apply tw_on_register_result|].
  destruct (_ && _); [apply tb_stop_with_delay|].
  destruct (_ && _); [eapply TW_trans; [apply tw_set_actto|apply TQ_TW, tq_k_reset]|].
  destruct (_ && _); [apply TQ_TW, tq_async_call|apply TW_refl].
Qed.
(* the reception of one call *)
Lemma ts_handler f s : TStep s (handler f s) /\ nresp (handler f s) = nresp s + 1 /\ lastresp (handler f s) = uptime s.
Proof.
  rewrite handler_eq. destruct (tw_handler_body f (handler_pre s)) as [B [N L]].
  assert (P : TBase s (handler_pre s)) by (unfold handler_pre; tb_leaf).
  assert (N' : nresp (handler_body f (handler_pre s)) = nresp s + 1) by (rewrite N; reflexivity).
  assert (L' : lastresp (handler_body f (handler_pre s)) = uptime s) by (rewrite L; reflexivity).
  split; [|auto]. split; [eapply TBase_trans; eauto|]. right. split; [lia|auto].
Qed.

Lemma tq_srpc_out s : TQ s (srpc_out s).
Proof.
  unfold srpc_out. destruct (srpc s) as [p|] eqn:E; [|apply TQ_refl].
  destruct (match oq p with f :: rest => (rest, obuf p ++ encode f) | [] => ([], obuf p) end) as [q ob].
  set (n := if OUT_CHUNK <? len ob then OUT_CHUNK else len ob).
  set (s1 := set_srpc _ s).
  assert (H1 : TQ s s1).
  { subst s1. apply TQ_intro; [|repeat split; auto|split; reflexivity]. constructor; cbn; auto; try lia. unfold inst_created; cbn; rewrite E; reflexivity. }
  destruct (0 <? n); [eapply TQ_trans; [exact H1|apply tq_data_write]|exact H1].
Qed.
Lemma tq_with_ibuf s p b : srpc s = Some p -> TQ s (set_srpc (Some (with_ibuf b p)) s).
Proof.
  intros E. apply TQ_intro; [|repeat split; auto|split; reflexivity]. constructor; cbn; auto; try lia. unfold inst_created; cbn; rewrite E; reflexivity.
Qed.
Lemma ts_srpc_iterate s : TStep s (srpc_iterate s).
Proof.
  unfold srpc_iterate. destruct (srpc s) as [p|] eqn:E; [|apply TStep_refl].
  set (n := if OUT_CHUNK <? len (recvbuf s) then OUT_CHUNK else len (recvbuf s)).
  set (s1 := set_recvbuf (drop n (recvbuf s)) s).
  assert (H1 : TQ s s1) by apply tq_set_recvbuf.
  assert (E1 : srpc s1 = Some p) by exact E.
  destruct (if 0 <? n then _ else _) as [b|]; [|eapply TStep_trans; [apply TQ_TStep; exact H1|apply ts_restart]].
  destruct (C01.Model.pop _ b []) as [[b' f] r].
  set (s2 := set_srpc (Some (with_ibuf b' p)) s1).
  assert (H2 : TQ s s2) by (eapply TQ_trans; [exact H1|apply tq_with_ibuf; auto]).
  destruct r; try (eapply TStep_trans; [apply TQ_TStep; exact H2|apply ts_restart]).
  - eapply TStep_trans; [apply TQ_TStep; exact H2|]. eapply TStep_trans; [apply ts_handler|apply TQ_TStep, tq_srpc_out].
  - apply TQ_TStep. eapply TQ_trans; [exact H2|apply tq_srpc_out].
Qed.
Lemma ts_set_registered_m1 s : registered s = 0 -> TStep s (set_registered (-1) s).
Proof.
  intros R. split; [|left; repeat split; auto; intros; discriminate].
  constructor; cbn; auto; try lia; intros; try lia.
Qed.
Lemma ts_devconn_iterate s : TStep s (devconn_iterate s).
Proof.
  unfold devconn_iterate. destruct (srpc s) as [p|] eqn:E; [|apply TStep_refl].
  set (s1 := if registered s =? 0 then _ else s).
  assert (H1 : TStep s s1).
  { subst s1. destruct (registered s =? 0) eqn:R; [|apply TStep_refl]. apply Z.eqb_eq in R.
    eapply TStep_trans; [apply ts_set_registered_m1; auto|apply TQ_TStep, tq_async_call]. }
  eapply TStep_trans; [exact H1|]. eapply TStep_trans; [apply TQ_TStep, tq_data_write|apply ts_srpc_iterate].
Qed.
Lemma ts_recv_cb b s : TStep s (recv_cb b s).
Proof.
  unfold recv_cb. destruct (len b =? 0); [apply TStep_refl|]. destruct (_ <=? _); [|apply TStep_refl].
  eapply TStep_trans; [apply TQ_TStep, tq_set_recvbuf|apply ts_devconn_iterate].
Qed.
Lemma tq_local_call api s : TQ s (local_call api s).
Proof.
  unfold local_call. destruct (api <? 0); [apply TQ_refl|]. destruct (site_of_api api); [|apply TQ_refl].
  destruct (if _ =? 0 then _ else _); [apply tq_async_call|apply TQ_refl].
Qed.
Lemma ts_srv_cb s : TStep s (srv_cb s).
Proof.
  unfold srv_cb. destruct (srvq s) as [|d rest]; [apply TStep_refl|].
  set (s1 := set_srvq rest s).
  set (s2 := match rest with [] => s1 | d0 :: _ => _ end).
  assert (H2 : TQ s s2).
  { subst s2 s1. destruct rest; apply TQ_intro; try tb_leaf; repeat split; auto. }
  destruct (link s2 =? L_LIVE); [|apply TQ_TStep; exact H2].
  eapply TStep_trans; [apply TQ_TStep; eapply TQ_trans; [exact H2|apply tq_emit]|apply ts_recv_cb].
Qed.

(* SDK espconn / Wi-Fi *)
Lemma tq_set_link v s : v <> L_PENDING -> TQ s (set_link v s).
Proof. intros H. apply TQ_intro; [|repeat split; auto|split; reflexivity]. constructor; cbn; auto; try lia; try (intros; contradiction). Qed.
Lemma tq_sdk_disconnect s : TQ s (sdk_disconnect s).
Proof.
  destruct consts_ok as [_ _ _ _ _ [K1 [K2 [K3 [K4 K5]]]] _ _].
  unfold sdk_disconnect. set (s1 := emit O_DISCONNECT [now s] s).
  assert (H1 : TQ s s1) by apply tq_emit.
  destruct (link s1 =? L_LIVE).
  - eapply TQ_trans; [exact H1|]. eapply TQ_trans; [apply tq_wire_close|apply tq_set_link; auto].
  - destruct (link s1 =? L_PENDING); [|exact H1]. eapply TQ_trans; [exact H1|apply tq_set_link; auto].
Qed.
Lemma tq_sdk_connect s : started s = true -> TQ s (sdk_connect s).
Proof.
  intros St. unfold sdk_connect. set (s1 := emit O_CONNECT [now s] s).
  assert (H1 : TQ s s1) by apply tq_emit.
  set (s2 := if link s1 =? L_LIVE then wire_close s1 else s1).
  assert (H2 : TQ s s2) by (subst s2; destruct (_ =? _); [eapply TQ_trans; [exact H1|apply tq_wire_close]|exact H1]).
  eapply TQ_trans; [exact H2|].
  apply TQ_intro; [|repeat split; auto|split; reflexivity]. constructor; cbn; auto; try lia.
  intros _. right. rewrite (tb_started _ _ (proj1 H2)). exact St.
Qed.
Lemma tq_set_resolving v s : TQ s (set_resolving v s).
Proof. apply TQ_intro; [tb_leaf|repeat split; auto|split; reflexivity]. Qed.
Lemma tq_resolvandconnect s : started s = true -> TQ s (resolvandconnect s).
Proof.
  intros St. unfold resolvandconnect. destruct (resolving s); [apply TQ_refl|].
  set (s1 := sdk_disconnect (set_resolving true s)).
  assert (H1 : TQ s s1) by (eapply TQ_trans; [apply tq_set_resolving|apply tq_sdk_disconnect]).
  set (s2 := sdk_disconnect (set_resolving false s1)).
  assert (H2 : TQ s s2) by (eapply TQ_trans; [exact H1|]; eapply TQ_trans; [apply tq_set_resolving|apply tq_sdk_disconnect]).
  eapply TQ_trans; [exact H2|apply tq_sdk_connect]. rewrite (tb_started _ _ (proj1 H2)). exact St.
Qed.
Lemma tq_gpio_disc s : TQ s (gpio_state_disconnected s).
Proof. unfold gpio_state_disconnected. destruct (_ =? _); [apply TQ_refl|]. apply TQ_intro; [tb_leaf|repeat split; auto|split; reflexivity]. Qed.
Lemma tq_gpio_ip s : TQ s (gpio_state_ipreceived s).
Proof. unfold gpio_state_ipreceived. destruct (_ =? _); [apply TQ_refl|]. apply TQ_intro; [tb_leaf|repeat split; auto|split; reflexivity]. Qed.
Lemma tq_set_wlast v s : TQ s (set_wlast v s).
Proof. apply TQ_intro; [tb_leaf|repeat split; auto|split; reflexivity]. Qed.
Lemma tq_set_wstatus v s : TQ s (set_wstatus v s).
Proof. apply TQ_intro; [tb_leaf|repeat split; auto|split; reflexivity]. Qed.
Lemma tq_wifi_check_status s : TQ s (wifi_check_status s).
Proof.
  unfold wifi_check_status. destruct (_ =? _); [apply TQ_refl|].
  set (s1 := set_wlast (wstatus s) s).
  set (s2 := if wstatus s =? STATION_GOT_IP_ then gpio_state_ipreceived s1 else gpio_state_disconnected s1).
  assert (H2 : TQ s s2).
  { subst s2 s1. eapply TQ_trans; [apply tq_set_wlast|]. destruct (_ =? _); [apply tq_gpio_ip|apply tq_gpio_disc]. }
  destruct (started s2) eqn:St; cbn [andb]; [|exact H2].
  destruct (_ && _); [|exact H2]. eapply TQ_trans; [exact H2|apply tq_resolvandconnect; auto].
Qed.
Lemma tq_wifi_station_connect s : TQ s (wifi_station_connect s).
Proof.
  unfold wifi_station_connect.
  set (s1 := gpio_state_disconnected s).
  set (s2 := set_wstatus STATION_CONNECTING_ (emit O_WIFISTART [now s1] s1)).
  assert (H2 : TQ s s2).
  { subst s2 s1. eapply TQ_trans; [apply tq_gpio_disc|]. eapply TQ_trans; [apply tq_emit|apply tq_set_wstatus]. }
  set (s3 := if wlast s2 =? STATION_GOT_IP_ + 1 then wifi_check_status s2 else s2).
  assert (H3 : TQ s s3) by (subst s3; destruct (_ =? _); [eapply TQ_trans; [exact H2|apply tq_wifi_check_status]|exact H2]).
  eapply TQ_trans; [exact H3|]. eapply TQ_trans; [|apply tq_arm; notcore]. apply tq_disarm; notcore.
Qed.
Lemma wifi_station_connect_wifistart s : In (mk O_WIFISTART [now s] []) (outs (wifi_station_connect s)).
Proof.
  unfold wifi_station_connect.
  set (s1 := gpio_state_disconnected s).
  assert (N1 : now s1 = now s) by (apply (tb_now _ _ (proj1 (tq_gpio_disc s)))).
  set (s2 := set_wstatus STATION_CONNECTING_ (emit O_WIFISTART [now s1] s1)).
  assert (W2 : In (mk O_WIFISTART [now s] []) (outs s2)) by (subst s2; rewrite N1; left; reflexivity).
  set (s3 := if wlast s2 =? STATION_GOT_IP_ + 1 then wifi_check_status s2 else s2).
  assert (W3 : In (mk O_WIFISTART [now s] []) (outs s3)).
  { subst s3. destruct (_ =? _); auto. apply (tb_outs _ _ (proj1 (tq_wifi_check_status s2))). exact W2. }
  assert (NC : ~ core_timer T_wifi) by notcore.
  apply (tb_outs _ _ (proj1 (tq_arm T_wifi WIFI_CHECK_MS true (disarm T_wifi s3) NC))).
  apply (tb_outs _ _ (proj1 (tq_disarm T_wifi s3 NC))). exact W3.
Qed.
(* the disconnect callback and the plain events *)
Lemma tq_disc_step s : TQ s (disc_step s).
Proof.
  destruct consts_ok as [_ _ _ _ _ [K1 [K2 [K3 [K4 K5]]]] _ _].
  unfold disc_step. set (s1 := if link s =? L_LIVE then wire_close s else s).
  assert (H1 : TQ s s1) by (subst s1; destruct (_ =? _); [apply tq_wire_close|apply TQ_refl]).
  unfold disconnect_cb.
  set (s2 := set_recvbuf [] (set_espbuf [] (gpio_state_ipreceived (set_link L_IDLE (emit O_DISCD [now s1; conn s1; evi s1] s1))))).
  assert (H2 : TQ s s2).
  { subst s2. eapply TQ_trans; [|apply tq_set_recvbuf]. eapply TQ_trans; [|apply tq_set_espbuf]. eapply TQ_trans; [|apply tq_gpio_ip].
    eapply TQ_trans; [|apply tq_set_link; auto]. eapply TQ_trans; [exact H1|apply tq_emit]. }
  destruct (started s2); [|exact H2].
  eapply TQ_trans; [exact H2|]. eapply TQ_trans; [|apply tq_arm; notcore]. apply tq_disarm; notcore.
Qed.
Lemma tq_disccb s : TQ s (dev_step s DiscCb).
Proof. cbn [dev_step]. apply tq_disc_step. Qed.

(* ---------- (3) timing invariants ---------- *)
Definition WD_US : Z := WATCHDOG_MS * 1000.
Definition T1_US : Z := TIMER1_MS * 1000.
Definition IT_US : Z := ITERATE_MS * 1000.
(* uptime.c across any number of wraps of the 32-bit microsecond counter: usec_at s t is uptime_usec() at true time t
   (one cycle counts as 0xffffffff us there, i.e. one microsecond is lost per wrap); Upt = uptime_sec() before the
   truncation to 32 bits.  The only restriction left is that the uptime in SECONDS fits 32 bits (136 years). *)
Definition usec_at (s : st) (t : Z) : Z :=
  (cycles0 s + (boot s + t) / 4294967296) * 4294967295 + (boot s + t) mod 4294967296.
Definition Upt (s : st) (t : Z) : Z := usec_at s t / 1000 / 1000.
Definition nowrap_at (s : st) (t : Z) : Prop := 0 <= cycles0 s /\ 0 <= boot s /\ Upt s t < 4294967296.
Definition nowrap (s : st) : Prop := nowrap_at s (now s).
Lemma usec_closed s t : usec_at s t = cycles0 s * 4294967295 + (boot s + t) - (boot s + t) / 4294967296.
Proof. unfold usec_at. pose proof (Z.div_mod (boot s + t) 4294967296 ltac:(lia)). lia. Qed.
Lemma usec_mono s t1 t2 : t1 <= t2 -> usec_at s t1 <= usec_at s t2.
Proof.
  intros H. rewrite !usec_closed.
  pose proof (Z.div_mod (boot s + t1) 4294967296 ltac:(lia)). pose proof (Z.mod_pos_bound (boot s + t1) 4294967296 ltac:(lia)).
  pose proof (Z.div_mod (boot s + t2) 4294967296 ltac:(lia)). pose proof (Z.mod_pos_bound (boot s + t2) 4294967296 ltac:(lia)). lia.
Qed.
Lemma Upt_eq s t : Upt s t = usec_at s t / 1000000.
Proof. unfold Upt. rewrite Z.div_div by lia. reflexivity. Qed.
Lemma Upt_mono s t1 t2 : t1 <= t2 -> Upt s t1 <= Upt s t2.
Proof. intros H. rewrite !Upt_eq. apply Z.div_le_mono; [lia|apply usec_mono; auto]. Qed.
Lemma usec_nonneg s t : 0 <= cycles0 s -> 0 <= boot s + t -> 0 <= usec_at s t.
Proof.
  intros C B. rewrite usec_closed.
  pose proof (Z.div_mod (boot s + t) 4294967296 ltac:(lia)). pose proof (Z.mod_pos_bound (boot s + t) 4294967296 ltac:(lia)).
  assert (0 <= (boot s + t) / 4294967296) by (apply Z.div_pos; lia). lia.
Qed.
Lemma uptime_nowrap s : nowrap s -> 0 <= now s -> uptime s = Upt s (now s).
Proof.
  intros [C [B W]] N. unfold uptime. change (uptime_usec s) with (usec_at s (now s)). apply u32_small.
  split; [|exact W]. rewrite Upt_eq. apply Z.div_pos; [apply usec_nonneg; lia|lia].
Qed.
(* d seconds of uptime take at most d s of real time plus one microsecond per counter wrap in between *)
Lemma elapsed_bound s tau x d : 0 <= d -> Upt s x - Upt s tau < d ->
  x - ((boot s + x) / 4294967296 - (boot s + tau) / 4294967296) < tau + d * 1000000.
Proof.
  intros Hd H. rewrite !Upt_eq in H.
  destruct (Z_lt_dec (x - ((boot s + x) / 4294967296 - (boot s + tau) / 4294967296)) (tau + d * 1000000)); auto. exfalso.
  assert (G : usec_at s tau + d * 1000000 <= usec_at s x) by (rewrite !usec_closed; lia).
  pose proof (Z.div_le_mono _ _ 1000000 ltac:(lia) G) as G'. rewrite Z.div_add in G' by lia. lia.
Qed.
Lemma wraps_mono b x y : x <= y -> (b + x) / 4294967296 <= (b + y) / 4294967296.
Proof. intros. apply Z.div_le_mono; lia. Qed.
Lemma uptime_nonneg s : 0 <= uptime s. Proof. unfold uptime. apply u32_range. Qed.

Record tfacts : Prop := {
  tf_plus : 1 <= PING_RECONNECT_PLUS <= 1000;
  tf_periods : 0 < WD_US /\ 0 < T1_US /\ 0 < IT_US;
  tf_wd : 0 <= WATCHDOG_TIMEOUT_S < 4294967296
}.
Lemma tfacts_ok : tfacts. Proof. constructor; vm_compute; repeat split; congruence. Qed.

Section Timing.
Variable J : Z.
Hypothesis HJ : 0 <= J.

Record TR (s : st) : Prop := {
  r_lat : Forall (fun l => 0 <= l <= J) (lat s);
  r_now : 0 <= now s;
  r_wd : armed (t_wd s) = true /\ period (t_wd s) = WD_US;
  r_t1p : armed (t_timer1 s) = true -> period (t_timer1 s) = T1_US;
  r_itp : armed (t_iter s) = true -> period (t_iter s) = IT_US;
  r_started : started s = true -> armed (t_timer1 s) = true;
  r_pending : link s = L_PENDING -> started s = true;
  r_rpc : srpc s <> None -> started s = true /\ armed (t_iter s) = true;
  r_tok : forall t, t = t_wd s \/ t = t_timer1 s \/ t = t_iter s -> armed t = true -> now s <= due t + J;
  r_ahead : forall t, t = t_wd s \/ t = t_timer1 s -> armed t = true -> due t <= now s + period t;
  r_lr : nowrap s -> 0 <= lastresp s <= uptime s
}.
(* the last watchdog tick did not see more than WATCHDOG_TIMEOUT_SEC of silence *)
Definition Wd (s : st) : Prop := nowrap s -> halted s = false -> Upt s (due (t_wd s) - WD_US) - lastresp s <= WATCHDOG_TIMEOUT_S.
(* the last timer1 tick of a registered device did not see timeout + 10 of silence *)
Definition T1 (s : st) : Prop := nowrap s -> is_registered s = true -> 0 < actto s < 4294966000 ->
  Upt s (due (t_timer1 s) - T1_US) - lastresp s < actto s + PING_RECONNECT_PLUS.
(* until the registration has been issued, the first iterate tick is the one armed by the connect callback *)
Definition C0 (s : st) : Prop := registered s = 0 -> forall p, srpc s = Some p -> due (t_iter s) = created_at p + IT_US.
Definition All (s : st) : Prop := TR s /\ Wd s /\ T1 s /\ C0 s.

Lemma nowrap_frame s s' : now s' = now s -> boot s' = boot s -> cycles0 s' = cycles0 s -> nowrap s' -> nowrap s.
Proof. unfold nowrap, nowrap_at, Upt, usec_at. intros -> -> ->. auto. Qed.
Lemma Upt_frame s s' t : boot s' = boot s -> cycles0 s' = cycles0 s -> Upt s' t = Upt s t.
Proof. unfold Upt, usec_at. intros -> ->. reflexivity. Qed.
Lemma nowrap_later s s' : boot s' = boot s -> cycles0 s' = cycles0 s -> now s <= now s' -> 0 <= now s -> nowrap s' -> nowrap s.
Proof.
  unfold nowrap, nowrap_at. intros B C H H0 [a [b c]]. rewrite <- B, <- C. repeat split; auto.
  rewrite <- (Upt_frame s s') by auto. pose proof (Upt_mono s' (now s) (now s') H). lia.
Qed.
Lemma srpc_none_created s : srpc s = None <-> inst_created s = None.
Proof. unfold inst_created. destruct (srpc s); split; intros; congruence. Qed.
Lemma is_registered_iff s : is_registered s = true <-> registered s = 1 /\ srpc s <> None.
Proof.
  unfold is_registered. destruct (srpc s); split.
  - intros H. apply Z.eqb_eq in H. split; [auto|discriminate].
  - intros [H _]. apply Z.eqb_eq; auto.
  - discriminate.
  - intros [_ H]. contradiction.
Qed.

Lemma TR_TStep s s' : TR s -> TStep s s' -> TR s'.
Proof.
  intros [Rl Rn Rw Rp Ri Rs Rpe Rr Rt Ra Rlr] [B Q].
  pose proof (TBase_uptime _ _ B) as U.
  destruct B as [Bn Bb Bc Bl Bw B1 Bi Bs Bk Bcr B0 Br1 Bnr Bh Bo].
  constructor; try rewrite Bn; try rewrite Bl; try rewrite Bw; try rewrite B1; try rewrite Bi; try rewrite Bs; auto.
  - intros H. destruct (Bk H) as [H1|H1]; auto.
  - intros H. apply Rr. intros E. apply H. apply srpc_none_created. rewrite Bcr. apply srpc_none_created. exact E.
  - intros NW. assert (NW0 : nowrap s) by (apply (nowrap_frame s s' Bn Bb Bc NW)). specialize (Rlr NW0). rewrite U.
    destruct Q as [[_ [L _]]|[_ L]]; rewrite L; [exact Rlr|]. split; [apply uptime_nonneg|lia].
Qed.
Lemma Wd_TStep s s' : TR s -> Wd s -> TStep s s' -> Wd s'.
Proof.
  intros R W [B Q] NW Hh.
  assert (NW0 : nowrap s) by (apply (nowrap_frame s s' (tb_now _ _ B) (tb_boot _ _ B) (tb_cyc _ _ B) NW)).
  assert (Hh0 : halted s = false) by (destruct (tb_halt _ _ B) as [E|[E _]]; congruence).
  specialize (W NW0 Hh0). pose proof (r_lr _ R NW0) as L.
  rewrite (tb_wd _ _ B), (Upt_frame s s') by apply B.
  destruct Q as [[_ [E _]]|[_ E]]; rewrite E; lia.
Qed.
Lemma T1_TStep s s' : TR s -> T1 s -> TStep s s' -> T1 s'.
Proof.
  intros R W [B Q] NW HR HT.
  assert (NW0 : nowrap s) by (apply (nowrap_frame s s' (tb_now _ _ B) (tb_boot _ _ B) (tb_cyc _ _ B) NW)).
  apply is_registered_iff in HR. destruct HR as [R1 N1].
  assert (N0 : srpc s <> None) by (intros E; apply N1; apply srpc_none_created; rewrite (tb_cre _ _ B); apply srpc_none_created; exact E).
  rewrite (tb_t1 _ _ B), (Upt_frame s s') by apply B.
  destruct Q as [[_ [L [A [Rg _]]]]|[_ L]].
  - rewrite L, A in *. apply W; auto. apply is_registered_iff. split; auto.
  - rewrite L. destruct (r_rpc _ R N0) as [St Ai]. pose proof (r_started _ R St) as A1.
    pose proof (r_ahead _ R (t_timer1 s) (or_intror eq_refl) A1) as Ah. rewrite (r_t1p _ R A1) in Ah.
    rewrite (uptime_nowrap s NW0 (r_now _ R)).
    pose proof (Upt_mono s (due (t_timer1 s) - T1_US) (now s) ltac:(lia)).
    destruct tfacts_ok as [Kp _]. lia.
Qed.
Lemma C0_TStep s s' : C0 s -> TStep s s' -> C0 s'.
Proof.
  intros C [B _] R0 p' E'. pose proof (tb_reg0 _ _ B R0) as R.
  pose proof (tb_cre _ _ B) as Cr. unfold inst_created in Cr. rewrite E' in Cr.
  destruct (srpc s) as [p|] eqn:E; [|discriminate]. inversion Cr. rewrite (tb_it _ _ B). rewrite H0. apply C; auto.
Qed.
Lemma All_TStep s s' : All s -> TStep s s' -> All s'.
Proof.
  intros [R [W [T C]]] H. split; [eapply TR_TStep; eauto|]. split; [eapply Wd_TStep; eauto|].
  split; [eapply T1_TStep; eauto|eapply C0_TStep; eauto].
Qed.
Lemma All_TQ s s' : All s -> TQ s s' -> All s'.
Proof. intros A H. eapply All_TStep; eauto. apply TQ_TStep; auto. Qed.

(* --- __stop / start / __reconnect --- *)
Definition Same (s s' : st) : Prop :=
  now s' = now s /\ boot s' = boot s /\ cycles0 s' = cycles0 s /\ lat s' = lat s /\ t_wd s' = t_wd s /\
  lastresp s' = lastresp s /\ actto s' = actto s /\ nresp s' = nresp s /\ halted s' = halted s /\
  (forall x, In x (outs s) -> In x (outs s')) /\ t_stop s' = t_stop s.
Lemma Same_refl s : Same s s. Proof. unfold Same. repeat split; auto. Qed.
Lemma Same_trans s1 s2 s3 : Same s1 s2 -> Same s2 s3 -> Same s1 s3.
Proof.
  intros [a1 [a2 [a3 [a4 [a5 [a6 [a7 [a8 [a9 [a10 a11]]]]]]]]]] [b1 [b2 [b3 [b4 [b5 [b6 [b7 [b8 [b9 [b10 b11]]]]]]]]]].
  unfold Same. repeat split; try congruence. auto.
Qed.
Lemma Same_TQ s s' : TQ s s' -> Same s s'.
Proof. intros [B [[q1 [q2 [q3 [_ q5]]]] [h _]]]. unfold Same. repeat split; try apply B; auto. Qed.
Ltac same_leaf := unfold Same; cbn; repeat split; auto.
Lemma same_set_tm i v s : i <> T_wd /\ i <> T_stop -> Same s (set_tm i v s).
Proof. intros [H H']. destruct i; try contradiction; same_leaf. Qed.
Lemma same_arm i ms r s : i <> T_wd /\ i <> T_stop -> Same s (arm i ms r s).
Proof. intros H. unfold arm. eapply Same_trans; [|apply same_set_tm; auto]. same_leaf. Qed.
Lemma same_disarm i s : i <> T_wd /\ i <> T_stop -> Same s (disarm i s).
Proof. intros H. unfold disarm. apply same_set_tm; auto. Qed.

Lemma stop_fields s : let s' := devconn_stop s in
  Same s s' /\ armed (t_timer1 s') = false /\ armed (t_iter s') = false /\ started s' = false /\ srpc s' = None /\
  registered s' = 0 /\ link s' <> L_PENDING.
Proof.
  unfold devconn_stop.
  set (s2 := disarm T_iter (disarm T_timer1 (set_started false (set_registered 0 s)))).
  assert (S2 : Same s s2).
  { subst s2. eapply Same_trans; [|apply same_disarm; split; discriminate]. eapply Same_trans; [|apply same_disarm; split; discriminate]. same_leaf. }
  set (s3 := sdk_disconnect s2).
  pose proof (tq_sdk_disconnect s2) as Q3. fold s3 in Q3. destruct Q3 as [B3 Q3'].
  assert (S3 : Same s s3) by (eapply Same_trans; [exact S2|apply Same_TQ; split; auto]).
  pose proof (core_sdk_disconnect s2) as C. fold s3 in C.
  assert (L3 : link s3 <> L_PENDING).
  { assert (E : link s3 = link_after_disconnect (link s2)) by (change (c_link (core_of s3) = link_after_disconnect (link s2)); rewrite C; reflexivity).
    rewrite E. apply link_after_disconnect_pending. }
  assert (R3 : registered s3 = 0) by (change (c_reg (core_of s3) = 0); rewrite C; reflexivity).
  assert (A1 : armed (t_timer1 s3) = false) by (rewrite (tb_t1 _ _ B3); reflexivity).
  assert (A2 : armed (t_iter s3) = false) by (rewrite (tb_it _ _ B3); reflexivity).
  assert (St : started s3 = false) by (rewrite (tb_started _ _ B3); reflexivity).
  set (s4 := set_srpc None s3).
  assert (S4 : Same s s4) by (eapply Same_trans; [exact S3|same_leaf]).
  destruct (clrstop s4).
  - split; [eapply Same_trans; [exact S4|same_leaf]|]. repeat split; auto.
  - split; [exact S4|]. repeat split; auto.
Qed.

Lemma stop_all s : TR s -> Wd s -> All (devconn_stop s).
Proof.
  intros R W. destruct (stop_fields s) as [[a1 [a2 [a3 [a4 [a5 [a6 [a7 [a8 [a9 [a10 a10']]]]]]]]]] [a11 [a12 [a13 [a14 [a15 a16]]]]]].
  remember (devconn_stop s) as s' eqn:Es'. clear Es'.
  assert (NWF : nowrap s' -> nowrap s) by (apply nowrap_frame; auto).
  split; [|split; [|split]].
  - destruct R as [Rl Rn Rw Rp Ri Rs Rpe Rr Rt Ra Rlr]. constructor.
    + rewrite a4; auto.
    + rewrite a1; auto.
    + rewrite a5; auto.
    + rewrite a11. discriminate.
    + rewrite a12. discriminate.
    + rewrite a13. discriminate.
    + intros H. contradiction.
    + intros H. contradiction.
    + intros t [E|[E|E]] At; subst t.
      * rewrite a1, a5. apply Rt; auto. rewrite <- a5; auto.
      * rewrite a11 in At. discriminate.
      * rewrite a12 in At. discriminate.
    + intros t [E|E] At; subst t; [rewrite a1, a5; apply Ra; auto; rewrite <- a5; auto|]. rewrite a11 in At. discriminate.
    + intros NW. rewrite a6, (uptime_frame s s' a1 a2 a3). apply Rlr; auto.
  - intros NW Hh. rewrite a5, a6, (Upt_frame s s') by auto. apply W; auto. rewrite <- a9; exact Hh.
  - intros NW HR. apply is_registered_iff in HR. destruct HR as [_ N]. contradiction.
  - intros _ p E. rewrite a14 in E. discriminate E.
Qed.

Lemma arm_t1_fields ms s : let s' := arm T_timer1 ms true s in
  Same s s' /\ t_iter s' = t_iter s /\ armed (t_timer1 s') = true /\ due (t_timer1 s') = now s + ms * 1000 /\ period (t_timer1 s') = ms * 1000 /\
  started s' = started s /\ inst_created s' = inst_created s /\ registered s' = registered s /\ outs s' = outs s.
Proof. cbn zeta. split; [apply same_arm; split; discriminate|]. repeat split. Qed.
Lemma disarm2_fields s : let s' := disarm T_timer1 (disarm T_recon s) in
  Same s s' /\ t_iter s' = t_iter s /\ started s' = started s /\ inst_created s' = inst_created s /\ registered s' = registered s /\ outs s' = outs s.
Proof.
  cbn zeta. split; [eapply Same_trans; [|apply same_disarm; split; discriminate]; apply same_disarm; split; discriminate|]. repeat split.
Qed.
Lemma set_started_fields b s : let s' := set_started b s in
  Same s s' /\ t_iter s' = t_iter s /\ started s' = b /\ inst_created s' = inst_created s /\ registered s' = registered s /\ outs s' = outs s.
Proof. cbn zeta. split; [same_leaf|]. repeat split. Qed.
Lemma TQ_fields s s' : TQ s s' -> Same s s' /\ t_iter s' = t_iter s /\ started s' = started s /\ inst_created s' = inst_created s /\ registered s' = registered s.
Proof. intros Q. split; [apply Same_TQ; auto|]. destruct Q as [B [_ [_ R]]]. repeat split; try apply B; auto. Qed.

Lemma start_fields s : let s' := devconn_start s in
  Same s s' /\ t_iter s' = t_iter s /\ armed (t_timer1 s') = true /\ due (t_timer1 s') = now s + T1_US /\ period (t_timer1 s') = T1_US /\
  started s' = true /\ inst_created s' = inst_created s /\ registered s' = registered s /\
  (link s' = L_PENDING -> True) /\ In (mk O_WIFISTART [now s] []) (outs s').
Proof.
  unfold devconn_start.
  destruct (TQ_fields _ _ (tq_gpio_ip s)) as [S0 [I0 [St0 [C0' R0]]]].
  generalize dependent (gpio_state_ipreceived s). intros s0 S0 I0 St0 C0' R0.
  destruct (set_started_fields true s0) as [S1 [I1 [St1 [C1 [R1 O1]]]]].
  generalize dependent (set_started true s0). intros s1 S1 I1 St1 C1 R1 O1.
  destruct (TQ_fields _ _ (tq_wifi_station_connect s1)) as [S2 [I2 [St2 [C2 R2]]]].
  pose proof (wifi_station_connect_wifistart s1) as W2.
  generalize dependent (wifi_station_connect s1). intros s2 S2 I2 St2 C2 R2 W2.
  destruct (disarm2_fields s2) as [S3 [I3 [St3 [C3 [R3 O3]]]]].
  generalize dependent (disarm T_timer1 (disarm T_recon s2)). intros s3 S3 I3 St3 C3 R3 O3.
  destruct (arm_t1_fields TIMER1_MS s3) as [S4 [I4 [A4 [D4 [P4 [St4 [C4 [R4 O4]]]]]]]].
  generalize dependent (arm T_timer1 TIMER1_MS true s3). intros s4 S4 I4 A4 D4 P4 St4 C4 R4 O4.
  assert (SS : Same s s4) by (eapply Same_trans; [|exact S4]; eapply Same_trans; [|exact S3]; eapply Same_trans; [|exact S2]; eapply Same_trans; [exact S0|exact S1]).
  assert (N1 : now s1 = now s) by (destruct S0 as [a _]; destruct S1 as [b _]; congruence).
  assert (N3 : now s3 = now s) by (destruct S2 as [a _]; destruct S3 as [b _]; congruence).
  split; [exact SS|]. unfold T1_US.
  split; [congruence|]. split; [exact A4|]. split; [rewrite D4, N3; reflexivity|]. split; [exact P4|].
  split; [congruence|]. split; [congruence|]. split; [congruence|]. split; [auto|].
  rewrite O4, O3. rewrite N1 in W2. exact W2.
Qed.

Lemma start_all s : All s -> srpc s = None -> All (devconn_start s).
Proof.
  intros [R [W [T C]]] Hn.
  destruct (start_fields s) as [[a1 [a2 [a3 [a4 [a5 [a6 [a7 [a8 [a9 [a10 a10']]]]]]]]]] [b1 [b2 [b3 [b4 [b5 [b6 [b7 [_ b9]]]]]]]]].
  remember (devconn_start s) as s' eqn:Es'. clear Es'.
  assert (NWF : nowrap s' -> nowrap s) by (apply nowrap_frame; auto).
  assert (N' : srpc s' = None) by (apply srpc_none_created; rewrite b6; apply srpc_none_created; auto).
  destruct tfacts_ok as [_ [_ [P1 _]] _].
  split; [|split; [|split]].
  - destruct R as [Rl Rn Rw Rp Ri Rs Rpe Rr Rt Ra Rlr]. constructor.
    + rewrite a4; auto.
    + rewrite a1; auto.
    + rewrite a5; auto.
    + auto.
    + rewrite b1; auto.
    + auto.
    + auto.
    + intros H. contradiction.
    + intros t [E|[E|E]] At; subst t.
      * rewrite a1, a5. apply Rt; auto. rewrite <- a5; auto.
      * rewrite a1, b3. lia.
      * rewrite a1, b1. apply Rt; auto. rewrite <- b1; auto.
    + intros t [E|E] At; subst t; [rewrite a1, a5; apply Ra; auto; rewrite <- a5; auto|]. rewrite a1, b3, b4. lia.
    + intros NW. rewrite a6, (uptime_frame s s' a1 a2 a3). apply Rlr; auto.
  - intros NW Hh. rewrite a5, a6, (Upt_frame s s') by auto. apply W; auto. rewrite <- a9; exact Hh.
  - intros NW HR. apply is_registered_iff in HR. destruct HR as [_ N]. contradiction.
  - intros _ p E. rewrite N' in E. discriminate E.
Qed.

Lemma reconnect_all s : TR s -> Wd s -> All (devconn_reconnect s).
Proof.
  intros R W. unfold devconn_reconnect. set (s0 := set_nextwd _ s).
  assert (Q0 : TQ s s0) by (subst s0; apply TQ_intro; [tb_leaf|repeat split; auto|split; reflexivity]).
  assert (R0 : TR s0) by (eapply TR_TStep; [exact R|apply TQ_TStep; auto]).
  assert (W0 : Wd s0) by (eapply Wd_TStep; [exact R|exact W|apply TQ_TStep; auto]).
  apply start_all; [apply stop_all; auto|]. apply (stop_fields s0).
Qed.

(* --- connect callback --- *)
Lemma arm_iter_fields ms s : let s' := arm T_iter ms true s in
  Same s s' /\ t_timer1 s' = t_timer1 s /\ armed (t_iter s') = true /\ due (t_iter s') = now s + ms * 1000 /\ period (t_iter s') = ms * 1000 /\
  started s' = started s /\ srpc s' = srpc s /\ registered s' = registered s /\ link s' = link s /\ clrconn s' = clrconn s.
Proof. cbn zeta. split; [apply same_arm; split; discriminate|]. repeat split. Qed.
Lemma conncb_fields s : let s' := dev_step s ConnCb in
  Same s s' /\ t_timer1 s' = t_timer1 s /\ armed (t_iter s') = true /\ due (t_iter s') = now s + IT_US /\ period (t_iter s') = IT_US /\
  started s' = started s /\ srpc s' = Some (fresh_instance (conn s + 1) (now s)) /\ registered s' = registered s /\ link s' = L_LIVE.
Proof.
  cbn [dev_step]. unfold connect_cb.
  assert (F1 : let s1 := set_stalled false (set_wbuf [] (set_conn (conn s + 1) (set_link L_LIVE s))) in
          Same s s1 /\ t_timer1 s1 = t_timer1 s /\ started s1 = started s /\ registered s1 = registered s /\ link s1 = L_LIVE /\ conn s1 = conn s + 1 /\ now s1 = now s)
    by (cbn zeta; split; [same_leaf|repeat split]).
  cbn zeta in F1. destruct F1 as [S1 [T1' [St1 [R1 [L1 [Cn1 N1]]]]]].
  generalize dependent (set_stalled false (set_wbuf [] (set_conn (conn s + 1) (set_link L_LIVE s)))). intros s1 S1 T1' St1 R1 L1 Cn1 N1.
  assert (F2 : let s2 := set_srpc (Some (mkrpc (conn s1) 0 [] [] empty_inb [] false None (now s1))) s1 in
          Same s1 s2 /\ t_timer1 s2 = t_timer1 s1 /\ started s2 = started s1 /\ registered s2 = registered s1 /\ link s2 = link s1 /\
          srpc s2 = Some (fresh_instance (conn s1) (now s1)) /\ now s2 = now s1)
    by (cbn zeta; split; [same_leaf|repeat split]).
  cbn zeta in F2. destruct F2 as [S2 [T2 [St2 [R2 [L2 [P2 N2]]]]]].
  generalize dependent (set_srpc (Some (mkrpc (conn s1) 0 [] [] empty_inb [] false None (now s1))) s1). intros s2 S2 T2 St2 R2 L2 P2 N2.
  destruct (arm_iter_fields ITERATE_MS s2) as [S3 [T3 [A3 [D3 [Pe3 [St3 [P3 [R3 [L3 C3]]]]]]]]].
  generalize dependent (arm T_iter ITERATE_MS true s2). intros s3 S3 T3 A3 D3 Pe3 St3 P3 R3 L3 C3.
  assert (F4 : let s4 := (if clrconn s3 then set_recvbuf [] (set_espbuf [] s3) else s3) in
          Same s3 s4 /\ t_timer1 s4 = t_timer1 s3 /\ t_iter s4 = t_iter s3 /\ started s4 = started s3 /\ registered s4 = registered s3 /\ link s4 = link s3 /\ srpc s4 = srpc s3).
  { cbn zeta. destruct (clrconn s3); (split; [same_leaf|repeat split]). }
  cbn zeta in F4. destruct F4 as [S4 [T4 [I4 [St4 [R4 [L4 P4]]]]]].
  generalize dependent (if clrconn s3 then set_recvbuf [] (set_espbuf [] s3) else s3). intros s4 S4 T4 I4 St4 R4 L4 P4.
  assert (SS : Same s (emit O_FRESH [now s4; conn s4; len (espbuf s4); len (recvbuf s4); registered s4; evi s4] s4)).
  { eapply Same_trans; [|apply Same_TQ, tq_emit]. eapply Same_trans; [|exact S4]. eapply Same_trans; [|exact S3].
    eapply Same_trans; [exact S1|exact S2]. }
  split; [exact SS|].
  cbn [t_timer1 t_iter started srpc registered link emit set_outs].
  unfold IT_US. rewrite I4, T4, T3, T2, T1', St4, St3, St2, St1, P4, P3, P2, R4, R3, R2, R1, L4, L3, L2, L1, D3, N2, N1, Cn1.
  repeat split; auto.
Qed.

(* --- one firing of the timer queue --- *)
Lemma get_set_tm_same i v s : get_tm i (set_tm i v s) = v. Proof. destruct i; reflexivity. Qed.
Lemma get_set_tm_other i j v s : j <> i -> get_tm j (set_tm i v s) = get_tm j s.
Proof. intros H. destruct i, j; try reflexivity; contradiction. Qed.
Definition prefire (i : tid) (s : st) : st :=
  let t := get_tm i s in
  let l := fst (lateness s) in let s0 := snd (lateness s) in
  let at_ := due t + l in
  let s1 := if now s0 <? at_ then set_now at_ s0 else s0 in
  let s2 := if 0 <? period t then set_tm i (mktimer true (due t + period t) (seqc s1 + 1) (period t)) (set_seqc (seqc s1 + 1) s1)
            else set_tm i (mktimer false (due t) (tseq t) 0) s1 in
  set_fired (fired s2 + 1) s2.
Lemma fire_eq i s : fire i s = callback i (prefire i s).
Proof. unfold fire, prefire. destruct (lateness s); reflexivity. Qed.

(* everything but the clock and the timers *)
Definition Rest (s s' : st) : Prop :=
  boot s' = boot s /\ cycles0 s' = cycles0 s /\ lat s' = lat s /\ started s' = started s /\ link s' = link s /\ srpc s' = srpc s /\
  registered s' = registered s /\ lastresp s' = lastresp s /\ actto s' = actto s /\ nresp s' = nresp s /\ halted s' = halted s /\
  outs s' = outs s.
Lemma Rest_refl s : Rest s s. Proof. unfold Rest. repeat split. Qed.
Lemma Rest_trans a b c : Rest a b -> Rest b c -> Rest a c.
Proof.
  unfold Rest. intros [a1 [a2 [a3 [a4 [a5 [a6 [a7 [a8 [a9 [a10 [a11 a12]]]]]]]]]]] [b1 [b2 [b3 [b4 [b5 [b6 [b7 [b8 [b9 [b10 [b11 b12]]]]]]]]]]].
  repeat split; congruence.
Qed.
Lemma rest_set_tm i v s : Rest s (set_tm i v s). Proof. destruct i; unfold Rest; repeat split. Qed.

Lemma lateness_fields s : Forall (fun l => 0 <= l <= J) (lat s) ->
  0 <= fst (lateness s) <= J /\ Rest s (snd (lateness s)) /\ now (snd (lateness s)) = now s /\ (forall j, get_tm j (snd (lateness s)) = get_tm j s).
Proof.
  intros HL. unfold lateness. destruct (lat s) as [|l0 r] eqn:E.
  - cbn [fst snd]. split; [lia|]. split; [apply Rest_refl|]. split; auto.
  - cbn [fst snd]. split.
    + rewrite Forall_forall in HL. apply HL. apply nth_In.
      assert (0 < len (l0 :: r)) by (rewrite len_cons; pose proof (len_nonneg r); lia).
      pose proof (Z.mod_pos_bound (lati s) (len (l0 :: r)) H). unfold len in *. lia.
    + split; [unfold Rest; repeat split|]. split; [reflexivity|]. intros j. destruct j; reflexivity.
Qed.

Lemma prefire_fields i s : Forall (fun l => 0 <= l <= J) (lat s) ->
  let s2 := prefire i s in let ti := get_tm i s in
  (exists l, 0 <= l <= J /\ now s2 = Z.max (now s) (due ti + l)) /\ Rest s s2 /\
  (forall j, j <> i -> get_tm j s2 = get_tm j s) /\
  get_tm i s2 = (if 0 <? period ti then mktimer true (due ti + period ti) (seqc s2) (period ti) else mktimer false (due ti) (tseq ti) 0).
Proof.
  intros HL. cbn zeta. unfold prefire.
  destruct (lateness_fields s HL) as [Lr [R0 [N0 G0]]].
  generalize dependent (fst (lateness s)). intros l Lr.
  generalize dependent (snd (lateness s)). intros s0 R0 N0 G0.
  set (ti := get_tm i s).
  assert (F1 : let s1 := (if now s0 <? due ti + l then set_now (due ti + l) s0 else s0) in
          now s1 = Z.max (now s) (due ti + l) /\ Rest s0 s1 /\ (forall j, get_tm j s1 = get_tm j s0)).
  { cbn zeta. destruct (now s0 <? due ti + l) eqn:E.
    - apply Z.ltb_lt in E. split; [cbn; lia|]. split; [unfold Rest; repeat split|]. intros j; destruct j; reflexivity.
    - apply Z.ltb_ge in E. split; [lia|]. split; [apply Rest_refl|auto]. }
  cbn zeta in F1. destruct F1 as [N1 [R1 G1]].
  generalize dependent (if now s0 <? due ti + l then set_now (due ti + l) s0 else s0). intros s1 N1 R1 G1.
  destruct (0 <? period ti).
  - split; [exists l; split; auto|].
    { cbn [now set_fired]. change (now (set_tm i ?v (set_seqc ?q s1))) with (now (set_tm i v (set_seqc q s1))).
      assert (X : forall v q, now (set_tm i v (set_seqc q s1)) = now s1) by (intros; destruct i; reflexivity). rewrite X. exact N1. }
    split; [|split].
    + eapply Rest_trans; [exact R0|]. eapply Rest_trans; [exact R1|].
      assert (X : forall v q, Rest s1 (set_fired (fired (set_tm i v (set_seqc q s1)) + 1) (set_tm i v (set_seqc q s1)))).
      { intros. destruct i; unfold Rest; repeat split. }
      apply X.
    + intros j Hj.
      assert (X : forall v q, get_tm j (set_fired (fired (set_tm i v (set_seqc q s1)) + 1) (set_tm i v (set_seqc q s1))) = get_tm j s1).
      { intros. destruct i, j; try reflexivity; contradiction. }
      rewrite X, G1, G0. reflexivity.
    + assert (X : forall v q, get_tm i (set_fired (fired (set_tm i v (set_seqc q s1)) + 1) (set_tm i v (set_seqc q s1))) = v /\
                              seqc (set_fired (fired (set_tm i v (set_seqc q s1)) + 1) (set_tm i v (set_seqc q s1))) = q).
      { intros. destruct i; split; reflexivity. }
      destruct (X (mktimer true (due ti + period ti) (seqc s1 + 1) (period ti)) (seqc s1 + 1)) as [X1 X2]. rewrite X1, X2. reflexivity.
  - split; [exists l; split; auto|].
    { assert (X : forall v, now (set_fired (fired (set_tm i v s1) + 1) (set_tm i v s1)) = now s1) by (intros; destruct i; reflexivity). rewrite X. exact N1. }
    split; [|split].
    + eapply Rest_trans; [exact R0|]. eapply Rest_trans; [exact R1|].
      assert (X : forall v, Rest s1 (set_fired (fired (set_tm i v s1) + 1) (set_tm i v s1))) by (intros; destruct i; unfold Rest; repeat split).
      apply X.
    + intros j Hj.
      assert (X : forall v, get_tm j (set_fired (fired (set_tm i v s1) + 1) (set_tm i v s1)) = get_tm j s1).
      { intros. destruct i, j; try reflexivity; contradiction. }
      rewrite X, G1, G0. reflexivity.
    + assert (X : forall v, get_tm i (set_fired (fired (set_tm i v s1) + 1) (set_tm i v s1)) = v) by (intros; destruct i; reflexivity).
      rewrite X. reflexivity.
Qed.

(* the timer that fires is the earliest due one *)
Lemma pick_f_min s fin l : forall b0,
  (match b0 with Some b => armed (get_tm b s) = true /\ due (get_tm b s) <= fin | None => True end) ->
  match fold_left (pick_f s fin) l b0 with
  | Some i => armed (get_tm i s) = true /\ due (get_tm i s) <= fin /\
              (forall j, In j l -> armed (get_tm j s) = true -> due (get_tm j s) <= fin -> due (get_tm i s) <= due (get_tm j s)) /\
              (match b0 with Some b => due (get_tm i s) <= due (get_tm b s) | None => True end)
  | None => b0 = None
  end.
Proof.
  induction l as [|k l IH]; intros b0 H0; cbn [fold_left].
  - destruct b0 as [b|]; auto. destruct H0. repeat split; auto; try lia. intros j [].
  - set (b1 := pick_f s fin b0 k).
    assert (H1 : match b1 with Some b => armed (get_tm b s) = true /\ due (get_tm b s) <= fin | None => True end).
    { subst b1. unfold pick_f. destruct (armed (get_tm k s) && (due (get_tm k s) <=? fin)) eqn:E; auto.
      apply andb_true_iff in E. destruct E as [E1 E2]. apply Z.leb_le in E2.
      destruct b0 as [b|]; [destruct (better s k b)|]; auto. }
    specialize (IH b1 H1). destruct (fold_left (pick_f s fin) l b1) as [i|] eqn:F.
    + destruct IH as [A [D [M Mb]]]. split; auto. split; auto.
      assert (Rel : (forall j, j = k -> armed (get_tm j s) = true -> due (get_tm j s) <= fin -> due (get_tm i s) <= due (get_tm j s)) /\
                    (match b0 with Some b => due (get_tm i s) <= due (get_tm b s) | None => True end)).
      { subst b1. unfold pick_f in Mb. destruct (armed (get_tm k s) && (due (get_tm k s) <=? fin)) eqn:E.
        - destruct b0 as [b|].
          + unfold better in Mb. destruct ((due (get_tm k s) <? due (get_tm b s)) || ((due (get_tm k s) =? due (get_tm b s)) && (tseq (get_tm k s) <? tseq (get_tm b s)))) eqn:Bt.
            * apply orb_true_iff in Bt. split; [intros j -> _ _; exact Mb|].
              destruct Bt as [Bt|Bt]; [apply Z.ltb_lt in Bt; lia|]. apply andb_true_iff in Bt. destruct Bt as [Bt _]. apply Z.eqb_eq in Bt. lia.
            * apply orb_false_iff in Bt. destruct Bt as [B1 B2]. apply Z.ltb_ge in B1. split; [intros j -> _ _; lia|exact Mb].
          + split; [intros j -> _ _; exact Mb|auto].
        - split; [|exact Mb]. intros j -> Aj Dj. apply andb_false_iff in E. destruct E as [E|E]; [congruence|]. apply Z.leb_gt in E. lia. }
      destruct Rel as [Rk Rb]. split; [|exact Rb].
      intros j [Hj|Hj] Aj Dj; [apply Rk; auto|apply M; auto].
    + subst b1. unfold pick_f in IH. destruct (armed (get_tm k s) && (due (get_tm k s) <=? fin)); [destruct b0 as [b|]; [destruct (better s k b)|]; discriminate|exact IH].
Qed.
Lemma pick_min s fin i : pick s fin = Some i ->
  armed (get_tm i s) = true /\ due (get_tm i s) <= fin /\
  (forall j, armed (get_tm j s) = true -> due (get_tm j s) <= fin -> due (get_tm i s) <= due (get_tm j s)).
Proof.
  intros H. rewrite pick_eq in H. pose proof (pick_f_min s fin all_tids None I) as M. rewrite H in M.
  destruct M as [A [D [M _]]]. repeat split; auto. intros j. apply M. apply all_tids_complete.
Qed.

(* the robust invariant at the moment the callback is entered *)
Lemma core_tm_prefire i s fin j : TR s -> pick s fin = Some i -> (j = T_wd \/ j = T_timer1 \/ j = T_iter) ->
  let s2 := prefire i s in let t := get_tm j s in let t2 := get_tm j s2 in
  now s <= now s2 /\
  (armed t2 = true -> now s2 <= due t2 + J) /\
  (armed t2 = true -> due t <= now s + period t -> due t2 <= now s2 + period t2) /\
  (armed t2 = true -> armed t = true /\ period t2 = period t) /\
  (armed t = true -> 0 < period t -> armed t2 = true) /\
  (j <> i -> t2 = t).
Proof.
  intros R P Hj. destruct (pick_min s fin i P) as [Ai [Di Mi]].
  destruct (prefire_fields i s (r_lat _ R)) as [[l [Lr N2]] [Rs [Go Gi]]].
  cbn zeta. generalize dependent (prefire i s). intros s2 N2 Rs Go Gi.
  assert (NN : now s <= now s2) by lia. split; [exact NN|].
  assert (Tj : armed (get_tm j s) = true -> now s <= due (get_tm j s) + J)
    by (intros A; apply (r_tok _ R); auto; destruct Hj as [ -> | [ -> | -> ] ]; auto).
  destruct (tid_eq_dec j i) as [->|Hne].
  - rewrite Gi. specialize (Tj Ai). destruct (0 <? period (get_tm i s)) eqn:E.
    + apply Z.ltb_lt in E. cbn [armed due period]. repeat split; auto; try lia. intros; contradiction.
    + apply Z.ltb_ge in E. cbn [armed due period]. repeat split; try discriminate; try lia. intros; contradiction.
  - rewrite (Go j Hne). split; [|split; [|split; [|split]]]; auto.
    + intros Aj. specialize (Tj Aj).
      destruct (Z_le_dec (due (get_tm j s)) fin) as [Le|Gt]; [pose proof (Mi j Aj Le); lia|lia].
    + intros Aj H. lia.
Qed.

Lemma TR_prefire i s fin : TR s -> pick s fin = Some i -> TR (prefire i s).
Proof.
  intros R P.
  destruct (core_tm_prefire i s fin T_wd R P (or_introl eq_refl)) as [NN [Wa [Wb [Wc [Wd' _]]]]].
  destruct (core_tm_prefire i s fin T_timer1 R P (or_intror (or_introl eq_refl))) as [_ [Ta [Tb [Tc [Td _]]]]].
  destruct (core_tm_prefire i s fin T_iter R P (or_intror (or_intror eq_refl))) as [_ [Ia [Ib [Ic [Id _]]]]].
  destruct (prefire_fields i s (r_lat _ R)) as [_ [Rs _]].
  cbn zeta in *. cbn [get_tm] in *. generalize dependent (prefire i s). intros s2 NN Wa Wb Wc Wd' Ta Tb Tc Td Ia Ib Ic Id Rs.
  destruct Rs as [b1 [b2 [b3 [b4 [b5 [b6 [b7 [b8 [b9 [b10 [b11 b12]]]]]]]]]]].
  destruct tfacts_ok as [_ [Pw [P1 Pi]] _].
  destruct R as [Rl Rn Rw Rp Ri Rst Rpe Rr Rt Ra Rlr]. destruct Rw as [Rw1 Rw2].
  constructor.
  - rewrite b3; auto.
  - lia.
  - assert (A : armed (t_wd s2) = true) by (apply Wd'; auto; lia). split; auto. destruct (Wc A) as [_ E]. lia.
  - intros A. destruct (Tc A) as [A0 E]. rewrite E. auto.
  - intros A. destruct (Ic A) as [A0 E]. rewrite E. auto.
  - rewrite b4. intros St. pose proof (Rst St) as A0. apply Td; auto. rewrite (Rp A0). lia.
  - rewrite b4, b5. auto.
  - rewrite b4, b6. intros H. destruct (Rr H) as [St A0]. split; auto. apply Id; auto. rewrite (Ri A0). lia.
  - intros t [E|[E|E]] A; subst t; auto.
  - intros t [E|E] A; subst t.
    + apply Wb; auto; apply Ra; auto; destruct (Wc A); auto.
    + apply Tb; auto; apply Ra; auto; destruct (Tc A); auto.
  - intros NW. assert (NW0 : nowrap s) by (apply (nowrap_later s s2); auto).
    specialize (Rlr NW0). rewrite b8. rewrite (uptime_nowrap s NW0 Rn) in Rlr. rewrite (uptime_nowrap s2 NW) by lia.
    pose proof (Upt_mono s (now s) (now s2) NN). rewrite (Upt_frame s s2) by auto. lia.
Qed.



Lemma frag_prefire i s fin : TR s -> pick s fin = Some i ->
  (i <> T_wd -> Wd s -> Wd (prefire i s)) /\ (i <> T_timer1 -> T1 s -> T1 (prefire i s)) /\ (i <> T_iter -> C0 s -> C0 (prefire i s)).
Proof.
  intros R P.
  destruct (core_tm_prefire i s fin T_wd R P (or_introl eq_refl)) as [NN [_ [_ [_ [_ Ew]]]]].
  destruct (core_tm_prefire i s fin T_timer1 R P (or_intror (or_introl eq_refl))) as [_ [_ [_ [_ [_ E1]]]]].
  destruct (core_tm_prefire i s fin T_iter R P (or_intror (or_intror eq_refl))) as [_ [_ [_ [_ [_ Ei]]]]].
  destruct (prefire_fields i s (r_lat _ R)) as [_ [Rs _]].
  cbn zeta in *. cbn [get_tm] in *. generalize dependent (prefire i s). intros s2 NN Ew E1 Ei Rs.
  destruct Rs as [b1 [b2 [b3 [b4 [b5 [b6 [b7 [b8 [b9 [b10 [b11 b12]]]]]]]]]]].
  assert (NWF : nowrap s2 -> nowrap s) by (apply nowrap_later; auto; apply (r_now _ R)).
  split; [|split].
  - intros Hi W NW Hh. rewrite (Ew (not_eq_sym Hi)), b8, (Upt_frame s s2) by auto. apply W; auto. rewrite <- b11; auto.
  - intros Hi T NW HR HT. rewrite (E1 (not_eq_sym Hi)), b8, (Upt_frame s s2) by auto. rewrite b9 in *. apply T; auto.
    apply is_registered_iff in HR. apply is_registered_iff. rewrite <- b7, <- b6. exact HR.
  - intros Hi C R0 p E. rewrite (Ei (not_eq_sym Hi)). apply C; [rewrite <- b7; auto|rewrite <- b6; auto].
Qed.

Lemma t1_decide_not_reconnect up ls lr tmo : 0 < tmo < 4294966000 -> 0 <= lr <= up -> up < 4294967296 ->
  t1_decide up ls lr tmo <> T1_reconnect -> up - lr < tmo + PING_RECONNECT_PLUS.
Proof.
  intros HT Hl Hu H. destruct tfacts_ok as [Kp _ _]. unfold t1_decide in H.
  replace (0 <? tmo) with true in H by (symmetry; apply Z.ltb_lt; lia).
  rewrite (u32_small (up - lr)), (u32_small (tmo + PING_RECONNECT_PLUS)) in H by lia.
  destruct (tmo + PING_RECONNECT_PLUS <=? up - lr) eqn:E; [contradiction H; reflexivity|]. apply Z.leb_gt in E. exact E.
Qed.
Lemma uptime_lt s : uptime s < 4294967296. Proof. unfold uptime. apply u32_range. Qed.

Lemma watchdog_all s : TR s -> T1 s -> C0 s -> All (watchdog_cb s).
Proof.
  intros R T C. unfold watchdog_cb. destruct tfacts_ok as [_ [Pw _] Kw].
  assert (AH : nowrap s -> Upt s (due (t_wd s) - WD_US) <= uptime s).
  { intros NW. rewrite (uptime_nowrap s NW (r_now _ R)). apply Upt_mono.
    destruct (r_wd _ R) as [A P]. pose proof (r_ahead _ R (t_wd s) (or_introl eq_refl) A). lia. }
  destruct (lastresp s <? uptime s) eqn:E1.
  - destruct (WATCHDOG_TIMEOUT_S <? u32 (uptime s - lastresp s)) eqn:E2.
    + (* restart *)
      split; [eapply TR_TStep; [exact R|apply ts_restart]|]. split; [intros _ Hh; discriminate Hh|].
      split; [eapply T1_TStep; eauto; apply ts_restart|eapply C0_TStep; eauto; apply ts_restart].
    + assert (W : Wd s).
      { intros NW _. pose proof (r_lr _ R NW) as L. pose proof (uptime_lt s). apply Z.ltb_ge in E2.
        rewrite u32_small in E2 by lia. specialize (AH NW). lia. }
      destruct (_ && _); [apply reconnect_all; auto|]. (split; [|split; [|split]]; auto).
  - assert (W : Wd s).
    { intros NW _. apply Z.ltb_ge in E1. specialize (AH NW). lia. }
    (split; [|split; [|split]]; auto).
Qed.

Lemma timer1_all s : TR s -> Wd s -> C0 s -> All (timer1_cb s).
Proof.
  intros R W C. unfold timer1_cb. destruct (is_registered s) eqn:HR.
  - set (slot := match srpc s with Some p => len (oq p) <? QUEUE_SIZE | None => false end).
    assert (Q1 : TQ s (if 0 <? actto s then k_event (Tick (uptime s) slot) s else s)) by (destruct (0 <? actto s); [apply tq_k_event|apply TQ_refl]).
    generalize dependent (if 0 <? actto s then k_event (Tick (uptime s) slot) s else s). intros s1 Q1.
    destruct (t1_decide (uptime s) (lastsent s) (lastresp s) (actto s)) eqn:D.
    + (* none *)
      assert (T : T1 s).
      { intros NW _ HT. pose proof (r_lr _ R NW) as L. pose proof (uptime_lt s).
        assert (X : uptime s - lastresp s < actto s + PING_RECONNECT_PLUS) by (apply (t1_decide_not_reconnect _ (lastsent s)); auto; rewrite D; discriminate).
        apply is_registered_iff in HR. destruct HR as [_ N]. destruct (r_rpc _ R N) as [St _]. pose proof (r_started _ R St) as A1.
        pose proof (r_ahead _ R (t_timer1 s) (or_intror eq_refl) A1) as Ah. rewrite (r_t1p _ R A1) in Ah.
        rewrite (uptime_nowrap s NW (r_now _ R)) in X. pose proof (Upt_mono s (due (t_timer1 s) - T1_US) (now s) ltac:(lia)). lia. }
      eapply All_TQ; [|exact Q1]. (split; [|split; [|split]]; auto).
    + (* ping *)
      assert (T : T1 s).
      { intros NW _ HT. pose proof (r_lr _ R NW) as L. pose proof (uptime_lt s).
        assert (X : uptime s - lastresp s < actto s + PING_RECONNECT_PLUS) by (apply (t1_decide_not_reconnect _ (lastsent s)); auto; rewrite D; discriminate).
        apply is_registered_iff in HR. destruct HR as [_ N]. destruct (r_rpc _ R N) as [St _]. pose proof (r_started _ R St) as A1.
        pose proof (r_ahead _ R (t_timer1 s) (or_intror eq_refl) A1) as Ah. rewrite (r_t1p _ R A1) in Ah.
        rewrite (uptime_nowrap s NW (r_now _ R)) in X. pose proof (Upt_mono s (due (t_timer1 s) - T1_US) (now s) ltac:(lia)). lia. }
      eapply All_TQ; [|apply tq_async_call]. eapply All_TQ; [|exact Q1]. (split; [|split; [|split]]; auto).
    + (* reconnect *)
      apply reconnect_all; [eapply TR_TStep; [exact R|apply TQ_TStep; exact Q1]|eapply Wd_TStep; [exact R|exact W|apply TQ_TStep; exact Q1]].
  - (split; [|split; [|split]]; auto). intros NW H. rewrite HR in H. discriminate H.
Qed.

Lemma iterate_reg_nonzero s : srpc s <> None -> registered (devconn_iterate s) <> 0.
Proof.
  intros N. unfold devconn_iterate. destruct (srpc s) as [p|] eqn:E; [|contradiction].
  assert (R1 : registered (if registered s =? 0 then async_call CALL_REGISTER_E (regpay s) (set_registered (-1) s) else s) <> 0).
  { destruct (registered s =? 0) eqn:R; [|apply Z.eqb_neq in R; exact R].
    destruct (tq_async_call CALL_REGISTER_E (regpay s) (set_registered (-1) s)) as [_ [_ [_ Rg]]]. rewrite Rg. cbn. lia. }
  generalize dependent (if registered s =? 0 then async_call CALL_REGISTER_E (regpay s) (set_registered (-1) s) else s). intros s1 R1.
  destruct (tq_data_write [] s1) as [_ [_ [_ Rg]]].
  intros H0. destruct (ts_srpc_iterate (data_write [] s1)) as [B _]. apply (tb_reg0 _ _ B) in H0. rewrite Rg in H0. contradiction.
Qed.
Lemma iterate_all s : TR s -> Wd s -> T1 s -> All (devconn_iterate s).
Proof.
  intros R W T. pose proof (ts_devconn_iterate s) as H.
  split; [eapply TR_TStep; eauto|]. split; [eapply Wd_TStep; eauto|]. split; [eapply T1_TStep; eauto|].
  destruct (srpc s) as [p|] eqn:E.
  - intros R0. exfalso. apply (iterate_reg_nonzero s); [rewrite E; discriminate|exact R0].
  - unfold devconn_iterate. rewrite E. intros _ p Hp. rewrite E in Hp. discriminate Hp.
Qed.

Lemma callback_all i s : TR s -> (i <> T_wd -> Wd s) -> (i <> T_timer1 -> T1 s) -> (i <> T_iter -> C0 s) -> All (callback i s).
Proof.
  intros R W T C. destruct i; cbn [callback].
  - eapply All_TQ; [|apply tq_wifi_check_status]. (split; [|split; [|split]]; auto); [apply W|apply T|apply C]; discriminate.
  - apply timer1_all; auto; [apply W|apply C]; discriminate.
  - apply iterate_all; auto; [apply W|apply T]; discriminate.
  - apply watchdog_all; auto; [apply T|apply C]; discriminate.
  - apply reconnect_all; auto. apply W; discriminate.
  - apply stop_all; auto. apply W; discriminate.
  - (split; [|split; [|split]]; auto); [apply W|apply T|apply C]; discriminate.
  - (split; [|split; [|split]]; auto); [apply W|apply T|apply C]; discriminate.
  - eapply All_TStep; [|apply ts_srv_cb]. (split; [|split; [|split]]; auto); [apply W|apply T|apply C]; discriminate.
Qed.

Lemma fire_all i s fin : All s -> pick s fin = Some i -> All (fire i s).
Proof.
  intros [R [W [T C]]] P. rewrite fire_eq. destruct (frag_prefire i s fin R P) as [Fw [Ft Fc]].
  apply callback_all; auto. eapply TR_prefire; eauto.
Qed.

Lemma done_all s fin : All s -> pick s fin = None -> All (if now s <? fin then set_now fin s else s).
Proof.
  intros A P. destruct (now s <? fin) eqn:E; auto. apply Z.ltb_lt in E. destruct A as [R [W [T C]]].
  assert (NWF : nowrap (set_now fin s) -> nowrap s) by (apply nowrap_later; auto; [cbn; lia|apply (r_now _ R)]).
  split; [|split; [|split]].
  - destruct R as [Rl Rn Rw Rp Ri Rst Rpe Rr Rt Ra Rlr]. constructor; cbn; auto; try lia.
    + intros t Ht A. assert (D : fin < due t).
      { destruct Ht as [ -> | [ -> | -> ] ]; [apply (pick_none s fin P T_wd A)|apply (pick_none s fin P T_timer1 A)|apply (pick_none s fin P T_iter A)]. }
      lia.
    + intros t Ht A. pose proof (Ra t Ht A). lia.
    + intros NW. specialize (Rlr (NWF NW)). rewrite (uptime_nowrap _ NW) by (cbn; lia).
      rewrite (uptime_nowrap s (NWF NW) Rn) in Rlr. pose proof (Upt_mono s (now s) fin ltac:(lia)). cbn [now set_now].
      rewrite (Upt_frame s (set_now fin s)) by reflexivity. lia.
  - intros NW Hh. apply W; auto.
  - intros NW HR HT. apply T; auto.
  - intros R0 p E0. apply C; auto.
Qed.

Lemma Advance_all fin s s' : Advance fin s s' -> All s -> All s'.
Proof.
  induction 1; intros A; auto.
  - apply done_all; auto.
  - apply IHAdvance. eapply fire_all; eauto.
Qed.

(* --- events, runs, boot --- *)
Variables cs cc : bool.
Definition Full (s : st) : Prop := Inv cs cc s /\ All s.

Lemma tq_set_evi v s : TQ s (set_evi v s).
Proof. apply TQ_intro; [tb_leaf|repeat split; auto|split; reflexivity]. Qed.
Lemma tq_set_liveres v s : TQ s (set_liveres v s).
Proof. apply TQ_intro; [tb_leaf|repeat split; auto|split; reflexivity]. Qed.
Lemma tq_set_script v s : TQ s (set_script v s).
Proof. apply TQ_intro; [tb_leaf|repeat split; auto|split; reflexivity]. Qed.
Lemma tq_set_srvdelay v s : TQ s (set_srvdelay v s).
Proof. apply TQ_intro; [tb_leaf|repeat split; auto|split; reflexivity]. Qed.

Lemma conncb_all s : Inv cs cc s -> All s -> link s = L_PENDING -> All (dev_step s ConnCb).
Proof.
  intros HI [R [W [T C]]] Hl.
  pose proof (i_pending _ _ _ HI Hl) as Hn. cbn in Hn. pose proof (i_none_reg _ _ _ HI Hn) as Hr. cbn in Hr.
  destruct (conncb_fields s) as [[a1 [a2 [a3 [a4 [a5 [a6 [a7 [a8 [a9 [a10 a10']]]]]]]]]] [b1 [b2 [b3 [b4 [b5 [b6 [b7 b8]]]]]]]].
  generalize dependent (dev_step s ConnCb). intros s' a1 a2 a3 a4 a5 a6 a7 a8 a9 a10 a10' b1 b2 b3 b4 b5 b6 b7 b8.
  assert (NWF : nowrap s' -> nowrap s) by (apply nowrap_frame; auto).
  destruct tfacts_ok as [_ [_ [_ Pi]] _]. destruct consts_ok as [_ _ _ _ _ [K1 [K2 [K3 [K4 K5]]]] _ _].
  split; [|split; [|split]].
  - destruct R as [Rl Rn Rw Rp Ri Rs Rpe Rr Rt Ra Rlr]. constructor.
    + rewrite a4; auto.
    + rewrite a1; auto.
    + rewrite a5; auto.
    + rewrite b1; auto.
    + auto.
    + rewrite b5, b1; auto.
    + rewrite b8. intros H. symmetry in H. contradiction.
    + intros _. rewrite b5. split; auto.
    + intros t [E|[E|E]] At; subst t.
      * rewrite a1, a5. apply Rt; auto; rewrite <- a5; auto.
      * rewrite a1, b1. apply Rt; auto; rewrite <- b1; auto.
      * rewrite a1, b3. lia.
    + intros t [E|E] At; subst t; [rewrite a1, a5; apply Ra; auto; rewrite <- a5; auto|rewrite a1, b1; apply Ra; auto; rewrite <- b1; auto].
    + intros NW. rewrite a6, (uptime_frame s s' a1 a2 a3). apply Rlr; auto.
  - intros NW Hh. rewrite a5, a6, (Upt_frame s s') by auto. apply W; auto. rewrite <- a9; exact Hh.
  - intros NW HR. apply is_registered_iff in HR. destruct HR as [R1 _]. rewrite b7, Hr in R1. discriminate R1.
  - intros _ p E. rewrite b6 in E. inversion E. rewrite b3. reflexivity.
Qed.

Lemma dev_step_all s e : Inv cs cc s -> All s -> env_allows s e = true ->
  (match e with Adv _ => False | _ => True end) -> All (dev_step s e).
Proof.
  intros HI A HE NA. destruct e; try contradiction.
  - cbn [dev_step]. eapply All_TQ; [exact A|apply tq_set_wstatus].
  - cbn [env_allows] in HE. apply Z.eqb_eq in HE. apply conncb_all; auto.
  - eapply All_TQ; [exact A|apply tq_disccb].
  - cbn [dev_step].
    assert (A1 : All (recv_cb b (emit O_RX [now s; conn s; evi s] s))) by (eapply All_TStep; [|apply ts_recv_cb]; eapply All_TQ; [exact A|apply tq_emit]).
    destruct (link s =? L_CLOSING); [|exact A1]. generalize dependent (recv_cb b (emit O_RX [now s; conn s; evi s] s)). intros x A1. eapply All_TQ; [exact A1|apply tq_disc_step].
  - cbn [dev_step]. eapply All_TQ; [exact A|apply tq_set_liveres].
  - cbn [dev_step]. eapply All_TQ; [exact A|apply tq_set_script].
  - cbn [dev_step]. eapply All_TQ; [exact A|apply tq_local_call].
  - cbn [dev_step]. eapply All_TQ; [exact A|apply tq_set_srvdelay].
  - exact A.
Qed.

Lemma rstep_full s e s' : sites_ok CallSites = true -> rstep s e s' -> Full s -> Full s'.
Proof.
  intros HS H [HI A]. split; [eapply rstep_inv; eauto|].
  unfold rstep in H. 
  assert (A1 : All (set_evi (evi s + 1) s)) by (eapply All_TQ; [exact A|apply tq_set_evi]).
  assert (HI1 : Inv cs cc (set_evi (evi s + 1) s)) by (eapply Inv_core; [|eauto]; reflexivity).
  generalize dependent (set_evi (evi s + 1) s). intros s1 H A1 HI1.
  destruct (halted s1); [subst; auto|]. destruct (env_allows s1 e) eqn:E; [|subst; auto].
  destruct e; cbn [dev_rstep] in H; try (subst s'; apply dev_step_all; auto; exact I).
  destruct (dt <? 0); [subst; auto|]. eapply Advance_all; eauto.
Qed.
Lemma RRun_full s evs s' : sites_ok CallSites = true -> RRun s evs s' -> Full s -> Full s'.
Proof. intros HS H. induction H; auto. intros F. apply IHRRun. eapply rstep_full; eauto. Qed.

Lemma boot_pre_fields b cyc d pay lt u :
  let s2 := arm T_wd WATCHDOG_MS true (set_lastresp u (set_wstatus STATION_CONNECTING_ (emit O_WIFISTART [0] (init0 b cyc d pay lt cs cc)))) in
  lat s2 = lt /\ now s2 = 0 /\ t_wd s2 = mktimer true WD_US 1 WD_US /\ armed (t_timer1 s2) = false /\ armed (t_iter s2) = false /\
  started s2 = false /\ link s2 = L_IDLE /\ srpc s2 = None /\ lastresp s2 = u /\ boot s2 = b /\ cycles0 s2 = cyc /\ halted s2 = false.
Proof. cbn zeta. unfold arm, WD_US. cbn. repeat split. Qed.
Lemma boot_all b cyc d pay lt : Forall (fun l => 0 <= l <= J) lt -> All (boot_device b cyc d pay lt cs cc).
Proof.
  intros HL. unfold boot_device.
  set (s0 := init0 b cyc d pay lt cs cc).
  change (now s0) with 0.
  set (s1 := set_wstatus STATION_CONNECTING_ (emit O_WIFISTART [0] s0)).
  assert (U1 : nowrap s1 -> uptime s1 = Upt s1 0).
  { intros NW. rewrite (uptime_nowrap s1 NW) by (cbn; lia). reflexivity. }
  assert (UF : forall x t, Upt (arm T_wd WATCHDOG_MS true (set_lastresp x s1)) t = Upt s1 t) by (intros; reflexivity).
  assert (U0 : 0 <= uptime s1) by apply uptime_nonneg.
  assert (NWs : forall x, nowrap (arm T_wd WATCHDOG_MS true (set_lastresp x s1)) -> nowrap s1) by (intros x H; exact H).
  assert (Us : forall x, uptime (arm T_wd WATCHDOG_MS true (set_lastresp x s1)) = uptime s1) by (intros; reflexivity).
  generalize dependent (uptime s1). intros u U1 U0 Us.
  specialize (UF u).
  destruct (boot_pre_fields b cyc d pay lt u) as [f1 [f2 [f3 [f4 [f5 [f6 [f7 [f8 [f9 [f10 [f11 f12]]]]]]]]]]].
  cbn zeta in *. fold s0 in f1, f2, f3, f4, f5, f6, f7, f8, f9, f10, f11, f12. fold s1 in f1, f2, f3, f4, f5, f6, f7, f8, f9, f10, f11, f12.
  specialize (Us u). specialize (NWs u).
  generalize dependent (arm T_wd WATCHDOG_MS true (set_lastresp u s1)). intros s2 UF NWs Us f1 f2 f3 f4 f5 f6 f7 f8 f9 f10 f11 f12.
  clearbody s1. clear s0.
  destruct tfacts_ok as [_ [Pw _] Kw]. destruct consts_ok as [_ _ _ _ _ [K1 [K2 [K3 [K4 K5]]]] _ _].
  apply start_all; auto.
  split; [|split; [|split]].
  - constructor.
    + rewrite f1; auto.
    + lia.
    + rewrite f3. split; reflexivity.
    + rewrite f4. discriminate.
    + rewrite f5. discriminate.
    + rewrite f6. discriminate.
    + rewrite f7. intros H. contradiction.
    + intros H. contradiction.
    + intros t [E|[E|E]] At; subst t; [rewrite f3, f2; cbn [due]; lia|rewrite f4 in At; discriminate|rewrite f5 in At; discriminate].
    + intros t [E|E] At; subst t; [rewrite f3, f2; cbn [due period]; lia|rewrite f4 in At; discriminate].
    + intros NW. rewrite f9, Us. lia.
  - intros NW _. rewrite f3, f9. cbn [due]. replace (WD_US - WD_US) with 0 by lia.
    rewrite (U1 (NWs NW)), UF. lia.
  - intros NW HR. apply is_registered_iff in HR. destruct HR as [_ N]. contradiction.
  - intros _ p E. rewrite f8 in E. discriminate E.
Qed.
Lemma rreachable_full s : sites_ok CallSites = true -> rreachable cs cc J s -> Full s.
Proof.
  intros HS [b [cyc [d [pay [lt [evs [HL H]]]]]]]. eapply RRun_full; eauto. split; [apply boot_inv|apply boot_all; auto].
Qed.

(* ---------- consequences for every (fuel-free) reachable state ---------- *)
(* C04: the registration is issued within one iterate period (+ lateness) of the connect callback *)
Theorem register_within_thm s p : sites_ok CallSites = true -> rreachable cs cc J s ->
  srpc s = Some p -> registered s = 0 -> now s <= created_at p + IT_US + J.
Proof.
  intros HS HR E R0. destruct (rreachable_full s HS HR) as [_ [R [_ [_ C]]]].
  rewrite <- (C R0 p E). assert (N : srpc s <> None) by (rewrite E; discriminate).
  destruct (r_rpc _ R N) as [_ A]. apply (r_tok _ R); auto.
Qed.
Theorem register_sent_thm s p : sites_ok CallSites = true -> rreachable cs cc J s ->
  srpc s = Some p -> created_at p + IT_US + J < now s -> exists l, hist p = l ++ [REG] /\ forall c, In c l -> is_reg c = false.
Proof.
  intros HS HR E Ht. destruct (rreachable_full s HS HR) as [HI _].
  destruct (Z.eq_dec (registered s) 0) as [R0|R0].
  - pose proof (register_within_thm s p HS HR E R0). lia.
  - destruct (i_inst _ _ _ HI p E) as [_ HP]. cbn in HP. apply (pi_first _ _ HP R0).
Qed.

(* the silence seen so far is bounded: watchdog (any state that has not restarted) ... *)
Lemma All_wd_bound s : All s -> nowrap s -> halted s = false -> Upt s (now s - WD_US - J) - lastresp s <= WATCHDOG_TIMEOUT_S.
Proof.
  intros [R [W _]] NW Hh. specialize (W NW Hh). destruct (r_wd _ R) as [A _].
  pose proof (r_tok _ R (t_wd s) (or_introl eq_refl) A).
  pose proof (Upt_mono s (now s - WD_US - J) (due (t_wd s) - WD_US) ltac:(lia)). lia.
Qed.
(* ... and activity timeout (any registered state) *)
Lemma All_t1_bound s : All s -> nowrap s -> is_registered s = true -> 0 < actto s < 4294966000 ->
  Upt s (now s - T1_US - J) - lastresp s < actto s + PING_RECONNECT_PLUS.
Proof.
  intros [R [_ [T _]]] NW HR HT. specialize (T NW HR HT).
  apply is_registered_iff in HR. destruct HR as [_ N]. destruct (r_rpc _ R N) as [St _]. pose proof (r_started _ R St) as A.
  pose proof (r_tok _ R (t_timer1 s) (or_intror (or_introl eq_refl)) A).
  pose proof (Upt_mono s (now s - T1_US - J) (due (t_timer1 s) - T1_US) ltac:(lia)). lia.
Qed.
(* in real time: tau = true time of the last received call (last_response = uptime second of tau) *)


(* ---------- progress relation: what a run without received calls does to a registered device ---------- *)
Definition RegBound (s : st) (t : Z) : Prop :=
  nowrap_at s t -> 0 < actto s < 4294966000 -> Upt s (t - T1_US - J) - lastresp s < actto s + PING_RECONNECT_PLUS.
Definition WdBound (s : st) (t : Z) : Prop := nowrap_at s t -> Upt s (t - WD_US - J) - lastresp s <= WATCHDOG_TIMEOUT_S.
Definition disc_at (t : Z) (s : st) : Prop := In (mk O_DISCONNECT [t] []) (outs s).
Definition wifi_at (t : Z) (s : st) : Prop := In (mk O_WIFISTART [t] []) (outs s).
Definition restart_at (t : Z) (s : st) : Prop := In (mk O_RESTART [t] []) (outs s).

Record Prog (s s' : st) : Prop := {
  pg_boot : boot s' = boot s; pg_cyc : cycles0 s' = cycles0 s;
  pg_now : now s <= now s'; pg_nresp : nresp s <= nresp s';
  pg_outs : forall x, In x (outs s) -> In x (outs s');
  pg_quiet : nresp s' = nresp s -> lastresp s' = lastresp s /\ actto s' = actto s /\ (armed (t_stop s) = false -> armed (t_stop s') = false);
  pg_reg : nresp s' = nresp s -> armed (t_stop s) = false -> is_registered s = true ->
           is_registered s' = true \/ exists t, now s <= t /\ t <= now s' /\ disc_at t s' /\ wifi_at t s' /\ RegBound s t;
  pg_halt : nresp s' = nresp s -> halted s = false -> halted s' = true ->
            exists t, now s <= t /\ t <= now s' /\ restart_at t s' /\ WdBound s t
}.
Lemma Prog_refl s : Prog s s.
Proof. constructor; auto; try lia; try (intros; congruence). Qed.
Lemma bound_frame s s' t : boot s' = boot s -> cycles0 s' = cycles0 s -> lastresp s' = lastresp s -> actto s' = actto s ->
  (RegBound s' t -> RegBound s t) /\ (WdBound s' t -> WdBound s t).
Proof.
  intros B C L A. unfold RegBound, WdBound, nowrap_at, Upt, usec_at. rewrite B, C, L, A. auto.
Qed.
Lemma Prog_trans s1 s2 s3 : Prog s1 s2 -> Prog s2 s3 -> Prog s1 s3.
Proof.
  intros [a1 a2 a3 a4 a5 a6 a7 a8] [b1 b2 b3 b4 b5 b6 b7 b8]. constructor; try congruence; try lia; auto.
  - intros N. assert (N1 : nresp s2 = nresp s1) by lia. assert (N2 : nresp s3 = nresp s2) by lia.
    destruct (a6 N1) as [x1 [x2 x3]]. destruct (b6 N2) as [y1 [y2 y3]]. repeat split; try congruence. auto.
  - intros N St HR. assert (N1 : nresp s2 = nresp s1) by lia. assert (N2 : nresp s3 = nresp s2) by lia.
    destruct (a6 N1) as [x1 [x2 x3]].
    destruct (a7 N1 St HR) as [HR2|[t [t1 [t2 [D [W Bd]]]]]].
    + destruct (b7 N2 (x3 St) HR2) as [HR3|[t [t1 [t2 [D [W Bd]]]]]]; [left; auto|].
      right. exists t. repeat split; auto; try lia. apply (bound_frame s1 s2 t a1 a2 x1 x2). exact Bd.
    + right. exists t. repeat split; auto; try lia; [apply b5; exact D|apply b5; exact W].
  - intros N H1 H3. assert (N1 : nresp s2 = nresp s1) by lia. assert (N2 : nresp s3 = nresp s2) by lia.
    destruct (a6 N1) as [x1 [x2 x3]].
    destruct (Bool.bool_dec (halted s2) true) as [H2|H2]; [|apply not_true_is_false in H2].
    + destruct (a8 N1 H1 H2) as [t [t1 [t2 [Rt Bd]]]]. exists t. repeat split; auto; try lia. apply b5; exact Rt.
    + destruct (b8 N2 H2 H3) as [t [t1 [t2 [Rt Bd]]]]. exists t. repeat split; auto; try lia.
      apply (bound_frame s1 s2 t a1 a2 x1 x2). exact Bd.
Qed.

Lemma prog_TStep s s' : WdBound s (now s) -> TStep s s' -> Prog s s'.
Proof.
  intros WB [B Q]. constructor; try apply B.
  - rewrite (tb_now _ _ B). lia.
  - intros N. destruct Q as [[q1 [q2 [q3 [q4 q5]]]]|[q1 q2]]; [|lia]. rewrite q5. auto.
  - intros N St HR. left. apply is_registered_iff in HR. destruct HR as [R1 N1]. apply is_registered_iff. split; [apply (tb_reg1 _ _ B R1)|].
    intros E. apply N1. apply srpc_none_created. rewrite <- (tb_cre _ _ B). apply srpc_none_created. exact E.
  - intros N H1 H2. destruct (tb_halt _ _ B) as [E|[E I]]; [congruence|].
    exists (now s). rewrite (tb_now _ _ B). repeat split; auto; lia.
Qed.
Lemma prog_TQ s s' : WdBound s (now s) -> TQ s s' -> Prog s s'.
Proof. intros W Q. apply prog_TStep; auto. apply TQ_TStep; auto. Qed.

Lemma prog_prefire i s fin : TR s -> pick s fin = Some i -> Prog s (prefire i s).
Proof.
  intros R P. destruct (pick_min s fin i P) as [Ai _].
  destruct (prefire_fields i s (r_lat _ R)) as [[l [Lr N2]] [Rs [Go Gi]]].
  cbn zeta in *. generalize dependent (prefire i s). intros s2 N2 Rs Go Gi.
  destruct Rs as [b1 [b2 [b3 [b4 [b5 [b6 [b7 [b8 [b9 [b10 [b11 b12]]]]]]]]]]].
  constructor; auto; try lia.
  - intros x. rewrite b12. auto.
  - intros _. repeat split; auto. intros St. destruct (tid_eq_dec T_stop i) as [<-|Hne].
    + cbn [get_tm] in Ai. congruence.
    + specialize (Go T_stop Hne). cbn [get_tm] in Go. rewrite Go. exact St.
  - intros _ _ HR. left. apply is_registered_iff in HR. apply is_registered_iff. rewrite b6, b7. exact HR.
  - intros _ H1 H2. congruence.
Qed.

Lemma nowrap_at_now s : nowrap_at s (now s) <-> nowrap s. Proof. unfold nowrap. tauto. Qed.

(* the bounds hold at the moment a callback is entered *)
Lemma prefire_bounds i s fin : All s -> pick s fin = Some i -> halted s = false ->
  let s2 := prefire i s in
  WdBound s2 (now s2) /\ (is_registered s2 = true -> RegBound s2 (now s2)).
Proof.
  intros [R [W [T C]]] P Hh.
  destruct (core_tm_prefire i s fin T_wd R P (or_introl eq_refl)) as [NN [Wa [_ [Wc [Wd' We]]]]].
  destruct (core_tm_prefire i s fin T_timer1 R P (or_intror (or_introl eq_refl))) as [_ [Ta [_ [Tc [Td Te]]]]].
  destruct (prefire_fields i s (r_lat _ R)) as [[l [Lr N2]] [Rs [Go Gi]]].
  destruct (pick_min s fin i P) as [Ai _].
  cbn zeta in *. cbn [get_tm] in *. generalize dependent (prefire i s). intros s2 NN Wa Wc Wd' We Ta Tc Td Te N2 Rs Go Gi.
  destruct Rs as [b1 [b2 [b3 [b4 [b5 [b6 [b7 [b8 [b9 [b10 [b11 b12]]]]]]]]]]].
  destruct tfacts_ok as [_ [Pw [P1 _]] _].
  assert (NWF : nowrap s2 -> nowrap s) by (apply nowrap_later; auto; apply (r_now _ R)).
  (* now s2 <= (due of the tick that last fired or is firing) + J, for both periodic timers *)
  assert (Bw : now s2 <= due (t_wd s) + J).
  { destruct (r_wd _ R) as [A Pd]. pose proof (r_tok _ R (t_wd s) (or_introl eq_refl) A) as T0.
    destruct (tid_eq_dec T_wd i) as [<-|Hne]; [cbn [get_tm] in N2; lia|].
    rewrite <- (We Hne). apply Wa. rewrite (We Hne). exact A. }
  split.
  - intros NW. apply nowrap_at_now in NW. specialize (W (NWF NW) Hh). rewrite b8, (Upt_frame s s2) by auto.
    pose proof (Upt_mono s (now s2 - WD_US - J) (due (t_wd s) - WD_US) ltac:(lia)). lia.
  - intros HR NW HT. apply nowrap_at_now in NW.
    assert (HR0 : is_registered s = true) by (apply is_registered_iff in HR; apply is_registered_iff; rewrite <- b6, <- b7; exact HR).
    rewrite b9 in HT. specialize (T (NWF NW) HR0 HT).
    apply is_registered_iff in HR0. destruct HR0 as [_ N]. destruct (r_rpc _ R N) as [St _]. pose proof (r_started _ R St) as A.
    pose proof (r_tok _ R (t_timer1 s) (or_intror (or_introl eq_refl)) A) as T0.
    assert (Bt : now s2 <= due (t_timer1 s) + J).
    { destruct (tid_eq_dec T_timer1 i) as [<-|Hne]; [cbn [get_tm] in N2; lia|].
      rewrite <- (Te Hne). apply Ta. rewrite (Te Hne). exact A. }
    rewrite b8, b9, (Upt_frame s s2) by auto.
    pose proof (Upt_mono s (now s2 - T1_US - J) (due (t_timer1 s) - T1_US) ltac:(lia)). lia.
Qed.

Lemma reconnect_outputs s : disc_at (now s) (devconn_reconnect s) /\ wifi_at (now s) (devconn_reconnect s).
Proof.
  unfold devconn_reconnect, disc_at, wifi_at. set (s0 := set_nextwd _ s).
  destruct (devconn_stop_disconnects s0) as [D _]. change (now s0) with (now s) in D.
  destruct (stop_fields s0) as [[a1 _] _]. change (now s0) with (now s) in a1.
  destruct (start_fields (devconn_stop s0)) as [[_ [_ [_ [_ [_ [_ [_ [_ [_ [O _]]]]]]]]]] [_ [_ [_ [_ [_ [_ [_ [_ Wf]]]]]]]]].
  rewrite a1 in Wf. split; auto.
Qed.
Lemma prog_reconnect s : (is_registered s = true -> RegBound s (now s)) -> Prog s (devconn_reconnect s).
Proof.
  intros RB. destruct (reconnect_outputs s) as [D W].
  unfold devconn_reconnect in *. set (s0 := set_nextwd _ s) in *.
  destruct (stop_fields s0) as [S1 _]. destruct (start_fields (devconn_stop s0)) as [S2 _].
  pose proof (Same_trans _ _ _ S1 S2) as S. generalize dependent (devconn_start (devconn_stop s0)). intros s' D W S2 S.
  destruct S as [a1 [a2 [a3 [a4 [a5 [a6 [a7 [a8 [a9 [a10 a11]]]]]]]]]].
  change (now s0) with (now s) in *. change (boot s0) with (boot s) in *. change (cycles0 s0) with (cycles0 s) in *.
  change (lastresp s0) with (lastresp s) in *. change (actto s0) with (actto s) in *. change (nresp s0) with (nresp s) in *.
  change (halted s0) with (halted s) in *. change (t_stop s0) with (t_stop s) in *.
  constructor.
  - exact a2.
  - exact a3.
  - lia.
  - lia.
  - intros x H. apply a10. exact H.
  - intros _. repeat split; auto. rewrite a11. auto.
  - intros _ _ HR. right. exists (now s). repeat split; auto; lia.
  - intros _ H1 H2. congruence.
Qed.

Lemma bounds_TQ s s' : TQ s s' -> (WdBound s (now s) -> WdBound s' (now s')) /\ ((is_registered s = true -> RegBound s (now s)) -> is_registered s' = true -> RegBound s' (now s')).
Proof.
  intros [B [[q1 [q2 [q3 [q4 q5]]]] [h rg]]].
  unfold WdBound, RegBound, nowrap_at, Upt, usec_at. rewrite (tb_now _ _ B), (tb_boot _ _ B), (tb_cyc _ _ B), q2, q3. split; auto.
  intros H HR. apply H. apply is_registered_iff in HR. destruct HR as [R1 N1]. apply is_registered_iff. split; [congruence|].
  intros E. apply N1. apply srpc_none_created. rewrite (tb_cre _ _ B). apply srpc_none_created. exact E.
Qed.

Lemma prog_callback i s : i <> T_stop -> WdBound s (now s) -> (is_registered s = true -> RegBound s (now s)) -> Prog s (callback i s).
Proof.
  intros Hi WB RB. destruct i; cbn [callback]; try contradiction.
  - apply prog_TQ; auto. apply tq_wifi_check_status.
  - unfold timer1_cb. destruct (is_registered s) eqn:HR; [|apply Prog_refl].
    set (slot := match srpc s with Some p => len (oq p) <? QUEUE_SIZE | None => false end).
    assert (Q1 : TQ s (if 0 <? actto s then k_event (Tick (uptime s) slot) s else s)) by (destruct (0 <? actto s); [apply tq_k_event|apply TQ_refl]).
    destruct (bounds_TQ _ _ Q1) as [W1 R1].
    generalize dependent (if 0 <? actto s then k_event (Tick (uptime s) slot) s else s). intros s1 Q1 W1 R1.
    eapply Prog_trans; [apply prog_TQ; eauto|].
    destruct (t1_decide _ _ _ _); [apply Prog_refl|apply prog_TQ; auto; apply tq_async_call|apply prog_reconnect; auto].
  - apply prog_TStep; auto. apply ts_devconn_iterate.
  - unfold watchdog_cb. destruct (_ <? _); [|apply Prog_refl]. destruct (_ <? _); [apply prog_TStep; auto; apply ts_restart|].
    destruct (_ && _); [apply prog_reconnect; auto|apply Prog_refl].
  - apply prog_reconnect; auto.
  - apply Prog_refl.
  - apply Prog_refl.
  - apply prog_TStep; auto. apply ts_srv_cb.
Qed.

Lemma fire_prog i s fin : All s -> halted s = false -> pick s fin = Some i -> Prog s (fire i s).
Proof.
  intros A Hh P. rewrite fire_eq. destruct A as [R WTC].
  destruct (tid_eq_dec i T_stop) as [->|Hne].
  - (* the stop timer: excluded by the premise "no stop pending" of pg_reg / pg_quiet *)
    destruct (pick_min s fin T_stop P) as [Ai _]. cbn [get_tm] in Ai. cbn [callback].
    pose proof (prog_prefire T_stop s fin R P) as P1.
    destruct (stop_fields (prefire T_stop s)) as [[a1 [a2 [a3 [a4 [a5 [a6 [a7 [a8 [a9 [a10 a11]]]]]]]]]] _].
    generalize dependent (devconn_stop (prefire T_stop s)). intros s3 a1 a2 a3 a4 a5 a6 a7 a8 a9 a10 a11.
    destruct P1 as [p1 p2 p3 p4 p5 p6 p7 p8].
    constructor.
    + congruence.
    + congruence.
    + lia.
    + lia.
    + intros x H. apply a10, p5, H.
    + intros N. assert (N1 : nresp (prefire T_stop s) = nresp s) by lia. destruct (p6 N1) as [x1 [x2 x3]].
      repeat split; try congruence.
    + intros _ St. congruence.
    + intros N H1 H3. exfalso. assert (N1 : nresp (prefire T_stop s) = nresp s) by lia.
      assert (H2 : halted (prefire T_stop s) = true) by congruence.
      destruct (prefire_fields T_stop s (r_lat _ R)) as [_ [[_ [_ [_ [_ [_ [_ [_ [_ [_ [_ [hh _]]]]]]]]]]] _]]. cbn zeta in hh. congruence.
  - destruct (prefire_bounds i s fin (conj R WTC) P Hh) as [WB RB].
    eapply Prog_trans; [apply (prog_prefire i s fin R P)|apply prog_callback; auto].
Qed.

Lemma prog_simple s s' : boot s' = boot s -> cycles0 s' = cycles0 s -> now s <= now s' -> nresp s' = nresp s ->
  (forall x, In x (outs s) -> In x (outs s')) -> lastresp s' = lastresp s -> actto s' = actto s -> t_stop s' = t_stop s ->
  (is_registered s = true -> is_registered s' = true) -> halted s' = halted s -> Prog s s'.
Proof.
  intros h1 h2 h3 h4 h5 h6 h7 h8 h9 h10. constructor.
  - exact h1.
  - exact h2.
  - exact h3.
  - lia.
  - exact h5.
  - intros _. repeat split; auto. rewrite h8. auto.
  - intros _ _ HR. left. auto.
  - intros _ H1 H2. congruence.
Qed.
Lemma prog_done s fin : now s < fin -> Prog s (set_now fin s).
Proof. intros H. apply prog_simple; cbn; auto; lia. Qed.
Lemma Advance_prog fin s s' : Advance fin s s' -> All s -> Prog s s'.
Proof.
  induction 1; intros A.
  - apply Prog_refl.
  - destruct (now s <? fin) eqn:E; [apply prog_done; apply Z.ltb_lt; auto|apply Prog_refl].
  - eapply Prog_trans; [eapply fire_prog; eauto|]. apply IHAdvance. eapply fire_all; eauto.
Qed.

Lemma conncb_prog s : Inv cs cc s -> link s = L_PENDING -> Prog s (dev_step s ConnCb).
Proof.
  intros HI Hl. pose proof (i_pending _ _ _ HI Hl) as Hn. cbn in Hn.
  destruct (conncb_fields s) as [[a1 [a2 [a3 [a4 [a5 [a6 [a7 [a8 [a9 [a10 a11]]]]]]]]]] _].
  generalize dependent (dev_step s ConnCb). intros s' a1 a2 a3 a4 a5 a6 a7 a8 a9 a10 a11.
  apply prog_simple; auto; try lia.
  intros HR. apply is_registered_iff in HR. destruct HR as [_ N]. contradiction.
Qed.

Lemma rstep_prog s e s' : sites_ok CallSites = true -> rstep s e s' -> Full s -> Prog s s'.
Proof.
  intros HS H [HI A]. unfold rstep in H.
  assert (WB0 : halted s = false -> WdBound s (now s)) by (intros Hh NW; apply All_wd_bound; auto; apply nowrap_at_now; auto).
  assert (Q1 : TQ s (set_evi (evi s + 1) s)) by apply tq_set_evi.
  assert (A1 : All (set_evi (evi s + 1) s)) by (eapply All_TQ; eauto).
  assert (HI1 : Inv cs cc (set_evi (evi s + 1) s)) by (eapply Inv_core; [|eauto]; reflexivity).
  assert (P1 : Prog s (set_evi (evi s + 1) s)).
  { apply prog_simple; cbn; auto; lia. }
  assert (Hh1 : halted (set_evi (evi s + 1) s) = halted s) by reflexivity.
  generalize dependent (set_evi (evi s + 1) s). intros s1 H Q1 A1 HI1 P1 Hh1.
  destruct (halted s1) eqn:Hh; [subst; auto|]. destruct (env_allows s1 e) eqn:E; [|subst; auto].
  eapply Prog_trans; [exact P1|].
  assert (WB1 : WdBound s1 (now s1)) by (intros NW; apply All_wd_bound; auto; apply nowrap_at_now; auto).
  destruct e; cbn [dev_rstep] in H; try subst s'.
  - destruct (dt <? 0); [subst; apply Prog_refl|]. eapply Advance_prog; eauto.
  - cbn [dev_step]. apply prog_TQ; auto. apply tq_set_wstatus.
  - cbn [env_allows] in E. apply Z.eqb_eq in E. apply conncb_prog; auto.
  - apply prog_TQ; auto. apply tq_disccb.
  - cbn [dev_step].
    assert (T1' : TStep s1 (recv_cb b (emit O_RX [now s1; conn s1; evi s1] s1))) by (eapply TStep_trans; [apply TQ_TStep, tq_emit|apply ts_recv_cb]).
    apply prog_TStep; auto. destruct (link s1 =? L_CLOSING); [|exact T1'].
    generalize dependent (recv_cb b (emit O_RX [now s1; conn s1; evi s1] s1)). intros x T1'. eapply TStep_trans; [exact T1'|]. apply TQ_TStep. apply tq_disc_step.
  - cbn [dev_step]. apply prog_TQ; auto. apply tq_set_liveres.
  - cbn [dev_step]. apply prog_TQ; auto. apply tq_set_script.
  - cbn [dev_step]. apply prog_TQ; auto. apply tq_local_call.
  - cbn [dev_step]. apply prog_TQ; auto. apply tq_set_srvdelay.
  - apply Prog_refl.
Qed.
Lemma RRun_prog s evs s' : sites_ok CallSites = true -> RRun s evs s' -> Full s -> Prog s s'.
Proof.
  intros HS H. induction H; intros F; [apply Prog_refl|].
  eapply Prog_trans; [eapply rstep_prog; eauto|]. apply IHRRun. eapply rstep_full; eauto.
Qed.

(* ---------- C05 end to end: a server that has fallen silent ---------- *)
(* s0: any reachable state; tau: the true time (us since start-up) at which the last call was received, i.e.
   last_response = uptime second of tau; the run s0 --evs--> s1 is arbitrary (local traffic, callbacks, Wi-Fi events, send results,
   timer phases, lateness <= J) except that no call is received in it (nresp unchanged).  The 32-bit microsecond counter may wrap any
   number of times: W = number of wraps between tau and the end of the run, each costs one microsecond (uptime.c counts a cycle
   as 0xffffffff us); the uptime in seconds fits 32 bits. *)
Definition wraps (s : st) (tau x : Z) : Z := (boot s + x) / 4294967296 - (boot s + tau) / 4294967296.
Theorem silent_restart_e2e_thm s0 evs s1 tau : sites_ok CallSites = true -> rreachable cs cc J s0 -> RRun s0 evs s1 ->
  nresp s1 = nresp s0 -> 0 <= cycles0 s0 -> 0 <= boot s0 -> Upt s0 (now s1) < 4294967296 -> lastresp s0 = Upt s0 tau ->
  halted s0 = false -> tau + (WATCHDOG_TIMEOUT_S + 1) * 1000000 + WD_US + J + wraps s0 tau (now s1) <= now s1 ->
  halted s1 = true /\ exists t, now s0 <= t /\ t <= now s1 /\ restart_at t s1 /\
                               t < tau + (WATCHDOG_TIMEOUT_S + 1) * 1000000 + WD_US + J + wraps s0 tau (now s1).
Proof.
  intros HS HR Run N C0' B0 NW L Hh Late.
  pose proof (rreachable_full s0 HS HR) as F0. pose proof (RRun_full _ _ _ HS Run F0) as [_ A1].
  pose proof (RRun_prog _ _ _ HS Run F0) as P. destruct P as [p1 p2 p3 p4 p5 p6 p7 p8].
  destruct (p6 N) as [L1 [T1' _]]. destruct tfacts_ok as [_ [Pw _] Kw].
  assert (NW1 : nowrap s1) by (unfold nowrap, nowrap_at; rewrite p1, p2, (Upt_frame s0 s1) by auto; auto).
  assert (WM : forall x, x <= now s1 -> wraps s0 tau x <= wraps s0 tau (now s1)) by (intros x Hx; unfold wraps; pose proof (wraps_mono (boot s0) x (now s1) Hx); lia).
  assert (H1 : halted s1 = true).
  { destruct (halted s1) eqn:E; auto. exfalso. pose proof (All_wd_bound s1 A1 NW1 E) as Bd.
    rewrite L1, L, (Upt_frame s0 s1) in Bd by auto.
    pose proof (elapsed_bound s0 tau (now s1 - WD_US - J) (WATCHDOG_TIMEOUT_S + 1) ltac:(lia) ltac:(lia)) as EB.
    pose proof (WM (now s1 - WD_US - J) ltac:(lia)). unfold wraps in *. lia. }
  split; auto. destruct (p8 N Hh H1) as [t [t1 [t2 [Rt Bd]]]]. exists t. repeat split; auto.
  assert (NWt : nowrap_at s0 t) by (unfold nowrap_at; repeat split; auto; pose proof (Upt_mono s0 t (now s1) t2); lia).
  specialize (Bd NWt). rewrite L in Bd.
  pose proof (elapsed_bound s0 tau (t - WD_US - J) (WATCHDOG_TIMEOUT_S + 1) ltac:(lia) ltac:(lia)) as EB.
  pose proof (WM (t - WD_US - J) ltac:(lia)). unfold wraps in *. lia.
Qed.

Theorem silent_reconnect_e2e_thm s0 evs s1 tau : sites_ok CallSites = true -> rreachable cs cc J s0 -> RRun s0 evs s1 ->
  nresp s1 = nresp s0 -> 0 <= cycles0 s0 -> 0 <= boot s0 -> Upt s0 (now s1) < 4294967296 -> lastresp s0 = Upt s0 tau ->
  is_registered s0 = true -> armed (t_stop s0) = false -> 0 < actto s0 < 4294966000 ->
  tau + (actto s0 + PING_RECONNECT_PLUS) * 1000000 + T1_US + J + wraps s0 tau (now s1) <= now s1 ->
  exists t, now s0 <= t /\ t <= now s1 /\ disc_at t s1 /\ wifi_at t s1 /\
            t < tau + (actto s0 + PING_RECONNECT_PLUS) * 1000000 + T1_US + J + wraps s0 tau (now s1).
Proof.
  intros HS HR Run N C0' B0 NW L HReg St HT Late.
  pose proof (rreachable_full s0 HS HR) as F0. pose proof (RRun_full _ _ _ HS Run F0) as [_ A1].
  pose proof (RRun_prog _ _ _ HS Run F0) as P. destruct P as [p1 p2 p3 p4 p5 p6 p7 p8].
  destruct (p6 N) as [L1 [T1' _]]. destruct tfacts_ok as [Kp [_ [P1 _]] _].
  assert (NW1 : nowrap s1) by (unfold nowrap, nowrap_at; rewrite p1, p2, (Upt_frame s0 s1) by auto; auto).
  assert (WM : forall x, x <= now s1 -> wraps s0 tau x <= wraps s0 tau (now s1)) by (intros x Hx; unfold wraps; pose proof (wraps_mono (boot s0) x (now s1) Hx); lia).
  destruct (p7 N St HReg) as [HR1|[t [t1 [t2 [D [W Bd]]]]]].
  - exfalso. assert (HT1 : 0 < actto s1 < 4294966000) by (rewrite T1'; auto).
    pose proof (All_t1_bound s1 A1 NW1 HR1 HT1) as Bd. rewrite L1, T1', L, (Upt_frame s0 s1) in Bd by auto.
    pose proof (elapsed_bound s0 tau (now s1 - T1_US - J) (actto s0 + PING_RECONNECT_PLUS) ltac:(lia) ltac:(lia)) as EB.
    pose proof (WM (now s1 - T1_US - J) ltac:(lia)). unfold wraps in *. lia.
  - exists t. repeat split; auto.
    assert (NWt : nowrap_at s0 t) by (unfold nowrap_at; repeat split; auto; pose proof (Upt_mono s0 t (now s1) t2); lia).
    specialize (Bd NWt HT). rewrite L in Bd.
    pose proof (elapsed_bound s0 tau (t - T1_US - J) (actto s0 + PING_RECONNECT_PLUS) ltac:(lia) ltac:(lia)) as EB.
    pose proof (WM (t - T1_US - J) ltac:(lia)). unfold wraps in *. lia.
Qed.
End Timing.

(* ---------- the C04 theorems on the fuel-free semantics ---------- *)
Lemma Advance_no_due_left fin s s' : Advance fin s s' -> halted s' = false ->
  forall i, armed (get_tm i s') = true -> fin < due (get_tm i s').
Proof.
  induction 1; intros Hh j Ha.
  - congruence.
  - assert (E : get_tm j (if now s <? fin then set_now fin s else s) = get_tm j s) by (destruct (now s <? fin); destruct j; reflexivity).
    rewrite E in *. apply (pick_none s fin H0 j Ha).
  - apply IHAdvance; auto.
Qed.
Section FuelFree.
Variables cs cc : bool.
Variable J : Z.
Theorem C04_fuel_free_thm : sites_ok CallSites = true -> forall s p, rreachable cs cc J s -> srpc s = Some p ->
  sid p = conn s /\
  (registered s = 0 -> hist p = []) /\
  (registered s <> 0 -> exists l, hist p = l ++ [REG] /\ forall c, In c l -> is_reg c = false) /\
  (registered s = 1 <-> got_ok p = true) /\
  (got_ok p = false -> forall c, In c (hist p) -> originated c = false) /\
  (forall t, refused_at p = Some t -> armed (t_stop s) = true /\ due (t_stop s) = t + STOP_DELAY_MS * 1000).
Proof.
  intros HS s p HR Hp. pose proof (rreachable_inv cs cc J s HS HR) as HI.
  destruct (i_inst _ _ _ HI p Hp) as [Hsid HP]. cbn in Hsid, HP.
  split; auto. split; [intros R; apply (pi_fresh _ _ HP R)|]. split; [intros R; apply (pi_first _ _ HP R)|].
  split; [apply (pi_ok _ _ HP)|]. split.
  - intros Hg. apply (pi_quiet _ _ HP). intros R. apply (pi_ok _ _ HP) in R. congruence.
  - intros t Ht. apply (i_stop _ _ _ HI p t Hp Ht).
Qed.
Theorem C04_clean_restart_fuel_free_thm : sites_ok CallSites = true -> forall s s',
  cs || cc = true -> rreachable cs cc J s -> halted s = false -> link s = L_PENDING -> rstep s ConnCb s' ->
  espbuf s' = [] /\ recvbuf s' = [] /\ registered s' = 0 /\ srpc s' = Some (fresh_instance (conn s + 1) (now s)) /\ conn s' = conn s + 1.
Proof.
  intros HS s s' Hc HR Hh Hl H. pose proof (rreachable_inv cs cc J s HS HR) as HI.
  unfold rstep in H. set (s1 := set_evi (evi s + 1) s) in *.
  assert (HI1 : Inv cs cc s1) by (eapply Inv_core; [|eauto]; reflexivity).
  change (halted s1) with (halted s) in H. rewrite Hh in H. cbn [env_allows] in H. change (link s1) with (link s) in H.
  rewrite Hl, Z.eqb_refl in H. cbn [dev_rstep] in H. subst s'.
  destruct (conncb_state cs cc s1 HI1 Hl) as [_ [R [P [Cn [_ B]]]]].
  pose proof (i_cs _ _ _ HI) as F1. pose proof (i_cc _ _ _ HI) as F2. cbn in F1, F2.
  change (clrstop s1) with (clrstop s) in B. change (clrconn s1) with (clrconn s) in B.
  rewrite F1, F2 in B. destruct (B Hc) as [B1 B2]. auto.
Qed.
Theorem C04_refusal_stops_fuel_free_thm : sites_ok CallSites = true -> forall s dt s',
  rreachable cs cc J s -> 0 <= dt -> halted s = false -> rstep s (Adv dt) s' -> halted s' = false ->
  forall p' t', srpc s' = Some p' -> refused_at p' = Some t' -> now s + dt < t' + STOP_DELAY_MS * 1000.
Proof.
  intros HS s dt s' HR Hdt Hh H Hh' p' t' Hp' Ht'.
  assert (HR' : rreachable cs cc J s').
  { destruct HR as [b [cyc [d [pay [lt [evs [HL Run]]]]]]]. exists b, cyc, d, pay, lt, (evs ++ [Adv dt]). split; auto.
    clear - Run H. induction Run; [econstructor; [exact H|constructor]|econstructor; eauto]. }
  destruct (C04_fuel_free_thm HS s' p' HR' Hp') as [_ [_ [_ [_ [_ St]]]]]. destruct (St t' Ht') as [A D].
  unfold rstep in H. set (s1 := set_evi (evi s + 1) s) in *. change (halted s1) with (halted s) in H. rewrite Hh in H.
  cbn [env_allows dev_rstep] in H. replace (dt <? 0) with false in H by (symmetry; apply Z.ltb_ge; auto).
  pose proof (Advance_no_due_left _ _ _ H Hh' T_stop A) as L. cbn [get_tm] in L. change (now s1) with (now s) in L. lia.
Qed.
End FuelFree.
