(* Keep-alive abstraction used by the C04 automaton (ghost state) and by the C05 theorems:
   the timer1 decision as a pure function of the integer-second readings, and the abstract timed semantics
   (events stamped with the uptime second) over which the keep-alive bounds are proved.  Definitions only. *)
From Coq Require Import List ZArith Bool.
Import ListNotations.
From V Require Import Base.U32 Gen.C04Consts.
Local Open Scope Z_scope.

Inductive t1act := T1_none | T1_ping | T1_reconnect.
(* supla_esp_devconn_timer1_cb, registered, server_activity_timeout = tmo *)
Definition t1_decide (up ls lr tmo : Z) : t1act :=
  if 0 <? tmo then
    let t1 := u32 (up - ls) in let t2 := u32 (up - lr) in
    if u32 (tmo + PING_RECONNECT_PLUS) <=? t2 then T1_reconnect
    else if ((u32 (tmo - PING_WINDOW_MINUS) <=? t1) && (t1 <=? u32 tmo)) || ((u32 (tmo - PING_WINDOW_MINUS) <=? t2) && (t2 <=? u32 tmo))
    then T1_ping else T1_none
  else T1_none.


(* ---------- abstract keep-alive semantics ---------- *)
Inductive kev := Tick (u : Z) (slot : bool) | Sent (u : Z) | Resp (u : Z).
Definition ktime (e : kev) : Z := match e with Tick u _ => u | Sent u => u | Resp u => u end.

Record kst := mkk {
  k_ls : Z;                 (* last_sent *)
  k_lr : Z;                 (* last_response *)
  k_pr : option Z;          (* a ping queued at that second has not been answered yet *)
  k_ps : option Z;          (* a ping queued at that second has not been transmitted yet *)
  k_lt : Z;                 (* second of the previous timer1 tick *)
  k_cur : Z;                (* second of the previous event *)
  k_bad : bool }.           (* the device decided to reconnect *)

Definition kstep (tmo : Z) (s : kst) (e : kev) : kst :=
  match e with
  | Tick u slot =>
      match t1_decide u (k_ls s) (k_lr s) tmo with
      | T1_reconnect => mkk (k_ls s) (k_lr s) (k_pr s) (k_ps s) u u true
      | T1_ping => if slot
                   then mkk (k_ls s) (k_lr s) (match k_pr s with None => Some u | x => x end) (match k_ps s with None => Some u | x => x end) u u (k_bad s)
                   else mkk (k_ls s) (k_lr s) (k_pr s) (k_ps s) u u (k_bad s)
      | T1_none => mkk (k_ls s) (k_lr s) (k_pr s) (k_ps s) u u (k_bad s)
      end
  | Sent u => mkk u (k_lr s) (k_pr s) None (k_lt s) u (k_bad s)
  | Resp u => mkk (k_ls s) u None (k_ps s) (k_lt s) u (k_bad s)
  end.

(* Conditions on one abstract event.  kder_ok: what follows from the automaton itself (time does not run backwards, uptime
   seconds fit 32 bits, a timer1 tick at least every other second: 1 s period, lateness < 1 s) -- derived in C05/Sim.v.
   kext_ok: what is truly external (server, link, local traffic):
     H_link    a queued ping is accepted by espconn_sent within the next iterate (100 ms), i.e. not later than the next second and
               before the next second's timer1 tick,
     H_prompt  the server answers every ping promptly: no tick later than the second after the one in which the ping was queued,
     H_slot    a free out-queue slot at the ticks where an idle time has reached tmo - 2 (complement of the known finding). *)
Definition kder_ok (s : kst) (e : kev) : bool :=
  (k_cur s <=? ktime e) && (ktime e <? 4294967296) && (ktime e <=? k_lt s + 2).
Definition kext_ok (tmo : Z) (s : kst) (e : kev) : bool :=
  (match k_ps s with Some u0 => ktime e <=? u0 + 1 | None => true end) &&
  match e with
  | Tick u slot =>
      (match k_ps s with Some u0 => u <=? u0 | None => true end) &&
      (match k_pr s with Some u0 => u <=? u0 + 1 | None => true end) &&
      (if (tmo - 2 <=? u - k_ls s) || (tmo - 2 <=? u - k_lr s) then slot else true)
  | Sent u => true
  | Resp u => true
  end.
Definition kenv_ok (tmo : Z) (s : kst) (e : kev) : bool := kder_ok s e && kext_ok tmo s e.

(* start: the register result has just been processed at second u0 (last_response = u0); timer1 ticked at most 1 s ago *)
Definition kinit (u0 ls0 : Z) : kst := mkk ls0 u0 None None u0 u0 false.
