(* C09 — the relational facts FP0..FP3 hold for the primitive-float (IEEE binary64) instance `fops`: proved with Flocq
   (IEEE754.PrimFloat bridge Prim2B / mul_equiv / div_equiv / of_int63_equiv, Bmult_correct, Bdiv_correct, binary_normalize_correct).
   Depends on the standard-library axioms of Reals (ClassicalDedekindReals.sig_not_dec, sig_forall_dec, Classical_Prop.classic,
   functional_extensionality_dep), on FloatAxioms (mul_spec, div_spec, of_uint63_spec, Prim2SF_valid, SF2Prim_Prim2SF, Prim2SF_SF2Prim)
   and on the Uint63 axioms; not imported by Properties_C09.v / Properties_C10.v (the axiom gate of the framework does not list the
   two ClassicalDedekindReals axioms). *)
From Coq Require Import ZArith Reals Floats Lia Lra.
From Flocq Require Import Core IEEE754.BinarySingleNaN IEEE754.PrimFloat.
From V Require Import Base.U32 C09.Model C09.Proofs.
Local Open Scope Z_scope.

(* ---------- f2Z is the truncation of the real value ---------- *)
Lemma f2Z_B2SF x : f2Z x = match B2SF (Prim2B x) with
  | S754_finite s m e => let a := Z.shiftl (Zpos m) e in if s then - a else a
  | _ => 0 end.
Proof. unfold f2Z. now rewrite B2SF_Prim2B. Qed.

Lemma Ztrunc_F2R_pos m e :
  Ztrunc (F2R (Float radix2 (Zpos m) e)) = Z.shiftl (Zpos m) e.
Proof.
  destruct e as [|p|p].
  - rewrite Z.shiftl_0_r. unfold F2R; simpl. rewrite Rmult_1_r. apply Ztrunc_IZR.
  - rewrite Z.shiftl_mul_pow2 by lia.
    unfold F2R; simpl Fnum; simpl Fexp. simpl bpow.
    rewrite <- mult_IZR. rewrite Ztrunc_IZR. rewrite Zpower_pos_powerRZ || idtac.
    reflexivity.
  - change (Z.shiftl (Z.pos m) (Z.neg p)) with (Z.shiftr (Z.pos m) (Z.pos p)).
    rewrite Z.shiftr_div_pow2 by lia.
    unfold F2R; simpl Fnum; simpl Fexp. simpl bpow.
    rewrite Ztrunc_floor.
    + change (Zfloor (IZR (Z.pos m) / IZR (2 ^ Z.pos p)) = Z.pos m / 2 ^ Z.pos p).
      rewrite Zfloor_div. reflexivity.
      change (Z.pow_pos radix2 p) with (2 ^ Z.pos p). lia.
    + apply Rmult_le_pos. apply IZR_le; lia.
      apply Rlt_le, Rinv_0_lt_compat. apply IZR_lt.
      change (Z.pow_pos radix2 p) with (2 ^ Z.pos p). lia.
Qed.

Lemma f2Z_trunc x : f2Z x = Ztrunc (B2R (Prim2B x)).
Proof.
  rewrite f2Z_B2SF. destruct (Prim2B x) as [s|s| |s m e H]; simpl B2SF; simpl B2R;
    try (symmetry; apply (Ztrunc_IZR 0)).
  rewrite F2R_cond_Zopp. cbv zeta. destruct s; simpl cond_Ropp.
  - rewrite Ztrunc_opp, Ztrunc_F2R_pos. reflexivity.
  - apply eq_sym, Ztrunc_F2R_pos.
Qed.

(* ---------- binary64 rounding and representable numbers ---------- *)
Notation fexp64 := (SpecFloat.fexp prec emax).
Notation fmt := (generic_format radix2 fexp64).
Definition rnd (x : R) : R := round radix2 fexp64 ZnearestE x.

Local Instance fexp64_valid : Valid_exp fexp64 := fexp_correct prec emax Hprec.
Local Instance fexp64_mono : Monotone_exp fexp64.
Proof. apply (fexp_monotone prec emax). Qed.

(* m / 2^s with |m| < 2^53 and 0 <= s <= 1074 is a binary64 number *)
Lemma fmt_dyadic m s : Z.abs m < 2 ^ 53 -> 0 <= s <= 1074 -> fmt (IZR m / IZR (2 ^ s)).
Proof.
  intros Hm Hs.
  apply (generic_format_FLT radix2 (-1074) 53).
  apply (FLT_spec radix2 (-1074) 53 _ (Float radix2 m (- s))).
  - unfold F2R; simpl Fnum; simpl Fexp. rewrite bpow_opp. rewrite <- IZR_Zpower by lia. reflexivity.
  - exact Hm.
  - simpl. lia.
Qed.
Lemma fmt_Z m : Z.abs m < 2 ^ 53 -> fmt (IZR m).
Proof.
  intros. replace (IZR m) with (IZR m / IZR (2 ^ 0))%R. apply fmt_dyadic; lia.
  simpl. field.
Qed.

Lemma rnd_id x : fmt x -> rnd x = x.
Proof. apply round_generic; auto with typeclass_instances. Qed.
Lemma rnd_le_fmt x y : fmt y -> (x <= y)%R -> (rnd x <= y)%R.
Proof. apply round_le_generic; auto with typeclass_instances. Qed.
Lemma rnd_ge_fmt x y : fmt x -> (x <= y)%R -> (x <= rnd y)%R.
Proof. apply round_ge_generic; auto with typeclass_instances. Qed.
Lemma rnd_abs_le x y : fmt y -> (Rabs x <= y)%R -> (Rabs (rnd x) <= y)%R.
Proof. apply abs_round_le_generic; auto with typeclass_instances. Qed.

Lemma IZR_lt_emax n : n < 2 ^ 53 -> (IZR n < bpow radix2 emax)%R.
Proof.
  intros. apply Rlt_le_trans with (IZR (2 ^ 53)). now apply IZR_lt.
  rewrite (IZR_Zpower radix2) by lia. apply bpow_le. unfold emax; lia.
Qed.

(* a float that is finite and has the real value x *)
Definition repr (f : Floats.PrimFloat.float) (x : R) : Prop :=
  is_finite (Prim2B f) = true /\ B2R (Prim2B f) = x.

Lemma repr_mul a b x y n : repr a x -> repr b y -> 0 <= n < 2 ^ 53 -> (Rabs (x * y) <= IZR n)%R ->
  repr (PrimFloat.mul a b) (rnd (x * y)).
Proof.
  intros [Fa Ha] [Fb Hb] Hn Hxy. unfold repr. rewrite mul_equiv.
  generalize (Bmult_correct prec emax Hprec Hmax mode_NE (Prim2B a) (Prim2B b)).
  rewrite Ha, Hb, Fa, Fb. simpl round_mode. fold (rnd (x * y)).
  rewrite Rlt_bool_true.
  - intros (H1 & H2 & _). split; assumption.
  - apply Rle_lt_trans with (IZR n). apply rnd_abs_le; auto. apply fmt_Z; lia.
    apply IZR_lt_emax; lia.
Qed.

Lemma repr_div a b x y n : repr a x -> repr b y -> y <> 0%R -> 0 <= n < 2 ^ 53 -> (Rabs (x / y) <= IZR n)%R ->
  repr (PrimFloat.div a b) (rnd (x / y)).
Proof.
  intros [Fa Ha] [Fb Hb] Hy Hn Hxy. unfold repr. rewrite div_equiv.
  generalize (Bdiv_correct prec emax Hprec Hmax mode_NE (Prim2B a) (Prim2B b)).
  rewrite Ha, Hb, Fa. simpl round_mode. fold (rnd (x / y)). intros H; specialize (H Hy); revert H.
  rewrite Rlt_bool_true.
  - intros (H1 & H2 & _). split; assumption.
  - apply Rle_lt_trans with (IZR n). apply rnd_abs_le; auto. apply fmt_Z; lia.
    apply IZR_lt_emax; lia.
Qed.

Lemma repr_Z2f z : 0 <= z < 2 ^ 53 -> repr (Z2f z) (IZR z).
Proof.
  intros Hz. unfold Z2f. destruct (Z.ltb_spec z 0); [lia|].
  unfold repr. rewrite of_int63_equiv.
  rewrite Uint63.of_Z_spec, Z.mod_small by (change Uint63.wB with (2 ^ 63); lia).
  generalize (binary_normalize_correct prec emax Hprec Hmax mode_NE z 0 false).
  cbv zeta. simpl round_mode.
  replace (F2R (Float radix2 z 0)) with (IZR z) by (unfold F2R; simpl; ring).
  fold (rnd (IZR z)). rewrite rnd_id by (apply fmt_Z; lia).
  rewrite Rlt_bool_true.
  - intros (H1 & H2 & _). split; assumption.
  - rewrite Rabs_pos_eq by (apply IZR_le; lia). apply IZR_lt_emax; lia.
Qed.

Lemma f_one_Z2f : f_one = Z2f 1. Proof. vm_compute. reflexivity. Qed.
Lemma f_10000_Z2f : f_10000 = Z2f 10000. Proof. vm_compute. reflexivity. Qed.
Lemma repr_one : repr f_one 1%R.
Proof. rewrite f_one_Z2f. apply (repr_Z2f 1). lia. Qed.
Lemma repr_10000 : repr f_10000 10000%R.
Proof. rewrite f_10000_Z2f. apply (repr_Z2f 10000). lia. Qed.

Lemma f2Z_repr f x : repr f x -> f2Z f = Ztrunc x.
Proof. intros [_ H]. rewrite f2Z_trunc. now rewrite H. Qed.

(* ---------- FP0 ---------- *)
Lemma Z2f_0 : Z2f 0 = 0%float. Proof. vm_compute. reflexivity. Qed.
Lemma f2Z_mul_zero a : f2Z (PrimFloat.mul a 0%float) = 0.
Proof.
  rewrite f2Z_B2SF, mul_equiv.
  assert (H0 : B2SF (Prim2B 0%float) = S754_zero false) by (rewrite B2SF_Prim2B; vm_compute; reflexivity).
  destruct (Prim2B 0%float) as [s0|s0| |s0 m0 e0 H]; try discriminate H0.
  destruct (Prim2B a); reflexivity.
Qed.
Theorem fops_FP0 : forall r, fp_rem fops r 0 = 0.
Proof. intros r. simpl fp_rem. rewrite Z2f_0, f2Z_mul_zero. reflexivity. Qed.

(* ---------- one rounding of a quotient of integers, then truncation ---------- *)
Lemma Rdiv_le_Z a b c d : 0 < b -> 0 < d -> a * d <= c * b -> (IZR a / IZR b <= IZR c / IZR d)%R.
Proof.
  intros Hb Hd H.
  assert (0 < IZR b)%R by now apply IZR_lt. assert (0 < IZR d)%R by now apply IZR_lt.
  apply Rmult_le_reg_r with (IZR b * IZR d)%R. now apply Rmult_lt_0_compat.
  replace (IZR a / IZR b * (IZR b * IZR d))%R with (IZR a * IZR d)%R by (field; lra).
  replace (IZR c / IZR d * (IZR b * IZR d))%R with (IZR c * IZR b)%R by (field; lra).
  rewrite <- !mult_IZR. now apply IZR_le.
Qed.
Lemma Rdiv_lt_Z a b c d : 0 < b -> 0 < d -> a * d < c * b -> (IZR a / IZR b < IZR c / IZR d)%R.
Proof.
  intros Hb Hd H.
  assert (0 < IZR b)%R by now apply IZR_lt. assert (0 < IZR d)%R by now apply IZR_lt.
  apply Rmult_lt_reg_r with (IZR b * IZR d)%R. now apply Rmult_lt_0_compat.
  replace (IZR a / IZR b * (IZR b * IZR d))%R with (IZR a * IZR d)%R by (field; lra).
  replace (IZR c / IZR d * (IZR b * IZR d))%R with (IZR c * IZR b)%R by (field; lra).
  rewrite <- !mult_IZR. now apply IZR_lt.
Qed.
Lemma IZR_div1 a : IZR a = (IZR a / IZR 1)%R. Proof. simpl; field. Qed.

Lemma rnd_quot_bounds n d s : 0 <= n -> 0 < d -> 0 <= s <= 1074 -> d <= 2 ^ s -> (n / d + 1) * 2 ^ s <= 2 ^ 53 ->
  (IZR (n / d) <= rnd (IZR n / IZR d) < IZR (n / d + 1))%R.
Proof.
  intros Hn Hd Hs Hds Hb.
  set (k := n / d). fold k in Hb.
  assert (Hk0 : 0 <= k) by (apply Z.div_pos; lia).
  assert (Hk1 : d * k <= n) by (apply Z.mul_div_le; lia).
  assert (Hk2 : n < d * k + d) by (pose proof (Z.mul_succ_div_gt n d ltac:(lia)); fold k in H; lia).
  assert (HP : 0 < 2 ^ s) by (apply Z.pow_pos_nonneg; lia).
  set (P := 2 ^ s) in *.
  assert (HkP : k + 1 <= 2 ^ 53) by nia.
  split.
  - apply rnd_ge_fmt. apply fmt_Z. lia.
    rewrite (IZR_div1 k). apply Rdiv_le_Z; lia.
  - apply Rle_lt_trans with (IZR ((k + 1) * P - 1) / IZR P)%R.
    + apply rnd_le_fmt. apply fmt_dyadic; lia.
      apply Rdiv_le_Z; try lia. nia.
    + rewrite (IZR_div1 (k + 1)). apply Rdiv_lt_Z; lia.
Qed.

Lemma trunc_rnd_quot n d s : 0 <= n -> 0 < d -> 0 <= s <= 1074 -> d <= 2 ^ s -> (n / d + 1) * 2 ^ s <= 2 ^ 53 ->
  Ztrunc (rnd (IZR n / IZR d)) = n / d.
Proof.
  intros Hn Hd Hs Hds Hb.
  pose proof (rnd_quot_bounds n d s Hn Hd Hs Hds Hb) as [H1 H2].
  assert (0 <= n / d) by (apply Z.div_pos; lia).
  rewrite Ztrunc_floor. apply Zfloor_imp. split; assumption.
  apply Rle_trans with (2 := H1). apply IZR_le. assumption.
Qed.

(* exact products of integers below 2^53 *)
Lemma repr_mul_Z a b x y : repr a (IZR x) -> repr b (IZR y) -> 0 <= x -> 0 <= y -> x * y < 2 ^ 53 ->
  repr (PrimFloat.mul a b) (IZR (x * y)).
Proof.
  intros Ha Hb Hx Hy Hxy.
  rewrite <- (rnd_id (IZR (x * y))) by (apply fmt_Z; nia).
  rewrite mult_IZR. apply (repr_mul a b _ _ (x * y)); auto. nia.
  rewrite <- mult_IZR, Rabs_pos_eq. apply Rle_refl. apply IZR_le; nia.
Qed.

Lemma repr_div_Z a b x y n : repr a (IZR x) -> repr b (IZR y) -> 0 <= x -> 0 < y -> 0 <= n < 2 ^ 53 -> x <= n * y ->
  repr (PrimFloat.div a b) (rnd (IZR x / IZR y)).
Proof.
  intros Ha Hb Hx Hy Hn Hxy.
  assert (0 < IZR y)%R by now apply IZR_lt.
  apply (repr_div a b _ _ n); auto. lra.
  rewrite Rabs_pos_eq.
  - rewrite (IZR_div1 n). apply Rdiv_le_Z; lia.
  - apply Rmult_le_pos. now apply IZR_le. apply Rlt_le, Rinv_0_lt_compat; assumption.
Qed.

(* ---------- FP3 ---------- *)
Theorem fops_FP3 : forall d T, 0 <= d <= 10000 -> 0 <= T < 4294967296 -> fp_tod fops d T = d * T / 10000.
Proof.
  intros d T Hd HT. simpl fp_tod.
  assert (H1 : repr (PrimFloat.mul f_one (Z2f d)) (IZR (1 * d))).
  { apply repr_mul_Z; try lia. apply repr_one. apply repr_Z2f; lia. }
  rewrite Z.mul_1_l in H1.
  assert (H2 : repr (PrimFloat.mul (PrimFloat.mul f_one (Z2f d)) (Z2f T)) (IZR (d * T))).
  { apply repr_mul_Z; try lia. exact H1. apply repr_Z2f; lia. nia. }
  assert (H3 : repr (PrimFloat.div (PrimFloat.mul (PrimFloat.mul f_one (Z2f d)) (Z2f T)) f_10000)
                 (rnd (IZR (d * T) / IZR 10000))).
  { apply (repr_div_Z _ _ _ _ 4294967296); try lia; try nia. exact H2. apply repr_10000. }
  rewrite (f2Z_repr _ _ H3).
  assert (Hq : 0 <= d * T / 10000 <= T).
  { split. apply Z.div_pos; nia. apply Z.div_le_upper_bound; nia. }
  assert (H4 : Ztrunc (rnd (IZR (d * T) / IZR 10000)) = d * T / 10000).
  { apply (trunc_rnd_quot _ _ 14); try lia; try nia. }
  rewrite H4. apply u32_small. lia.
Qed.

(* ---------- FP2 ---------- *)
Theorem fops_FP2 : forall t T, 0 <= t < 4294967296 -> 0 < T < 4294967296 -> 10000 * t < 1048576 * T ->
  fp_dot fops t T = 10000 * t / T.
Proof.
  intros t T Ht HT Hlt. simpl fp_dot.
  assert (H1 : repr (PrimFloat.mul f_10000 (Z2f t)) (IZR (10000 * t))).
  { apply repr_mul_Z; try lia. apply repr_10000. apply repr_Z2f; lia. }
  assert (H2 : repr (PrimFloat.div (PrimFloat.mul f_10000 (Z2f t)) (Z2f T)) (rnd (IZR (10000 * t) / IZR T))).
  { apply (repr_div_Z _ _ _ _ 1048576); try lia. exact H1. apply repr_Z2f; lia. }
  rewrite (f2Z_repr _ _ H2).
  assert (Hq : 0 <= 10000 * t / T < 1048576).
  { split. apply Z.div_pos; lia. apply Z.div_lt_upper_bound; lia. }
  apply (trunc_rnd_quot _ _ 32); lia.
Qed.

(* ---------- FP1: two roundings ---------- *)
Lemma rnd_err x e : (Rabs x <= bpow radix2 e)%R ->
  (Rabs (rnd x - x) <= / 2 * bpow radix2 (fexp64 (e + 1)))%R.
Proof.
  intros H. unfold rnd. eapply Rle_trans. apply error_le_half_ulp; auto with typeclass_instances.
  apply Rmult_le_compat_l. lra.
  rewrite <- ulp_bpow. apply ulp_le; auto with typeclass_instances.
  rewrite (Rabs_pos_eq (bpow radix2 e)) by apply bpow_ge_0. exact H.
Qed.

Lemma fmt_0 : fmt 0%R. Proof. apply (fmt_Z 0). lia. Qed.
Lemma fmt_1 : fmt 1%R. Proof. apply (fmt_Z 1). lia. Qed.

Theorem fops_FP1 : forall r T, 0 <= r <= 10000 -> 0 < T < 4294967296 ->
  r * T / 10000 - 1 <= fp_rem fops r T <= r * T / 10000 + 1.
Proof.
  intros r T Hr HT. simpl fp_rem.
  assert (H1 : repr (PrimFloat.mul f_one (Z2f r)) (IZR (1 * r))).
  { apply repr_mul_Z; try lia. apply repr_one. apply repr_Z2f; lia. }
  rewrite Z.mul_1_l in H1.
  set (q := (IZR r / IZR 10000)%R).
  assert (Hq : (0 <= q <= 1)%R).
  { unfold q. split.
    - replace 0%R with (IZR 0 / IZR 1)%R by (simpl; field). apply Rdiv_le_Z; lia.
    - replace 1%R with (IZR 1 / IZR 1)%R by (simpl; field). apply Rdiv_le_Z; lia. }
  assert (H2 : repr (PrimFloat.div (PrimFloat.mul f_one (Z2f r)) f_10000) (rnd q)).
  { apply (repr_div_Z _ _ _ _ 1); try lia. exact H1. apply repr_10000. }
  set (y := rnd q) in *.
  assert (Hy : (0 <= y <= 1)%R).
  { split. apply rnd_ge_fmt. apply fmt_0. apply Hq. apply rnd_le_fmt. apply fmt_1. apply Hq. }
  assert (Ey : (Rabs (y - q) <= / 2 * / 4503599627370496)%R).
  { generalize (rnd_err q 0). simpl bpow. change (Z.pow_pos 2 52) with 4503599627370496.
    intros H; apply H. rewrite Rabs_pos_eq; apply Hq. }
  set (Tr := IZR T).
  assert (HTr : (0 < Tr <= 4294967295)%R).
  { unfold Tr. split. apply IZR_lt; lia. apply IZR_le; lia. }
  assert (HyT : (0 <= y * Tr <= Tr)%R) by nra.
  assert (H3 : repr (PrimFloat.mul (PrimFloat.div (PrimFloat.mul f_one (Z2f r)) f_10000) (Z2f T)) (rnd (y * Tr))).
  { apply (repr_mul _ _ _ _ T). exact H2. apply repr_Z2f; lia. lia.
    rewrite Rabs_pos_eq; apply HyT. }
  set (z := rnd (y * Tr)) in *.
  assert (Hz : (0 <= z <= Tr)%R).
  { split. apply rnd_ge_fmt. apply fmt_0. apply HyT. apply rnd_le_fmt. apply fmt_Z; lia. apply HyT. }
  assert (Ez : (Rabs (z - y * Tr) <= / 2 * / 1048576)%R).
  { generalize (rnd_err (y * Tr) 32). simpl bpow.
    change (Z.pow_pos 2 20) with 1048576. change (Z.pow_pos 2 32) with 4294967296.
    intros H; apply H. rewrite Rabs_pos_eq by apply HyT. lra. }
  rewrite (f2Z_repr _ _ H3).
  rewrite Ztrunc_floor by apply Hz.
  set (K := r * T / 10000).
  set (a := (IZR (r * T) / IZR 10000)%R).
  assert (HK : (IZR K <= a < IZR K + 1)%R).
  { unfold K. rewrite <- (Zfloor_div (r * T) 10000) by lia. fold a. split. apply Zfloor_lb. apply Zfloor_ub. }
  assert (Ha : a = (q * Tr)%R).
  { unfold a, q, Tr. rewrite mult_IZR. field. }
  assert (Hza : (a - 1 < z < a + 1)%R).
  { apply Rabs_le_inv in Ey. apply Rabs_le_inv in Ez.
    assert (- (/ 2 * / 4503599627370496 * 4294967295) <= (y - q) * Tr <= / 2 * / 4503599627370496 * 4294967295)%R by nra.
    rewrite Ha. lra. }
  assert (Hf0 : 0 <= Zfloor z) by (apply Zfloor_lub; apply Hz).
  assert (Hf1 : Zfloor z <= T).
  { apply le_IZR. apply Rle_trans with z. apply Zfloor_lb. apply Hz. }
  rewrite u32_small by lia.
  split.
  - apply Zfloor_lub. rewrite minus_IZR. lra.
  - apply Z.lt_succ_r. apply lt_IZR. apply Rle_lt_trans with z. apply Zfloor_lb.
    unfold Z.succ. rewrite !plus_IZR. lra.
Qed.

Theorem fops_ok : fp_ok fops.
Proof. constructor. exact fops_FP0. exact fops_FP1. exact fops_FP2. exact fops_FP3. Qed.

Print Assumptions fops_FP0.
Print Assumptions fops_FP1.
Print Assumptions fops_FP2.
Print Assumptions fops_FP3.
Print Assumptions fops_ok.
